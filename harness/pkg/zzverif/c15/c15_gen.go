//go:build verif

package c15

import (
	"fmt"
	"strings"

	"src.elv.sh/pkg/zzverif/vk"
)

// Program generators: each family is a finite, completely enumerated list of
// programs, indexed 0..N-1.

type c15Family struct {
	Name  string
	N     int
	Build func(i int) (prog *c15Chunk, shape string)
}

func c15Families(c *vk.Ctx) []c15Family {
	fams := c15BaseFamilies(c)
	if c.Thorough() {
		fams = append(fams, c15FamNestsDeep(c))
	}
	return fams
}

func c15BaseFamilies(c *vk.Ctx) []c15Family {
	return []c15Family{
		c15FamLogic(c),
		c15FamArgs(c),
		c15FamNests(c),
		c15FamScopes(c),
		c15FamPipes(c),
		c15FamValues(c),
		c15FamAssign(c),
		c15FamArith(c),
		c15FamRange(c),
		c15FamClosures(c),
		c15FamOrder(c),
		c15FamIndex(c),
	}
}

// ---- family 5: and / or / coalesce ----

func c15FamLogic(c *vk.Ctx) c15Family {
	maxOps := vk.Pick(c, 3, 4)
	pool := []struct {
		name string
		e    c15Expr
	}{
		{"T", c15V("true")}, {"F", c15V("false")}, {"N", c15V("nil")},
		{"fail", &c15Cap{c15Stmts(c15C("fail", c15S("x")))}},
		{"s", c15S("a")},
		{"exc", &c15ExcCap{c15Stmts(c15C("fail", c15S("y")))}},
		{"none", &c15Cap{c15Stmts(c15C("put"))}},
		{"two", &c15Cap{c15Stmts(c15C("put", c15V("false"), c15S("b")))}},
		{"side", &c15Cap{c15Stmts(c15C("put", c15S("p")), c15C("put", c15V("nil")))}},
	}
	ops := []string{"and", "or", "coalesce"}
	// number of operand sequences of length 0..maxOps
	var seqs [][]int
	var rec func(cur []int)
	rec = func(cur []int) {
		seqs = append(seqs, append([]int{}, cur...))
		if len(cur) == maxOps {
			return
		}
		for i := range pool {
			rec(append(cur, i))
		}
	}
	rec(nil)
	wrappers := 3 // bare; inside output capture feeding put; operand of an outer `or`
	return c15Family{Name: "logic", N: len(seqs) * len(ops) * wrappers, Build: func(i int) (*c15Chunk, string) {
		w := i % wrappers
		i /= wrappers
		op := ops[i%len(ops)]
		seq := seqs[i/len(ops)]
		n := &c15Logic{Op: op}
		shape := op
		for _, k := range seq {
			n.Args = append(n.Args, pool[k].e)
			shape += "-" + pool[k].name
		}
		var prog *c15Chunk
		switch w {
		case 0:
			prog = c15Stmts(c15C("put", c15S("pre")), n, c15C("put", c15S("post")))
		case 1:
			prog = c15Stmts(c15C("put", &c15List{[]c15Expr{&c15Cap{c15Stmts(n)}}}))
		default:
			prog = c15Stmts(&c15Logic{Op: "or", Args: []c15Expr{&c15Cap{c15Stmts(n)}, c15S("z")}})
		}
		if len(seq) > 2 {
			shape = fmt.Sprintf("%s-%d-w%d", op, len(seq), w)
		} else {
			shape += fmt.Sprintf("-w%d", w)
		}
		return prog, shape
	}}
}

// ---- family 1: control nests ----

type c15Level struct {
	name string
	wrap func(k string, body []c15Form) []c15Form
}

func c15Put(ss ...string) *c15Cmd { return c15C("put", c15Strs(ss...)...) }

func c15Block(fs []c15Form) *c15Chunk { return c15Stmts(fs...) }

func c15Levels() []c15Level {
	lst := func(ss ...string) c15Expr { return &c15List{c15Strs(ss...)} }
	return []c15Level{
		{"for", func(k string, b []c15Form) []c15Form {
			return []c15Form{&c15For{Var: "x" + k, Cont: lst("1", "2"), Body: c15Block(b)}}
		}},
		{"while", func(k string, b []c15Form) []c15Form {
			i := "i" + k
			body := append([]c15Form{&c15Assign{Kind: "set", LHS: []c15LValue{{Name: i}}, HasEq: true,
				RHS: []c15Expr{&c15Cap{c15Stmts(c15C("+", c15V(i), c15S("1")))}}}}, b...)
			return []c15Form{
				&c15Assign{Kind: "var", LHS: []c15LValue{{Name: i}}, HasEq: true, RHS: c15Strs("0")},
				&c15While{Cond: &c15Cap{c15Stmts(c15C("<", c15V(i), c15S("2")))}, Body: c15Block(body)},
			}
		}},
		{"try-catch", func(k string, b []c15Form) []c15Form {
			return []c15Form{&c15Try{Body: c15Block(b), CatchVar: "e" + k, Catch: c15Stmts(c15C("put", c15S("c"+k), c15V("e"+k)))}}
		}},
		{"try-finally", func(k string, b []c15Form) []c15Form {
			return []c15Form{&c15Try{Body: c15Block(b), Finally: c15Stmts(c15Put("f" + k))}}
		}},
		{"try-all", func(k string, b []c15Form) []c15Form {
			return []c15Form{&c15Try{Body: c15Block(b), CatchVar: "e" + k, Catch: c15Stmts(c15Put("c" + k)),
				Else: c15Stmts(c15Put("l" + k)), Finally: c15Stmts(c15Put("f" + k))}}
		}},
		{"if", func(k string, b []c15Form) []c15Form {
			return []c15Form{&c15If{Conds: []c15Expr{c15V("true")}, Bodies: []*c15Chunk{c15Block(b)}, Else: c15Stmts(c15Put("no"))}}
		}},
		{"elif", func(k string, b []c15Form) []c15Form {
			return []c15Form{&c15If{Conds: []c15Expr{c15V("false"), &c15Cap{c15Stmts(c15C("put", c15V("true")))}},
				Bodies: []*c15Chunk{c15Stmts(c15Put("no")), c15Block(b)}, Else: c15Stmts(c15Put("no"))}}
		}},
		{"else", func(k string, b []c15Form) []c15Form {
			return []c15Form{&c15If{Conds: []c15Expr{c15V("nil")}, Bodies: []*c15Chunk{c15Stmts(c15Put("no"))}, Else: c15Block(b)}}
		}},
		{"fn", func(k string, b []c15Form) []c15Form {
			return []c15Form{&c15Fn{Name: "f" + k, L: c15Lam(c15Block(b))}, c15C("f" + k)}
		}},
		{"lambda", func(k string, b []c15Form) []c15Form {
			return []c15Form{&c15Cmd{HeadExpr: c15Lam(c15Block(b))}}
		}},
		{"each-arg", func(k string, b []c15Form) []c15Form {
			return []c15Form{c15C("each", c15Lam(c15Block(b), "y"+k), lst("1", "2"))}
		}},
		{"pipe-each", func(k string, b []c15Form) []c15Form {
			return []c15Form{c15P(c15Put("1", "2"), c15C("each", c15Lam(c15Block(b), "y"+k)))}
		}},
		{"capture", func(k string, b []c15Form) []c15Form {
			return []c15Form{c15C("put", &c15Cap{c15Block(b)})}
		}},
		{"exc-capture", func(k string, b []c15Form) []c15Form {
			return []c15Form{c15C("put", &c15ExcCap{c15Block(b)})}
		}},
		{"in-catch", func(k string, b []c15Form) []c15Form {
			return []c15Form{&c15Try{Body: c15Stmts(c15C("fail", c15S("t"+k))), CatchVar: "e" + k, Catch: c15Block(b)}}
		}},
		{"in-finally", func(k string, b []c15Form) []c15Form {
			return []c15Form{&c15Try{Body: c15Stmts(c15Put("t" + k)), Finally: c15Block(b)}}
		}},
		{"in-finally-pending", func(k string, b []c15Form) []c15Form {
			return []c15Form{&c15Try{Body: c15Stmts(c15C("fail", c15S("t"+k))), Finally: c15Block(b)}}
		}},
		{"in-else", func(k string, b []c15Form) []c15Form {
			return []c15Form{&c15Try{Body: c15Stmts(c15Put("t" + k)), CatchVar: "e" + k, Catch: c15Stmts(c15Put("c" + k)), Else: c15Block(b)}}
		}},
		{"for-else", func(k string, b []c15Form) []c15Form {
			return []c15Form{&c15For{Var: "x" + k, Cont: lst(), Body: c15Stmts(c15Put("never")), Else: c15Block(b)}}
		}},
		{"while-else", func(k string, b []c15Form) []c15Form {
			return []c15Form{&c15While{Cond: c15V("false"), Body: c15Stmts(c15Put("never")), Else: c15Block(b)}}
		}},
		{"for+else", func(k string, b []c15Form) []c15Form {
			return []c15Form{&c15For{Var: "x" + k, Cont: lst("1", "2"), Body: c15Block(b), Else: c15Stmts(c15Put("else" + k))}}
		}},
		{"while-true+else", func(k string, b []c15Form) []c15Form {
			// while $true: the body must end the loop itself; a counter stops a runaway loop with an exception
			i := "j" + k
			guard := &c15If{Conds: []c15Expr{&c15Cap{c15Stmts(c15C(">", c15V(i), c15S("2")))}}, Bodies: []*c15Chunk{c15Stmts(c15C("fail", c15S("runaway")))}}
			body := append([]c15Form{&c15Assign{Kind: "set", LHS: []c15LValue{{Name: i}}, HasEq: true,
				RHS: []c15Expr{&c15Cap{c15Stmts(c15C("+", c15V(i), c15S("1")))}}}, guard}, b...)
			return []c15Form{
				&c15Assign{Kind: "var", LHS: []c15LValue{{Name: i}}, HasEq: true, RHS: c15Strs("0")},
				&c15While{Cond: c15V("true"), Body: c15Block(body), Else: c15Stmts(c15Put("else" + k))},
			}
		}},
		{"pipe-count", func(k string, b []c15Form) []c15Form {
			return []c15Form{c15P(&c15Cmd{HeadExpr: c15Lam(c15Block(b))}, c15C("count"))}
		}},
		{"pipe-last", func(k string, b []c15Form) []c15Form {
			return []c15Form{c15P(c15Put("1"), &c15Cmd{HeadExpr: c15Lam(c15Block(b))})}
		}},
		{"or-operand", func(k string, b []c15Form) []c15Form {
			return []c15Form{&c15Logic{Op: "or", Args: []c15Expr{c15V("false"), &c15Cap{c15Block(b)}}}}
		}},
		{"var-exc", func(k string, b []c15Form) []c15Form {
			return []c15Form{&c15Assign{Kind: "var", LHS: []c15LValue{{Name: "v" + k}}, HasEq: true, RHS: []c15Expr{&c15ExcCap{c15Block(b)}}},
				c15C("put", c15V("v"+k))}
		}},
		{"if-cond", func(k string, b []c15Form) []c15Form {
			return []c15Form{&c15If{Conds: []c15Expr{&c15Cap{c15Block(b)}}, Bodies: []*c15Chunk{c15Stmts(c15Put("yes" + k))}}}
		}},
		{"for-container", func(k string, b []c15Form) []c15Form {
			return []c15Form{&c15For{Var: "x" + k, Cont: &c15List{[]c15Expr{&c15Cap{c15Block(b)}}}, Body: c15Stmts(c15C("put", c15V("x"+k)))}}
		}},
	}
}

func c15Actions() []struct {
	name string
	f    []c15Form
} {
	return []struct {
		name string
		f    []c15Form
	}{
		{"put", []c15Form{c15Put("v")}},
		{"fail", []c15Form{c15C("fail", c15S("x"))}},
		{"break", []c15Form{c15C("break")}},
		{"continue", []c15Form{c15C("continue")}},
		{"return", []c15Form{c15C("return")}},
		{"nop", []c15Form{c15C("nop")}},
		{"rethrow-break", []c15Form{c15C("fail", &c15ExcCap{c15Stmts(c15C("break"))})}},
		{"fail-list", []c15Form{c15C("fail", &c15List{c15Strs("x")})}},
	}
}

func c15FamNests(c *vk.Ctx) c15Family {
	return c15NestFamily("nests", c15Levels(), 1, 3)
}

// c15FamNestsDeep (thorough tier): depth exactly 4 over the twelve basic levels.
func c15FamNestsDeep(c *vk.Ctx) c15Family {
	basic := map[string]bool{"for": true, "while": true, "try-catch": true, "try-finally": true, "try-all": true, "elif": true,
		"fn": true, "lambda": true, "each-arg": true, "pipe-each": true, "capture": true, "exc-capture": true}
	var levels []c15Level
	for _, l := range c15Levels() {
		if basic[l.name] {
			levels = append(levels, l)
		}
	}
	return c15NestFamily("nests-deep", levels, 4, 4)
}

func c15NestFamily(name string, levels []c15Level, minDepth, depth int) c15Family {
	actions := c15Actions()
	// all level sequences of length minDepth..depth, shortest first
	counts := []int{}
	total := 0
	pow := 1
	for d := 1; d <= depth; d++ {
		pow *= len(levels)
		n := pow * len(actions)
		if d < minDepth {
			n = 0
		}
		counts = append(counts, n)
		total += n
	}
	return c15Family{Name: name, N: total, Build: func(i int) (*c15Chunk, string) {
		d := 1
		for i >= counts[d-1] {
			i -= counts[d-1]
			d++
		}
		act := actions[i%len(actions)]
		i /= len(actions)
		seq := make([]int, d) // seq[0] outermost
		for j := d - 1; j >= 0; j-- {
			seq[j] = i % len(levels)
			i /= len(levels)
		}
		body := act.f
		for j := d - 1; j >= 0; j-- {
			k := fmt.Sprint(j)
			b := append([]c15Form{c15Put("b" + k)}, body...)
			b = append(b, c15Put("a"+k))
			body = levels[seq[j]].wrap(k, b)
		}
		prog := append([]c15Form{c15Put("start")}, body...)
		prog = append(prog, c15Put("end"))
		shape := act.name
		for j := 0; j < d && j < 2; j++ {
			shape += ">" + levels[seq[j]].name
		}
		if d > 2 {
			shape += fmt.Sprintf(">+%d", d-2)
		}
		return c15Stmts(prog...), shape
	}}
}

// ---- family 4: arguments ----

func c15FamArgs(c *vk.Ctx) c15Family {
	maxArgs := vk.Pick(c, 3, 4)
	// signatures: positional a b, optional rest r at every position, options o p
	type sig struct {
		params []string
		rest   int
		opts   []string
	}
	var sigs []sig
	for npos := 0; npos <= 2; npos++ {
		pos := []string{"a", "b"}[:npos]
		for rest := -1; rest <= npos; rest++ {
			var params []string
			if rest < 0 {
				params = append(params, pos...)
			} else {
				params = append(params, pos[:rest]...)
				params = append(params, "r")
				params = append(params, pos[rest:]...)
			}
			for nopt := 0; nopt <= 2; nopt++ {
				sigs = append(sigs, sig{params, rest, []string{"o", "p"}[:nopt]})
			}
		}
	}
	// argument lists: 0..maxArgs plain arguments, or shapes with multi-valued expressions
	type argShape struct {
		name string
		args []c15Expr
	}
	var argShapes []argShape
	for n := 0; n <= maxArgs; n++ {
		argShapes = append(argShapes, argShape{fmt.Sprint(n), c15Strs("1", "2", "3", "4")[:n]})
	}
	argShapes = append(argShapes,
		argShape{"braced2", []c15Expr{&c15Braced{c15Strs("1", "2")}}},
		argShape{"1+capture0", []c15Expr{c15S("1"), &c15Cap{c15Stmts(c15C("put"))}}},
		argShape{"explode3", []c15Expr{&c15Var{Name: "l", Explode: true}}},
		argShape{"1+explode3", []c15Expr{c15S("1"), &c15Var{Name: "l", Explode: true}}},
		argShape{"list", []c15Expr{c15V("l")}},
	)
	type optShape struct {
		name  string
		names []string
		vals  []c15Expr
	}
	optShapes := []optShape{
		{"none", nil, nil},
		{"o", []string{"o"}, c15Strs("x")},
		{"o-flag", []string{"o"}, []c15Expr{nil}},
		{"p", []string{"p"}, c15Strs("y")},
		{"o+p", []string{"o", "p"}, c15Strs("x", "y")},
		{"unknown", []string{"q"}, c15Strs("z")},
		{"o+unknown", []string{"o", "q"}, c15Strs("x", "z")},
		{"o-empty", []string{"o"}, c15Strs("")},
		{"o-list", []string{"o"}, []c15Expr{&c15List{c15Strs("x")}}},
	}
	callKinds := []string{"lambda", "var", "fn", "fn-in-capture"}
	n := len(sigs) * len(argShapes) * len(optShapes) * len(callKinds)
	return c15Family{Name: "args", N: n, Build: func(i int) (*c15Chunk, string) {
		ck := callKinds[i%len(callKinds)]
		i /= len(callKinds)
		os := optShapes[i%len(optShapes)]
		i /= len(optShapes)
		as := argShapes[i%len(argShapes)]
		sg := sigs[i/len(argShapes)]
		// body: put every parameter and option
		var outs []c15Expr
		for _, p := range sg.params {
			outs = append(outs, c15V(p))
		}
		for _, o := range sg.opts {
			outs = append(outs, c15V(o))
		}
		lam := &c15Lambda{Params: sg.params, Rest: sg.rest, OptNames: sg.opts, Body: c15Stmts(c15C("put", outs...), c15Put("done"))}
		for range sg.opts {
			lam.OptDefs = append(lam.OptDefs, c15S("d"))
		}
		call := &c15Cmd{Args: as.args, OptNames: os.names, OptVals: os.vals}
		stmts := []c15Form{&c15Assign{Kind: "var", LHS: []c15LValue{{Name: "l"}}, HasEq: true, RHS: []c15Expr{&c15List{c15Strs("5", "6", "7")}}}}
		switch ck {
		case "lambda":
			call.HeadExpr = lam
			stmts = append(stmts, call)
		case "var":
			stmts = append(stmts, &c15Assign{Kind: "var", LHS: []c15LValue{{Name: "f"}}, HasEq: true, RHS: []c15Expr{lam}})
			call.HeadExpr = c15V("f")
			stmts = append(stmts, c15C("put", &c15Index{c15V("f"), c15Strs("arg-names", "opt-names", "opt-defaults")}), call)
		case "fn":
			stmts = append(stmts, &c15Fn{Name: "f", L: lam})
			call.Head = "f"
			stmts = append(stmts, c15C("put", &c15Index{c15V("f~"), c15Strs("arg-names", "opt-names", "opt-defaults")}), call)
		default:
			stmts = append(stmts, &c15Fn{Name: "f", L: lam})
			call.Head = "f"
			stmts = append(stmts, c15C("put", &c15List{[]c15Expr{&c15Cap{c15Stmts(call)}}}))
		}
		stmts = append(stmts, c15Put("end"))
		shape := fmt.Sprintf("p%d-r%d-o%d/%s/%s/%s", len(sg.params), sg.rest, len(sg.opts), as.name, os.name, ck)
		return c15Stmts(stmts...), shape
	}}
}

// ---- family 2: scoping and closures ----

func c15FamScopes(c *vk.Ctx) c15Family {
	maxLen := vk.Pick(c, 4, 5)
	asg := func(kind, name string, rhs ...c15Expr) c15Form {
		return &c15Assign{Kind: kind, LHS: []c15LValue{{Name: name}}, HasEq: true, RHS: rhs}
	}
	callLam := func(fs ...c15Form) c15Form { return &c15Cmd{HeadExpr: c15Lam(c15Stmts(fs...))} }
	alpha := []struct {
		name string
		f    c15Form
	}{
		{"var-x", asg("var", "x", c15S("a"))},
		{"var-x2", asg("var", "x", &c15List{[]c15Expr{c15V("x")}})},
		{"var-y-x", asg("var", "y", c15V("x"))},
		{"set-x", asg("set", "x", c15S("b"))},
		{"set-y", asg("set", "y", c15S("c"))},
		{"fn-f-put", &c15Fn{Name: "f", L: c15Lam(c15Stmts(c15C("put", c15V("x"))))}},
		{"fn-f-set", &c15Fn{Name: "f", L: c15Lam(c15Stmts(asg("set", "x", c15S("d"))))}},
		{"fn-f-local", &c15Fn{Name: "f", L: c15Lam(c15Stmts(asg("var", "x", c15S("e")), c15C("put", c15V("x"))))}},
		{"var-g", asg("var", "g", c15Lam(c15Stmts(c15C("put", c15V("x")), asg("set", "x", &c15Cat{[]c15Expr{c15V("x"), c15S("g")}}))))},
		{"call-f", c15C("f")},
		{"call-g", &c15Cmd{HeadExpr: c15V("g")}},
		{"put-x", c15C("put", c15V("x"))},
		{"put-y", c15C("put", c15V("y"))},
		{"del-x", &c15Del{[]c15LValue{{Name: "x"}}}},
		{"block-shadow", callLam(asg("var", "x", c15S("in")), c15C("put", c15V("x")))},
		{"block-set", callLam(asg("set", "x", c15S("s")))},
		{"block-fn", callLam(&c15Fn{Name: "f", L: c15Lam(c15Stmts(c15C("put", c15S("inner-f"), c15V("x"))))}, c15C("f"))},
		{"if-var", &c15If{Conds: []c15Expr{c15V("true")}, Bodies: []*c15Chunk{c15Stmts(asg("var", "x", c15S("i")), c15C("put", c15V("x")))}}},
		{"capture-var", c15C("nop", &c15Cap{c15Stmts(asg("var", "x", c15S("cap")))})},
		{"for-y2", &c15For{Var: "z", Cont: &c15List{c15Strs("1", "2")}, Body: c15Stmts(asg("set", "x", &c15Cat{[]c15Expr{c15V("x"), c15V("z")}}))}},
	}
	var counts []int
	total, pow := 0, 1
	for d := 1; d <= maxLen; d++ {
		pow *= len(alpha)
		counts = append(counts, pow)
		total += pow
	}
	return c15Family{Name: "scopes", N: total, Build: func(i int) (*c15Chunk, string) {
		d := 1
		for i >= counts[d-1] {
			i -= counts[d-1]
			d++
		}
		seq := make([]int, d)
		for j := d - 1; j >= 0; j-- {
			seq[j] = i % len(alpha)
			i /= len(alpha)
		}
		var fs []c15Form
		shape := ""
		for j, k := range seq {
			fs = append(fs, alpha[k].f)
			if j < 2 {
				shape += alpha[k].name + ";"
			}
		}
		shape += fmt.Sprint(d)
		return c15Stmts(fs...), shape
	}}
}

// ---- family 3: values ----

func c15FamValues(c *vk.Ctx) c15Family {
	type named struct {
		name string
		e    c15Expr
	}
	capt := func(head string, args ...c15Expr) c15Expr { return &c15Cap{c15Stmts(c15C(head, args...))} }
	leaves := []named{
		{"a", c15S("a")}, {"1", c15S("1")}, {"num2", capt("num", c15S("2"))},
		{"list", &c15List{c15Strs("a", "1")}}, {"map", &c15Map{c15Strs("a"), c15Strs("1")}},
		{"nil", c15V("nil")}, {"-1", c15S("-1")}, {"half", c15S("1/2")},
		{"braced", &c15Braced{c15Strs("a", "0")}}, {"0", c15S("0")}, {"0.5", c15S("0.5")}, {"true", c15V("true")},
	}
	leaves = leaves[:vk.Pick(c, 9, 12)]
	type binop struct {
		name string
		f    func(x, y c15Expr) c15Expr
	}
	bins := []binop{
		{"cat", func(x, y c15Expr) c15Expr {
			// a part that starts with "[" would be parsed as an index: group it with braces
			var sb strings.Builder
			c15PrintExpr(&sb, y)
			if _, isIndex := y.(*c15Index); isIndex || strings.HasPrefix(sb.String(), "[") {
				y = &c15Braced{[]c15Expr{y}}
			}
			var parts []c15Expr
			for _, p := range []c15Expr{x, y} {
				if c, ok := p.(*c15Cat); ok {
					parts = append(parts, c.Parts...)
				} else {
					parts = append(parts, p)
				}
			}
			return &c15Cat{parts}
		}},
		{"braced", func(x, y c15Expr) c15Expr { return &c15Braced{[]c15Expr{x, y}} }},
		{"index", func(x, y c15Expr) c15Expr { return &c15Index{c15Group(x), []c15Expr{y}} }},
		{"index2", func(x, y c15Expr) c15Expr { return &c15Index{c15Group(x), []c15Expr{y, c15S("0")}} }},
		{"list", func(x, y c15Expr) c15Expr { return &c15List{[]c15Expr{x, y}} }},
		{"map", func(x, y c15Expr) c15Expr { return &c15Map{[]c15Expr{x}, []c15Expr{y}} }},
	}
	for _, op := range []string{"+", "-", "*", "/", "%", "==", "<", "<=", "eq"} {
		op := op
		bins = append(bins, binop{op, func(x, y c15Expr) c15Expr { return capt(op, x, y) }})
	}
	uns := []struct {
		name string
		f    func(x c15Expr) c15Expr
	}{
		{"not", func(x c15Expr) c15Expr { return capt("not", x) }},
		{"neg", func(x c15Expr) c15Expr { return capt("-", x) }},
		{"count", func(x c15Expr) c15Expr { return capt("count", x) }},
		{"list1", func(x c15Expr) c15Expr { return &c15List{[]c15Expr{x}} }},
		{"num", func(x c15Expr) c15Expr { return capt("num", x) }},
		{"slice", func(x c15Expr) c15Expr { return &c15Index{c15Group(x), c15Strs("1..")} }},
		{"slice-incl", func(x c15Expr) c15Expr { return &c15Index{c15Group(x), c15Strs("..=-1")} }},
		{"inv", func(x c15Expr) c15Expr { return capt("/", x) }},
		{"sum0", func(x c15Expr) c15Expr { return capt("+") }},
		{"all", func(x c15Expr) c15Expr { return capt("all", x) }},
	}
	// size-1 expressions
	var e1 []named
	for _, b := range bins {
		for _, x := range leaves {
			for _, y := range leaves {
				e1 = append(e1, named{b.name + "(" + x.name + "," + y.name + ")", b.f(x.e, y.e)})
			}
		}
	}
	for _, u := range uns {
		for _, x := range leaves {
			e1 = append(e1, named{u.name + "(" + x.name + ")", u.f(x.e)})
		}
	}
	nl, n1 := len(leaves), len(e1)
	// size 2: bin(e1, leaf), bin(leaf, e1), un(e1)
	n2 := len(bins)*n1*nl*2 + len(uns)*n1
	return c15Family{Name: "values", N: nl + n1 + n2, Build: func(i int) (*c15Chunk, string) {
		var e c15Expr
		var shape string
		switch {
		case i < nl:
			e, shape = leaves[i].e, "leaf"
		case i < nl+n1:
			e, shape = e1[i-nl].e, e1[i-nl].name
		default:
			i -= nl + n1
			if i < len(bins)*n1*nl*2 {
				side := i % 2
				i /= 2
				l := leaves[i%nl]
				i /= nl
				x := e1[i%n1]
				b := bins[i/n1]
				if side == 0 {
					e = b.f(x.e, l.e)
				} else {
					e = b.f(l.e, x.e)
				}
				shape = fmt.Sprintf("%s%d(%s)", b.name, side, x.name[:strings.IndexByte(x.name, '(')])
			} else {
				i -= len(bins) * n1 * nl * 2
				x := e1[i%n1]
				u := uns[i/n1]
				e = u.f(x.e)
				shape = fmt.Sprintf("%s(%s)", u.name, x.name[:strings.IndexByte(x.name, '(')])
			}
		}
		return c15Stmts(c15Put("s"), c15C("put", e), c15Put("e")), shape
	}}
}

// ---- family 6: value pipelines ----

func c15FamPipes(c *vk.Ctx) c15Family {
	type named struct {
		name string
		f    c15Form
	}
	lam := func(params []string, fs ...c15Form) *c15Lambda { return c15Lam(c15Stmts(fs...), params...) }
	x := c15V("x")
	capt := func(head string, args ...c15Expr) c15Expr { return &c15Cap{c15Stmts(c15C(head, args...))} }
	ifThen := func(cond c15Expr, then ...c15Form) c15Form {
		return &c15If{Conds: []c15Expr{cond}, Bodies: []*c15Chunk{c15Stmts(then...)}}
	}
	producers := []named{
		{"put-aba", c15Put("a", "b", "a")},
		{"range4", c15C("range", c15S("4"))},
		{"put-lists", c15C("put", &c15List{c15Strs("b", "a")}, &c15List{c15Strs("a")})},
		{"put-none", c15C("put")},
		{"put-then-fail", &c15Cmd{HeadExpr: lam(nil, c15Put("1"), c15C("fail", c15S("p")))}},
		{"put-3122", c15Put("3", "1", "2", "2")},
		{"all-list", c15C("all", &c15List{c15Strs("y", "x")})},
		{"fail", c15C("fail", c15S("q"))},
		{"mixed", c15C("put", c15S("a"), capt("num", c15S("1")))},
	}
	stages := []named{
		{"each-dup", c15C("each", lam([]string{"x"}, c15C("put", x, x)))},
		{"each-skip-a", c15C("each", lam([]string{"x"}, ifThen(capt("eq", x, c15S("a")), c15C("continue")), c15C("put", x)))},
		{"each-break-2nd", c15C("each", lam([]string{"x"}, ifThen(capt("eq", x, c15S("b")), c15C("break")), c15C("put", x)))},
		{"each-put-break", c15C("each", lam([]string{"x"}, c15C("put", x), c15C("break")))},
		{"each-fail", c15C("each", lam([]string{"x"}, c15C("fail", c15S("e"))))},
		{"each-return", c15C("each", lam([]string{"x"}, c15C("return")))},
		{"each-builtin", c15C("each", c15V("put~"))},
		{"take0", c15C("take", c15S("0"))}, {"take1", c15C("take", c15S("1"))}, {"take2", c15C("take", c15S("2"))}, {"take9", c15C("take", c15S("9"))},
		{"drop0", c15C("drop", c15S("0"))}, {"drop1", c15C("drop", c15S("1"))}, {"drop9", c15C("drop", c15S("9"))},
		{"count", c15C("count")}, {"all", c15C("all")}, {"order", c15C("order")},
		{"order-rev", &c15Cmd{Head: "order", OptNames: []string{"reverse"}, OptVals: []c15Expr{nil}}},
		{"order-key", &c15Cmd{Head: "order", OptNames: []string{"key"}, OptVals: []c15Expr{lam([]string{"v"}, c15C("count", c15V("v")))}}},
		{"compact", c15C("compact")},
		{"keep-a", c15C("keep-if", lam([]string{"x"}, c15C("eq", x, c15S("a"))))},
		{"keep-nonbool", c15C("keep-if", lam([]string{"x"}, c15C("put", x)))},
		{"keep-lt2", c15C("keep-if", lam([]string{"x"}, c15C("<", x, c15S("2"))))},
		{"put-all", c15C("put", capt("all"))},
		{"list-all", c15C("put", &c15List{[]c15Expr{capt("all")}})},
		{"no-read", &c15Cmd{HeadExpr: lam(nil, c15Put("z"))}},
		{"fail", c15C("fail", c15S("s"))},
		{"nop", c15C("nop")},
		{"take-bad", c15C("take", c15S("x"))},
		{"count-arg", c15C("count", &c15List{c15Strs("1", "2")})},
		{"sum", c15C("+", capt("all"))},
	}
	wrappers := []string{"bare", "try", "for", "fn"}
	np, ns := len(producers), len(stages)
	n3 := 0
	if c.Thorough() {
		n3 = np * ns * ns * ns
	}
	total := (np*ns + np*ns*ns + n3) * len(wrappers)
	return c15Family{Name: "pipes", N: total, Build: func(i int) (*c15Chunk, string) {
		w := wrappers[i%len(wrappers)]
		i /= len(wrappers)
		var forms []c15Form
		var shape string
		nst := 1
		switch {
		case i < np*ns:
		case i < np*ns+np*ns*ns:
			i -= np * ns
			nst = 2
		default:
			i -= np*ns + np*ns*ns
			nst = 3
		}
		var st []named
		for k := 0; k < nst; k++ {
			st = append([]named{stages[i%ns]}, st...)
			i /= ns
		}
		p := producers[i]
		forms = append(forms, p.f)
		shape = p.name
		for k, s := range st {
			forms = append(forms, s.f)
			if k < 2 {
				shape += "|" + s.name
			}
		}
		pipe := c15P(forms...)
		var prog *c15Chunk
		switch w {
		case "bare":
			prog = c15Stmts(c15Put("s"), pipe, c15Put("e"))
		case "try":
			prog = c15Stmts(&c15Try{Body: c15Stmts(pipe), CatchVar: "err", Catch: c15Stmts(c15C("put", c15V("err")))}, c15Put("e"))
		case "for":
			prog = c15Stmts(&c15For{Var: "i", Cont: &c15List{c15Strs("1", "2")}, Body: c15Stmts(pipe, c15Put("it"))}, c15Put("e"))
		default:
			prog = c15Stmts(&c15Fn{Name: "f", L: c15Lam(c15Stmts(pipe, c15Put("in-f")))}, c15C("f"), c15Put("e"))
		}
		return prog, shape + "/" + w
	}}
}

// c15Group puts braces around a compound expression that is to be indexed
// (indexing binds tighter than compounding).
func c15Group(x c15Expr) c15Expr {
	if _, ok := x.(*c15Cat); ok {
		return &c15Braced{[]c15Expr{x}}
	}
	return x
}

// ---- family 7: assignment shapes (var / set with rest and element lvalues) ----

func c15FamAssign(c *vk.Ctx) c15Family {
	type lhs struct {
		name string
		lvs  []c15LValue
	}
	lv := func(n string) c15LValue { return c15LValue{Name: n} }
	rest := func(n string) c15LValue { return c15LValue{Name: n, Rest: true} }
	elem := func(n string, idx ...string) c15LValue { return c15LValue{Name: n, Idx: c15Strs(idx...)} }
	varLHS := []lhs{
		{"x", []c15LValue{lv("x")}}, {"x-y", []c15LValue{lv("x"), lv("y")}}, {"@x", []c15LValue{rest("x")}},
		{"x-@y", []c15LValue{lv("x"), rest("y")}}, {"@x-y", []c15LValue{rest("x"), lv("y")}},
		{"x-@y-z", []c15LValue{lv("x"), rest("y"), lv("z")}}, {"x-y-z", []c15LValue{lv("x"), lv("y"), lv("z")}},
	}
	setLHS := append(append([]lhs{}, varLHS...),
		lhs{"l[0]", []c15LValue{elem("l", "0")}}, lhs{"l[-1]", []c15LValue{elem("l", "-1")}}, lhs{"l[2]", []c15LValue{elem("l", "2")}},
		lhs{"l[1][0]", []c15LValue{elem("l", "1", "0")}}, lhs{"l[1][5]", []c15LValue{elem("l", "1", "5")}},
		lhs{"m[k]", []c15LValue{elem("m", "k")}}, lhs{"m[new]", []c15LValue{elem("m", "new")}}, lhs{"m[in][k2]", []c15LValue{elem("m", "in", "k2")}},
		lhs{"m[no][k]", []c15LValue{elem("m", "no", "k")}}, lhs{"x[0]", []c15LValue{elem("x", "0")}}, lhs{"l[k]", []c15LValue{elem("l", "k")}},
		lhs{"l[0][0]", []c15LValue{elem("l", "0", "0")}},
	)
	type rhs struct {
		name string
		es   []c15Expr
	}
	var rhss []rhs
	for n := 0; n <= vk.Pick(c, 4, 5); n++ {
		rhss = append(rhss, rhs{fmt.Sprint(n), c15Strs("1", "2", "3", "4", "5")[:n]})
	}
	rhss = append(rhss,
		rhs{"braced", []c15Expr{&c15Braced{c15Strs("1", "2")}}},
		rhs{"explode", []c15Expr{&c15Var{Name: "src", Explode: true}}},
		rhs{"capture", []c15Expr{&c15Cap{c15Stmts(c15Put("1", "2", "3"))}}},
		rhs{"list", []c15Expr{&c15List{c15Strs("1", "2")}}},
		rhs{"fail", []c15Expr{&c15Cap{c15Stmts(c15C("fail", c15S("r")))}}},
	)
	contexts := []string{"top", "try", "lambda"}
	nVar, nSet := len(varLHS)*len(rhss), len(setLHS)*len(rhss)
	return c15Family{Name: "assign", N: (nVar + nSet) * len(contexts), Build: func(i int) (*c15Chunk, string) {
		ctx := contexts[i%len(contexts)]
		i /= len(contexts)
		kind, l, r := "var", lhs{}, rhs{}
		if i < nVar {
			l, r = varLHS[i/len(rhss)], rhss[i%len(rhss)]
		} else {
			i -= nVar
			kind, l, r = "set", setLHS[i/len(rhss)], rhss[i%len(rhss)]
		}
		decl := func(n string, e c15Expr) c15Form {
			return &c15Assign{Kind: "var", LHS: []c15LValue{{Name: n}}, HasEq: true, RHS: []c15Expr{e}}
		}
		pre := []c15Form{decl("src", &c15List{c15Strs("7", "8")})}
		if kind == "set" {
			pre = append(pre, decl("x", c15S("ox")), decl("y", c15S("oy")), decl("z", c15S("oz")),
				decl("l", &c15List{[]c15Expr{c15S("a"), &c15List{c15Strs("b", "c")}}}),
				decl("m", &c15Map{c15Strs("k", "in"), []c15Expr{c15S("v"), &c15Map{c15Strs("k2"), c15Strs("v2")}}}))
		}
		a := &c15Assign{Kind: kind, LHS: l.lvs, HasEq: true, RHS: r.es}
		var show []c15Expr
		seen := map[string]bool{}
		for _, v := range l.lvs {
			if !seen[v.Name] {
				show = append(show, c15V(v.Name))
				seen[v.Name] = true
			}
		}
		put := c15C("put", show...)
		var prog []c15Form
		switch ctx {
		case "top":
			prog = append(pre, a, put)
		case "try":
			if kind == "var" {
				prog = append(pre, &c15Try{Body: c15Stmts(a, put), CatchVar: "e", Catch: c15Stmts(c15C("put", c15V("e")))})
			} else {
				prog = append(pre, &c15Try{Body: c15Stmts(a), CatchVar: "e", Catch: c15Stmts(c15C("put", c15V("e")))}, put)
			}
		default:
			if kind == "var" {
				prog = append(pre, &c15Cmd{HeadExpr: c15Lam(c15Stmts(a, put))})
			} else {
				prog = append(pre, &c15Cmd{HeadExpr: c15Lam(c15Stmts(a))}, put)
			}
		}
		return c15Stmts(prog...), kind + "/" + l.name + "/" + r.name + "/" + ctx
	}}
}

// ---- family 8: arithmetic and numeric comparison with up to three operands ----

func c15FamArith(c *vk.Ctx) c15Family {
	pool := []string{"0", "1", "-3", "1/2", "0.5", "2.0", "0.0", "+Inf", "x", "-1/3", "10000000000000000000", "1e1", "NaN", "-0.0"}
	pool = pool[:vk.Pick(c, 11, 14)]
	ops := []string{"+", "-", "*", "/", "%", "==", "!=", "<", "<=", ">", ">="}
	np := len(pool)
	n := 1 + np + np*np + np*np*np
	return c15Family{Name: "arith", N: n * len(ops) * 2, Build: func(i int) (*c15Chunk, string) {
		typed := i%2 == 1
		i /= 2
		op := ops[i%len(ops)]
		i /= len(ops)
		var idx []int
		switch {
		case i == 0:
		case i < 1+np:
			idx = []int{i - 1}
		case i < 1+np+np*np:
			i -= 1 + np
			idx = []int{i / np, i % np}
		default:
			i -= 1 + np + np*np
			idx = []int{i / (np * np), i / np % np, i % np}
		}
		var args []c15Expr
		shape := op
		for _, k := range idx {
			var e c15Expr = c15S(pool[k])
			if typed && pool[k] != "x" {
				e = &c15Cap{c15Stmts(c15C("num", e))}
			}
			args = append(args, e)
			if len(idx) < 3 {
				shape += " " + pool[k]
			}
		}
		if len(idx) == 3 {
			shape += " 3:" + pool[idx[0]]
		}
		if typed {
			shape += " typed"
		}
		return c15Stmts(c15C(op, args...), c15Put("e")), shape
	}}
}

// ---- family 9: range ----

func c15FamRange(c *vk.Ctx) c15Family {
	pool := []string{"0", "1", "3", "-2", "1/2", "5/2", "x", "-1"}
	steps := []string{"", "1", "2", "-1", "1/2", "-3/2", "x"}
	np := len(pool)
	return c15Family{Name: "range", N: (np + np*np) * len(steps) * 3, Build: func(i int) (*c15Chunk, string) {
		cons := i % 3
		i /= 3
		st := steps[i%len(steps)]
		i /= len(steps)
		var args []c15Expr
		shape := "range"
		if i < np {
			args = c15Strs(pool[i])
			shape += " " + pool[i]
		} else {
			i -= np
			args = c15Strs(pool[i/np], pool[i%np])
			shape += " " + pool[i/np] + " " + pool[i%np]
		}
		cmd := &c15Cmd{Head: "range", Args: args}
		if st != "" {
			cmd.OptNames, cmd.OptVals = []string{"step"}, c15Strs(st)
			shape += " &step=" + st
		}
		var f c15Form = cmd
		switch cons {
		case 1:
			f = c15P(cmd, c15C("count"))
			shape += "|count"
		case 2:
			f = c15P(cmd, c15C("take", c15S("2")))
			shape += "|take"
		}
		return c15Stmts(f, c15Put("e")), shape
	}}
}

// ---- family 10: closures that share and own variables ----

func c15FamClosures(c *vk.Ctx) c15Family {
	maxLen := vk.Pick(c, 5, 6)
	asg := func(kind string, names []string, rhs ...c15Expr) c15Form {
		a := &c15Assign{Kind: kind, HasEq: true, RHS: rhs}
		for _, n := range names {
			a.LHS = append(a.LHS, c15LValue{Name: n})
		}
		return a
	}
	inc := asg("set", []string{"n"}, &c15Cap{c15Stmts(c15C("+", c15V("n"), c15S("1")))})
	// fn mk { var n = 0; put { put $n } { set n = (+ $n 1) } }
	mk := &c15Fn{Name: "mk", L: c15Lam(c15Stmts(
		asg("var", []string{"n"}, c15S("0")),
		c15C("put", c15Lam(c15Stmts(c15C("put", c15V("n")))), c15Lam(c15Stmts(inc)))))}
	call := func(n string) c15Form { return &c15Cmd{HeadExpr: c15V(n)} }
	alpha := []struct {
		name string
		f    c15Form
	}{
		{"mk1", asg("var", []string{"g1", "a1"}, &c15Cap{c15Stmts(c15C("mk"))})},
		{"mk2", asg("var", []string{"g2", "a2"}, &c15Cap{c15Stmts(c15C("mk"))})},
		{"g1", call("g1")}, {"a1", call("a1")}, {"g2", call("g2")}, {"a2", call("a2")},
		{"alias", asg("set", []string{"g2", "a2"}, c15V("g1"), c15V("a1"))},
		{"loop-a1", &c15For{Var: "i", Cont: &c15List{c15Strs("1", "2")}, Body: c15Stmts(call("a1"))}},
		{"each-g1", c15P(c15Put("p", "q"), c15C("each", c15Lam(c15Stmts(call("a1"), call("g1")), "v")))},
	}
	var counts []int
	total, pow := 0, 1
	for d := 1; d <= maxLen; d++ {
		pow *= len(alpha)
		counts = append(counts, pow)
		total += pow
	}
	return c15Family{Name: "closures", N: total, Build: func(i int) (*c15Chunk, string) {
		d := 1
		for i >= counts[d-1] {
			i -= counts[d-1]
			d++
		}
		fs := []c15Form{mk}
		shape := ""
		var names []string
		for j := 0; j < d; j++ {
			k := i % len(alpha)
			i /= len(alpha)
			fs = append(fs, alpha[k].f)
			names = append(names, alpha[k].name)
		}
		for j, n := range names {
			if j < 3 {
				shape += n + ";"
			}
		}
		return c15Stmts(fs...), shape + fmt.Sprint(d)
	}}
}

// ---- family 11: order ----

func c15FamOrder(c *vk.Ctx) c15Family {
	capt := func(head string, args ...c15Expr) c15Expr { return &c15Cap{c15Stmts(c15C(head, args...))} }
	pool := []struct {
		name string
		e    c15Expr
	}{
		{"b", c15S("b")}, {"a", c15S("a")}, {"10", c15S("10")}, {"9", c15S("9")},
		{"n10", capt("num", c15S("10"))}, {"n9", capt("num", c15S("9"))}, {"n9.5", capt("num", c15S("9.5"))},
		{"[a b]", &c15List{c15Strs("a", "b")}}, {"[a]", &c15List{c15Strs("a")}}, {"[b]", &c15List{c15Strs("b")}},
		{"true", c15V("true")}, {"false", c15V("false")}, {"map", &c15Map{c15Strs("k"), c15Strs("v")}}, {"nil", c15V("nil")},
		{"[n9]", &c15List{[]c15Expr{capt("num", c15S("9"))}}}, {"[9]", &c15List{c15Strs("9")}},
	}
	variants := []string{"plain", "reverse", "key-count", "arg", "reverse-false"}
	np := len(pool)
	maxN := 3
	var counts []int
	total, pow := 1, 1
	counts = append(counts, 1)
	for d := 1; d <= maxN; d++ {
		pow *= np
		counts = append(counts, pow)
		total += pow
	}
	return c15Family{Name: "order", N: total * len(variants), Build: func(i int) (*c15Chunk, string) {
		v := variants[i%len(variants)]
		i /= len(variants)
		d := 0
		for i >= counts[d] {
			i -= counts[d]
			d++
		}
		var es []c15Expr
		shape := v
		for j := 0; j < d; j++ {
			k := i % np
			i /= np
			es = append(es, pool[k].e)
			if j < 2 {
				shape += " " + pool[k].name
			}
		}
		shape += fmt.Sprint(" n", d)
		cmd := &c15Cmd{Head: "order"}
		switch v {
		case "reverse":
			cmd.OptNames, cmd.OptVals = []string{"reverse"}, []c15Expr{nil}
		case "reverse-false":
			cmd.OptNames, cmd.OptVals = []string{"reverse"}, []c15Expr{c15V("false")}
		case "key-count":
			cmd.OptNames, cmd.OptVals = []string{"key"}, []c15Expr{c15Lam(c15Stmts(c15C("count", c15V("v"))), "v")}
		}
		var f c15Form
		if v == "arg" {
			cmd.Args = []c15Expr{&c15List{es}}
			f = cmd
		} else {
			f = c15P(c15C("put", es...), cmd)
		}
		return c15Stmts(f, c15Put("e")), shape
	}}
}

// ---- family 12: indexing of lists and maps ----

func c15FamIndex(c *vk.Ctx) c15Family {
	capt := func(head string, args ...c15Expr) c15Expr { return &c15Cap{c15Stmts(c15C(head, args...))} }
	type named struct {
		name string
		e    c15Expr
	}
	var idx []named
	for _, s := range []string{"0", "1", "2", "3", "-1", "-3", "-4", "1..", "..2", "1..2", "0..=1", "..=2", "..=3", "3..", "4..", "-2..", "..-1",
		"..", "x", "1.0", "", "1..x", "-0", "+1", "1..=", "..=-1", "-4..", "0..4", "k", "a..b"} {
		idx = append(idx, named{s, c15S(s)})
	}
	idx = append(idx, named{"num1", capt("num", c15S("1"))}, named{"num1.5", capt("num", c15S("1.5"))}, named{"num-1", capt("num", c15S("-1"))},
		named{"list", &c15List{c15Strs("0")}}, named{"nil", c15V("nil")}, named{"braced", &c15Braced{c15Strs("0", "2")}}, named{"none", capt("put")})
	heads := []named{
		{"list3", &c15List{[]c15Expr{c15S("p"), c15S("q"), &c15List{c15Strs("r", "s")}}}},
		{"list0", &c15List{nil}},
		{"map", &c15Map{[]c15Expr{c15S("k"), c15S("1"), c15S("a..b"), capt("num", c15S("1"))}, c15Strs("vk", "v1", "vab", "vn1")}},
		{"two-lists", &c15Braced{[]c15Expr{&c15List{c15Strs("p", "q")}, &c15List{c15Strs("r", "s", "t")}}}},
		{"nil", c15V("nil")}, {"num", capt("num", c15S("12"))}, {"bool", c15V("true")},
	}
	ni, nh := len(idx), len(heads)
	return c15Family{Name: "index", N: nh*ni + nh*ni*ni, Build: func(i int) (*c15Chunk, string) {
		var e c15Expr
		var shape string
		if i < nh*ni {
			h, x := heads[i/ni], idx[i%ni]
			e, shape = &c15Index{h.e, []c15Expr{x.e}}, h.name+"["+x.name+"]"
		} else {
			i -= nh * ni
			h, x, y := heads[i/(ni*ni)], idx[i/ni%ni], idx[i%ni]
			if i%2 == 0 {
				e, shape = &c15Index{h.e, []c15Expr{x.e, y.e}}, h.name+"["+x.name+" *]"
			} else {
				e, shape = &c15Index{&c15Index{h.e, []c15Expr{x.e}}, []c15Expr{y.e}}, h.name+"["+x.name+"][*]"
			}
		}
		return c15Stmts(c15C("put", e), c15Put("e")), shape
	}}
}
