//go:build verif

// Package c15 checks property C15: programs of the core language evaluate as
// the language reference specifies. This file holds the typed AST of the core
// language subset and its printer to Elvish source.
package c15

import (
	"strings"
)

// ---- expressions (each evaluates to any number of values) ----

type c15Expr interface{}

type c15Str struct{ S string }                  // string literal (bareword or quoted)
type c15Var struct {
	Name    string
	Explode bool // $@name
}
type c15List struct{ Elems []c15Expr }          // [a b]
type c15Map struct{ Keys, Vals []c15Expr }      // [&k=v]; Vals[i]==nil means "&k" (value $true)
type c15Lambda struct {
	Params   []string // positional parameter names, in order (the rest one included)
	Rest     int      // index in Params of the @rest parameter, or -1
	OptNames []string
	OptDefs  []c15Expr
	Body     *c15Chunk
}
type c15Cap struct{ Body *c15Chunk }            // ( chunk )
type c15ExcCap struct{ Body *c15Chunk }         // ?( chunk )
type c15Braced struct{ Elems []c15Expr }        // {a b}
type c15Index struct {                          // head[i j]
	Head c15Expr
	Idx  []c15Expr
}
type c15Cat struct{ Parts []c15Expr }           // compound expression

// ---- commands ----

type c15Chunk struct{ Pipes []*c15Pipe }
type c15Pipe struct{ Forms []c15Form }
type c15Form interface{}

// ordinary command; exactly one of Head (static name) / HeadExpr is set
type c15Cmd struct {
	Head     string
	HeadExpr c15Expr
	Args     []c15Expr
	OptNames []string
	OptVals  []c15Expr // nil entry means "&name"
}
type c15LValue struct {
	Name string
	Rest bool
	Idx  []c15Expr // element assignment: name[i][j]; one expression per bracket pair
}
type c15Assign struct { // var / set
	Kind  string // "var" or "set"
	LHS   []c15LValue
	HasEq bool
	RHS   []c15Expr
}
type c15Del struct{ Targets []c15LValue }
type c15Fn struct {
	Name string
	L    *c15Lambda
}
type c15If struct {
	Conds  []c15Expr
	Bodies []*c15Chunk
	Else   *c15Chunk
}
type c15While struct {
	Cond       c15Expr
	Body, Else *c15Chunk
}
type c15For struct {
	Var        string
	Cont       c15Expr
	Body, Else *c15Chunk
}
type c15Try struct {
	Body                 *c15Chunk
	CatchVar             string
	Catch, Else, Finally *c15Chunk
}
type c15Logic struct {
	Op   string // and, or, coalesce
	Args []c15Expr
}

// ---- constructors used by the generators ----

func c15S(s string) c15Expr              { return &c15Str{s} }
func c15V(n string) c15Expr              { return &c15Var{Name: n} }
func c15Ch(p ...*c15Pipe) *c15Chunk      { return &c15Chunk{p} }
func c15P(f ...c15Form) *c15Pipe         { return &c15Pipe{f} }
func c15C(head string, args ...c15Expr) *c15Cmd {
	return &c15Cmd{Head: head, Args: args}
}
func c15Stmts(fs ...c15Form) *c15Chunk {
	ch := &c15Chunk{}
	for _, f := range fs {
		if p, ok := f.(*c15Pipe); ok {
			ch.Pipes = append(ch.Pipes, p)
		} else {
			ch.Pipes = append(ch.Pipes, c15P(f))
		}
	}
	return ch
}
func c15Lam(body *c15Chunk, params ...string) *c15Lambda {
	return &c15Lambda{Params: params, Rest: -1, Body: body}
}
func c15Strs(ss ...string) []c15Expr {
	out := make([]c15Expr, len(ss))
	for i, s := range ss {
		out[i] = c15S(s)
	}
	return out
}

// ---- printer ----

func c15BarewordOK(s string) bool {
	if s == "" {
		return false
	}
	for i := 0; i < len(s); i++ {
		c := s[i]
		switch {
		case c >= 'a' && c <= 'z', c >= 'A' && c <= 'Z', c >= '0' && c <= '9':
		case c == '-' || c == '_' || c == '.' || c == '/' || c == '+' || c == '%' || c == ':':
		default:
			return false
		}
	}
	return true
}

func c15Quote(s string) string {
	if c15BarewordOK(s) {
		return s
	}
	return "'" + strings.ReplaceAll(s, "'", "''") + "'"
}

func c15PrintExpr(sb *strings.Builder, e c15Expr) {
	switch e := e.(type) {
	case *c15Str:
		sb.WriteString(c15Quote(e.S))
	case *c15Var:
		sb.WriteByte('$')
		if e.Explode {
			sb.WriteByte('@')
		}
		sb.WriteString(e.Name)
	case *c15List:
		sb.WriteByte('[')
		for i, x := range e.Elems {
			if i > 0 {
				sb.WriteByte(' ')
			}
			c15PrintExpr(sb, x)
		}
		sb.WriteByte(']')
	case *c15Map:
		sb.WriteByte('[')
		if len(e.Keys) == 0 {
			sb.WriteByte('&')
		}
		for i := range e.Keys {
			if i > 0 {
				sb.WriteByte(' ')
			}
			sb.WriteByte('&')
			c15PrintExpr(sb, e.Keys[i])
			if e.Vals[i] != nil {
				sb.WriteByte('=')
				c15PrintExpr(sb, e.Vals[i])
			}
		}
		sb.WriteByte(']')
	case *c15Lambda:
		c15PrintLambda(sb, e)
	case *c15Cap:
		sb.WriteByte('(')
		c15PrintChunk(sb, e.Body)
		sb.WriteByte(')')
	case *c15ExcCap:
		sb.WriteString("?(")
		c15PrintChunk(sb, e.Body)
		sb.WriteByte(')')
	case *c15Braced:
		sb.WriteByte('{')
		for i, x := range e.Elems {
			if i > 0 {
				sb.WriteByte(' ')
			}
			c15PrintExpr(sb, x)
		}
		sb.WriteByte('}')
	case *c15Index:
		c15PrintExpr(sb, e.Head)
		sb.WriteByte('[')
		for i, x := range e.Idx {
			if i > 0 {
				sb.WriteByte(' ')
			}
			c15PrintExpr(sb, x)
		}
		sb.WriteByte(']')
	case *c15Cat:
		prevQuote := byte(0)
		for i, x := range e.Parts {
			if str, ok := x.(*c15Str); ok && i > 0 {
				switch e.Parts[i-1].(type) {
				case *c15Var, *c15Str:
					// a bareword right after $name or another bareword would merge with
					// it, and so would two strings with the same kind of quotes
					if prevQuote == '\'' {
						r := strings.NewReplacer("\\", "\\\\", "\"", "\\\"")
						sb.WriteString("\"" + r.Replace(str.S) + "\"")
						prevQuote = '"'
					} else {
						sb.WriteString("'" + strings.ReplaceAll(str.S, "'", "''") + "'")
						prevQuote = '\''
					}
					continue
				}
			}
			prevQuote = 0
			if str, ok := x.(*c15Str); ok && !c15BarewordOK(str.S) {
				prevQuote = '\''
			}
			c15PrintExpr(sb, x)
		}
	default:
		panic("c15PrintExpr: unknown node")
	}
}

func c15PrintLambda(sb *strings.Builder, l *c15Lambda) {
	sb.WriteByte('{')
	if len(l.Params)+len(l.OptNames) > 0 {
		sb.WriteByte('|')
		n := 0
		for i, p := range l.Params {
			if n > 0 {
				sb.WriteByte(' ')
			}
			n++
			if i == l.Rest {
				sb.WriteByte('@')
			}
			sb.WriteString(p)
		}
		for i, o := range l.OptNames {
			if n > 0 {
				sb.WriteByte(' ')
			}
			n++
			sb.WriteByte('&')
			sb.WriteString(o)
			sb.WriteByte('=')
			c15PrintExpr(sb, l.OptDefs[i])
		}
		sb.WriteByte('|')
	}
	sb.WriteByte(' ')
	c15PrintChunk(sb, l.Body)
	if len(l.Body.Pipes) > 0 {
		sb.WriteByte(' ')
	}
	sb.WriteByte('}')
}

func c15PrintBlock(sb *strings.Builder, ch *c15Chunk) {
	c15PrintLambda(sb, &c15Lambda{Rest: -1, Body: ch})
}

func c15PrintChunk(sb *strings.Builder, ch *c15Chunk) {
	for i, p := range ch.Pipes {
		if i > 0 {
			sb.WriteString("; ")
		}
		for j, f := range p.Forms {
			if j > 0 {
				sb.WriteString(" | ")
			}
			c15PrintForm(sb, f)
		}
	}
}

func c15PrintLValue(sb *strings.Builder, lv c15LValue) {
	if lv.Rest {
		sb.WriteByte('@')
	}
	sb.WriteString(lv.Name)
	for _, ix := range lv.Idx {
		sb.WriteByte('[')
		c15PrintExpr(sb, ix)
		sb.WriteByte(']')
	}
}

func c15PrintForm(sb *strings.Builder, f c15Form) {
	args := func(es []c15Expr) {
		for _, a := range es {
			sb.WriteByte(' ')
			c15PrintExpr(sb, a)
		}
	}
	switch f := f.(type) {
	case *c15Cmd:
		if f.HeadExpr != nil {
			c15PrintExpr(sb, f.HeadExpr)
		} else {
			sb.WriteString(f.Head)
		}
		args(f.Args)
		for i, o := range f.OptNames {
			sb.WriteString(" &")
			sb.WriteString(o)
			if f.OptVals[i] != nil {
				sb.WriteByte('=')
				c15PrintExpr(sb, f.OptVals[i])
			}
		}
	case *c15Assign:
		sb.WriteString(f.Kind)
		for _, lv := range f.LHS {
			sb.WriteByte(' ')
			c15PrintLValue(sb, lv)
		}
		if f.HasEq {
			sb.WriteString(" =")
			args(f.RHS)
		}
	case *c15Del:
		sb.WriteString("del")
		for _, lv := range f.Targets {
			sb.WriteByte(' ')
			c15PrintLValue(sb, lv)
		}
	case *c15Fn:
		sb.WriteString("fn ")
		sb.WriteString(f.Name)
		sb.WriteByte(' ')
		c15PrintLambda(sb, f.L)
	case *c15If:
		for i := range f.Conds {
			if i == 0 {
				sb.WriteString("if ")
			} else {
				sb.WriteString(" elif ")
			}
			c15PrintExpr(sb, f.Conds[i])
			sb.WriteByte(' ')
			c15PrintBlock(sb, f.Bodies[i])
		}
		if f.Else != nil {
			sb.WriteString(" else ")
			c15PrintBlock(sb, f.Else)
		}
	case *c15While:
		sb.WriteString("while ")
		c15PrintExpr(sb, f.Cond)
		sb.WriteByte(' ')
		c15PrintBlock(sb, f.Body)
		if f.Else != nil {
			sb.WriteString(" else ")
			c15PrintBlock(sb, f.Else)
		}
	case *c15For:
		sb.WriteString("for ")
		sb.WriteString(f.Var)
		sb.WriteByte(' ')
		c15PrintExpr(sb, f.Cont)
		sb.WriteByte(' ')
		c15PrintBlock(sb, f.Body)
		if f.Else != nil {
			sb.WriteString(" else ")
			c15PrintBlock(sb, f.Else)
		}
	case *c15Try:
		sb.WriteString("try ")
		c15PrintBlock(sb, f.Body)
		if f.Catch != nil {
			sb.WriteString(" catch ")
			sb.WriteString(f.CatchVar)
			sb.WriteByte(' ')
			c15PrintBlock(sb, f.Catch)
		}
		if f.Else != nil {
			sb.WriteString(" else ")
			c15PrintBlock(sb, f.Else)
		}
		if f.Finally != nil {
			sb.WriteString(" finally ")
			c15PrintBlock(sb, f.Finally)
		}
	case *c15Logic:
		sb.WriteString(f.Op)
		args(f.Args)
	case *c15Pipe:
		// a pipeline used where a form is expected (only by c15Stmts callers)
		for j, g := range f.Forms {
			if j > 0 {
				sb.WriteString(" | ")
			}
			c15PrintForm(sb, g)
		}
	default:
		panic("c15PrintForm: unknown node")
	}
}

func c15Print(ch *c15Chunk) string {
	var sb strings.Builder
	c15PrintChunk(&sb, ch)
	return sb.String()
}
