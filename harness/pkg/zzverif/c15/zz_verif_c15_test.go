//go:build verif

package c15

import (
	"fmt"
	"os"
	"reflect"
	"runtime/debug"
	"sort"
	"strings"
	"sync"
	"testing"

	"src.elv.sh/pkg/zzverif/vk"
)

// c15WantDesc turns a documented output (documentation notation) into the
// canonical description by evaluating it as a literal.
func c15WantDesc(w string) []string {
	ch, err := c15Parse("put " + w)
	if err != "" {
		panic("bad documented value " + w + ": " + err)
	}
	r := c15RunRef(ch)
	if r.Unmod != "" || r.Outcome != "ok" {
		panic("bad documented value " + w + ": " + r.Unmod + r.Outcome)
	}
	return r.Outs
}

// c15ValidateDocs runs the reference interpreter on the documentation examples
// and compares with the documented result; it also runs the real interpreter
// on them. Returns the number of examples.
func c15ValidateDocs(c *vk.Ctx) int {
	for _, ex := range c15DocExamples {
		ch, perr := c15Parse(ex.Src)
		if perr != "" {
			c.Violate("harness:doc-example-outside-subset", fmt.Sprintf("documentation example %q is not in the subset: %s", ex.Src, perr), ex.Src)
			continue
		}
		var want []string
		for _, w := range ex.Want {
			want = append(want, c15WantDesc(w)...)
		}
		outcome := ex.Outcome
		if outcome == "" {
			outcome = "ok"
		}
		if strings.HasPrefix(outcome, "fail:") {
			outcome = "fail:" + c15DescStr(outcome[5:])
		}
		ref := c15RunRef(ch)
		if ref.Unmod != "" {
			c.Violate("harness:doc-example-unmodelled", fmt.Sprintf("reference interpreter does not model documentation example %q: %s", ex.Src, ref.Unmod), ex.Src)
			continue
		}
		got := ref.Outcome
		if ref.Outcome == "error" {
			got = ref.Fine
		}
		if got != outcome || !reflect.DeepEqual(ref.Outs, want) {
			c.Violate("harness:reference-interpreter-vs-documentation", fmt.Sprintf("reference interpreter disagrees with the documentation on %q: documented %v %s, interpreter %v %s", ex.Src, want, outcome, ref.Outs, got), ex.Src)
			continue
		}
		real := c15RunReal(ex.Src)
		if d := c15Agree(ref, real); d != "" {
			c.Violate("doc-example:"+d, fmt.Sprintf("documentation example %q: documented (and reference interpreter) %v %s, elvish %v %s", ex.Src, ref.Outs, ref.Fine+ref.Outcome, real.Outs, real.Fine), ex.Src)
		}
		c.Case("doc/" + outcome)
	}
	return len(c15DocExamples)
}

type c15Stats struct {
	mu       sync.Mutex
	unmod    map[string]int64
	programs map[string]int64
	judged   map[string]int64
}

func (s *c15Stats) merge(fam string, programs, judged int64, unmod map[string]int64) {
	s.mu.Lock()
	defer s.mu.Unlock()
	s.programs[fam] += programs
	s.judged[fam] += judged
	for k, v := range unmod {
		s.unmod[k] += v
	}
}

// c15ClassOf is the behaviour class of a judged program: family, outcome kind,
// number of outputs (capped) and the set of node kinds used.
func c15ClassOf(fam string, ref c15Result, shape string) string {
	o := ref.Outcome
	if i := strings.IndexByte(o, ':'); i >= 0 && strings.HasPrefix(o, "fail") {
		o = "fail"
	}
	if o == "error" {
		o = ref.Fine
	}
	n := len(ref.Outs)
	if n > 4 {
		n = 4
	}
	return fmt.Sprintf("%s/%s/%d/%s", fam, o, n, shape)
}

// c15Check runs one program on both interpreters and judges it.
func c15Check(c *vk.Ctx, l *vk.Local, rn *c15Runner, fam string, prog *c15Chunk, shape string, unmod map[string]int64) (judged bool) {
	src := c15Print(prog)
	ref := c15RunRef(prog)
	if ref.Unmod != "" {
		unmod[ref.Unmod]++
		l.Case("")
		return false
	}
	l.Begin(src)
	real := rn.run(src)
	l.End()
	if d := c15Agree(ref, real); d != "" {
		key := fam + ":" + d
		if d == "panic" {
			key = fam + ":panic"
		} else if d == "outcome" {
			key = fam + ":outcome:" + c15Coarse(ref.Outcome) + "-vs-" + c15Coarse(real.Outcome)
		}
		c.Violate(key, fmt.Sprintf("program %q: reference interpreter (language reference) says outputs %v outcome %s [%s]; elvish gives outputs %v outcome %s [%s] %s",
			src, ref.Outs, ref.Outcome, ref.Fine, real.Outs, real.Outcome, real.Fine, real.Panic), src)
	}
	l.Case(c15ClassOf(fam, ref, shape))
	return true
}

func c15Coarse(o string) string {
	if strings.HasPrefix(o, "fail:") {
		return "fail"
	}
	if strings.HasPrefix(o, "pipeline{") {
		return "pipeline"
	}
	return o
}

// c15RoundTrip checks that the printer is faithful: parsing the printed
// program with the real parser and converting it back gives the same AST.
func c15RoundTrip(prog *c15Chunk) string {
	src := c15Print(prog)
	back, err := c15Parse(src)
	if err != "" {
		return "printed program " + src + " does not convert back: " + err
	}
	if c15Print(back) != src || !reflect.DeepEqual(c15Normalize(back), c15Normalize(prog)) {
		return "printed program " + src + " converts back to a different tree: " + c15Print(back)
	}
	return ""
}

// c15Normalize dumps a tree structurally; nil and empty slices are equal.
func c15Normalize(v any) string {
	var sb strings.Builder
	var dump func(rv reflect.Value)
	dump = func(rv reflect.Value) {
		switch rv.Kind() {
		case reflect.Interface, reflect.Ptr:
			if rv.IsNil() {
				sb.WriteString("nil")
				return
			}
			dump(rv.Elem())
		case reflect.Struct:
			sb.WriteString(rv.Type().Name() + "{")
			for i := 0; i < rv.NumField(); i++ {
				dump(rv.Field(i))
				sb.WriteByte(';')
			}
			sb.WriteByte('}')
		case reflect.Slice:
			sb.WriteByte('[')
			for i := 0; i < rv.Len(); i++ {
				dump(rv.Index(i))
				sb.WriteByte(',')
			}
			sb.WriteByte(']')
		default:
			fmt.Fprintf(&sb, "%#v", rv.Interface())
		}
	}
	dump(reflect.ValueOf(v))
	return sb.String()
}

// TestC15Debug runs the programs given in C15_SRC (separated by newline-free " ;; ") on both interpreters.
func TestC15Debug(t *testing.T) {
	for _, src := range strings.Split(os.Getenv("C15_SRC"), " ;; ") {
		if src == "" {
			continue
		}
		ch, err := c15Parse(src)
		if err != "" {
			fmt.Printf("%q: not in subset: %s\n", src, err)
			continue
		}
		ref := c15RunRef(ch)
		real := c15RunReal(src)
		fmt.Printf("%q\n  printed %q\n  ref  %v %s [%s] unmod=%q\n  real %v %s [%s] %s\n  agree=%q\n", src, c15Print(ch), ref.Outs, ref.Outcome, ref.Fine, ref.Unmod, real.Outs, real.Outcome, real.Fine, real.Panic, c15Agree(ref, real))
	}
}

func TestVerifC15(t *testing.T) {
	vk.Run(t, "C15", "exploration", func(c *vk.Ctx) {
		c.Rule("every program of six grammar families (control nests, and/or/coalesce, arguments, scoping/closures, values, value pipelines) up to the family's bound; class = family / outcome kind / number of outputs / construct shape")
		c.Assume("the reference interpreter (c15_*.go, written from website/ref/language.md and pkg/eval/*.d.elv) is trusted; it is first validated against the documented examples inside the subset",
			"programs the prose does not settle are not judged (counted per reason under not_judged)",
			"pipelines: only value-producing stages without other effects, so that running the stages one after the other is observationally equivalent")
		// the programs are tiny and allocation-heavy: let the heap grow instead of collecting all the time
		// (a pointer-free ballast raises the heap goal so that collections are rare
		// and freed spans are reused instead of being returned to the OS)
		debug.SetGCPercent(400)
		ndocs := c15ValidateDocs(c)
		c.Set("doc_examples_validated", ndocs)
		stats := &c15Stats{unmod: map[string]int64{}, programs: map[string]int64{}, judged: map[string]int64{}}
		only := os.Getenv("C15_FAMILY")
		for _, fam := range c15Families(c) {
			if only != "" && only != fam.Name {
				continue
			}
			fam := fam
			var rtOnce sync.Once
			var watched sync.Map
			c.Parallel(fam.N, func(l *vk.Local, i int) {
				rv, seen := watched.LoadOrStore(l, &c15Runner{})
				if !seen {
					c.Watch(l)
				}
				rn := rv.(*c15Runner)
				prog, shape := fam.Build(i)
				if true {
					if msg := c15RoundTrip(prog); msg != "" {
						rtOnce.Do(func() { c.Violate("harness:printer-round-trip", msg, c15Print(prog)) })
					}
				}
				unmod := map[string]int64{}
				var j int64
				if c15Check(c, l, rn, fam.Name, prog, shape, unmod) {
					j = 1
				}
				stats.merge(fam.Name, 1, j, unmod)
			})
		}
		var total, judged int64
		for f, n := range stats.programs {
			total += n
			judged += stats.judged[f]
			c.Set("programs_"+f, n)
			c.Set("judged_"+f, stats.judged[f])
		}
		c.Set("programs", total)
		c.Set("judged", judged)
		c.Set("not_judged", total-judged)
		var reasons []string
		for k, v := range stats.unmod {
			reasons = append(reasons, fmt.Sprintf("%d: %s", v, k))
		}
		sort.Strings(reasons)
		c.Set("not_judged_reasons", reasons)
	})
}
