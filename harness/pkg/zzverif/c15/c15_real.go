//go:build verif

package c15

import (
	"fmt"
	"math/big"
	"sort"
	"strings"

	"src.elv.sh/pkg/eval"
	"src.elv.sh/pkg/eval/errs"
	"src.elv.sh/pkg/eval/vals"
	"src.elv.sh/pkg/parse"
)

// Running a program on the real interpreter and describing what it did in the
// same vocabulary as the reference interpreter.

type c15RealResult struct {
	Outs    []string
	Outcome string // coarse class
	Fine    string
	Panic   string
}

func c15RealExcClass(err error, coarse bool) string {
	r := eval.Reason(err)
	switch r := r.(type) {
	case eval.FailError:
		return "fail:" + c15DescReal(r.Content)
	case eval.Flow:
		return "flow:" + r.Error()
	case eval.PipelineError:
		var ps []string
		for _, e := range r.Errors {
			if e == nil || e.Reason() == nil {
				continue
			}
			ps = append(ps, c15RealExcClass(e, true))
		}
		sort.Strings(ps)
		return "pipeline{" + strings.Join(ps, ",") + "}"
	}
	if coarse {
		return "error"
	}
	switch r.(type) {
	case errs.ArityMismatch:
		return "arity"
	case errs.BadValue:
		return "bad-value"
	case eval.UnsupportedOptionsError, eval.UnknownOption:
		return "unknown-option"
	}
	return fmt.Sprintf("other(%T)", r)
}

func c15DescReal(v any) string {
	switch v := v.(type) {
	case nil:
		return "$nil"
	case bool:
		if v {
			return "$true"
		}
		return "$false"
	case string:
		return c15DescStr(v)
	case int, *big.Int, *big.Rat, float64:
		return vals.ReprPlain(v)
	case eval.Exception:
		if v.Reason() == nil {
			return "$ok"
		}
		return "?(" + c15RealExcClass(v, true) + ")"
	case eval.Callable:
		return "<fn>"
	case vals.List:
		var ss []string
		for it := v.Iterator(); it.HasElem(); it.Next() {
			ss = append(ss, c15DescReal(it.Elem()))
		}
		return "[" + strings.Join(ss, " ") + "]"
	case vals.Map:
		if v.Len() == 0 {
			return "[&]"
		}
		var ss []string
		for it := v.Iterator(); it.HasElem(); it.Next() {
			k, x := it.Elem()
			ss = append(ss, "&"+c15DescReal(k)+"="+c15DescReal(x))
		}
		sort.Strings(ss)
		return "[" + strings.Join(ss, " ") + "]"
	}
	return fmt.Sprintf("<%s %T>", vals.Kind(v), v)
}

// c15Runner holds the Evaler of one worker. Every program is evaluated in a
// fresh, empty global namespace (EvalCfg.Global), so that nothing a program
// declares is visible to the next one; the Evaler itself (builtin namespace) is
// only rebuilt after a panic.
type c15Runner struct{ ev *eval.Evaler }

func c15RunReal(src string) c15RealResult { return (&c15Runner{}).run(src) }

// run evaluates src; value outputs go to a channel port, byte output to
// /dev/null, input is empty.
func (rn *c15Runner) run(src string) (res c15RealResult) {
	ch := make(chan any, 32)
	done := make(chan []any)
	go func() {
		var vs []any
		for v := range ch {
			vs = append(vs, v)
		}
		done <- vs
	}()
	var err error
	func() {
		defer func() {
			if r := recover(); r != nil {
				res.Panic = fmt.Sprint(r)
				rn.ev = nil
			}
		}()
		if rn.ev == nil {
			rn.ev = eval.NewEvaler()
		}
		ports := []*eval.Port{eval.DummyInputPort, {File: eval.DevNull, Chan: ch}, eval.DummyOutputPort}
		err = rn.ev.Eval(parse.Source{Name: "c15", Code: src}, eval.EvalCfg{Ports: ports, Global: new(eval.Ns)})
	}()
	close(ch)
	for _, v := range <-done {
		res.Outs = append(res.Outs, c15DescReal(v))
	}
	switch {
	case res.Panic != "":
		res.Outcome, res.Fine = "panic", "panic"
	case err == nil:
		res.Outcome, res.Fine = "ok", "ok"
	case parse.UnpackErrors(err) != nil:
		res.Outcome, res.Fine = "parse-error", "parse-error"
	case eval.UnpackCompilationErrors(err) != nil:
		res.Outcome, res.Fine = "compile-error", "compile-error"
	default:
		res.Outcome, res.Fine = c15RealExcClass(err, true), c15RealExcClass(err, false)
	}
	return res
}

// c15Agree compares a judged reference result with the real result; it
// returns "" or the aspect that differs.
func c15Agree(ref c15Result, real c15RealResult) string {
	if real.Panic != "" {
		return "panic"
	}
	if ref.Outcome != real.Outcome {
		return "outcome"
	}
	if len(ref.Outs) != len(real.Outs) {
		return "outputs"
	}
	for i := range ref.Outs {
		if ref.Outs[i] != real.Outs[i] {
			return "outputs"
		}
	}
	if ref.Outcome == "error" && ref.Fine != "error" {
		ok := false
		for _, alt := range strings.Split(ref.Fine, "|") {
			if alt == real.Fine || alt == "error" {
				ok = true
			}
		}
		if !ok {
			return "error-kind"
		}
	}
	return ""
}
