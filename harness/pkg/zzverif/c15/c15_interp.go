//go:build verif

package c15

import (
	"math/big"
	"strings"
)

// Dynamic phase of the reference interpreter, written from
// website/ref/language.md and the builtin documentation (pkg/eval/*.d.elv).

type c15Slot struct {
	V   c15Val
	Set bool
}

// c15Entry is one name binding of a scope; scopes are persistent linked lists so
// that a closure can keep the view of the scopes it was created in ("lexical
// scoping": a later `var` of the same name does not affect it).
type c15Entry struct {
	name string
	slot *c15Slot
	next *c15Entry
}

type c15Input struct {
	vals          []c15Val
	used          bool // a command has read from it (a second reader is not modelled)
	producerThrew bool
}

type c15Frame struct {
	it  *c15Interp
	env []*c15Entry // env[len-1] is the head of the current scope
	out *[]c15Val
	in  *c15Input
}

type c15Interp struct{ steps int }

type c15Reason struct{ E *c15Exc }

// c15Result of a program.
type c15Result struct {
	Outs    []string // descriptions of the values output, in order
	Outcome string   // "ok", "compile-error", or the coarse exception class
	Fine    string   // the exception class with the documented error kind (may list alternatives a|b)
	Unmod   string   // non-empty: not judged, with the reason
}

func c15RunRef(ch *c15Chunk) (res c15Result) {
	defer func() {
		if r := recover(); r != nil {
			if u, ok := r.(c15Unmodelled); ok {
				res = c15Result{Unmod: u.Why}
				return
			}
			panic(r)
		}
	}()
	if ce := c15StaticCheck(ch); ce != "" {
		return c15Result{Outcome: "compile-error"}
	}
	var out []c15Val
	fr := &c15Frame{it: &c15Interp{}, env: []*c15Entry{nil}, out: &out, in: &c15Input{}}
	exc := fr.chunk(ch)
	res.Outcome = "ok"
	if exc != nil {
		res.Outcome, res.Fine = c15ExcClass(exc, true), c15ExcClass(exc, false)
	}
	for _, v := range out {
		res.Outs = append(res.Outs, c15Desc(v))
	}
	return res
}

func (it *c15Interp) step() {
	it.steps++
	if it.steps > 200000 {
		c15Unmod("step budget of the reference interpreter exceeded")
	}
}

// ---- scopes ----

func (fr *c15Frame) lookup(name string) *c15Slot {
	for i := len(fr.env) - 1; i >= 0; i-- {
		for e := fr.env[i]; e != nil; e = e.next {
			if e.name == name {
				return e.slot
			}
		}
	}
	return nil
}

func (fr *c15Frame) declare(name string, v c15Val) *c15Slot {
	sl := &c15Slot{V: v, Set: true}
	i := len(fr.env) - 1
	fr.env[i] = &c15Entry{name, sl, fr.env[i]}
	return sl
}

func (fr *c15Frame) undeclare(name string) {
	i := len(fr.env) - 1
	var names []*c15Entry
	for e := fr.env[i]; e != nil; e = e.next {
		names = append(names, e)
	}
	var head *c15Entry
	removed := false
	for j := len(names) - 1; j >= 0; j-- {
		if names[j].name == name && !removed && c15IsFirst(names, j) {
			removed = true
			continue
		}
		head = &c15Entry{names[j].name, names[j].slot, head}
	}
	if !removed {
		c15Unmod("del of a variable that was not declared at run time")
	}
	fr.env[i] = head
}

// c15IsFirst: names[j] is the most recent entry with its name.
func c15IsFirst(names []*c15Entry, j int) bool {
	for k := 0; k < j; k++ {
		if names[k].name == names[j].name {
			return false
		}
	}
	return true
}

// inner returns a frame for a new scope nested in the given view of scopes.
func (fr *c15Frame) inner(env []*c15Entry) *c15Frame {
	ne := make([]*c15Entry, len(env)+1)
	copy(ne, env)
	return &c15Frame{it: fr.it, env: ne, out: fr.out, in: fr.in}
}

func (fr *c15Frame) put(v c15Val) { *fr.out = append(*fr.out, v) }

// ---- commands ----

func (fr *c15Frame) chunk(ch *c15Chunk) *c15Exc {
	for _, p := range ch.Pipes {
		if exc := fr.pipe(p); exc != nil {
			return exc // "the execution of the whole code chunk stops, propagating that exception"
		}
	}
	return nil
}

// block runs a control-flow body: a lambda, i.e. a new scope.
func (fr *c15Frame) block(ch *c15Chunk) *c15Exc {
	return fr.inner(fr.env).chunk(ch)
}

func (fr *c15Frame) blockWithVar(name string, v c15Val, ch *c15Chunk) *c15Exc {
	mid := fr.inner(fr.env)
	mid.declare(name, v)
	return mid.inner(mid.env).chunk(ch)
}

// pipe: the stages are run one after the other, each to completion (see the
// assumptions of the check: only value-producing stages without other effects).
func (fr *c15Frame) pipe(p *c15Pipe) *c15Exc {
	if len(p.Forms) == 1 {
		return fr.form(p.Forms[0])
	}
	var excs []*c15Exc
	in := fr.in
	for i, f := range p.Forms {
		st := &c15Frame{it: fr.it, env: fr.env, in: in, out: fr.out}
		var buf []c15Val
		if i < len(p.Forms)-1 {
			st.out = &buf
		}
		exc := st.form(f)
		if i > 0 && in.producerThrew && len(in.vals) > 0 {
			// the consumer left inputs unread: whether the producer reaches the
			// command that throws is a race in a parallel pipeline
			c15Unmod("producer throws after output that an early-exiting consumer does not read")
		}
		if exc != nil {
			excs = append(excs, exc)
		}
		if i < len(p.Forms)-1 {
			in = &c15Input{vals: buf, producerThrew: exc != nil}
		}
	}
	switch len(excs) {
	case 0:
		return nil
	case 1:
		return excs[0] // "If only one command has thrown an exception, that exception is rethrown"
	}
	return &c15Exc{Kind: "pipeline", Parts: excs}
}

func (fr *c15Frame) form(f c15Form) *c15Exc {
	fr.it.step()
	switch f := f.(type) {
	case *c15Cmd:
		return fr.cmd(f)
	case *c15Assign:
		return fr.assign(f)
	case *c15Del:
		return fr.del(f)
	case *c15Fn:
		// "The lambda may refer to the function being defined"
		sl := fr.declare(f.Name+"~", c15Nil{})
		cl, exc := fr.closure(f.L)
		if exc != nil {
			return exc
		}
		cl.IsFn = true
		sl.V = cl
		return nil
	case *c15If:
		for i := range f.Conds {
			vs, exc := fr.expr(f.Conds[i])
			if exc != nil {
				return exc
			}
			// multiple values are and'ed; 0 values count as true
			all := true
			for _, v := range vs {
				if !c15Bool(v) {
					all = false
				}
			}
			if all {
				return fr.block(f.Bodies[i])
			}
		}
		if f.Else != nil {
			return fr.block(f.Else)
		}
		return nil
	case *c15While:
		ran := false
		for {
			fr.it.step()
			vs, exc := fr.expr(f.Cond)
			if exc != nil {
				return exc
			}
			if len(vs) != 1 {
				c15Unmod("while condition with other than one value")
			}
			if !c15Bool(vs[0]) {
				break
			}
			ran = true
			exc = fr.block(f.Body)
			if exc != nil {
				if exc.Kind == "flow" && exc.Flow == "break" {
					break
				}
				if exc.Kind == "flow" && exc.Flow == "continue" {
					continue
				}
				return exc
			}
		}
		if !ran && f.Else != nil {
			return fr.block(f.Else)
		}
		return nil
	case *c15For:
		vs, exc := fr.expr(f.Cont)
		if exc != nil {
			return exc
		}
		if len(vs) != 1 {
			c15Unmod("for container with other than one value")
		}
		li, ok := vs[0].(*c15ListV)
		if !ok {
			c15Unmod("for over a non-list")
		}
		for _, el := range li.Elems {
			fr.it.step()
			exc := fr.blockWithVar(f.Var, el, f.Body)
			if exc != nil {
				if exc.Kind == "flow" && exc.Flow == "break" {
					break
				}
				if exc.Kind == "flow" && exc.Flow == "continue" {
					continue
				}
				return exc
			}
		}
		if len(li.Elems) == 0 && f.Else != nil {
			return fr.block(f.Else)
		}
		return nil
	case *c15Try:
		exc := fr.block(f.Body)
		if exc != nil {
			if f.Catch != nil {
				exc = fr.blockWithVar(f.CatchVar, exc, f.Catch)
			}
		} else if f.Else != nil {
			exc = fr.block(f.Else)
		}
		if f.Finally != nil {
			if fexc := fr.block(f.Finally); fexc != nil {
				exc = fexc // "the original exception is lost"
			}
		}
		return exc
	case *c15Logic:
		var last c15Val
		for _, a := range f.Args {
			vs, exc := fr.expr(a)
			if exc != nil {
				return exc
			}
			for _, v := range vs {
				last = v
				stop := false
				switch f.Op {
				case "and":
					stop = !c15Bool(v)
				case "or":
					stop = c15Bool(v)
				case "coalesce":
					_, isNil := v.(c15Nil)
					stop = !isNil
				}
				if stop {
					fr.put(v)
					return nil
				}
			}
		}
		if last == nil {
			switch f.Op {
			case "and":
				last = true
			case "or":
				last = false
			default:
				last = c15Nil{}
			}
		} else if f.Op == "or" {
			// `and a b c` is documented (by example) to output the last value; the
			// mirror case of `or` with only false values is only implied
			if b, isB := last.(bool); !isB || b {
				c15Unmod("or of only booleanly false values, the last of which is not $false")
			}
		}
		fr.put(last)
		return nil
	}
	panic("c15Frame.form: unknown node")
}

func (fr *c15Frame) exprs(es []c15Expr) ([]c15Val, *c15Exc) {
	var out []c15Val
	for _, e := range es {
		vs, exc := fr.expr(e)
		if exc != nil {
			return nil, exc
		}
		out = append(out, vs...)
	}
	return out, nil
}

func (fr *c15Frame) cmd(c *c15Cmd) *c15Exc {
	var callee c15Val
	if c.HeadExpr != nil {
		vs, exc := fr.expr(c.HeadExpr)
		if exc != nil {
			return exc
		}
		if len(vs) != 1 {
			return c15Err("error", "command head must evaluate to one value")
		}
		callee = vs[0]
	} else if sl := fr.lookup(c.Head + "~"); sl != nil {
		callee = sl.V
	} else if c15BuiltinCmds[c.Head] {
		callee = &c15Builtin{c.Head}
	} else {
		c15Unmod("command resolved statically but missing at run time: " + c.Head)
	}
	args, exc := fr.exprs(c.Args)
	if exc != nil {
		return exc
	}
	var optNames []string
	var optVals []c15Val
	for i, n := range c.OptNames {
		var v c15Val = true // "&key is equivalent to &key=$true"
		if c.OptVals[i] != nil {
			vs, exc := fr.expr(c.OptVals[i])
			if exc != nil {
				return exc
			}
			if len(vs) != 1 {
				c15Unmod("option value with other than one value")
			}
			v = vs[0]
		}
		for _, m := range optNames {
			if m == n {
				c15Unmod("option given twice")
			}
		}
		optNames, optVals = append(optNames, n), append(optVals, v)
	}
	return fr.call(callee, args, optNames, optVals)
}

func (fr *c15Frame) call(callee c15Val, args []c15Val, optNames []string, optVals []c15Val) *c15Exc {
	fr.it.step()
	switch fn := callee.(type) {
	case *c15Builtin:
		return fr.builtin(fn.Name, args, optNames, optVals)
	case *c15Closure:
		l := fn.L
		var kinds []string
		npos := len(l.Params)
		if l.Rest >= 0 {
			if len(args) < npos-1 {
				kinds = append(kinds, "arity")
			}
		} else if len(args) != npos {
			kinds = append(kinds, "arity")
		}
		for _, n := range optNames {
			known := false
			for _, o := range l.OptNames {
				if o == n {
					known = true
				}
			}
			if !known {
				kinds = append(kinds, "unknown-option")
				break
			}
		}
		if len(kinds) > 0 {
			return c15Err(strings.Join(kinds, "|"), "bad call of a user-defined function")
		}
		in := fr.inner(fn.Env)
		nrest := len(args) - (npos - 1)
		ai := 0
		for i, p := range l.Params {
			if i == l.Rest {
				in.declare(p, &c15ListV{append([]c15Val{}, args[ai:ai+nrest]...)})
				ai += nrest
			} else {
				in.declare(p, args[ai])
				ai++
			}
		}
		for i, o := range l.OptNames {
			v := fn.Defs[i]
			for j, n := range optNames {
				if n == o {
					v = optVals[j]
				}
			}
			in.declare(o, v)
		}
		exc := in.chunk(l.Body)
		if exc != nil && fn.IsFn && exc.Kind == "flow" && exc.Flow == "return" {
			return nil // fn "captures" return
		}
		return exc
	case string:
		if strings.Contains(fn, "/") {
			c15Unmod("external command")
		}
		return c15Err("bad-value", "command must be callable or string containing slash")
	}
	return c15Err("bad-value", "command must be callable or string containing slash")
}

func (fr *c15Frame) closure(l *c15Lambda) (*c15Closure, *c15Exc) {
	cl := &c15Closure{L: l, Env: append([]*c15Entry{}, fr.env...)}
	for _, d := range l.OptDefs {
		vs, exc := fr.expr(d)
		if exc != nil {
			return nil, exc
		}
		if len(vs) != 1 {
			c15Unmod("option default with other than one value")
		}
		cl.Defs = append(cl.Defs, vs[0])
	}
	return cl, nil
}

func (fr *c15Frame) assign(a *c15Assign) *c15Exc {
	vals, exc := fr.exprs(a.RHS)
	if exc != nil {
		// whether the lvalue or the right-hand side is evaluated first is not
		// documented: if the lvalue cannot be resolved either, do not judge
		for _, lv := range a.LHS {
			if sl := fr.lookup(lv.Name); sl != nil && len(lv.Idx) > 0 {
				if idx, e2 := fr.exprs(lv.Idx); e2 == nil {
					if _, e3 := c15AssocPath(sl.V, idx, c15Nil{}); e3 != nil {
						c15Unmod("both the element lvalue and the right-hand side of set fail")
					}
				}
			}
		}
		return exc
	}
	if a.Kind == "var" && !a.HasEq {
		for _, lv := range a.LHS {
			fr.declare(lv.Name, c15Nil{}) // "start out having value $nil"
		}
		return nil
	}
	rest := -1
	for i, lv := range a.LHS {
		if lv.Rest {
			rest = i
		}
	}
	if rest < 0 && len(vals) != len(a.LHS) || rest >= 0 && len(vals) < len(a.LHS)-1 {
		return c15Err("error", "number of values and lvalues not compatible")
	}
	// distribute
	per := make([]c15Val, len(a.LHS))
	vi := 0
	for i := range a.LHS {
		if i == rest {
			n := len(vals) - (len(a.LHS) - 1)
			per[i] = &c15ListV{append([]c15Val{}, vals[vi:vi+n]...)}
			vi += n
		} else {
			per[i] = vals[vi]
			vi++
		}
	}
	if a.Kind == "var" {
		for i, lv := range a.LHS {
			fr.declare(lv.Name, per[i])
		}
		return nil
	}
	if len(a.LHS) > 1 {
		for _, lv := range a.LHS {
			if len(lv.Idx) > 0 {
				c15Unmod("several lvalues with element assignment")
			}
		}
	}
	for i, lv := range a.LHS {
		sl := fr.lookup(lv.Name)
		if sl == nil {
			c15Unmod("variable resolved statically but not declared at run time: " + lv.Name)
		}
		if len(lv.Idx) == 0 {
			sl.V = per[i]
			continue
		}
		idx, exc := fr.exprs(lv.Idx)
		if exc != nil {
			return exc
		}
		nv, exc := c15AssocPath(sl.V, idx, per[i])
		if exc != nil {
			return exc
		}
		sl.V = nv
	}
	return nil
}

// c15AssocPath returns container with the element at the index path replaced
// ("creates a new list or map with the mutation applied").
func c15AssocPath(cont c15Val, idx []c15Val, v c15Val) (c15Val, *c15Exc) {
	if len(idx) == 0 {
		return v, nil
	}
	switch c := cont.(type) {
	case *c15ListV:
		i, isSlice, exc := c15ListIndex(idx[0], len(c.Elems))
		if exc != nil {
			return nil, exc
		}
		if isSlice {
			c15Unmod("assignment to a slice")
		}
		nv, exc := c15AssocPath(c.Elems[i[0]], idx[1:], v)
		if exc != nil {
			return nil, exc
		}
		n := &c15ListV{append([]c15Val{}, c.Elems...)}
		n.Elems[i[0]] = nv
		return n, nil
	case *c15MapV:
		if len(idx) == 1 {
			return c.assoc(idx[0], v), nil
		}
		old, ok := c.get(idx[0])
		if !ok {
			return nil, c15Err("error", "no such key")
		}
		nv, exc := c15AssocPath(old, idx[1:], v)
		if exc != nil {
			return nil, exc
		}
		return c.assoc(idx[0], nv), nil
	}
	if _, isStr := cont.(string); isStr {
		c15Unmod("element assignment to a string")
	}
	return nil, c15Err("error", "element assignment to a value that is not a list or map")
}

func c15DissocPath(cont c15Val, idx []c15Val) (c15Val, *c15Exc) {
	switch c := cont.(type) {
	case *c15MapV:
		old, ok := c.get(idx[0])
		if len(idx) == 1 {
			if !ok {
				c15Unmod("del of a key that is not in the map")
			}
			return c.dissoc(idx[0]), nil
		}
		if !ok {
			return nil, c15Err("error", "no such key")
		}
		nv, exc := c15DissocPath(old, idx[1:])
		if exc != nil {
			return nil, exc
		}
		return c.assoc(idx[0], nv), nil
	case *c15ListV:
		if len(idx) == 1 {
			c15Unmod("del of a list element")
		}
		i, isSlice, exc := c15ListIndex(idx[0], len(c.Elems))
		if exc != nil {
			return nil, exc
		}
		if isSlice {
			c15Unmod("del through a slice")
		}
		nv, exc := c15DissocPath(c.Elems[i[0]], idx[1:])
		if exc != nil {
			return nil, exc
		}
		n := &c15ListV{append([]c15Val{}, c.Elems...)}
		n.Elems[i[0]] = nv
		return n, nil
	}
	c15Unmod("del of an element of a value that is not a list or map")
	return nil, nil
}

func (fr *c15Frame) del(d *c15Del) *c15Exc {
	for _, lv := range d.Targets {
		if len(lv.Idx) == 0 {
			fr.undeclare(lv.Name)
			continue
		}
		sl := fr.lookup(lv.Name)
		if sl == nil {
			c15Unmod("variable resolved statically but not declared at run time: " + lv.Name)
		}
		idx, exc := fr.exprs(lv.Idx)
		if exc != nil {
			return exc
		}
		nv, exc := c15DissocPath(sl.V, idx)
		if exc != nil {
			return exc
		}
		sl.V = nv
	}
	return nil
}

// ---- expressions ----

func (fr *c15Frame) expr(e c15Expr) ([]c15Val, *c15Exc) {
	switch e := e.(type) {
	case *c15Str:
		return []c15Val{e.S}, nil
	case *c15Var:
		var v c15Val
		if sl := fr.lookup(e.Name); sl != nil {
			v = sl.V
		} else if c15BuiltinVars[e.Name] {
			switch e.Name {
			case "true":
				v = true
			case "false":
				v = false
			case "nil":
				v = c15Nil{}
			case "ok":
				v = c15OK{}
			}
		} else if n := len(e.Name); n > 1 && e.Name[n-1] == '~' && c15BuiltinCmds[e.Name[:n-1]] {
			v = &c15Builtin{e.Name[:n-1]}
		} else {
			c15Unmod("variable resolved statically but not declared at run time: " + e.Name)
		}
		if !e.Explode {
			return []c15Val{v}, nil
		}
		switch v := v.(type) {
		case *c15ListV:
			return append([]c15Val{}, v.Elems...), nil
		case string:
			c15Unmod("exploding a string")
		}
		return nil, c15Err("error", "exploding a value that is not a list")
	case *c15List:
		vs, exc := fr.exprs(e.Elems)
		if exc != nil {
			return nil, exc
		}
		return []c15Val{&c15ListV{append([]c15Val{}, vs...)}}, nil
	case *c15Map:
		m := &c15MapV{}
		for i := range e.Keys {
			ks, exc := fr.expr(e.Keys[i])
			if exc != nil {
				return nil, exc
			}
			var vs []c15Val = []c15Val{true}
			if e.Vals[i] != nil {
				vs, exc = fr.expr(e.Vals[i])
				if exc != nil {
					return nil, exc
				}
			}
			if len(ks) != 1 || len(vs) != 1 {
				c15Unmod("map literal pair with other than one key or value")
			}
			if _, dup := m.get(ks[0]); dup {
				c15Unmod("map literal with a repeated key")
			}
			m = m.assoc(ks[0], vs[0])
		}
		return []c15Val{m}, nil
	case *c15Lambda:
		cl, exc := fr.closure(e)
		if exc != nil {
			return nil, exc
		}
		return []c15Val{cl}, nil
	case *c15Cap:
		var buf []c15Val
		sub := &c15Frame{it: fr.it, env: fr.env, out: &buf, in: fr.in}
		if exc := sub.chunk(e.Body); exc != nil {
			return nil, exc
		}
		return buf, nil
	case *c15ExcCap:
		// "Exception captures do not affect the output of the code chunk"
		if exc := fr.chunk(e.Body); exc != nil {
			return []c15Val{exc}, nil
		}
		return []c15Val{c15OK{}}, nil
	case *c15Braced:
		return fr.exprs(e.Elems)
	case *c15Index:
		hs, exc := fr.expr(e.Head)
		if exc != nil {
			return nil, exc
		}
		is, exc := fr.exprs(e.Idx)
		if exc != nil {
			return nil, exc
		}
		var out []c15Val
		for _, h := range hs { // "results generated from the first indexee appear first"
			for _, i := range is {
				v, exc := c15IndexVal(h, i)
				if exc != nil {
					return nil, exc
				}
				out = append(out, v)
			}
		}
		return out, nil
	case *c15Cat:
		acc := []c15Val{nil} // nil = nothing concatenated yet
		for _, p := range e.Parts {
			vs, exc := fr.expr(p)
			if exc != nil {
				return nil, exc
			}
			var next []c15Val
			for _, a := range acc {
				for _, v := range vs {
					if a == nil {
						next = append(next, v)
						continue
					}
					s, exc := c15Concat(a, v)
					if exc != nil {
						return nil, exc
					}
					next = append(next, s)
				}
			}
			acc = next
		}
		return acc, nil
	}
	panic("c15Frame.expr: unknown node")
}

// c15Concat: strings concatenate, numbers are converted to strings implicitly,
// other types raise an exception.
func c15Concat(a, b c15Val) (c15Val, *c15Exc) {
	str := func(v c15Val) (string, bool) {
		switch v := v.(type) {
		case string:
			return v, true
		case *big.Int, *big.Rat, float64:
			return c15NumString(v), true
		}
		return "", false
	}
	x, ok1 := str(a)
	y, ok2 := str(b)
	if !ok1 || !ok2 {
		return nil, c15Err("error", "cannot concatenate")
	}
	return x + y, nil
}

// c15ListIndex interprets an index of a list of length n: either one element
// index (returns [i]) or a slice (returns [from, to], isSlice).
func c15ListIndex(ix c15Val, n int) (r []int, isSlice bool, exc *c15Exc) {
	toInt := func(v c15Val) (int, bool) {
		num, ok := c15ToNum(v)
		if !ok {
			return 0, false
		}
		bi, ok := num.(*big.Int)
		if !ok || !bi.IsInt64() || bi.Int64() > 1<<30 || bi.Int64() < -(1<<30) {
			return 0, false
		}
		return int(bi.Int64()), true
	}
	if s, ok := ix.(string); ok && strings.Contains(s, "..") {
		k := strings.Index(s, "..")
		lo, hi := s[:k], s[k+2:]
		incl := strings.HasPrefix(hi, "=")
		if incl {
			hi = hi[1:]
		}
		from, to := 0, n
		if lo != "" {
			v, ok := toInt(lo)
			if !ok {
				return nil, false, c15Err("error", "bad slice")
			}
			if v < 0 {
				v += n
			}
			from = v
		}
		if hi != "" {
			v, ok := toInt(hi)
			if !ok {
				return nil, false, c15Err("error", "bad slice")
			}
			if v < 0 {
				v += n
			}
			if incl {
				v++
			}
			to = v
		} else if incl {
			c15Unmod("slice a..= without upper bound")
		}
		if from < 0 || to > n || from > n || to < 0 {
			return nil, false, c15Err("error", "slice out of range")
		}
		if from > to {
			c15Unmod("slice with lower bound above upper bound")
		}
		return []int{from, to}, true, nil
	}
	i, ok := toInt(ix)
	if !ok {
		return nil, false, c15Err("error", "bad list index")
	}
	if i < 0 {
		i += n
	}
	if i < 0 || i >= n {
		return nil, false, c15Err("error", "index out of range")
	}
	return []int{i}, false, nil
}

func c15IndexVal(h, ix c15Val) (c15Val, *c15Exc) {
	switch h := h.(type) {
	case *c15ListV:
		r, isSlice, exc := c15ListIndex(ix, len(h.Elems))
		if exc != nil {
			return nil, exc
		}
		if isSlice {
			return &c15ListV{append([]c15Val{}, h.Elems[r[0]:r[1]]...)}, nil
		}
		return h.Elems[r[0]], nil
	case *c15MapV:
		v, ok := h.get(ix)
		if !ok {
			return nil, c15Err("error", "no such key")
		}
		return v, nil
	case string:
		c15Unmod("string indexing (property C13)")
	case *c15Exc:
		if s, ok := ix.(string); ok && s == "reason" && (h.Kind == "fail" || h.Kind == "flow") {
			return &c15Reason{h}, nil
		}
		c15Unmod("exception field other than reason of fail/flow")
	case *c15Reason:
		if s, ok := ix.(string); ok {
			switch {
			case s == "type":
				return h.E.Kind, nil
			case s == "content" && h.E.Kind == "fail":
				return h.E.Content, nil
			case s == "name" && h.E.Kind == "flow":
				return h.E.Flow, nil
			}
		}
		c15Unmod("undocumented field of an exception reason")
	case *c15Closure:
		// documented fields of a user-defined function
		if s, ok := ix.(string); ok {
			strs := func(ss []string) c15Val {
				l := &c15ListV{}
				for _, x := range ss {
					l.Elems = append(l.Elems, x)
				}
				return l
			}
			switch s {
			case "arg-names":
				return strs(h.L.Params), nil
			case "opt-names":
				return strs(h.L.OptNames), nil
			case "opt-defaults":
				return &c15ListV{append([]c15Val{}, h.Defs...)}, nil
			}
		}
		c15Unmod("field of a function other than arg-names, opt-names, opt-defaults")
	case *c15Builtin, c15OK:
		c15Unmod("indexing a builtin function or $ok")
	}
	return nil, c15Err("error", "value cannot be indexed")
}
