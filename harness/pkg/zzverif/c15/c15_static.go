//go:build verif

package c15

// Static phase of the reference interpreter: "Elvish resolves all variables in
// a code chunk before starting to execute any of it" (language.md, Scoping
// rule / Variable use). It reports whether the program has a compilation error
// (use or `set` of a variable that is in no lexical scope) and panics with
// c15Unmodelled for programs whose static meaning the prose does not settle.

var c15BuiltinVars = map[string]bool{"true": true, "false": true, "nil": true, "ok": true}

var c15BuiltinCmds = map[string]bool{
	"put": true, "nop": true, "fail": true, "break": true, "continue": true, "return": true,
	"each": true, "take": true, "drop": true, "count": true, "all": true, "order": true,
	"compact": true, "keep-if": true, "range": true, "+": true, "-": true, "*": true, "/": true,
	"%": true, "==": true, "!=": true, "<": true, "<=": true, ">": true, ">=": true, "eq": true,
	"not-eq": true, "not": true, "bool": true, "num": true,
}

type c15SScope struct {
	names      []string        // declared names, in order (duplicates = shadowing in the same scope)
	tainted    map[string]bool // names of finished for/catch variables: visibility afterwards is not documented
	closureLit bool            // scope of a function literal that is a value (not a control-flow block)
	loopVar    bool            // pseudo-scope holding a for / catch variable
}

type c15Static struct {
	scopes      []*c15SScope
	compileErr  string
	noDecl      int // >0 inside a while condition: declarations there would run repeatedly
	inPipeStage int // >0 inside a multi-stage pipeline
}

func c15StaticCheck(ch *c15Chunk) (compileErr string) {
	s := &c15Static{scopes: []*c15SScope{{}}}
	s.chunk(ch)
	return s.compileErr
}

func (s *c15Static) cur() *c15SScope { return s.scopes[len(s.scopes)-1] }
func (s *c15Static) push(sc *c15SScope) { s.scopes = append(s.scopes, sc) }
func (s *c15Static) pop()              { s.scopes = s.scopes[:len(s.scopes)-1] }

func (s *c15Static) errorf(msg string) {
	if s.compileErr == "" {
		s.compileErr = msg
	}
}

func c15ValidName(n string) bool {
	if n == "" {
		return false
	}
	for i := 0; i < len(n); i++ {
		c := n[i]
		if !(c >= 'a' && c <= 'z' || c >= 'A' && c <= 'Z' || c >= '0' && c <= '9' || c == '-' || c == '_') {
			return false
		}
	}
	return true
}

func (s *c15Static) declare(name string) {
	if s.noDecl > 0 {
		c15Unmod("declaration inside a while condition")
	}
	if s.inPipeStage > 0 {
		c15Unmod("declaration inside a multi-stage pipeline")
	}
	base := name
	if len(base) > 1 && base[len(base)-1] == '~' {
		base = base[:len(base)-1]
	}
	if !c15ValidName(base) {
		c15Unmod("variable name outside the subset: " + name)
	}
	if c15BuiltinVars[name] || (base != name && c15BuiltinCmds[base]) {
		c15Unmod("shadowing a builtin: " + name)
	}
	s.cur().names = append(s.cur().names, name)
}

// lookup reports whether name resolves to a user variable.
func (s *c15Static) lookup(name string) bool {
	crossedLit := false
	for i := len(s.scopes) - 1; i >= 0; i-- {
		sc := s.scopes[i]
		for _, n := range sc.names {
			if n == name {
				if sc.loopVar && crossedLit {
					c15Unmod("closure capturing a for/catch variable (one variable per loop or per iteration is not documented)")
				}
				return true
			}
		}
		if sc.tainted[name] {
			c15Unmod("use of a for/catch variable after its construct")
		}
		if sc.closureLit {
			crossedLit = true
		}
	}
	return false
}

func (s *c15Static) useVar(name string) {
	if s.lookup(name) {
		return
	}
	if c15BuiltinVars[name] {
		return
	}
	if len(name) > 1 && name[len(name)-1] == '~' && c15BuiltinCmds[name[:len(name)-1]] {
		return
	}
	if !c15ValidName(name) && !(len(name) > 1 && name[len(name)-1] == '~' && c15ValidName(name[:len(name)-1])) {
		c15Unmod("variable name outside the subset: " + name)
	}
	s.errorf("variable $" + name + " not found")
}

func (s *c15Static) chunk(ch *c15Chunk) {
	for _, p := range ch.Pipes {
		if len(p.Forms) > 1 {
			s.inPipeStage++
		}
		for _, f := range p.Forms {
			s.form(f)
		}
		if len(p.Forms) > 1 {
			s.inPipeStage--
		}
	}
}

// block: body of a control-flow construct, "a lambda" introducing a new scope.
func (s *c15Static) block(ch *c15Chunk) {
	if ch == nil {
		return
	}
	saved := s.inPipeStage
	s.inPipeStage = 0
	s.push(&c15SScope{})
	s.chunk(ch)
	s.pop()
	s.inPipeStage = saved
}

// blockWithVar: body with a variable bound by the construct (for, catch).
func (s *c15Static) blockWithVar(name string, ch *c15Chunk) {
	if !c15ValidName(name) {
		c15Unmod("variable name outside the subset: " + name)
	}
	if s.lookup(name) || c15BuiltinVars[name] {
		c15Unmod("for/catch variable that already exists")
	}
	s.push(&c15SScope{names: []string{name}, loopVar: true})
	s.block(ch)
	s.pop()
	if s.cur().tainted == nil {
		s.cur().tainted = map[string]bool{}
	}
	s.cur().tainted[name] = true
}

func c15PureLiteral(e c15Expr) bool {
	switch e := e.(type) {
	case *c15Str:
		return true
	case *c15Var:
		return c15BuiltinVars[e.Name] && !e.Explode
	case *c15List:
		for _, x := range e.Elems {
			if !c15PureLiteral(x) {
				return false
			}
		}
		return true
	}
	return false
}

func (s *c15Static) lambda(l *c15Lambda, lit bool) {
	seen := map[string]bool{}
	for _, p := range append(append([]string{}, l.Params...), l.OptNames...) {
		if seen[p] || !c15ValidName(p) || c15BuiltinVars[p] {
			c15Unmod("parameter names duplicated or outside the subset")
		}
		seen[p] = true
	}
	for _, d := range l.OptDefs {
		if !c15PureLiteral(d) {
			c15Unmod("option default that is not a literal (time of evaluation not documented)")
		}
	}
	saved, savedND := s.inPipeStage, s.noDecl
	s.inPipeStage, s.noDecl = 0, 0
	sc := &c15SScope{closureLit: lit}
	sc.names = append(sc.names, l.Params...)
	sc.names = append(sc.names, l.OptNames...)
	s.push(sc)
	s.chunk(l.Body)
	s.pop()
	s.inPipeStage, s.noDecl = saved, savedND
}

func (s *c15Static) exprs(es []c15Expr) {
	for _, e := range es {
		if e != nil {
			s.expr(e)
		}
	}
}

func (s *c15Static) expr(e c15Expr) {
	switch e := e.(type) {
	case *c15Str:
	case *c15Var:
		s.useVar(e.Name)
	case *c15List:
		s.exprs(e.Elems)
	case *c15Map:
		for i := range e.Keys {
			s.expr(e.Keys[i])
			if e.Vals[i] != nil {
				s.expr(e.Vals[i])
			}
		}
	case *c15Lambda:
		s.lambda(e, true)
	case *c15Cap:
		s.chunk(e.Body)
	case *c15ExcCap:
		s.chunk(e.Body)
	case *c15Braced:
		s.exprs(e.Elems)
	case *c15Index:
		s.expr(e.Head)
		s.exprs(e.Idx)
	case *c15Cat:
		s.exprs(e.Parts)
	default:
		panic("c15Static.expr: unknown node")
	}
}

func (s *c15Static) form(f c15Form) {
	switch f := f.(type) {
	case *c15Cmd:
		if f.HeadExpr != nil {
			s.expr(f.HeadExpr)
		} else if !s.lookup(f.Head+"~") && !c15BuiltinCmds[f.Head] {
			c15Unmod("command outside the subset (external or unmodelled builtin): " + f.Head)
		}
		s.exprs(f.Args)
		s.exprs(f.OptVals)
	case *c15Assign:
		rest := 0
		for _, lv := range f.LHS {
			if lv.Rest {
				rest++
			}
		}
		if rest > 1 || len(f.LHS) == 0 {
			c15Unmod("assignment shape outside the subset")
		}
		if f.Kind == "var" {
			s.exprs(f.RHS)
			seen := map[string]bool{}
			for _, lv := range f.LHS {
				if len(lv.Idx) > 0 || seen[lv.Name] || (lv.Rest && !f.HasEq) {
					c15Unmod("var shape outside the subset")
				}
				if len(lv.Name) > 0 && lv.Name[len(lv.Name)-1] == '~' {
					c15Unmod("var of a name ending in ~")
				}
				seen[lv.Name] = true
			}
			for _, lv := range f.LHS {
				s.declare(lv.Name)
			}
			return
		}
		if !f.HasEq {
			c15Unmod("set without =")
		}
		for _, lv := range f.LHS {
			if !s.lookup(lv.Name) {
				if !c15ValidName(lv.Name) {
					c15Unmod("variable name outside the subset")
				}
				s.errorf("cannot find variable $" + lv.Name)
			}
			if len(lv.Name) > 0 && lv.Name[len(lv.Name)-1] == '~' {
				c15Unmod("set of a name ending in ~")
			}
			for _, ix := range lv.Idx {
				if !c15PureLiteral(ix) {
					c15Unmod("lvalue index that is not a literal")
				}
			}
		}
		s.exprs(f.RHS)
	case *c15Del:
		for _, lv := range f.Targets {
			if lv.Rest {
				c15Unmod("del @x")
			}
			if len(lv.Idx) > 0 {
				if !s.lookup(lv.Name) {
					c15Unmod("del of an element of a nonexistent variable")
				}
				for _, ix := range lv.Idx {
					if !c15PureLiteral(ix) {
						c15Unmod("lvalue index that is not a literal")
					}
				}
				continue
			}
			if s.noDecl > 0 || s.inPipeStage > 0 {
				c15Unmod("del inside a while condition or pipeline stage")
			}
			cnt := 0
			for _, n := range s.cur().names {
				if n == lv.Name {
					cnt++
				}
			}
			if cnt != 1 || s.cur().loopVar {
				c15Unmod("del of a variable that is not declared exactly once in the current scope")
			}
			sc := s.cur()
			var kept []string
			for _, n := range sc.names {
				if n != lv.Name {
					kept = append(kept, n)
				}
			}
			sc.names = kept
		}
	case *c15Fn:
		if !c15ValidName(f.Name) {
			c15Unmod("fn name outside the subset")
		}
		s.declare(f.Name + "~")
		s.lambda(f.L, true)
	case *c15If:
		for i := range f.Conds {
			s.expr(f.Conds[i])
			s.block(f.Bodies[i])
		}
		s.block(f.Else)
	case *c15While:
		s.noDecl++
		s.expr(f.Cond)
		s.noDecl--
		s.block(f.Body)
		s.block(f.Else)
	case *c15For:
		s.expr(f.Cont)
		s.blockWithVar(f.Var, f.Body)
		s.block(f.Else)
	case *c15Try:
		s.block(f.Body)
		if f.Catch != nil {
			s.blockWithVar(f.CatchVar, f.Catch)
		}
		s.block(f.Else)
		s.block(f.Finally)
	case *c15Logic:
		s.exprs(f.Args)
	default:
		panic("c15Static.form: unknown node")
	}
}
