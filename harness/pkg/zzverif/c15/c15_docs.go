//go:build verif

package c15

// Examples taken from website/ref/language.md and pkg/eval/*.d.elv that lie
// inside the modelled subset (echo replaced by put where the example is about
// values). Want lists the documented value outputs in the notation of the
// documentation; Outcome is "ok", "compile-error" or the documented exception
// class. The reference interpreter must reproduce every one of them.

type c15DocExample struct {
	Src     string
	Want    []string
	Outcome string // "" = ok
}

var c15DocExamples = []c15DocExample{
	// language.md: List, Map
	{"put [lorem ipsum]", []string{"[lorem ipsum]"}, ""},
	{"put [lorem\n ipsum\n foo\n bar]", []string{"[lorem ipsum foo bar]"}, ""},
	{"var li = [a, b]\nput $li\nput $li[0]", []string{"[a, b]", "a,"}, ""},
	{"var li = [lorem ipsum foo bar]\nput $li[0]\nput $li[-1]\nput $li[0..2]", []string{"lorem", "bar", "[lorem ipsum]"}, ""},
	{"put [&foo=bar &lorem=ipsum]", []string{"[&foo=bar &lorem=ipsum]"}, ""},
	{"put [&a &b=]", []string{"[&a=$true &b='']"}, ""},
	{"var map = [&a=lorem &b=ipsum &a..b=haha]\nput $map[a]\nput $map[a..b]", []string{"lorem", "haha"}, ""},
	{"put [&a=lorem&b=ipsum]", []string{"[&a=lorem &b=ipsum]"}, ""},
	// Exception
	{"put ?(fail foo)[reason][type] ?(fail foo)[reason][content]", []string{"fail", "foo"}, ""},
	{"put ?(return)[reason][type] ?(return)[reason][name]", []string{"flow", "return"}, ""},
	// Function
	{"var f = {|a b| put $b $a }\n$f lorem ipsum", []string{"ipsum", "lorem"}, ""},
	{"var f = {|a @rest| put $a $rest }\n$f lorem\n$f lorem ipsum dolar sit\nset f = {|a @rest b| put $a $rest $b }\n$f lorem ipsum dolar sit",
		[]string{"lorem", "[]", "lorem", "[ipsum dolar sit]", "lorem", "[ipsum dolar]", "sit"}, ""},
	{"var f = {|&opt=default| put 'Value of $opt is '$opt }\n$f\n$f &opt=foobar", []string{"'Value of $opt is default'", "'Value of $opt is foobar'"}, ""},
	{"{|a| put $a } foo bar", nil, "arity"},
	{"{|a b| put $a $b } foo", nil, "arity"},
	{"{|a b @rest| put $a $b $rest } foo", nil, "arity"},
	{"{|&k=v| put $k } &k2=v2", nil, "unknown-option"},
	{"var f = {|a @r b &o=d &p=[x]| put $a }\nput $f[arg-names] $f[opt-names] $f[opt-defaults]", []string{"[a r b]", "[o p]", "[d [x]]"}, ""},
	// Scoping, closures
	{"var x = 12\n{ put $x }", []string{"12"}, ""},
	{"put $nonexistent", nil, "compile-error"},
	{"put pre-error; put $nonexistent", nil, "compile-error"},
	{"fn make-adder {\n var n = 0\n put { put $n } { set n = (+ $n 1) }\n}\nvar getter adder = (make-adder)\n$getter\n$adder\n$getter\nvar getter2 adder2 = (make-adder)\n$getter2\n$getter",
		[]string{"0", "(num 1)", "0", "(num 1)"}, ""},
	{"fn f { var m = 2; var n = 3; put { put $n } }\nvar g = (f)", nil, ""},
	// Variable use
	{"var foo = bar\nvar x y = 3 4\nput $foo\nput $x", []string{"bar", "3"}, ""},
	{"put $x", nil, "compile-error"},
	{"fn f { put $x }", nil, "compile-error"},
	{"var li = [lorem ipsum foo bar]\nput $li\nput $@li", []string{"[lorem ipsum foo bar]", "lorem", "ipsum", "foo", "bar"}, ""},
	// Output capture, exception capture
	{"+ 1 10 100\nvar x = (+ 1 10 100)\nput $x\nput lorem ipsum\nvar x y = (put lorem ipsum)\nput $x\nput $y",
		[]string{"(num 111)", "(num 111)", "lorem", "ipsum", "lorem", "ipsum"}, ""},
	{"nop (var x = foo)\nput $x", []string{"foo"}, ""},
	{"put ?(fail bad)", []string{"?(fail bad)"}, ""},
	{"put ?(nop)", []string{"$ok"}, ""},
	{"var output = (var error = ?(put foo; fail bad))\nput $output $error", []string{"foo", "?(fail bad)"}, ""},
	// Braced list, indexing, compounding
	{"put {a b}-{1 2}", []string{"a-1", "a-2", "b-1", "b-2"}, ""},
	{"var li = [foo bar]\nput $li[0]\nvar li = [[foo bar] quux]\nput $li[0][0]\nput [[foo bar]][0][0]", []string{"foo", "foo", "foo"}, ""},
	{"put (put [foo bar] [lorem ipsum])[0]\nput {[foo bar] [lorem ipsum]}[0]", []string{"foo", "lorem", "foo", "lorem"}, ""},
	{"put [lorem ipsum foo bar][0 2 0..2]", []string{"lorem", "foo", "[lorem ipsum]"}, ""},
	{"put [&a=lorem &b=ipsum &a..b=haha][a a..b]", []string{"lorem", "haha"}, ""},
	{"put {[foo bar] [lorem ipsum]}[0 1]", []string{"foo", "bar", "lorem", "ipsum"}, ""},
	{"put 'a'b\"c\"", []string{"abc"}, ""},
	{"var v = value\nput '$v is '$v", []string{"'$v is value'"}, ""},
	{"var n = (num 10)\nput 'Number: '$n", []string{"'Number: 10'"}, ""},
	{"var l = [a b c]\nput 'List: '$l", nil, "error"},
	{"var li = [foo bar]\nput {a b}-$li[0 1]", []string{"a-foo", "a-bar", "b-foo", "b-bar"}, ""},
	// Ordinary command
	{"put x", []string{"x"}, ""},
	{"$put~ x", []string{"x"}, ""},
	{"{ put 'this is a lambda' }", []string{"'this is a lambda'"}, ""},
	{"var x = whoami\n$x", nil, "bad-value"},
	{"< 3 5\n> 3 5\n* 3 5", []string{"$true", "$false", "(num 15)"}, ""},
	{"fn f {|&opt=$false| put $opt }\nf &opt", []string{"$true"}, ""},
	// var, set, del
	{"var a\nput $a\nvar foo bar\nput $foo $bar", []string{"$nil", "$nil", "$nil"}, ""},
	{"var a b = foo bar\nput $a $b", []string{"foo", "bar"}, ""},
	{"var x = old\nfn f { put $x }\nvar x = new\nput $x\nf", []string{"new", "old"}, ""},
	{"var x = foo\nvar x = [$x]\nput $x", []string{"[foo]"}, ""},
	{"var x y z\nset x = foo\nput $x\nset x y = lorem ipsum\nput $x $y\nset x @y z = a b\nput $x $y $z\nset x @y z = a b c d\nput $x $y $z\nset y[0] = foo\nput $y",
		[]string{"foo", "lorem", "ipsum", "a", "[]", "b", "a", "[b c]", "d", "[foo c]"}, ""},
	{"var li = [foo bar]\nvar li2 = $li\nset li[0] = lorem\nput $li $li2", []string{"[lorem bar]", "[foo bar]"}, ""},
	{"var x = 2\nput $x\ndel x\nput $x", nil, "compile-error"},
	{"var x = value\nfn f { put $x }\ndel x\nf", []string{"value"}, ""},
	{"var m = [&k=v &k2=v2]\ndel m[k2]\nput $m\nvar l = [[&k=v &k2=v2]]\ndel l[0][k2]\nput $l", []string{"[&k=v]", "[[&k=v]]"}, ""},
	// and, or, coalesce
	{"and $true $false\nand a b c\nand a $false", []string{"$false", "c", "$false"}, ""},
	{"or $true $false\nor a b c\nor $false a b", []string{"$true", "a", "a"}, ""},
	{"coalesce $nil a b\ncoalesce $nil $nil\ncoalesce $nil $nil a\ncoalesce a b", []string{"a", "$nil", "a", "a"}, ""},
	{"and $false (fail foo)\nor $true (fail foo)\ncoalesce a (fail foo)", []string{"$false", "$true", "a"}, ""},
	{"or ?(put x) ?(put y) ?(put z)", []string{"x", "$ok"}, ""},
	// if, while, for
	{"if (put $true $false) {\n put 'will not be executed'\n}", nil, ""},
	{"if (var x = foo; put $x) { }\nput $x", []string{"foo"}, ""},
	// try
	{"try { fail bad } catch e { put $e[reason][content] }", []string{"bad"}, ""},
	{"try { fail bad } finally { put foo }", []string{"foo"}, "fail:bad"},
	{"try { fail bad } catch e { put $e[reason][type] } else { put good }", []string{"fail"}, ""},
	{"try { nop } catch e { put $e[reason][type] } else { put good }", []string{"good"}, ""},
	{"try { fail bad } finally { put final }", []string{"final"}, "fail:bad"},
	{"try { put good } finally { put final }", []string{"good", "final"}, ""},
	{"try { nop } catch e { put $e[reason][type] } else { put good } finally { put final }", []string{"good", "final"}, ""},
	{"try { fail bad } catch e { put $e[reason][type] } else { put good } finally { put final }", []string{"fail", "final"}, ""},
	{"try { fail bad } catch e { fail worse }", nil, "fail:worse"},
	{"try { fail bad } catch e { fail worse } finally { fail worst }", nil, "fail:worst"},
	// fn
	{"fn f {\n { put a; return }\n put b\n}\nf\n{\n f\n put c\n}", []string{"a", "a", "c"}, ""},
	{"fn f {|n| if (== $n 0) { put 1 } else { * $n (f (- $n 1)) } }\nf 3", []string{"(num 6)"}, ""},
	{"fn f { put 'hello from f' }\nvar v = $f~\n$v", []string{"'hello from f'"}, ""},
	// Exception and flow commands
	{"fn f {\n {\n  return\n }\n}\nf", nil, ""},
	{"for x [a b c] { put $x; break; put unexpected }", []string{"a"}, ""},
	{"for x [a b c] { put $x; continue; put unexpected }", []string{"a", "b", "c"}, ""},
	// builtin docs: flow
	{"range 5 8 | each {|x| * $x $x }", []string{"(num 25)", "(num 36)", "(num 49)"}, ""},
	{"fail bad", nil, "fail:bad"},
	{"fn f { fail bad }\nfail ?(f)", nil, "fail:bad"},
	{"return", nil, "flow:return"},
	// stream
	{"all [foo [lorem ipsum]]\nall foo", []string{"foo", "[lorem ipsum]", "f", "o", "o"}, ""},
	{"fn f { var inputs = [(all)]; put $inputs[1] }\nput foo bar baz | f", []string{"bar"}, ""},
	{"range 2 | take 10", []string{"(num 0)", "(num 1)"}, ""},
	{"take 3 [a b c d e]", []string{"a", "b", "c"}, ""},
	{"range 10 | drop 8\nrange 2 | drop 10\ndrop 2 [a b c d e]", []string{"(num 8)", "(num 9)", "c", "d", "e"}, ""},
	{"put a a b b c | compact\ncompact [a a b b c]\nput a b a | compact", []string{"a", "b", "c", "a", "b", "c", "a", "b", "a"}, ""},
	{"count [lorem ipsum]\ncount [&foo=bar &lorem=ipsum]\ncount lorem\nrange 100 | count", []string{"(num 2)", "(num 2)", "(num 5)", "(num 100)"}, ""},
	{"put foo bar ipsum | order", []string{"bar", "foo", "ipsum"}, ""},
	{"order [(num 10) (num 1) (num 5)]", []string{"(num 1)", "(num 5)", "(num 10)"}, ""},
	{"order [[a b] [a] [b b] [a c]]", []string{"[a]", "[a b]", "[a c]", "[b b]"}, ""},
	{"order &reverse [a c b]", []string{"c", "b", "a"}, ""},
	{"put [0 x] [1 a] [2 b] | order &key={|l| put $l[1]}", []string{"[1 a]", "[2 b]", "[0 x]"}, ""},
	{"order [a (num 2) c (num 0) b (num 1)]", nil, "bad-value"},
	{"keep-if {|s| == 3 (count $s) } [foo bar foobar]", []string{"foo", "bar"}, ""},
	// numbers
	{"num 10\nnum 1/12\nnum 3.14\nnum (num 10)", []string{"(num 10)", "(num 1/12)", "(num 3.14)", "(num 10)"}, ""},
	{"< 1 2\n< 2 1\n< 1 2 3", []string{"$true", "$false", "$true"}, ""},
	{"== 1 1\n== 1 (num 1)\n== 1 (num 1) 1\n== 1 (num 1) 1.0\n== 1 2", []string{"$true", "$true", "$true", "$true", "$false"}, ""},
	{"+ 5 2 7\n+ 1/2 1/3 1/4\n+ 1/2 0.5", []string{"(num 14)", "(num 13/12)", "(num 1.0)"}, ""},
	{"- 5\n- 5 2\n- 5 2 7\n- 1/2 1/3\n- 1/2 0.3\n- 10", []string{"(num -5)", "(num 3)", "(num -4)", "(num 1/6)", "(num 0.2)", "(num -10)"}, ""},
	{"* 2 5 7\n* 1/2 0.5\n* 0 0.5", []string{"(num 70)", "(num 0.25)", "(num 0)"}, ""},
	{"/ 2\n/ 2.0\n/ 10 5\n/ 2 5\n/ 2 5 7\n/ 0 1.0", []string{"(num 1/2)", "(num 0.5)", "(num 2)", "(num 2/5)", "(num 2/35)", "(num 0)"}, ""},
	{"/ 2 0", nil, "bad-value"},
	{"/ 2 0.0", []string{"(num +Inf)"}, ""},
	{"% 10 3\n% -10 3\n% 10 -3\n% 10000000000000000000 3", []string{"(num 1)", "(num -1)", "(num 1)", "(num 1)"}, ""},
	{"% 10.0 3", nil, "bad-value"},
	{"range 4", []string{"(num 0)", "(num 1)", "(num 2)", "(num 3)"}, ""},
	{"range 4 0", []string{"(num 4)", "(num 3)", "(num 2)", "(num 1)"}, ""},
	{"range -3 3 &step=2\nrange 3 -3 &step=-2", []string{"(num -3)", "(num -1)", "(num 1)", "(num 3)", "(num 1)", "(num -1)"}, ""},
	{"range 9/10 &step=3/10", []string{"(num 0)", "(num 3/10)", "(num 3/5)"}, ""},
	{"+ 2 10\n== 2 (num 2)\n+ 10 1/10\n* 12 5/17\n+ 10 0.1\n+ 10 1e1", []string{"(num 12)", "$true", "(num 101/10)", "(num 60/17)", "(num 10.1)", "(num 20.0)"}, ""},
	// predicates
	{"bool $true\nbool $false\nbool $ok\nbool ?(fail haha)\nbool ''\nbool []\nbool abc", []string{"$true", "$false", "$true", "$false", "$true", "$true", "$true"}, ""},
	{"not $true\nnot $false\nnot $ok\nnot ?(fail error)", []string{"$false", "$true", "$false", "$true"}, ""},
	{"eq a a\neq [a] [a]\neq [&k=v] [&k=v]\neq a [b]", []string{"$true", "$true", "$true", "$false"}, ""},
	{"not-eq 1 2\nnot-eq 1 1", []string{"$true", "$false"}, ""},
	{"put lorem ipsum | count\nput 10 100 | each {|x| + 1 $x }\ncount [lorem ipsum]\neach {|x| + 1 $x } [10 100]", []string{"(num 2)", "(num 11)", "(num 101)", "(num 2)", "(num 11)", "(num 101)"}, ""},
}
