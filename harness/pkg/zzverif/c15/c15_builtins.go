//go:build verif

package c15

import (
	"math"
	"math/big"
	"sort"
)

// Builtin commands of the reference interpreter, from pkg/eval/*.d.elv and
// website/ref/builtin.md.

type c15Builtin struct{ Name string }

// inputs returns the value inputs of a command: the optional $inputs argument
// (an iterable) or the pipeline input.
func (fr *c15Frame) inputs(arg []c15Val) ([]c15Val, *c15Exc) {
	if len(arg) == 1 {
		switch a := arg[0].(type) {
		case *c15ListV:
			return append([]c15Val{}, a.Elems...), nil
		case string:
			// "Strings ... are also supported": the elements are the codepoints (all foo)
			var out []c15Val
			for i := 0; i < len(a); i++ {
				if a[i] >= 0x80 {
					c15Unmod("non-ASCII string as $inputs")
				}
				out = append(out, string(a[i]))
			}
			return out, nil
		case *c15MapV:
			c15Unmod("map as $inputs")
		}
		return nil, c15Err("error", "$inputs is not iterable")
	}
	return fr.readAll(), nil
}

func (fr *c15Frame) readAll() []c15Val {
	if fr.in.used {
		c15Unmod("second reader of the same pipeline input")
	}
	fr.in.used = true
	vs := fr.in.vals
	fr.in.vals = nil
	return vs
}

func c15Arity(args []c15Val, min, max int) *c15Exc {
	if len(args) < min || (max >= 0 && len(args) > max) {
		return c15Err("arity", "wrong number of arguments")
	}
	return nil
}

func c15SmallInt(v c15Val) (int, bool) {
	n, ok := c15ToNum(v)
	if !ok {
		return 0, false
	}
	bi, ok := n.(*big.Int)
	if !ok || !bi.IsInt64() || bi.Int64() > 1<<20 || bi.Int64() < -(1<<20) {
		return 0, false
	}
	return int(bi.Int64()), true
}

func (fr *c15Frame) builtin(name string, args []c15Val, optNames []string, optVals []c15Val) *c15Exc {
	opt := func(n string) (c15Val, bool) {
		for i, m := range optNames {
			if m == n {
				return optVals[i], true
			}
		}
		return nil, false
	}
	allowed := map[string][]string{"range": {"step"}, "order": {"reverse", "key", "less-than", "total"}}
	for _, n := range optNames {
		ok := name == "nop"
		for _, a := range allowed[name] {
			if a == n {
				ok = true
			}
		}
		if !ok {
			c15Unmod("option of a builtin command that is not modelled")
		}
	}
	switch name {
	case "put":
		for _, a := range args {
			fr.put(a)
		}
		return nil
	case "nop":
		return nil
	case "fail":
		if exc := c15Arity(args, 1, 1); exc != nil {
			return exc
		}
		switch v := args[0].(type) {
		case *c15Exc:
			return v // "If $v is already an exception, fail rethrows it"
		case c15OK:
			c15Unmod("fail $ok")
		}
		return c15Fail(args[0])
	case "break", "continue", "return":
		if exc := c15Arity(args, 0, 0); exc != nil {
			return exc
		}
		return c15FlowExc(name)
	case "each":
		if exc := c15Arity(args, 1, 2); exc != nil {
			return exc
		}
		if !c15Callable(args[0]) {
			return c15Err("error", "each needs a function")
		}
		if len(args) == 2 {
			ins, exc := fr.inputs(args[1:])
			if exc != nil {
				return exc
			}
			for _, v := range ins {
				if stop, exc := fr.eachCall(args[0], v); exc != nil || stop {
					return exc
				}
			}
			return nil
		}
		if fr.in.used {
			c15Unmod("second reader of the same pipeline input")
		}
		fr.in.used = true
		in := fr.in
		for len(in.vals) > 0 {
			v := in.vals[0]
			in.vals = in.vals[1:]
			// the callback may not read the same input
			if stop, exc := fr.eachCall(args[0], v); exc != nil || stop {
				return exc
			}
		}
		return nil
	case "take", "drop":
		if exc := c15Arity(args, 1, 2); exc != nil {
			return exc
		}
		n, ok := c15SmallInt(args[0])
		if !ok {
			if _, isNum := c15ToNum(args[0]); isNum {
				c15Unmod("take/drop count that is not a small integer")
			}
			return c15Err("error", "take/drop count is not a number")
		}
		if n < 0 {
			c15Unmod("negative take/drop count")
		}
		if len(args) == 2 || name == "drop" {
			ins, exc := fr.inputs(args[1:])
			if exc != nil {
				return exc
			}
			for i, v := range ins {
				if (name == "take") == (i < n) {
					fr.put(v)
				}
			}
			return nil
		}
		// take from the pipeline: later inputs stay unread
		if fr.in.used {
			c15Unmod("second reader of the same pipeline input")
		}
		fr.in.used = true
		for i := 0; i < n && len(fr.in.vals) > 0; i++ {
			fr.put(fr.in.vals[0])
			fr.in.vals = fr.in.vals[1:]
		}
		return nil
	case "count":
		if exc := c15Arity(args, 0, 1); exc != nil {
			return exc
		}
		if len(args) == 1 {
			switch a := args[0].(type) {
			case *c15ListV:
				fr.put(big.NewInt(int64(len(a.Elems))))
			case *c15MapV:
				fr.put(big.NewInt(int64(len(a.Keys))))
			case string:
				fr.put(big.NewInt(int64(len(a))))
			default:
				return c15Err("error", "cannot count")
			}
			return nil
		}
		fr.put(big.NewInt(int64(len(fr.readAll()))))
		return nil
	case "all":
		if exc := c15Arity(args, 0, 1); exc != nil {
			return exc
		}
		ins, exc := fr.inputs(args)
		if exc != nil {
			return exc
		}
		for _, v := range ins {
			fr.put(v)
		}
		return nil
	case "compact":
		if exc := c15Arity(args, 0, 1); exc != nil {
			return exc
		}
		ins, exc := fr.inputs(args)
		if exc != nil {
			return exc
		}
		for i, v := range ins {
			if i == 0 || !c15Eq(ins[i-1], v) {
				fr.put(v)
			}
		}
		return nil
	case "keep-if":
		if exc := c15Arity(args, 1, 2); exc != nil {
			return exc
		}
		if !c15Callable(args[0]) {
			return c15Err("error", "keep-if needs a function")
		}
		ins, exc := fr.inputs(args[1:])
		if exc != nil {
			return exc
		}
		for _, v := range ins {
			outs, exc := fr.callCapture(args[0], []c15Val{v})
			if exc != nil {
				if exc.Kind == "flow" {
					c15Unmod("flow command in a keep-if predicate")
				}
				return exc
			}
			if len(outs) != 1 {
				return c15Err("error", "predicate must output a single boolean")
			}
			b, ok := outs[0].(bool)
			if !ok {
				return c15Err("error", "predicate must output a single boolean")
			}
			if b {
				fr.put(v)
			}
		}
		return nil
	case "order":
		return fr.order(args, opt)
	case "range":
		return fr.rangeCmd(args, opt)
	case "+", "-", "*", "/":
		return fr.arith(name, args)
	case "%":
		if exc := c15Arity(args, 2, 2); exc != nil {
			return exc
		}
		var xs [2]*big.Int
		for _, a := range args {
			if _, ok := c15ToNum(a); !ok {
				// which error a non-number gives is not documented
				return c15Err("bad-value|error", "% of a non-number")
			}
		}
		for i, a := range args {
			n, _ := c15ToNum(a)
			bi, ok := n.(*big.Int)
			if !ok {
				return c15Err("bad-value", "argument must be exact integer")
			}
			xs[i] = bi
		}
		if xs[1].Sign() == 0 {
			c15Unmod("% by zero")
		}
		fr.put(new(big.Int).Rem(xs[0], xs[1])) // "The result has the same sign as $x"
		return nil
	case "==", "!=", "<", "<=", ">", ">=":
		if name == "!=" {
			if exc := c15Arity(args, 2, 2); exc != nil {
				return exc
			}
		}
		nums := make([]c15Val, len(args))
		for i, a := range args {
			n, ok := c15ToNum(a)
			if !ok {
				return c15Err("error", "comparison of a non-number")
			}
			nums[i] = n
		}
		res := true
		for i := 0; i+1 < len(nums); i++ {
			c, ok := c15NumCmp(nums[i], nums[i+1])
			if !ok {
				c15Unmod("numeric comparison with NaN")
			}
			var r bool
			switch name {
			case "==":
				r = c == 0
			case "!=":
				r = c != 0
			case "<":
				r = c < 0
			case "<=":
				r = c <= 0
			case ">":
				r = c > 0
			case ">=":
				r = c >= 0
			}
			res = res && r
		}
		fr.put(res)
		return nil
	case "eq":
		res := true
		for i := 0; i+1 < len(args); i++ {
			if !c15Eq(args[i], args[i+1]) {
				res = false
			}
		}
		fr.put(res)
		return nil
	case "not-eq":
		if exc := c15Arity(args, 2, 2); exc != nil {
			return exc
		}
		fr.put(!c15Eq(args[0], args[1]))
		return nil
	case "not", "bool":
		if exc := c15Arity(args, 1, 1); exc != nil {
			return exc
		}
		fr.put(c15Bool(args[0]) == (name == "bool"))
		return nil
	case "num":
		if exc := c15Arity(args, 1, 1); exc != nil {
			return exc
		}
		switch a := args[0].(type) {
		case *big.Int, *big.Rat, float64:
			fr.put(a)
			return nil
		case string:
			n, ok := c15ParseNum(a)
			if !ok {
				return c15Err("error", "not a valid representation of a number")
			}
			fr.put(n)
			return nil
		}
		return c15Err("error", "num of a value that is neither string nor number")
	}
	panic("c15 builtin not implemented: " + name)
}

func c15Callable(v c15Val) bool {
	switch v.(type) {
	case *c15Closure, *c15Builtin:
		return true
	}
	return false
}

// eachCall calls f on one input; break stops the loop, continue ends the iteration.
func (fr *c15Frame) eachCall(f, v c15Val) (stop bool, exc *c15Exc) {
	sub := &c15Frame{it: fr.it, env: fr.env, out: fr.out, in: &c15Input{used: true}}
	exc = sub.call(f, []c15Val{v}, nil, nil)
	if exc != nil && exc.Kind == "flow" {
		switch exc.Flow {
		case "break":
			return true, nil
		case "continue":
			return false, nil
		}
	}
	return false, exc
}

func (fr *c15Frame) callCapture(f c15Val, args []c15Val) ([]c15Val, *c15Exc) {
	var buf []c15Val
	sub := &c15Frame{it: fr.it, env: fr.env, out: &buf, in: &c15Input{used: true}}
	exc := sub.call(f, args, nil, nil)
	return buf, exc
}

func (fr *c15Frame) order(args []c15Val, opt func(string) (c15Val, bool)) *c15Exc {
	if exc := c15Arity(args, 0, 1); exc != nil {
		return exc
	}
	if _, ok := opt("total"); ok {
		c15Unmod("order &total (internal ordering of types is unspecified)")
	}
	if _, ok := opt("less-than"); ok {
		c15Unmod("order &less-than")
	}
	reverse := false
	if v, ok := opt("reverse"); ok {
		b, isB := v.(bool)
		if !isB {
			c15Unmod("order &reverse with a non-boolean")
		}
		reverse = b
	}
	ins, exc := fr.inputs(args)
	if exc != nil {
		return exc
	}
	keys := ins
	if kf, ok := opt("key"); ok {
		if _, isNil := kf.(c15Nil); !isNil {
			if !c15Callable(kf) {
				c15Unmod("order &key with a non-function")
			}
			keys = make([]c15Val, len(ins))
			for i, v := range ins {
				outs, exc := fr.callCapture(kf, []c15Val{v})
				if exc != nil {
					if exc.Kind == "flow" {
						c15Unmod("flow command in an order key function")
					}
					return exc
				}
				if len(outs) != 1 {
					return c15Err("error", "key function must output a single value")
				}
				keys[i] = outs[0]
			}
		}
	}
	// comparable graph
	n := len(keys)
	allOK := true
	adj := make([][]bool, n)
	for i := range adj {
		adj[i] = make([]bool, n)
	}
	for i := 0; i < n; i++ {
		for j := i + 1; j < n; j++ {
			_, ok := c15Compare(keys[i], keys[j])
			adj[i][j], adj[j][i] = ok, ok
			if !ok {
				allOK = false
			}
		}
	}
	if !allOK {
		// any algorithm has to compare along a connected set of pairs; if the
		// comparable pairs do not connect all inputs an uncomparable pair is met
		seen := make([]bool, n)
		var dfs func(int)
		dfs = func(i int) {
			seen[i] = true
			for j := 0; j < n; j++ {
				if adj[i][j] && !seen[j] {
					dfs(j)
				}
			}
		}
		dfs(0)
		for _, s := range seen {
			if !s {
				return c15Err("bad-value", "inputs to order must be comparable values")
			}
		}
		c15Unmod("order of partly uncomparable values (depends on which pairs the sort compares)")
	}
	idx := make([]int, n)
	for i := range idx {
		idx[i] = i
	}
	sort.SliceStable(idx, func(a, b int) bool {
		c, _ := c15Compare(keys[idx[a]], keys[idx[b]])
		if reverse {
			return c > 0
		}
		return c < 0
	})
	if reverse {
		// "&reverse ... reverses the order of output": for equal keys it is not
		// documented whether their relative order is reversed too
		for i := 0; i+1 < n; i++ {
			if c, _ := c15Compare(keys[idx[i]], keys[idx[i+1]]); c == 0 && !c15Eq(ins[idx[i]], ins[idx[i+1]]) {
				c15Unmod("order &reverse with equal keys of distinguishable values")
			}
		}
	}
	for _, i := range idx {
		fr.put(ins[i])
	}
	return nil
}

func (fr *c15Frame) rangeCmd(args []c15Val, opt func(string) (c15Val, bool)) *c15Exc {
	if exc := c15Arity(args, 1, 2); exc != nil {
		return exc
	}
	nums := make([]c15Val, 0, 3)
	for _, a := range args {
		n, ok := c15ToNum(a)
		if !ok {
			return c15Err("error", "range of a non-number")
		}
		nums = append(nums, n)
	}
	var step c15Val
	if sv, ok := opt("step"); ok {
		n, ok := c15ToNum(sv)
		if !ok {
			return c15Err("error", "range step is not a number")
		}
		step = n
		nums = append(nums, n)
	}
	for _, n := range nums {
		if !c15IsExact(n) {
			c15Unmod("range with floating-point numbers")
		}
	}
	start, end := new(big.Rat), c15Rat(nums[0])
	if len(args) == 2 {
		start, end = c15Rat(nums[0]), c15Rat(nums[1])
	}
	up := start.Cmp(end) <= 0
	st := big.NewRat(1, 1)
	if !up {
		st = big.NewRat(-1, 1)
	}
	if step != nil {
		st = c15Rat(step)
		if st.Sign() == 0 {
			c15Unmod("range with step 0")
		}
		if up && st.Sign() < 0 || !up && st.Sign() > 0 {
			if start.Cmp(end) == 0 {
				c15Unmod("range with start = end and negative step")
			}
			return c15Err("error", "range step has the wrong sign")
		}
	}
	cur := new(big.Rat).Set(start)
	for cnt := 0; (up && cur.Cmp(end) < 0) || (!up && cur.Cmp(end) > 0); cnt++ {
		if cnt > 10000 {
			c15Unmod("long range")
		}
		fr.put(c15Norm(new(big.Rat).Set(cur)))
		cur.Add(cur, st)
	}
	return nil
}

func (fr *c15Frame) arith(op string, args []c15Val) *c15Exc {
	if op == "-" {
		if exc := c15Arity(args, 1, -1); exc != nil {
			return exc
		}
	}
	if op == "/" && len(args) == 0 {
		c15Unmod("/ without arguments (implicit cd)")
	}
	nums := make([]c15Val, len(args))
	exact := true
	hasInf := false
	for i, a := range args {
		n, ok := c15ToNum(a)
		if !ok {
			return c15Err("error", "arithmetic on a non-number")
		}
		nums[i] = n
		if f, isF := n.(float64); isF {
			exact = false
			if math.IsInf(f, 0) || math.IsNaN(f) {
				hasInf = true
			}
		}
	}
	isExactZero := func(n c15Val) bool { return c15IsExact(n) && c15Rat(n).Sign() == 0 }
	if op == "/" {
		ys := nums[1:]
		if len(nums) == 1 {
			ys = nums
		}
		for _, y := range ys {
			if isExactZero(y) {
				return c15Err("bad-value", "divisor must be number other than exact 0")
			}
		}
		if len(nums) > 1 && isExactZero(nums[0]) {
			fr.put(big.NewInt(0)) // documented special case
			return nil
		}
	}
	if op == "*" && !hasInf {
		for _, n := range nums {
			if isExactZero(n) {
				fr.put(big.NewInt(0)) // documented special case
				return nil
			}
		}
	}
	if op == "*" && hasInf {
		for _, n := range nums {
			if isExactZero(n) {
				c15Unmod("* of exact 0 and infinity/NaN")
			}
		}
	}
	if exact {
		var acc *big.Rat
		switch op {
		case "+":
			acc = new(big.Rat)
			for _, n := range nums {
				acc.Add(acc, c15Rat(n))
			}
		case "*":
			acc = big.NewRat(1, 1)
			for _, n := range nums {
				acc.Mul(acc, c15Rat(n))
			}
		case "-":
			if len(nums) == 1 {
				acc = new(big.Rat).Neg(c15Rat(nums[0]))
			} else {
				acc = new(big.Rat).Set(c15Rat(nums[0]))
				for _, n := range nums[1:] {
					acc.Sub(acc, c15Rat(n))
				}
			}
		case "/":
			if len(nums) == 1 {
				acc = new(big.Rat).Inv(c15Rat(nums[0]))
			} else {
				acc = new(big.Rat).Set(c15Rat(nums[0]))
				for _, n := range nums[1:] {
					acc.Quo(acc, c15Rat(n))
				}
			}
		}
		fr.put(c15Norm(acc))
		return nil
	}
	// inexact: two plausible evaluation strategies must agree, otherwise the
	// rounding of the result is not pinned down by the documentation
	// (also: folding from the identity element, which matters for the sign of zero:
	// "- $x is equivalent to - 0 $x", "+ outputs the sum of all arguments")
	f1 := c15FloatFold(op, nums, false, false)
	for _, f := range []float64{c15FloatFold(op, nums, true, false), c15FloatFold(op, nums, false, true)} {
		if math.Float64bits(f) != math.Float64bits(f1) && !(math.IsNaN(f1) && math.IsNaN(f)) {
			c15Unmod("inexact arithmetic whose rounding or sign of zero depends on the evaluation strategy")
		}
	}
	fr.put(f1)
	return nil
}

// c15FloatFold folds left to right in float64; with exactPrefix the leading
// exact arguments are first combined exactly; with fromIdentity the fold starts
// from the identity element (0 or 1) instead of the first argument.
func c15FloatFold(op string, nums []c15Val, exactPrefix, fromIdentity bool) float64 {
	apply := func(a, b float64) float64 {
		switch op {
		case "+":
			return a + b
		case "-":
			return a - b
		case "*":
			return a * b
		}
		return a / b
	}
	if fromIdentity {
		id := 0.0
		if op == "*" || op == "/" {
			id = 1.0
		}
		switch {
		case op == "+" || op == "*":
			acc := id
			for _, n := range nums {
				acc = apply(acc, c15Float(n))
			}
			return acc
		case len(nums) == 1:
			return apply(id, c15Float(nums[0]))
		}
		acc := c15Float(nums[0])
		for _, n := range nums[1:] {
			acc = apply(acc, c15Float(n))
		}
		return acc
	}
	if len(nums) == 1 {
		switch op {
		case "-":
			return -c15Float(nums[0])
		case "/":
			return 1 / c15Float(nums[0])
		}
		return c15Float(nums[0])
	}
	i := 1
	var acc float64
	if exactPrefix && c15IsExact(nums[0]) {
		r := new(big.Rat).Set(c15Rat(nums[0]))
		for i < len(nums) && c15IsExact(nums[i]) {
			switch op {
			case "+":
				r.Add(r, c15Rat(nums[i]))
			case "-":
				r.Sub(r, c15Rat(nums[i]))
			case "*":
				r.Mul(r, c15Rat(nums[i]))
			case "/":
				r.Quo(r, c15Rat(nums[i]))
			}
			i++
		}
		acc, _ = r.Float64()
	} else {
		acc = c15Float(nums[0])
	}
	for ; i < len(nums); i++ {
		acc = apply(acc, c15Float(nums[i]))
	}
	return acc
}
