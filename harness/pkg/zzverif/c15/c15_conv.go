//go:build verif

package c15

import (
	"fmt"
	"strings"

	"src.elv.sh/pkg/parse"
)

// Conversion of a parse tree of the real parser into the c15 AST. It is used
// (1) to feed the examples of the language reference, given as source text, to
// the reference interpreter and (2) to check that the printer is faithful
// (parse(print(ast)) == ast). Source outside the modelled subset is refused.

type c15ConvErr struct{ msg string }

func c15ConvFail(f string, a ...any) { panic(c15ConvErr{fmt.Sprintf(f, a...)}) }

// c15Parse parses src and converts it; err != "" if the source is outside the subset.
func c15Parse(src string) (ch *c15Chunk, err string) {
	tree, perr := parse.Parse(parse.Source{Name: "c15", Code: src}, parse.Config{})
	if perr != nil {
		return nil, "parse error: " + perr.Error()
	}
	defer func() {
		if r := recover(); r != nil {
			if ce, ok := r.(c15ConvErr); ok {
				ch, err = nil, ce.msg
				return
			}
			panic(r)
		}
	}()
	return c15ConvChunk(tree.Root), ""
}

func c15ConvChunk(n *parse.Chunk) *c15Chunk {
	ch := &c15Chunk{}
	for _, p := range n.Pipelines {
		if p.Background {
			c15ConvFail("background pipeline")
		}
		pp := &c15Pipe{}
		for _, f := range p.Forms {
			pp.Forms = append(pp.Forms, c15ConvForm(f))
		}
		ch.Pipes = append(ch.Pipes, pp)
	}
	return ch
}

// literal returns the string value if cn is a single string literal without indices.
func c15Literal(cn *parse.Compound) (string, bool) {
	if cn == nil || len(cn.Indexings) != 1 || len(cn.Indexings[0].Indices) != 0 {
		return "", false
	}
	p := cn.Indexings[0].Head
	switch p.Type {
	case parse.Bareword, parse.SingleQuoted, parse.DoubleQuoted:
		return p.Value, true
	}
	return "", false
}

func c15IsBareword(cn *parse.Compound, s string) bool {
	if cn == nil || len(cn.Indexings) != 1 || len(cn.Indexings[0].Indices) != 0 {
		return false
	}
	p := cn.Indexings[0].Head
	return p.Type == parse.Bareword && p.Value == s
}

func c15ConvLambdaArg(cn *parse.Compound, what string) *c15Lambda {
	if cn == nil || len(cn.Indexings) != 1 || len(cn.Indexings[0].Indices) != 0 || cn.Indexings[0].Head.Type != parse.Lambda {
		c15ConvFail("%s must be a lambda", what)
	}
	return c15ConvExpr(cn).(*c15Lambda)
}

func c15ConvBlock(cn *parse.Compound, what string) *c15Chunk {
	l := c15ConvLambdaArg(cn, what)
	if len(l.Params)+len(l.OptNames) > 0 {
		c15ConvFail("%s must not have a signature", what)
	}
	return l.Body
}

func c15ConvLValue(cn *parse.Compound) c15LValue {
	if len(cn.Indexings) != 1 {
		c15ConvFail("compound lvalue")
	}
	ix := cn.Indexings[0]
	if ix.Head.Type != parse.Bareword {
		c15ConvFail("lvalue head must be a bareword")
	}
	lv := c15LValue{Name: ix.Head.Value}
	if strings.HasPrefix(lv.Name, "@") {
		lv.Rest, lv.Name = true, lv.Name[1:]
	}
	for _, arr := range ix.Indices {
		if len(arr.Compounds) != 1 {
			c15ConvFail("lvalue index must be one expression")
		}
		lv.Idx = append(lv.Idx, c15ConvExpr(arr.Compounds[0]))
	}
	return lv
}

func c15ConvForm(f *parse.Form) c15Form {
	if len(f.Redirs) > 0 {
		c15ConvFail("redirection")
	}
	if f.Head == nil {
		c15ConvFail("empty form")
	}
	args := f.Args
	head, lit := "", false
	if len(f.Head.Indexings) == 1 && len(f.Head.Indexings[0].Indices) == 0 && f.Head.Indexings[0].Head.Type == parse.Bareword {
		head, lit = f.Head.Indexings[0].Head.Value, true
	}
	if lit {
		switch head {
		case "var", "set":
			if len(f.Opts) > 0 {
				c15ConvFail("options on %s", head)
			}
			a := &c15Assign{Kind: head}
			i := 0
			for ; i < len(args) && !c15IsBareword(args[i], "="); i++ {
				a.LHS = append(a.LHS, c15ConvLValue(args[i]))
			}
			if i < len(args) {
				a.HasEq = true
				for _, r := range args[i+1:] {
					a.RHS = append(a.RHS, c15ConvExpr(r))
				}
			}
			return a
		case "del":
			d := &c15Del{}
			for _, a := range args {
				d.Targets = append(d.Targets, c15ConvLValue(a))
			}
			return d
		case "fn":
			if len(args) != 2 {
				c15ConvFail("fn needs 2 arguments")
			}
			name, ok := c15Literal(args[0])
			if !ok {
				c15ConvFail("fn name")
			}
			return &c15Fn{Name: name, L: c15ConvLambdaArg(args[1], "fn body")}
		case "if":
			n := &c15If{}
			i := 0
			for {
				if i+1 >= len(args) {
					c15ConvFail("if: missing condition or body")
				}
				n.Conds = append(n.Conds, c15ConvExpr(args[i]))
				n.Bodies = append(n.Bodies, c15ConvBlock(args[i+1], "if body"))
				i += 2
				if i < len(args) && c15IsBareword(args[i], "elif") {
					i++
					continue
				}
				break
			}
			if i < len(args) && c15IsBareword(args[i], "else") {
				if i+1 >= len(args) {
					c15ConvFail("if: missing else body")
				}
				n.Else = c15ConvBlock(args[i+1], "else body")
				i += 2
			}
			if i != len(args) {
				c15ConvFail("if: trailing arguments")
			}
			return n
		case "while":
			if len(args) != 2 && !(len(args) == 4 && c15IsBareword(args[2], "else")) {
				c15ConvFail("while: bad shape")
			}
			n := &c15While{Cond: c15ConvExpr(args[0]), Body: c15ConvBlock(args[1], "while body")}
			if len(args) == 4 {
				n.Else = c15ConvBlock(args[3], "while else")
			}
			return n
		case "for":
			if len(args) != 3 && !(len(args) == 5 && c15IsBareword(args[3], "else")) {
				c15ConvFail("for: bad shape")
			}
			name, ok := c15Literal(args[0])
			if !ok {
				c15ConvFail("for variable")
			}
			n := &c15For{Var: name, Cont: c15ConvExpr(args[1]), Body: c15ConvBlock(args[2], "for body")}
			if len(args) == 5 {
				n.Else = c15ConvBlock(args[4], "for else")
			}
			return n
		case "try":
			if len(args) < 1 {
				c15ConvFail("try: no body")
			}
			n := &c15Try{Body: c15ConvBlock(args[0], "try body")}
			i := 1
			if i < len(args) && c15IsBareword(args[i], "catch") {
				if i+2 >= len(args) {
					c15ConvFail("try: bad catch")
				}
				name, ok := c15Literal(args[i+1])
				if !ok {
					c15ConvFail("catch variable")
				}
				n.CatchVar, n.Catch = name, c15ConvBlock(args[i+2], "catch body")
				i += 3
			}
			if i < len(args) && c15IsBareword(args[i], "else") {
				if i+1 >= len(args) {
					c15ConvFail("try: bad else")
				}
				n.Else = c15ConvBlock(args[i+1], "else body")
				i += 2
			}
			if i < len(args) && c15IsBareword(args[i], "finally") {
				if i+1 >= len(args) {
					c15ConvFail("try: bad finally")
				}
				n.Finally = c15ConvBlock(args[i+1], "finally body")
				i += 2
			}
			if i != len(args) {
				c15ConvFail("try: trailing arguments")
			}
			if n.Catch == nil && n.Finally == nil || n.Else != nil && n.Catch == nil {
				c15ConvFail("try: statically invalid shape")
			}
			return n
		case "and", "or", "coalesce":
			if len(f.Opts) > 0 {
				c15ConvFail("options on %s", head)
			}
			n := &c15Logic{Op: head}
			for _, a := range args {
				n.Args = append(n.Args, c15ConvExpr(a))
			}
			return n
		case "tmp", "with", "pragma", "use":
			c15ConvFail("special command %s is outside the subset", head)
		}
	}
	c := &c15Cmd{}
	if lit {
		c.Head = head
	} else {
		c.HeadExpr = c15ConvExpr(f.Head)
	}
	for _, a := range args {
		c.Args = append(c.Args, c15ConvExpr(a))
	}
	for _, o := range f.Opts {
		name, ok := c15Literal(o.Key)
		if !ok {
			c15ConvFail("option name")
		}
		c.OptNames = append(c.OptNames, name)
		if o.Value == nil {
			c.OptVals = append(c.OptVals, nil)
		} else {
			c.OptVals = append(c.OptVals, c15ConvExprOrEmpty(o.Value))
		}
	}
	return c
}

// "&k=" has an empty compound as value, which means the empty string.
func c15ConvExprOrEmpty(cn *parse.Compound) c15Expr {
	if len(cn.Indexings) == 0 {
		return c15S("")
	}
	return c15ConvExpr(cn)
}

func c15ConvExpr(cn *parse.Compound) c15Expr {
	if len(cn.Indexings) == 0 {
		c15ConvFail("empty compound")
	}
	var parts []c15Expr
	for _, ix := range cn.Indexings {
		e := c15ConvPrimary(ix.Head)
		for _, arr := range ix.Indices {
			n := &c15Index{Head: e}
			for _, c := range arr.Compounds {
				n.Idx = append(n.Idx, c15ConvExpr(c))
			}
			e = n
		}
		parts = append(parts, e)
	}
	if len(parts) == 1 {
		return parts[0]
	}
	return &c15Cat{parts}
}

func c15ConvPrimary(p *parse.Primary) c15Expr {
	switch p.Type {
	case parse.Bareword, parse.SingleQuoted, parse.DoubleQuoted:
		return &c15Str{p.Value}
	case parse.Variable:
		name := p.Value
		v := &c15Var{}
		if strings.HasPrefix(name, "@") {
			v.Explode, name = true, name[1:]
		}
		v.Name = name
		return v
	case parse.ExceptionCapture:
		return &c15ExcCap{c15ConvChunk(p.Chunk)}
	case parse.OutputCapture:
		return &c15Cap{c15ConvChunk(p.Chunk)}
	case parse.List:
		n := &c15List{}
		for _, e := range p.Elements {
			n.Elems = append(n.Elems, c15ConvExpr(e))
		}
		return n
	case parse.Map:
		n := &c15Map{}
		for _, mp := range p.MapPairs {
			n.Keys = append(n.Keys, c15ConvExpr(mp.Key))
			if mp.Value == nil {
				n.Vals = append(n.Vals, nil)
			} else {
				n.Vals = append(n.Vals, c15ConvExprOrEmpty(mp.Value))
			}
		}
		return n
	case parse.Braced:
		n := &c15Braced{}
		for _, e := range p.Braced {
			n.Elems = append(n.Elems, c15ConvExpr(e))
		}
		return n
	case parse.Lambda:
		l := &c15Lambda{Rest: -1, Body: c15ConvChunk(p.Chunk)}
		for _, e := range p.Elements {
			name, ok := c15Literal(e)
			if !ok {
				c15ConvFail("lambda parameter")
			}
			if strings.HasPrefix(name, "@") {
				if l.Rest >= 0 {
					c15ConvFail("two rest parameters")
				}
				l.Rest, name = len(l.Params), name[1:]
			}
			l.Params = append(l.Params, name)
		}
		for _, mp := range p.MapPairs {
			name, ok := c15Literal(mp.Key)
			if !ok || mp.Value == nil {
				c15ConvFail("lambda option")
			}
			l.OptNames = append(l.OptNames, name)
			l.OptDefs = append(l.OptDefs, c15ConvExprOrEmpty(mp.Value))
		}
		return l
	}
	c15ConvFail("primary type %v is outside the subset", p.Type)
	return nil
}
