//go:build verif

package c15

import (
	"math"
	"math/big"
	"sort"
	"strconv"
	"strings"
)

// Values of the reference interpreter.
//   c15Nil, bool, string, *big.Int (exact integer), *big.Rat (exact non-integer),
//   float64, *c15ListV, *c15MapV, *c15Closure, *c15Exc (exception value), c15OK,
//   *c15Builtin (the value of $name~ of a modelled builtin, only callable)

type c15Val interface{}
type c15Nil struct{}
type c15OK struct{}
type c15ListV struct{ Elems []c15Val }
type c15MapV struct{ Keys, Vals []c15Val } // unordered; kept in insertion order

type c15Closure struct {
	L     *c15Lambda
	Env   []*c15Entry // frozen view of the enclosing scopes, outermost first
	Defs  []c15Val    // option defaults, evaluated when the closure was created
	IsFn  bool        // defined with fn: captures return
}

// c15Exc is an exception (as Go error value of the interpreter and as Elvish value).
// Kind: "fail" (Content), "flow" (Flow = break/continue/return), "pipeline" (Parts),
// "arity", "bad-value", "unknown-option", or "error" = an exception whose kind the
// documentation does not pin down (matches any other non-fail non-flow kind).
// Kind may list alternatives separated by "|" when the documentation does not
// say which of two errors is reported first.
type c15Exc struct {
	Kind    string
	Content c15Val
	Flow    string
	Parts   []*c15Exc
	Why     string
}

func c15Fail(v c15Val) *c15Exc        { return &c15Exc{Kind: "fail", Content: v} }
func c15FlowExc(n string) *c15Exc     { return &c15Exc{Kind: "flow", Flow: n} }
func c15Err(kind, why string) *c15Exc { return &c15Exc{Kind: kind, Why: why} }

// c15Unmodelled is panicked when the program leaves what the prose reference
// settles; the program is then not judged.
type c15Unmodelled struct{ Why string }

func c15Unmod(why string) { panic(c15Unmodelled{why}) }

// ---- canonical description (shared with the description of real values) ----

func c15DescStr(s string) string { return "'" + strings.ReplaceAll(s, "'", "''") + "'" }

func c15FormatFloat(f float64) string {
	switch {
	case math.IsNaN(f):
		return "NaN"
	case math.IsInf(f, 1):
		return "+Inf"
	case math.IsInf(f, -1):
		return "-Inf"
	}
	s := strconv.FormatFloat(f, 'g', -1, 64)
	if !strings.ContainsAny(s, ".e") {
		s += ".0" // documented: (num 20.0), (num 1.0); 1e+18 stays as is
	}
	return s
}

// c15NumString is the string a number converts to (in compounds, and inside (num ...)).
func c15NumString(v c15Val) string {
	switch v := v.(type) {
	case *big.Int:
		return v.String()
	case *big.Rat:
		return v.Num().String() + "/" + v.Denom().String()
	case float64:
		return c15FormatFloat(v)
	}
	panic("not a number")
}

// c15ExcClass is the cause class of an exception. The coarse form collapses
// every kind other than fail / flow / pipeline into "error".
func c15ExcClass(e *c15Exc, coarse bool) string {
	switch e.Kind {
	case "fail":
		return "fail:" + c15Desc(e.Content)
	case "flow":
		return "flow:" + e.Flow
	case "pipeline":
		var ps []string
		for _, p := range e.Parts {
			ps = append(ps, c15ExcClass(p, true))
		}
		sort.Strings(ps)
		return "pipeline{" + strings.Join(ps, ",") + "}"
	}
	if coarse {
		return "error"
	}
	return e.Kind
}

func c15Desc(v c15Val) string {
	switch v := v.(type) {
	case c15Nil:
		return "$nil"
	case c15OK:
		return "$ok"
	case bool:
		if v {
			return "$true"
		}
		return "$false"
	case string:
		return c15DescStr(v)
	case *big.Int, *big.Rat, float64:
		return "(num " + c15NumString(v) + ")"
	case *c15ListV:
		ss := make([]string, len(v.Elems))
		for i, e := range v.Elems {
			ss[i] = c15Desc(e)
		}
		return "[" + strings.Join(ss, " ") + "]"
	case *c15MapV:
		if len(v.Keys) == 0 {
			return "[&]"
		}
		ss := make([]string, len(v.Keys))
		for i := range v.Keys {
			ss[i] = "&" + c15Desc(v.Keys[i]) + "=" + c15Desc(v.Vals[i])
		}
		sort.Strings(ss)
		return "[" + strings.Join(ss, " ") + "]"
	case *c15Closure, *c15Builtin:
		return "<fn>"
	case *c15Exc:
		return "?(" + c15ExcClass(v, true) + ")"
	case *c15Reason:
		c15Unmod("the printed form of an exception reason is not fully documented")
	}
	panic("c15Desc: unknown value")
}

// ---- numbers ----

// c15Norm canonicalises an exact rational: integers become *big.Int.
func c15Norm(r *big.Rat) c15Val {
	if r.IsInt() {
		return new(big.Int).Set(r.Num())
	}
	return r
}

// c15ParseNum converts a string to a number following the Number section of the
// reference (decimal integers, rationals a/b, floats with point or exponent, the
// three special floats). Other notations (hex, octal, underscores) are not modelled.
func c15ParseNum(s string) (c15Val, bool) {
	if s == "" {
		return nil, false
	}
	isDigits := func(t string) bool {
		if t == "" {
			return false
		}
		for i := 0; i < len(t); i++ {
			if t[i] < '0' || t[i] > '9' {
				return false
			}
		}
		return true
	}
	signed := func(t string) bool {
		if strings.HasPrefix(t, "-") || strings.HasPrefix(t, "+") {
			t = t[1:]
		}
		if len(t) > 1 && t[0] == '0' && isDigits(t) {
			c15Unmod("number with leading zero")
		}
		return isDigits(t)
	}
	switch strings.ToLower(s) {
	case "+inf", "inf":
		return math.Inf(1), true
	case "-inf":
		return math.Inf(-1), true
	case "nan":
		return math.NaN(), true
	}
	if signed(s) {
		n, _ := new(big.Int).SetString(s, 10)
		return n, true
	}
	if i := strings.IndexByte(s, '/'); i >= 0 {
		if signed(s[:i]) && isDigits(s[i+1:]) {
			r, ok := new(big.Rat).SetString(s)
			if !ok {
				c15Unmod("rational with zero denominator")
			}
			return c15Norm(r), true
		}
		return nil, false
	}
	if strings.ContainsAny(s, ".eE") {
		t := s
		if strings.HasPrefix(t, "-") || strings.HasPrefix(t, "+") {
			t = t[1:]
		}
		// digits [. digits] [e [sign] digits], at least one digit in the mantissa
		okShape := func() bool {
			i := 0
			nd := 0
			for i < len(t) && t[i] >= '0' && t[i] <= '9' {
				i++
				nd++
			}
			if i < len(t) && t[i] == '.' {
				i++
				for i < len(t) && t[i] >= '0' && t[i] <= '9' {
					i++
					nd++
				}
			}
			if nd == 0 {
				return false
			}
			if i < len(t) && (t[i] == 'e' || t[i] == 'E') {
				i++
				if i < len(t) && (t[i] == '+' || t[i] == '-') {
					i++
				}
				return isDigits(t[i:])
			}
			return i == len(t)
		}
		if okShape() {
			if strings.HasPrefix(t, ".") || strings.HasSuffix(t, ".") {
				c15Unmod("float without digits on one side of the point")
			}
			f, err := strconv.ParseFloat(s, 64)
			if err != nil {
				c15Unmod("float out of range")
			}
			return f, true
		}
		return nil, false
	}
	// the notations not modelled: 0x / 0o / 0b prefixes and digit-separating underscores
	t := strings.ToLower(strings.TrimLeft(s, "+-"))
	if strings.HasPrefix(t, "0x") || strings.HasPrefix(t, "0o") || strings.HasPrefix(t, "0b") ||
		(strings.Contains(t, "_") && t[0] >= '0' && t[0] <= '9') {
		c15Unmod("number notation not modelled: " + s)
	}
	return nil, false
}

// c15ToNum: "a typed number or a string that can be converted to a number".
func c15ToNum(v c15Val) (c15Val, bool) {
	switch v := v.(type) {
	case *big.Int, *big.Rat, float64:
		return v, true
	case string:
		return c15ParseNum(v)
	}
	return nil, false
}

func c15IsExact(n c15Val) bool { _, f := n.(float64); return !f }

func c15Rat(n c15Val) *big.Rat {
	switch n := n.(type) {
	case *big.Int:
		return new(big.Rat).SetInt(n)
	case *big.Rat:
		return n
	}
	panic("c15Rat of inexact")
}

func c15Float(n c15Val) float64 {
	switch n := n.(type) {
	case float64:
		return n
	case *big.Int:
		if !n.IsInt64() {
			// documented for inexact-num: integers of very large magnitude "may be
			// converted to an infinite value"
			c15Unmod("conversion of a very large exact integer to an inexact number")
		}
		f, _ := new(big.Float).SetInt(n).Float64()
		return f
	case *big.Rat:
		f, _ := n.Float64()
		return f
	}
	panic("c15Float")
}

// c15NumCmp compares numerically: -1, 0, 1; ok=false if a NaN is involved.
func c15NumCmp(a, b c15Val) (int, bool) {
	if c15IsExact(a) && c15IsExact(b) {
		return c15Rat(a).Cmp(c15Rat(b)), true
	}
	if c15IsExact(a) != c15IsExact(b) {
		// exact vs inexact: "numerically" is taken mathematically; where converting
		// the exact number to float64 first would change the answer the case is
		// the known finding of property C09 and is not judged here
		fa, fb := c15Float(a), c15Float(b)
		if math.IsNaN(fa) || math.IsNaN(fb) {
			return 0, false
		}
		viaFloat := 0
		switch {
		case fa < fb:
			viaFloat = -1
		case fa > fb:
			viaFloat = 1
		}
		exactOf := func(n c15Val, f float64) (*big.Rat, int) {
			if c15IsExact(n) {
				return c15Rat(n), 0
			}
			if math.IsInf(f, 0) {
				if f > 0 {
					return nil, 1
				}
				return nil, -1
			}
			return new(big.Rat).SetFloat64(f), 0
		}
		ra, ia := exactOf(a, fa)
		rb, ib := exactOf(b, fb)
		math_ := 0
		switch {
		case ia != 0:
			math_ = ia
		case ib != 0:
			math_ = -ib
		default:
			math_ = ra.Cmp(rb)
		}
		if math_ != viaFloat {
			c15Unmod("comparison of an exact with an inexact number that differs when made through float64 (C09)")
		}
		return math_, true
	}
	x, y := c15Float(a), c15Float(b)
	if math.IsNaN(x) || math.IsNaN(y) {
		return 0, false
	}
	switch {
	case x < y:
		return -1, true
	case x > y:
		return 1, true
	}
	return 0, true
}

// ---- equality ("same type and value", recursive) ----

func c15TypeOf(v c15Val) string {
	switch v.(type) {
	case c15Nil:
		return "nil"
	case c15OK, *c15Exc:
		return "exception"
	case bool:
		return "bool"
	case string:
		return "string"
	case *big.Int, *big.Rat, float64:
		return "number"
	case *c15ListV:
		return "list"
	case *c15MapV:
		return "map"
	case *c15Closure, *c15Builtin:
		return "fn"
	case *c15Reason:
		return "reason"
	}
	panic("c15TypeOf")
}

func c15Eq(a, b c15Val) bool {
	ta, tb := c15TypeOf(a), c15TypeOf(b)
	if ta != tb {
		return false
	}
	switch a := a.(type) {
	case c15Nil:
		return true
	case bool:
		return a == b.(bool)
	case string:
		return a == b.(string)
	case *big.Int, *big.Rat, float64:
		if c15IsExact(a) != c15IsExact(b) {
			c15Unmod("eq of an exact and an inexact number (same type?)")
		}
		if f, ok := a.(float64); ok && (math.IsNaN(f) || math.IsNaN(b.(float64))) {
			c15Unmod("eq of NaN")
		}
		c, _ := c15NumCmp(a, b)
		return c == 0
	case *c15ListV:
		bl := b.(*c15ListV)
		if len(a.Elems) != len(bl.Elems) {
			return false
		}
		for i := range a.Elems {
			if !c15Eq(a.Elems[i], bl.Elems[i]) {
				return false
			}
		}
		return true
	case *c15MapV:
		bm := b.(*c15MapV)
		if len(a.Keys) != len(bm.Keys) {
			return false
		}
		for i, k := range a.Keys {
			v, ok := bm.get(k)
			if !ok || !c15Eq(a.Vals[i], v) {
				return false
			}
		}
		return true
	}
	c15Unmod("eq of " + ta + " values")
	return false
}

func (m *c15MapV) get(k c15Val) (c15Val, bool) {
	for i, kk := range m.Keys {
		if c15Eq(kk, k) {
			return m.Vals[i], true
		}
	}
	return nil, false
}

// assoc returns a new map with k set to v.
func (m *c15MapV) assoc(k, v c15Val) *c15MapV {
	n := &c15MapV{append([]c15Val{}, m.Keys...), append([]c15Val{}, m.Vals...)}
	for i, kk := range n.Keys {
		if c15Eq(kk, k) {
			n.Vals[i] = v
			return n
		}
	}
	n.Keys, n.Vals = append(n.Keys, k), append(n.Vals, v)
	return n
}

func (m *c15MapV) dissoc(k c15Val) *c15MapV {
	n := &c15MapV{}
	for i, kk := range m.Keys {
		if !c15Eq(kk, k) {
			n.Keys, n.Vals = append(n.Keys, kk), append(n.Vals, m.Vals[i])
		}
	}
	return n
}

// c15Bool: $nil, $false and exceptions are booleanly false ($ok is true).
func c15Bool(v c15Val) bool {
	switch v := v.(type) {
	case c15Nil, *c15Exc:
		return false
	case bool:
		return v
	}
	return true
}

// c15Compare implements the documented `compare` without &total; ok=false means
// the two values cannot be compared (bad value).
func c15Compare(a, b c15Val) (int, bool) {
	ta, tb := c15TypeOf(a), c15TypeOf(b)
	if ta == tb {
		switch x := a.(type) {
		case bool:
			y := b.(bool)
			switch {
			case x == y:
				return 0, true
			case !x:
				return -1, true
			}
			return 1, true
		case *big.Int, *big.Rat, float64:
			c, ok := c15NumCmp(a, b)
			if !ok {
				c15Unmod("compare with NaN")
			}
			return c, true
		case string:
			return strings.Compare(x, b.(string)), true
		case *c15ListV:
			y := b.(*c15ListV)
			for i := 0; i < len(x.Elems) && i < len(y.Elems); i++ {
				c, ok := c15Compare(x.Elems[i], y.Elems[i])
				if !ok {
					// documented as "elements compared recursively"; what happens
					// for incomparable elements of two lists is only implied
					return 0, false
				}
				if c != 0 {
					return c, true
				}
			}
			switch {
			case len(x.Elems) < len(y.Elems):
				return -1, true
			case len(x.Elems) > len(y.Elems):
				return 1, true
			}
			return 0, true
		}
		if c15Eq(a, b) {
			return 0, true
		}
		return 0, false
	}
	return 0, false
}
