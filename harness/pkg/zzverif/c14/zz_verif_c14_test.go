//go:build verif

// Package c14 holds the check of property C14: element assignment and element
// deletion rebind only the assigned variable, to the nested assoc/dissoc of its
// old value, and never change a value that is observable elsewhere.
//
// Technique: breadth-first search over histories of element-assignment
// statements. Every history is run from scratch on its own eval.Evaler, one
// statement at a time through Evaler.Eval with a channel capture port. Before
// every step aliases of the current value are taken in elvish (another
// variable, a closure that captured the value, a container holding it, its
// element containers, values derived from it with conj/assoc/dissoc/slicing)
// and on the Go side (values that were output). The expected content of every
// alias and of the assigned variable comes from a reference model (nested
// immutable values with a recursive assoc/dissoc) written from the language
// reference; all aliases are read back before and after the step.
package c14

import (
	"fmt"
	"sort"
	"strconv"
	"strings"
	"testing"

	"src.elv.sh/pkg/eval"
	"src.elv.sh/pkg/eval/vals"
	"src.elv.sh/pkg/parse"
	"src.elv.sh/pkg/zzverif/vk"
)

// ---------------------------------------------------------------------------
// Reference model.

// c14Val is a model value: a string, a list or a map with string keys. Model
// values are never modified after construction.
type c14Val struct {
	kind byte // 's', 'l', 'm'
	s    string
	l    []*c14Val
	m    map[string]*c14Val
}

func c14S(s string) *c14Val     { return &c14Val{kind: 's', s: s} }
func c14L(e ...*c14Val) *c14Val { return &c14Val{kind: 'l', l: e} }
func c14M(kv ...any) *c14Val {
	m := map[string]*c14Val{}
	for i := 0; i < len(kv); i += 2 {
		m[kv[i].(string)] = kv[i+1].(*c14Val)
	}
	return &c14Val{kind: 'm', m: m}
}

func (v *c14Val) keys() []string {
	ks := make([]string, 0, len(v.m))
	for k := range v.m {
		ks = append(ks, k)
	}
	sort.Strings(ks)
	return ks
}

// write writes the value in elvish syntax (all strings used by the check are
// barewords); this is both the source text used to build it and the expected
// repr (map pairs sorted by key).
func (v *c14Val) write(sb *strings.Builder) {
	switch v.kind {
	case 's':
		sb.WriteString(v.s)
	case 'l':
		sb.WriteByte('[')
		for i, e := range v.l {
			if i > 0 {
				sb.WriteByte(' ')
			}
			e.write(sb)
		}
		sb.WriteByte(']')
	case 'm':
		if len(v.m) == 0 {
			sb.WriteString("[&]")
			return
		}
		sb.WriteByte('[')
		for i, k := range v.keys() {
			if i > 0 {
				sb.WriteByte(' ')
			}
			sb.WriteByte('&')
			sb.WriteString(k)
			sb.WriteByte('=')
			v.m[k].write(sb)
		}
		sb.WriteByte(']')
	}
}

func (v *c14Val) String() string {
	var sb strings.Builder
	v.write(&sb)
	return sb.String()
}

type c14Err int

const (
	c14OK        c14Err = iota
	c14Fail             // the documentation demands an exception
	c14NotJudged        // documentation silent (element of a string)
)

// c14ListIndex resolves a list index written as a decimal integer.
func c14ListIndex(idx string, n int) (int, bool) {
	i, err := strconv.Atoi(idx)
	if err != nil {
		return 0, false
	}
	if i < 0 {
		i += n
	}
	if i < 0 || i >= n {
		return 0, false
	}
	return i, true
}

func c14Index(c *c14Val, idx string) (*c14Val, c14Err) {
	switch c.kind {
	case 'l':
		i, ok := c14ListIndex(idx, len(c.l))
		if !ok {
			return nil, c14Fail
		}
		return c.l[i], c14OK
	case 'm':
		e, ok := c.m[idx]
		if !ok {
			return nil, c14Fail
		}
		return e, c14OK
	}
	return nil, c14NotJudged
}

func c14Assoc(c *c14Val, idx string, nv *c14Val) (*c14Val, c14Err) {
	switch c.kind {
	case 'l':
		i, ok := c14ListIndex(idx, len(c.l))
		if !ok {
			return nil, c14Fail
		}
		l := append([]*c14Val(nil), c.l...)
		l[i] = nv
		return &c14Val{kind: 'l', l: l}, c14OK
	case 'm':
		m := make(map[string]*c14Val, len(c.m)+1)
		for k, e := range c.m {
			m[k] = e
		}
		m[idx] = nv
		return &c14Val{kind: 'm', m: m}, c14OK
	}
	return nil, c14NotJudged
}

func c14Dissoc(c *c14Val, idx string) (*c14Val, c14Err) {
	if c.kind != 'm' {
		// "The del special command can be used to delete variables or map elements."
		return nil, c14Fail
	}
	m := make(map[string]*c14Val, len(c.m))
	for k, e := range c.m {
		if k != idx {
			m[k] = e
		}
	}
	return &c14Val{kind: 'm', m: m}, c14OK
}

// c14SetPath is "a new list or map with the mutation applied": the container
// with the element at path replaced by nv.
func c14SetPath(c *c14Val, path []string, nv *c14Val) (*c14Val, c14Err) {
	if len(path) == 1 {
		return c14Assoc(c, path[0], nv)
	}
	child, e := c14Index(c, path[0])
	if e != c14OK {
		return nil, e
	}
	sub, e := c14SetPath(child, path[1:], nv)
	if e != c14OK {
		return nil, e
	}
	return c14Assoc(c, path[0], sub)
}

func c14DelPath(c *c14Val, path []string) (*c14Val, c14Err) {
	if len(path) == 1 {
		return c14Dissoc(c, path[0])
	}
	child, e := c14Index(c, path[0])
	if e != c14OK {
		return nil, e
	}
	sub, e := c14DelPath(child, path[1:])
	if e != c14OK {
		return nil, e
	}
	return c14Assoc(c, path[0], sub)
}

// c14Trail describes which container kinds a path walks through in v (class key).
func c14Trail(v *c14Val, path []string) string {
	var sb strings.Builder
	c := v
	for i, idx := range path {
		sb.WriteByte(c.kind)
		if i == len(path)-1 {
			break
		}
		n, e := c14Index(c, idx)
		if e != c14OK {
			sb.WriteByte('!')
			break
		}
		c = n
	}
	return sb.String()
}

// Elements in the order the elvish helper c14elems outputs them.
func c14Elems(v *c14Val) []*c14Val {
	switch v.kind {
	case 'l':
		return v.l
	case 'm':
		var out []*c14Val
		for _, k := range v.keys() {
			out = append(out, v.m[k])
		}
		return out
	}
	return nil
}

// Container elements at depth 1 and 2 (helper c14subs).
func c14Subs(v *c14Val) []*c14Val {
	var out []*c14Val
	for _, x := range c14Elems(v) {
		if x.kind == 's' {
			continue
		}
		out = append(out, x)
		for _, y := range c14Elems(x) {
			if y.kind != 's' {
				out = append(out, y)
			}
		}
	}
	return out
}

// Values derived from v that may share structure with it (helper c14derive).
func c14Derive(v *c14Val, t string) []*c14Val {
	tv := c14S(t)
	switch v.kind {
	case 'l':
		out := []*c14Val{c14L(append(append([]*c14Val(nil), v.l...), tv)...)}
		if n := len(v.l); n > 0 {
			a0, _ := c14Assoc(v, "0", tv)
			a1, _ := c14Assoc(v, "-1", tv)
			out = append(out, a0, a1, c14L(v.l[1:]...), c14L(v.l[:n-1]...),
				c14L(append(append([]*c14Val(nil), v.l[:n-1]...), tv)...))
		}
		return out
	case 'm':
		a0, _ := c14Assoc(v, t, tv)
		a1, _ := c14Assoc(v, "k", tv)
		d, _ := c14Dissoc(v, "k")
		// one new hash-colliding key only: two of them derived from the same map
		// would already disturb each other under a collision-node sharing bug,
		// before the judged statement runs
		c6, _ := c14Assoc(v, c14Collide[5], tv)
		return []*c14Val{a0, a1, d, c6}
	}
	return nil
}

const c14Prelude = "fn c14mk {|v| put { put $v } }\n"

// c14SubExprs lists the container elements at depth 1 and 2 of v as elvish
// indexing suffixes ("[0]", "[0][k]", ...) together with their model values, in
// the order of c14Subs. (Every capture `( )` and every pipeline of the evaluator
// costs an OS pipe, so the alias-taking code is generated straight-line from the
// model instead of exploring the value with elvish conditionals.)
func c14SubExprs(v *c14Val) (sfx []string, sub []*c14Val) {
	each := func(c *c14Val, f func(idx string, e *c14Val)) {
		switch c.kind {
		case 'l':
			for i, e := range c.l {
				f(strconv.Itoa(i), e)
			}
		case 'm':
			for _, k := range c.keys() {
				f(k, c.m[k])
			}
		}
	}
	each(v, func(i string, x *c14Val) {
		if x.kind == 's' {
			return
		}
		sfx, sub = append(sfx, "["+i+"]"), append(sub, x)
		each(x, func(j string, y *c14Val) {
			if y.kind != 's' {
				sfx, sub = append(sfx, "["+i+"]["+j+"]"), append(sub, y)
			}
		})
	})
	return
}

// c14DeriveCode is the elvish code that outputs the values of c14Derive(v, t)
// for the value denoted by expression x.
func c14DeriveCode(x string, v *c14Val, t string) string {
	switch v.kind {
	case 'l':
		if len(v.l) == 0 {
			return "conj " + x + " " + t + "\n"
		}
		return "conj " + x + " " + t + "; assoc " + x + " 0 " + t + "; assoc " + x + " -1 " + t +
			"; put " + x + "[1..] " + x + "[..-1]; conj " + x + "[..-1] " + t + "\n"
	case 'm':
		return "assoc " + x + " " + t + " " + t + "; assoc " + x + " k " + t + "; dissoc " + x + " k; assoc " + x + " " + c14Collide[5] + " " + t + "\n"
	}
	return ""
}

// ---------------------------------------------------------------------------
// Shapes and steps.

// c14Collide are six barewords with the same vals.Hash (DJB: h*33+c); the test
// asserts that they still collide. The start shapes hold the first 3 and the
// first 5 of them; the 4th and the 6th are used as new keys.
var c14Collide = []string{"bbbb", "cAbb", "bcAb", "bbcA", "cAcA", "cBAb"}

func c14Shapes() []*c14Val {
	long := []*c14Val{c14L(c14S("x"), c14S("y"))}
	for i := 1; i <= 32; i++ {
		long = append(long, c14S("e"+strconv.Itoa(i)))
	}
	long = append(long, c14L(c14S("z")))
	big := []any{"k", c14L(c14S("x"), c14S("y")), "m", c14M("k", c14S("v")), c14Nil, c14S("old")}
	for i := 0; i < 40; i++ {
		big = append(big, "q"+strconv.Itoa(i), c14S("r"+strconv.Itoa(i)))
	}
	return []*c14Val{
		c14L(c14L(c14S("x"), c14S("y"), c14S("z")), c14L(c14S("w"))),
		c14M("k", c14L(c14S("x")), "m", c14M("k", c14S("v"))),
		c14L(c14M("k", c14L(c14S("x"), c14S("y"))), c14S("y")),
		c14M("k", c14M("k", c14L(c14S("x"), c14S("y")), "m", c14S("z"))),
		c14L(long...),
		c14M(big...),
		c14M(c14Nil, c14S("old"), "k", c14M(c14Nil, c14L(c14S("x"), c14S("y")), "m", c14S("z"))),
		// maps whose keys have the same 32-bit hash (one collision node of the
		// persistent hash map): 3 such keys at the top level, 5 one level down
		c14M(c14Collide[0], c14S("c1"), c14Collide[1], c14S("c2"), c14Collide[2], c14S("c3"),
			"k", c14M(c14Collide[0], c14S("c1"), c14Collide[1], c14S("c2"), c14Collide[2], c14S("c3"), c14Collide[3], c14S("c4"), c14Collide[4], c14S("c5"))),
	}
}

// c14Nil is the index $nil. The model treats it as an ordinary map key that is
// different from every string key; it is written $nil in source text and in repr,
// and sorts before every string key (repr orders keys of different types by
// type, and the nil type comes first).
const c14Nil = "$nil"

var c14Paths = [][]string{
	{"0"}, {"1"}, {"-1"}, {"k"}, {"m"}, {c14Nil},
	{"k", c14Nil}, {c14Nil, "0"},
	{"bbcA"}, {"cBAb"}, {"k", "cBAb"},
	{"0", "0"}, {"0", "1"}, {"-1", "0"}, {"0", "k"}, {"k", "0"}, {"k", "k"}, {"k", "m"}, {"m", "k"},
	{"0", "0", "0"}, {"0", "k", "0"}, {"k", "k", "0"},
}

type c14Step struct {
	kind  string // violation keys and classes are per kind
	vr    string // assigned variable, "a" or "b"
	paths [][]string
	vals  []string // "str", "list", "map", "self"
	tier  int      // 0 core, 1 middle, 2 full alphabet only
}

func c14LValue(vr string, path []string) string {
	return vr + "[" + strings.Join(path, "][") + "]"
}

// value j of step i: source text and model value. Fresh strings make every
// assigned value distinguishable.
func (s *c14Step) value(j, i int, st c14State) (string, *c14Val) {
	tag := strconv.Itoa(i) + "x" + strconv.Itoa(j)
	switch s.vals[j] {
	case "str":
		return "v" + tag, c14S("v" + tag)
	case "list":
		return "[p" + tag + " q]", c14L(c14S("p"+tag), c14S("q"))
	case "map":
		return "[&k=w" + tag + "]", c14M("k", c14S("w"+tag))
	case "self":
		return "$a", st.a
	}
	panic("bad value kind")
}

func (s *c14Step) code(i int, st c14State) string {
	var lv, vs []string
	for j, p := range s.paths {
		lv = append(lv, c14LValue(s.vr, p))
		if j < len(s.vals) {
			src, _ := s.value(j, i, st)
			vs = append(vs, src)
		}
	}
	L, V := strings.Join(lv, " "), strings.Join(vs, " ")
	switch s.kind {
	case "set", "set-multi", "set-other":
		return "set " + L + " = " + V
	case "set-arg":
		return "{|x| set " + c14LValue("x", s.paths[0]) + " = " + V + "; put $x } $a"
	case "set-upvalue":
		return "{ set " + L + " = " + V + " }"
	case "del", "del-multi":
		return "del " + L
	case "del-upvalue":
		return "{ del " + L + " }"
	case "tmp", "tmp-multi":
		return "{ tmp " + L + " = " + V + "; put $a }"
	case "tmp-seq":
		return "{ tmp " + lv[0] + " = " + vs[0] + "; tmp " + lv[1] + " = " + vs[1] + "; put $a }"
	case "tmp-fail":
		return "{ tmp " + L + " = " + V + "; put $a; fail c14 }"
	case "with", "with-multi":
		return "with [" + L + " = " + V + "] { put $a }"
	case "with-seq":
		return "with [" + lv[0] + " = " + vs[0] + "] [" + lv[1] + " = " + vs[1] + "] { put $a }"
	case "with-fail":
		return "with [" + L + " = " + V + "] { put $a; fail c14 }"
	case "rebind-b":
		return "set b = $a"
	case "rebind-a":
		return "set a = $b"
	}
	panic("bad kind " + s.kind)
}

func (s *c14Step) label() string {
	return s.code(0, c14State{})
}

type c14State struct{ a, b *c14Val }

type c14Outcome struct {
	exc     bool     // an exception is demanded
	judged  bool     // whether the values after the step are judged
	after   c14State // demanded values of $a and $b after the step
	outs    []string // demanded value outputs of the step (repr)
	extend  bool     // the history is extended from this state
	failAt  int      // index of the lvalue whose assignment fails (-1: none)
	changed bool
}

// c14Apply is the reference semantics of one step.
func c14Apply(s *c14Step, st c14State, i int) c14Outcome {
	get := func() *c14Val {
		if s.vr == "b" {
			return st.b
		}
		return st.a
	}
	put := func(st c14State, v *c14Val) c14State {
		if s.vr == "b" {
			st.b = v
		} else {
			st.a = v
		}
		return st
	}
	switch s.kind {
	case "rebind-b":
		return c14Outcome{judged: true, after: c14State{st.a, st.a}, extend: true, failAt: -1}
	case "rebind-a":
		return c14Outcome{judged: true, after: c14State{st.b, st.b}, extend: true, failAt: -1}
	}
	// Apply the element assignments / deletions one lvalue after the other.
	cur := get()
	failAt, failKind := -1, c14OK
	for j, p := range s.paths {
		var nv *c14Val
		var e c14Err
		if strings.HasPrefix(s.kind, "del") {
			nv, e = c14DelPath(cur, p)
		} else {
			_, val := s.value(j, i, st)
			nv, e = c14SetPath(cur, p, val)
		}
		if e != c14OK {
			failAt, failKind = j, e
			break
		}
		cur = nv
	}
	o := c14Outcome{failAt: failAt}
	if failKind == c14NotJudged {
		return o // nothing demanded of the assigned variable
	}
	temporary := strings.HasPrefix(s.kind, "tmp") || strings.HasPrefix(s.kind, "with") || s.kind == "set-arg"
	bodyFails := strings.HasSuffix(s.kind, "-fail")
	switch {
	case failAt < 0 && !temporary:
		o.judged, o.after, o.extend, o.changed = true, put(st, cur), true, true
	case failAt < 0 && temporary:
		// the body sees the assignment; afterwards the variable is restored
		o.judged, o.after, o.extend, o.exc = true, st, true, bodyFails
		o.outs = []string{put(st, cur).a.String()}
	case temporary:
		// tmp: restored "when the current function has finished"; with: "restores
		// the variables to their original values". The body does not run.
		o.judged, o.after, o.exc = true, st, true
	case failAt == 0:
		o.judged, o.after, o.exc = true, st, true
	default:
		// A later lvalue of a plain set/del failed after an earlier one was
		// assigned: an exception is demanded, the resulting value is not judged.
		o.exc = true
	}
	return o
}

// c14Alphabet is the statement alphabet. tier 0 = core (deepest level of the
// quick run), tier <= 1 = middle alphabet (deepest level of the thorough run),
// every statement is used at levels 1 and 2.
func c14Alphabet() []*c14Step {
	var out []*c14Step
	add := func(tier int, kind, vr string, vals []string, paths ...[]string) {
		out = append(out, &c14Step{kind: kind, vr: vr, paths: paths, vals: vals, tier: tier})
	}
	str, list, mp, self := []string{"str"}, []string{"list"}, []string{"map"}, []string{"self"}
	midP := map[string]bool{"0": true, "-1": true, "k": true, "0,0": true, "0,k": true, "k,0": true, "k,k": true, "-1,0": true, "$nil": true, "k,$nil": true, "bbcA": true, "k,cBAb": true}
	core := map[string]bool{"set 0 list": true, "set $nil list": true, "set bbcA str": true, "del k": true}
	for _, p := range c14Paths {
		ps := strings.Join(p, ",")
		tier := func(name string, mid bool) int {
			switch {
			case core[name]:
				return 0
			case mid && midP[ps]:
				return 1
			}
			return 2
		}
		add(tier("set "+ps+" str", len(p) > 1 || ps == "bbcA"), "set", "a", str, p)
		add(tier("set "+ps+" list", true), "set", "a", list, p)
		add(tier("del "+ps, true), "del", "a", nil, p)
		add(tier("tmp "+ps+" list", true), "tmp", "a", list, p)
		if last := p[len(p)-1]; last == c14Collide[3] || last == c14Collide[5] {
			continue // new hash-colliding keys: set (string, list), del and tmp only
		}
		if len(p) == 1 {
			add(tier("set "+ps+" map", false), "set", "a", mp, p)
		}
		if len(p) <= 2 {
			add(tier("set "+ps+" self", len(p) == 1), "set", "a", self, p)
		}
		if midP[ps] {
			add(tier("with "+ps+" list", false), "with", "a", list, p)
		}
	}
	pairs := [][2][]string{
		{{"0"}, {"1"}}, {{"k"}, {"m"}}, {{"0", "0"}, {"0", "1"}}, {{"k", "0"}, {"m", "k"}}, {{c14Nil}, {"k"}},
	}
	for n, pr := range pairs {
		t := 2
		if n < 3 {
			t = 1
		}
		vs := []string{"str", "list"}
		add(t, "set-multi", "a", vs, pr[0], pr[1])
		add(2, "tmp-multi", "a", vs, pr[0], pr[1])
		add(2, "tmp-seq", "a", vs, pr[0], pr[1])
		add(2, "with-multi", "a", vs, pr[0], pr[1])
		add(2, "with-seq", "a", vs, pr[0], pr[1])
		add(2, "del-multi", "a", nil, pr[0], pr[1])
	}
	for _, p := range [][]string{{"0"}, {"k"}, {"0", "0"}, {"k", "k"}} {
		add(2, "tmp-fail", "a", list, p)
		add(2, "with-fail", "a", list, p)
		add(2, "set-upvalue", "a", list, p)
	}
	for _, p := range [][]string{{"0"}, {"-1"}, {"k"}, {c14Nil}, {"bbcA"}, {"cBAb"}, {"0", "0"}, {"k", "0"}, {"k", "k"}, {"k", "cBAb"}} {
		t := 2
		if len(p) == 1 && (p[0] == "0" || p[0] == "k" || p[0] == "bbcA") {
			t = 1
		}
		add(t, "set-other", "b", str, p)
	}
	// the value passed as a closure argument is element-assigned there and output
	for _, p := range [][]string{{"0"}, {"k"}, {"bbcA"}, {"k", "cBAb"}} {
		add(2, "set-arg", "a", str, p)
	}
	add(1, "rebind-b", "b", nil)
	return out
}

// ---------------------------------------------------------------------------
// The real side: one Evaler per history.

// c14Repr is vals.ReprPlain guarded against values that contain themselves: an
// in-place update of a shared container can make a value cyclic, and Repr of a
// cyclic value overflows the Go stack, which cannot be recovered from. Values of
// the histories nest a dozen levels at most.
func c14Repr(v any) string {
	if !c14Shallow(v, 40) {
		return "<value nested deeper than 40 levels: it contains itself>"
	}
	return vals.ReprPlain(v)
}

func c14Shallow(v any, limit int) bool {
	if limit == 0 {
		return false
	}
	switch v := v.(type) {
	case vals.List:
		for it := v.Iterator(); it.HasElem(); it.Next() {
			if !c14Shallow(it.Elem(), limit-1) {
				return false
			}
		}
	case vals.Map:
		for it := v.Iterator(); it.HasElem(); it.Next() {
			k, e := it.Elem()
			if !c14Shallow(k, limit-1) || !c14Shallow(e, limit-1) {
				return false
			}
		}
	}
	return true
}

type c14Alias struct {
	kind string // var, closure, container, elements, derived, other-var, output, output-element, body-output
	expr string // elvish expression producing exactly one value; "" for a value kept on the Go side
	call bool   // expr is a closure to call; its single output is the value
	val  any    // Go-side value
	want string // reference repr
	born int    // step before which it was taken
}

type c14Run struct {
	ev      *eval.Evaler
	ch      chan any
	aliases []*c14Alias
}

func c14NewRun() *c14Run {
	return &c14Run{ev: eval.NewEvaler(), ch: make(chan any, 256)}
}

func (r *c14Run) eval(code string) (outs []any, exc string, panicked string) {
	port := &eval.Port{File: eval.DevNull, Chan: r.ch}
	var e error
	panicked = vk.Try(func() {
		e = r.ev.Eval(parse.Source{Name: "[c14]", Code: code},
			eval.EvalCfg{Ports: []*eval.Port{eval.DummyInputPort, port, eval.DummyOutputPort}})
	})
	for n := len(r.ch); n > 0; n-- {
		outs = append(outs, <-r.ch)
	}
	if e != nil {
		exc = e.Error()
		if exc == "" {
			exc = "exception"
		}
	}
	return
}

// takeAliases takes aliases of the current values of $a and $b before step i.
func (r *c14Run) takeAliases(i int, st c14State) string {
	n := strconv.Itoa(i)
	sfx, subs := c14SubExprs(st.a)
	elems, derive := "", c14DeriveCode("$a", st.a, "t"+n)
	for k, sx := range sfx {
		elems += " $a" + sx
		derive += c14DeriveCode("$a"+sx, subs[k], "t"+n)
	}
	code := "var b" + n + " = $a\n" +
		"var f" + n + " = (c14mk $a)\n" +
		"var d" + n + " = [$a [&k=$a]]\n" +
		"var c" + n + " = [" + elems + "]\n" +
		"var e" + n + " = [(\n" + derive + ")]\n" +
		"var o" + n + " = $b\n" +
		"put $a $b $@c" + n
	outs, exc, p := r.eval(code)
	if p != "" || exc != "" {
		return "taking aliases failed: " + exc + p
	}
	if len(outs) != 2+len(subs) {
		return fmt.Sprintf("taking aliases output %d values, want %d", len(outs), 2+len(subs))
	}
	var derived []*c14Val
	derived = append(derived, c14Derive(st.a, "t"+n)...)
	for _, x := range subs {
		derived = append(derived, c14Derive(x, "t"+n)...)
	}
	A := st.a.String()
	r.aliases = append(r.aliases,
		&c14Alias{kind: "var", expr: "$b" + n, want: A, born: i},
		&c14Alias{kind: "closure", expr: "$f" + n, call: true, want: A, born: i},
		&c14Alias{kind: "container", expr: "$d" + n, want: "[" + A + " [&k=" + A + "]]", born: i},
		&c14Alias{kind: "elements", expr: "$c" + n, want: c14L(subs...).String(), born: i},
		&c14Alias{kind: "derived", expr: "$e" + n, want: c14L(derived...).String(), born: i},
		&c14Alias{kind: "other-var", expr: "$o" + n, want: st.b.String(), born: i},
		&c14Alias{kind: "output", val: outs[0], want: A, born: i},
		&c14Alias{kind: "output", val: outs[1], want: st.b.String(), born: i})
	for j, x := range subs {
		r.aliases = append(r.aliases, &c14Alias{kind: "output-element", val: outs[2+j], want: x.String(), born: i})
	}
	return ""
}

// observe reads $a, $b and every alias.
func (r *c14Run) observe() (a, b string, got []string, problem string) {
	var sb, calls strings.Builder
	sb.WriteString("put $a $b")
	n := 2
	for _, al := range r.aliases {
		if al.call {
			calls.WriteString("\n" + al.expr)
			n++
		} else if al.expr != "" {
			sb.WriteByte(' ')
			sb.WriteString(al.expr)
			n++
		}
	}
	outs, exc, p := r.eval(sb.String() + calls.String())
	if p != "" || exc != "" || len(outs) != n {
		return "", "", nil, fmt.Sprintf("reading the aliases failed: %s%s (%d values, want %d)", exc, p, len(outs), n)
	}
	a, b = c14Repr(outs[0]), c14Repr(outs[1])
	got = make([]string, len(r.aliases))
	k, kc := 2, n
	for _, al := range r.aliases {
		if al.call {
			kc--
		}
	}
	for i, al := range r.aliases {
		switch {
		case al.call:
			got[i] = c14Repr(outs[kc])
			kc++
		case al.expr != "":
			got[i] = c14Repr(outs[k])
			k++
		default:
			got[i] = c14Repr(al.val)
		}
	}
	return a, b, got, ""
}

type c14Viol struct {
	key, msg string
	n        int
}

type c14Node struct {
	shape int
	steps []int
}

type c14Result struct {
	viols  []c14Viol
	class  string
	extend bool
	stateK string // abstract state after the step
}

func c14Short(s string) string {
	if len(s) > 160 {
		return s[:160] + "..."
	}
	return s
}

// c14RunHistory replays the history on a fresh Evaler and judges its last step.
func c14RunHistory(shapes []*c14Val, alpha []*c14Step, nd c14Node) (res c14Result) {
	st := c14State{shapes[nd.shape], shapes[nd.shape]}
	r := c14NewRun()
	var trace []string
	hist := func() string { return strings.Join(trace, " ; ") }
	viol := func(key, format string, args ...any) {
		res.viols = append(res.viols, c14Viol{key, "history: " + hist() + " => " + fmt.Sprintf(format, args...), len(nd.steps)})
	}
	init := "var a = " + st.a.String() + "; var b = $a"
	trace = append(trace, init)
	if _, exc, p := r.eval(c14Prelude + init); exc != "" || p != "" {
		viol("harness:prelude", "prelude failed: %s%s", exc, p)
		return
	}
	for i1, si := range nd.steps {
		i := i1 + 1
		last := i == len(nd.steps)
		s := alpha[si]
		if msg := r.takeAliases(i, st); msg != "" {
			viol("alias-taking-failed", "before step %d: %s", i, msg)
			return
		}
		var pre []string
		if last {
			a, b, got, problem := r.observe()
			if problem != "" {
				viol("alias-reading-failed", "before step %d: %s", i, problem)
				return
			}
			if a != st.a.String() || b != st.b.String() {
				viol("variable-changed-while-taking-aliases", "taking aliases before step %d (var, closure, list and map literals, indexing, conj/assoc/dissoc/slices of the value) left $a = %s, $b = %s, reference %s, %s",
					i, c14Short(a), c14Short(b), c14Short(st.a.String()), c14Short(st.b.String()))
				return
			}
			pre = got
			for k, al := range r.aliases {
				if got[k] != al.want {
					key, what := "alias-changed-while-taking-aliases:", "was changed by taking the aliases of step"
					if al.born == i {
						key, what = "alias-wrong-when-taken:", "is wrong right after being taken before step"
					}
					viol(key+al.kind, "alias (%s %s, taken before step %d) %s %d: reads %s, reference %s",
						al.kind, al.expr, al.born, what, i, c14Short(got[k]), c14Short(al.want))
					break
				}
			}
		}
		code := s.code(i, st)
		trace = append(trace, code)
		want := c14Apply(s, st, i)
		outs, exc, p := r.eval(code)
		var outReprs []string
		for _, o := range outs {
			outReprs = append(outReprs, c14Repr(o))
		}
		if !last {
			if p != "" || (exc != "") != want.exc {
				viol("replay-diverged", "step %d behaved differently when replayed (exception %q, panic %q)", i, exc, p)
				return
			}
		} else {
			tr := ""
			for _, pth := range s.paths {
				tr += c14Trail(map[string]*c14Val{"a": st.a, "b": st.b}[s.vr], pth) + ","
			}
			oc := "ok"
			switch {
			case !want.judged && want.exc:
				oc = "partial"
			case !want.judged:
				oc = "string-element"
			case want.exc && want.extend:
				oc = "body-failed"
			case want.exc:
				oc = "exception@" + strconv.Itoa(want.failAt)
			}
			res.class = fmt.Sprintf("%s|%s|%s|%s|n%d", s.kind, strings.Join(s.vals, ","), tr, oc, len(nd.steps))
			if p != "" {
				viol("panic:"+vk.PanicSite(p), "step %d panicked: %s", i, p)
				return
			}
			if want.judged || want.exc {
				if want.exc && exc == "" {
					viol("missing-exception:"+s.kind, "step %d raised no exception; the reference semantics fails at lvalue %d", i, want.failAt)
				} else if !want.exc && exc != "" {
					viol("unexpected-exception:"+s.kind, "step %d raised %q; the reference semantics succeeds", i, exc)
				}
			}
			if want.judged && (exc != "") == want.exc {
				if strings.Join(outReprs, " ") != strings.Join(want.outs, " ") {
					viol("body-value:"+s.kind, "the body of step %d saw $a = %s, reference %s", i, c14Short(strings.Join(outReprs, " ")), c14Short(strings.Join(want.outs, " ")))
				}
			}
			a, b, got, problem := r.observe()
			if problem != "" {
				viol("alias-reading-failed", "after step %d: %s", i, problem)
				return
			}
			if want.judged {
				wa, wb := want.after.a.String(), want.after.b.String()
				other, gotOther, wantOther := "b", b, wb
				gotV, wantV := a, wa
				if s.vr == "b" {
					other, gotOther, wantOther = "a", a, wa
					gotV, wantV = b, wb
				}
				if gotOther != wantOther {
					viol("other-variable-changed:"+s.kind, "after step %d $%s = %s, before %s", i, other, c14Short(gotOther), c14Short(wantOther))
				}
				if gotV != wantV {
					key := "wrong-value:" + s.kind
					if !want.changed && want.extend {
						key = "not-restored:" + s.kind
					} else if !want.changed {
						key = "changed-by-failed-step:" + s.kind
					}
					viol(key, "after step %d $%s = %s, reference %s", i, s.vr, c14Short(gotV), c14Short(wantV))
				}
			}
			for k := range pre {
				if pre[k] == r.aliases[k].want && got[k] != pre[k] {
					al := r.aliases[k]
					viol("alias-changed:"+al.kind+":"+s.kind, "alias (%s %s, taken before step %d) read %s before step %d and %s after it",
						al.kind, al.expr, al.born, c14Short(pre[k]), i, c14Short(got[k]))
					break
				}
			}
			res.extend = want.extend && len(res.viols) == 0
			if res.extend {
				res.stateK = a + "|" + b
			}
		}
		// Values output by the body of a tmp/with step stay alive on the Go side.
		if want.judged && len(want.outs) == len(outs) {
			for k, o := range outs {
				r.aliases = append(r.aliases, &c14Alias{kind: "body-output", val: o, want: want.outs[k], born: i})
			}
		}
		if want.judged {
			st = want.after
		}
	}
	return
}

func TestVerifC14(t *testing.T) {
	vk.Run(t, "C14", "model_checking", func(c *vk.Ctx) {
		const depth = 3
		lastTier := vk.Pick(c, 0, 1)
		maxLevel := depth
		for _, k := range c14Collide[1:] {
			if vals.Hash(k) != vals.Hash(c14Collide[0]) {
				// the hash function changed: the collision-node coverage would be lost silently
				fmt.Printf("HARNESS-ERROR property=C14 the keys %q no longer have the same vals.Hash (%q: %d, %q: %d); choose new colliding keys\n",
					c14Collide, c14Collide[0], vals.Hash(c14Collide[0]), k, vals.Hash(k))
				c.T.Fatalf("colliding keys do not collide")
			}
		}
		shapes := c14Shapes()
		alpha := c14Alphabet()
		var lastIdx, allIdx []int
		var labels, lastLabels []string
		for i, s := range alpha {
			allIdx = append(allIdx, i)
			labels = append(labels, s.label())
			if s.tier <= lastTier {
				lastIdx = append(lastIdx, i)
				lastLabels = append(lastLabels, s.label())
			}
		}
		c.Rule(fmt.Sprintf("breadth-first search over histories: initial value of $a (and its alias $b) from %d shapes; every history of <=%d steps whose steps 1 and 2 range over the %d-statement alphabet and whose step %d ranges over the %d-statement sub-alphabet (values vNxJ/pNxJ/wNxJ are fresh per step N and lvalue J); a history is extended only from steps that the reference semantics lets succeed (a step that must raise an exception leaves the state unchanged and is a leaf, as is a step on an element of a string); class = (statement kind, assigned value kinds, kinds of the containers walked by each path with ! where indexing fails, outcome, history length)",
			len(shapes), depth, len(alpha), depth, len(lastIdx)))
		c.Set("shapes", func() (o []string) {
			for _, s := range shapes {
				o = append(o, s.String())
			}
			return
		}())
		c.Set("alphabet", labels)
		c.Set("last_step_alphabet", lastLabels)
		c.Assume("values are observed through their repr text (vals.ReprPlain) and through `put`; the reference model (strings, lists, string-keyed maps with recursive assoc/dissoc) is the trusted base",
			"not judged: the value after assigning an element of a string (assoc is documented for lists and maps only) and after a multi-lvalue set/del whose later lvalue fails (the exception is demanded, atomicity is not documented)",
			"one fresh Evaler per history; the prefix of a history was judged when it was a history of the previous level and is only replayed")

		frontier := []c14Node{}
		for s := range shapes {
			frontier = append(frontier, c14Node{shape: s})
		}
		var states, transitions, validated int64 = int64(len(frontier)), 0, 0
		abstract := map[string]bool{}
		var perLevel []int64
		for level := 1; level <= maxLevel && len(frontier) > 0; level++ {
			syms := allIdx
			if level == depth {
				syms = lastIdx
			}
			n := len(frontier) * len(syms)
			results := make([]c14Result, n)
			c.Parallel(n, func(l *vk.Local, j int) {
				nd := frontier[j/len(syms)]
				child := c14Node{shape: nd.shape, steps: append(append(make([]int, 0, len(nd.steps)+1), nd.steps...), syms[j%len(syms)])}
				l.Begin(child)
				results[j] = c14RunHistory(shapes, alpha, child)
				l.End()
				l.Case(results[j].class)
			})
			var next []c14Node
			var viols []c14Viol
			for j := range results {
				rs := &results[j]
				transitions++
				if len(rs.viols) == 0 {
					validated++
				}
				viols = append(viols, rs.viols...)
				if rs.extend {
					states++
					abstract[rs.stateK] = true
					nd := frontier[j/len(syms)]
					next = append(next, c14Node{shape: nd.shape, steps: append(append(make([]int, 0, len(nd.steps)+1), nd.steps...), syms[j%len(syms)])})
				}
			}
			sort.SliceStable(viols, func(x, y int) bool {
				if len(viols[x].msg) != len(viols[y].msg) {
					return len(viols[x].msg) < len(viols[y].msg)
				}
				return viols[x].msg < viols[y].msg
			})
			for _, v := range viols {
				c.Violate(v.key, v.msg, v.msg)
			}
			if level == 2 && len(next) > 0 {
				nd := next[len(next)/3]
				c.Sample(fmt.Sprintf("shape %d: %s ; %s", nd.shape, alpha[nd.steps[0]].label(), alpha[nd.steps[1]].label()))
			}
			perLevel = append(perLevel, int64(len(next)))
			frontier = next
		}
		c.Set("states", states)
		c.Set("transitions", transitions)
		c.Set("traces_validated_against_impl", validated)
		c.Set("new_states_per_level", perLevel)
		c.Set("distinct_values_of_a_and_b_reached", len(abstract))
		c.Set("depth", depth)
	})
}
