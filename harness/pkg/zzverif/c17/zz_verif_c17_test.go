//go:build verif

// Package c17 holds the harness of property C17 ("no program can crash the
// interpreter"). The test function TestVerifC17 is the master: it enumerates
// the cases and has them evaluated by crash-isolated worker processes
// (TestVerifC17Worker of a test binary of this same package, built without
// cgo so that the Go runtime's own deadlock detector is active).
package c17

import (
	"bufio"
	"bytes"
	"fmt"
	"os"
	"os/exec"
	"path/filepath"
	"regexp"
	"runtime"
	"runtime/debug"
	"sort"
	"strconv"
	"strings"
	"sync"
	"sync/atomic"
	"syscall"
	"testing"
	"time"

	"src.elv.sh/pkg/eval"
	"src.elv.sh/pkg/eval/vars"
	"src.elv.sh/pkg/mods"
	"src.elv.sh/pkg/parse"
	"src.elv.sh/pkg/zzverif/vk"
)

// ---------------------------------------------------------------------------
// Alphabets
// ---------------------------------------------------------------------------

// The adversarial value pool of the plan, as source expressions. $fl is a
// variable the worker binds to an open file object (the only pool value that
// has no literal syntax). The first c17SmallPoolN entries form the smaller
// pool used for arity 3.
var c17Pool = []string{
	"''", "a", `"\xff"`, "-1", "0", "1",
	"[a]", "$nil", "{|x| }", "4611686018427387904", "é",
	// --- end of the small pool ---
	// strings whose byte length and rune count differ (2, 3, 4 bytes; an
	// invalid 2-byte sequence), alone and inside lists
	"好", "𝄞", `"\xff\xfe"`, "[é]", "[[a b] é]",
	"(num NaN)", "d/f", "(num 9223372036854775808)", "1e400", "(num +Inf)", "(num -Inf)", "(num -0.0)", "(num 1/3)",
	"[]", "[&]", "[&a=b]", "$true", "{ }", "$nop~", "$fl", "1_000", "9223372036854775807",
}

const c17SmallPoolN = 11

// Pool values left out of the arity-2 tuples in the quick tier.
var c17QuickPool2Drop = map[string]bool{"(num -Inf)": true, "[&]": true, "{ }": true, "$true": true, "1_000": true, "(num 1/3)": true,
	"好": true, "𝄞": true, "(num -0.0)": true, "[]": true, "$nop~": true}

// Extra values of the thorough tier (arity <= 2).
var c17PoolThorough = []string{
	`"a\x00b"`, "-9223372036854775808", "(num 1e308)", "[a b c]", "(num 0x10000000000000000/3)", "0x7fffffff",
}

// Positional stand-ins used while one option at a time is set to a pool value.
var c17Stand = []string{"a", "1", "[a]", "{|x| }"}

// Modules that mods.AddTo installs but that are not enumerated.
var c17ModuleDeny = map[string]string{
	"readline-binding": "needs the edit: module, i.e. a terminal",
}

// c17Skip is the denylist: commands (or argument shapes) that terminate or
// replace the process by design, or legitimately do not return.
func c17Skip(name string, args []string) string {
	switch name {
	case "exit":
		return "exit terminates the process by design"
	case "exec":
		return "exec replaces (or, without arguments, terminates) the process by design"
	case "sleep":
		for _, a := range args[:min(1, len(args))] {
			switch a {
			case "1_000", "4611686018427387904", "(num 9223372036854775808)", "(num +Inf)", "9223372036854775807", "(num 1e308)", "0x7fffffff":
				return "sleep with a large duration legitimately blocks"
			}
		}
	case "while":
		if len(args) >= 2 && args[1] == "{ }" && args[0] != "$nil" {
			return "while with a constant true condition legitimately loops forever"
		}
	}
	return ""
}

// Redirection alphabet (shared idea with C42, here only judged for crashes).
var c17RedirDst = []string{"", "-2", "-1", "0", "1", "2", "3", "7"}
var c17RedirDstCore = []string{"", "-1", "0", "1", "2", "3"}
var c17RedirOpsFull = []string{">", ">>", "<", "<>"}
var c17RedirSrcFull = []string{"f", "&-", "&-2", "&-1", "&0", "&1", "&2", "&3", "&7", "&stdin", "&x"}
var c17RedirOpsCore = []string{">", "<"}
var c17RedirSrcCore = []string{"f", "&-", "&-1", "&0", "&1", "&2", "&3", "&7"}

// %R marks where the redirections go (default: at the end). The last two put
// the redirected form at the reading end of a pipeline: as a reader, and as a
// writer that runs after the pipe's writing side has finished (`all` returns
// once the pipe's channel is closed).
var c17RedirCmds = []string{
	"echo a", "put a", "each {|x| put $x }", "all", "nop | { all; put a %R }", "echo q | all", "nop", "{ echo a >&2; put b >&3 }", "slurp", "count",
}

const c17RedirCmdsCore = 6

var c17RedirReaders = map[string]bool{"each {|x| put $x }": true, "all": true, "slurp": true, "count": true, "echo q | all": true}

// c17ReadsOwnOutput follows the redirections on a symbolic port table (0 =
// the input port, 1 and 2 = the output ports, the rest unset) and reports
// whether a reading command ends up with an output port of the evaluation as
// its input: such a form waits for data nobody will send, which is not a
// defect (like `cat <&1` on a terminal). A redirection that raises an
// exception ends the simulation: the command is then not run at all.
func c17ReadsOwnOutput(cmd string, redirs []string) bool {
	if !c17RedirReaders[cmd] {
		return false
	}
	table := map[int]string{0: "in", 1: "out", 2: "out"}
	for _, r := range redirs {
		i := strings.IndexAny(r, "<>")
		dstS, rest := r[:i], r[i:]
		op := strings.TrimRight(rest[:min(2, len(rest))], "&f")
		src := rest[len(op):]
		dst := 1
		if op == "<" {
			dst = 0
		}
		if dstS != "" {
			n, err := strconv.Atoi(dstS)
			if err != nil || n < 0 {
				return false
			}
			dst = n
		}
		switch {
		case src == "f":
			table[dst] = "file"
		case src == "&-", src == "&-1":
			table[dst] = "closed" // evalForFd reads the number -1 as "close", like "-"
		case src == "&stdin":
			table[dst] = table[0]
		default:
			n, err := strconv.Atoi(strings.TrimPrefix(src, "&"))
			if err != nil || n < 0 || table[n] == "" {
				return false
			}
			table[dst] = table[n]
		}
	}
	return table[0] == "out"
}

// Token alphabet for Evaler.Check (compiler totality on erroneous trees).
var c17Tokens = []string{
	"var", "set", "tmp", "with", "del", "fn", "use", "and", "or", "coalesce", "if", "elif", "else", "while", "for", "try",
	"catch", "finally", "pragma",
	"a", "$a", "$@a", "@a", "a~", "$a~", "$a:", "a:b", "e:a", "=", "{", "}", "{|a|", "{|@a|", "{|&a=b|", "[", "]", "(", ")",
	"&a=b", "&a", ">", "<", ">&", "-", "1", "|", ";", "&", "\n", "'a'", "\"", "*", "?", "~", "$", "#", "^", ",",
	"unknown-op", "$nil", "$-", "$args", "$pid",
}

// The core of the above, walked one token deeper in the thorough tier.
var c17TokensCore = []string{
	"var", "set", "tmp", "del", "fn", "use", "if", "for", "try", "catch", "a", "$a", "@a", "a~", "=", "{", "}", "{|a|", "[", "]",
	"(", ")", "&a=b", ">", "|", ";", "\n",
}

// ---------------------------------------------------------------------------
// Worker side
// ---------------------------------------------------------------------------

const (
	c17EnvWorker   = "VERIF_C17_WORKER"
	c17EnvDir      = "VERIF_C17_DIR"
	c17OutputLimit = 1 << 17
	c17MemLimit    = 4 << 30
)

// TestVerifC17Worker is the worker process: it reads one case per line from
// stdin ("E <quoted source>" = evaluate, "C <quoted source>" = Evaler.Check),
// runs it on this goroutine and answers "END <outcome>" on stdout. While a
// case runs, no other goroutine of the process is runnable and no timer is
// pending, so that a case blocking all of its goroutines makes the Go runtime
// end the process with "all goroutines are asleep - deadlock!".
func TestVerifC17Worker(t *testing.T) {
	mode := os.Getenv(c17EnvWorker)
	if mode == "" {
		return
	}
	lim := syscall.Rlimit{Cur: c17MemLimit, Max: c17MemLimit}
	syscall.Setrlimit(syscall.RLIMIT_AS, &lim)
	if mode == "probe" {
		// Does this binary's runtime report a deadlock? (It does not when built with cgo.)
		var ch chan int
		<-ch
	}
	root := os.Getenv(c17EnvDir)
	w := &c17WorkerState{root: root, work: filepath.Join(root, "w")}
	w.init()
	in := bufio.NewReaderSize(os.Stdin, 1<<16)
	for n := 1; ; n++ {
		line, err := in.ReadString('\n')
		if err != nil {
			os.Exit(0)
		}
		line = strings.TrimSuffix(line, "\n")
		if len(line) < 3 {
			continue
		}
		var res []string
		for _, q := range strings.Split(line[2:], "\t") {
			src, err := strconv.Unquote(q)
			switch {
			case err != nil:
				res = append(res, "harness-error:unquote")
			case line[0] == 'C':
				res = append(res, w.check(src))
			default:
				res = append(res, w.eval(src))
			}
		}
		out := "END " + strings.Join(res, "\t")
		if line[0] != 'C' && w.dirty() {
			out += "\tDIRTY"
		}
		w.answer(out)
		if n%256 == 0 {
			runtime.GC() // finalizers close leaked file objects
		}
	}
}

// dirty reports whether the finished case left goroutines behind (after a
// grace period): they could keep the runtime from recognising a deadlock in a
// later case, so the master then replaces this worker.
func (w *c17WorkerState) dirty() bool {
	for k := 0; runtime.NumGoroutine() > w.baseGoroutines; k++ {
		if k >= 25 {
			return true
		}
		time.Sleep(200 * time.Microsecond)
	}
	return false
}

type c17WorkerState struct {
	root, work string
	outPort    *eval.Port
	outCount   atomic.Int64
	checker    *eval.Evaler
	nCheck     int

	baseGoroutines int

	outMu   sync.Mutex // serialises the answer of a case with the output-limit bail-out
	running bool
}

func (w *c17WorkerState) answer(line string) {
	w.outMu.Lock()
	w.running = false
	os.Stdout.WriteString(line + "\n")
	w.outMu.Unlock()
}

func (w *c17WorkerState) init() {
	devnull, err := os.OpenFile(os.DevNull, os.O_WRONLY, 0)
	if err != nil {
		fmt.Println("END harness-error:devnull")
		os.Exit(4)
	}
	ch := make(chan any, 64)
	// The drainer of the value output: blocked in a channel receive whenever
	// the case produces nothing. A case that outputs without end is not a
	// hang; it is cut off here (the process cannot stop a running builtin).
	go func() {
		for range ch {
			if w.outCount.Add(1) == c17OutputLimit {
				w.outMu.Lock()
				if w.running { // otherwise the case has just answered by itself
					os.Stdout.WriteString("END output-limit\n")
					os.Exit(0)
				}
				w.outMu.Unlock()
			}
		}
	}()
	w.outPort = &eval.Port{File: devnull, Chan: ch}
	time.Sleep(2 * time.Millisecond)
	w.baseGoroutines = runtime.NumGoroutine()
}

// resetDir puts the working directory into its canonical initial state:
// w/f (a file), w/d/ (a directory), w/d/f, w/t/ (TMPDIR).
func (w *c17WorkerState) resetDir() {
	os.Chdir(w.root)
	syscall.Umask(0o022)
	if err := os.RemoveAll(w.work); err != nil {
		// a case may have removed permissions
		filepath.Walk(w.work, func(p string, fi os.FileInfo, err error) error {
			if fi != nil && fi.IsDir() {
				os.Chmod(p, 0o700)
			}
			return nil
		})
		os.RemoveAll(w.work)
	}
	os.MkdirAll(filepath.Join(w.work, "d"), 0o755)
	os.Mkdir(filepath.Join(w.work, "t"), 0o755)
	os.WriteFile(filepath.Join(w.work, "f"), []byte("line1\nline2\n"), 0o644)
	os.WriteFile(filepath.Join(w.work, "d", "f"), []byte("x\n"), 0o644)
	os.Chdir(w.work)
	os.Setenv("PWD", w.work)
}

func (w *c17WorkerState) newEvaler() (*eval.Evaler, *os.File) {
	ev := eval.NewEvaler()
	mods.AddTo(ev)
	fl, _ := os.OpenFile(filepath.Join(w.work, "f"), os.O_RDWR, 0)
	nb := eval.BuildNs().AddVar("fl", vars.NewReadOnly(fl))
	ev.ExtendGlobal(nb)
	return ev, fl
}

func (w *c17WorkerState) check(src string) (res string) {
	if w.checker == nil || w.nCheck >= 4096 {
		w.resetDir()
		w.checker, _ = w.newEvaler()
		w.nCheck = 0
	}
	w.nCheck++
	defer func() {
		if r := recover(); r != nil {
			res = c17PanicResult(r, debug.Stack())
			w.checker = nil
		}
	}()
	parseErr, _, compErr := w.checker.Check(parse.Source{Name: "[c17]", Code: src}, nil)
	switch {
	case parseErr != nil && compErr != nil:
		return "check:parse+compile-error"
	case parseErr != nil:
		return "check:parse-error"
	case compErr != nil:
		msg := ""
		if es := eval.UnpackCompilationErrors(compErr); len(es) > 0 {
			msg = c17Word(es[0].Message)
		}
		return "check:compile-error:" + msg
	}
	return "check:ok"
}

func (w *c17WorkerState) eval(src string) (res string) {
	w.resetDir()
	ev, fl := w.newEvaler()
	defer fl.Close()
	w.outMu.Lock()
	w.outCount.Store(0)
	w.running = true
	w.outMu.Unlock()
	defer func() {
		if r := recover(); r != nil {
			res = c17PanicResult(r, debug.Stack())
		}
	}()
	ports := []*eval.Port{eval.DummyInputPort, w.outPort, w.outPort}
	err := ev.Eval(parse.Source{Name: "[c17]", Code: src}, eval.EvalCfg{Ports: ports})
	return c17ErrKind(err)
}

// c17Word keeps the leading words of a message that do not depend on the input.
func c17Word(s string) string {
	f := strings.Fields(s)
	var out []string
	for _, x := range f {
		if strings.ContainsAny(x, "'\"$0123456789\\") || len(out) == 3 {
			break
		}
		out = append(out, x)
	}
	return strings.Join(out, "-")
}

func c17ErrKind(err error) string {
	if err == nil {
		return "ok"
	}
	if parse.UnpackErrors(err) != nil {
		return "parse-error"
	}
	if es := eval.UnpackCompilationErrors(err); es != nil {
		return "compile-error:" + c17Word(es[0].Message)
	}
	if exc, ok := err.(eval.Exception); ok {
		r := exc.Reason()
		t := fmt.Sprintf("%T", r)
		t = strings.TrimPrefix(t, "*")
		return "exc:" + t
	}
	return fmt.Sprintf("error:%T", err)
}

// c17PanicResult formats a recovered panic: "panic <file> <quoted func> <quoted message>".
func c17PanicResult(r any, stack []byte) string {
	file, fn := c17FirstPkgFrame(string(stack))
	return fmt.Sprintf("panic %s %s %s", file, strconv.Quote(fn), strconv.Quote(fmt.Sprint(r)))
}

// c17FirstPkgFrame returns the file and function of the innermost elvish frame
// (outside the harness) in a goroutine stack.
func c17FirstPkgFrame(stack string) (file, fn string) {
	lines := strings.Split(stack, "\n")
	for i := 0; i+1 < len(lines); i++ {
		l := lines[i]
		if !strings.HasPrefix(l, "src.elv.sh/pkg/") || strings.Contains(l, "zzverif") {
			continue
		}
		fn = strings.TrimPrefix(l, "src.elv.sh/pkg/")
		if j := strings.LastIndexByte(fn, '('); j > 0 && !strings.HasPrefix(fn[j:], "(*") {
			fn = fn[:j]
		}
		fn = strings.ReplaceAll(fn, "[...]", "")
		f := strings.Fields(strings.TrimSpace(lines[i+1]))
		if len(f) > 0 {
			file = filepath.Base(f[0])
			if j := strings.IndexByte(file, ':'); j >= 0 {
				file = file[:j]
			}
		}
		return file, fn
	}
	return "unknown", "unknown"
}

// ---------------------------------------------------------------------------
// Master side: worker processes
// ---------------------------------------------------------------------------

const (
	c17SilentSeconds = 20 // a case silent for this long is killed
	c17IdleSamples   = 5  // ... and counts as a hang if the process was idle in the last samples
)

type c17Worker struct {
	id     int
	bin    string
	dir    string
	cmd    *exec.Cmd
	in     *os.File
	lines  chan string
	errf   string
	spawns int
}

func c17Spawn(bin string, id int, mode string) (*c17Worker, error) {
	dir := filepath.Join(os.Getenv("VERIF_SCRATCH"), "c17", fmt.Sprintf("w%d", id))
	for _, d := range []string{"home", "cfg", "data", "state", "cache", "emptybin"} {
		if err := os.MkdirAll(filepath.Join(dir, d), 0o755); err != nil {
			return nil, err
		}
	}
	w := &c17Worker{id: id, bin: bin, dir: dir, errf: filepath.Join(dir, "stderr.txt")}
	if err := w.start(mode); err != nil {
		return nil, err
	}
	return w, nil
}

func (w *c17Worker) start(mode string) error {
	w.spawns++
	cmdR, cmdW, err := os.Pipe()
	if err != nil {
		return err
	}
	resR, resW, err := os.Pipe()
	if err != nil {
		return err
	}
	errF, err := os.Create(w.errf)
	if err != nil {
		return err
	}
	w.cmd = exec.Command(w.bin, "-test.run", "^TestVerifC17Worker$", "-test.timeout", "0")
	w.cmd.Env = []string{
		c17EnvWorker + "=" + mode, c17EnvDir + "=" + w.dir,
		"PATH=" + filepath.Join(w.dir, "emptybin"),
		"HOME=" + filepath.Join(w.dir, "home"),
		"XDG_CONFIG_HOME=" + filepath.Join(w.dir, "cfg"),
		"XDG_DATA_HOME=" + filepath.Join(w.dir, "data"),
		"XDG_STATE_HOME=" + filepath.Join(w.dir, "state"),
		"XDG_CACHE_HOME=" + filepath.Join(w.dir, "cache"),
		"XDG_RUNTIME_DIR=" + filepath.Join(w.dir, "state"),
		"TMPDIR=" + filepath.Join(w.dir, "w", "t"),
		"GOTRACEBACK=all", "GOMAXPROCS=1", "LANG=C.UTF-8", "USER=verif",
	}
	w.cmd.Dir = w.dir
	w.cmd.Stdin = cmdR
	w.cmd.Stdout = resW
	w.cmd.Stderr = errF
	w.cmd.SysProcAttr = &syscall.SysProcAttr{Setsid: true} // no controlling terminal
	err = w.cmd.Start()
	cmdR.Close()
	resW.Close()
	errF.Close()
	if err != nil {
		cmdW.Close()
		resR.Close()
		return err
	}
	w.in = cmdW
	lines := make(chan string, 4)
	w.lines = lines
	go func() {
		sc := bufio.NewScanner(resR)
		sc.Buffer(make([]byte, 1<<16), 1<<22)
		for sc.Scan() {
			if t := sc.Text(); strings.HasPrefix(t, "END ") {
				lines <- t[4:]
			}
		}
		resR.Close()
		close(lines)
	}()
	return nil
}

func (w *c17Worker) stderr() string {
	b, _ := os.ReadFile(w.errf)
	if len(b) > 1<<20 {
		b = b[:1<<20]
	}
	return string(b)
}

func (w *c17Worker) reap(kill bool) {
	w.in.Close()
	if kill {
		w.cmd.Process.Signal(syscall.SIGKILL)
	}
	w.cmd.Wait()
	for range w.lines {
	}
}

// quit ends a silent worker; SIGQUIT makes the runtime dump all goroutines.
func (w *c17Worker) quit() {
	w.cmd.Process.Signal(syscall.SIGQUIT)
	done := make(chan struct{})
	go func() { w.cmd.Wait(); close(done) }()
	select {
	case <-done:
	case <-time.After(5 * time.Second):
		w.cmd.Process.Signal(syscall.SIGKILL)
		<-done
	}
	w.in.Close()
	for range w.lines {
	}
}

// c17ProcState: CPU ticks consumed by the process and whether all threads sleep.
func c17ProcState(pid int) (ticks int64, allAsleep bool) {
	tasks, err := os.ReadDir(fmt.Sprintf("/proc/%d/task", pid))
	if err != nil || len(tasks) == 0 {
		return -1, false
	}
	allAsleep = true
	for _, t := range tasks {
		b, err := os.ReadFile(fmt.Sprintf("/proc/%d/task/%s/stat", pid, t.Name()))
		if err != nil {
			continue
		}
		st := string(b)
		i := strings.LastIndexByte(st, ')')
		if i < 0 {
			return -1, false
		}
		f := strings.Fields(st[i+1:])
		if len(f) < 13 {
			return -1, false
		}
		if f[0] != "S" {
			allAsleep = false
		}
		u, _ := strconv.ParseInt(f[11], 10, 64)
		k, _ := strconv.ParseInt(f[12], 10, 64)
		ticks += u + k
	}
	return ticks, allAsleep
}

const (
	c17StOK      = iota // worker answered
	c17StDied           // worker process ended by itself: second result = its stderr
	c17StHang           // silent and idle: second result = goroutine dump
	c17StBusy           // silent and consuming CPU
	c17StNoStart        // could not write to / start the worker
)

// run has one message (a quoted source, or tab-separated quoted sources)
// evaluated; the worker is restarted afterwards if it is gone or reports
// left-over goroutines.
func (w *c17Worker) run(kind byte, payload string) (st int, out string, dirty bool) {
	st, out = w.run1(kind, payload)
	if st == c17StOK && strings.HasSuffix(out, "\tDIRTY") {
		out, dirty = strings.TrimSuffix(out, "\tDIRTY"), true
	}
	if st != c17StOK || dirty || out == "output-limit" {
		if st == c17StOK {
			w.reap(true)
		}
		if err := w.start("1"); err != nil {
			panic("cannot restart worker: " + err.Error())
		}
	}
	return st, out, dirty
}

func (w *c17Worker) run1(kind byte, payload string) (int, string) {
	if _, err := fmt.Fprintf(w.in, "%c %s\n", kind, payload); err != nil {
		w.reap(true)
		return c17StNoStart, err.Error() + "\n" + w.stderr()
	}
	tick := time.NewTicker(time.Second)
	defer tick.Stop()
	idle, silent := 0, 0
	last := int64(-2)
	for {
		select {
		case line, ok := <-w.lines:
			if !ok {
				w.reap(false)
				return c17StDied, w.stderr()
			}
			return c17StOK, line
		case <-tick.C:
			silent++
			ticks, asleep := c17ProcState(w.cmd.Process.Pid)
			if asleep && ticks == last {
				idle++
			} else {
				idle = 0
			}
			last = ticks
			if silent >= c17SilentSeconds {
				w.quit()
				if idle >= c17IdleSamples {
					return c17StHang, w.stderr()
				}
				return c17StBusy, w.stderr()
			}
		}
	}
}

// ---------------------------------------------------------------------------
// Classification of dead workers
// ---------------------------------------------------------------------------

type c17Verdict struct {
	class string // class key suffix of the case
	key   string // violation key ("" = no violation)
	msg   string
}

// c17PanickingGoroutine returns the block of the first goroutine printed after
// the message (the one that panicked / the first blocked one).
func c17FirstGoroutine(rest string) string {
	if k := strings.Index(rest, "\ngoroutine "); k >= 0 {
		rest = rest[k+1:]
		if e := strings.Index(rest, "\n\n"); e >= 0 {
			rest = rest[:e]
		}
		return rest
	}
	return ""
}

// c17CaseGoroutine returns the block of the goroutine that evaluates the case.
func c17CaseGoroutine(dump string) string {
	for _, blk := range strings.Split(dump, "\n\n") {
		if strings.HasPrefix(strings.TrimSpace(blk), "goroutine ") && strings.Contains(blk, "c17WorkerState") {
			return strings.TrimSpace(blk)
		}
	}
	return ""
}

func c17HangKey(dump string) (key, where string) {
	blk := c17CaseGoroutine(dump)
	head, _, _ := strings.Cut(blk, "\n")
	file, fn := c17FirstPkgFrame(blk)
	where = fmt.Sprintf("evaluating goroutine %s in %s (%s)", strings.TrimSuffix(head[strings.IndexByte(head+"[", '['):], ":"), fn, file)
	// A goroutine of pkg/eval blocked on a nil channel: the value channel of a
	// port that has none (closed with <&- / >&-, or a file opened for the
	// other direction).
	for _, b := range strings.Split(dump, "\n\n") {
		b = strings.TrimSpace(b)
		h, _, _ := strings.Cut(b, "\n")
		if !strings.HasPrefix(h, "goroutine ") || !strings.Contains(h, "(nil chan)") {
			continue
		}
		if _, f := c17FirstPkgFrame(b); strings.HasPrefix(f, "eval.") {
			where += "; a goroutine is in " + strings.TrimSuffix(h[strings.IndexByte(h, '['):], ":") + " in " + f
			if strings.Contains(h, "chan receive") {
				return "hang:closed-input-port", where
			}
			return "hang:closed-output-port", where
		}
	}
	return "hang:" + file, where
}

var c17ResourceMarks = []string{
	"out of memory", "cannot allocate memory", "cannot reserve", "failed to allocate", "runtime: cannot map pages",
	"fatal error: newosproc", "pthread_create failed", "fatal error: runtime: program exceeds",
}

func c17ClassifyDeath(stderr string) c17Verdict {
	i := strings.Index(stderr, "\npanic: ")
	if strings.HasPrefix(stderr, "panic: ") {
		i = 0
	} else if i >= 0 {
		i++
	}
	j := strings.Index(stderr, "fatal error: ")
	if j >= 0 && (i < 0 || j < i) {
		rest := stderr[j:]
		msg, _, _ := strings.Cut(rest, "\n")
		if strings.Contains(msg, "all goroutines are asleep") {
			key, where := c17HangKey(rest)
			return c17Verdict{"deadlock", key, "all goroutines blocked (Go runtime: " + msg + "); " + where}
		}
		for _, m := range c17ResourceMarks {
			if strings.Contains(rest[:min(len(rest), 2000)], m) {
				return c17Verdict{"resource:fatal", "", msg}
			}
		}
		file, fn := c17FirstPkgFrame(c17FirstGoroutine(rest))
		if strings.Contains(msg, "concurrent map") {
			return c17Verdict{"fatal:concurrent-map", "panic:" + file, msg + " in " + fn}
		}
		if strings.Contains(msg, "stack overflow") {
			// the offending goroutine's stack is printed after "goroutine N [running]:"
			return c17Verdict{"fatal:stack-overflow", "fatal:stack-overflow:" + file, msg + " in " + fn}
		}
		return c17Verdict{"fatal:other", "fatal:" + file, msg + " in " + fn}
	}
	if i >= 0 {
		rest := stderr[i:]
		msg, _, _ := strings.Cut(rest, "\n")
		for _, m := range c17ResourceMarks {
			if strings.Contains(msg, m) {
				return c17Verdict{"resource:panic", "", msg}
			}
		}
		file, fn := c17FirstPkgFrame(c17FirstGoroutine(rest))
		return c17Verdict{"panic:" + file, "panic:" + file, msg + " in " + fn + " (in a goroutine other than the caller's)"}
	}
	s := strings.TrimSpace(stderr)
	if len(s) > 300 {
		s = s[:300]
	}
	return c17Verdict{"exit", "process-exit", "the process ended without panic message; stderr: " + s}
}

// ---------------------------------------------------------------------------
// Case generation
// ---------------------------------------------------------------------------

type c17Case struct {
	kind byte   // 'E' or 'C'
	src  string // source text
	cls  string // class prefix: section/command/shape
}

type c17Cmd struct {
	name    string   // as written in source, e.g. "str:repeat"
	opts    []string // declared option names
	nreq    int      // declared number of required positional parameters (-1 unknown)
	inputs  bool     // documented with an optional trailing parameter (inputs?)
	special bool
}

var c17FnDecl = regexp.MustCompile(`(?m)^fn\s+(\S+)\s*\{\|([^|]*)\|`)

// c17ReadDecls reads the documented signatures (pkg/**/*.d.elv): qualified
// name -> option names, number of required positional parameters.
func c17ReadDecls(repo string) map[string]c17Cmd {
	out := map[string]c17Cmd{}
	files, _ := filepath.Glob(filepath.Join(repo, "pkg", "eval", "*.d.elv"))
	more, _ := filepath.Glob(filepath.Join(repo, "pkg", "mods", "*", "*.d.elv"))
	files = append(files, more...)
	sort.Strings(files)
	for _, f := range files {
		prefix := ""
		if filepath.Base(filepath.Dir(f)) != "eval" {
			prefix = filepath.Base(filepath.Dir(f)) + ":"
		}
		data, err := os.ReadFile(f)
		if err != nil {
			continue
		}
		for _, m := range c17FnDecl.FindAllStringSubmatch(string(data), -1) {
			cmd := c17Cmd{name: prefix + m[1]}
			for _, p := range strings.Fields(m[2]) {
				switch {
				case strings.HasPrefix(p, "&"):
					n, _, _ := strings.Cut(p[1:], "=")
					if n != "" && !strings.ContainsAny(n, "()$'") {
						cmd.opts = append(cmd.opts, n)
					}
				case strings.HasSuffix(p, "?"):
					cmd.inputs = true
				case strings.HasPrefix(p, "@"), strings.Contains(p, "="),
					strings.HasPrefix(p, "("), strings.HasSuffix(p, ")"):
					// rest, optional, defaulted parameters; pieces of a default value like (num +inf)
				default:
					cmd.nreq++
				}
			}
			if old, ok := out[cmd.name]; ok && len(old.opts) >= len(cmd.opts) {
				continue
			}
			out[cmd.name] = cmd
		}
	}
	return out
}

var c17AddModule = regexp.MustCompile(`(?:AddModule\("([\w-]+)"|BundledModules\["([\w-]+)"\])`)

// c17Commands lists every function and variable of the builtin namespace and
// of every module that mods.AddTo installs.
func c17Commands(c *vk.Ctx, repo string) (cmds []c17Cmd, variables []string, modules []string) {
	decls := c17ReadDecls(repo)
	ev := eval.NewEvaler()
	mods.AddTo(ev)
	add := func(prefix string, ns *eval.Ns) {
		var names []string
		ns.IterateKeysString(func(s string) { names = append(names, s) })
		sort.Strings(names)
		for _, n := range names {
			if strings.HasSuffix(n, ":") {
				continue // nested namespace (a module's own imports)
			}
			if !strings.HasSuffix(n, "~") {
				variables = append(variables, prefix+n)
				continue
			}
			name := prefix + strings.TrimSuffix(n, "~")
			cmd := c17Cmd{name: name, nreq: -1}
			if d, ok := decls[name]; ok {
				cmd.opts, cmd.nreq, cmd.inputs = d.opts, d.nreq, d.inputs
			}
			if cl, ok := ns.IndexString(n).Get().(*eval.Closure); ok {
				cmd.opts = append([]string{}, cl.OptNames...)
				cmd.nreq = len(cl.ArgNames)
				if cl.RestArg >= 0 {
					cmd.nreq--
				}
			}
			cmds = append(cmds, cmd)
		}
	}
	add("", ev.Builtin())
	src, _ := os.ReadFile(filepath.Join(repo, "pkg", "mods", "mods.go"))
	seen := map[string]bool{}
	for _, m := range c17AddModule.FindAllStringSubmatch(string(src), -1) {
		name := m[1] + m[2]
		if seen[name] {
			continue
		}
		seen[name] = true
		modules = append(modules, name)
	}
	sort.Strings(modules)
	var used []string
	for _, m := range modules {
		if why, deny := c17ModuleDeny[m]; deny {
			c.Set("module_not_enumerated:"+m, why)
			continue
		}
		if err := ev.Eval(parse.Source{Name: "[c17]", Code: "use " + m}, eval.EvalCfg{}); err != nil {
			c.Set("module_not_enumerated:"+m, "use failed: "+err.Error())
			continue
		}
		v := ev.Global().IndexString(m + ":")
		if v == nil {
			continue
		}
		ns, ok := v.Get().(*eval.Ns)
		if !ok {
			continue
		}
		used = append(used, m)
		add(m+":", ns)
	}
	var specials []string
	for n := range eval.IsBuiltinSpecial {
		specials = append(specials, n)
	}
	sort.Strings(specials)
	for _, n := range specials {
		cmds = append(cmds, c17Cmd{name: n, nreq: -1, special: true})
	}
	return cmds, variables, used
}

// c17UsePrefix imports the module a qualified name lives in.
func c17UsePrefix(name string) string {
	if i := strings.IndexByte(name, ':'); i > 0 {
		return "use " + name[:i] + "; "
	}
	return ""
}

func c17Tuples(pool []string, arity int, f func(args []string)) {
	idx := make([]int, arity)
	args := make([]string, arity)
	for {
		for i, x := range idx {
			args[i] = pool[x]
		}
		f(args)
		i := arity - 1
		for ; i >= 0; i-- {
			idx[i]++
			if idx[i] < len(pool) {
				break
			}
			idx[i] = 0
		}
		if i < 0 {
			return
		}
	}
}

type c17Gen struct {
	c       *vk.Ctx
	cases   []c17Case
	skipped map[string]int
}

func (g *c17Gen) addCall(section string, cmd c17Cmd, args []string, extra string, shape string) {
	if why := c17Skip(cmd.name, args); why != "" {
		g.skipped[cmd.name+": "+why]++
		return
	}
	src := c17UsePrefix(cmd.name) + cmd.name
	for _, a := range args {
		src += " " + a
	}
	if extra != "" {
		src += " " + extra
	}
	g.cases = append(g.cases, c17Case{'E', src, section + "/" + cmd.name + "/" + shape})
}

// ---------------------------------------------------------------------------
// The check
// ---------------------------------------------------------------------------

type c17Found struct {
	idx int
	msg string
	src string
}

func TestVerifC17(t *testing.T) {
	if os.Getenv(c17EnvWorker) != "" {
		return
	}
	vk.Run(t, "C17", "exploration", func(c *vk.Ctx) {
		repo := os.Getenv("VERIF_REPO")
		if repo == "" {
			repo = "/repo"
		}
		bin, detector := c17WorkerBinary(c, repo)
		c.Set("worker_binary", detector)
		// own time budget, counted from after the worker binary was built
		deadline := time.Now().Add(time.Duration(vk.Pick(c, 210, 1400)) * time.Second)

		pool := c17Pool
		if c.Thorough() {
			pool = append(append([]string{}, c17Pool...), c17PoolThorough...)
		}
		small := c17Pool[:c17SmallPoolN]
		cmds, variables, modules := c17Commands(c, repo)
		g := &c17Gen{c: c, skipped: map[string]int{}}

		// Every section is generated on its own; they are run in the order
		// A0 A1 V O R1 C A2 A3 R2 (cheap and broad first).
		section := func(f func()) []c17Case {
			g.cases = nil
			f()
			return g.cases
		}
		// Section A: every command x every argument tuple.
		pool2 := pool
		if !c.Thorough() {
			pool2 = nil
			for _, p := range pool {
				if !c17QuickPool2Drop[p] {
					pool2 = append(pool2, p)
				}
			}
		}
		secA01 := section(func() {
			for ar := 0; ar <= 1; ar++ {
				for _, cmd := range cmds {
					c17Tuples(pool, ar, func(args []string) { g.addCall("A", cmd, args, "", fmt.Sprint(ar)) })
				}
			}
		})
		secA2 := section(func() {
			for _, cmd := range cmds {
				c17Tuples(pool2, 2, func(args []string) { g.addCall("A", cmd, args, "", "2") })
			}
		})
		secA3 := section(func() {
			if c.Thorough() {
				for _, cmd := range cmds {
					c17Tuples(small, 3, func(args []string) { g.addCall("A", cmd, args, "", "3") })
				}
			}
		})
		// Section V: every variable of those namespaces is read, and assigned each pool value.
		secV := section(func() {
			for _, v := range variables {
				g.cases = append(g.cases, c17Case{'E', c17UsePrefix(v) + "put $" + v, "V/" + v + "/get"})
				for _, p := range pool {
					g.cases = append(g.cases, c17Case{'E', c17UsePrefix(v) + "set " + v + " = " + p, "V/" + v + "/set"})
				}
			}
		})
		// Section P: each pool value fed through the input pipe: `put v | cmd`
		// for every command, and `put v | cmd <stand-ins>` for the commands
		// documented with an optional trailing inputs parameter.
		secP := section(func() {
			for _, cmd := range cmds {
				if cmd.special {
					continue
				}
				for _, p := range pool {
					pre := "put " + p + " | "
					if why := c17Skip(cmd.name, nil); why != "" {
						continue
					}
					g.cases = append(g.cases, c17Case{'E', c17UsePrefix(cmd.name) + pre + cmd.name, "P/" + cmd.name + "/0"})
					if cmd.inputs && cmd.nreq >= 1 && cmd.nreq <= 2 {
						c17Tuples(c17Stand, cmd.nreq, func(args []string) {
							g.cases = append(g.cases, c17Case{'E', c17UsePrefix(cmd.name) + pre + cmd.name + " " + strings.Join(args, " "), "P/" + cmd.name + "/" + fmt.Sprint(cmd.nreq)})
						})
					}
				}
			}
		})
		// Section O: each declared option set to each pool value, one at a time,
		// with the documented number of positional arguments drawn from stand-ins.
		nOpts := 0
		secO := section(func() {
			for _, cmd := range cmds {
				if len(cmd.opts) == 0 {
					continue
				}
				nreq := cmd.nreq
				if nreq < 0 {
					nreq = 1
				}
				if nreq > 3 {
					nreq = 3
				}
				for _, o := range cmd.opts {
					nOpts++
					for _, p := range pool {
						c17Tuples(c17Stand, nreq, func(args []string) { g.addCall("O", cmd, args, "&"+o+"="+p, "&"+o) })
					}
				}
			}
		})
		// Section R: forms with 1-2 redirections.
		var full, core []string
		for _, d := range c17RedirDst {
			for _, op := range c17RedirOpsFull {
				for _, s := range c17RedirSrcFull {
					full = append(full, d+op+s)
				}
			}
		}
		for _, d := range c17RedirDstCore {
			for _, op := range c17RedirOpsCore {
				for _, s := range c17RedirSrcCore {
					core = append(core, d+op+s)
				}
			}
		}
		addRedir := func(sec, cmd string, rs ...string) {
			if c17ReadsOwnOutput(cmd, rs) {
				g.skipped["redirection: a reading command whose input is (a duplicate of) the evaluation's own output port legitimately blocks"]++
				return
			}
			src := cmd + " " + strings.Join(rs, " ")
			if strings.Contains(cmd, "%R") {
				src = strings.Replace(cmd, "%R", strings.Join(rs, " "), 1)
			}
			g.cases = append(g.cases, c17Case{'E', src, sec + "/" + cmd})
		}
		secR1 := section(func() {
			for _, cmd := range c17RedirCmds {
				for _, r := range full {
					addRedir("R1", cmd, r)
				}
			}
		})
		two, twoCmds := core, c17RedirCmds[:c17RedirCmdsCore]
		if c.Thorough() {
			// all destinations (the core operators and sources), all commands
			two, twoCmds = nil, c17RedirCmds
			for _, d := range c17RedirDst {
				for _, op := range c17RedirOpsCore {
					for _, s := range c17RedirSrcCore {
						two = append(two, d+op+s)
					}
				}
			}
		}
		secR2 := section(func() {
			for _, cmd := range twoCmds {
				for _, r1 := range two {
					for _, r2 := range two {
						addRedir("R2", cmd, r1, r2)
					}
				}
			}
		})
		// Section C: Evaler.Check on every token string of length <= 3, tokens
		// joined with a space (pairs also without).
		addTokens := func(alpha []string, n int, minLen int) {
			for l := minLen; l <= n; l++ {
				if l == 0 {
					g.cases = append(g.cases, c17Case{'C', "", "C/0"})
					continue
				}
				c17Tuples(alpha, l, func(toks []string) {
					g.cases = append(g.cases, c17Case{'C', strings.Join(toks, " "), fmt.Sprintf("C/%d/sp", l)})
					if l == 2 {
						g.cases = append(g.cases, c17Case{'C', strings.Join(toks, ""), fmt.Sprintf("C/%d/cat", l)})
					}
				})
			}
		}
		secC := section(func() {
			addTokens(c17Tokens, 3, 0)
			if c.Thorough() {
				addTokens(c17TokensCore, 4, 4)
			}
		})
		g.cases = nil
		for _, sec := range [][]c17Case{secA01, secV, secP, secO, secR1, secC, secA2, secA3, secR2} {
			g.cases = append(g.cases, sec...)
		}
		nA, nA3, nV, nO, nR, nC := len(secA01)+len(secA2), len(secA3), len(secV)+len(secP), len(secO), len(secR1)+len(secR2), len(secC)

		c.Rule(fmt.Sprintf("A: every one of %d commands (all functions of the builtin namespace, of the modules %v and the %d special forms; denylist: exit, exec, long sleeps, 'while <true> { }') x every argument tuple of arity 0..1 over the %d-value pool %q and of arity 2 over %d of these values%s, written as source text; "+
			"V: every one of %d variables of those namespaces read, and assigned each pool value; P: each pool value fed through the input pipe ('put v | cmd') to every command, and with stand-in arguments to the commands documented with an optional inputs parameter; "+
			"O: each of %d documented options (pkg/**/*.d.elv, closures: their own option list) set to each pool value, one at a time, with the documented number of positional arguments drawn from %q; "+
			"R: %d commands x every redirection dst in %q, op in %q, source in %q, and %d commands x every pair of redirections over %d redirections; "+
			"C: Evaler.Check on every string of <=3 tokens over the %d-token alphabet %q joined with ' ' (pairs also with '')%s. "+
			"class = (section, command, arity or option, outcome kind: ok / parse error / compile error message / type of the exception's reason / panic site / fatal / deadlock)",
			len(cmds), modules, len(eval.IsBuiltinSpecial), len(pool), pool, len(pool2),
			map[bool]string{false: "", true: fmt.Sprintf(" and arity 3 over the first %d pool values", c17SmallPoolN)}[c.Thorough()],
			len(variables), nOpts, c17Stand,
			len(c17RedirCmds), c17RedirDst, c17RedirOpsFull, c17RedirSrcFull, len(twoCmds), len(two),
			len(c17Tokens), c17Tokens,
			map[bool]string{false: "", true: fmt.Sprintf(" and every string of 4 tokens over the %d-token core", len(c17TokensCore))}[c.Thorough()]))
		c.Assume("every case is evaluated by a fresh Evaler (standard modules added) in a worker process with a canonical working directory (f, d/, d/f, t/ = TMPDIR) under the scratch dir, HOME and XDG dirs there, an empty PATH, no controlling terminal, stdin = /dev/null with a closed value channel, outputs discarded, address space limited to 4 GiB",
			"a case that blocks all goroutines is recognised by the Go runtime's deadlock detector of the worker (built without cgo: "+detector+"); any other case silent for 20 s is killed and run a second time in a fresh worker process; silent again with every thread asleep and no CPU time consumed => reported as a hang; silent again while consuming CPU => inconclusive (busy), not a violation; a worker in which a finished case left goroutines behind is replaced",
			"out-of-memory and allocation-size fatal errors, and endless value output (cut off after 131072 values), are counted as inconclusive-resource, not as violations",
			"not covered: external commands, the edit:, store: and daemon: modules, values outside the pool, arity > 2 (thorough: > 3), several options at once")
		c.Set("cases_by_section", map[string]int{"A_args": nA, "A_arity3": nA3, "V_variables": len(secV), "P_piped_input": len(secP), "O_options": nO, "R_redirections": nR, "C_check": nC})
		c.Set("denylist_skipped", g.skipped)
		c.Set("bounds", map[string]int{"commands": len(cmds), "variables": len(variables), "pool": len(pool), "options": nOpts, "redir_full": len(full), "redir_pairs_alphabet": len(two), "tokens": len(c17Tokens)})

		cases := g.cases
		// Work units: one evaluation case, or up to 64 consecutive Check cases.
		var units [][2]int
		for i := 0; i < len(cases); {
			j := i + 1
			if cases[i].kind == 'C' {
				for j < len(cases) && j-i < 64 && cases[j].kind == 'C' {
					j++
				}
			}
			units = append(units, [2]int{i, j})
			i = j
		}

		found := map[string]*c17Found{}
		sites := map[string]bool{}
		lists := map[string][]string{}
		counts := map[string]int64{}
		var mu sync.Mutex
		report := func(key string, idx int, msg string) {
			mu.Lock()
			if f, ok := found[key]; !ok || idx < f.idx {
				found[key] = &c17Found{idx, msg, cases[idx].src}
			}
			mu.Unlock()
		}
		count := func(k string) { mu.Lock(); counts[k]++; mu.Unlock() }
		note := func(list, src string) {
			mu.Lock()
			if len(lists[list]) < 40 {
				lists[list] = append(lists[list], src)
			}
			mu.Unlock()
		}
		var retry []int // cases silent for 20 s: re-run in a fresh worker

		// panicKey: one key per root cause as far as it can be told. A nil
		// dereference while $nil is a positional argument is the family "a
		// typed parameter of a builtin accepts $nil"; everything else is keyed
		// by the file of the innermost elvish frame.
		panicKey := func(cs c17Case, file, msg string) string {
			if strings.HasPrefix(cs.cls, "A/") && strings.Contains(cs.src, "$nil") && strings.Contains(msg, "nil pointer dereference") {
				return "panic:nil-argument"
			}
			return "panic:" + file
		}

		// judge turns the result of one case into class + violation.
		judge := func(l *vk.Local, i int, st int, out string, second bool) {
			cs := cases[i]
			switch st {
			case c17StOK:
				if strings.HasPrefix(out, "panic ") {
					f := strings.SplitN(out, " ", 4)
					fn, msg := "?", "?"
					if len(f) == 4 {
						fn, _ = strconv.Unquote(f[2])
						msg, _ = strconv.Unquote(f[3])
					}
					for _, m := range c17ResourceMarks {
						if strings.Contains(msg, m) {
							count("inconclusive_resource")
							l.Case(cs.cls + "/resource:panic")
							return
						}
					}
					key := panicKey(cs, f[1], msg)
					mu.Lock()
					sites[key+" <- "+fn+" ("+f[1]+"): "+msg] = true
					mu.Unlock()
					report(key, i, fmt.Sprintf("%q panicked: %s in %s (%s)", cs.src, msg, fn, f[1]))
					l.Case(cs.cls + "/" + key)
					return
				}
				if out == "output-limit" {
					count("inconclusive_output_limit")
					note("output_limit_cases", cs.src)
				}
				if strings.HasPrefix(out, "harness-error") {
					panic("worker reported " + out + " for " + strconv.Quote(cs.src))
				}
				l.Case(cs.cls + "/" + out)
			case c17StDied:
				v := c17ClassifyDeath(out)
				if v.key != "" {
					if strings.HasPrefix(v.key, "panic:") {
						v.key = panicKey(cs, strings.TrimPrefix(v.key, "panic:"), v.msg)
					}
					if strings.HasPrefix(v.key, "panic:") || strings.HasPrefix(v.key, "fatal:") {
						mu.Lock()
						sites[v.key+" <- "+v.msg] = true
						mu.Unlock()
					}
					report(v.key, i, fmt.Sprintf("%q killed the process: %s", cs.src, v.msg))
					l.Case(cs.cls + "/" + v.key)
				} else {
					count("inconclusive_resource")
					note("resource_cases", cs.src+"  => "+v.msg)
					l.Case(cs.cls + "/" + v.class)
				}
			case c17StHang, c17StBusy:
				if !second {
					mu.Lock()
					retry = append(retry, i)
					mu.Unlock()
					return // judged after the re-run
				}
				if st == c17StBusy {
					count("inconclusive_busy")
					note("busy_cases", cs.src)
					l.Case(cs.cls + "/busy-timeout")
					return
				}
				key, where := c17HangKey(out)
				report(key, i, fmt.Sprintf("%q did not finish within %d s, twice (the second time in a fresh process), with every thread of the process asleep and no CPU time consumed; %s", cs.src, c17SilentSeconds, where))
				l.Case(cs.cls + "/" + key)
			default:
				panic("worker could not be driven: " + out)
			}
		}

		// runUnit evaluates one unit; a batch whose worker died is re-run case by case.
		runUnit := func(l *vk.Local, w *c17Worker, u [2]int, second bool) {
			if u[1]-u[0] > 1 {
				srcs := make([]string, 0, u[1]-u[0])
				for i := u[0]; i < u[1]; i++ {
					srcs = append(srcs, strconv.Quote(cases[i].src))
				}
				st, out, _ := w.run('C', strings.Join(srcs, "\t"))
				if res := strings.Split(out, "\t"); st == c17StOK && len(res) == len(srcs) {
					for k, r := range res {
						judge(l, u[0]+k, st, r, second)
					}
					return
				}
				count("check_batches_rerun")
			}
			for i := u[0]; i < u[1]; i++ {
				st, out, dirty := w.run(cases[i].kind, strconv.Quote(cases[i].src))
				if dirty {
					count("worker_recycled_leftover_goroutines")
					note("leftover_goroutine_cases", cases[i].src)
				}
				judge(l, i, st, out, second)
			}
		}

		parallel := func(n int, f func(l *vk.Local, w *c17Worker, k int), idBase int) {
			nw := vk.Workers()
			if n < nw {
				nw = n
			}
			var next atomic.Int64
			var wg sync.WaitGroup
			herr := make(chan string, nw+1)
			for id := 0; id < nw; id++ {
				wg.Add(1)
				go func(id int) {
					defer wg.Done()
					defer func() {
						if r := recover(); r != nil {
							herr <- fmt.Sprint(r)
						}
					}()
					l := vk.NewLocal()
					defer c.Merge(l)
					w, err := c17Spawn(bin, idBase+id, "1")
					if err != nil {
						panic("cannot start worker: " + err.Error())
					}
					defer func() {
						w.reap(true)
						mu.Lock()
						counts["worker_restarts"] += int64(w.spawns - 1)
						mu.Unlock()
					}()
					for {
						k := int(next.Add(1) - 1)
						if k >= n {
							return
						}
						if time.Now().After(deadline) {
							c.Capped(fmt.Sprintf("time budget used up at unit %d of %d", k, n))
							return
						}
						f(l, w, k)
					}
				}(id)
			}
			wg.Wait()
			select {
			case e := <-herr:
				panic(e)
			default:
			}
		}
		parallel(len(units), func(l *vk.Local, w *c17Worker, k int) { runUnit(l, w, units[k], false) }, 0)

		// Cases that were silent for 20 s are run a second time, each in a fresh
		// worker process (a goroutine or timer left behind by an earlier case of
		// the same worker cannot interfere then).
		sort.Ints(retry)
		c.Set("silent_cases_rerun", len(retry))
		if len(retry) > 64 {
			c.Capped(fmt.Sprintf("%d silent cases, only the first 64 re-run", len(retry)))
			retry = retry[:64]
		}
		first := append([]int{}, retry...)
		parallel(len(first), func(l *vk.Local, w *c17Worker, k int) {
			w.reap(true)
			if err := w.start("1"); err != nil {
				panic("cannot restart worker: " + err.Error())
			}
			runUnit(l, w, [2]int{first[k], first[k] + 1}, true)
		}, 100)

		for k, n := range counts {
			c.Set(k, n)
		}
		for k, v := range lists {
			sort.Strings(v)
			c.Set(k, v)
		}
		var ss []string
		for s := range sites {
			ss = append(ss, s)
		}
		sort.Strings(ss)
		c.Set("panic_sites", ss)
		for _, i := range []int{0, len(secA01) / 2, len(secA01) + nV + nO/2, len(secA01) + nV + nO + len(secR1)/2, len(secA01) + nV + nO + len(secR1) + nC/2, len(cases) - nR/2, len(cases) - 1} {
			if i >= 0 && i < len(cases) {
				c.Sample(cases[i].src)
			}
		}
		// Violations, each key with its first (simplest) case.
		var keys []string
		for k := range found {
			keys = append(keys, k)
		}
		sort.Slice(keys, func(a, b int) bool { return found[keys[a]].idx < found[keys[b]].idx })
		for _, k := range keys {
			c.Violate(k, found[k].msg, found[k].src)
		}
		os.RemoveAll(filepath.Join(os.Getenv("VERIF_SCRATCH"), "c17"))
	})
}

// c17WorkerBinary returns a test binary of this package whose runtime detects
// deadlocks. The binary the driver built (VERIF_SELF) normally links cgo,
// which disables the detector, so a second one is built without cgo from the
// same overlay.
func c17WorkerBinary(c *vk.Ctx, repo string) (bin, how string) {
	self := os.Getenv("VERIF_SELF")
	if self == "" {
		self = os.Args[0]
	}
	probe := func(b string) bool {
		w, err := c17Spawn(b, 99, "probe")
		if err != nil {
			return false
		}
		done := make(chan struct{})
		go func() { w.cmd.Wait(); close(done) }()
		select {
		case <-done:
		case <-time.After(5 * time.Second):
			w.cmd.Process.Signal(syscall.SIGKILL)
			<-done
		}
		w.in.Close()
		for range w.lines {
		}
		return strings.Contains(w.stderr(), "all goroutines are asleep")
	}
	if probe(self) {
		return self, "the driver's binary (deadlock detector active)"
	}
	scratch := os.Getenv("VERIF_SCRATCH")
	overlay := filepath.Join(scratch, "overlay.json")
	out := filepath.Join(scratch, "c17-worker.test")
	if _, err := os.Stat(overlay); err == nil {
		t0 := time.Now()
		cmd := exec.Command("go", "test", "-c", "-tags", "verif", "-overlay", overlay, "-vet=off", "-o", out, "src.elv.sh/pkg/zzverif/c17")
		cmd.Dir = repo
		cmd.Env = append(os.Environ(), "CGO_ENABLED=0", "GOFLAGS=-mod=mod", "GOPROXY=off", "GOSUMDB=off", "GOTOOLCHAIN=local")
		var buf bytes.Buffer
		cmd.Stdout, cmd.Stderr = &buf, &buf
		err := cmd.Run()
		fmt.Printf("INFO property=C17 built the cgo-free worker binary in %.1fs\n", time.Since(t0).Seconds())
		if err == nil && probe(out) {
			return out, "rebuilt with CGO_ENABLED=0 (deadlock detector active)"
		}
		fmt.Printf("NOTE property=C17 cgo-free worker binary unusable (%v): %s\n", err, strings.TrimSpace(buf.String()))
	}
	c.Assume("the worker binary's runtime has no deadlock detector (cgo): blocked cases are only found by the 20 s watchdog")
	return self, "the driver's binary (no deadlock detector)"
}
