//go:build verif

// Package c34 holds the harness of property C34 (width handling fits text to
// the requested number of columns): wcwidth.Trim/Force/TrimEachLine against a
// direct specification, the wrapping BufferBuilder, and every tk widget
// rendered at every small size.
package c34

import (
	"fmt"
	"path/filepath"
	"runtime"
	"sort"
	"strings"
	"sync"
	"testing"
	"unicode/utf8"

	"src.elv.sh/pkg/cli/term"
	"src.elv.sh/pkg/cli/tk"
	"src.elv.sh/pkg/ui"
	"src.elv.sh/pkg/wcwidth"
	"src.elv.sh/pkg/zzverif/vk"
)

// ---------------------------------------------------------------------------
// Independent notion of display width (does not call wcwidth for the symbols
// of the alphabets): printable ASCII/Latin 1, CJK ideograph and emoji 2,
// combining marks and C0/C1 control characters 0, an invalid UTF-8 byte is one
// character displayed as U+FFFD (1 column).

// Width overrides installed for the current phase (wcwidth.Override is
// process-global, so phases run one after the other; the map is only written
// between phases). The reference width honours the same overrides.
var (
	c34Ov       map[rune]int
	c34OvTag    string // "" or e.g. "@x=2"
	c34RepMu    sync.Mutex
	c34Reported = map[string]bool{}
)

// c34Violate reports a violation. In an override phase a key already reported
// without overrides is not repeated; a key seen only under an override is
// suffixed with the override setting.
func c34Violate(c *vk.Ctx, key, msg string, replay any) {
	c34RepMu.Lock()
	if c34OvTag == "" {
		c34Reported[key] = true
	} else if c34Reported[key] {
		c34RepMu.Unlock()
		return
	}
	c34RepMu.Unlock()
	if c34OvTag != "" {
		key += c34OvTag
		msg = "with wcwidth.Override " + c34OvTag[1:] + ": " + msg
	}
	c.Violate(key, msg, replay)
}

func c34RuneWidth(r rune) int {
	if w, ok := c34Ov[r]; ok {
		return w
	}
	switch {
	case r == '好' || r == '😀':
		return 2
	case r == '\u0301':
		return 0
	case r < 0x20 || (0x7f <= r && r < 0xa0):
		return 0
	case r < 0x300 || r == utf8.RuneError || r == '│' || r == '━':
		return 1
	}
	// not a symbol of any alphabet used here; never reached (checked by c34Unknown)
	c34Unknown.Store(true)
	return wcwidth.OfRune(r)
}

var c34Unknown c34Flag

type c34Flag struct{ v chan struct{} }

func (f *c34Flag) Store(bool) {
	select {
	case f.v <- struct{}{}:
	default:
	}
}
func (f *c34Flag) Load() bool { return len(f.v) > 0 }

func c34Width(s string) int {
	w := 0
	for _, r := range s {
		w += c34RuneWidth(r)
	}
	return w
}

// c34SpecTrim is the statement, literally: among all prefixes of s that end at
// a character boundary, the longest one whose display width is <= wmax.
func c34SpecTrim(s string, wmax int) (string, bool) {
	best, found := "", false
	for i := 0; ; {
		if c34Width(s[:i]) <= wmax {
			best, found = s[:i], true
		}
		if i >= len(s) {
			break
		}
		_, n := utf8.DecodeRuneInString(s[i:])
		i += n
	}
	return best, found
}

var c34StrAlpha = []string{"a", "好", "\u0301", "\t", "\u0080", "😀", "\x80", "\n"}

func c34PartWcwidth(c *vk.Ctx, alpha []string, n int) {
	maxW := 9
	// the width table itself, for the symbols used
	for _, s := range alpha {
		r, _ := utf8.DecodeRuneInString(s)
		if got, want := wcwidth.OfRune(r), c34RuneWidth(r); got != want {
			c34Violate(c, "ofrune-table", fmt.Sprintf("wcwidth.OfRune(%q) = %d, documented class of the character gives %d", r, got, want), s)
		}
		c.Case("ofrune/" + s + c34OvTag)
	}
	c.EnumSeqs(len(alpha), n, func(l *vk.Local, idx []int) {
		s := vk.Join(alpha, idx)
		sw := c34Width(s)
		if got := wcwidth.Of(s); got != sw {
			c34Violate(c, "of-sum", fmt.Sprintf("wcwidth.Of(%q) = %d, sum of character widths is %d", s, got, sw), s)
		}
		for w := 0; w <= maxW; w++ {
			want, _ := c34SpecTrim(s, w)
			var got string
			if site, p := c34Try(func() { got = wcwidth.Trim(s, w) }); p != "" {
				c34Violate(c, "panic:"+site, fmt.Sprintf("wcwidth.Trim(%q, %d): %s", s, w, p), s)
			} else if got != want {
				key := "trim-not-longest-prefix"
				switch {
				case !strings.HasPrefix(s, got):
					key = "trim-not-a-prefix"
				case !c34Boundary(s, len(got)):
					key = "trim-cuts-inside-character"
				case c34Width(got) > w:
					key = "trim-too-wide"
				}
				c34Violate(c, key, fmt.Sprintf("wcwidth.Trim(%q, %d) = %q (width %d), want %q (width %d)", s, w, got, c34Width(got), want, c34Width(want)), s)
			}
			var f string
			if site, p := c34Try(func() { f = wcwidth.Force(s, w) }); p != "" {
				c34Violate(c, "panic:"+site, fmt.Sprintf("wcwidth.Force(%q, %d): %s", s, w, p), s)
			} else {
				if fw := c34Width(f); fw != w {
					c34Violate(c, "force-wrong-width", fmt.Sprintf("wcwidth.Force(%q, %d) = %q has display width %d", s, w, f, fw), s)
				} else if exp := want + strings.Repeat(" ", w-c34Width(want)); f != exp {
					c34Violate(c, "force-not-trim-plus-padding", fmt.Sprintf("wcwidth.Force(%q, %d) = %q, want trimmed text plus padding %q", s, w, f, exp), s)
				}
			}
			// TrimEachLine: every line trimmed by the same rule.
			var tl string
			if site, p := c34Try(func() { tl = wcwidth.TrimEachLine(s, w) }); p != "" {
				c34Violate(c, "panic:"+site, fmt.Sprintf("wcwidth.TrimEachLine(%q, %d): %s", s, w, p), s)
			} else {
				lines := strings.Split(s, "\n")
				for i := range lines {
					lines[i], _ = c34SpecTrim(lines[i], w)
				}
				if exp := strings.Join(lines, "\n"); tl != exp {
					c34Violate(c, "trimeachline", fmt.Sprintf("wcwidth.TrimEachLine(%q, %d) = %q, want %q", s, w, tl, exp), s)
				}
			}
			cls := ""
			if len(want) < len(s) {
				// class: width, what kind of character was cut off, how much padding Force needs
				r, _ := utf8.DecodeRuneInString(s[len(want):])
				cls = fmt.Sprintf("trim/w%d/cut%d/pad%d/len%d", w, c34RuneWidth(r), w-c34Width(want), len(idx))
			} else if sw < w {
				cls = fmt.Sprintf("trim/whole/pad/len%d", len(idx))
			}
			if cls != "" {
				cls += c34OvTag
			}
			l.Case(cls)
		}
		if c34OvTag == "" && len(idx) == 5 && idx[0] == 1 && idx[1] == 2 && idx[2] == 3 && idx[3] == 4 && idx[4] == 5 {
			c.Sample(s)
		}
	})
}

func c34Boundary(s string, i int) bool {
	for j := 0; j <= len(s); {
		if j == i {
			return true
		}
		if j == len(s) {
			break
		}
		_, n := utf8.DecodeRuneInString(s[j:])
		j += n
	}
	return false
}

// c34Try runs f; if it panics it returns a stable site "<elvish function>:<panic class>"
// (first elvish frame below the panic, no line numbers) and a full message.
func c34Try(f func()) (site, msg string) {
	defer func() {
		if r := recover(); r != nil {
			pcs := make([]uintptr, 48)
			n := runtime.Callers(2, pcs)
			frames := runtime.CallersFrames(pcs[:n])
			fn, where := "unknown", ""
			for {
				fr, more := frames.Next()
				if strings.HasPrefix(fr.Function, "src.elv.sh/pkg/") && !strings.Contains(fr.Function, "/zzverif/") {
					fn = strings.TrimPrefix(strings.TrimPrefix(fr.Function, "src.elv.sh/pkg/"), "cli/")
					where = fmt.Sprintf("%s:%d", filepath.Base(fr.File), fr.Line)
					break
				}
				if !more {
					break
				}
			}
			text := fmt.Sprint(r)
			class := "other"
			for _, kc := range [][2]string{{"index out of range", "index-out-of-range"}, {"slice bounds out of range", "slice-bounds"},
				{"negative Repeat count", "negative-repeat"}, {"makeslice", "makeslice"}, {"nil pointer", "nil-deref"}} {
				if strings.Contains(text, kc[0]) {
					class = kc[1]
					break
				}
			}
			site = fn + ":" + class
			msg = fmt.Sprintf("panic: %s in %s (%s)", text, fn, where)
		}
	}()
	f()
	return "", ""
}

// ---------------------------------------------------------------------------
// Judging one rendered buffer.

// c34Judge returns "" or the kind of violation and a description.
func c34Judge(b *term.Buffer, width, height int) (string, string) {
	if b == nil {
		return "nil-buffer", "Render returned nil"
	}
	if len(b.Lines) > height {
		return "too-many-lines", fmt.Sprintf("%d lines for height %d: %s", len(b.Lines), height, c34Show(b))
	}
	for i, line := range b.Lines {
		w := 0
		for _, cell := range line {
			w += c34Width(cell.Text)
		}
		if w > width {
			return "line-too-wide", fmt.Sprintf("line %d is %d columns wide for width %d: %s", i, w, width, c34Show(b))
		}
	}
	return "", ""
}

func c34Show(b *term.Buffer) string {
	var sb strings.Builder
	sb.WriteString("[")
	for i, line := range b.Lines {
		if i > 0 {
			sb.WriteString(" | ")
		}
		var t strings.Builder
		for _, cell := range line {
			t.WriteString(cell.Text)
		}
		sb.WriteString(fmt.Sprintf("%q", t.String()))
	}
	sb.WriteString("]")
	return sb.String()
}

func c34Shape(b *term.Buffer, width int) string {
	full := false
	for _, line := range b.Lines {
		w := 0
		for _, cell := range line {
			w += c34Width(cell.Text)
		}
		if w == width {
			full = true
		}
	}
	return fmt.Sprintf("l%d/full%v", len(b.Lines), full)
}

// c34NoCtrl replaces the C0 control character of the alphabets (drawn as a
// 2-column ^I by the buffer builder although its wcwidth is 0) by a combining
// mark (wcwidth 0, drawn in 0 columns); used only to tell apart root causes.
func c34NoCtrl(s string) string { return strings.ReplaceAll(s, "\t", "\u0301") }

func c34Sizes(lo, hi int) []int {
	var r []int
	for i := lo; i <= hi; i++ {
		r = append(r, i)
	}
	return r
}

// c34Family runs every spec of one widget family at every size.
type c34Family[S any] struct {
	name    string
	group   string // which renderer the family's pre-trimming goes through (for the control-character key)
	specs   []S
	widths  []int
	heights []int
	build   func(s S) tk.Renderer
	desc    func(s S) string
	class   func(s S) string
	// deconf: simplifications of a failing state used only to name the root
	// cause. Tag "ctrl" (control characters replaced by combining marks): if
	// this failure disappears, the key is <group>-control-char-wider-than-wcwidth.
	// Other tags map the state to a simpler state that is enumerated as well: if
	// that fails too the case is left to it, otherwise the tag is appended.
	deconf []c34Deconf[S]
	// keyFor may override the key of a failing case ("" = default).
	keyFor func(s S, w, h int, kind string) string
}

type c34Deconf[S any] struct {
	tag   string
	apply func(s S) (S, bool)
}

func c34Eval(r func() tk.Renderer, w, h int) (kind, msg string, buf *term.Buffer) {
	site, p := c34Try(func() { buf = r().Render(w, h) })
	if p != "" {
		return "panic:" + site, p, nil
	}
	kind, msg = c34Judge(buf, w, h)
	return kind, msg, buf
}

// c34Found is the smallest failing case seen for one violation key.
type c34Found struct {
	i, w, h   int
	msg, desc string
}

func c34Run[S any](c *vk.Ctx, f c34Family[S]) {
	c.Set("specs_"+f.name+c34OvTag, len(f.specs))
	if len(f.specs) > 0 && c34OvTag == "" {
		c.Sample(f.desc(f.specs[len(f.specs)*2/3]))
	}
	cname := f.name + c34OvTag
	var mu sync.Mutex
	found := map[string]c34Found{}
	c.Parallel(len(f.specs), func(l *vk.Local, i int) {
		s := f.specs[i]
		for _, w := range f.widths {
			for _, h := range f.heights {
				kind, msg, buf := c34Eval(func() tk.Renderer { return f.build(s) }, w, h)
				if kind == "" {
					l.Case(fmt.Sprintf("%s/%s/w%d/h%d/%s", cname, f.class(s), w, h, c34Shape(buf, w)))
					continue
				}
				key := ""
				if f.keyFor != nil {
					key = f.keyFor(s, w, h, kind)
				}
				if key == "" {
					// a panic is named by the panicking elvish function, whatever widget contains it
					byFunc := strings.HasPrefix(kind, "panic:")
					key = f.name + "-" + kind
					if byFunc {
						key = kind
					}
					suffix, dup := "", false
					for _, d := range f.deconf {
						s2, ok := d.apply(s)
						if !ok {
							continue
						}
						k2, _, _ := c34Eval(func() tk.Renderer { return f.build(s2) }, w, h)
						switch {
						case d.tag == "ctrl":
							if k2 != kind && !byFunc {
								key, byFunc = f.group+"-control-char-wider-than-wcwidth", true
							}
						case k2 != "":
							// the simplified state, which is enumerated itself, fails too: reported there
							dup = true
						default:
							suffix += ":" + d.tag
						}
					}
					if dup {
						l.Case(fmt.Sprintf("%s/VIOL-also-in-simpler-state/%s", cname, kind))
						continue
					}
					if !byFunc {
						key += suffix
					}
				}
				mu.Lock()
				if old, ok := found[key]; !ok || i < old.i || (i == old.i && (w < old.w || (w == old.w && h < old.h))) {
					found[key] = c34Found{i, w, h, msg, f.desc(s)}
				}
				mu.Unlock()
				l.Case(fmt.Sprintf("%s/VIOL/%s", cname, kind))
			}
		}
	})
	// report the smallest case per key, in a fixed order
	var keys []string
	for k := range found {
		keys = append(keys, k)
	}
	sort.Strings(keys)
	for _, k := range keys {
		v := found[k]
		c34Violate(c, k, fmt.Sprintf("%s rendered at width %d height %d: %s", v.desc, v.w, v.h, v.msg), v.desc)
	}
}

// c34Strings returns all strings of <= n symbols over alpha, shortest first.
func c34Strings(alpha []string, n int) []string {
	out := []string{""}
	prev := []string{""}
	for l := 1; l <= n; l++ {
		var cur []string
		for _, p := range prev {
			for _, a := range alpha {
				cur = append(cur, p+a)
			}
		}
		out = append(out, cur...)
		prev = cur
	}
	return out
}

// c34Lists returns all lists of <= n elements over pool indexes, shortest first.
func c34Lists(npool, n int) [][]int {
	out := [][]int{nil}
	prev := [][]int{nil}
	for l := 1; l <= n; l++ {
		var cur [][]int
		for _, p := range prev {
			for a := 0; a < npool; a++ {
				cur = append(cur, append(append([]int{}, p...), a))
			}
		}
		out = append(out, cur...)
		prev = cur
	}
	return out
}

func c34Text(s string, noCtrl bool) ui.Text {
	if noCtrl {
		s = c34NoCtrl(s)
	}
	// two segments with different styles when there are at least two characters
	if utf8.RuneCountInString(s) >= 2 {
		_, n := utf8.DecodeRuneInString(s)
		return ui.Concat(ui.T(s[:n], ui.Bold), ui.T(s[n:]))
	}
	return ui.T(s)
}

func c34Fix(s string, noCtrl bool) string {
	if noCtrl {
		return c34NoCtrl(s)
	}
	return s
}

var c34WidgetAlpha = []string{"a", "好", "\u0301", "\t", "\n"}

// ---------------------------------------------------------------------------
// BufferBuilder (the mechanism every widget writes through).

type c34BB struct {
	s      string
	eager  bool
	noCtrl bool
}

func (r c34BB) Render(width, height int) *term.Buffer {
	return term.NewBufferBuilder(width).SetEagerWrap(r.eager).WriteStyled(ui.T(c34Fix(r.s, r.noCtrl))).Buffer()
}

func c34PartBufferBuilder(c *vk.Ctx, alpha []string, n int, widths []int) {
	var specs []c34BB
	for _, s := range c34Strings(alpha, n) {
		specs = append(specs, c34BB{s, false, false}, c34BB{s, true, false})
	}
	c34Run(c, c34Family[c34BB]{
		name: "bufferbuilder", group: "bufferbuilder", specs: specs, widths: widths, heights: []int{1 << 20},
		build: func(s c34BB) tk.Renderer { return s },
		desc:  func(s c34BB) string { return fmt.Sprintf("BufferBuilder.WriteStyled(%q) eagerWrap=%v", s.s, s.eager) },
		class: func(s c34BB) string { return fmt.Sprintf("e%v", s.eager) },
		deconf: []c34Deconf[c34BB]{{"ctrl", func(s c34BB) (c34BB, bool) {
			s.noCtrl = true
			return s, strings.Contains(s.s, "\t")
		}}},
	})
}

// ---------------------------------------------------------------------------
// Label

type c34LA struct {
	s      string
	noCtrl bool
}

func c34PartLabel(c *vk.Ctx, alpha []string, n int, widths, heights []int) {
	var specs []c34LA
	for _, s := range c34Strings(alpha, n) {
		specs = append(specs, c34LA{s, false})
	}
	c34Run(c, c34Family[c34LA]{
		name: "label", group: "label", specs: specs, widths: widths, heights: heights,
		build: func(s c34LA) tk.Renderer { return tk.Label{Content: c34Text(s.s, s.noCtrl)} },
		desc:  func(s c34LA) string { return fmt.Sprintf("Label{%q}", s.s) },
		class: func(s c34LA) string { return "" },
		deconf: []c34Deconf[c34LA]{{"ctrl", func(s c34LA) (c34LA, bool) {
			s.noCtrl = true
			return s, strings.Contains(s.s, "\t")
		}}},
	})
}

// ---------------------------------------------------------------------------
// CodeArea

type c34CA struct {
	content string
	dot     int
	prompt  string
	rprompt string
	pending int // 0 none, 1 insert at dot, 2 replace everything
	tips    int // 0 none, 1 one short tip, 2 two tips (wide, control, multi-line)
	noCtrl  bool
}

func (s c34CA) ctrl() bool {
	return strings.Contains(s.content+s.prompt+s.rprompt, "\t") || s.tips == 2
}

func (s c34CA) String() string {
	return fmt.Sprintf("CodeArea{content %q dot %d prompt %q rprompt %q pending-variant %d tips %q}", s.content, s.dot, s.prompt, s.rprompt, s.pending, c34Tips[s.tips])
}

var c34Tips = [][]string{nil, {"t"}, {"好好好\tx", "b\nc"}}

func c34CodeAreaSpec(s c34CA) tk.CodeAreaSpec {
	fix := func(x string) string { return c34Fix(x, s.noCtrl) }
	spec := tk.CodeAreaSpec{
		Prompt:  func() ui.Text { return ui.T(fix(s.prompt)) },
		RPrompt: func() ui.Text { return ui.T(fix(s.rprompt)) },
		Highlighter: func(code string) (ui.Text, []ui.Text) {
			var tips []ui.Text
			for _, t := range c34Tips[s.tips] {
				tips = append(tips, ui.T(fix(t)))
			}
			return ui.T(code), tips
		},
		State: tk.CodeAreaState{Buffer: tk.CodeBuffer{Content: fix(s.content), Dot: s.dot}},
	}
	switch s.pending {
	case 1:
		spec.State.Pending = tk.PendingCode{From: s.dot, To: s.dot, Content: "好"}
	case 2:
		spec.State.Pending = tk.PendingCode{From: 0, To: len(s.content), Content: "x\n"}
	}
	return spec
}

func c34CodeAreaSpecs(alpha []string, n int, prompts, rprompts []string) []c34CA {
	var specs []c34CA
	for _, content := range c34Strings(alpha, n) {
		for dot := 0; dot <= len(content); dot++ {
			if !c34Boundary(content, dot) {
				continue
			}
			for _, p := range prompts {
				for _, rp := range rprompts {
					for pending := 0; pending < 3; pending++ {
						for tips := 0; tips < 3; tips++ {
							specs = append(specs, c34CA{content, dot, p, rp, pending, tips, false})
						}
					}
				}
			}
		}
	}
	return specs
}

func c34PartCodeArea(c *vk.Ctx, alpha []string, n int, prompts, rprompts []string, widths, heights []int) {
	specs := c34CodeAreaSpecs(alpha, n, prompts, rprompts)
	c34Run(c, c34Family[c34CA]{
		name: "codearea", group: "codearea", specs: specs, widths: widths, heights: heights,
		build: func(s c34CA) tk.Renderer { return tk.NewCodeArea(c34CodeAreaSpec(s)) },
		desc:  func(s c34CA) string { return s.String() },
		class: func(s c34CA) string {
			return fmt.Sprintf("p%d/r%d/pd%d/t%d", c34Width(s.prompt), c34Width(s.rprompt), s.pending, s.tips)
		},
		deconf: []c34Deconf[c34CA]{{"ctrl", func(s c34CA) (c34CA, bool) {
			s.noCtrl = true
			return s, s.ctrl()
		}}},
	})
}

// ---------------------------------------------------------------------------
// TextView

type c34TV struct {
	lines      []string
	scrollable bool
	scroll     int // number of ScrollBy(1) calls before rendering
	back       bool
	noCtrl     bool
}

var c34LinePool = []string{"", "a", "好", "a好b", "好好好好好", "abcdefghij", "\t", "a\u0301\tb"}

func c34PartTextView(c *vk.Ctx, pool []string, n int, widths, heights []int) {
	var specs []c34TV
	for _, idx := range c34Lists(len(pool), n) {
		lines := make([]string, len(idx))
		for i, j := range idx {
			lines[i] = pool[j]
		}
		maxScroll := len(lines)
		if maxScroll == 0 {
			maxScroll = 1
		}
		for _, sc := range []bool{false, true} {
			for k := 0; k <= maxScroll; k++ {
				specs = append(specs, c34TV{lines, sc, k, false, false})
				if k > 0 {
					specs = append(specs, c34TV{lines, sc, k, true, false})
				}
			}
		}
	}
	c34Run(c, c34Family[c34TV]{
		name: "textview", group: "textview", specs: specs, widths: widths, heights: heights,
		build: func(s c34TV) tk.Renderer {
			lines := make([]string, len(s.lines))
			for i := range lines {
				lines[i] = c34Fix(s.lines[i], s.noCtrl)
			}
			w := tk.NewTextView(tk.TextViewSpec{Scrollable: s.scrollable, State: tk.TextViewState{Lines: lines}})
			for k := 0; k < s.scroll; k++ {
				w.ScrollBy(1)
			}
			if s.back {
				w.ScrollBy(-1)
			}
			return w
		},
		desc: func(s c34TV) string {
			d := fmt.Sprintf("TextView{lines %q scrollable %v}", s.lines, s.scrollable)
			if s.scroll > 0 {
				d += fmt.Sprintf(" after %d x ScrollBy(1)", s.scroll)
			}
			if s.back {
				d += " and ScrollBy(-1)"
			}
			return d
		},
		class: func(s c34TV) string { return fmt.Sprintf("n%d/s%v/k%d", len(s.lines), s.scrollable, s.scroll) },
		deconf: []c34Deconf[c34TV]{{"ctrl", func(s c34TV) (c34TV, bool) {
			s.noCtrl = true
			return s, strings.Contains(strings.Join(s.lines, ""), "\t")
		}}},
	})
}

// ---------------------------------------------------------------------------
// ListBox

type c34Items struct {
	strs   []string
	noCtrl bool
}

func (it c34Items) Len() int           { return len(it.strs) }
func (it c34Items) Show(i int) ui.Text { return c34Text(it.strs[i], it.noCtrl) }

type c34LB struct {
	items       []string
	selected    int
	first       int
	padding     int
	extendStyle bool
	horizontal  bool
	placeholder string
	noCtrl      bool
}

var c34ItemPool = []string{"", "a", "好", "a好b", "ab\ncd\nef", "\t", "abcdefgh", "x\ny"}

func c34ListBoxSpecs(pool []string, n int, paddings []int, selOutOfRange bool) []c34LB {
	var specs []c34LB
	for _, idx := range c34Lists(len(pool), n) {
		items := make([]string, len(idx))
		multiline := false
		for i, j := range idx {
			items[i] = pool[j]
			multiline = multiline || strings.Contains(pool[j], "\n")
		}
		placeholders := []string{""}
		if len(items) == 0 {
			placeholders = []string{"", "none", "好\n好\n\t"}
		}
		selLo, selHi := 0, len(items)-1
		if selOutOfRange {
			selLo, selHi = -1, len(items)
		}
		if selHi < selLo {
			selHi = selLo
		}
		for sel := selLo; sel <= selHi; sel++ {
			for first := 0; first == 0 || first < len(items); first++ {
				for _, pad := range paddings {
					for _, ext := range []bool{false, true} {
						for _, hor := range []bool{false, true} {
							if hor && multiline {
								// documented precondition: horizontal items have only one line
								continue
							}
							for _, ph := range placeholders {
								specs = append(specs, c34LB{items, sel, first, pad, ext, hor, ph, false})
							}
						}
					}
				}
			}
		}
	}
	return specs
}

func c34ListBoxSpec(s c34LB) tk.ListBoxSpec {
	return tk.ListBoxSpec{
		Placeholder: c34Text(s.placeholder, s.noCtrl),
		Horizontal:  s.horizontal, Padding: s.padding, ExtendStyle: s.extendStyle,
		State: tk.ListBoxState{Items: c34Items{s.items, s.noCtrl}, Selected: s.selected, First: s.first},
	}
}

func (s c34LB) String() string {
	return fmt.Sprintf("ListBox{items %q selected %d first %d padding %d extendStyle %v horizontal %v placeholder %q}",
		s.items, s.selected, s.first, s.padding, s.extendStyle, s.horizontal, s.placeholder)
}

func (s c34LB) ctrl() bool {
	return strings.Contains(strings.Join(s.items, "")+s.placeholder, "\t")
}

// the selected index is documented as possibly invalid (Reset/Select "if the
// index is valid"); a failure that needs an invalid index gets its own key.
func (s c34LB) clampSelected() (c34LB, bool) {
	n := len(s.items)
	if n == 0 || (0 <= s.selected && s.selected < n) {
		return s, false
	}
	if s.selected < 0 {
		s.selected = 0
	} else {
		s.selected = n - 1
	}
	return s, true
}

func c34PartListBox(c *vk.Ctx, specs []c34LB, widths, heights []int) {
	if c.Thorough() && c34OvTag == "" {
		// lists of four items over a smaller pool
		for _, s := range c34ListBoxSpecs([]string{"a", "好好", "ab\ncd\nef", "x\ny", "\t"}, 4, []int{0, 1}, false) {
			if len(s.items) == 4 {
				specs = append(specs, s)
			}
		}
	}
	var hor, ver []c34LB
	for _, s := range specs {
		if s.horizontal {
			hor = append(hor, s)
		} else {
			ver = append(ver, s)
		}
	}
	for _, part := range []struct {
		name  string
		specs []c34LB
	}{{"listbox-vertical", ver}, {"listbox-horizontal", hor}} {
		c34Run(c, c34Family[c34LB]{
			name: part.name, group: "listbox", specs: part.specs, widths: widths, heights: heights,
			build: func(s c34LB) tk.Renderer { return tk.NewListBox(c34ListBoxSpec(s)) },
			desc:  func(s c34LB) string { return s.String() },
			class: func(s c34LB) string {
				return fmt.Sprintf("n%d/p%d/e%v/sel%v", len(s.items), s.padding, s.extendStyle, 0 <= s.selected && s.selected < len(s.items))
			},
			deconf: []c34Deconf[c34LB]{
				{"ctrl", func(s c34LB) (c34LB, bool) {
					s.noCtrl = true
					return s, s.ctrl()
				}},
				{"selected-out-of-range", func(s c34LB) (c34LB, bool) { return s.clampSelected() }},
			},
		})
	}
}

// ---------------------------------------------------------------------------
// ComboBox = CodeArea above ListBox

type c34CB struct {
	ca c34CA
	lb c34LB
}

func c34PartComboBox(c *vk.Ctx, widths, heights []int) {
	var cas []c34CA
	for _, content := range vk.Pick(c, []string{"", "a", "好\n", "a\nb\nc", "\t好"}, []string{"", "a", "好\n", "a\nb\nc", "\t好", "好好好好好", "\n\n\n\n"}) {
		for _, p := range []string{"", "好"} {
			for tips := 0; tips < 2; tips++ {
				cas = append(cas, c34CA{content: content, dot: len(content), prompt: p, tips: tips})
			}
		}
	}
	var specs []c34CB
	for _, lb := range c34ListBoxSpecs([]string{"a", "好好", "x\ny", "\t"}, vk.Pick(c, 2, 3), []int{0, 1}, false) {
		if lb.extendStyle {
			continue
		}
		for _, ca := range cas {
			specs = append(specs, c34CB{ca, lb})
		}
	}
	c34Run(c, c34Family[c34CB]{
		name: "combobox", group: "listbox", specs: specs, widths: widths, heights: heights,
		build: func(s c34CB) tk.Renderer {
			return tk.NewComboBox(tk.ComboBoxSpec{CodeArea: c34CodeAreaSpec(s.ca), ListBox: c34ListBoxSpec(s.lb)})
		},
		desc: func(s c34CB) string { return fmt.Sprintf("ComboBox{%s %s}", s.ca, s.lb) },
		class: func(s c34CB) string {
			return fmt.Sprintf("c%d/n%d/h%v", strings.Count(s.ca.content, "\n"), len(s.lb.items), s.lb.horizontal)
		},
		deconf: []c34Deconf[c34CB]{{"ctrl", func(s c34CB) (c34CB, bool) {
			s.ca.noCtrl, s.lb.noCtrl = true, true
			return s, s.lb.ctrl() || s.ca.ctrl()
		}}},
	})
}

// ---------------------------------------------------------------------------
// ColView = widgets side by side (navigation mode: list boxes with padding 1
// and extended style, and a text view)

type c34CV struct {
	cols     []int
	weighted bool
}

var c34ColNames = []string{"ListBox(padding 1, extendStyle, items a 好b, selected 0)", "ListBox(padding 0, items a bc 好 d, selected 3)",
	"TextView(scrollable, 5 lines)", "Label(好好好)", "Empty"}

func c34ColWidget(i int) tk.Widget {
	switch i {
	case 0:
		return tk.NewListBox(tk.ListBoxSpec{Padding: 1, ExtendStyle: true,
			State: tk.ListBoxState{Items: c34Items{[]string{"a", "好b"}, false}, Selected: 0}})
	case 1:
		return tk.NewListBox(tk.ListBoxSpec{
			State: tk.ListBoxState{Items: c34Items{[]string{"a", "bc", "好", "d"}, false}, Selected: 3}})
	case 2:
		return tk.NewTextView(tk.TextViewSpec{Scrollable: true,
			State: tk.TextViewState{Lines: []string{"abc", "好好", "", "d", "e"}}})
	case 3:
		return tk.Label{Content: ui.T("好好好")}
	}
	return tk.Empty{}
}

// c34Rec records the smallest width a column was asked to render at.
type c34Rec struct {
	tk.Widget
	min *int
}

func (r c34Rec) Render(width, height int) *term.Buffer {
	if width < *r.min {
		*r.min = width
	}
	return r.Widget.Render(width, height)
}

func c34BuildColView(s c34CV, min *int) tk.Renderer {
	var cols []tk.Widget
	for _, i := range s.cols {
		cols = append(cols, c34Rec{c34ColWidget(i), min})
	}
	spec := tk.ColViewSpec{State: tk.ColViewState{Columns: cols}}
	if s.weighted {
		spec.Weights = func(n int) []int { return []int{1, 3, 4, 2}[:n] }
	}
	return tk.NewColView(spec)
}

func c34PartColView(c *vk.Ctx, heights []int) {
	var specs []c34CV
	for _, cols := range c34Lists(len(c34ColNames), vk.Pick(c, 3, 4)) {
		if len(cols) == 0 {
			continue
		}
		specs = append(specs, c34CV{cols, false}, c34CV{cols, true})
	}
	c34Run(c, c34Family[c34CV]{
		name: "colview", group: "colview", specs: specs, widths: c34Sizes(2, vk.Pick(c, 10, 14)), heights: heights,
		build: func(s c34CV) tk.Renderer {
			min := 1 << 20
			return c34BuildColView(s, &min)
		},
		desc: func(s c34CV) string {
			var names []string
			for _, i := range s.cols {
				names = append(names, c34ColNames[i])
			}
			return fmt.Sprintf("ColView{columns [%s] weights-1-3-4-2=%v}", strings.Join(names, "; "), s.weighted)
		},
		class: func(s c34CV) string { return fmt.Sprintf("n%d/w%v", len(s.cols), s.weighted) },
		keyFor: func(s c34CV, w, h int, kind string) string {
			// The statement exempts widgets rendered narrower than 2 columns, so a
			// failure while some column is given < 2 columns is the ColView's.
			min := 1 << 20
			c34Try(func() { c34BuildColView(s, &min).Render(w, h) })
			if min < 2 {
				return "colview-column-narrower-than-2"
			}
			return ""
		},
	})
}

// ---------------------------------------------------------------------------

// ---------------------------------------------------------------------------
// Width overrides (wcwidth.Override, the -override-wcwidth builtin).

var c34Overrides = []struct {
	r rune
	w int
}{{'x', 2}, {'\u00e9', 3}, {'好', 1}}

// reduced alphabet of the override phases: a 1-byte, a 2-byte and a 3-byte
// rune that can each be overridden, and a combining mark
var c34OvAlpha = []string{"x", "\u00e9", "好", "\u0301"}

// c34PartTrimWcwidth: ui.Text.TrimWcwidth ("the largest prefix of t that does
// not exceed the given visual width") on one- and two-segment texts.
func c34PartTrimWcwidth(c *vk.Ctx, alpha []string, n int) {
	strs := c34Strings(alpha, n)
	c.Parallel(len(strs), func(l *vk.Local, i int) {
		s := strs[i]
		for cut := 0; cut <= len(s); cut++ {
			if !c34Boundary(s, cut) || (cut == len(s) && cut > 0) {
				continue
			}
			t := ui.Concat(ui.T(s[:cut]), ui.T(s[cut:], ui.Bold))
			for w := 0; w <= 9; w++ {
				want, _ := c34SpecTrim(s, w)
				var got strings.Builder
				if site, p := c34Try(func() {
					for _, seg := range t.TrimWcwidth(w) {
						got.WriteString(seg.Text)
					}
				}); p != "" {
					c34Violate(c, "panic:"+site, fmt.Sprintf("ui.Text{%q,%q}.TrimWcwidth(%d): %s", s[:cut], s[cut:], w, p), s)
				} else if got.String() != want {
					key := "text-trimwcwidth-not-longest-prefix"
					if c34Width(got.String()) > w {
						key = "text-trimwcwidth-too-wide"
					}
					c34Violate(c, key, fmt.Sprintf("ui.Text{%q,%q}.TrimWcwidth(%d) has content %q (width %d), want %q", s[:cut], s[cut:], w, got.String(), c34Width(got.String()), want), s)
				}
				cls := ""
				if len(want) < len(s) {
					cls = fmt.Sprintf("textTrim/w%d/cut-in-seg%v/left%d%s", w, len(want) >= cut, w-c34Width(want), c34OvTag)
				}
				l.Case(cls)
			}
		}
	})
}

func c34OverridePhase(c *vk.Ctx, r rune, w int) {
	c34Ov, c34OvTag = map[rune]int{r: w}, fmt.Sprintf("@%c=%d", r, w)
	wcwidth.Override(r, w)
	defer func() {
		wcwidth.Unoverride(r)
		c34Ov, c34OvTag = nil, ""
	}()
	// a widget cannot fit a character wider than its whole width
	lo := 2
	if w > lo {
		lo = w
	}
	widths, heights := c34Sizes(lo, vk.Pick(c, 6, 8)), c34Sizes(1, 3)
	big := vk.Pick(c, 0, 1)
	c34PartWcwidth(c, append(append([]string{}, c34OvAlpha...), "\n"), 5+big)
	c34PartTrimWcwidth(c, c34OvAlpha, 4+big)
	walpha := []string{"x", "\u00e9", "好", "\n"}
	c34PartBufferBuilder(c, walpha, 4+big, widths)
	c34PartLabel(c, walpha, 3+big, widths, heights)
	c34PartCodeArea(c, walpha, 2+big, []string{"", "x>"}, []string{"", "\u00e9"}, widths, heights)
	c34PartTextView(c, []string{"", "x", "xxxx", "\u00e9\u00e9", "好好好", "x\u00e9好x"}, 2+big, widths, heights)
	c34PartListBox(c, c34ListBoxSpecs([]string{"x", "xxxx", "\u00e9\u00e9", "好好", "x\nxx\nx"}, 2+big, []int{0, 1}, false), widths, heights)
}

func TestVerifC34(t *testing.T) {
	c34Unknown.v = make(chan struct{}, 1)
	vk.Run(t, "C34", "exploration", func(c *vk.Ctx) {
		widths := c34Sizes(2, vk.Pick(c, 7, 9))
		heights := c34Sizes(1, vk.Pick(c, 4, 5))
		c.Rule(fmt.Sprintf("(1) every string of <=%d symbols over %q x every width 0..9 for wcwidth.Trim/Force/TrimEachLine; "+
			"(2) every string of <=%d symbols over %q written through term.BufferBuilder (eager wrap on/off) at widths %v; "+
			"(3) every widget state from the stated pools (Label, CodeArea with prompt/rprompt/pending/tips, TextView with scrolling, ListBox vertical+horizontal with selection/first/padding/extendStyle, ComboBox, ColView of 1..%d columns) rendered fresh at every width %v x height %v; "+
			"(4) the wcwidth, ui.Text.TrimWcwidth, BufferBuilder, Label, CodeArea, TextView and ListBox families again on reduced pools over {x, é, 好, U+0301 / LF} under each width override x=2, é=3, 好=1 (wcwidth.Override set before and removed after each sequential phase; widths from max(2, overridden width)); "+
			"class = part/widget (+ override setting) + state shape + width + height + number of lines produced + whether a line fills the width",
			vk.Pick(c, 5, 7), c34StrAlpha, vk.Pick(c, 5, 7), c34WidgetAlpha, widths, vk.Pick(c, 3, 4), widths, heights))
		c.Assume("display width of the alphabet symbols is taken from an independent table (ASCII 1, CJK/emoji 2, combining and control 0, invalid byte = U+FFFD 1); a cell's width is the sum over its runes",
			"horizontal ListBox is only given single-line items (documented precondition); CodeArea dot is always at a character boundary; TextView lines contain no newline",
			"heights >= 1 and widths >= 2 only, as the statement says; a panic in Render counts as a violation (no lines produced)",
			"Buffer.Dot position and Buffer.Width are not judged (the statement does not mention them)",
			"under a width override the reference width table uses the same override; a widget is not asked to fit a character wider than its whole width")
		c34PartWcwidth(c, c34StrAlpha, vk.Pick(c, 5, 7))
		c34PartTrimWcwidth(c, c34OvAlpha, vk.Pick(c, 4, 5))
		c34PartBufferBuilder(c, c34WidgetAlpha, vk.Pick(c, 5, 7), widths)
		c34PartLabel(c, c34WidgetAlpha, vk.Pick(c, 4, 6), widths, heights)
		c34PartCodeArea(c, c34WidgetAlpha, vk.Pick(c, 3, 4), []string{"", ">", "好", "a\n> ", "好好好好"}, []string{"", "<", "好", "a\tb", "x\ny"}, widths, heights)
		c34PartTextView(c, c34LinePool, vk.Pick(c, 3, 4), widths, heights)
		c34PartListBox(c, c34ListBoxSpecs(c34ItemPool, 3, vk.Pick(c, []int{0, 1}, []int{0, 1, 2}), true), widths, heights)
		c34PartComboBox(c, widths, heights)
		c34PartColView(c, c34Sizes(1, 3))
		// The same families on reduced pools under width overrides, one sequential phase per setting.
		for _, ov := range c34Overrides {
			c34OverridePhase(c, ov.r, ov.w)
		}
		if c34Unknown.Load() {
			c.Set("runes_outside_width_table_measured_with_wcwidth", true)
		}
	})
}
