//go:build verif

// Package c41 checks property C41 (string and regex builtins satisfy their
// algebraic laws) by driving the real str: and re: builtins through
// eval.NewEvaler + Evaler.Eval on every string up to a length bound over a small
// alphabet, and comparing every output with reference definitions written from
// the documentation (pkg/mods/str/str.d.elv, pkg/mods/re/re.d.elv, and the Go
// regexp documentation that website/ref/re.md defers to).
//
// The references below deliberately do not use package strings or package
// regexp: they are naive byte / code point scans.
package c41

import (
	"fmt"
	"sort"
	"strconv"
	"sync"
	"testing"
	"unicode"
	"unicode/utf8"

	"src.elv.sh/pkg/eval"
	"src.elv.sh/pkg/eval/vals"
	"src.elv.sh/pkg/eval/vars"
	"src.elv.sh/pkg/mods/re"
	"src.elv.sh/pkg/mods/str"
	"src.elv.sh/pkg/parse"
	"src.elv.sh/pkg/zzverif/vk"
)

// The alphabet of DESIGN.md: two lower-case letters, a regexp metacharacter,
// the usual separator, a 2-byte letter with case, an invalid UTF-8 byte, an
// upper-case letter and white space.
var c41Alpha = []string{"a", "b", ".", ",", "é", "\xff", "A", " "}

// ---------------------------------------------------------------------------
// Reference definitions.

// c41PC is one "pseudo code point": a valid UTF-8 encoded code point, or a
// single byte that is not part of valid UTF-8 (which stands for itself).
type c41PC struct {
	r  rune
	ok bool
	b  string
}

func c41Decode(s string) []c41PC {
	var out []c41PC
	for i := 0; i < len(s); {
		r, n := utf8.DecodeRuneInString(s[i:])
		if r == utf8.RuneError && n <= 1 {
			out = append(out, c41PC{rune(s[i]), false, s[i : i+1]})
			i++
			continue
		}
		out = append(out, c41PC{r, true, s[i : i+n]})
		i += n
	}
	return out
}

func c41Valid(s string) bool { return utf8.ValidString(s) }

func c41Index(s, t string) int {
	for i := 0; i+len(t) <= len(s); i++ {
		if s[i:i+len(t)] == t {
			return i
		}
	}
	return -1
}

func c41LastIndex(s, t string) int {
	for i := len(s) - len(t); i >= 0; i-- {
		if s[i:i+len(t)] == t {
			return i
		}
	}
	return -1
}

// c41Occ returns the start offsets of the non-overlapping occurrences of the
// non-empty string t in s, left to right.
func c41Occ(s, t string) []int {
	var out []int
	for pos := 0; ; {
		i := c41Index(s[pos:], t)
		if i < 0 {
			return out
		}
		out = append(out, pos+i)
		pos += i + len(t)
	}
}

func c41Compare(a, b string) int {
	for i := 0; i < len(a) && i < len(b); i++ {
		if a[i] != b[i] {
			if a[i] < b[i] {
				return -1
			}
			return 1
		}
	}
	switch {
	case len(a) < len(b):
		return -1
	case len(a) > len(b):
		return 1
	}
	return 0
}

func c41InSet(pc c41PC, set []c41PC) bool {
	for _, q := range set {
		if q.ok == pc.ok && q.r == pc.r {
			return true
		}
	}
	return false
}

func c41Concat(pcs []c41PC) string {
	out := ""
	for _, pc := range pcs {
		out += pc.b
	}
	return out
}

func c41Trim(s, cutset string, left, right bool) string {
	pcs, set := c41Decode(s), c41Decode(cutset)
	for left && len(pcs) > 0 && c41InSet(pcs[0], set) {
		pcs = pcs[1:]
	}
	for right && len(pcs) > 0 && c41InSet(pcs[len(pcs)-1], set) {
		pcs = pcs[:len(pcs)-1]
	}
	return c41Concat(pcs)
}

func c41IsSpace(pc c41PC) bool { return pc.ok && unicode.IsSpace(pc.r) }

func c41TrimSpace(s string) string {
	pcs := c41Decode(s)
	for len(pcs) > 0 && c41IsSpace(pcs[0]) {
		pcs = pcs[1:]
	}
	for len(pcs) > 0 && c41IsSpace(pcs[len(pcs)-1]) {
		pcs = pcs[:len(pcs)-1]
	}
	return c41Concat(pcs)
}

func c41Fields(s string, isSep func(c41PC) bool) []any {
	out := []any{}
	cur, in := "", false
	for _, pc := range c41Decode(s) {
		if isSep(pc) {
			if in {
				out = append(out, cur)
			}
			cur, in = "", false
		} else {
			cur += pc.b
			in = true
		}
	}
	if in {
		out = append(out, cur)
	}
	return out
}

func c41MapCase(f func(rune) rune, s string) string {
	out := ""
	for _, pc := range c41Decode(s) {
		if pc.ok {
			out += string(f(pc.r))
		} else {
			out += pc.b
		}
	}
	return out
}

func c41SameFold(a, b rune) bool {
	if a == b {
		return true
	}
	for r := unicode.SimpleFold(a); r != a; r = unicode.SimpleFold(r) {
		if r == b {
			return true
		}
	}
	return false
}

func c41EqualFold(s, t string) bool {
	a, b := c41Decode(s), c41Decode(t)
	if len(a) != len(b) {
		return false
	}
	for i := range a {
		if a[i].ok != b[i].ok {
			return false
		}
		if a[i].ok && !c41SameFold(a[i].r, b[i].r) || !a[i].ok && a[i].r != b[i].r {
			return false
		}
	}
	return true
}

// c41Split is str:split as documented: split around every instance of sep; an
// empty sep splits into code points; a non-negative max stops after max
// results (the last one being the unsplit rest, as in the documented example).
func c41Split(s, sep string, max int) []any {
	out := []any{}
	if max == 0 {
		return out
	}
	if sep == "" {
		pcs := c41Decode(s)
		for i, pc := range pcs {
			if max > 0 && len(out) == max-1 {
				return append(out, c41Concat(pcs[i:]))
			}
			out = append(out, pc.b)
		}
		return out
	}
	pos := 0
	for max < 0 || len(out) < max-1 {
		i := c41Index(s[pos:], sep)
		if i < 0 {
			break
		}
		out = append(out, s[pos:pos+i])
		pos += i + len(sep)
	}
	return append(out, s[pos:])
}

// c41Replace is str:replace for a non-empty old.
func c41Replace(s, old, repl string, max int) string {
	out, pos := "", 0
	for n := 0; max < 0 || n < max; n++ {
		i := c41Index(s[pos:], old)
		if i < 0 {
			break
		}
		out += s[pos:pos+i] + repl
		pos += i + len(old)
	}
	return out + s[pos:]
}

func c41Join(sep string, parts []any) string {
	out := ""
	for i, p := range parts {
		if i > 0 {
			out += sep
		}
		out += p.(string)
	}
	return out
}

// c41Quote escapes the regular expression metacharacters listed in the Go
// regexp syntax documentation.
func c41Quote(s string) string {
	out := ""
	for i := 0; i < len(s); i++ {
		switch s[i] {
		case '\\', '.', '+', '*', '?', '(', ')', '|', '[', ']', '{', '}', '^', '$':
			out += "\\"
		}
		out += s[i : i+1]
	}
	return out
}

// ---------------------------------------------------------------------------
// Reference for the small regular expressions of the regex family: a
// hand-written "match attempt at offset p" per pattern, and the documented
// iteration rule of the "All" functions of Go's regexp package (leftmost match,
// successive non-overlapping matches, empty matches abutting a preceding match
// are ignored).

type c41Match struct {
	start, end int
	g1s, g1e   int // group 1, (-1,-1) if it did not participate; unused when the pattern has no group
}

type c41Pattern struct {
	name    string // elvish source of the pattern and options
	pat     string
	posix   bool
	longest bool
	groups  int  // number of capture groups besides the implicit one
	named   bool // group 1 is named x
	at      func(s string, p int) (end, g1s, g1e int, ok bool)
}

func c41IsWordByte(s string, i int) bool {
	if i < 0 || i >= len(s) {
		return false
	}
	c := s[i]
	return c == '_' || '0' <= c && c <= '9' || 'a' <= c && c <= 'z' || 'A' <= c && c <= 'Z'
}

func c41PCAt(s string, p int) (c41PC, bool) {
	if p >= len(s) {
		return c41PC{}, false
	}
	return c41Decode(s[p:])[0], true
}

func c41Has(s string, p int, lit string) bool {
	return p+len(lit) <= len(s) && s[p:p+len(lit)] == lit
}

var c41Patterns = []c41Pattern{
	{name: "a", pat: "a", at: func(s string, p int) (int, int, int, bool) { return p + 1, 0, 0, c41Has(s, p, "a") }},
	{name: "a*", pat: "a*", at: func(s string, p int) (int, int, int, bool) {
		e := p
		for c41Has(s, e, "a") {
			e++
		}
		return e, 0, 0, true
	}},
	{name: "(a|b)", pat: "(a|b)", groups: 1, at: func(s string, p int) (int, int, int, bool) {
		return p + 1, p, p + 1, c41Has(s, p, "a") || c41Has(s, p, "b")
	}},
	{name: ".", pat: ".", at: func(s string, p int) (int, int, int, bool) {
		pc, ok := c41PCAt(s, p)
		return p + len(pc.b), 0, 0, ok && !(pc.ok && pc.r == '\n')
	}},
	{name: "''", pat: "", at: func(s string, p int) (int, int, int, bool) { return p, 0, 0, true }},
	{name: `\b`, pat: `\b`, at: func(s string, p int) (int, int, int, bool) {
		return p, 0, 0, c41IsWordByte(s, p-1) != c41IsWordByte(s, p)
	}},
	{name: "a|ab", pat: "a|ab", at: func(s string, p int) (int, int, int, bool) { return p + 1, 0, 0, c41Has(s, p, "a") }},
	{name: "&longest a|ab", pat: "a|ab", longest: true, at: func(s string, p int) (int, int, int, bool) {
		if c41Has(s, p, "ab") {
			return p + 2, 0, 0, true
		}
		return p + 1, 0, 0, c41Has(s, p, "a")
	}},
	{name: "&posix a|ab", pat: "a|ab", posix: true, at: func(s string, p int) (int, int, int, bool) {
		if c41Has(s, p, "ab") {
			return p + 2, 0, 0, true
		}
		return p + 1, 0, 0, c41Has(s, p, "a")
	}},
	{name: "(a)|b", pat: "(a)|b", groups: 1, at: func(s string, p int) (int, int, int, bool) {
		if c41Has(s, p, "a") {
			return p + 1, p, p + 1, true
		}
		return p + 1, -1, -1, c41Has(s, p, "b")
	}},
	{name: ",+", pat: ",+", at: func(s string, p int) (int, int, int, bool) {
		e := p
		for c41Has(s, e, ",") {
			e++
		}
		return e, 0, 0, e > p
	}},
	{name: "&longest ,+", pat: ",+", longest: true, at: func(s string, p int) (int, int, int, bool) {
		e := p
		for c41Has(s, e, ",") {
			e++
		}
		return e, 0, 0, e > p
	}},
	{name: "[^a]", pat: "[^a]", at: func(s string, p int) (int, int, int, bool) {
		pc, ok := c41PCAt(s, p)
		return p + len(pc.b), 0, 0, ok && !(pc.ok && pc.r == 'a')
	}},
	{name: "b?", pat: "b?", at: func(s string, p int) (int, int, int, bool) {
		if c41Has(s, p, "b") {
			return p + 1, 0, 0, true
		}
		return p, 0, 0, true
	}},
	{name: "(?P<x>a)b?", pat: "(?P<x>a)b?", groups: 1, named: true, at: func(s string, p int) (int, int, int, bool) {
		if !c41Has(s, p, "a") {
			return 0, 0, 0, false
		}
		if c41Has(s, p+1, "b") {
			return p + 2, p, p + 1, true
		}
		return p + 1, p, p + 1, true
	}},
	{name: "é", pat: "é", at: func(s string, p int) (int, int, int, bool) { return p + 2, 0, 0, c41Has(s, p, "é") }},
}

// c41FindAll applies the iteration rule to a match-attempt function.
func c41FindAll(s string, at func(string, int) (int, int, int, bool)) []c41Match {
	var out []c41Match
	prevEnd := -1
	for pos := 0; pos <= len(s); {
		// leftmost match starting at a code point boundary >= pos
		found := false
		var m c41Match
		for p := pos; p <= len(s); {
			if e, g1s, g1e, ok := at(s, p); ok {
				m, found = c41Match{p, e, g1s, g1e}, true
				break
			}
			if pc, ok := c41PCAt(s, p); ok {
				p += len(pc.b)
			} else {
				break
			}
		}
		if !found {
			break
		}
		accept := true
		if m.end == pos { // an empty match at pos
			if m.start == prevEnd {
				accept = false
			}
			if pc, ok := c41PCAt(s, pos); ok {
				pos += len(pc.b)
			} else {
				pos = len(s) + 1
			}
		} else {
			pos = m.end
		}
		prevEnd = m.end
		if accept {
			out = append(out, m)
		}
	}
	return out
}

// c41Found is one value output by re:find, read back through vals.Index.
type c41Found struct {
	text       string
	start, end int
	groups     []c41Found
}

func c41ReadFound(v any, withGroups bool) (c41Found, error) {
	var f c41Found
	get := func(k string) (any, error) { return vals.Index(v, k) }
	t, err := get("text")
	if err != nil {
		return f, err
	}
	st, err := get("start")
	if err != nil {
		return f, err
	}
	en, err := get("end")
	if err != nil {
		return f, err
	}
	var ok1, ok2, ok3 bool
	f.text, ok1 = t.(string)
	f.start, ok2 = st.(int)
	f.end, ok3 = en.(int)
	if !ok1 || !ok2 || !ok3 {
		return f, fmt.Errorf("text/start/end have types %T/%T/%T", t, st, en)
	}
	if withGroups {
		gs, err := get("groups")
		if err != nil {
			return f, err
		}
		var gerr error
		err = vals.Iterate(gs, func(g any) bool {
			sub, err := c41ReadFound(g, false)
			if err != nil {
				gerr = err
				return false
			}
			f.groups = append(f.groups, sub)
			return true
		})
		if err == nil {
			err = gerr
		}
		if err != nil {
			return f, err
		}
	}
	return f, nil
}

// c41Expand expands a re:replace template as documented in re.d.elv: $name or
// ${name} with name made of letters, digits and underscore, as long as
// possible; numeric names are group indices, other names are named groups; $$
// is a literal $. Groups that do not exist or did not participate expand to
// nothing (Go regexp documentation of Expand).
func c41Expand(tpl string, f c41Found, named bool) string {
	isName := func(c byte) bool {
		return c == '_' || '0' <= c && c <= '9' || 'a' <= c && c <= 'z' || 'A' <= c && c <= 'Z'
	}
	group := func(name string) string {
		if n, err := strconv.Atoi(name); err == nil {
			if n < len(f.groups) {
				return f.groups[n].text
			}
			return ""
		}
		if named && name == "x" && len(f.groups) > 1 {
			return f.groups[1].text
		}
		return ""
	}
	out := ""
	for i := 0; i < len(tpl); {
		if tpl[i] != '$' {
			out += tpl[i : i+1]
			i++
			continue
		}
		switch {
		case c41Has(tpl, i, "$$"):
			out += "$"
			i += 2
		case c41Has(tpl, i, "${"):
			j := i + 2
			for j < len(tpl) && tpl[j] != '}' {
				j++
			}
			out += group(tpl[i+2 : j])
			i = j + 1
		default:
			j := i + 1
			for j < len(tpl) && isName(tpl[j]) {
				j++
			}
			out += group(tpl[i+1 : j])
			i = j
		}
	}
	return out
}

// ---------------------------------------------------------------------------
// The elvish program and its lock-step checker.

// c41Mark is put on the value output after every operation to delimit the
// (variable number of) values it output.
type c41Mark struct{}

var c41M = &c41Mark{}

type c41Viol struct {
	idx, seq int
	key, msg string
}

// c41X is the state of checking the output of one evaluation.
type c41X struct {
	w      *c41Worker
	s, t   string
	tInUse bool
	code   string
	// regex family: what re:find output for the current pattern
	pat    *c41Pattern
	found  []c41Found
	foundK bool
}

type c41Step struct {
	name string
	code string
	chk  func(x *c41X, g []any) string // returns the class tag
}

type c41Section struct {
	head  string // "" or an elvish loop head ending in "{"; the body binds $t
	iters []string
	steps []c41Step
}

type c41Worker struct {
	ev        *eval.Evaler
	ch        chan any
	s         string // bound to $s
	l         *vk.Local
	idx, seq  int
	viols     []c41Viol
	notJudged map[string]int64
	sample    []string
}

func (x *c41X) invalid() bool {
	return !c41Valid(x.s) || x.tInUse && !c41Valid(x.t)
}

func (x *c41X) where() string {
	if x.tInUse {
		return fmt.Sprintf("%s with s=%q t=%q", x.code, x.s, x.t)
	}
	return fmt.Sprintf("%s with s=%q", x.code, x.s)
}

// violate records a violation of one law; the key is the law, qualified when
// an input is not valid UTF-8 (a different root cause as far as the harness can
// tell).
func (x *c41X) violate(law, detail string) {
	key := law
	if x.invalid() {
		key += ":invalid-utf8"
	}
	x.w.seq++
	x.w.viols = append(x.w.viols, c41Viol{x.w.idx, x.w.seq, key, x.where() + ": " + detail})
}

func (x *c41X) skip(what string) string {
	x.w.notJudged[what]++
	return "not-judged"
}

func c41Repr(g []any) string {
	out := "["
	for i, v := range g {
		if i > 0 {
			out += " "
		}
		switch v := v.(type) {
		case string:
			out += strconv.QuoteToASCII(v)
		case error:
			out += "<exception: " + v.Error() + ">"
		default:
			out += vals.ReprPlain(v)
		}
	}
	return out + "]"
}

func c41Same(g, want []any) bool {
	if len(g) != len(want) {
		return false
	}
	for i := range g {
		if g[i] != want[i] {
			return false
		}
	}
	return true
}

func c41HasErr(g []any) bool {
	for _, v := range g {
		if _, ok := v.(error); ok {
			return true
		}
	}
	return false
}

// want compares the output of an operation with the expected values.
func (x *c41X) want(law string, g []any, want ...any) bool {
	if c41Same(g, want) {
		return true
	}
	if c41HasErr(g) {
		x.violate("exception:"+law, fmt.Sprintf("threw, output %s, want %s", c41Repr(g), c41Repr(want)))
	} else {
		x.violate(law, fmt.Sprintf("output %s, want %s", c41Repr(g), c41Repr(want)))
	}
	return false
}

func c41Tag(v any) string {
	switch v := v.(type) {
	case bool:
		if v {
			return "true"
		}
		return "false"
	case int:
		switch {
		case v < 0:
			return "neg"
		case v == 0:
			return "0"
		case v == 1:
			return "1"
		}
		return "many"
	}
	return ""
}

func c41N(n int) string {
	if n > 4 {
		return "5+"
	}
	return strconv.Itoa(n)
}

func c41Simple(name, code string, ref func(x *c41X) []any, tag func(x *c41X, want []any) string) c41Step {
	return c41Step{name, code, func(x *c41X, g []any) string {
		want := ref(x)
		x.want(name, g, want...)
		if tag != nil {
			return tag(x, want)
		}
		if len(want) == 1 {
			return c41Tag(want[0])
		}
		return "n=" + c41N(len(want))
	}}
}

func c41One(v any) []any { return []any{v} }

func c41ChangedTag(x *c41X, want []any) string {
	if len(want) == 1 && want[0] == x.s {
		return "unchanged"
	}
	return "changed"
}

func c41UnarySteps() []c41Step {
	caseStep := func(name string, f func(rune) rune) c41Step {
		return c41Step{name, name + " $s", func(x *c41X, g []any) string {
			// Documented: all Unicode letters mapped to their upper / lower /
			// title case. A string is a sequence of bytes (language.md); bytes
			// that are not valid UTF-8 are not letters and stay. The three
			// conversions share one violation key on such input (one root cause
			// as far as the harness can tell).
			// The Unicode definition of case mapping says nothing about bytes that
			// are not valid UTF-8 (the implementation follows Go and replaces them
			// with U+FFFD): not judged on such input, only counted.
			if !c41Valid(x.s) {
				return x.skip("case conversion of a string that is not valid UTF-8")
			}
			x.want(name, g, c41MapCase(f, x.s))
			if c41MapCase(f, x.s) == x.s {
				return "unchanged"
			}
			return "changed"
		}}
	}
	steps := []c41Step{
		caseStep("str:to-upper", unicode.ToUpper),
		caseStep("str:to-lower", unicode.ToLower),
		caseStep("str:to-title", unicode.ToTitle),
		{"str:title", "str:title $s", func(x *c41X, g []any) string {
			// "Letters that begin words" is not defined precisely enough to
			// predict the output; judged: only the case of letters changes, and a
			// letter at the very start of the string is in title case.
			if !c41Valid(x.s) {
				return x.skip("str:title on invalid UTF-8")
			}
			if len(g) != 1 || c41HasErr(g) {
				x.want("str:title", g, "<one string>")
				return "bad"
			}
			got, _ := g[0].(string)
			if c41MapCase(unicode.ToLower, got) != c41MapCase(unicode.ToLower, x.s) {
				x.violate("str:title", fmt.Sprintf("output %q differs from the input in more than letter case", got))
			}
			if pcs := c41Decode(x.s); len(pcs) > 0 && unicode.IsLetter(pcs[0].r) {
				if gp := c41Decode(got); len(gp) == 0 || gp[0].r != unicode.ToTitle(pcs[0].r) {
					x.violate("str:title", fmt.Sprintf("output %q does not start with the title case of the first letter", got))
				}
				return "letter-first"
			}
			return "other-first"
		}},
		c41Simple("str:trim-space", "str:trim-space $s", func(x *c41X) []any { return c41One(c41TrimSpace(x.s)) }, c41ChangedTag),
		c41Simple("str:fields", "str:fields $s", func(x *c41X) []any { return c41Fields(x.s, c41IsSpace) }, nil),
		{"str:to-codepoints", "str:to-codepoints $s", func(x *c41X, g []any) string {
			if !c41Valid(x.s) {
				return x.skip("str:to-codepoints on invalid UTF-8")
			}
			want := []any{}
			for _, pc := range c41Decode(x.s) {
				want = append(want, "0x"+strconv.FormatInt(int64(pc.r), 16))
			}
			x.want("str:to-codepoints", g, want...)
			return "n=" + c41N(len(want))
		}},
		{"codepoints-roundtrip", "str:from-codepoints (str:to-codepoints $s)", func(x *c41X, g []any) string {
			if !c41Valid(x.s) {
				return x.skip("codepoints round trip on invalid UTF-8")
			}
			x.want("codepoints-roundtrip", g, x.s)
			return "n=" + c41N(len(c41Decode(x.s)))
		}},
		c41Simple("str:to-utf8-bytes", "str:to-utf8-bytes $s", func(x *c41X) []any {
			want := []any{}
			for i := 0; i < len(x.s); i++ {
				want = append(want, "0x"+strconv.FormatInt(int64(x.s[i]), 16))
			}
			return want
		}, nil),
		{"utf8-bytes-roundtrip", "str:from-utf8-bytes (str:to-utf8-bytes $s)", func(x *c41X, g []any) string {
			if !c41Valid(x.s) {
				// from-utf8-bytes is not documented for byte sequences that are
				// not UTF-8; it may refuse, but it must not output another string.
				if len(g) == 1 && c41HasErr(g) {
					return x.skip("str:from-utf8-bytes refusing invalid UTF-8")
				}
			}
			x.want("utf8-bytes-roundtrip", g, x.s)
			return "n=" + c41N(len(x.s))
		}},
		c41Simple("re:quote", "re:quote $s", func(x *c41X) []any { return c41One(c41Quote(x.s)) }, c41ChangedTag),
		c41Simple("re:awk", "re:awk {|line @f| put $line $@f } [$s]", func(x *c41X) []any {
			// documented equivalence: fields = re:split '[ \t]+' (str:trim $line " \t");
			// the separator cannot match the empty string, and the trimmed line
			// neither starts nor ends with a separator.
			tr := c41Trim(x.s, " \t", true, true)
			want := []any{x.s}
			if tr == "" {
				return append(want, "")
			}
			return append(want, c41Fields(tr, func(pc c41PC) bool { return pc.ok && (pc.r == ' ' || pc.r == '\t') })...)
		}, nil),
	}
	for n := 0; n <= 3; n++ {
		n := n
		steps = append(steps, c41Simple("str:repeat", fmt.Sprintf("str:repeat $s %d", n), func(x *c41X) []any {
			out := ""
			for i := 0; i < n; i++ {
				out += x.s
			}
			return c41One(out)
		}, func(*c41X, []any) string { return strconv.Itoa(n) }))
	}
	return steps
}

var c41Maxes = []int{-1, 0, 1, 2, 3}

// c41SplitSteps: str:split / str:join / str:replace with &max for a fixed set
// of separators.
func c41SplitSteps() []c41Step {
	var steps []c41Step
	seps := []string{",", "ab", "", "é", "\xff", "aa", "a"}
	repls := []string{"", "X", ",ab"}
	for _, sep := range seps {
		for _, max := range c41Maxes {
			sep, max := sep, max
			q := parse.Quote(sep)
			tag := func(x *c41X, want []any) string { return fmt.Sprintf("sep=%q/max=%d/n=%s", sep, max, c41N(len(want))) }
			steps = append(steps,
				c41Simple("str:split", fmt.Sprintf("str:split &max=%d %s $s", max, q), func(x *c41X) []any { return c41Split(x.s, sep, max) }, tag),
				c41Step{"split-join-roundtrip", fmt.Sprintf("str:split &max=%d %s $s | str:join %s", max, q, q), func(x *c41X, g []any) string {
					if max == 0 {
						// no results to join
						x.want("split-join-roundtrip", g, "")
						return "max=0"
					}
					x.want("split-join-roundtrip", g, x.s)
					return fmt.Sprintf("sep=%q/max=%d", sep, max)
				}})
			for _, r := range repls {
				r := r
				steps = append(steps, c41Step{"str:replace", fmt.Sprintf("str:replace &max=%d %s %s $s", max, q, parse.Quote(r)), func(x *c41X, g []any) string {
					if sep == "" {
						return x.skip("str:replace with an empty old string")
					}
					want := c41Replace(x.s, sep, r, max)
					x.want("str:replace", g, want)
					// the law relating it to split and join
					n := max
					if n >= 0 {
						n++
					}
					if j := c41Join(r, c41Split(x.s, sep, n)); j != want {
						panic("c41 reference inconsistency: replace vs join(split)")
					}
					if want == x.s {
						return "unchanged"
					}
					return fmt.Sprintf("sep=%q/max=%d/r=%q", sep, max, r)
				}})
			}
		}
	}
	return steps
}

// c41PairSteps: operations on ($s, $t) for every enumerated t; $q is (re:quote $t).
func c41PairSteps() []c41Step {
	b := func(v bool) []any { return c41One(v) }
	return []c41Step{
		c41Simple("str:compare", "str:compare $s $t", func(x *c41X) []any { return c41One(c41Compare(x.s, x.t)) }, nil),
		c41Simple("str:contains", "str:contains $s $t", func(x *c41X) []any { return b(c41Index(x.s, x.t) >= 0) }, nil),
		c41Simple("str:contains-any", "str:contains-any $s $t", func(x *c41X) []any {
			set := c41Decode(x.t)
			for _, pc := range c41Decode(x.s) {
				if c41InSet(pc, set) {
					return b(true)
				}
			}
			return b(false)
		}, nil),
		c41Simple("str:count", "str:count $s $t", func(x *c41X) []any {
			if x.t == "" {
				return c41One(1 + len(c41Decode(x.s)))
			}
			return c41One(len(c41Occ(x.s, x.t)))
		}, nil),
		c41Simple("str:equal-fold", "str:equal-fold $s $t", func(x *c41X) []any { return b(c41EqualFold(x.s, x.t)) }, nil),
		c41Simple("str:has-prefix", "str:has-prefix $s $t", func(x *c41X) []any { return b(c41Has(x.s, 0, x.t)) }, nil),
		c41Simple("str:has-suffix", "str:has-suffix $s $t", func(x *c41X) []any {
			return b(len(x.t) <= len(x.s) && x.s[len(x.s)-len(x.t):] == x.t)
		}, nil),
		c41Simple("str:index", "str:index $s $t", func(x *c41X) []any { return c41One(c41Index(x.s, x.t)) }, nil),
		c41Simple("str:index-any", "str:index-any $s $t", func(x *c41X) []any {
			set, off := c41Decode(x.t), 0
			for _, pc := range c41Decode(x.s) {
				if c41InSet(pc, set) {
					return c41One(off)
				}
				off += len(pc.b)
			}
			return c41One(-1)
		}, nil),
		c41Simple("str:last-index", "str:last-index $s $t", func(x *c41X) []any { return c41One(c41LastIndex(x.s, x.t)) }, nil),
		c41Simple("str:trim", "str:trim $s $t", func(x *c41X) []any { return c41One(c41Trim(x.s, x.t, true, true)) }, c41ChangedTag),
		c41Simple("str:trim-left", "str:trim-left $s $t", func(x *c41X) []any { return c41One(c41Trim(x.s, x.t, true, false)) }, c41ChangedTag),
		c41Simple("str:trim-right", "str:trim-right $s $t", func(x *c41X) []any { return c41One(c41Trim(x.s, x.t, false, true)) }, c41ChangedTag),
		c41Simple("str:trim-prefix", "str:trim-prefix $s $t", func(x *c41X) []any {
			if c41Has(x.s, 0, x.t) {
				return c41One(x.s[len(x.t):])
			}
			return c41One(x.s)
		}, c41ChangedTag),
		c41Simple("str:trim-suffix", "str:trim-suffix $s $t", func(x *c41X) []any {
			if len(x.t) <= len(x.s) && x.s[len(x.s)-len(x.t):] == x.t {
				return c41One(x.s[:len(x.s)-len(x.t)])
			}
			return c41One(x.s)
		}, c41ChangedTag),
		c41Simple("str:split", "str:split $t $s", func(x *c41X) []any { return c41Split(x.s, x.t, -1) }, nil),
		c41Simple("split-join-roundtrip", "str:split $t $s | str:join $t", func(x *c41X) []any { return c41One(x.s) }, nil),
		c41Simple("str:join", "str:join $t [$s $t $s]", func(x *c41X) []any { return c41One(x.s + x.t + x.t + x.t + x.s) }, nil),
		c41Simple("str:join", "str:join $t [$s]", func(x *c41X) []any { return c41One(x.s) }, func(*c41X, []any) string { return "single" }),
		c41Simple("str:join", "str:join $t []", func(x *c41X) []any { return c41One("") }, func(*c41X, []any) string { return "empty" }),
		{"str:replace", "str:replace $t X $s", func(x *c41X, g []any) string {
			if x.t == "" {
				return x.skip("str:replace with an empty old string")
			}
			want := c41Replace(x.s, x.t, "X", -1)
			x.want("str:replace", g, want)
			if want == x.s {
				return "unchanged"
			}
			return "changed"
		}},
		// A quoted pattern matches exactly the literal text: unanchored, it is
		// found exactly where the literal occurs.
		{"quote-match", "re:match $q $s", func(x *c41X, g []any) string {
			if !c41Valid(x.t) && len(g) == 1 && c41HasErr(g) {
				return x.skip("quoted pattern that is not valid UTF-8 is refused by the regexp engine")
			}
			x.want("quote-literal", g, c41Index(x.s, x.t) >= 0)
			return c41Tag(c41Index(x.s, x.t) >= 0)
		}},
		{"quote-find", "re:find $q $s", func(x *c41X, g []any) string {
			if !c41Valid(x.t) && len(g) == 1 && c41HasErr(g) {
				return x.skip("quoted pattern that is not valid UTF-8 is refused by the regexp engine")
			}
			if x.t == "" {
				return x.skip("occurrences of the empty literal")
			}
			occ := c41Occ(x.s, x.t)
			var got []int
			for _, v := range g {
				f, err := c41ReadFound(v, false)
				if err != nil || f.end != f.start+len(x.t) || f.text != x.t {
					x.violate("quote-literal", fmt.Sprintf("re:find output %s, want the occurrences of the literal at %v", c41Repr(g), occ))
					return "bad"
				}
				got = append(got, f.start)
			}
			if fmt.Sprint(got) != fmt.Sprint(occ) {
				x.violate("quote-literal", fmt.Sprintf("re:find found the quoted literal at %v, it occurs at %v", got, occ))
			}
			return "n=" + c41N(len(occ))
		}},
		{"quote-split", "re:split $q $s", func(x *c41X, g []any) string {
			if !c41Valid(x.t) && len(g) == 1 && c41HasErr(g) {
				return x.skip("quoted pattern that is not valid UTF-8 is refused by the regexp engine")
			}
			if x.t == "" {
				return x.skip("re:split on a pattern matching the empty string")
			}
			// Go regexp doc: for an expression without metacharacters Split is
			// equivalent to strings.SplitN.
			want := c41Split(x.s, x.t, -1)
			x.want("quote-literal", g, want...)
			return "n=" + c41N(len(want))
		}},
		{"quote-replace", "re:replace &literal $q X $s", func(x *c41X, g []any) string {
			if !c41Valid(x.t) && len(g) == 1 && c41HasErr(g) {
				return x.skip("quoted pattern that is not valid UTF-8 is refused by the regexp engine")
			}
			if x.t == "" {
				return x.skip("occurrences of the empty literal")
			}
			want := c41Replace(x.s, x.t, "X", -1)
			x.want("quote-literal", g, want)
			if want == x.s {
				return "unchanged"
			}
			return "changed"
		}},
	}
}

// c41AnchorSteps: ^quote$ matches a string iff it is the quoted string, in both
// directions over the cross product of enumerated strings.
func c41AnchorSteps() []c41Step {
	return []c41Step{
		{"quote-anchored", "re:match $aq $s", func(x *c41X, g []any) string {
			if !c41Valid(x.t) && len(g) == 1 && c41HasErr(g) {
				return x.skip("quoted pattern that is not valid UTF-8 is refused by the regexp engine")
			}
			x.want("quote-literal-anchored", g, x.s == x.t)
			return c41Tag(x.s == x.t)
		}},
		{"quote-anchored-rev", "re:match $sq $t", func(x *c41X, g []any) string {
			if !c41Valid(x.s) && len(g) == 1 && c41HasErr(g) {
				return x.skip("quoted pattern that is not valid UTF-8 is refused by the regexp engine")
			}
			x.want("quote-literal-anchored", g, x.s == x.t)
			return c41Tag(x.s == x.t)
		}},
	}
}

var c41Literals = []string{"", "X", "$0"}
var c41Templates = []string{"[$0]", "<${1}>", "$1x|", "$$0", "${1}${0}", "${x}_"}

func (x *c41X) segments(seps []c41Found) []any {
	out := []any{}
	pos := 0
	for _, m := range seps {
		out = append(out, x.s[pos:m.start])
		pos = m.end
	}
	return append(out, x.s[pos:])
}

func (x *c41X) splice(repl func(c41Found) string) string {
	out, pos := "", 0
	for _, m := range x.found {
		out += x.s[pos:m.start] + repl(m)
		pos = m.end
	}
	return out + x.s[pos:]
}

// c41RegexSteps: for every pattern of the family, re:find is compared with the
// reference matcher, and re:match, re:find &max, re:replace (literal, template,
// function) and re:split are compared with what re:find reported.
func c41RegexSteps() []c41Step {
	var steps []c41Step
	for i := range c41Patterns {
		p := &c41Patterns[i]
		opts := ""
		if p.posix {
			opts += "&posix "
		}
		if p.longest {
			opts += "&longest "
		}
		pq := parse.Quote(p.pat)
		pre := func(x *c41X, g []any, law string) bool {
			if c41HasErr(g) {
				x.violate("exception:"+law, "threw, output "+c41Repr(g))
				return false
			}
			return x.foundK
		}
		steps = append(steps, c41Step{"re:find[" + p.name + "]", "re:find " + opts + pq + " $s", func(x *c41X, g []any) string {
			x.pat, x.found, x.foundK = p, nil, false
			if c41HasErr(g) {
				x.violate("exception:re:find", "threw, output "+c41Repr(g))
				return "exception"
			}
			want := c41FindAll(x.s, p.at)
			prevEnd := 0
			empties := 0
			for k, v := range g {
				f, err := c41ReadFound(v, true)
				if err != nil {
					x.violate("re:find-structure", fmt.Sprintf("match %d is not a well-formed match value: %v", k, err))
					return "bad"
				}
				bad := ""
				switch {
				case f.start < 0 || f.end < f.start || f.end > len(x.s):
					bad = "range outside the source"
				case f.text != x.s[f.start:f.end]:
					bad = "text is not the source between start and end"
				case f.start < prevEnd:
					bad = "overlaps the preceding match"
				case len(f.groups) != p.groups+1:
					bad = fmt.Sprintf("%d groups, want %d", len(f.groups), p.groups+1)
				case f.groups[0].start != f.start || f.groups[0].end != f.end || f.groups[0].text != f.text:
					bad = "group 0 is not the whole match"
				}
				for _, sub := range f.groups {
					if bad != "" {
						break
					}
					if sub.start == -1 && sub.end == -1 && sub.text == "" {
						continue
					}
					if sub.start < f.start || sub.end < sub.start || sub.end > f.end || sub.text != x.s[sub.start:sub.end] {
						bad = "a group is not a range inside the match with the corresponding text"
					}
				}
				if bad != "" {
					x.violate("re:find-structure", fmt.Sprintf("match %d of %s: %s", k, c41Repr(g), bad))
					return "bad"
				}
				if f.start == f.end {
					empties++
				}
				prevEnd = f.end
				x.found = append(x.found, f)
			}
			x.foundK = true
			ok := len(want) == len(x.found)
			for k := 0; ok && k < len(want); k++ {
				f, w := x.found[k], want[k]
				ok = f.start == w.start && f.end == w.end && (p.groups == 0 || f.groups[1].start == w.g1s && f.groups[1].end == w.g1e)
			}
			if !ok {
				desc := ""
				for _, w := range want {
					desc += fmt.Sprintf(" [%d,%d)", w.start, w.end)
					if p.groups > 0 {
						desc += fmt.Sprintf("{1:[%d,%d)}", w.g1s, w.g1e)
					}
				}
				x.violate("re:find-matches", fmt.Sprintf("output %s, want matches at%s", c41Repr(g), desc))
			}
			return fmt.Sprintf("n=%s/empty=%s", c41N(len(want)), c41N(empties))
		}})
		for _, max := range []int{0, 1, 2} {
			max := max
			steps = append(steps, c41Step{"re:find&max[" + p.name + "]", fmt.Sprintf("re:find %s&max=%d %s $s", opts, max, pq), func(x *c41X, g []any) string {
				if !pre(x, g, "re:find&max") {
					return "skipped"
				}
				n := max
				if n > len(x.found) {
					n = len(x.found)
				}
				ok := len(g) == n
				for k := 0; ok && k < n; k++ {
					f, err := c41ReadFound(g[k], false)
					ok = err == nil && f.start == x.found[k].start && f.end == x.found[k].end && f.text == x.found[k].text
				}
				if !ok {
					x.violate("re:find-max", fmt.Sprintf("output %s, want the first %d of the %d matches of re:find without &max", c41Repr(g), n, len(x.found)))
				}
				return fmt.Sprintf("max=%d/n=%d", max, n)
			}})
		}
		mopts := ""
		if p.posix {
			mopts = "&posix "
		}
		steps = append(steps, c41Step{"re:match[" + p.name + "]", "re:match " + mopts + pq + " $s", func(x *c41X, g []any) string {
			if !pre(x, g, "re:match") {
				return "skipped"
			}
			x.want("re:match-vs-find", g, len(x.found) > 0)
			return c41Tag(len(x.found) > 0)
		}})
		for _, lit := range c41Literals {
			lit := lit
			steps = append(steps, c41Step{"re:replace&literal[" + p.name + "]", fmt.Sprintf("re:replace %s&literal %s %s $s", opts, pq, parse.Quote(lit)), func(x *c41X, g []any) string {
				if !pre(x, g, "re:replace&literal") {
					return "skipped"
				}
				x.want("re:replace-literal-vs-find", g, x.splice(func(c41Found) string { return lit }))
				return fmt.Sprintf("lit=%q/n=%s", lit, c41N(len(x.found)))
			}})
		}
		for _, tpl := range c41Templates {
			tpl := tpl
			steps = append(steps, c41Step{"re:replace-template[" + p.name + "]", fmt.Sprintf("re:replace %s%s %s $s", opts, pq, parse.Quote(tpl)), func(x *c41X, g []any) string {
				if !pre(x, g, "re:replace-template") {
					return "skipped"
				}
				x.want("re:replace-template-vs-find", g, x.splice(func(f c41Found) string { return c41Expand(tpl, f, p.named) }))
				return fmt.Sprintf("tpl=%q/n=%s", tpl, c41N(len(x.found)))
			}})
		}
		steps = append(steps, c41Step{"re:replace-fn[" + p.name + "]", fmt.Sprintf("re:replace %s%s {|m| put '<'$m'>' } $s", opts, pq), func(x *c41X, g []any) string {
			if !pre(x, g, "re:replace-fn") {
				return "skipped"
			}
			x.want("re:replace-fn-vs-find", g, x.splice(func(f c41Found) string { return "<" + f.text + ">" }))
			return "n=" + c41N(len(x.found))
		}})
		for _, max := range c41Maxes {
			max := max
			steps = append(steps, c41Step{"re:split[" + p.name + "]", fmt.Sprintf("re:split %s&max=%d %s $s", opts, max, pq), func(x *c41X, g []any) string {
				if !pre(x, g, "re:split") {
					return "skipped"
				}
				if max == 0 {
					x.want("re:split-vs-find", g)
					return "max=0"
				}
				empty := false
				for _, f := range x.found {
					empty = empty || f.start == f.end
				}
				if !empty {
					// the pieces are the text between the separators reported by
					// re:find; with &max the last piece is the unsplit rest
					seps := x.found
					if max > 0 && len(seps) > max-1 {
						seps = seps[:max-1]
					}
					want := x.segments(seps)
					x.want("re:split-vs-find", g, want...)
					return fmt.Sprintf("strict/max=%d/n=%s", max, c41N(len(want)))
				}
				// Empty matches: which of them separate (at the ends of the
				// source in particular) is not documented. Judged: the pieces are
				// strings, at most max of them, they occur in the source in order,
				// and without &max they concatenate to the source minus all
				// matched text.
				pos := 0
				for _, v := range g {
					piece, ok := v.(string)
					i := -1
					if ok {
						i = c41Index(x.s[pos:], piece)
					}
					if i < 0 {
						x.violate("re:split-vs-find", fmt.Sprintf("output %s: the pieces are not consecutive parts of the source", c41Repr(g)))
						return "bad"
					}
					pos += i + len(piece)
				}
				if max > 0 && len(g) > max {
					x.violate("re:split-vs-find", fmt.Sprintf("output %s has more than %d pieces", c41Repr(g), max))
				}
				if max < 0 {
					if want := x.splice(func(c41Found) string { return "" }); c41Join("", g) != want {
						x.violate("re:split-vs-find", fmt.Sprintf("output %s concatenates to %q, the source without the matched text is %q", c41Repr(g), c41Join("", g), want))
					}
				}
				x.w.notJudged["exact pieces of re:split when the pattern matches the empty string"]++
				return fmt.Sprintf("weak/max=%d/n=%s", max, c41N(len(g)))
			}})
		}
	}
	return steps
}

func c41Program(secs []c41Section) string {
	out := ""
	for _, sec := range secs {
		if sec.head != "" {
			out += sec.head + "\n"
		}
		for _, st := range sec.steps {
			out += "try { " + st.code + " } catch e { put $e[reason] }; put $M\n"
		}
		if sec.head != "" {
			out += "}\n"
		}
	}
	return out
}

func c41Strings(alpha []string, n int) []string {
	out := []string{""}
	for from := 0; n > 0; n-- {
		to := len(out)
		for _, s := range out[from:to] {
			for _, a := range alpha {
				out = append(out, s+a)
			}
		}
		from = to
	}
	return out
}

// c41Prog is one elvish program, compiled once per worker as a function.
type c41Prog struct {
	fn   string
	secs []c41Section
}

func c41NewWorker(l *vk.Local, ts, ts3, as []string, progs []c41Prog, chanCap int) *c41Worker {
	w := &c41Worker{ev: eval.NewEvaler(), l: l, notJudged: map[string]int64{}, ch: make(chan any, chanCap)}
	w.ev.AddModule("str", str.Ns)
	w.ev.AddModule("re", re.Ns)
	w.ev.ExtendGlobal(eval.BuildNs().
		AddVar("s", vars.FromPtr(&w.s)).
		AddVar("M", vars.NewReadOnly(c41M)).
		AddVar("ts", vars.NewReadOnly(vals.MakeListSlice(ts))).
		AddVar("ts3", vars.NewReadOnly(vals.MakeListSlice(ts3))).
		AddVar("as", vars.NewReadOnly(vals.MakeListSlice(as))).Ns())
	// $tpairs: [t (re:quote t)]; $apairs: [t '^'(re:quote t)'$'] — computed by the real re:quote.
	// Each program is parsed and compiled once, as the body of a function that
	// reads the global $s.
	setup := "use str; use re\n" +
		"var tpairs = [(for t $ts { put [$t (re:quote $t)] })]\n" +
		"var tpairs3 = [(for t $ts3 { put [$t (re:quote $t)] })]\n" +
		"var apairs = [(for t $as { put [$t '^'(re:quote $t)'$'] })]\n"
	for _, p := range progs {
		setup += "fn " + p.fn + " {\n" + c41Program(p.secs) + "}\n"
	}
	if _, err := w.eval(setup); err != "" {
		panic("c41 setup: " + err)
	}
	return w
}

// eval evaluates one program with a value-capturing stdout port and returns
// the values; err describes an escaped exception or a panic.
func (w *c41Worker) eval(code string) (out []any, err string) {
	// The stdout port is a channel large enough for all the values of one
	// evaluation (16 per operation: almost all operations output at most 6
	// values and a mark), drained after Eval has returned, so that no reader
	// goroutine has to be woken up for every value. A full channel would block
	// the evaluation, which the vk watchdog reports as non-termination.
	port := &eval.Port{File: eval.DevNull, Chan: w.ch}
	var e error
	p := vk.Try(func() {
		e = w.ev.Eval(parse.Source{Name: "[c41]", Code: code}, eval.EvalCfg{Ports: []*eval.Port{eval.DummyInputPort, port, eval.DummyOutputPort}})
	})
	out = make([]any, 0, len(w.ch))
	for n := len(w.ch); n > 0; n-- {
		out = append(out, <-w.ch)
	}
	if p != "" {
		return out, p
	}
	if e != nil {
		return out, "exception: " + e.Error()
	}
	return out, ""
}

// run evaluates prog for the string s and checks the output in lock step.
func (w *c41Worker) run(idx int, s string, prog c41Prog) {
	secs := prog.secs
	w.idx, w.s = idx, s
	out, err := w.eval(prog.fn)
	x := &c41X{w: w, s: s}
	if err != "" {
		x.code = "the whole program"
		if len(err) > 6 && err[:6] == "panic:" {
			x.w.seq++
			x.w.viols = append(x.w.viols, c41Viol{idx, x.w.seq, "panic:" + vk.PanicSite(err), fmt.Sprintf("s=%q: %s", s, err)})
		} else {
			x.violate("eval-error", err)
		}
		w.l.Case("eval-error")
		return
	}
	pos := 0
	next := func() ([]any, bool) {
		for i := pos; i < len(out); i++ {
			if out[i] == any(c41M) {
				g := out[pos:i]
				pos = i + 1
				return g, true
			}
		}
		return nil, false
	}
	for _, sec := range secs {
		iters := sec.iters
		if sec.head == "" {
			iters = []string{""}
		}
		for _, t := range iters {
			x.t, x.tInUse = t, sec.head != ""
			for i := range sec.steps {
				st := &sec.steps[i]
				g, ok := next()
				if !ok {
					panic(fmt.Sprintf("c41: output of the program for s=%q ended before step %s", s, st.code))
				}
				x.code = st.code
				tag := st.chk(x, g)
				w.l.Case(st.name + "/" + tag)
			}
		}
	}
	if pos != len(out) {
		panic(fmt.Sprintf("c41: %d extra output values for s=%q", len(out)-pos, s))
	}
}

// c41QuoteFamily: re:quote on every string of <= 2 printable ASCII characters
// (all regexp metacharacters), in one evaluation.
func c41QuoteFamily(c *vk.Ctx, w *c41Worker) {
	var alpha []string
	for ch := 0x20; ch < 0x7f; ch++ {
		alpha = append(alpha, string(rune(ch)))
	}
	alpha = append(alpha, "\n", "\t")
	xs := c41Strings(alpha, 2)
	w.ev.ExtendGlobal(eval.BuildNs().AddVar("xs", vars.NewReadOnly(vals.MakeListSlice(xs))).Ns())
	out, err := w.eval("for x $xs { var q = (re:quote $x); put $q; re:match '^'$q'$' $x; re:match '^'$q'$' $x$x; put [(re:find $q a$x'b'$x)] }")
	if err != "" || len(out) != 4*len(xs) {
		c.Violate("eval-error", fmt.Sprintf("re:quote family: %s (%d values for %d strings)", err, len(out), len(xs)), nil)
		return
	}
	for i, xstr := range xs {
		g := out[4*i : 4*i+4]
		x := &c41X{w: w, s: xstr, code: "re:quote $x / re:match '^'$q'$' $x / re:match '^'$q'$' $x$x / re:find $q a$x'b'$x (x is s)"}
		w.idx = -1
		if g[0] != any(c41Quote(xstr)) {
			x.violate("re:quote", fmt.Sprintf("output %s, want %q", c41Repr(g[:1]), c41Quote(xstr)))
		}
		if g[1] != any(true) || g[2] != any(xstr == "") {
			x.violate("quote-literal-anchored", fmt.Sprintf("anchored quoted pattern matches x: %v, x x: %v", g[1], g[2]))
		}
		if xstr != "" {
			src := "a" + xstr + "b" + xstr
			occ := c41Occ(src, xstr)
			var got []int
			vals.Iterate(g[3], func(v any) bool {
				f, err := c41ReadFound(v, false)
				if err != nil || f.text != xstr {
					got = append(got, -1)
				} else {
					got = append(got, f.start)
				}
				return true
			})
			if fmt.Sprint(got) != fmt.Sprint(occ) {
				x.violate("quote-literal", fmt.Sprintf("re:find finds the quoted literal in %q at %v, it occurs at %v", src, got, occ))
			}
		}
		class := "plain"
		if c41Quote(xstr) != xstr {
			class = "meta=" + strconv.Itoa(len(c41Quote(xstr))-len(xstr))
		}
		c.Case("quote-ascii/" + class)
	}
}

func c41Ops(secs []c41Section) int {
	n := 0
	for _, sec := range secs {
		if sec.head == "" {
			n += len(sec.steps)
		} else {
			n += len(sec.iters) * len(sec.steps)
		}
	}
	return n
}

func TestVerifC41(t *testing.T) {
	vk.Run(t, "C41", "exploration", func(c *vk.Ctx) {
		ns := vk.Pick(c, 3, 4) // length of $s
		ss := c41Strings(c41Alpha, ns)
		ts := c41Strings(c41Alpha, 2) // $t in the pair family
		as := c41Strings(c41Alpha, 3) // the other string in the anchored-quote cross product
		ts3 := as[len(ts):]           // thorough: $t of exactly 3 symbols, with s of <= 3 symbols
		main := c41Prog{"c41-run", []c41Section{
			{steps: c41UnarySteps()},
			{steps: c41SplitSteps()},
			{steps: c41RegexSteps()},
			{head: "for p $tpairs { var t = $p[0]; var q = $p[1]", iters: ts, steps: c41PairSteps()},
			{head: "var sq = '^'(re:quote $s)'$'\nfor p $apairs { var t = $p[0]; var aq = $p[1]", iters: as, steps: c41AnchorSteps()},
		}}
		extra := c41Prog{"c41-run3", []c41Section{
			{head: "for p $tpairs3 { var t = $p[0]; var q = $p[1]", iters: ts3, steps: c41PairSteps()},
		}}
		type job struct {
			s    string
			prog c41Prog
		}
		var jobs []job
		for _, s := range ss {
			jobs = append(jobs, job{s, main})
		}
		nExtra := 0
		if c.Thorough() {
			for _, s := range as {
				jobs = append(jobs, job{s, extra})
				nExtra++
			}
		}
		secs := main.secs
		c.Rule(fmt.Sprintf("every string s of <=%d symbols over %q, length-lexicographic; for each s one elvish program is evaluated by a real Evaler (modules str and re) that runs: %d unary operations (case, trim-space, fields, codepoints/utf8-bytes round trips, re:quote, re:awk, repeat); str:split / split|join / str:replace for 7 separators x &max in {-1,0,1,2,3} x 3 replacements; for %d regex pattern configurations re:find (all and &max 0..2), re:match, re:replace (3 literals, 6 templates, a function) and re:split (&max -1..3); %d binary operations with every string t of <=2 symbols (thorough: also every t of 3 symbols for s of <=3 symbols): compare, contains, count, index, prefix/suffix, trim, split, join, replace, and re:match/find/split/replace with (re:quote t); the anchored pattern ^quote$ in both directions against every string of <=3 symbols; plus re:quote on every string of <=2 printable ASCII characters. Every operation's output is one case; class = operation (with pattern / separator / max) and the shape of the expected result", ns, c41Alpha, len(secs[0].steps), len(c41Patterns), len(secs[3].steps)))
		c.Assume("reference definitions use unicode/utf8 decoding and the unicode case / space tables of the Go standard library as the Unicode definitions",
			"the regex family is judged against hand-written matchers for its "+strconv.Itoa(len(c41Patterns))+" patterns; replace / split / match / &max are judged against the positions re:find reported",
			"not judged (counted under not_judged): str:replace with an empty old string, str:title word boundaries, to-codepoints and from-utf8-bytes on invalid UTF-8, which empty matches separate in re:split, and quoted patterns that are not valid UTF-8 (Go's regexp refuses them; a clean exception is accepted)",
			"U+FFFD is not in the alphabet: Go's regexp and strings decode an invalid byte as U+FFFD, so the two are conflated there; this is outside the explored space")
		c.Set("strings_s", len(ss))
		c.Set("strings_t", len(ts))
		c.Set("strings_anchor", len(as))
		c.Set("operations_per_s", c41Ops(main.secs))
		c.Set("extra_pass_strings_s", nExtra)
		c.Set("extra_pass_operations_per_s", c41Ops(extra.secs))
		chanCap := 16 * c41Ops(main.secs)
		if n := 16 * c41Ops(extra.secs); n > chanCap {
			chanCap = n
		}
		progs := []c41Prog{main, extra}

		var mu sync.Mutex
		workers := map[*vk.Local]*c41Worker{}
		var all []*c41Worker
		get := func(l *vk.Local) *c41Worker {
			mu.Lock()
			defer mu.Unlock()
			w := workers[l]
			if w == nil {
				w = c41NewWorker(l, ts, ts3, as, progs, chanCap)
				c.Watch(l)
				workers[l] = w
				all = append(all, w)
			}
			return w
		}
		// the ASCII re:quote family first, on its own worker
		l0 := vk.NewLocal()
		w0 := c41NewWorker(l0, ts, ts3, as, progs, chanCap)
		all = append(all, w0)
		c41QuoteFamily(c, w0)

		c.Parallel(len(jobs), func(l *vk.Local, i int) {
			if c.TimeUp() {
				c.Capped("time budget reached")
				return
			}
			w := get(l)
			l.Begin(jobs[i].s)
			w.run(i, jobs[i].s, jobs[i].prog)
			l.End()
		})
		c.Merge(l0)

		var viols []c41Viol
		nj := map[string]int64{}
		for _, w := range all {
			viols = append(viols, w.viols...)
			for k, n := range w.notJudged {
				nj[k] += n
			}
		}
		sort.Slice(viols, func(i, j int) bool {
			if viols[i].idx != viols[j].idx {
				return viols[i].idx < viols[j].idx
			}
			return viols[i].seq < viols[j].seq
		})
		for _, v := range viols {
			c.Violate(v.key, v.msg, v.msg)
		}
		c.Set("not_judged", nj)
		for _, i := range []int{0, 1, 9, 100, 300, len(ss) - 1} {
			if i < len(ss) {
				c.Sample(ss[i])
			}
		}
	})
}
