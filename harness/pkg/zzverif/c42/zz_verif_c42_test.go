//go:build verif

// Package c42 checks property C42: redirections route bytes and values
// exactly as the language reference specifies.
//
// Every form "<command> <redirections>" over a small command alphabet and a
// redirection alphabet (all sequences up to a length bound) is evaluated by a
// real Evaler on pre-filled scratch files and compared with a reference model
// of the port table written from website/ref/language.md (section
// "Redirection") and POSIX open-file-description semantics for the files.
//
// Because some forms crash or never return, every case runs in a worker
// process (this test binary re-executed): the master hands one case at a time
// to a worker; a worker that dies reports a panic, a worker that does not
// answer while all its threads sleep and it uses no CPU for c42IdleSeconds is
// killed (after dumping its goroutines) and the case is reported as a hang.
package c42

import (
	"bufio"
	"bytes"
	"encoding/json"
	"fmt"
	"os"
	"os/exec"
	"path/filepath"
	"runtime"
	"sort"
	"strconv"
	"strings"
	"sync"
	"syscall"
	"testing"
	"time"

	"src.elv.sh/pkg/eval"
	"src.elv.sh/pkg/eval/errs"
	"src.elv.sh/pkg/eval/vals"
	"src.elv.sh/pkg/parse"
	"src.elv.sh/pkg/zzverif/vk"
)

// ---------------------------------------------------------------------------
// Alphabets
// ---------------------------------------------------------------------------

// c42Redir is one redirection, kept structurally; the source text is derived.
type c42Redir struct {
	dst  string // "" = omitted
	op   string // < > >> <>
	isFd bool   // &src form
	src  string
}

func (r c42Redir) text() string {
	s := r.dst + r.op
	if r.isFd {
		s += "&"
	}
	return s + r.src
}

// Full redirection alphabet. The first c42CoreN entries form the core alphabet
// used for the longest sequences.
var c42Redirs = []c42Redir{
	{"", ">", false, "f1"},
	{"", ">>", false, "f1"},
	{"", "<>", false, "f1"},
	{"2", ">", false, "f2"},
	{"2", ">", true, "1"},
	{"1", ">", true, "2"},
	{"", ">", true, "-"},
	{"3", ">", true, "1"},
	{"", ">", true, "3"},
	{"3", ">", true, "-"},
	{"", ">", false, "f2"},
	{"", "<", false, "f0"},
	// --- end of core ---
	{"3", ">", false, "f3"},
	{"5", ">", true, "7"},
	{"-1", ">", false, "f1"},
	{"", ">", true, "-2"},
	{"", ">", true, "-1"},
	{"", ">", true, "x"},
	{"x", ">", false, "f1"},
	{"", "<", true, "-"},
	{"", "<", true, "3"},
	{"3", "<", false, "f0"},
	{"", "<", false, "f9"},
	{"2", ">", true, "-"},
	{"stderr", ">>", false, "f2"},
	{"", ">", true, "stderr"},
	{"2", ">>", false, "f1"},
	{"1", "<", false, "f0"},
	{"0", ">", false, "f1"},
	// fds above 3: the port table becomes sparse (fd 5 open, 3 and 4 never opened)
	{"4", ">", false, "f1"},
	{"5", ">", false, "f1"},
	{"5", ">", true, "4"},
	{"6", ">", true, "1"},
	{"", ">", true, "4"},
	{"", ">", true, "5"},
	{"", "<", true, "4"},
	// duplicating a port onto itself
	{"", ">", true, "1"},
}

const c42CoreN = 12

const (
	c42Writer = iota
	c42EachPut
	c42EachEcho
	c42All
	c42Count
	c42Slurp
)

const (
	c42ActEcho = iota
	c42ActPrint
	c42ActPut
)

type c42Act struct {
	kind   int
	text   string
	redirs []c42Redir
}

type c42Cmd struct {
	src    string
	kind   int
	acts   []c42Act
	suffix string // source text after the redirections
	pipe   int    // c42PipeIn: the form is the last one of a pipeline; c42PipeOut: the first one
}

const (
	c42NoPipe = iota
	c42PipeIn
	c42PipeOut
)

const c42PipeBytes = "q\n"

var c42To2 = []c42Redir{{"", ">", true, "2"}}
var c42To3 = []c42Redir{{"", ">", true, "3"}}
var c42To4 = []c42Redir{{"", ">", true, "4"}}
var c42To5 = []c42Redir{{"", ">", true, "5"}}

var c42Cmds = []c42Cmd{
	{"echo x", c42Writer, []c42Act{{c42ActEcho, "x", nil}}, "", 0},
	{"print p", c42Writer, []c42Act{{c42ActPrint, "p", nil}}, "", 0},
	{"put v", c42Writer, []c42Act{{c42ActPut, "v", nil}}, "", 0},
	{"{ echo a; echo b >&2 }", c42Writer, []c42Act{{c42ActEcho, "a", nil}, {c42ActEcho, "b", c42To2}}, "", 0},
	{"{ put v; put w >&2 }", c42Writer, []c42Act{{c42ActPut, "v", nil}, {c42ActPut, "w", c42To2}}, "", 0},
	{"{ echo c >&3 }", c42Writer, []c42Act{{c42ActEcho, "c", c42To3}}, "", 0},
	{"each {|x| put $x }", c42EachPut, nil, "", 0},
	{"each {|x| echo $x }", c42EachEcho, nil, "", 0},
	{"all", c42All, nil, "", 0},
	{"count", c42Count, nil, "", 0},
	{"slurp", c42Slurp, nil, "", 0},
	// the redirected form inside a pipeline: as its last form (reading "q\n" from the pipe) ...
	{"echo q | all", c42All, nil, "", c42PipeIn},
	// ... and as its first form (writing into the pipe; `all` turns what arrives into values on stdout)
	{"echo q", c42Writer, []c42Act{{c42ActEcho, "q", nil}}, " | all", c42PipeOut},
	{"put r", c42Writer, []c42Act{{c42ActPut, "r", nil}}, " | all", c42PipeOut},
	// inner forms duplicating from fds 4 and 5 of the enclosing form, whose
	// redirections may or may not have opened them (and fd 3 below them)
	{"{ echo c >&4 }", c42Writer, []c42Act{{c42ActEcho, "c", c42To4}}, "", 0},
	{"{ echo c >&5 }", c42Writer, []c42Act{{c42ActEcho, "c", c42To5}}, "", 0},
}

// Initial scratch files ("" + absent flag). f3 and f9 do not exist.
var c42FileNames = []string{"f0", "f1", "f2", "f3", "f9"}
var c42InitFiles = map[string]string{"f0": "in0\nin1\n", "f1": "OLD1\n", "f2": "OLD2\n"}

const c42Missing = "\x00missing"
const c42StdinBytes = "si\n"
const c42StdinValue = "sv"

// ---------------------------------------------------------------------------
// Reference model of the port table (from the language reference)
// ---------------------------------------------------------------------------

// An open file description: offset and access mode are shared by all ports
// duplicated from the one that opened the file.
type c42Desc struct {
	name        string
	off         int
	app, rd, wr bool
}

const (
	c42Base = iota
	c42File
	c42Closed
)

type c42MPort struct {
	kind     int
	base     int      // c42Base: 0 stdin, 1 stdout, 2 stderr of the evaluation, 3 pipe from the previous form, 4 pipe to the next form
	desc     *c42Desc // c42File
	readMode bool     // c42File: opened by '<' (value channel never produces) or by > >> <> (value output raises)
	op       string
}

func (p *c42MPort) state() string {
	switch p.kind {
	case c42Base:
		if p.base >= 3 {
			return []string{"pipe-in", "pipe-out"}[p.base-3]
		}
		return "std" + strconv.Itoa(p.base)
	case c42Closed:
		return "closed"
	}
	if p.readMode {
		return "file-opened-by-<"
	}
	return "file-opened-by-" + p.op
}

// hangState is the coarser description used to classify non-terminating cases.
func (p *c42MPort) hangState() string {
	if p.kind == c42File && !p.readMode {
		return "file-opened-for-output"
	}
	return p.state()
}

// Choice points: places where the documentation allows more than one outcome.
const (
	c42ChClosedDupRaises   = 1 << iota // duplicating a closed port: exception, or a closed duplicate
	c42ChClosedWriteRaises             // bytes written to a closed port: exception, or dropped
	c42ChClosedReadRaises              // reading from a closed port: exception, or no input
	c42ChStdinValueFirst               // order in which each/all merge the byte lines and the values of stdin
)

type c42Exc struct {
	cat string // bad-fd | open-failed | cmd
	tag string
}

type c42World struct {
	files      map[string]string
	exists     map[string]bool
	openedBy   map[string]string
	outB       [3]string
	outV       [3][]string
	pipeB      string   // bytes written into the pipe to the next form
	pipeV      []string // values written into it
	mask, used int
	notJudged  string
	unrunnable bool
	events     []string
	hangKey    string
	// dupOutlives: the fd through which the form opened a file (or got its
	// pipe) was redirected again or closed while a duplicate made with >&
	// was still in place; per the reference the duplicate stays usable
	dupOutlives bool
	selfDup     bool
}

func (w *c42World) choice(bit int) bool {
	w.used |= bit
	return w.mask&bit != 0
}

func (w *c42World) ev(s string) { w.events = append(w.events, s) }

// c42ParseFd follows the reference: a port is given "as the number of the IO
// port, or one of stdin, stdout and stderr".
func c42ParseFd(s string) (int, bool) {
	switch s {
	case "stdin":
		return 0, true
	case "stdout":
		return 1, true
	case "stderr":
		return 2, true
	}
	n, err := strconv.Atoi(s)
	if err != nil {
		return 0, false
	}
	return n, true
}

func (w *c42World) redirect(ports map[int]*c42MPort, r c42Redir) *c42Exc {
	before := c42Fork(ports)
	exc := w.redirect1(ports, r)
	if exc != nil || w.dupOutlives {
		return exc
	}
	// Did the redirection take a file or pipe port away from its fd while a
	// duplicate of it is in place on another fd (see dupOutlives)?
	dst := 1
	if r.dst != "" {
		dst, _ = c42ParseFd(r.dst)
	} else if r.op == "<" {
		dst = 0
	}
	if old := before[dst]; old != nil && (old.kind == c42File || (old.kind == c42Base && old.base >= 3)) {
		for fd, p := range before {
			if p == old && fd != dst {
				w.dupOutlives = true
				w.ev("dup-outlives")
				break
			}
		}
	}
	return exc
}

func (w *c42World) redirect1(ports map[int]*c42MPort, r c42Redir) *c42Exc {
	var dst int
	if r.dst == "" {
		if r.op == "<" {
			dst = 0
		} else {
			dst = 1
		}
	} else {
		n, ok := c42ParseFd(r.dst)
		if !ok {
			w.ev("dst-not-fd")
			return &c42Exc{"bad-fd", "destination-not-a-port"}
		}
		if n < 0 {
			w.ev("dst-negative")
			return &c42Exc{"bad-fd", "negative-destination-fd"}
		}
		dst = n
	}
	if r.isFd {
		if r.src == "-" {
			ports[dst] = &c42MPort{kind: c42Closed}
			w.ev("close")
			return nil
		}
		n, ok := c42ParseFd(r.src)
		if !ok {
			w.ev("src-not-fd")
			return &c42Exc{"bad-fd", "source-not-a-port"}
		}
		if n < 0 {
			w.ev("src-negative")
			return &c42Exc{"bad-fd", "negative-source-fd"}
		}
		p := ports[n]
		if p == nil {
			w.ev("src-unset")
			return &c42Exc{"bad-fd", "unset-source-fd"}
		}
		if p.kind == c42Closed {
			w.ev("dup-closed")
			if w.choice(c42ChClosedDupRaises) {
				return &c42Exc{"bad-fd", "closed-source-fd"}
			}
		} else {
			w.ev("dup-" + p.state())
		}
		if n == dst && (p.kind == c42File || (p.kind == c42Base && p.base >= 3)) {
			// a file or pipe port of this form duplicated onto itself: nothing changes
			w.selfDup = true
			w.ev("self-dup")
		}
		ports[dst] = p
		return nil
	}
	name := r.src
	d := &c42Desc{name: name}
	switch r.op {
	case "<":
		if !w.exists[name] {
			w.ev("open<missing")
			return &c42Exc{"open-failed", "open-missing-file"}
		}
		d.rd = true
	case ">":
		if w.exists[name] {
			w.ev("open>trunc")
		} else {
			w.ev("open>create")
		}
		w.exists[name] = true
		w.files[name] = ""
		d.wr = true
	case ">>":
		if !w.exists[name] {
			w.ev("open>>create")
			w.exists[name] = true
			w.files[name] = ""
		} else {
			w.ev("open>>")
		}
		d.wr, d.app = true, true
	case "<>":
		if !w.exists[name] {
			w.ev("open<>create")
			w.exists[name] = true
			w.files[name] = ""
		} else {
			w.ev("open<>")
		}
		d.rd, d.wr = true, true
	}
	if r.op == "<" {
		w.ev(fmt.Sprintf("open<@%d", min(dst, 3)))
	}
	w.openedBy[name] += r.op + " "
	ports[dst] = &c42MPort{kind: c42File, desc: d, readMode: r.op == "<", op: r.op}
	return nil
}

var c42Stop = &c42Exc{"stop", "stop"}

func (w *c42World) dontJudge(why string) *c42Exc {
	w.notJudged = why
	w.ev("nj:" + why)
	return c42Stop
}

func (w *c42World) writeBytes(p *c42MPort, s string) *c42Exc {
	switch p.kind {
	case c42Closed:
		w.ev("bytes>closed")
		if w.choice(c42ChClosedWriteRaises) {
			return &c42Exc{"cmd", "bytes-to-closed-port"}
		}
		return nil
	case c42Base:
		switch p.base {
		case 0, 3:
			return w.dontJudge("bytes-written-to-an-input-port")
		case 4:
			w.pipeB += s
		default:
			w.outB[p.base] += s
		}
		return nil
	}
	d := p.desc
	if !d.wr {
		return w.dontJudge("bytes-written-to-file-opened-for-reading")
	}
	cur := w.files[d.name]
	if d.app {
		cur += s
	} else {
		for len(cur) < d.off {
			cur += "\x00"
		}
		end := d.off + len(s)
		tail := ""
		if end < len(cur) {
			tail = cur[end:]
		}
		cur = cur[:d.off] + s + tail
		d.off = end
	}
	w.files[d.name] = cur
	return nil
}

func (w *c42World) writeValue(p *c42MPort, v string) *c42Exc {
	switch p.kind {
	case c42Closed:
		w.ev("value>closed")
		return &c42Exc{"cmd", "value-to-closed-port"}
	case c42Base:
		switch p.base {
		case 0, 3:
			return w.dontJudge("value-written-to-an-input-port")
		case 4:
			w.pipeV = append(w.pipeV, v)
		default:
			w.outV[p.base] = append(w.outV[p.base], v)
		}
		return nil
	}
	if p.readMode {
		return w.dontJudge("value-written-to-file-port-opened-by-<")
	}
	w.ev("value>file")
	return &c42Exc{"cmd", "value-to-file-port"}
}

// readInputs returns the byte content and the values available on an input port.
func (w *c42World) readInputs(p *c42MPort) (data string, values []string, exc *c42Exc) {
	switch p.kind {
	case c42Closed:
		w.ev("read<closed")
		if w.choice(c42ChClosedReadRaises) {
			return "", nil, &c42Exc{"cmd", "read-from-closed-port"}
		}
		return "", nil, nil
	case c42Base:
		switch p.base {
		case 0:
			w.ev("read<stdin")
			return c42StdinBytes, []string{c42StdinValue}, nil
		case 3:
			w.ev("read<pipe")
			return c42PipeBytes, nil, nil
		}
		// reading from an output port of the evaluation or from the write end
		// of the pipeline legitimately blocks
		w.unrunnable = true
		return "", nil, c42Stop
	}
	if !p.readMode {
		return "", nil, w.dontJudge("input-from-file-port-opened-by-" + p.op)
	}
	d := p.desc
	cur := w.files[d.name]
	if d.off < len(cur) {
		data = cur[d.off:]
		d.off = len(cur)
	}
	w.ev("read<file")
	return data, nil, nil
}

func c42Lines(data string) []string {
	var out []string
	for data != "" {
		i := strings.IndexByte(data, '\n')
		if i < 0 {
			out = append(out, data)
			break
		}
		out = append(out, data[:i])
		data = data[i+1:]
	}
	return out
}

func c42Fork(ports map[int]*c42MPort) map[int]*c42MPort {
	m := make(map[int]*c42MPort, len(ports))
	for k, v := range ports {
		m[k] = v
	}
	return m
}

// c42Outcome is what a case must produce according to the model (or what the
// real evaluation produced).
type c42Outcome struct {
	Exc   string            `json:"exc"` // "" | bad-fd | open-failed | cmd
	OutB  string            `json:"ob"`
	ErrB  string            `json:"eb"`
	OutV  []string          `json:"ov"`
	ErrV  []string          `json:"ev"`
	Files map[string]string `json:"files"`
	tag   string
}

type c42Model struct {
	allowed     []c42Outcome
	notJudged   string
	unrunnable  bool
	class       string
	lastEvent   string
	hangKey     string
	openedBy    map[string]string
	dupOutlives bool
	selfDup     bool
}

func c42RunModel(cmd c42Cmd, redirs []c42Redir, mask int) (c42Outcome, *c42World) {
	w := &c42World{files: map[string]string{}, exists: map[string]bool{}, openedBy: map[string]string{}, mask: mask}
	for k, v := range c42InitFiles {
		w.files[k] = v
		w.exists[k] = true
	}
	ports := map[int]*c42MPort{0: {kind: c42Base, base: 0}, 1: {kind: c42Base, base: 1}, 2: {kind: c42Base, base: 2}}
	switch cmd.pipe {
	case c42PipeIn:
		ports[0] = &c42MPort{kind: c42Base, base: 3}
	case c42PipeOut:
		ports[1] = &c42MPort{kind: c42Base, base: 4}
	}
	var exc *c42Exc
	for _, r := range redirs {
		if exc = w.redirect(ports, r); exc != nil {
			break
		}
	}
	if exc == nil {
		exc = w.command(cmd, ports)
	}
	if cmd.pipe == c42PipeOut {
		// the next form is `all`: what arrived through the pipe becomes values on stdout
		w.outV[1] = append(append(w.outV[1], c42Lines(w.pipeB)...), w.pipeV...)
	}
	out := c42Outcome{OutB: w.outB[1], ErrB: w.outB[2], OutV: w.outV[1], ErrV: w.outV[2], Files: map[string]string{}}
	for _, n := range c42FileNames {
		if w.exists[n] {
			out.Files[n] = w.files[n]
		} else {
			out.Files[n] = c42Missing
		}
	}
	if exc != nil && exc != c42Stop {
		out.Exc = exc.cat
		out.tag = exc.tag
		w.ev("exc:" + exc.tag)
	}
	return out, w
}

func (w *c42World) command(cmd c42Cmd, ports map[int]*c42MPort) *c42Exc {
	if cmd.kind == c42Writer {
		w.hangKey = "hang:writer:out=" + ports[1].hangState()
		for _, a := range cmd.acts {
			ps := ports
			if len(a.redirs) > 0 {
				ps = c42Fork(ports)
				for _, r := range a.redirs {
					if exc := w.redirect(ps, r); exc != nil {
						return exc
					}
				}
			}
			var exc *c42Exc
			switch a.kind {
			case c42ActEcho:
				exc = w.writeBytes(ps[1], a.text+"\n")
			case c42ActPrint:
				exc = w.writeBytes(ps[1], a.text)
			case c42ActPut:
				exc = w.writeValue(ps[1], a.text)
			}
			if exc != nil {
				return exc
			}
		}
		return nil
	}
	in, out := ports[0], ports[1]
	if cmd.kind == c42Slurp {
		w.hangKey = "hang:byte-reader:in=" + in.hangState()
	} else {
		w.hangKey = "hang:value-reader:in=" + in.hangState()
	}
	data, values, exc := w.readInputs(in)
	if exc != nil {
		return exc
	}
	if cmd.kind == c42Slurp {
		return w.writeValue(out, data)
	}
	inputs := c42Lines(data)
	if len(values) > 0 && len(inputs) > 0 {
		if w.choice(c42ChStdinValueFirst) {
			inputs = append(append([]string{}, values...), inputs...)
		} else {
			inputs = append(inputs, values...)
		}
	} else {
		inputs = append(inputs, values...)
	}
	if cmd.kind == c42Count {
		return w.writeValue(out, strconv.Itoa(len(inputs)))
	}
	for _, x := range inputs {
		var exc *c42Exc
		if cmd.kind == c42EachEcho {
			exc = w.writeBytes(out, x+"\n")
		} else {
			exc = w.writeValue(out, x)
		}
		if exc != nil {
			return exc
		}
	}
	return nil
}

// c42Expect runs the model under every combination of the choice points that
// the case actually reaches.
func c42Expect(cmd c42Cmd, redirs []c42Redir) c42Model {
	var m c42Model
	var rec func(mask, decided int)
	first := true
	rec = func(mask, decided int) {
		out, w := c42RunModel(cmd, redirs, mask)
		if nb := w.used &^ decided; nb != 0 {
			b := nb & -nb
			rec(mask, decided|b)
			rec(mask|b, decided|b)
			return
		}
		if first {
			first = false
			m.class = strings.Join(w.events, ",")
			if len(w.events) > 0 {
				m.lastEvent = w.events[len(w.events)-1]
			}
			m.hangKey = w.hangKey
			m.openedBy = w.openedBy
			m.dupOutlives = w.dupOutlives
			m.selfDup = w.selfDup
		}
		if w.unrunnable {
			m.unrunnable = true
		}
		if w.notJudged != "" && m.notJudged == "" {
			m.notJudged = w.notJudged
		}
		m.allowed = append(m.allowed, out)
	}
	rec(0, 0)
	if m.hangKey == "" {
		m.hangKey = "hang:redirection:" + c42KeyEvent(m.lastEvent)
	}
	return m
}

func c42EqStrs(a, b []string) bool {
	if len(a) != len(b) {
		return false
	}
	for i := range a {
		if a[i] != b[i] {
			return false
		}
	}
	return true
}

// c42Diff returns the list of components in which got differs from want.
func c42Diff(want, got c42Outcome, openedBy map[string]string) []string {
	var d []string
	switch {
	case want.Exc != "" && got.Exc == "":
		d = append(d, "missing-exception:"+want.tag)
	case want.Exc == "" && got.Exc != "":
		d = append(d, "unexpected-exception")
	case want.Exc != got.Exc:
		d = append(d, "wrong-exception:"+want.tag)
	}
	for _, n := range c42FileNames {
		if want.Files[n] != got.Files[n] {
			// keyed by the set of operators that opened the file in this form
			ops := map[string]bool{}
			for _, op := range strings.Fields(openedBy[n]) {
				ops[op] = true
			}
			var set []string
			for _, op := range []string{"<", ">", ">>", "<>"} {
				if ops[op] {
					set = append(set, op)
				}
			}
			d = append(d, "file-content:opened-by:"+strings.Join(set, ","))
		}
	}
	if want.OutB != got.OutB {
		d = append(d, "stdout-bytes")
	}
	if want.ErrB != got.ErrB {
		d = append(d, "stderr-bytes")
	}
	if !c42EqStrs(want.OutV, got.OutV) {
		d = append(d, "stdout-values")
	}
	if !c42EqStrs(want.ErrV, got.ErrV) {
		d = append(d, "stderr-values")
	}
	return d
}

// ---------------------------------------------------------------------------
// Worker: evaluates cases with the real Evaler
// ---------------------------------------------------------------------------

type c42Obs struct {
	c42Outcome
	ExcMsg  string   `json:"msg"`
	Panic   string   `json:"panic"`
	PanicFn string   `json:"panicfn"`
	Leaks   []string `json:"leaks"`
	Err     string   `json:"err"` // harness-side problem
	Bye     bool     `json:"bye"` // the worker exits after this answer
}

func c42ExcCat(err error) (cat, msg string) {
	reason := err
	if exc, ok := err.(eval.Exception); ok {
		reason = exc.Reason()
	}
	msg = fmt.Sprintf("%T: %v", reason, reason)
	switch reason.(type) {
	case eval.InvalidFD, errs.BadValue, errs.OutOfRange:
		return "bad-fd", msg
	}
	if strings.HasPrefix(reason.Error(), "failed to open file") {
		return "open-failed", msg
	}
	if _, ok := err.(eval.Exception); !ok {
		return "not-an-exception", msg
	}
	return "cmd", msg
}

func c42WorkerMain() {
	cmdR := os.NewFile(3, "c42-cmd")
	resW := os.NewFile(4, "c42-res")
	dir := os.Getenv("VERIF_C42_DIR")
	caseDir := filepath.Join(dir, "case")
	baseDir := filepath.Join(dir, "base")
	must := func(err error) {
		if err != nil {
			fmt.Fprintf(resW, "{\"err\":%q}\n", err.Error())
			os.Exit(0)
		}
	}
	must(os.MkdirAll(caseDir, 0o755))
	must(os.MkdirAll(baseDir, 0o755))
	must(os.WriteFile(filepath.Join(baseDir, "stdin"), []byte(c42StdinBytes), 0o644))
	must(os.Chdir(caseDir))
	ev := eval.NewEvaler()
	sc := bufio.NewScanner(cmdR)
	enc := json.NewEncoder(resW)
	for sc.Scan() {
		src := sc.Text()
		obs := c42RunReal(ev, src, caseDir, baseDir)
		if obs.Panic != "" {
			// The evaluation was abandoned half-way and left its files open:
			// let the finalizers close them, or else start afresh.
			clean := false
			for i := 0; i < 50 && !clean; i++ {
				runtime.GC()
				time.Sleep(200 * time.Microsecond)
				clean = len(c42OpenScratch(caseDir)) == 0
			}
			obs.Bye = !clean
		}
		must(enc.Encode(obs))
		if obs.Bye {
			os.Exit(0)
		}
	}
	os.Exit(0)
}

func c42RunReal(ev *eval.Evaler, src, caseDir, baseDir string) (obs c42Obs) {
	for _, n := range c42FileNames {
		if content, ok := c42InitFiles[n]; ok {
			if err := os.WriteFile(n, []byte(content), 0o644); err != nil {
				obs.Err = err.Error()
				return
			}
		} else {
			os.Remove(n)
		}
	}
	stdin, err := os.Open(filepath.Join(baseDir, "stdin"))
	if err != nil {
		obs.Err = err.Error()
		return
	}
	inCh := make(chan any, 1)
	inCh <- c42StdinValue
	close(inCh)
	// stdout and stderr of the evaluation: bytes go to a capture file, values
	// into a channel large enough for everything a case can produce
	var capF [2]*os.File
	var capCh [2]chan any
	for i := range capF {
		f, err := os.OpenFile(filepath.Join(baseDir, fmt.Sprintf("capture%d", i+1)), os.O_RDWR|os.O_CREATE|os.O_TRUNC|os.O_APPEND, 0o644)
		if err != nil {
			obs.Err = err.Error()
			return
		}
		defer f.Close()
		capF[i], capCh[i] = f, make(chan any, 64)
	}
	get := func(i int) (vs []any, b []byte) {
		close(capCh[i])
		for v := range capCh[i] {
			vs = append(vs, v)
		}
		b, _ = os.ReadFile(capF[i].Name())
		return
	}
	ports := []*eval.Port{{File: stdin, Chan: inCh}, {File: capF[0], Chan: capCh[0]}, {File: capF[1], Chan: capCh[1]}}
	var evalErr error
	func() {
		defer func() {
			if r := recover(); r != nil {
				buf := make([]byte, 8192)
				buf = buf[:runtime.Stack(buf, false)]
				obs.Panic = fmt.Sprintf("panic: %v", r)
				obs.PanicFn = c42PanicFunc(string(buf))
			}
		}()
		evalErr = ev.Eval(parse.Source{Name: "c42", Code: src}, eval.EvalCfg{Ports: ports})
	}()
	v1, b1 := get(0)
	v2, b2 := get(1)
	stdin.Close()
	obs.OutB, obs.ErrB = string(b1), string(b2)
	for _, v := range v1 {
		obs.OutV = append(obs.OutV, vals.ToString(v))
	}
	for _, v := range v2 {
		obs.ErrV = append(obs.ErrV, vals.ToString(v))
	}
	if evalErr != nil {
		obs.Exc, obs.ExcMsg = c42ExcCat(evalErr)
	}
	obs.Files = map[string]string{}
	for _, n := range c42FileNames {
		b, err := os.ReadFile(n)
		if err != nil {
			obs.Files[n] = c42Missing
		} else {
			obs.Files[n] = string(b)
		}
	}
	// "Files opened by a redirection are closed when the form finishes."
	if obs.Panic == "" {
		obs.Leaks = c42OpenScratch(caseDir)
	}
	return
}

// c42OpenScratch lists the scratch files this process has open descriptors for.
func c42OpenScratch(caseDir string) []string {
	var open []string
	if ents, err := os.ReadDir("/proc/self/fd"); err == nil {
		for _, e := range ents {
			if t, err := os.Readlink("/proc/self/fd/" + e.Name()); err == nil && strings.HasPrefix(t, caseDir+"/") {
				open = append(open, filepath.Base(t))
			}
		}
		sort.Strings(open)
	}
	return open
}

// ---------------------------------------------------------------------------
// Master side of the worker protocol
// ---------------------------------------------------------------------------

// See (*c42Worker).run.
const (
	c42Batch       = 32
	c42IdleSeconds = 10
	c42BusySeconds = 900
)

type c42Worker struct {
	cmd    *exec.Cmd
	in     *os.File
	lines  chan string
	stderr *bytes.Buffer
}

func c42Spawn(id int) (*c42Worker, error) {
	self := os.Getenv("VERIF_SELF")
	if self == "" {
		self = os.Args[0]
	}
	dir := filepath.Join(os.Getenv("VERIF_SCRATCH"), "c42", fmt.Sprintf("w%d", id))
	if err := os.MkdirAll(dir, 0o755); err != nil {
		return nil, err
	}
	cmdR, cmdW, err := os.Pipe()
	if err != nil {
		return nil, err
	}
	resR, resW, err := os.Pipe()
	if err != nil {
		return nil, err
	}
	w := &c42Worker{in: cmdW, lines: make(chan string, 4), stderr: &bytes.Buffer{}}
	w.cmd = exec.Command(self, "-test.run", "^TestVerifC42$", "-test.timeout", "0")
	w.cmd.Env = append(os.Environ(), "VERIF_C42_WORKER=1", "VERIF_C42_DIR="+dir, "GOMAXPROCS=1", "GOTRACEBACK=all")
	w.cmd.ExtraFiles = []*os.File{cmdR, resW}
	w.cmd.Stderr = w.stderr
	w.cmd.Stdout = w.stderr
	w.cmd.Dir = dir
	if err := w.cmd.Start(); err != nil {
		return nil, err
	}
	cmdR.Close()
	resW.Close()
	go func() {
		sc := bufio.NewScanner(resR)
		sc.Buffer(make([]byte, 1<<16), 1<<22)
		for sc.Scan() {
			w.lines <- sc.Text()
		}
		resR.Close()
		close(w.lines)
	}()
	return w, nil
}

func (w *c42Worker) stop(kill bool) {
	w.in.Close()
	if kill {
		w.cmd.Process.Signal(syscall.SIGKILL)
	}
	w.cmd.Wait()
}

// quit ends a silent worker: SIGQUIT makes the Go runtime dump all goroutine
// stacks (returned for the report), SIGKILL follows if that does not end it.
func (w *c42Worker) quit() string {
	w.cmd.Process.Signal(syscall.SIGQUIT)
	done := make(chan struct{})
	go func() { w.cmd.Wait(); close(done) }()
	select {
	case <-done:
	case <-time.After(10 * time.Second):
		w.cmd.Process.Signal(syscall.SIGKILL)
		<-done
	}
	w.in.Close()
	return w.stderr.String()
}

// c42Blocked summarises a goroutine dump: where the goroutine evaluating the
// case is blocked (file of its innermost elvish frame) and the states of all
// goroutines inside elvish code.
func c42Blocked(dump string) (site, summary string) {
	site = "unknown"
	var parts []string
	for _, blk := range strings.Split(dump, "\n\n") {
		blk = strings.TrimSpace(blk)
		if !strings.HasPrefix(blk, "goroutine ") {
			continue
		}
		lines := strings.Split(blk, "\n")
		state := lines[0]
		if i := strings.IndexByte(state, '['); i >= 0 {
			state = strings.TrimSuffix(state[i:], ":")
		}
		fn, file := "", ""
		for i := 1; i+1 < len(lines); i++ {
			l := lines[i]
			if strings.HasPrefix(l, "src.elv.sh/pkg/") && !strings.Contains(l, "zzverif") {
				fn = l
				if j := strings.IndexByte(fn, '('); j > 0 && !strings.HasPrefix(fn[j:], "(*") {
					fn = fn[:j]
				}
				fn = strings.TrimPrefix(fn, "src.elv.sh/pkg/")
				f := strings.Fields(strings.TrimSpace(lines[i+1]))
				if len(f) > 0 {
					file = filepath.Base(f[0])
				}
				break
			}
		}
		if fn == "" {
			continue
		}
		parts = append(parts, state+" in "+fn+" "+file)
		if strings.Contains(blk, "c42RunReal") {
			site = file
			if j := strings.IndexByte(site, ':'); j >= 0 {
				site = site[:j]
			}
		}
	}
	sort.Strings(parts)
	return site, strings.Join(parts, "; ")
}

const (
	c42StOK = iota
	c42StDied
	c42StHang
)

// c42ProcState reads /proc/<pid>/task/*/stat: the CPU ticks consumed by the
// process so far and whether every thread is sleeping (state S).
func c42ProcState(pid int) (ticks int64, allAsleep bool) {
	tasks, err := os.ReadDir(fmt.Sprintf("/proc/%d/task", pid))
	if err != nil || len(tasks) == 0 {
		return -1, false
	}
	allAsleep = true
	for _, t := range tasks {
		b, err := os.ReadFile(fmt.Sprintf("/proc/%d/task/%s/stat", pid, t.Name()))
		if err != nil {
			continue // thread ended meanwhile
		}
		st := string(b)
		i := strings.LastIndexByte(st, ')')
		f := strings.Fields(st[i+1:])
		if i < 0 || len(f) < 13 {
			return -1, false
		}
		if f[0] != "S" {
			allAsleep = false
		}
		u, _ := strconv.ParseInt(f[11], 10, 64)
		k, _ := strconv.ParseInt(f[12], 10, 64)
		ticks += u + k
	}
	return ticks, allAsleep
}

// recv waits for the answer to the next case handed to the worker. On c42StDied the second result is the
// worker's stderr, on c42StHang its goroutine dump.
//
// Non-termination verdict: the worker has not answered and, in
// c42IdleSeconds consecutive one-second samples, every one of its threads was
// asleep and it consumed no CPU at all, i.e. no goroutine of the evaluation
// can run any more (a worker that is merely slow because the machine is
// loaded is runnable or accumulates CPU time and is waited for, up to
// c42BusySeconds).
func (w *c42Worker) recv() (int, string) {
	tick := time.NewTicker(time.Second)
	defer tick.Stop()
	idle, silent := 0, 0
	last := int64(-2)
	for {
		select {
		case line, ok := <-w.lines:
			if !ok {
				w.stop(false)
				return c42StDied, w.stderr.String()
			}
			return c42StOK, line
		case <-tick.C:
			silent++
			ticks, asleep := c42ProcState(w.cmd.Process.Pid)
			if asleep && ticks == last {
				idle++
			} else {
				idle = 0
			}
			last = ticks
			if idle >= c42IdleSeconds {
				return c42StHang, w.quit()
			}
			if silent >= c42BusySeconds {
				return c42StHang, "BUSY\n" + w.quit()
			}
		}
	}
}

// c42PanicFunc returns the innermost elvish function in a stack trace (of the
// panicking goroutine), without package path, type parameters and arguments:
// the stable name of the place that panicked.
func c42PanicFunc(stack string) string {
	for _, l := range strings.Split(stack, "\n") {
		if !strings.HasPrefix(l, "src.elv.sh/pkg/") || strings.Contains(l, "zzverif") {
			continue
		}
		l = strings.TrimPrefix(l, "src.elv.sh/pkg/")
		if i := strings.LastIndexByte(l, '('); i > 0 && !strings.HasPrefix(l[i:], "(*") {
			l = l[:i]
		}
		if i := strings.Index(l, "[...]"); i >= 0 {
			l = l[:i] + l[i+5:]
		}
		return l
	}
	return "unknown"
}

// c42DeathSite extracts "message @ file" from the stderr of a dead worker.
func c42DeathSite(stderr string) (msg, site string) {
	i := strings.Index(stderr, "panic: ")
	if j := strings.Index(stderr, "fatal error: "); i < 0 || (j >= 0 && j < i) {
		i = j
	}
	if i < 0 {
		return "worker exited without a panic message: " + strings.TrimSpace(stderr), "unknown"
	}
	rest := stderr[i:]
	msg, _, _ = strings.Cut(rest, "\n")
	// the first goroutine printed is the panicking one
	if k := strings.Index(rest, "\n\ngoroutine "); k >= 0 {
		rest = rest[k+2:]
		if e := strings.Index(rest, "\n\n"); e >= 0 {
			rest = rest[:e]
		}
	}
	return msg, c42PanicFunc(rest)
}

// ---------------------------------------------------------------------------
// The check
// ---------------------------------------------------------------------------

type c42Case struct {
	cmd    int
	redirs []int
}

func (k c42Case) src() string {
	s := c42Cmds[k.cmd].src
	for _, r := range k.redirs {
		s += " " + c42Redirs[r].text()
	}
	return s + c42Cmds[k.cmd].suffix
}

func (k c42Case) redirList() []c42Redir {
	rs := make([]c42Redir, len(k.redirs))
	for i, r := range k.redirs {
		rs[i] = c42Redirs[r]
	}
	return rs
}

type c42Finding struct {
	idx         int
	key, msg    string
	replay      string
	harnessFail bool
}

func c42KeyEvent(ev string) string {
	return strings.TrimPrefix(strings.TrimPrefix(ev, "exc:"), "nj:")
}

func c42NormMsg(msg string) string {
	// "*fs.PathError: write f1: file already closed" -> "file already closed"
	if i := strings.LastIndex(msg, ": "); i >= 0 {
		msg = msg[i+2:]
	}
	return strings.ReplaceAll(msg, " ", "-")
}

func TestVerifC42(t *testing.T) {
	if os.Getenv("VERIF_C42_WORKER") != "" {
		c42WorkerMain()
		return
	}
	vk.Run(t, "C42", "exploration", func(c *vk.Ctx) {
		nFull := vk.Pick(c, 2, 3)
		nCore := vk.Pick(c, 3, 4)
		var fullTexts, coreTexts, cmdTexts []string
		for i, r := range c42Redirs {
			fullTexts = append(fullTexts, r.text())
			if i < c42CoreN {
				coreTexts = append(coreTexts, r.text())
			}
		}
		for _, cm := range c42Cmds {
			cmdTexts = append(cmdTexts, cm.src+" ..."+cm.suffix)
		}
		c.Rule(fmt.Sprintf("every form '<command> <redirections>' with command in %q and every sequence of <=%d redirections over the %d-symbol alphabet %q plus every sequence of %d..%d redirections over its first %d symbols (core), shortest first; files f0 f1 f2 pre-filled, f3 f9 absent; stdin carries one line and one value, stdout/stderr capture bytes and values; class = (command, model events of each redirection and of the command, expected exception tag)",
			cmdTexts, nFull, len(c42Redirs), fullTexts, nFull+1, nCore, c42CoreN))
		c.Assume(
			"file contents follow POSIX open-file-description semantics (a duplicated port shares the offset, two opens of one file do not)",
			fmt.Sprintf("non-termination is observed as: the worker process evaluating the case has not answered and for %d consecutive seconds all its threads are asleep and it consumes no CPU (no goroutine can run any more), or it has not answered after %d s (typical case: < 1 ms)", c42IdleSeconds, c42BusySeconds),
			"where the reference is silent both outcomes are accepted: duplicating a closed port (exception / closed duplicate), bytes written to a closed port (exception / dropped), reading from a closed port (exception / no input), merge order of stdin's line and value; ports used against their direction are not judged (panics and hangs still are)",
			"an invalid destination fd is rejected before the source file is opened")

		// case list, shortest first
		var cases []c42Case
		var gen func(n, nsym int, pre []int, coreOnlyFrom int)
		gen = func(n, nsym int, pre []int, _ int) {
			if len(pre) == n {
				for ci := range c42Cmds {
					cases = append(cases, c42Case{ci, append([]int{}, pre...)})
				}
				return
			}
			for s := 0; s < nsym; s++ {
				gen(n, nsym, append(pre, s), 0)
			}
		}
		for n := 0; n <= nCore; n++ {
			if n <= nFull {
				gen(n, len(c42Redirs), nil, 0)
			} else {
				gen(n, c42CoreN, nil, 0)
			}
		}
		c.Set("cases_enumerated", len(cases))
		c.Set("bounds", map[string]int{"full_alphabet_len": nFull, "core_alphabet_len": nCore, "commands": len(c42Cmds), "redirections": len(c42Redirs), "core_redirections": c42CoreN})

		var mu sync.Mutex
		findings := map[string]c42Finding{}
		hangSeen := map[string]int{}
		report := func(idx int, key, msg, replay string) {
			mu.Lock()
			if f, ok := findings[key]; !ok || idx < f.idx {
				findings[key] = c42Finding{idx: idx, key: key, msg: msg, replay: replay}
			}
			mu.Unlock()
		}
		var harnessErr string
		var nextID int
		var maxLatency time.Duration // diagnostic only (never part of the oracle)
		workers := map[*vk.Local]*c42Worker{}
		getWorker := func(l *vk.Local) *c42Worker {
			mu.Lock()
			w := workers[l]
			mu.Unlock()
			if w != nil {
				return w
			}
			mu.Lock()
			nextID++
			id := nextID
			mu.Unlock()
			w, err := c42Spawn(id)
			if err != nil {
				mu.Lock()
				harnessErr = "cannot start worker: " + err.Error()
				mu.Unlock()
				return nil
			}
			mu.Lock()
			workers[l] = w
			mu.Unlock()
			return w
		}
		dropWorker := func(l *vk.Local) {
			mu.Lock()
			delete(workers, l)
			mu.Unlock()
		}

		type prep struct {
			idx      int
			src      string
			m        c42Model
			class    string
			expects  string
			rejected string
		}
		// prepare runs the model for one case; nil = the case is not run.
		prepare := func(idx int, skipHangs map[string]bool) *prep {
			k := cases[idx]
			m := c42Expect(c42Cmds[k.cmd], k.redirList())
			if m.unrunnable {
				c.Add("not_run:reads-from-the-evaluation's-output-port", 1)
				return nil
			}
			if skipHangs[m.hangKey] {
				c.Add("not_run:same-class-as-an-observed-hang", 1)
				return nil
			}
			p := &prep{idx: idx, src: k.src(), m: m, class: fmt.Sprintf("%d|%s", k.cmd, m.class)}
			p.expects = "the model expects " + c42Show(m.allowed)
			if m.notJudged != "" {
				p.expects = "the outcome is not judged (" + m.notJudged + "), but it must not crash or hang"
			}
			// rejected != "": the model says one of the redirections must be
			// refused with an exception; whatever else happens instead (other
			// than a panic) has that one cause.
			if len(m.allowed) == 1 && (m.allowed[0].Exc == "bad-fd" || m.allowed[0].Exc == "open-failed") {
				p.rejected = m.allowed[0].tag
			}
			return p
		}
		// judge handles the answer to one case; it returns true when the worker is gone.
		judge := func(l *vk.Local, w *c42Worker, p *prep, st int, resp string) bool {
			idx, src, m := p.idx, p.src, p.m
			switch st {
			case c42StHang:
				dropWorker(l)
				site, blocked := c42Blocked(resp)
				how := fmt.Sprintf("never answered: all its threads were asleep and it used no CPU for %d s", c42IdleSeconds)
				if strings.HasPrefix(resp, "BUSY") {
					how = fmt.Sprintf("had not answered after %d s", c42BusySeconds)
				}
				mu.Lock()
				hangSeen[m.hangKey]++
				firstOfKey := hangSeen[m.hangKey] == 1
				mu.Unlock()
				if firstOfKey {
					fmt.Printf("INFO property=C42 worker %s on %q (model class %s)\n", how, src, m.hangKey)
				}
				key := "hang:" + site + ":" + strings.TrimPrefix(m.hangKey, "hang:")
				if p.rejected != "" {
					key = "not-rejected:" + p.rejected
				}
				report(idx, key, fmt.Sprintf("%q does not return: the worker %s (goroutines: %s); %s", src, how, blocked, p.expects), src)
				l.Case(p.class + "|hang")
				return true
			case c42StDied:
				dropWorker(l)
				msg, site := c42DeathSite(resp)
				report(idx, "panic:"+site, fmt.Sprintf("%q crashed the process: %s in %s; %s", src, msg, site, p.expects), src)
				l.Case(p.class + "|crash")
				return true
			}
			var obs c42Obs
			if err := json.Unmarshal([]byte(resp), &obs); err != nil || obs.Err != "" {
				mu.Lock()
				harnessErr = fmt.Sprintf("worker protocol: %v %s %q", err, obs.Err, resp)
				mu.Unlock()
				w.stop(true)
				dropWorker(l)
				return true
			}
			if obs.Bye {
				w.stop(false)
				dropWorker(l)
			}
			if obs.Panic != "" {
				report(idx, "panic:"+obs.PanicFn, fmt.Sprintf("%q panicked: %s in %s; %s", src, obs.Panic, obs.PanicFn, p.expects), src)
				l.Case(p.class + "|panic")
				return obs.Bye
			}
			if len(obs.Leaks) > 0 {
				report(idx, "file-left-open", fmt.Sprintf("%q: after the form finished the process still has open descriptors for %v", src, obs.Leaks), src)
			}
			if m.notJudged != "" {
				c.Add("not_judged:"+m.notJudged, 1)
				l.Case(p.class)
				return obs.Bye
			}
			var best []string
			for i, want := range m.allowed {
				d := c42Diff(want, obs.c42Outcome, m.openedBy)
				if i == 0 || len(d) < len(best) {
					best = d
				}
				if len(d) == 0 {
					break
				}
			}
			if len(best) > 0 {
				key := best[0]
				if key == "unexpected-exception" {
					key += ":" + c42NormMsg(obs.ExcMsg)
				}
				// a file changed that the model never opened: a redirection after the refused one was applied
				if p.rejected != "" && (strings.HasPrefix(key, "missing-exception") || strings.HasPrefix(key, "wrong-exception") || key == "file-content:opened-by:") {
					key = "not-rejected:" + p.rejected
				}
				if m.dupOutlives {
					// one documented behaviour is at stake in all of these cases
					key = "duplicate-unusable-after-original-fd-redirected"
				}
				if m.selfDup {
					key = "port-unusable-after-duplicating-onto-itself"
				}
				report(idx, key, fmt.Sprintf("%q: differs in %v; observed %s (exception %q); the model allows %s", src, best, c42Show([]c42Outcome{obs.c42Outcome}), obs.ExcMsg, c42Show(m.allowed)), src)
			}
			l.Case(p.class)
			if idx%997 == 0 {
				c.Sample(src)
			}
			return obs.Bye
		}

		// runRange evaluates cases[from:to]; each lane hands batches of
		// consecutive cases to its worker (the worker answers them in order, so
		// a crash or a hang is attributed to the first unanswered case and the
		// rest of the batch goes to a fresh worker).
		runRange := func(from, to, batch int, skipHangs map[string]bool) {
			nb := (to - from + batch - 1) / batch
			c.Parallel(nb, func(l *vk.Local, bi int) {
				lo := from + bi*batch
				hi := min(lo+batch, to)
				var pend []*prep
				for idx := lo; idx < hi; idx++ {
					if p := prepare(idx, skipHangs); p != nil {
						pend = append(pend, p)
					}
				}
				sendFailures := 0
				for len(pend) > 0 {
					mu.Lock()
					bad := harnessErr != ""
					keep := pend[:0]
					for _, p := range pend {
						if hangSeen[p.m.hangKey] >= 3 {
							c.Add("not_run:same-class-as-an-observed-hang", 1)
						} else {
							keep = append(keep, p)
						}
					}
					pend = keep
					mu.Unlock()
					if bad || len(pend) == 0 {
						return
					}
					if c.TimeUp() {
						c.Capped("time budget reached before all cases were evaluated")
						return
					}
					w := getWorker(l)
					if w == nil {
						return
					}
					var sb strings.Builder
					for _, p := range pend {
						sb.WriteString(p.src)
						sb.WriteByte('\n')
					}
					if _, err := w.in.WriteString(sb.String()); err != nil {
						w.stop(true)
						dropWorker(l)
						if sendFailures++; sendFailures > 3 {
							mu.Lock()
							harnessErr = "cannot hand cases to a worker: " + err.Error()
							mu.Unlock()
							return
						}
						continue
					}
					i := 0
					for i < len(pend) {
						t0 := time.Now()
						st, resp := w.recv()
						if el := time.Since(t0); st == c42StOK {
							mu.Lock()
							if el > maxLatency {
								maxLatency = el
							}
							mu.Unlock()
						}
						gone := judge(l, w, pend[i], st, resp)
						i++
						if gone {
							break
						}
					}
					pend = pend[i:]
				}
			})
		}

		// Phase A: forms with at most one redirection; hang classes seen here
		// are not re-run in phase B (every such case would cost the full
		// hang timeout).
		phaseA := 0
		for phaseA < len(cases) && len(cases[phaseA].redirs) <= 1 {
			phaseA++
		}
		runRange(0, phaseA, 1, nil)
		skip := map[string]bool{}
		mu.Lock()
		for k := range hangSeen {
			skip[k] = true
		}
		mu.Unlock()
		runRange(phaseA, len(cases), c42Batch, skip)

		mu.Lock()
		ws := workers
		workers = map[*vk.Local]*c42Worker{}
		mu.Unlock()
		for _, w := range ws {
			w.stop(false)
		}
		os.RemoveAll(filepath.Join(os.Getenv("VERIF_SCRATCH"), "c42"))

		c.Set("workers_started", nextID)
		c.Set("slowest_answered_case_ms", maxLatency.Milliseconds())
		if harnessErr != "" {
			fmt.Printf("HARNESS-ERROR property=C42 %s\n", harnessErr)
			c.Capped("harness error")
			return
		}
		var fs []c42Finding
		for _, f := range findings {
			fs = append(fs, f)
		}
		sort.Slice(fs, func(i, j int) bool { return fs[i].idx < fs[j].idx })
		nskip := 0
		for _, f := range fs {
			c.Violate(f.key, f.msg, f.replay)
			if strings.HasPrefix(f.key, "hang:") {
				nskip++
			}
		}
		if nskip > 0 {
			c.Capped("cases of a hang class already observed were not re-run (see not_run:same-class-as-an-observed-hang)")
		}
	})
}

func c42Show(outs []c42Outcome) string {
	var parts []string
	for _, o := range outs {
		var fs []string
		for _, n := range c42FileNames {
			if v := o.Files[n]; v != c42Missing {
				if init, ok := c42InitFiles[n]; !ok || init != v {
					fs = append(fs, fmt.Sprintf("%s=%q", n, v))
				}
			}
		}
		exc := "none"
		if o.Exc != "" {
			exc = o.Exc
			if o.tag != "" {
				exc += "(" + o.tag + ")"
			}
		}
		parts = append(parts, fmt.Sprintf("{exception:%s stdout:%q%v stderr:%q%v changed-files:%v}", exc, o.OutB, o.OutV, o.ErrB, o.ErrV, fs))
	}
	return strings.Join(parts, " or ")
}
