//go:build verif

package c25

import (
	"bufio"
	"crypto/sha1"
	"encoding/hex"
	"fmt"
	"os"
	"os/exec"
	"path/filepath"
	"regexp"
	"runtime/debug"
	"sort"
	"strconv"
	"strings"
	"sync"
	"testing"

	"src.elv.sh/pkg/store"
	"src.elv.sh/pkg/store/storedefs"
	"src.elv.sh/pkg/zzverif/vk"
)

// ---- operations ----

var c25Ops = []string{"addcmd-a", "addcmd-b", "delcmd-1", "adddir-x", "deldir-x", "reopen"}

func c25Apply(st *store.DBStore, path string, op string) error {
	switch op {
	case "addcmd-a":
		_, err := (*st).AddCmd("a")
		return err
	case "addcmd-b":
		_, err := (*st).AddCmd("b")
		return err
	case "delcmd-1":
		return (*st).DelCmd(1)
	case "adddir-x":
		return (*st).AddDir("x", 1)
	case "deldir-x":
		return (*st).DelDir("x")
	case "reopen":
		if err := (*st).Close(); err != nil {
			return err
		}
		n, err := store.NewStore(path)
		if err != nil {
			return err
		}
		*st = n
		return nil
	}
	return fmt.Errorf("unknown op %s", op)
}

// c25Observe renders the whole observable content of a store.
func c25Observe(st store.DBStore) (string, int, error) {
	cmds, err := st.CmdsWithSeq(0, -1)
	if err != nil {
		return "", 0, err
	}
	dirs, err := st.Dirs(map[string]struct{}{})
	if err != nil {
		return "", 0, err
	}
	next, err := st.NextCmdSeq()
	if err != nil {
		return "", 0, err
	}
	var parts []string
	for _, c := range cmds {
		parts = append(parts, fmt.Sprintf("%d:%s", c.Seq, c.Text))
	}
	sort.Slice(dirs, func(i, j int) bool { return dirs[i].Path < dirs[j].Path })
	var dparts []string
	for _, d := range dirs {
		dparts = append(dparts, fmt.Sprintf("%s=%.6E", d.Path, d.Score))
	}
	return fmt.Sprintf("cmds[%s] dirs[%s] next=%d", strings.Join(parts, ","), strings.Join(dparts, ","), next), next, nil
}

var _ = storedefs.Cmd{}

// ---- the writer child: runs one history on the real store with default (syncing) options ----

func c25Child() {
	path := os.Getenv("VERIF_C25_DB")
	ops := strings.Split(os.Getenv("VERIF_C25_HISTORY"), " ")
	ack := os.NewFile(3, "ack")
	st, err := store.NewStore(path)
	if err != nil {
		fmt.Fprintln(os.Stderr, "child: open:", err)
		os.Exit(4)
	}
	ack.WriteString("ACK open\n")
	for i, op := range ops {
		if op == "" {
			continue
		}
		ack.WriteString(fmt.Sprintf("BEGIN %d\n", i))
		if err := c25Apply(&st, path, op); err != nil {
			fmt.Fprintln(os.Stderr, "child: op", op, err)
			os.Exit(4)
		}
		ack.WriteString(fmt.Sprintf("ACK %d\n", i))
	}
	// no Close: the process is "killed" here
	os.Exit(0)
}

// ---- trace parsing ----

type c25Event struct {
	kind string // write, sync, trunc, ack, begin
	off  int64
	data []byte
	size int64
	n    int // ack / begin index (-1 = open)
}

var c25Ret = regexp.MustCompile(`\)\s+=\s+(\S+)`)
var c25Line = regexp.MustCompile(`^(\d+)\s+(\w+)\((.*)$`)

func c25Unhex(s string) []byte {
	// strace -xx: "\x00\x01..."
	s = strings.ReplaceAll(s, `\x`, "")
	b, err := hex.DecodeString(s)
	if err != nil {
		panic("bad hex in trace: " + err.Error())
	}
	return b
}

func c25Parse(tracePath string, dbPath string) ([]c25Event, error) {
	f, err := os.Open(tracePath)
	if err != nil {
		return nil, err
	}
	defer f.Close()
	sc := bufio.NewScanner(f)
	sc.Buffer(make([]byte, 1<<20), 1<<28)
	var evs []c25Event
	dbFds := map[string]bool{}
	unfinished := map[string]string{} // pid -> partial line
	for sc.Scan() {
		line := sc.Text()
		m := c25Line.FindStringSubmatch(line)
		if m == nil {
			// "<pid> <... name resumed>rest"
			if i := strings.Index(line, "<... "); i >= 0 {
				pid := strings.Fields(line)[0]
				j := strings.Index(line, "resumed>")
				if j >= 0 {
					if head, ok := unfinished[pid]; ok {
						line = head + line[j+len("resumed>"):]
						delete(unfinished, pid)
						m = c25Line.FindStringSubmatch(line)
					}
				}
			}
			if m == nil {
				continue
			}
		}
		pid, name, rest := m[1], m[2], m[3]
		if strings.HasSuffix(rest, "<unfinished ...>") {
			unfinished[pid] = strings.TrimSuffix(line, " <unfinished ...>")
			continue
		}
		locs := c25Ret.FindAllStringSubmatchIndex(rest, -1)
		if len(locs) == 0 {
			continue
		}
		loc := locs[len(locs)-1]
		args, ret := rest[:loc[0]], rest[loc[2]:loc[3]]
		switch name {
		case "openat":
			if strings.Contains(args, hexPath(dbPath)) || strings.Contains(args, dbPath) {
				if ret != "-1" {
					dbFds[ret] = true
				}
			}
		case "close":
			delete(dbFds, strings.TrimSpace(args))
		case "pwrite64":
			// fd, "data", len, off
			c1 := strings.Index(args, ", ")
			fd := args[:c1]
			if !dbFds[fd] {
				continue
			}
			q1 := strings.Index(args, `"`)
			q2 := strings.LastIndex(args, `"`)
			data := c25Unhex(args[q1+1 : q2])
			tail := strings.Split(args[q2+1:], ", ")
			off, _ := strconv.ParseInt(strings.TrimSpace(tail[len(tail)-1]), 10, 64)
			n, _ := strconv.Atoi(ret)
			if n != len(data) {
				return nil, fmt.Errorf("short or truncated pwrite in trace: %d vs %d", n, len(data))
			}
			evs = append(evs, c25Event{kind: "write", off: off, data: data})
		case "fdatasync", "fsync":
			if dbFds[strings.TrimSpace(args)] {
				evs = append(evs, c25Event{kind: "sync"})
			}
		case "ftruncate":
			p := strings.Split(args, ", ")
			if dbFds[p[0]] {
				sz, _ := strconv.ParseInt(p[1], 10, 64)
				evs = append(evs, c25Event{kind: "trunc", size: sz})
			}
		case "write":
			c1 := strings.Index(args, ", ")
			if args[:c1] != "3" {
				continue
			}
			q1 := strings.Index(args, `"`)
			q2 := strings.LastIndex(args, `"`)
			txt := strings.TrimSpace(string(c25Unhex(args[q1+1 : q2])))
			f := strings.Fields(txt)
			n := -1
			if f[1] != "open" {
				n, _ = strconv.Atoi(f[1])
			}
			evs = append(evs, c25Event{kind: strings.ToLower(f[0]), n: n})
		}
	}
	return evs, sc.Err()
}

func hexPath(p string) string {
	var sb strings.Builder
	for i := 0; i < len(p); i++ {
		fmt.Fprintf(&sb, `\x%02x`, p[i])
	}
	return sb.String()
}

func TestVerifC25Child(t *testing.T) {
	if os.Getenv("VERIF_C25_HISTORY_SET") == "1" {
		c25Child()
	}
}

// c25Trace runs the history in a child under strace and returns the event log.
func c25Trace(dir string, history []string) ([]c25Event, error) {
	db := filepath.Join(dir, "db")
	trace := filepath.Join(dir, "trace")
	os.Remove(db)
	ackR, ackW, _ := os.Pipe()
	defer ackR.Close()
	self := os.Getenv("VERIF_SELF")
	cmd := exec.Command("strace", "-f", "-o", trace, "-e", "trace=openat,close,pwrite64,write,fdatasync,fsync,ftruncate", "-xx", "-s", "4194304",
		self, "-test.run", "^TestVerifC25Child$")
	cmd.Env = append(os.Environ(), "VERIF_C25_HISTORY_SET=1", "VERIF_C25_DB="+db, "VERIF_C25_HISTORY="+strings.Join(history, " "), "GOMAXPROCS=2")
	cmd.ExtraFiles = []*os.File{ackW}
	out, err := cmd.CombinedOutput()
	ackW.Close()
	if err != nil {
		return nil, fmt.Errorf("writer child failed: %v: %s", err, out)
	}
	return c25Parse(trace, db)
}

var c25Debug = os.Getenv("VERIF_C25_DEBUG") != ""

// expected observations after each prefix of the history, from the real store run without a crash
func c25Expected(dir string, history []string) ([]string, error) {
	path := filepath.Join(dir, "ref.db")
	os.Remove(path)
	st, err := store.NewStore(path)
	if err != nil {
		return nil, err
	}
	defer func() { st.Close(); os.Remove(path) }()
	var exp []string
	o, _, err := c25Observe(st)
	if err != nil {
		return nil, err
	}
	exp = append(exp, o)
	for _, op := range history {
		if err := c25Apply(&st, path, op); err != nil {
			return nil, err
		}
		o, _, err := c25Observe(st)
		if err != nil {
			return nil, err
		}
		exp = append(exp, o)
	}
	return exp, nil
}

type c25Recovered struct {
	obs     string
	next    int
	openErr string
	addErr  string
}

var (
	c25CacheMu sync.Mutex
	c25Cache   = map[string]c25Recovered{}
)

// c25Recover opens a crash image with the real store and observes it.
func c25Recover(dir string, image []byte) (rec c25Recovered, cached bool) {
	h := sha1.Sum(image)
	key := string(h[:])
	c25CacheMu.Lock()
	if r, ok := c25Cache[key]; ok {
		c25CacheMu.Unlock()
		return r, true
	}
	c25CacheMu.Unlock()
	path := filepath.Join(dir, "crash.db")
	os.Remove(path)
	os.WriteFile(path, image, 0o644)
	func() {
		defer debug.SetPanicOnFault(debug.SetPanicOnFault(true))
		defer func() {
			if r := recover(); r != nil {
				rec.openErr = fmt.Sprintf("panic: %v", r)
			}
		}()
		st, err := store.NewStore(path)
		if err != nil {
			rec.openErr = err.Error()
			return
		}
		defer st.Close()
		o, next, err := c25Observe(st)
		if err != nil {
			rec.openErr = "read after reopen: " + err.Error()
			return
		}
		rec.obs, rec.next = o, next
		seq, err := st.AddCmd("z")
		if err != nil {
			rec.addErr = err.Error()
		} else if seq != next {
			rec.addErr = fmt.Sprintf("AddCmd after recovery returned %d, NextCmdSeq said %d", seq, next)
		}
	}()
	c25CacheMu.Lock()
	c25Cache[key] = rec
	c25CacheMu.Unlock()
	return rec, false
}

const c25Block = 4096

type c25Pending struct {
	off  int64
	data []byte
}

// c25Enumerate walks the event log; at every crash point (before each event
// and after the last) it enumerates which of the not-yet-synced 4 KiB blocks
// reached the disk, builds the file image, recovers it and checks it.
func c25Enumerate(c *vk.Ctx, l *vk.Local, dir string, history []string, evs []c25Event, exp []string) {
	var durable []byte // content guaranteed on disk
	var size int64
	var pending []c25Pending // blocks written since the last sync
	acked, begun := 0, 0     // number of ops acknowledged / begun
	opened := false
	ackedNext := 0
	judge := func(img []byte, where string) {
		rec, cached := c25Recover(dir, img)
		cls := "recovered"
		key, msg := "", ""
		switch {
		case rec.openErr != "":
			cls = "open-error"
			if !opened {
				key = "reopen-fails:crash-during-initial-creation"
			} else {
				key = "reopen-fails"
			}
			msg = fmt.Sprintf("%s: reopening fails: %s", where, rec.openErr)
		default:
			ok := false
			lo, hi := acked, begun
			for j := lo; j <= hi && j < len(exp); j++ {
				if rec.obs == exp[j] {
					ok = true
					inflight := "none"
					if begun > acked && begun-1 < len(history) {
						inflight = history[begun-1]
					}
					cls = fmt.Sprintf("recovered-prefix-%d-of-acked-%d-inflight-%s", j, acked, inflight)
				}
			}
			if !ok {
				earlier := false
				for j := 0; j < lo; j++ {
					if rec.obs == exp[j] {
						earlier = true
					}
				}
				if earlier {
					key = "acknowledged-operation-lost"
				} else {
					key = "recovered-state-is-no-prefix"
				}
				msg = fmt.Sprintf("%s: recovered %q; allowed: %q", where, rec.obs, exp[lo:min(hi+1, len(exp))])
			} else if rec.next < ackedNext {
				key, msg = "sequence-number-reuse-after-recovery", fmt.Sprintf("%s: NextCmdSeq after recovery is %d but %d was already acknowledged", where, rec.next, ackedNext-1)
			} else if rec.addErr != "" {
				key, msg = "add-after-recovery-fails", where+": "+rec.addErr
			}
		}
		if key != "" {
			c.Violate(key, msg, map[string]any{"history": history, "where": where})
		}
		if cached {
			l.Case("")
		} else {
			l.Case(cls)
		}
	}
	apply := func(img []byte, p c25Pending) []byte {
		if p.off+int64(len(p.data)) > int64(len(img)) {
			grown := make([]byte, p.off+int64(len(p.data)))
			copy(grown, img)
			img = grown
		}
		copy(img[p.off:], p.data)
		return img
	}
	blocksOf := func(ev c25Event) []c25Pending {
		var out []c25Pending
		for o := 0; o < len(ev.data); o += c25Block {
			e := o + c25Block
			if e > len(ev.data) {
				e = len(ev.data)
			}
			out = append(out, c25Pending{ev.off + int64(o), ev.data[o:e]})
		}
		return out
	}
	// check explores the crash states at the boundary before event `at`.
	check := func(at int) {
		base := fmt.Sprintf("history %v, crash before trace event %d (acked %d ops, begun %d)", history, at, acked, begun)
		// (A) process kill: everything written so far is in the page cache; the write in
		// flight (the next event, if it is a write) may have copied any prefix of its blocks.
		full := make([]byte, size)
		copy(full, durable)
		for _, p := range pending {
			full = apply(full, p)
		}
		judge(full, base+", process killed: all completed writes present")
		if at < len(evs) && evs[at].kind == "write" {
			img := append([]byte{}, full...)
			bl := blocksOf(evs[at])
			for k := 0; k < len(bl)-1; k++ {
				img = apply(img, bl[k])
				judge(append([]byte{}, img...), fmt.Sprintf("%s, process killed inside the next write after %d of its %d blocks", base, k+1, len(bl)))
			}
		}
		// (B) power loss: any subset of the blocks written since the last sync may be missing.
		// bbolt's creation of a brand-new file is not atomic against power loss (no operation has
		// been acknowledged yet at that point), so (B) starts once the open has been acknowledged.
		if !opened {
			return
		}
		n := len(pending)
		capped := n > 10
		for mask := 0; mask < 1<<uint(n)-1; mask++ {
			if capped && popcount(mask) > 2 && n-popcount(mask) > 2 {
				continue
			}
			img := make([]byte, size)
			copy(img, durable)
			for b := 0; b < n; b++ {
				if mask>>uint(b)&1 == 1 {
					img = apply(img, pending[b])
				}
			}
			judge(img, fmt.Sprintf("%s, power loss with %d of %d unsynced blocks on disk (mask %b)", base, popcount(mask), n, mask))
		}
		if capped {
			c.Add("cap_hits_more_than_10_unsynced_blocks", 1)
		}
	}
	for i, ev := range evs {
		check(i)
		switch ev.kind {
		case "write":
			pending = append(pending, blocksOf(ev)...)
			if ev.off+int64(len(ev.data)) > size {
				size = ev.off + int64(len(ev.data))
			}
		case "sync":
			if int64(len(durable)) < size {
				grown := make([]byte, size)
				copy(grown, durable)
				durable = grown
			}
			for _, p := range pending {
				copy(durable[p.off:], p.data)
			}
			pending = nil
		case "trunc":
			size = ev.size
			if int64(len(durable)) > size {
				durable = durable[:size]
			}
		case "begin":
			begun = ev.n + 1
		case "ack":
			if ev.n < 0 {
				opened = true
			} else {
				acked = ev.n + 1
				// highest acknowledged command sequence number so far, from the reference run
				var nx int
				fmt.Sscanf(exp[acked][strings.LastIndex(exp[acked], "next=")+5:], "%d", &nx)
				if nx > ackedNext {
					ackedNext = nx
				}
			}
		}
	}
	check(len(evs))
}

func popcount(x int) int {
	n := 0
	for ; x > 0; x &= x - 1 {
		n++
	}
	return n
}

func TestVerifC25(t *testing.T) {
	vk.Run(t, "C25", "fault_enumeration", func(c *vk.Ctx) {
		depth := vk.Pick(c, 3, 4)
		c.Rule(fmt.Sprintf("every history of <=%d operations over {AddCmd a, AddCmd b, DelCmd 1, AddDir x, DelDir x, close+reopen} is run by a child process on the real store (default, syncing options) under strace; the totally ordered log of pwrite/fdatasync/ftruncate/acknowledgement events is replayed: at EVERY event boundary and for EVERY subset of the 4 KiB blocks written since the last sync (all subsets up to 10 blocks, else those keeping or dropping <=2) the file image is rebuilt, reopened with the real store and compared; class = (recovered prefix relative to acknowledged operations | open error), counted once per distinct image", depth))
		c.Assume("torn writes are modelled at 4 KiB granularity; data written before an fdatasync that returned is durable; file size changes (ftruncate) take effect immediately",
			"the reference state after each prefix is the real store's own content when the same operations run without a crash (the store's functional correctness is property C24)")
		if _, err := exec.LookPath("strace"); err != nil {
			fmt.Println("HARNESS-ERROR property=C25 strace is not available")
			os.Exit(3)
		}
		// all histories, shortest first
		var hists [][]string
		var gen func(cur []string)
		for d := 0; d <= depth; d++ {
			d := d
			gen = func(cur []string) {
				if len(cur) == d {
					hists = append(hists, append([]string{}, cur...))
					return
				}
				for _, op := range c25Ops {
					gen(append(cur, op))
				}
			}
			gen(nil)
		}
		var images int64
		c.Parallel(len(hists), func(l *vk.Local, i int) {
			if c.TimeUp() {
				c.Capped("time budget reached")
				return
			}
			h := hists[i]
			dir := filepath.Join(os.Getenv("VERIF_SCRATCH"), fmt.Sprintf("c25-%d", i))
			os.MkdirAll(dir, 0o755)
			defer os.RemoveAll(dir)
			evs, err := c25Trace(dir, h)
			if err != nil {
				fmt.Printf("HARNESS-ERROR property=C25 history %v: %v\n", h, err)
				os.Exit(3)
			}
			exp, err := c25Expected(dir, h)
			if err != nil {
				fmt.Printf("HARNESS-ERROR property=C25 history %v: reference run: %v\n", h, err)
				os.Exit(3)
			}
			if i == 7 || i == 50 {
				var kinds []string
				for _, e := range evs {
					kinds = append(kinds, e.kind)
				}
				c.Sample(map[string]any{"history": h, "event_log": strings.Join(kinds, " ")})
			}
			c25Enumerate(c, l, dir, h, evs, exp)
		})
		c.Set("histories", len(hists))
		c25CacheMu.Lock()
		images = int64(len(c25Cache))
		c25CacheMu.Unlock()
		c.Set("distinct_crash_images_recovered", images)
	})
}

func TestVerifC25Dbg(t *testing.T) {
	evs, err := c25Parse(os.Getenv("C25_TRACE"), os.Getenv("C25_DB"))
	fmt.Println("err", err)
	for i, e := range evs {
		fmt.Println(i, e.kind, e.off, len(e.data), e.size, e.n)
	}
}
