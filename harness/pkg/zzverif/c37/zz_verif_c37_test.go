//go:build verif

// Package c37 checks property C37 (error positions point at the right lines
// and columns) on the real diag.NewContext, and on the contexts carried by
// real parse errors, compilation errors and exception stack traces.
package c37

import (
	"fmt"
	"os"
	"path/filepath"
	"strings"
	"sync"
	"testing"

	"src.elv.sh/pkg/diag"
	"src.elv.sh/pkg/eval"
	"src.elv.sh/pkg/parse"
	"src.elv.sh/pkg/zzverif/vk"
)

const (
	c37Name   = "[c37]"
	c37MarkS  = "\x01"
	c37MarkE  = "\x02"
	c37Indent = "_"
)

// Part A alphabet: an ASCII letter, a second letter (so that slices of equal
// length taken at a wrong offset differ), a 2-byte character and the newline.
var c37Alphabet = []string{"a", "b", "é", "\n"}

// Part B alphabet: program fragments that produce parse errors, compilation
// errors and exceptions (with nested stack traces) on several lines, with
// multibyte characters. No fragment can touch the file system or run a
// program ($PATH points at an empty directory; there is no redirection).
var c37Tokens = []string{"nop", "fail é", "fail", "é", "a", "$x", "{ ", " }", "{\n", "\n}", "(", ")", " ", "\n", "|", "'", ";"}

// c37Want is what the property statement demands for one (source, range).
type c37Want struct {
	startLine, startCol int
	endLine, endCol     int
	head, body, tail    string
	empty               bool // the range is empty after dropping one trailing newline
	stripped            bool // one trailing newline was dropped
	stillNL             bool // the adjusted range still ends in a newline
}

// c37Pos returns the 1-based line and byte column of the byte at offset off:
// a newline byte belongs to the line it terminates.
func c37Pos(src string, off int) (line, col int) {
	line, col = 1, 1
	for i := 0; i < off; i++ {
		if src[i] == '\n' {
			line++
			col = 1
		} else {
			col++
		}
	}
	return line, col
}

// c37Oracle computes the demanded context from the property statement.
func c37Oracle(src string, from, to int) c37Want {
	var w c37Want
	w.startLine, w.startCol = c37Pos(src, from)
	end := to
	if end > from && src[end-1] == '\n' {
		end--
		w.stripped = true
	}
	if end == from {
		w.empty = true
		w.endLine, w.endCol = w.startLine, w.startCol-1
	} else {
		w.endLine, w.endCol = c37Pos(src, end-1)
		w.stillNL = src[end-1] == '\n'
	}
	// The lines containing the range: from the beginning of the line of the
	// first byte to the end (terminator excluded) of the line of the last byte.
	lineBegin := from
	for lineBegin > 0 && src[lineBegin-1] != '\n' {
		lineBegin--
	}
	w.head = src[lineBegin:from]
	w.body = src[from:end]
	if !w.stripped {
		lineEnd := to
		for lineEnd < len(src) && src[lineEnd] != '\n' {
			lineEnd++
		}
		w.tail = src[to:lineEnd]
	}
	return w
}

// c37Reported holds the field-violation keys already passed to Violate (which
// keeps only the first case per key anyway); it saves formatting a message for
// each of the many cases of a defect.
var c37Reported sync.Map

func c37Min(a, b int) int {
	if a < b {
		return a
	}
	return b
}

func c37B(b bool) byte {
	if b {
		return '1'
	}
	return '0'
}

// c37Shape is the behaviour class of one (source, range).
func c37Shape(src string, from, to int, w c37Want) string {
	midRune := (from < len(src) && src[from]&0xC0 == 0x80) || (to < len(src) && src[to]&0xC0 == 0x80)
	return fmt.Sprintf("sl%d/bl%d/%c%c%c%c%c%c%c", c37Min(w.startLine, 3), c37Min(strings.Count(w.body, "\n"), 3),
		c37B(w.empty), c37B(w.stripped), c37B(w.stillNL), c37B(w.head != ""), c37B(w.tail != ""), c37B(midRune), c37B(to == len(src)))
}

// c37CheckFields compares a context with the oracle; returns "" or a violation key and message.
func c37CheckFields(ctx *diag.Context, name string, from, to int, w c37Want) (string, string) {
	switch {
	case ctx.Name != name:
		return "name-field", fmt.Sprintf("Name %q, want %q", ctx.Name, name)
	case ctx.From != from || ctx.To != to:
		return "range-field", fmt.Sprintf("Ranging [%d,%d), want [%d,%d)", ctx.From, ctx.To, from, to)
	case ctx.StartLine != w.startLine:
		return "start-line", fmt.Sprintf("start %d:%d, want %d:%d", ctx.StartLine, ctx.StartCol, w.startLine, w.startCol)
	case ctx.StartCol != w.startCol:
		return "start-col", fmt.Sprintf("start %d:%d, want %d:%d", ctx.StartLine, ctx.StartCol, w.startLine, w.startCol)
	case ctx.EndLine != w.endLine || ctx.EndCol != w.endCol:
		msg := fmt.Sprintf("end %d:%d, want %d:%d", ctx.EndLine, ctx.EndCol, w.endLine, w.endCol)
		switch {
		case w.stillNL:
			return "end-position:adjusted-range-ends-in-newline", msg + " (the last byte after dropping one trailing newline is itself a newline, which terminates line " + fmt.Sprint(w.endLine) + ")"
		case w.empty:
			return "end-position:empty-range", msg
		case ctx.EndLine != w.endLine:
			return "end-line", msg
		default:
			return "end-col", msg
		}
	case ctx.Head != w.head:
		return "head", fmt.Sprintf("Head %q, want %q", ctx.Head, w.head)
	case ctx.Body != w.body:
		return "body", fmt.Sprintf("Body %q, want %q", ctx.Body, w.body)
	case ctx.Tail != w.tail:
		return "tail", fmt.Sprintf("Tail %q, want %q", ctx.Tail, w.tail)
	}
	return "", ""
}

// c37Descs returns the acceptable range descriptions (Show doc comment:
// "foo.elv:12:7-11" for one line, "foo.elv:12:1-13:5" for several; an empty
// range may be shown as its start only).
func c37Descs(name string, w c37Want) []string {
	if w.startLine != w.endLine {
		return []string{fmt.Sprintf("%s:%d:%d-%d:%d", name, w.startLine, w.startCol, w.endLine, w.endCol)}
	}
	d := []string{fmt.Sprintf("%s:%d:%d-%d", name, w.startLine, w.startCol, w.endCol)}
	if w.empty {
		d = append(d, fmt.Sprintf("%s:%d:%d", name, w.startLine, w.startCol))
	}
	return d
}

func c37In(s string, list []string) bool {
	for _, x := range list {
		if x == s {
			return true
		}
	}
	return false
}

// c37CheckShow checks Context.Show: description, layout (same line iff the
// body has one line), shown text = text of the lines containing the range,
// marked part = the body. Only called when the context's fields are right.
func c37CheckShow(out, name string, w c37Want) (string, string) {
	i := 0
	for ; i+1 < len(out); i++ {
		if out[i] == ':' && (out[i+1] == ' ' || out[i+1] == '\n') {
			break
		}
	}
	if i+1 >= len(out) {
		return "show-layout", "no ': ' or ':\\n' after the range description"
	}
	desc, rest := out[:i], out[i+1:]
	if !c37In(desc, c37Descs(name, w)) {
		return "show-description", fmt.Sprintf("description %q, want one of %q", desc, c37Descs(name, w))
	}
	cont := ""
	if strings.Contains(w.body, "\n") {
		cont = c37Indent + "  "
		if !strings.HasPrefix(rest, "\n"+cont) {
			return "show-layout", fmt.Sprintf("body has several lines but the text does not start on its own line indented by %q", cont)
		}
		rest = rest[1+len(cont):]
	} else {
		if !strings.HasPrefix(rest, " ") {
			return "show-layout", "body has one line but the text is not on the description's line"
		}
		rest = rest[1:]
	}
	lines := strings.Split(rest, "\n")
	for j := 1; j < len(lines); j++ {
		if !strings.HasPrefix(lines[j], cont) {
			return "show-layout", fmt.Sprintf("continuation line %d %q is not indented by %q", j, lines[j], cont)
		}
		lines[j] = lines[j][len(cont):]
	}
	text := strings.Join(lines, "\n")
	var plain, marked, unmarked strings.Builder
	inside := false
	for k := 0; k < len(text); k++ {
		switch ch := text[k]; {
		case ch == c37MarkS[0]:
			inside = true
		case ch == c37MarkE[0]:
			inside = false
		default:
			plain.WriteByte(ch)
			if inside || ch == '\n' {
				marked.WriteByte(ch)
			} else {
				unmarked.WriteByte(ch)
			}
		}
	}
	if plain.String() != w.head+w.body+w.tail {
		return "show-text", fmt.Sprintf("shown text %q, want the lines containing the range %q", plain.String(), w.head+w.body+w.tail)
	}
	if marked.String() != w.body || unmarked.String() != w.head+w.tail {
		return "show-underline", fmt.Sprintf("marked part %q / unmarked part %q, want body %q / head+tail %q", marked.String(), unmarked.String(), w.body, w.head+w.tail)
	}
	return "", ""
}

// c37CheckContext runs every clause on one context; what describes where the
// context came from. Returns whether the position fields were right.
func c37CheckContext(c *vk.Ctx, what, src string, ctx *diag.Context, from, to int, w c37Want) bool {
	k, m := c37CheckFields(ctx, c37Name, from, to, w)
	if _, seen := c37Reported.LoadOrStore(k, true); k != "" && !seen {
		c.Violate(k, fmt.Sprintf("%s: source %q range [%d,%d): %s", what, src, from, to, m), map[string]any{"what": what, "src": src, "from": from, "to": to})
	}
	if k != "" {
		return false // what Show prints is a consequence of the wrong field
	}
	var out string
	if p := vk.Try(func() { out = ctx.Show(c37Indent) }); p != "" {
		c.Violate("show-panic:"+vk.PanicSite(p), fmt.Sprintf("%s: source %q range [%d,%d): Show panicked: %s", what, src, from, to, p), src)
		return true
	}
	if sk, sm := c37CheckShow(out, c37Name, w); sk != "" {
		c.Violate(sk, fmt.Sprintf("%s: source %q range [%d,%d): Show -> %q: %s", what, src, from, to, out, sm), map[string]any{"what": what, "src": src, "from": from, "to": to})
	}
	return true
}

// c37CheckCarried checks a context carried by a real error: it must be the
// context of its own range in the evaluated source (equal to NewContext), and
// satisfy the oracle. Returns the class key.
func c37CheckCarried(c *vk.Ctx, kind, src string, ctx *diag.Context) string {
	from, to := ctx.From, ctx.To
	if from < 0 || to < from || to > len(src) {
		c.Add("not_judged_range_outside_source", 1) // property C01's business
		return kind + "/outside"
	}
	if ctx.Name != c37Name {
		c.Add("not_judged_other_source", 1)
		return kind + "/other-source"
	}
	if ref := diag.NewContext(c37Name, src, diag.Ranging{From: from, To: to}); *ref != *ctx {
		c.Violate(kind+"-context-differs-from-NewContext", fmt.Sprintf("program %q: %s context %+v differs from NewContext of its range %+v", src, kind, *ctx, *ref), src)
	}
	w := c37Oracle(src, from, to)
	if w.stillNL {
		c.Add("carried_contexts_whose_adjusted_range_ends_in_newline", 1)
		c.Sample(map[string]any{"kind": kind, "program": src, "from": from, "to": to})
	}
	c37CheckContext(c, kind+" of program", src, ctx, from, to, w)
	return kind + "/" + c37Shape(src, from, to, w)
}

func c37FirstWords(s string) string {
	f := strings.Fields(s)
	if len(f) > 3 {
		f = f[:3]
	}
	return strings.Join(f, " ")
}

func TestVerifC37(t *testing.T) {
	vk.Run(t, "C37", "exploration", func(c *vk.Ctx) {
		na := vk.Pick(c, 8, 10)
		nb := vk.Pick(c, 4, 5)
		c.Rule(fmt.Sprintf("part A: every string of <=%d symbols over %q and every byte range 0<=From<=To<=len of it (including ranges cutting the 2-byte character), through diag.NewContext and Context.Show; part B: every string of <=%d fragments over %q is parsed, compiled and (if both succeed) evaluated, and the context of every parse error, compilation error and stack-trace entry is checked; class = (A | error kind [+ first words of the message]) x (start line, number of newlines in the body, empty / newline dropped / still ends in newline / head non-empty / tail non-empty / cuts a character / ends at EOF)", na, c37Alphabet, nb, c37Tokens))
		c.Assume("columns are byte columns, a newline byte belongs to the line it terminates (it is the last byte of that line)",
			"the text layout of Show is judged only as far as its doc comment states it (description, same line iff the body has one line, body marked); an empty range may be described by its start alone",
			"ranges reported outside the source are left to C01; deprecation warnings and contexts of other sources (eval, use) are not exercised")

		diag.ContextBodyStartMarker, diag.ContextBodyEndMarker = c37MarkS, c37MarkE

		// Part A.
		c37Enum(c, len(c37Alphabet), na, 4, func(l *vk.Local, idx []int) {
			src := vk.Join(c37Alphabet, idx)
			for from := 0; from <= len(src); from++ {
				for to := from; to <= len(src); to++ {
					w := c37Oracle(src, from, to)
					var ctx *diag.Context
					if p := vk.Try(func() { ctx = diag.NewContext(c37Name, src, diag.Ranging{From: from, To: to}) }); p != "" {
						c.Violate("newcontext-panic:"+vk.PanicSite(p), fmt.Sprintf("NewContext(%q, [%d,%d)) panicked: %s", src, from, to, p), src)
						l.Case("A/panic")
						continue
					}
					c37CheckContext(c, "NewContext", src, ctx, from, to, w)
					l.Case("A/" + c37Shape(src, from, to, w))
				}
			}
			if len(idx) == 5 && idx[0] == 0 && idx[1] == 3 && idx[2] == 3 && idx[3] == 2 && idx[4] != 0 {
				c.Sample(src)
			}
		})

		// Part B.
		empty := filepath.Join(os.Getenv("VERIF_SCRATCH"), "c37-empty-path")
		if os.Getenv("VERIF_SCRATCH") == "" {
			panic("VERIF_SCRATCH not set")
		}
		os.MkdirAll(empty, 0o755)
		os.Setenv("PATH", empty)
		pool := sync.Pool{New: func() any { return eval.NewEvaler() }}
		c37Enum(c, len(c37Tokens), nb, 2, func(l *vk.Local, idx []int) {
			code := vk.Join(c37Tokens, idx)
			src := parse.Source{Name: c37Name, Code: code}
			ev := pool.Get().(*eval.Evaler)
			defer pool.Put(ev)
			var perr, cerr, xerr error
			if p := vk.Try(func() { perr, _, cerr = ev.Check(src, nil) }); p != "" {
				c37Panic(c, "Check", code, p)
				l.Case("B/check-panic")
				return
			}
			n := 0
			for _, e := range parse.UnpackErrors(perr) {
				k := c37CheckCarried(c, "parse-error", code, &e.Context)
				c37CheckErrorString(c, "parse error", code, e.Error(), e.Message, &e.Context)
				l.Case("B/" + k + "/" + c37FirstWords(e.Message))
				n++
			}
			for _, e := range eval.UnpackCompilationErrors(cerr) {
				k := c37CheckCarried(c, "compilation-error", code, &e.Context)
				c37CheckErrorString(c, "compilation error", code, e.Error(), e.Message, &e.Context)
				l.Case("B/" + k + "/" + c37FirstWords(e.Message))
				n++
			}
			if perr == nil && cerr == nil {
				if p := vk.Try(func() { xerr = ev.Eval(src, eval.EvalCfg{}) }); p != "" {
					c37Panic(c, "Eval", code, p)
					l.Case("B/eval-panic")
					return
				}
				if exc, ok := xerr.(eval.Exception); ok {
					depth := 0
					for st := exc.StackTrace(); st != nil; st = st.Next {
						depth++
						if st.Head == nil {
							continue
						}
						k := c37CheckCarried(c, "stack-trace", code, st.Head)
						l.Case(fmt.Sprintf("B/%s/d%d", k, c37Min(depth, 4)))
						n++
					}
				} else if xerr != nil {
					c.Add("not_judged_other_error", 1)
				}
			}
			if n == 0 {
				l.Case("")
			}
			if n >= 3 && len(idx) == nb && idx[0] == 9 && idx[1] == 9 {
				c.Sample(code)
			}
		})
	})
}

// c37CheckErrorString checks that the plain-text form of an error carries the
// description of the range: "<tag>: <name>:<line>:<col>...: <message>".
func c37CheckErrorString(c *vk.Ctx, tag, src, got, msg string, ctx *diag.Context) {
	from, to := ctx.From, ctx.To
	if from < 0 || to < from || to > len(src) || ctx.Name != c37Name {
		return
	}
	w := c37Oracle(src, from, to)
	if k, _ := c37CheckFields(ctx, c37Name, from, to, w); k != "" {
		return // reported under the field's key
	}
	for _, d := range c37Descs(c37Name, w) {
		if got == tag+": "+d+": "+msg {
			return
		}
	}
	c.Violate("error-string", fmt.Sprintf("program %q: Error() = %q, want %q with one of the descriptions %q", src, got, tag+": <range>: "+msg, c37Descs(c37Name, w)), src)
}

// c37Panic handles a panic of the parser, compiler or evaluator: building the
// context of a range inside the source must not panic (a panic raised in
// pkg/diag/context.go is this property's business); any other panic is left
// to the no-panic property C17.
func c37Panic(c *vk.Ctx, op, code, p string) {
	if vk.PanicSite(p) == "context.go" {
		c.Violate("newcontext-panic:context.go", fmt.Sprintf("%s of program %q panicked while building an error context: %s", op, code, p), code)
		return
	}
	c.Add("not_judged_"+strings.ToLower(op)+"_panicked_elsewhere", 1)
}

// c37Enum calls f for every sequence over nsym symbols of length 0..maxLen,
// strictly shortest first: lengths <= seqLen sequentially in lexicographic
// order (so the reported counterexample of a small defect is the same minimal
// one on every run), longer lengths one length at a time on all workers.
func c37Enum(c *vk.Ctx, nsym, maxLen, seqLen int, f func(l *vk.Local, idx []int)) {
	total := 1
	for n := 0; n <= maxLen; n++ {
		decode := func(idx []int, i int) {
			for k := n - 1; k >= 0; k-- {
				idx[k] = i % nsym
				i /= nsym
			}
		}
		if n <= seqLen {
			l := vk.NewLocal()
			idx := make([]int, n)
			for i := 0; i < total; i++ {
				decode(idx, i)
				f(l, idx)
			}
			c.Merge(l)
		} else {
			c.Parallel(total, func(l *vk.Local, i int) {
				if c.IsCapped() {
					return
				}
				if c.TimeUp() {
					c.Capped(fmt.Sprintf("time budget reached while enumerating length %d", n))
					return
				}
				idx := make([]int, n)
				decode(idx, i)
				f(l, idx)
			})
		}
		total *= nsym
	}
}
