//go:build verif

// C16: code with static errors never runs, and the static check agrees.
//
// Bounded-exhaustive enumeration of programs on the real parser, compiler and
// evaluator. Every program is (1) checked with Evaler.Check, (2) evaluated in
// the same context with Evaler.Eval (default global, explicit global) or with
// the eval builtin, and every observable effect channel is inspected: value
// channel, stdout bytes, stderr bytes, a scratch file that programs redirect
// to, a Go command that counts its calls, and the global namespace (names,
// variable identity, repr of values). A third family drives the real
// `elvish -compileonly [-json] -c code` and `elvish -c code` entry points
// through prog.Run with shell.Program.
package c16

import (
	"fmt"
	"os"
	"path/filepath"
	"sort"
	"strings"
	"sync"
	"sync/atomic"
	"testing"
	"time"

	"src.elv.sh/pkg/eval"
	"src.elv.sh/pkg/eval/vals"
	"src.elv.sh/pkg/eval/vars"
	"src.elv.sh/pkg/mods/str"
	"src.elv.sh/pkg/parse"
	"src.elv.sh/pkg/prog"
	"src.elv.sh/pkg/shell"
	"src.elv.sh/pkg/zzverif/vk"
)

// ---------------------------------------------------------------------------
// Program building blocks.

// Expectation of a building block according to the documentation.
const (
	c16OK      = iota // documented to be free of parse and compilation errors
	c16Bad            // documented to be a parse or compilation error
	c16Unknown        // documentation does not say when (or whether) this is rejected: not judged
)

// An effect statement: valid code with an observable side effect.
type c16Eff struct {
	code string
	req  []string // variable names that must exist where the statement stands
	add  []string // names it declares in the top-level scope
	del  []string // names it deletes from the top-level scope
	// reqExp: expectation if a required name is missing (language.md: set/tmp
	// require the variables to exist and scopes are statically checked; a
	// variable use of a deleted variable is documented as compilation error)
	reqExp int
}

// Names: g = pre-existing global variable, f = pre-existing global holding the
// scratch file path, c16mark~ = pre-existing Go command counting its calls.
var c16Effects = []c16Eff{
	{code: "put a"},
	{code: "c16mark", req: []string{"c16mark~"}, reqExp: c16Unknown},
	{code: "var g = 3", add: []string{"g"}},
	{code: "set g = 2", req: []string{"g"}, reqExp: c16Bad},
	{code: "echo x > $f", req: []string{"f"}, reqExp: c16Bad},
	{code: "del g", req: []string{"g"}, del: []string{"g"}, reqExp: c16Unknown},
	{code: "echo b"},
	{code: "var v = 1", add: []string{"v"}},
	{code: "fn k { }", add: []string{"k~"}},
	{code: "echo e >&2"},
	{code: "use str", add: []string{"str:"}},
}

// Offending (or control) statement.
type c16Off struct {
	kind string
	code string
	exp  int
	req  []string // names that must exist for exp to apply; if missing: reqExp
	// tmp is only allowed inside a function: Bad at top level, exp inside a
	// function, Unknown inside if/try bodies
	fnOnly bool
}

var c16Offenders = []c16Off{
	// documented compilation errors
	{kind: "undef-var", code: "put $nx", exp: c16Bad},
	{kind: "undef-var-in-fn", code: "fn q { put $nx }", exp: c16Bad},
	{kind: "undef-cmd-pragma", code: "pragma unknown-command = disallow; nxcmd", exp: c16Bad},
	{kind: "set-undef", code: "set nx = 1", exp: c16Bad},
	{kind: "set-bad-lvalue", code: "set a/b = foo", exp: c16Bad},
	{kind: "try-no-catch", code: "try { }", exp: c16Unknown},
	{kind: "try-else-no-catch", code: "try { nop } else { echo well }", exp: c16Bad},
	{kind: "tmp", code: "tmp g = 1", exp: c16OK, req: []string{"g"}, fnOnly: true},
	// grammar-evident parse errors (unbalanced brackets, unterminated quotes)
	{kind: "parse-open-list", code: "put [", exp: c16Bad},
	{kind: "parse-open-paren", code: "put (", exp: c16Bad},
	{kind: "parse-open-brace", code: "put {", exp: c16Bad},
	{kind: "parse-close-paren", code: "put a )", exp: c16Bad},
	{kind: "parse-close-list", code: "put a ]", exp: c16Bad},
	{kind: "parse-close-brace", code: "put a }", exp: c16Bad},
	{kind: "parse-squote", code: "put 'a", exp: c16Bad},
	{kind: "parse-dquote", code: "put \"a", exp: c16Bad},
	{kind: "parse-dollar", code: "put $", exp: c16Bad},
	// rejected statically by the implementation; documentation gives the syntax
	// but does not say when a violation is reported: not judged for expectation
	{kind: "parse-pipe-end", code: "put a |", exp: c16Unknown},
	{kind: "parse-redir-end", code: "echo >", exp: c16Unknown},
	{kind: "parse-map-pair", code: "put [&k]", exp: c16Unknown},
	{kind: "parse-bad-escape", code: "put \"\\xZ\"", exp: c16Unknown},
	{kind: "if-no-cond", code: "if", exp: c16Unknown},
	{kind: "if-no-body", code: "if x", exp: c16Unknown},
	{kind: "if-else-no-body", code: "if x { } else", exp: c16Unknown},
	{kind: "if-body-not-lambda", code: "if x y", exp: c16Unknown},
	{kind: "while-no-body", code: "while x", exp: c16Unknown},
	{kind: "for-no-body", code: "for x [a]", exp: c16Unknown},
	{kind: "for-bad-var", code: "for $nx [a] { }", exp: c16Unknown},
	{kind: "fn-no-name", code: "fn", exp: c16Unknown},
	{kind: "fn-no-body", code: "fn q", exp: c16Unknown},
	{kind: "fn-body-not-lambda", code: "fn q x", exp: c16Unknown},
	{kind: "del-dollar", code: "del $pid", exp: c16Unknown},
	{kind: "del-undef", code: "del nx", exp: c16Unknown},
	{kind: "del-ns", code: "del a:b", exp: c16Unknown},
	{kind: "var-qualified", code: "var a:b = 1", exp: c16Unknown},
	{kind: "var-index", code: "var q[0] = 1", exp: c16Unknown},
	{kind: "var-no-rhs", code: "var q =", exp: c16Unknown},
	{kind: "set-no-eq", code: "set", exp: c16Unknown},
	{kind: "set-readonly", code: "set pid = 1", exp: c16Unknown},
	{kind: "set-two-rest", code: "var @q @r = a", exp: c16Unknown},
	{kind: "pragma-unknown", code: "pragma foo = bar", exp: c16Unknown},
	{kind: "pragma-bad-value", code: "pragma unknown-command = bad", exp: c16Unknown},
	{kind: "pragma-no-eq", code: "pragma unknown-command x disallow", exp: c16Unknown},
	{kind: "lambda-dup-arg", code: "nop {|a a| }", exp: c16Unknown},
	{kind: "lambda-two-rest", code: "nop {|@a @b| }", exp: c16Unknown},
	{kind: "lambda-opt-no-default", code: "nop {|&o| }", exp: c16Unknown},
	{kind: "lambda-qualified-arg", code: "nop {|a:b| }", exp: c16Unknown},
	{kind: "use-no-spec", code: "use", exp: c16Unknown},
	{kind: "use-superfluous", code: "use a b c", exp: c16Unknown},
	{kind: "with-one-arg", code: "with x", exp: c16Unknown},
	{kind: "coalesce-undef", code: "coalesce $nx a", exp: c16Bad},
	{kind: "and-undef", code: "and $false $nx", exp: c16Bad},
	{kind: "undef-fn-var", code: "put $nx~", exp: c16Bad},
	{kind: "undef-in-index", code: "put [a][$nx]", exp: c16Bad},
	{kind: "undef-in-redir", code: "echo y > $nx", exp: c16Bad},
	{kind: "undef-in-opt", code: "echo &sep=$nx y", exp: c16Bad},
	{kind: "undef-in-map", code: "put [&k=$nx]", exp: c16Bad},
	{kind: "undef-in-nested-lambda", code: "nop { nop { put $nx } }", exp: c16Bad},
	{kind: "undef-in-capture", code: "put (put $nx)", exp: c16Bad},
	{kind: "undef-in-str", code: "put a$nx", exp: c16Bad},
	// controls: valid code
	{kind: "ctl-use-g", code: "put $g", exp: c16OK, req: []string{"g"}},
	{kind: "ctl-unknown-cmd-external", code: "nxcmd", exp: c16OK},
	{kind: "ctl-fail", code: "fail x", exp: c16OK},
	{kind: "ctl-if", code: "if $true { put i }", exp: c16OK},
	{kind: "ctl-try", code: "try { fail y } catch { put c }", exp: c16OK},
	{kind: "ctl-lambda", code: "{|a b| put $a } x y", exp: c16OK},
	{kind: "ctl-index-error", code: "put [a][1]", exp: c16OK},
	{kind: "ctl-pragma-external", code: "pragma unknown-command = external; nxcmd", exp: c16OK},
	{kind: "ctl-empty", code: "nop", exp: c16OK},
}

// Wrappers: where the offender is placed.
type c16Wrap struct {
	name      string
	pre, post string
	scope     int // 0 = top-level scope, 1 = function body, 2 = body of a special form
}

var c16Wraps = []c16Wrap{
	{"bare", "", "", 0},
	{"lambda", "{ ", " }", 1},
	{"fn-uncalled", "fn w { ", " }", 1},
	{"if-true", "if $true { ", " }", 2},
	{"if-false", "if $false { ", " }", 2},
	{"try", "try { ", " } catch { }", 2},
	{"capture", "put (", ")", 0},
	{"pipeline", "put p | ", "", 0},
	{"lambda-arg", "nop { ", " }", 1},
}

// c16Expect computes the documented expectation of a program built from
// prefix effects, an offender in a wrapper, and suffix effects, given the names
// that exist initially.
func c16Expect(initial []string, pre []int, off *c16Off, w *c16Wrap, suf []int) (int, string) {
	names := map[string]bool{}
	for _, n := range initial {
		names[n] = true
	}
	res, cause := c16OK, "valid"
	worse := func(e int, why string) {
		if (e == c16Bad && res != c16Bad) || (e == c16Unknown && res == c16OK) {
			res, cause = e, why
		}
	}
	eff := func(i int) {
		e := &c16Effects[i]
		for _, r := range e.req {
			if !names[r] {
				worse(e.reqExp, "effect-needs-missing-variable")
			}
		}
		for _, d := range e.del {
			delete(names, d)
		}
		for _, a := range e.add {
			names[a] = true
		}
	}
	for _, i := range pre {
		eff(i)
	}
	if off != nil {
		e, why := off.exp, off.kind
		if off.fnOnly {
			switch w.scope {
			case 0:
				e = c16Bad
			case 2:
				e = c16Unknown
			}
		}
		for _, r := range off.req {
			if !names[r] {
				e, why = c16Bad, off.kind+"-of-missing-variable" // use / set of a variable that does not exist
			}
		}
		worse(e, why)
	}
	for _, i := range suf {
		eff(i)
	}
	return res, cause
}

// ---------------------------------------------------------------------------
// Per-worker machinery: fresh Evaler per case, shared capture files.

type c16Worker struct {
	dir      string
	fpath    string
	out, err *os.File
	ch       chan any
	ports    []*eval.Port
	marks    int
	fstat    os.FileInfo // identity of the pristine scratch file
	// the current context: reused for the next case as long as it is
	// observably pristine (same *Ns, same snapshot), otherwise rebuilt
	ev       *eval.Evaler
	base     *eval.Ns
	baseSnap string
	// family D: code that ran may have loaded a module into the Evaler (state
	// that the snapshot does not show), so the context is only reused after
	// static errors; also cross-check CheckTree
	modFamily bool
}

const c16FileOrig = "orig\n"

var c16Workers sync.Map
var c16WorkerSeq int64

func c16WorkerFor(l *vk.Local) *c16Worker {
	if w, ok := c16Workers.Load(l); ok {
		return w.(*c16Worker)
	}
	n := atomic.AddInt64(&c16WorkerSeq, 1)
	dir := filepath.Join(c16Base, fmt.Sprintf("w%d", n))
	if err := os.MkdirAll(dir, 0o755); err != nil {
		panic(err)
	}
	w := &c16Worker{dir: dir, fpath: filepath.Join(dir, "f"), ch: make(chan any, 1024)}
	var err error
	if w.out, err = os.OpenFile(filepath.Join(dir, "out"), os.O_RDWR|os.O_CREATE|os.O_TRUNC|os.O_APPEND, 0o644); err != nil {
		panic(err)
	}
	if w.err, err = os.OpenFile(filepath.Join(dir, "err"), os.O_RDWR|os.O_CREATE|os.O_TRUNC|os.O_APPEND, 0o644); err != nil {
		panic(err)
	}
	w.resetFile()
	w.ports = []*eval.Port{eval.DummyInputPort, {File: w.out, Chan: w.ch}, {File: w.err, Chan: eval.BlackholeChan}}
	c16Workers.Store(l, w)
	return w
}

var c16Base string
var c16LibDir string

func (w *c16Worker) resetFile() {
	os.Remove(w.fpath)
	if err := os.WriteFile(w.fpath, []byte(c16FileOrig), 0o644); err != nil {
		panic(err)
	}
	var err error
	if w.fstat, err = os.Lstat(w.fpath); err != nil {
		panic(err)
	}
}

// fileState returns the content of the scratch file and whether it is
// untouched (same inode, size and modification time as when it was written; a
// redirection opens with O_TRUNC and so changes the modification time).
func (w *c16Worker) fileState() (string, bool) {
	st, err := os.Lstat(w.fpath)
	if err == nil && os.SameFile(st, w.fstat) && st.Size() == w.fstat.Size() && st.ModTime().Equal(w.fstat.ModTime()) {
		return c16FileOrig, true
	}
	b, err := os.ReadFile(w.fpath)
	content := string(b)
	if err != nil {
		content = "<" + err.Error() + ">"
	}
	w.resetFile()
	return content, false
}

// context returns the pristine context for the next case.
func (w *c16Worker) context() (*eval.Evaler, string) {
	if w.ev == nil {
		w.ev = w.newEvaler()
		w.base = w.ev.Global()
		w.baseSnap = c16Snapshot(w.base)
	}
	return w.ev, w.baseSnap
}

// release decides whether the context may be reused.
func (w *c16Worker) release(snap string, dirty bool) {
	if dirty || w.ev.Global() != w.base || snap != w.baseSnap {
		w.ev = nil
	}
}

// newEvaler returns a fresh Evaler whose global namespace holds g, f and
// c16mark~, and which knows the str module.
func (w *c16Worker) newEvaler() *eval.Evaler {
	ev := eval.NewEvaler()
	ev.AddModule("str", str.Ns)
	// mod1: known to the Evaler (so Check lists it among the known modules) but not imported
	ev.AddModule("mod1", eval.BuildNs().
		AddVar("bar", vars.FromInit("b")).
		AddGoFn("foo", func(...any) {}).Ns())
	// mod2 is a file in the lib dir: importable, but unknown to the Evaler until it has been imported
	ev.LibDirs = []string{c16LibDir}
	ev.ExtendGlobal(eval.BuildNs().
		AddVar("g", vars.FromInit("0")).
		AddVar("f", vars.FromInit(w.fpath)).
		AddGoFn("c16mark", func() { w.marks++ }).Ns())
	return ev
}

var c16InitialNames = []string{"g", "f", "c16mark~"}

// snapshot of a namespace: sorted "name @variable-identity = repr"
func c16Snapshot(ns *eval.Ns) string {
	var names []string
	ns.IterateKeysString(func(s string) { names = append(names, s) })
	sort.Strings(names)
	var sb strings.Builder
	for _, n := range names {
		v := ns.IndexString(n)
		if v == nil {
			fmt.Fprintf(&sb, "%s <no variable>\n", n)
			continue
		}
		fmt.Fprintf(&sb, "%s @%T%v = %s\n", n, v, v, vals.ReprPlain(v.Get()))
	}
	return sb.String()
}

// c16SnapDiff shows the lines of two snapshots that differ.
func c16SnapDiff(before, after string) string {
	in := func(lines []string, x string) bool {
		for _, l := range lines {
			if l == x {
				return true
			}
		}
		return false
	}
	b, a := strings.Split(before, "\n"), strings.Split(after, "\n")
	var sb strings.Builder
	for _, l := range b {
		if l != "" && !in(a, l) {
			sb.WriteString(" | before only: " + l)
		}
	}
	for _, l := range a {
		if l != "" && !in(b, l) {
			sb.WriteString(" | after only: " + l)
		}
	}
	return sb.String()
}

// observed effects of one run
type c16Obs struct {
	values  []any
	stdout  string
	stderr  string
	file    string
	marks   int
	fileOK  bool
}

func c16Drain(f *os.File) string {
	st, err := f.Stat()
	if err != nil {
		panic(err)
	}
	if st.Size() == 0 {
		return ""
	}
	buf := make([]byte, st.Size())
	if _, err := f.ReadAt(buf, 0); err != nil {
		panic(err)
	}
	if err := f.Truncate(0); err != nil {
		panic(err)
	}
	return string(buf)
}

func (w *c16Worker) collect() c16Obs {
	var o c16Obs
	for {
		select {
		case v := <-w.ch:
			o.values = append(o.values, v)
			continue
		default:
		}
		break
	}
	o.stdout = c16Drain(w.out)
	o.stderr = c16Drain(w.err)
	o.file, o.fileOK = w.fileState()
	o.marks = w.marks
	w.marks = 0
	return o
}

func (o *c16Obs) quiet() bool {
	return len(o.values) == 0 && o.stdout == "" && o.stderr == "" && o.fileOK && o.marks == 0
}

// c16ErrList renders parse or compilation errors as "from-to message; ...".
func c16ErrList(err error) string {
	var sb strings.Builder
	for _, e := range parse.UnpackErrors(err) {
		fmt.Fprintf(&sb, "%d-%d %s; ", e.Context.From, e.Context.To, e.Message)
	}
	for _, e := range eval.UnpackCompilationErrors(err) {
		fmt.Fprintf(&sb, "%d-%d %s; ", e.Context.From, e.Context.To, e.Message)
	}
	return sb.String()
}

// classification of an error returned by evaluation
func c16ErrKind(err error) string {
	switch {
	case err == nil:
		return "ok"
	case parse.UnpackErrors(err) != nil:
		return "parse"
	case eval.UnpackCompilationErrors(err) != nil:
		return "compile"
	}
	if _, ok := err.(eval.Exception); ok {
		return "exception"
	}
	return "other"
}

func c16FirstMsg(err error) string {
	if es := parse.UnpackErrors(err); es != nil {
		return es[0].Message
	}
	if es := eval.UnpackCompilationErrors(err); es != nil {
		m := es[0].Message
		// strip names so that classes stay few
		if i := strings.IndexByte(m, '$'); i >= 0 {
			m = m[:i]
		}
		return m
	}
	return ""
}

const (
	c16RouteDefault = iota // Evaler.Eval, cfg.Global == nil (mutates the Evaler's global)
	c16RouteCfg            // Evaler.Eval, cfg.Global = the Evaler's global
	c16RouteBuiltin        // the eval builtin: eval <quoted code>
	c16RouteOnEnd          // the eval builtin with an &on-end callback that inspects the namespace it is given
	c16NRoutes
)

var c16RouteNames = []string{"eval", "eval-cfg-global", "builtin-eval", "builtin-eval-on-end"}

// c16RunCase runs one program through Check and one evaluation route and
// judges it. exp is the documented expectation (c16Unknown = not judged).
// Returns the class key.
func c16RunCase(c *vk.Ctx, w *c16Worker, route int, src string, exp int, cause string) string {
	rn := c16RouteNames[route]
	ev, snap0 := w.context()

	// 1. static check (it has no ports; its effects could only show in the
	// scratch file, the call counter and the namespace)
	var pe, ce error
	if p := vk.Try(func() { pe, _, ce = ev.Check(parse.Source{Name: "c16", Code: src}, nil) }); p != "" {
		c.Violate("panic-in-check:"+vk.PanicSite(p), fmt.Sprintf("Check(%q) panicked: %s", src, p), src)
		w.collect()
		w.release("", true)
		return rn + "/check-panic"
	}
	checkBad := pe != nil || ce != nil
	if w.modFamily {
		var ce2 error
		tree, _ := parse.Parse(parse.Source{Name: "c16", Code: src}, parse.Config{})
		if p := vk.Try(func() { _, ce2 = ev.CheckTree(tree, nil) }); p != "" {
			c.Violate("panic-in-check:"+vk.PanicSite(p), fmt.Sprintf("CheckTree(%q) panicked: %s", src, p), src)
		} else if c16ErrList(ce2) != c16ErrList(ce) {
			c.Violate("checktree-disagrees-with-check", fmt.Sprintf("CheckTree(%q) reported [%s] but Check reported [%s]", src, c16ErrList(ce2), c16ErrList(ce)), src)
		}
	}
	if content, ok := w.fileState(); !ok || w.marks != 0 {
		c.Violate("check-had-effects", fmt.Sprintf("Check(%q) had effects: file=%q calls=%d", src, content, w.marks), src)
		w.marks = 0
	}
	if s := c16Snapshot(ev.Global()); s != snap0 || ev.Global() != w.base {
		c.Violate("check-changed-global", fmt.Sprintf("Check(%q) changed the global namespace (name @variable = value):%s", src, c16SnapDiff(snap0, s)), src)
		// continue with a fresh context so that the evaluation is judged on its own
		w.release("", true)
		ev, snap0 = w.context()
	}

	// 2. evaluation in the same context
	var err error
	code := src
	cfg := eval.EvalCfg{Ports: w.ports}
	switch route {
	case c16RouteCfg:
		cfg.Global = ev.Global()
	case c16RouteBuiltin:
		code = "eval " + parse.Quote(src)
	case c16RouteOnEnd:
		// the callback has no observable effect of its own
		code = "eval &on-end={|n| nop (keys $n) } " + parse.Quote(src)
	}
	if p := vk.Try(func() { err = ev.Eval(parse.Source{Name: "c16", Code: code}, cfg) }); p != "" {
		c.Violate(rn+":panic:"+vk.PanicSite(p), fmt.Sprintf("[%s] evaluating %q panicked: %s", rn, code, p), code)
		w.collect()
		w.release("", true)
		return rn + "/eval-panic"
	}
	kind := c16ErrKind(err)
	msgErr := err
	if route == c16RouteBuiltin || route == c16RouteOnEnd {
		// the eval builtin raises the parse / compilation error as an exception
		if kind != "ok" && kind != "exception" {
			c.Violate("builtin-eval-outer-static-error", fmt.Sprintf("%q itself failed with a %s error: %v", code, kind, err), code)
			w.collect()
			w.release("", true)
			return rn + "/outer-static"
		}
		if exc, ok := err.(eval.Exception); ok {
			if k := c16ErrKind(exc.Reason()); k == "parse" || k == "compile" {
				kind = k
				msgErr = exc.Reason()
			}
		}
	}
	static := kind == "parse" || kind == "compile"
	o := w.collect()
	snap1 := c16Snapshot(ev.Global())
	w.release(snap1, false)

	// 3. no part of code with a static error ran
	if static {
		if len(o.values) != 0 {
			c.Violate(rn+":ran-despite-static-error:value-output", fmt.Sprintf("[%s] %q reported a %s error (%v) but output values %v", rn, code, kind, msgErr, o.values), code)
		}
		if o.stdout != "" {
			c.Violate(rn+":ran-despite-static-error:byte-output", fmt.Sprintf("[%s] %q reported a %s error (%v) but wrote %q to stdout", rn, code, kind, msgErr, o.stdout), code)
		}
		if o.stderr != "" {
			c.Violate(rn+":ran-despite-static-error:stderr-output", fmt.Sprintf("[%s] %q reported a %s error (%v) but wrote %q to stderr", rn, code, kind, msgErr, o.stderr), code)
		}
		if !o.fileOK {
			c.Violate(rn+":ran-despite-static-error:file-written", fmt.Sprintf("[%s] %q reported a %s error (%v) but the file $f now contains %q (was %q)", rn, code, kind, msgErr, o.file, c16FileOrig), code)
		}
		if o.marks != 0 {
			c.Violate(rn+":ran-despite-static-error:command-called", fmt.Sprintf("[%s] %q reported a %s error (%v) but the command c16mark was called %d time(s)", rn, code, kind, msgErr, o.marks), code)
		}
		if snap1 != snap0 {
			c.Violate(rn+":global-changed-after-static-error", fmt.Sprintf("[%s] %q reported a %s error (%v) but the global namespace changed (name @variable = value):%s", rn, code, kind, msgErr, c16SnapDiff(snap0, snap1)), code)
		}
	}

	// 4. the static check agrees with evaluation
	if w.modFamily && !static {
		w.ev = nil
	}
	if static {
		// same errors (message and position): parse errors if the code does not
		// parse (evaluation stops there), otherwise compilation errors
		want, got := c16ErrList(msgErr), c16ErrList(ce)
		if kind == "parse" {
			got = c16ErrList(pe)
		} else if pe != nil {
			got = c16ErrList(pe) + got // Check found parse errors where evaluation found none
		}
		if checkBad && got != want {
			c.Violate(rn+":check-and-eval-errors-differ", fmt.Sprintf("Check(%q) reported [%s] but evaluating [%s] %q reported the %s errors [%s]", src, got, rn, code, kind, want), src)
		}
	}
	if checkBad && !static {
		c.Violate(rn+":check-error-but-eval-has-none", fmt.Sprintf("Check(%q) reported parse error %v / compilation error %v, but evaluating [%s] %q reported no parse or compilation error (result: %s %v)", src, pe, ce, rn, code, kind, err), src)
	}
	if !checkBad && static {
		c.Violate(rn+":eval-error-but-check-has-none", fmt.Sprintf("Check(%q) reported no error, but evaluating [%s] %q reported a %s error: %v", src, rn, code, kind, msgErr), src)
	}

	// 5. documented expectation
	switch exp {
	case c16Bad:
		if !static {
			c.Violate("documented-static-error-not-reported:"+cause, fmt.Sprintf("[%s] %q must be rejected with a parse or compilation error before anything runs (%s), but evaluation result was %s %v; effects: values=%v stdout=%q stderr=%q file=%q calls=%d", rn, code, cause, kind, err, o.values, o.stdout, o.stderr, o.file, o.marks), code)
		}
	case c16OK:
		if static {
			c.Violate("valid-code-rejected:"+kind, fmt.Sprintf("[%s] %q is valid code but was rejected with a %s error: %v", rn, code, kind, msgErr), code)
		}
	}
	eff := "quiet"
	if !o.quiet() || snap1 != snap0 {
		eff = "effects"
	}
	return rn + "/" + kind + "/" + c16FirstMsg(msgErr) + "/" + eff
}

// ---------------------------------------------------------------------------
// Module family: module-qualified command heads, variable references,
// assignments and imports, for a builtin module known to the Evaler (str), a
// module added with AddModule (mod1), a file module in the lib dir (mod2) and
// a module that does not exist (nomod); none is imported initially.

var c16Mods = []string{"str", "mod1", "mod2", "nomod"}

const (
	c16ModHead = iota
	c16ModVar
	c16ModSet
	c16ModFnVar
	c16ModUse
	c16NModKinds
)

type c16ModStmt struct {
	mod    int // -1: neutral "put a"
	kind   int
	nested bool // placed in its own called lambda
}

func (m c16ModStmt) code() string {
	if m.mod < 0 {
		return "put a"
	}
	name := c16Mods[m.mod]
	var s string
	switch m.kind {
	case c16ModHead:
		s = name + ":foo a"
		if name == "str" {
			s = "str:join , [a]"
		}
	case c16ModVar:
		s = "echo $" + name + ":bar"
	case c16ModSet:
		s = "set " + name + ":bar = x"
	case c16ModFnVar:
		s = "put $" + name + ":foo~"
		if name == "str" {
			s = "put $str:join~"
		}
	case c16ModUse:
		s = "use " + name
	}
	if m.nested {
		s = "{ " + s + " }"
	}
	return s
}

// c16ModExpect: a variable reference or assignment through a namespace that
// has not been imported by an earlier `use` in the same or the enclosing scope
// is an unresolved variable (documented compilation error); everything else
// here is statically valid (unknown command heads are external commands under
// the default pragma, a failing import is a run-time exception).
func c16ModExpect(seq []c16ModStmt) (int, string) {
	vis := map[int]bool{}
	for _, m := range seq {
		if m.mod < 0 {
			continue
		}
		switch m.kind {
		case c16ModUse:
			if !m.nested {
				vis[m.mod] = true
			}
		case c16ModVar, c16ModSet, c16ModFnVar:
			if !vis[m.mod] {
				return c16Bad, "unimported-module-variable"
			}
		}
	}
	return c16OK, "valid"
}

// ---------------------------------------------------------------------------
// Token family: every sequence of word tokens (joined by single spaces).

var c16Tokens = []string{
	"put", "a", ";", "$nx", "c16mark", "{", "}", "$g", "\n", "(", ")", "[", "]", "'", "|",
	"var", "set", "g", "=", "v", ">", "$f", "if", "fn", "del", "tmp", "nx", "$v",
}

// ---------------------------------------------------------------------------
// Shell family: elvish -compileonly -c code vs elvish -c code through prog.Run.

type c16ShellRes struct {
	exit           int
	stdout, stderr string
}

func (w *c16Worker) runShell(args ...string) (r c16ShellRes, panicked string) {
	devnull, err := os.Open(os.DevNull)
	if err != nil {
		panic(err)
	}
	defer devnull.Close()
	panicked = vk.Try(func() {
		r.exit = prog.Run([3]*os.File{devnull, w.out, w.err}, append([]string{"elvish"}, args...), &shell.Program{})
	})
	r.stdout = c16Drain(w.out)
	r.stderr = c16Drain(w.err)
	return
}

// kind of failure reported by `elvish -c` on stderr (diag.ShowError output)
func c16ShellErrKind(stderr string) string {
	s := strings.ToLower(stderr)
	switch {
	case strings.Contains(s, "parse error"):
		return "parse"
	case strings.Contains(s, "compilation error"):
		return "compile"
	case strings.Contains(s, "exception:"):
		return "exception"
	case s == "":
		return "ok"
	}
	return "other"
}

// Effects usable in a fresh shell (no pre-existing globals); %F = scratch file.
var c16ShellEffects = []int{0, 6, 7, 8, 9, 10} // indices into c16Effects, plus the file effect below
const c16ShellFileEffect = -1

func c16ShellEffCode(i int, fpath string) string {
	if i == c16ShellFileEffect {
		return "echo x > " + parse.Quote(fpath)
	}
	return c16Effects[i].code
}

func c16RunShellCase(c *vk.Ctx, w *c16Worker, src string, exp int, cause string) string {
	shown := strings.ReplaceAll(src, w.fpath, "$F")
	// static check entry points
	co, p := w.runShell("-compileonly", "-c", src)
	if p != "" {
		c.Violate("panic-in-compileonly:"+vk.PanicSite(p), fmt.Sprintf("elvish -compileonly -c %q panicked: %s", shown, p), shown)
		return "shell/panic"
	}
	cj, p := w.runShell("-compileonly", "-json", "-c", src)
	if p != "" {
		c.Violate("panic-in-compileonly:"+vk.PanicSite(p), fmt.Sprintf("elvish -compileonly -json -c %q panicked: %s", shown, p), shown)
		return "shell/panic"
	}
	if b, err := os.ReadFile(w.fpath); err != nil || string(b) != c16FileOrig {
		c.Violate("compileonly-ran-code:file-written", fmt.Sprintf("elvish -compileonly -c %q changed the file $F to %q", shown, b), shown)
		os.WriteFile(w.fpath, []byte(c16FileOrig), 0o644)
	}
	if co.stdout != "" {
		c.Violate("compileonly-ran-code:stdout", fmt.Sprintf("elvish -compileonly -c %q wrote %q to stdout", shown, co.stdout), shown)
	}
	coBad := co.exit != 0
	if (co.exit != 0) != (cj.exit != 0) {
		c.Violate("compileonly-json-disagrees", fmt.Sprintf("elvish -compileonly -c %q exits %d but with -json exits %d", shown, co.exit, cj.exit), shown)
	}
	if coBad != (co.stderr != "") {
		c.Violate("compileonly-exit-vs-diagnostics", fmt.Sprintf("elvish -compileonly -c %q exits %d with stderr %q", shown, co.exit, co.stderr), shown)
	}
	jsonEmpty := strings.TrimSpace(cj.stdout) == "null" || strings.TrimSpace(cj.stdout) == "[]"
	if coBad == jsonEmpty {
		c.Violate("compileonly-json-exit-vs-errors", fmt.Sprintf("elvish -compileonly -json -c %q exits %d with output %q", shown, cj.exit, cj.stdout), shown)
	}
	// evaluation
	r, p := w.runShell("-c", src)
	if p != "" {
		c.Violate("panic-in-shell-eval:"+vk.PanicSite(p), fmt.Sprintf("elvish -c %q panicked: %s", shown, p), shown)
		return "shell/panic"
	}
	kind := c16ShellErrKind(r.stderr)
	if r.exit == 0 {
		kind = "ok"
	}
	static := kind == "parse" || kind == "compile"
	b, _ := os.ReadFile(w.fpath)
	fileOK := string(b) == c16FileOrig
	if !fileOK {
		os.Remove(w.fpath)
		os.WriteFile(w.fpath, []byte(c16FileOrig), 0o644)
	}
	if static {
		if r.stdout != "" {
			c.Violate("shell:ran-despite-static-error:output", fmt.Sprintf("elvish -c %q reported a %s error but wrote %q to stdout", shown, kind, r.stdout), shown)
		}
		if !fileOK {
			c.Violate("shell:ran-despite-static-error:file-written", fmt.Sprintf("elvish -c %q reported a %s error but changed the file $F to %q", shown, kind, b), shown)
		}
	}
	if coBad && !static {
		c.Violate("shell:compileonly-error-but-eval-has-none", fmt.Sprintf("elvish -compileonly -c %q exits %d (%q) but elvish -c reports no parse or compilation error (exit %d, stderr %q)", shown, co.exit, co.stderr, r.exit, r.stderr), shown)
	}
	if !coBad && static {
		c.Violate("shell:eval-error-but-compileonly-has-none", fmt.Sprintf("elvish -compileonly -c %q exits 0 but elvish -c reports a %s error: %q", shown, kind, r.stderr), shown)
	}
	switch exp {
	case c16Bad:
		if !static {
			c.Violate("shell:documented-static-error-not-reported:"+cause, fmt.Sprintf("elvish -c %q must be rejected with a parse or compilation error (%s) but: exit %d stdout %q stderr %q", shown, cause, r.exit, r.stdout, r.stderr), shown)
		}
	case c16OK:
		if static {
			c.Violate("shell:valid-code-rejected:"+kind, fmt.Sprintf("elvish -c %q is valid code but was rejected: %q", shown, r.stderr), shown)
		}
	}
	return "shell/" + kind + fmt.Sprintf("/%d", r.exit)
}

// ---------------------------------------------------------------------------

// c16Seqs returns all index sequences of length 0..n over the given symbols,
// length-lexicographic.
func c16Seqs(syms []int, n int) [][]int {
	res := [][]int{{}}
	prev := [][]int{{}}
	for l := 1; l <= n; l++ {
		var cur [][]int
		for _, p := range prev {
			for _, s := range syms {
				cur = append(cur, append(append([]int{}, p...), s))
			}
		}
		res = append(res, cur...)
		prev = cur
	}
	return res
}

func c16Build(pre []int, off *c16Off, w *c16Wrap, suf []int, sep string, effCode func(int) string) string {
	var parts []string
	for _, i := range pre {
		parts = append(parts, effCode(i))
	}
	if off != nil {
		parts = append(parts, w.pre+off.code+w.post)
	}
	for _, i := range suf {
		parts = append(parts, effCode(i))
	}
	return strings.Join(parts, sep)
}

func TestVerifC16(t *testing.T) {
	vk.Run(t, "C16", "exploration", func(c *vk.Ctx) {
		scratch := os.Getenv("VERIF_SCRATCH")
		if scratch == "" {
			scratch = "/dev/shm"
		}
		var err error
		c16Base, err = os.MkdirTemp(scratch, "c16-")
		if err != nil {
			t.Fatal(err)
		}
		defer os.RemoveAll(c16Base)
		// no external command can be found or run; stray redirect targets land in the scratch cwd
		emptyBin := filepath.Join(c16Base, "emptybin")
		cwd := filepath.Join(c16Base, "cwd")
		c16LibDir = filepath.Join(c16Base, "lib")
		os.MkdirAll(c16LibDir, 0o755)
		if err := os.WriteFile(filepath.Join(c16LibDir, "mod2.elv"), []byte("var bar = 1\nfn foo {|@a| }\n"), 0o644); err != nil {
			t.Fatal(err)
		}
		os.MkdirAll(emptyBin, 0o755)
		os.MkdirAll(cwd, 0o755)
		os.Setenv("PATH", emptyBin)
		os.Setenv("HOME", cwd)
		os.Setenv("XDG_CONFIG_HOME", filepath.Join(cwd, "cfg"))
		os.Setenv("XDG_DATA_HOME", filepath.Join(cwd, "data"))
		os.Setenv("XDG_STATE_HOME", filepath.Join(cwd, "state"))
		os.Unsetenv("XDG_DATA_DIRS")
		oldwd, _ := os.Getwd()
		if err := os.Chdir(cwd); err != nil {
			t.Fatal(err)
		}
		defer os.Chdir(oldwd)

		maxPre := vk.Pick(c, 2, 3)
		maxSuf := 1
		maxTok := vk.Pick(c, 4, 5)
		maxMod := vk.Pick(c, 2, 3)
		seps := []string{"\n", "; "}
		allEff := make([]int, len(c16Effects))
		for i := range allEff {
			allEff[i] = i
		}
		pres := c16Seqs(allEff, maxPre)
		sufs := c16Seqs(allEff, maxSuf)

		c.Rule(fmt.Sprintf("family A: every program <prefix><sep><wrapped offender><sep><suffix> with prefix = every sequence of <=%d of the %d effect statements, offender = each of %d offending/control statements, wrapper = each of %d placements (%s), suffix = every sequence of <=%d effect statements, sep = newline, and also '; ' for prefixes shorter than the bound, plus every pure effect sequence; each run in a pristine Evaler context through 3 routes (Evaler.Eval with default global, with cfg.Global, eval builtin) and, for prefixes of <=1 statement, the eval builtin with an &on-end callback (quick tier: the cfg.Global route also only for prefixes of <=1 statement); Check first. Family B: every sequence of <=%d word tokens over %d tokens %q joined by spaces, route eval, and builtin-eval for sequences shorter than the bound. Family D: every sequence of <=%d statements over 41 module statements ({command head M:foo a, echo $M:bar, set M:bar = x, put $M:foo~, use M} x M in {str (builtin module known to the Evaler), mod1 (AddModule), mod2 (file in the lib dir), nomod} x {same scope, own nested lambda}, plus put a), at top level and inside an enclosing lambda, both separators, all 4 routes, none of the modules imported initially; Check, CheckTree and evaluation are compared on static error yes/no and on the list of error positions and messages. Family C: elvish -compileonly [-json] -c / elvish -c through prog.Run on prefix(<=1 of 7 shell effects) x offender x wrapper x suffix(<=1). class = (route, outcome kind, first error message, effects or quiet) plus offender kind x wrapper x expectation",
			maxPre, len(c16Effects), len(c16Offenders), len(c16Wraps), "bare, lambda, fn-uncalled, if-true, if-false, try, capture, pipeline, lambda-arg", maxSuf, maxTok, len(c16Tokens), c16Tokens, maxMod))
		c.Assume("observed effect channels: value channel and byte file of stdout, byte file of stderr, one scratch file that programs redirect to, a Go command counting its calls, and the Evaler's global namespace (names, variable identity, repr of values); other effects (environment variables, cwd, other files) are not observed",
			"'same context' = the same fresh Evaler state (global g, f, c16mark~; str module) for Check and for evaluation; Check runs first and must itself leave the context unchanged",
			"documented expectation (must / must not be a static error) is judged only for constructs whose static rejection is documented in language.md (undefined variable, unknown command under pragma, set of nonexistent variable, bad lvalue, try/else without catch, tmp outside function, unbalanced brackets/quotes); others are counted as expectation_not_judged but still subject to all other clauses",
			"the shell family observes static errors of `elvish -c` through the diagnostics on stderr (Parse error / Compilation error / Exception) and exit codes")

		// self-test of the observation machinery: every effect statement alone must be visible
		{
			w := c16WorkerFor(vk.NewLocal())
			for i, e := range c16Effects {
				ev := w.newEvaler()
				s0 := c16Snapshot(ev.Global())
				err := ev.Eval(parse.Source{Name: "c16", Code: e.code}, eval.EvalCfg{Ports: w.ports})
				o := w.collect()
				if err != nil || (o.quiet() && c16Snapshot(ev.Global()) == s0) {
					fmt.Printf("HARNESS-ERROR property=C16 effect %d %q is not observable (err=%v)\n", i, e.code, err)
					t.Fatalf("effect not observable")
				}
			}
		}

		// ---- family A
		tFam := time.Now() // reporting only, never part of an oracle
		type caseA struct {
			pre, suf []int
			off      int // -1: pure effect sequence
			wrap     int
		}
		var casesA []caseA
		for _, p := range pres {
			casesA = append(casesA, caseA{pre: p, off: -1})
		}
		for _, p := range pres {
			for oi := range c16Offenders {
				for wi := range c16Wraps {
					for _, s := range sufs {
						casesA = append(casesA, caseA{p, s, oi, wi})
					}
				}
			}
		}
		effCode := func(i int) string { return c16Effects[i].code }
		var notJudged, nA int64
		// simplest first: programs without prefix and suffix run sequentially
		// before everything else, so that the shortest counterexample of a key
		// is the one reported
		sort.SliceStable(casesA, func(i, j int) bool {
			return len(casesA[i].pre)+len(casesA[i].suf) == 0 && len(casesA[j].pre)+len(casesA[j].suf) != 0
		})
		nSimple := 0
		for nSimple < len(casesA) && len(casesA[nSimple].pre)+len(casesA[nSimple].suf) == 0 {
			nSimple++
		}
		runA := func(l *vk.Local, i int) {
			if c.TimeUp() {
				c.Capped("time budget reached in family A")
				return
			}
			w := c16WorkerFor(l)
			ca := casesA[i]
			var off *c16Off
			var wr *c16Wrap
			label := "effects-only"
			if ca.off >= 0 {
				off, wr = &c16Offenders[ca.off], &c16Wraps[ca.wrap]
				label = off.kind + "@" + wr.name
			}
			exp, cause := c16Expect(c16InitialNames, ca.pre, off, wr, ca.suf)
			if exp == c16Unknown {
				atomic.AddInt64(&notJudged, 1)
			}
			for si, sep := range seps {
				if si > 0 && (len(ca.pre) >= maxPre || (len(ca.pre)+len(ca.suf) == 0 && (off == nil || !strings.Contains(off.code, "; ")))) {
					// the second separator is used with prefixes shorter than the bound only
					continue
				}
				src := c16Build(ca.pre, off, wr, ca.suf, sep, effCode)
				if off != nil && sep == "\n" {
					src = strings.ReplaceAll(src, "; ", "\n")
				}
				for route := 0; route < c16NRoutes; route++ {
					if route == c16RouteOnEnd && len(ca.pre) > 1 {
						continue // the &on-end route runs with prefixes of <=1 statement
					}
					if route == c16RouteCfg && len(ca.pre) > 1 && !c.Thorough() {
						continue // quick: the cfg.Global route runs with prefixes of <=1 statement
					}
					cls := c16RunCase(c, w, route, src, exp, cause)
					atomic.AddInt64(&nA, 1)
					l.Case(fmt.Sprintf("A/%s/%d/%s", label, exp, cls))
				}
				if i%9973 == 0 {
					c.Sample(src)
				}
			}
		}
		l0 := vk.NewLocal()
		for i := 0; i < nSimple; i++ {
			runA(l0, i)
		}
		c.Merge(l0)
		c.Parallel(len(casesA)-nSimple, func(l *vk.Local, i int) { runA(l, i+nSimple) })
		c.Set("familyA_wall_s", time.Since(tFam).Seconds())
		tFam = time.Now()
		c.Set("familyA_programs", len(casesA))
		c.Set("familyA_runs", nA)
		c.Set("familyA_expectation_not_judged_programs", notJudged)

		// ---- family D (modules)
		{
			var alpha []c16ModStmt
			alpha = append(alpha, c16ModStmt{mod: -1})
			for mi := range c16Mods {
				for k := 0; k < c16NModKinds; k++ {
					alpha = append(alpha, c16ModStmt{mi, k, false}, c16ModStmt{mi, k, true})
				}
			}
			ids := make([]int, len(alpha))
			for i := range ids {
				ids[i] = i
			}
			seqsD := c16Seqs(ids, maxMod)
			var nD int64
			c.Parallel(len(seqsD), func(l *vk.Local, i int) {
				if c.TimeUp() {
					c.Capped("time budget reached in family D")
					return
				}
				w := c16WorkerFor(l)
				w.modFamily = true
				defer func() { w.modFamily = false; w.ev = nil }()
				seq := make([]c16ModStmt, len(seqsD[i]))
				parts := make([]string, len(seq))
				cls := ""
				for j, id := range seqsD[i] {
					seq[j] = alpha[id]
					parts[j] = seq[j].code()
					if seq[j].mod >= 0 {
						cls += fmt.Sprintf("%s%d%v,", c16Mods[seq[j].mod], seq[j].kind, seq[j].nested)
					}
				}
				if len(seq) > 2 {
					cls = fmt.Sprintf("len%d", len(seq))
				}
				exp, cause := c16ModExpect(seq)
				for si, sep := range seps {
					if si > 0 && len(seq) < 2 {
						continue
					}
					body := strings.Join(parts, sep)
					for oi, src := range []string{body, "{ " + body + " }"} {
						if len(seq) == 0 && oi > 0 {
							continue
						}
						for route := 0; route < c16NRoutes; route++ {
							r := c16RunCase(c, w, route, src, exp, cause)
							atomic.AddInt64(&nD, 1)
							l.Case(fmt.Sprintf("D/%s/%d/%d/%s", cls, oi, exp, r))
						}
					}
				}
			})
			c.Set("familyD_wall_s", time.Since(tFam).Seconds())
			tFam = time.Now()
			c.Set("familyD_sequences", len(seqsD))
			c.Set("familyD_runs", nD)
		}

		// ---- family B
		var nB int64
		c.EnumSeqs(len(c16Tokens), maxTok, func(l *vk.Local, idx []int) {
			w := c16WorkerFor(l)
			parts := make([]string, len(idx))
			for i, j := range idx {
				parts[i] = c16Tokens[j]
			}
			src := strings.Join(parts, " ")
			for _, route := range []int{c16RouteDefault, c16RouteBuiltin} {
				if route == c16RouteBuiltin && len(idx) >= maxTok {
					continue // the eval builtin route runs sequences shorter than the bound
				}
				cls := c16RunCase(c, w, route, src, c16Unknown, "tokens")
				l.Case("B/" + cls)
			}
			atomic.AddInt64(&nB, 1)
		})
		c.Set("familyB_wall_s", time.Since(tFam).Seconds())
		tFam = time.Now()
		c.Set("familyB_programs", nB)

		// ---- family C
		type caseC struct {
			pre, suf []int
			off      int
			wrap     int
		}
		shellEff := append([]int{c16ShellFileEffect}, c16ShellEffects...)
		var casesC []caseC
		spre := c16Seqs(shellEff, 1)
		for _, p := range spre {
			for oi := range c16Offenders {
				for wi := range c16Wraps {
					if !c.Thorough() && wi > 2 && len(p) > 0 {
						continue
					}
					for _, s := range spre {
						if !c.Thorough() && len(s) > 0 && len(p) > 0 {
							continue
						}
						casesC = append(casesC, caseC{p, s, oi, wi})
					}
				}
			}
		}
		var nC int64
		c.Parallel(len(casesC), func(l *vk.Local, i int) {
			if c.TimeUp() {
				c.Capped("time budget reached in family C")
				return
			}
			w := c16WorkerFor(l)
			cc := casesC[i]
			off, wr := &c16Offenders[cc.off], &c16Wraps[cc.wrap]
			label := off.kind + "@" + wr.name
			// the model only knows c16Effects; the file effect needs no name
			model := func(s []int) []int {
				var r []int
				for _, x := range s {
					if x >= 0 {
						r = append(r, x)
					}
				}
				return r
			}
			exp, cause := c16Expect(nil, model(cc.pre), off, wr, model(cc.suf))
			src := c16Build(cc.pre, off, wr, cc.suf, "\n", func(i int) string { return c16ShellEffCode(i, w.fpath) })
			cls := c16RunShellCase(c, w, src, exp, cause)
			atomic.AddInt64(&nC, 1)
			l.Case(fmt.Sprintf("C/%s/%d/%s", label, exp, cls))
		})
		c.Set("familyC_wall_s", time.Since(tFam).Seconds())
		c.Set("familyC_programs", nC)
	})
}
