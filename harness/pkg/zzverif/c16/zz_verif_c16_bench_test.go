//go:build verif

package c16

import (
	"fmt"
	"os"
	"testing"
	"time"

	"src.elv.sh/pkg/eval"
	"src.elv.sh/pkg/parse"
	"src.elv.sh/pkg/zzverif/vk"
)

func TestC16Bench(t *testing.T) {
	c16Base, _ = os.MkdirTemp("/dev/shm/c16tmp", "b-")
	defer os.RemoveAll(c16Base)
	w := c16WorkerFor(vk.NewLocal())
	n := 2000
	t0 := time.Now()
	for i := 0; i < n; i++ {
		eval.NewEvaler()
	}
	fmt.Println("NewEvaler", time.Since(t0)/time.Duration(n))
	t0 = time.Now()
	for i := 0; i < n; i++ {
		w.newEvaler()
	}
	fmt.Println("newEvaler", time.Since(t0)/time.Duration(n))
	ev := w.newEvaler()
	t0 = time.Now()
	for i := 0; i < n; i++ {
		c16Snapshot(ev.Global())
	}
	fmt.Println("snapshot", time.Since(t0)/time.Duration(n))
	t0 = time.Now()
	for i := 0; i < n; i++ {
		w.collect()
	}
	fmt.Println("collect", time.Since(t0)/time.Duration(n))
	t0 = time.Now()
	for i := 0; i < n; i++ {
		ev.Check(parse.Source{Name: "c16", Code: "put a\nput $nx"}, nil)
	}
	fmt.Println("check", time.Since(t0)/time.Duration(n))
	t0 = time.Now()
	for i := 0; i < n; i++ {
		ev.Eval(parse.Source{Name: "c16", Code: "put a\necho b"}, eval.EvalCfg{Ports: w.ports})
		w.collect()
	}
	fmt.Println("eval+collect", time.Since(t0)/time.Duration(n))
	t0 = time.Now()
	for i := 0; i < 200; i++ {
		w.runShell("-compileonly", "-c", "put a")
	}
	fmt.Println("shell", time.Since(t0)/200)
}
