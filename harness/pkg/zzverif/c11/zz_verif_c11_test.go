//go:build verif

// Package c11 holds the C11 check: exact arithmetic is mathematically exact and
// canonical. Every argument tuple over a small pool of exact numbers (machine
// integers around 0 and around the +-2^63 boundary, big integers, rationals; as
// typed numbers and as strings) is given to the real builtins + - * / % range
// and math:abs ceil floor round round-to-even trunc min max pow through a real
// Evaler, and the output is compared with an oracle on *big.Rat written from
// the documentation (builtin_fn_num.d.elv, math.d.elv, ref/builtin.md
// "Exactness-preserving commands", ref/language.md "Number").
package c11

import (
	"fmt"
	"math"
	"math/big"
	"sort"
	"strconv"
	"strings"
	"sync"
	"testing"

	"src.elv.sh/pkg/eval"
	emath "src.elv.sh/pkg/mods/math"
	"src.elv.sh/pkg/parse"
	"src.elv.sh/pkg/zzverif/vk"
)

// ---------------------------------------------------------------- operands

// The range of the machine integer (the check assumes a 64-bit int).
var (
	c11MinInt = new(big.Int).Neg(new(big.Int).Lsh(big.NewInt(1), 63))
	c11MaxInt = new(big.Int).Sub(new(big.Int).Lsh(big.NewInt(1), 63), big.NewInt(1))
)

// The operand pool of the plan (18 values), simplest first.
var c11Pool = []string{"0", "1", "-1", "2", "-2", "3", "7",
	"4611686018427387904",    // 2^62
	"9223372036854775807",    // 2^63-1
	"-9223372036854775808",   // -2^63
	"9223372036854775808",    // 2^63
	"-9223372036854775809",   // -2^63-1
	"18446744073709551616",   // 2^64
	"1/2", "-1/2", "3/2",
	"9223372036854775808/3", // 2^63/3
	"-7/2"}

// Additional operands of the thorough tier.
var c11PoolMore = []string{"-3", "5", "10", "-7",
	"2147483648",             // 2^31
	"4294967296",             // 2^32
	"9007199254740993",       // 2^53+1
	"-4611686018427387904",   // -2^62
	"9223372036854775806",    // 2^63-2
	"-9223372036854775807",   // -2^63+1
	"-18446744073709551616",  // -2^64
	"13835058055282163712",   // 3*2^62
	"1000000000000000000000000000000", // 10^30
	"1/3", "-3/2", "2/3", "7/2", "5/2",
	"-9223372036854775808/3",
	"18446744073709551616/3",
	"1/9223372036854775808",
	"9223372036854775807/2"}

// Sub-pool for the 5- and 6-argument calls and for range.
var c11PoolSmall = []string{"0", "1", "-1", "4611686018427387904", "9223372036854775807", "-9223372036854775808", "1/2", "9223372036854775808/3"}
var c11PoolSmallMore = []string{"2", "-1/2"}
var c11PoolRange = []string{"0", "1", "-2", "3", "7", "9223372036854775807", "-9223372036854775808", "9223372036854775808", "1/2", "-7/2"}

// Other spellings of pool values that are only possible as strings: they must
// be normalised on input (exact-zero rules, canonical output).
var c11AltSpellings = []string{"2/1", "6/4", "0/5", "-0", "0x8000000000000000"}

// Inexact operands for the exact-zero rules of * and /.
var c11Floats = []float64{0, math.Copysign(0, -1), 0.5, -1.5, math.Inf(1), math.Inf(-1), math.NaN(), 1e308}
var c11FloatText = []string{"0.0", "-0.0", "0.5", "-1.5", "+Inf", "-Inf", "NaN", "1e308"}

// Exact operands that are combined with the inexact ones.
var c11PoolZeroRule = []string{"0", "1", "-2", "1/2", "9223372036854775808"}

// c11Sym is one argument symbol: a number in one representation.
type c11Sym struct {
	r    *big.Rat // exact value; nil for an inexact symbol
	f    float64  // value of an inexact symbol
	arg  any      // the value handed to the command
	kind byte     // 'i' int, 'b' *big.Int, 'r' *big.Rat, 's' string spelling an exact number, 'f' float64, 'g' string spelling an inexact number
	text string   // elvish source text of the argument
	cost int      // complexity rank, used to report the simplest counterexample of a class
}

func c11RatText(r *big.Rat) string {
	if r.IsInt() {
		return r.Num().String()
	}
	return r.String()
}

func c11ParseRat(s string) *big.Rat {
	if strings.HasPrefix(s, "0x") {
		n, ok := new(big.Int).SetString(s[2:], 16)
		if !ok {
			panic("c11: bad pool entry " + s)
		}
		return new(big.Rat).SetInt(n)
	}
	r, ok := new(big.Rat).SetString(s)
	if !ok {
		panic("c11: bad pool entry " + s)
	}
	return r
}

// c11Typed builds the one representation elvish allows for an exact number
// ("each number in Elvish only has a single unique representation").
func c11Typed(r *big.Rat) (any, byte) {
	if r.IsInt() {
		n := new(big.Int).Set(r.Num())
		if n.Cmp(c11MinInt) >= 0 && n.Cmp(c11MaxInt) <= 0 {
			return int(n.Int64()), 'i'
		}
		return n, 'b'
	}
	return new(big.Rat).Set(r), 'r'
}

// c11Syms is the symbol table of one worker (typed big values are private to
// the worker, so that a command mutating an argument is noticed and cannot
// disturb other workers).
type c11Syms struct {
	all   []*c11Sym
	typed map[string]int // pool text -> symbol index
	str   map[string]int
	alt   []int
	ftyp  []int
	fstr  []int
}

func c11BuildSyms(pools ...[]string) *c11Syms {
	t := &c11Syms{typed: map[string]int{}, str: map[string]int{}}
	add := func(s *c11Sym) int {
		s.cost = len(t.all)
		t.all = append(t.all, s)
		return len(t.all) - 1
	}
	for _, pool := range pools {
		for _, txt := range pool {
			if _, dup := t.typed[txt]; dup {
				continue
			}
			r := c11ParseRat(txt)
			arg, kind := c11Typed(r)
			t.typed[txt] = add(&c11Sym{r: r, arg: arg, kind: kind, text: "(num " + c11RatText(r) + ")"})
			t.str[txt] = add(&c11Sym{r: r, arg: c11RatText(r), kind: 's', text: c11RatText(r)})
		}
	}
	for _, txt := range c11AltSpellings {
		t.alt = append(t.alt, add(&c11Sym{r: c11ParseRat(txt), arg: txt, kind: 's', text: txt}))
	}
	for i, f := range c11Floats {
		t.ftyp = append(t.ftyp, add(&c11Sym{f: f, arg: f, kind: 'f', text: "(num " + c11FloatText[i] + ")"}))
		t.fstr = append(t.fstr, add(&c11Sym{f: f, arg: c11FloatText[i], kind: 'g', text: c11FloatText[i]}))
	}
	return t
}

func (t *c11Syms) set(typed, str bool, pools ...[]string) []int {
	var out []int
	seen := map[string]bool{}
	for _, pool := range pools {
		for _, txt := range pool {
			if seen[txt] {
				continue
			}
			seen[txt] = true
			if typed {
				out = append(out, t.typed[txt])
			}
			if str {
				out = append(out, t.str[txt])
			}
		}
	}
	return out
}

// ---------------------------------------------------------------- oracle

// c11Exp is what the documentation demands of one call.
type c11Exp struct {
	kind   byte       // 'v' these exact values in canonical form; 'x' an exception; 'f' one inexact number (only the type is judged); 'n' not judged (must not panic); 0 do not run
	vals   []*big.Rat // for 'v'
	reason string     // which rule applies (part of the class and of the violation key)
}

func c11V(reason string, v ...*big.Rat) c11Exp { return c11Exp{kind: 'v', vals: v, reason: reason} }
func c11X(reason string) c11Exp                 { return c11Exp{kind: 'x', reason: reason} }

var (
	c11Zero = new(big.Rat)
	c11One  = big.NewRat(1, 1)
	c11Half = big.NewRat(1, 2)
)

func c11AnyInexact(a []*c11Sym) bool {
	for _, s := range a {
		if s.r == nil {
			return true
		}
	}
	return false
}

func c11IsExactZero(s *c11Sym) bool { return s.r != nil && s.r.Sign() == 0 }

// "Outputs the sum of all arguments, or 0 when there are no arguments."
func c11Add(a []*c11Sym) c11Exp {
	if c11AnyInexact(a) {
		return c11Exp{kind: 'f', reason: "inexact-argument"}
	}
	acc := new(big.Rat)
	for _, s := range a {
		acc.Add(acc, s.r)
	}
	return c11V("value", acc)
}

// "subtracting from $x-num all the $y-nums ... When no $y-num is given, outputs
// the negation of $x-num"; the signature {|x-num @y-num|} needs one argument.
func c11Sub(a []*c11Sym) c11Exp {
	if len(a) == 0 {
		return c11X("arity")
	}
	if c11AnyInexact(a) {
		return c11Exp{kind: 'f', reason: "inexact-argument"}
	}
	if len(a) == 1 {
		return c11V("value", new(big.Rat).Neg(a[0].r))
	}
	acc := new(big.Rat).Set(a[0].r)
	for _, s := range a[1:] {
		acc.Sub(acc, s.r)
	}
	return c11V("value", acc)
}

// "Outputs the product of all arguments, or 1 when there are no arguments. ...
// when any argument is exact 0 and no other argument is a floating-point
// infinity, the result is exact 0."
func c11Mul(a []*c11Sym) c11Exp {
	if c11AnyInexact(a) {
		zero, inf := false, false
		for _, s := range a {
			if c11IsExactZero(s) {
				zero = true
			}
			if s.r == nil && math.IsInf(s.f, 0) {
				inf = true
			}
		}
		if zero && !inf {
			return c11V("exact-zero-rule", new(big.Rat))
		}
		return c11Exp{kind: 'f', reason: "inexact-argument"}
	}
	acc := new(big.Rat).Set(c11One)
	for _, s := range a {
		acc.Mul(acc, s.r)
	}
	return c11V("value", acc)
}

// "dividing $x-num with all the $y-nums, working from left to right. When no
// $y-num is given, outputs the reciprocal of $x-num instead (in other words,
// `/ $y-num` is equivalent to `/ 1 $y-num`). Dividing by exact 0 raises an
// exception. ... when $x-num is exact 0 and no $y-num is exact 0, the result is
// exact 0."
func c11Div(a []*c11Sym) c11Exp {
	if len(a) == 0 {
		return c11Exp{} // `/` alone is `cd /`
	}
	if len(a) == 1 {
		if c11IsExactZero(a[0]) {
			return c11X("reciprocal-of-exact-zero")
		}
		if a[0].r == nil {
			return c11Exp{kind: 'f', reason: "inexact-argument"}
		}
		return c11V("value", new(big.Rat).Inv(a[0].r))
	}
	for _, s := range a[1:] {
		if c11IsExactZero(s) {
			return c11X("division-by-exact-zero")
		}
	}
	if c11AnyInexact(a) {
		if c11IsExactZero(a[0]) {
			return c11V("exact-zero-rule", new(big.Rat))
		}
		return c11Exp{kind: 'f', reason: "inexact-argument"}
	}
	acc := new(big.Rat).Set(a[0].r)
	for _, s := range a[1:] {
		acc.Quo(acc, s.r)
	}
	return c11V("value", acc)
}

// c11Floor is the greatest integer <= r, from truncated division.
func c11Floor(r *big.Rat) *big.Int {
	q := new(big.Int).Quo(r.Num(), r.Denom()) // truncates toward zero; the denominator is positive
	if r.Sign() < 0 && new(big.Int).Mul(q, r.Denom()).Cmp(r.Num()) != 0 {
		q.Sub(q, big.NewInt(1))
	}
	return q
}

func c11FloorRat(r *big.Rat) *big.Rat { return new(big.Rat).SetInt(c11Floor(r)) }

// "Outputs the remainder after dividing $x by $y. The result has the same sign
// as $x. Both arguments must be exact integers."
func c11Rem(a []*c11Sym) c11Exp {
	if len(a) != 2 {
		return c11X("arity")
	}
	if !a[0].r.IsInt() || !a[1].r.IsInt() {
		return c11X("non-integer-argument")
	}
	if a[1].r.Sign() == 0 {
		return c11X("division-by-exact-zero")
	}
	// x = y*q + rem with |rem| < |y| and rem of the sign of x: q = sign * floor(|x|/|y|)
	ax, ay := new(big.Rat).Abs(a[0].r), new(big.Rat).Abs(a[1].r)
	q := c11FloorRat(new(big.Rat).Quo(ax, ay))
	rem := new(big.Rat).Sub(ax, new(big.Rat).Mul(q, ay))
	if a[0].r.Sign() < 0 {
		rem.Neg(rem)
	}
	return c11V("value", rem)
}

func c11Unary(f func(r *big.Rat) *big.Rat) func(a []*c11Sym) c11Exp {
	return func(a []*c11Sym) c11Exp {
		if len(a) != 1 {
			return c11X("arity")
		}
		return c11V("value", f(a[0].r))
	}
}

func c11AbsRat(r *big.Rat) *big.Rat {
	if r.Sign() < 0 {
		return new(big.Rat).Neg(r)
	}
	return new(big.Rat).Set(r)
}

// "the least integer greater than or equal to $number"
func c11CeilRat(r *big.Rat) *big.Rat {
	f := c11FloorRat(new(big.Rat).Neg(r))
	return f.Neg(f)
}

// "the integer portion of $number"
func c11TruncRat(r *big.Rat) *big.Rat {
	t := c11FloorRat(c11AbsRat(r))
	if r.Sign() < 0 {
		t.Neg(t)
	}
	return t
}

// "the nearest integer, rounding half away from zero"
func c11RoundRat(r *big.Rat) *big.Rat {
	t := c11FloorRat(new(big.Rat).Add(c11AbsRat(r), c11Half))
	if r.Sign() < 0 {
		t.Neg(t)
	}
	return t
}

// "the nearest integer, rounding ties to even"
func c11RoundEvenRat(r *big.Rat) *big.Rat {
	lo := c11Floor(r)
	frac := new(big.Rat).Sub(r, new(big.Rat).SetInt(lo))
	switch frac.Cmp(c11Half) {
	case -1:
		return new(big.Rat).SetInt(lo)
	case 1:
		return new(big.Rat).SetInt(lo.Add(lo, big.NewInt(1)))
	}
	if lo.Bit(0) == 0 {
		return new(big.Rat).SetInt(lo)
	}
	return new(big.Rat).SetInt(lo.Add(lo, big.NewInt(1)))
}

// "Outputs the maximum/minimum number in the arguments. If there are no
// arguments, an exception is thrown."
func c11Extreme(sign int) func(a []*c11Sym) c11Exp {
	return func(a []*c11Sym) c11Exp {
		if len(a) == 0 {
			return c11X("arity")
		}
		best := a[0].r
		for _, s := range a[1:] {
			if s.r.Cmp(best)*sign > 0 {
				best = s.r
			}
		}
		return c11V("value", new(big.Rat).Set(best))
	}
}

// c11PowLimit bounds |exponent| for bases other than 0 and +-1 (the result of
// a larger power does not fit in memory); larger ones are not run.
const c11PowLimit = 1000

// "raising $base to the power of $exponent. This function produces an exact
// result when $base is exact and $exponent is an exact integer. Otherwise it
// produces an inexact result." A negative power of zero has no value.
func c11Pow(a []*c11Sym) c11Exp {
	if len(a) != 2 {
		return c11X("arity")
	}
	base, exp := a[0].r, a[1].r
	if !exp.IsInt() {
		return c11Exp{kind: 'f', reason: "non-integer-exponent"}
	}
	e := exp.Num()
	if base.Sign() == 0 {
		switch e.Sign() {
		case -1:
			return c11X("zero-to-negative-power")
		case 0:
			return c11Exp{kind: 'n', reason: "zero-to-zero"} // the documentation does not define 0^0
		}
		return c11V("value", new(big.Rat))
	}
	if c11AbsRat(base).Cmp(c11One) == 0 {
		if base.Sign() < 0 && e.Bit(0) == 1 {
			return c11V("value", big.NewRat(-1, 1))
		}
		return c11V("value", big.NewRat(1, 1))
	}
	if new(big.Int).Abs(e).Cmp(big.NewInt(c11PowLimit)) > 0 {
		return c11Exp{} // too large to compute
	}
	n := int(new(big.Int).Abs(e).Int64())
	acc := new(big.Rat).Set(c11One)
	for i := 0; i < n; i++ {
		acc.Mul(acc, base)
	}
	if e.Sign() < 0 {
		acc.Inv(acc)
	}
	return c11V("value", acc)
}

// c11RangeCap is the number of outputs of range that are looked at.
const c11RangeCap = 51

// "Outputs numbers, starting from $start and ending before $end, using &step as
// the increment. If $start <= $end, &step defaults to 1, and range outputs
// values as long as they are smaller than $end. An exception is thrown if &step
// is given a negative value. If $start > $end, &step defaults to -1, and range
// outputs values as long as they are greater than $end. An exception is thrown
// if &step is given a positive value." Signature {|&step start=0 end|}.
func c11Range(step *c11Sym, a []*c11Sym) c11Exp {
	if len(a) < 1 || len(a) > 2 {
		return c11X("arity")
	}
	start, end := c11Zero, a[len(a)-1].r
	if len(a) == 2 {
		start = a[0].r
	}
	asc := start.Cmp(end) <= 0
	var s *big.Rat
	switch {
	case step == nil && asc:
		s = c11One
	case step == nil:
		s = big.NewRat(-1, 1)
	default:
		s = step.r
		if s.Sign() == 0 {
			return c11Exp{kind: 'n', reason: "zero-step"} // the documentation only rules out the wrong sign
		}
		if asc && s.Sign() < 0 {
			return c11X("negative-step-ascending")
		}
		if !asc && s.Sign() > 0 {
			return c11X("positive-step-descending")
		}
	}
	var vals []*big.Rat
	cur := new(big.Rat).Set(start)
	for len(vals) < c11RangeCap && ((asc && cur.Cmp(end) < 0) || (!asc && cur.Cmp(end) > 0)) {
		vals = append(vals, new(big.Rat).Set(cur))
		cur.Add(cur, s)
	}
	reason := "value"
	if len(vals) == c11RangeCap {
		reason = "value-first-51"
	}
	return c11Exp{kind: 'v', vals: vals, reason: reason}
}

// c11Small reports whether a direct call of range is certain to stay within
// the capture channel whatever direction is walked: |end-start| <= 50*|step|.
func c11RangeSmall(step *c11Sym, a []*c11Sym) bool {
	if len(a) < 1 || len(a) > 2 {
		return true
	}
	start, end := c11Zero, a[len(a)-1].r
	if len(a) == 2 {
		start = a[0].r
	}
	s := c11One
	if step != nil {
		s = c11AbsRat(step.r)
		if s.Sign() == 0 {
			return false
		}
	}
	d := c11AbsRat(new(big.Rat).Sub(end, start))
	return d.Cmp(new(big.Rat).Mul(s, big.NewRat(50, 1))) <= 0
}

// ---------------------------------------------------------------- judging

// c11Canon describes the canonical representation of an exact value.
func c11Canon(r *big.Rat) byte {
	if !r.IsInt() {
		return 'r'
	}
	if r.Num().Cmp(c11MinInt) >= 0 && r.Num().Cmp(c11MaxInt) <= 0 {
		return 'i'
	}
	return 'b'
}

func c11KindName(k byte) string {
	switch k {
	case 'i':
		return "machine integer"
	case 'b':
		return "big integer"
	case 'r':
		return "rational"
	}
	return "?"
}

func c11Show(v any) string {
	switch v := v.(type) {
	case int:
		return "int " + strconv.Itoa(v)
	case *big.Int:
		return "*big.Int " + v.String()
	case *big.Rat:
		return "*big.Rat " + v.String()
	case float64:
		return "float64 " + strconv.FormatFloat(v, 'g', -1, 64)
	case string:
		return "string " + strconv.Quote(v)
	}
	return fmt.Sprintf("%T %v", v, v)
}

// c11Same compares one output with the expected exact value; "" = same value
// in canonical form.
func c11Same(got any, want *big.Rat) string {
	var val *big.Rat
	var kind byte
	switch g := got.(type) {
	case int:
		val, kind = new(big.Rat).SetInt64(int64(g)), 'i'
	case *big.Int:
		if g == nil {
			return "non-number-output"
		}
		val, kind = new(big.Rat).SetInt(g), 'b'
	case *big.Rat:
		if g == nil {
			return "non-number-output"
		}
		val, kind = g, 'r'
	case float64:
		return "inexact-result"
	default:
		return "non-number-output"
	}
	if val.Cmp(want) != 0 {
		return "wrong-value"
	}
	if kind != c11Canon(want) {
		return "noncanonical"
	}
	return ""
}

func c11ShowAll(out []any) string {
	var sb strings.Builder
	sb.WriteString("[")
	for i, v := range out {
		if i > 0 {
			sb.WriteString(", ")
		}
		if i == 6 && len(out) > 8 {
			fmt.Fprintf(&sb, "... %d more", len(out)-6)
			break
		}
		sb.WriteString(c11Show(v))
	}
	sb.WriteString("]")
	return sb.String()
}

func (e c11Exp) describe() string {
	switch e.kind {
	case 'x':
		return "an exception (" + e.reason + ")"
	case 'f':
		return "one inexact number (" + e.reason + ")"
	case 'n':
		return "anything but a panic"
	}
	var sb strings.Builder
	fmt.Fprintf(&sb, "%d value(s) [", len(e.vals))
	for i, v := range e.vals {
		if i > 0 {
			sb.WriteString(", ")
		}
		if i == 6 && len(e.vals) > 8 {
			fmt.Fprintf(&sb, "... %d more", len(e.vals)-6)
			break
		}
		sb.WriteString(c11KindName(c11Canon(v)) + " " + c11RatText(v))
	}
	sb.WriteString("]")
	if e.reason != "value" {
		sb.WriteString(" (" + e.reason + ")")
	}
	return sb.String()
}

// c11Judge returns "" or the observation class and its description.
func c11Judge(e c11Exp, out []any, err error, pan string) (obs, detail string) {
	if pan != "" {
		return "panic", "Go " + pan
	}
	switch e.kind {
	case 'n':
		return "", ""
	case 'x':
		if err == nil {
			return "no-exception", "no exception, output " + c11ShowAll(out)
		}
		return "", ""
	case 'f':
		if err != nil {
			return "exception", "exception: " + err.Error()
		}
		if len(out) != 1 {
			return "wrong-count", "output " + c11ShowAll(out)
		}
		if _, ok := out[0].(float64); !ok {
			return "exact-result", "output " + c11ShowAll(out)
		}
		return "", ""
	}
	if err != nil {
		return "exception", "exception: " + err.Error()
	}
	if len(out) != len(e.vals) {
		return "wrong-count", fmt.Sprintf("%d value(s) %s", len(out), c11ShowAll(out))
	}
	for i := range out {
		if o := c11Same(out[i], e.vals[i]); o != "" {
			if len(out) == 1 {
				return o, "output " + c11ShowAll(out)
			}
			return o, fmt.Sprintf("output #%d is %s, expected %s %s", i, c11Show(out[i]), c11KindName(c11Canon(e.vals[i])), c11RatText(e.vals[i]))
		}
	}
	return "", ""
}

// ---------------------------------------------------------------- commands

type c11Cmd struct {
	name   string
	oracle func(a []*c11Sym) c11Exp
	fn     eval.Callable
}

var c11CmdNames = []string{"+", "-", "*", "/", "%", "math:abs", "math:ceil", "math:floor", "math:round", "math:round-to-even", "math:trunc", "math:min", "math:max", "math:pow", "range", "range&step"}

const (
	c11CAdd = iota
	c11CSub
	c11CMul
	c11CDiv
	c11CRem
	c11CAbs
	c11CCeil
	c11CFloor
	c11CRound
	c11CRoundEven
	c11CTrunc
	c11CMin
	c11CMax
	c11CPow
	c11CRange
	c11CRangeStep
)

var c11Oracles = []func(a []*c11Sym) c11Exp{c11Add, c11Sub, c11Mul, c11Div, c11Rem,
	c11Unary(c11AbsRat), c11Unary(c11CeilRat), c11Unary(c11FloorRat), c11Unary(c11RoundRat), c11Unary(c11RoundEvenRat), c11Unary(c11TruncRat),
	c11Extreme(-1), c11Extreme(1), c11Pow,
	func(a []*c11Sym) c11Exp { return c11Range(nil, a) },
	func(a []*c11Sym) c11Exp { // the first symbol is the step
		return c11Range(a[0], a[1:])
	}}

// ---------------------------------------------------------------- worker

type c11Viol struct {
	rank int
	msg  string
	text string
}

type c11Worker struct {
	ev        *eval.Evaler
	ch        chan any
	ports     []*eval.Port
	syms      *c11Syms
	cmds      []c11Cmd
	rangeTake eval.Callable
	stepTake  eval.Callable
	best      map[string]c11Viol
	counts    map[string]int64
	l         *vk.Local
	classBuf  []byte
}

func c11NewWorker(l *vk.Local, pools [][]string) *c11Worker {
	w := &c11Worker{ev: eval.NewEvaler(), ch: make(chan any, 4096), syms: c11BuildSyms(pools...),
		best: map[string]c11Viol{}, counts: map[string]int64{}, l: l}
	w.ports = []*eval.Port{eval.DummyInputPort, {File: eval.DevNull, Chan: w.ch}, eval.DummyOutputPort}
	w.ev.AddModule("math", emath.Ns)
	// c11-head passes on the first c11RangeCap values of its input and returns
	// without reading more, which makes the writer stop (elvish's own `take`
	// reads all of its input).
	w.ev.ExtendGlobal(eval.BuildNs().AddGoFn("c11-head", func(fm *eval.Frame) error {
		in, out := fm.InputChan(), fm.ValueOutput()
		for i := 0; i < c11RangeCap; i++ {
			v, ok := <-in
			if !ok {
				break
			}
			if err := out.Put(v); err != nil {
				return err
			}
		}
		return nil
	}).Ns())
	setup := "use math\n" +
		"fn c11-range {|@a| range $@a | c11-head }\n" +
		"fn c11-range-step {|s @a| range &step=$s $@a | c11-head }\n"
	if err := w.ev.Eval(parse.Source{Name: "[c11 setup]", Code: setup}, eval.EvalCfg{Ports: w.ports}); err != nil {
		panic("c11 setup: " + err.Error())
	}
	get := func(ns *eval.Ns, name string) eval.Callable {
		v := ns.IndexString(name + "~")
		if v == nil {
			panic("c11: no command " + name)
		}
		return v.Get().(eval.Callable)
	}
	for i, name := range c11CmdNames {
		cmd := c11Cmd{name: name, oracle: c11Oracles[i]}
		switch {
		case i >= c11CRange:
			cmd.fn = get(w.ev.Builtin(), "range")
		case strings.HasPrefix(name, "math:"):
			cmd.fn = get(emath.Ns, name[5:])
		default:
			cmd.fn = get(w.ev.Builtin(), name)
		}
		w.cmds = append(w.cmds, cmd)
	}
	w.rangeTake = get(w.ev.Global(), "c11-range")
	w.stepTake = get(w.ev.Global(), "c11-range-step")
	return w
}

func (w *c11Worker) drain() []any {
	n := len(w.ch)
	if n == 0 {
		return nil
	}
	out := make([]any, 0, n)
	for ; n > 0; n-- {
		out = append(out, <-w.ch)
	}
	return out
}

// call runs a callable through Evaler.Call (for a builtin: goFn.Call, i.e. the
// argument conversion, the implementation and the conversion of the results).
func (w *c11Worker) call(fn eval.Callable, args []any, opts map[string]any) (out []any, err error, pan string) {
	pan = vk.Try(func() {
		err = w.ev.Call(fn, eval.CallCfg{Args: args, Opts: opts, From: "[c11]"}, eval.EvalCfg{Ports: w.ports})
	})
	return w.drain(), err, pan
}

// evalSrc evaluates source text.
func (w *c11Worker) evalSrc(code string) (out []any, err error, pan string) {
	pan = vk.Try(func() {
		err = w.ev.Eval(parse.Source{Name: "[c11]", Code: code}, eval.EvalCfg{Ports: w.ports})
	})
	if err != nil && parse.UnpackErrors(err) != nil {
		panic("c11: parse error in " + code + ": " + err.Error())
	}
	return w.drain(), err, pan
}

// c11Job is one shard of an enumeration: all tuples with the given first
// symbol (or the empty tuple).
type c11Job struct {
	fam         string  // family name for the evidence
	cmd         int     // index into c11CmdNames
	mode        byte    // 'c' Evaler.Call with argument values, 's' source text
	sets        [][]int // candidate symbols per position
	first       int     // element of sets[0] this shard fixes
	needInexact bool    // only tuples with at least one inexact symbol
}

func (w *c11Worker) runJob(j *c11Job) {
	n := len(j.sets)
	tuple := make([]*c11Sym, n)
	if n == 0 {
		w.one(j, tuple)
		return
	}
	idx := make([]int, n)
	for {
		tuple[0] = w.syms.all[j.sets[0][j.first]]
		for p := 1; p < n; p++ {
			tuple[p] = w.syms.all[j.sets[p][idx[p]]]
		}
		w.one(j, tuple)
		p := n - 1
		for p >= 1 {
			idx[p]++
			if idx[p] < len(j.sets[p]) {
				break
			}
			idx[p] = 0
			p--
		}
		if p < 1 {
			return
		}
	}
}

// c11Cur describes the running case for the non-termination watchdog.
type c11Cur struct {
	name  string
	tuple []*c11Sym
}

func (c c11Cur) String() string { return c11CallText(c.name, c.tuple) }

func c11CallText(name string, tuple []*c11Sym) string {
	var sb strings.Builder
	if name == "range&step" {
		sb.WriteString("range &step=" + tuple[0].text)
		tuple = tuple[1:]
	} else {
		sb.WriteString(name)
	}
	for _, s := range tuple {
		sb.WriteString(" " + s.text)
	}
	return sb.String()
}

func (w *c11Worker) one(j *c11Job, tuple []*c11Sym) {
	if j.needInexact && !c11AnyInexact(tuple) {
		return
	}
	cmd := &w.cmds[j.cmd]
	exp := cmd.oracle(tuple)
	if exp.kind == 0 {
		w.counts["not_run:"+cmd.name]++
		return
	}
	w.l.Begin(c11Cur{cmd.name, tuple})
	var out []any
	var err error
	var pan, how string
	switch {
	case j.mode == 's':
		how = "evaluated as source text"
		code := c11CallText(cmd.name, tuple)
		if j.cmd >= c11CRange && !c11RangeSmall(nil, tuple) {
			code += " | c11-head"
		}
		out, err, pan = w.evalSrc(code)
	case j.cmd >= c11CRange:
		args, step := tuple, (*c11Sym)(nil)
		if j.cmd == c11CRangeStep {
			step, args = tuple[0], tuple[1:]
		}
		vals := make([]any, 0, len(tuple))
		if c11RangeSmall(step, args) {
			how = "builtin called through Evaler.Call"
			var opts map[string]any
			if step != nil {
				opts = map[string]any{"step": step.arg}
			}
			for _, s := range args {
				vals = append(vals, s.arg)
			}
			out, err, pan = w.call(cmd.fn, vals, opts)
		} else {
			how = fmt.Sprintf("called as `range ... | c11-head`, a reader of the first %d values", c11RangeCap)
			fn := w.rangeTake
			if step != nil {
				fn = w.stepTake
			}
			for _, s := range tuple {
				vals = append(vals, s.arg)
			}
			out, err, pan = w.call(fn, vals, nil)
		}
	default:
		how = "builtin called through Evaler.Call"
		vals := make([]any, len(tuple))
		for i, s := range tuple {
			vals[i] = s.arg
		}
		out, err, pan = w.call(cmd.fn, vals, nil)
	}
	w.l.End()
	obs, detail := c11Judge(exp, out, err, pan)
	if obs != "" {
		w.violate(cmd.name+":"+exp.reason+":"+obs, tuple, cmd, how, "expected "+exp.describe()+", observed "+detail)
	}
	// no command may change the value of an argument
	for _, s := range tuple {
		switch a := s.arg.(type) {
		case *big.Int:
			if s.r.Num().Cmp(a) != 0 || !s.r.IsInt() {
				w.violate(cmd.name+":argument-mutated", tuple, cmd, how, "the big integer argument "+s.text+" has the value "+a.String()+" after the call")
				s.arg, _ = c11Typed(s.r)
			}
		case *big.Rat:
			if s.r.Cmp(a) != 0 {
				w.violate(cmd.name+":argument-mutated", tuple, cmd, how, "the rational argument "+s.text+" has the value "+a.String()+" after the call")
				s.arg, _ = c11Typed(s.r)
			}
		}
	}
	w.l.Case(w.class(j, cmd, tuple, exp))
	w.counts["cases:"+j.fam]++
	if exp.kind == 'n' {
		w.counts["not_judged:"+cmd.name+":"+exp.reason]++
	}
}

func (w *c11Worker) violate(key string, tuple []*c11Sym, cmd *c11Cmd, how, what string) {
	rank := len(tuple) * 100000
	for _, s := range tuple {
		rank += s.cost
	}
	text := c11CallText(cmd.name, tuple)
	v := c11Viol{rank: rank, text: text, msg: fmt.Sprintf("`%s` (%s): %s", text, how, what)}
	if old, ok := w.best[key]; !ok || v.rank < old.rank || (v.rank == old.rank && v.msg < old.msg) {
		w.best[key] = v
	}
	w.counts["violating_cases:"+key]++
}

// class = command / mode / number of arguments / set of argument
// representations / what the oracle demands (representation of the expected
// value, or which exception rule, or the number and representations of the
// expected outputs of range).
func (w *c11Worker) class(j *c11Job, cmd *c11Cmd, tuple []*c11Sym, exp c11Exp) string {
	b := w.classBuf[:0]
	b = append(b, cmd.name...)
	b = append(b, '/', j.mode, '/', byte('0'+len(tuple)), '/')
	var mask [256]bool
	for _, s := range tuple {
		mask[s.kind] = true
	}
	for _, k := range []byte("ibrsfg") {
		if mask[k] {
			b = append(b, k)
		}
	}
	b = append(b, '>')
	switch exp.kind {
	case 'v':
		if j.cmd >= c11CRange {
			n := len(exp.vals)
			switch {
			case n <= 1:
				b = append(b, byte('0'+n))
			case n <= 10:
				b = append(b, "2-10"...)
			case n < c11RangeCap:
				b = append(b, "11-50"...)
			default:
				b = append(b, "51+"...)
			}
			var km [256]bool
			for _, v := range exp.vals {
				km[c11Canon(v)] = true
			}
			for _, k := range []byte("ibr") {
				if km[k] {
					b = append(b, k)
				}
			}
		} else {
			b = append(b, c11Canon(exp.vals[0]))
			if exp.reason != "value" {
				b = append(b, ':')
				b = append(b, exp.reason...)
			}
		}
	default:
		b = append(b, exp.kind, ':')
		b = append(b, exp.reason...)
	}
	w.classBuf = b
	return string(b)
}

// ---------------------------------------------------------------- the check

func c11Rep(set []int, n int) [][]int {
	out := make([][]int, n)
	for i := range out {
		out[i] = set
	}
	return out
}

func TestVerifC11(t *testing.T) {
	vk.Run(t, "C11", "exploration", func(c *vk.Ctx) {
		if strconv.IntSize != 64 {
			panic("c11: the check assumes a 64-bit int")
		}
		thorough := c.Thorough()
		pools := [][]string{c11Pool}
		small := [][]string{c11PoolSmall}
		rangePool := [][]string{c11PoolRange}
		maxExp := 70
		if thorough {
			pools = append(pools, c11PoolMore)
			small = append(small, c11PoolSmallMore)
			rangePool = [][]string{c11Pool}
			maxExp = 200
		}
		var expPool, expBig []string
		for k := -maxExp; k <= maxExp; k++ {
			expPool = append(expPool, strconv.Itoa(k))
		}
		expBig = []string{"4611686018427387904", "9223372036854775807", "-9223372036854775808", "9223372036854775808", "-9223372036854775809", "18446744073709551616", "1/2", "-7/2"}
		allPools := append(append([][]string{}, pools...), expPool, expBig)

		ref := c11BuildSyms(allPools...) // only for sizing the job list; every worker builds its own
		full := append(ref.set(true, true, pools...), ref.alt...)
		fullQuick := append(ref.set(true, true, c11Pool), ref.alt...)
		typed := ref.set(true, false, pools...)
		typedQuick := ref.set(true, false, c11Pool)
		smallT := ref.set(true, false, small...)
		strs := append(ref.set(false, true, c11Pool), ref.alt...)
		rangeT := ref.set(true, false, rangePool...)
		rangeS := ref.set(false, true, rangePool...)
		exps := ref.set(true, true, expPool, expBig, c11Pool)
		if thorough {
			exps = ref.set(true, true, expPool, expBig, c11Pool, c11PoolMore)
		}
		exps = append(exps, ref.alt...)
		zeroRule := append(append(append(ref.set(true, true, c11PoolZeroRule), ref.alt[2], ref.alt[3]), ref.ftyp...), ref.fstr...)

		var jobs []*c11Job
		add := func(fam string, cmd int, mode byte, needInexact bool, sets ...[]int) {
			if len(sets) == 0 {
				jobs = append(jobs, &c11Job{fam: fam, cmd: cmd, mode: mode})
				return
			}
			for f := range sets[0] {
				jobs = append(jobs, &c11Job{fam: fam, cmd: cmd, mode: mode, sets: sets, first: f, needInexact: needInexact})
			}
		}
		variadic := []int{c11CAdd, c11CSub, c11CMul, c11CDiv, c11CMin, c11CMax}
		unary := []int{c11CAbs, c11CCeil, c11CFloor, c11CRound, c11CRoundEven, c11CTrunc}
		// arity 0 first, then growing arity: simplest cases first
		for ar := 0; ar <= 6; ar++ {
			for _, cmd := range variadic {
				switch {
				case ar <= 3:
					add("variadic<=3:typed+string", cmd, 'c', false, c11Rep(full, ar)...)
				case ar == 4 && thorough:
					add("variadic4:typed+string(quick pool)", cmd, 'c', false, c11Rep(fullQuick, ar)...)
				case ar == 4:
					add("variadic4:typed", cmd, 'c', false, c11Rep(typedQuick, ar)...)
				case ar == 5 && thorough:
					add("variadic5:typed(quick pool)", cmd, 'c', false, c11Rep(typedQuick, ar)...)
				default:
					add("variadic5-6:typed(small pool)", cmd, 'c', false, c11Rep(smallT, ar)...)
				}
			}
			if ar <= 2 {
				add("rem", c11CRem, 'c', false, c11Rep(full, ar)...)
				for _, cmd := range unary {
					add("unary", cmd, 'c', false, c11Rep(full, ar)...)
				}
			}
			if ar == 3 {
				add("rem", c11CRem, 'c', false, c11Rep(typed, ar)...)
				add("pow-arity", c11CPow, 'c', false, c11Rep(smallT, ar)...)
			}
			if ar <= 1 {
				add("pow-arity", c11CPow, 'c', false, c11Rep(full, ar)...)
			}
			if ar == 2 {
				add("pow", c11CPow, 'c', false, full, exps)
			}
			// the same commands reached from source text (command resolution, string arguments)
			if ar <= 3 {
				for _, cmd := range variadic {
					if !(cmd == c11CDiv && ar == 0) {
						add("source-text", cmd, 's', false, c11Rep(strs, ar)...)
					}
				}
			}
			if ar <= 2 {
				add("source-text", c11CRem, 's', false, c11Rep(strs, ar)...)
				add("source-text", c11CPow, 's', false, c11Rep(strs, ar)...)
				for _, cmd := range unary {
					add("source-text", cmd, 's', false, c11Rep(strs, ar)...)
				}
			}
			// exact-zero rules of * and / (and the inexact result of + and -) with inexact arguments
			if ar >= 1 && ar <= 3 {
				for _, cmd := range []int{c11CAdd, c11CSub, c11CMul, c11CDiv} {
					add("with-inexact-arguments", cmd, 'c', true, c11Rep(zeroRule, ar)...)
				}
			}
			// range: all typed or all strings
			if ar <= 3 {
				for _, set := range [][]int{rangeT, rangeS} {
					add("range", c11CRange, 'c', false, c11Rep(set, ar)...)
					if ar >= 1 && ar <= 2 {
						add("range", c11CRangeStep, 'c', false, c11Rep(set, ar+1)...)
					}
				}
				if ar <= 2 {
					add("source-text", c11CRange, 's', false, c11Rep(rangeS, ar)...)
				}
			}
		}

		c.Rule(fmt.Sprintf("every argument tuple, simplest first, of: + - * / math:min math:max with 0..3 arguments over %d symbols (the %d pool values %v as typed numbers and as decimal strings, plus the string-only spellings %v), 4 arguments over %s, 5..6 arguments over %s; %% with 0..2 arguments over the same symbols (3 over the typed ones); math:abs ceil floor round round-to-even trunc with 0..2 arguments over them; math:pow with every base symbol x every exponent symbol (the pool and every integer -%d..%d and %v, typed and string; |exponent| > %d with a base other than 0, +-1 is not run); the same commands with <=3 (unary, %%, pow: <=2) string arguments evaluated as source text by Evaler.Eval; + - * / with 1..3 arguments over %d exact and inexact symbols (%v as typed numbers and strings) with at least one inexact; range with 0..3 arguments and range &step= with 1..2 arguments over %v (all typed or all strings; the first %d outputs are compared). class = command / call mode / number of arguments / set of argument representations (int, bigint, rat, string, float, float string) / representation of the expected value or exception rule or number+representations of range outputs",
			len(full), len(typed), pools, c11AltSpellings, map[bool]string{true: "the quick pool's typed+string symbols", false: "the typed pool values"}[thorough],
			map[bool]string{true: "the typed quick pool (5) and the typed small pool (6)", false: "the typed small pool"}[thorough]+fmt.Sprint(small),
			maxExp, maxExp, expBig, c11PowLimit, len(zeroRule), c11FloatText, rangePool, c11RangeCap))
		c.Assume("64-bit machine integer (int range -2^63..2^63-1)",
			"math/big arithmetic (Add, Sub, Mul, Quo, Inv, Cmp on big.Rat/big.Int) is the trusted base of the oracle; the oracle uses none of elvish's numeric helpers and derives floor/ceil/round/trunc/remainder/pow from those primitives on its own",
			"builtins are called through Evaler.Call on the registered callable (goFn.Call: argument conversion, implementation, result conversion) and, for <=3 string arguments, through Evaler.Eval of source text; only the first 51 outputs of range are compared when more are expected",
			"with inexact arguments only the documented exact-zero rules and the inexactness of the result are judged (the float value belongs to C12); 0^0 and &step=0 are not judged because the documentation does not define them")

		var mu sync.Mutex
		workers := map[*vk.Local]*c11Worker{}
		c.Parallel(len(jobs), func(l *vk.Local, i int) {
			mu.Lock()
			w := workers[l]
			if w == nil {
				w = c11NewWorker(l, allPools)
				workers[l] = w
				c.Watch(l)
			}
			mu.Unlock()
			w.runJob(jobs[i])
		})

		// merge: per violation key the simplest counterexample, reported in key order
		best := map[string]c11Viol{}
		counts := map[string]int64{}
		for _, w := range workers {
			for k, v := range w.best {
				if old, ok := best[k]; !ok || v.rank < old.rank || (v.rank == old.rank && v.msg < old.msg) {
					best[k] = v
				}
			}
			for k, n := range w.counts {
				counts[k] += n
			}
		}
		keys := make([]string, 0, len(best))
		for k := range best {
			keys = append(keys, k)
		}
		sort.Strings(keys)
		for _, k := range keys {
			c.Violate(k, fmt.Sprintf("%s [%d violating case(s) of this class]", best[k].msg, counts["violating_cases:"+k]), best[k].text)
		}
		for k, n := range counts {
			c.Set(k, n)
		}
		c.Set("jobs", len(jobs))
		c.Set("symbols", len(ref.all))
		c.Sample("+ (num 9223372036854775807) 1 -> big integer 9223372036854775808")
		c.Sample("- (num 9223372036854775808) 1 -> machine integer 9223372036854775807")
		c.Sample("/ 6/4 (num 3/2) -> machine integer 1")
		c.Sample("% (num -9223372036854775808) (num -1) -> machine integer 0")
		c.Sample("math:pow (num 0) (num -1) -> exception")
		c.Sample("math:round-to-even (num -7/2) -> machine integer -4")
		c.Sample("range &step=(num 9223372036854775807) (num -9223372036854775808) (num 9223372036854775807) -> -2^63, -1, 2^63-2")
		c.Sample("* 0/5 (num NaN) -> machine integer 0")
	})
}
