//go:build verif

// Package c03 holds the harness of property C03 (quoted strings evaluate back
// to the exact original string). It is a virtual package: it needs both
// pkg/parse and pkg/eval.
package c03

import (
	"fmt"
	"os"
	"sort"
	"strings"
	"sync"
	"testing"
	"unicode"
	"unicode/utf8"

	"src.elv.sh/pkg/eval"
	"src.elv.sh/pkg/eval/vars"
	"src.elv.sh/pkg/parse"
	"src.elv.sh/pkg/parse/cmpd"
	"src.elv.sh/pkg/persistent/hashmap"
	"src.elv.sh/pkg/zzverif/vk"
)

// c03Alphabet: metacharacters, whitespace, quotes, backslash, tilde, control
// bytes, high code points and invalid UTF-8 bytes (two of which, \xc3\x80,
// concatenate to a valid rune).
var c03Alphabet = []string{
	"a", "~", " ", "'", "\"", "\\", "$", "\n", "\x00", "\x7f", "\u00e9", "\xff", "\xc3", "\x80",
	"=", ",", "*", "<", "@", ":", "-", "\ufffd", "\u00a0", "\U0010ffff",
	"^", "#", "\t", "\u2028", "?", "&", "\x1b",
}

// ---------------------------------------------------------------------------
// Independent reading of the three literal syntaxes, written from
// website/ref/language.md (sections Single-quoted string, Double-quoted
// string, Bareword, Variable use, Ordinary command). It does not use the
// parser.

type c03Ctx int

const (
	c03General c03Ctx = iota // argument and map key
	c03Command               // head of a form
	c03VarName               // after $
)

// c03Decode returns the string denoted by text according to the reference, the
// kind of literal, "" or the reason why text is not a literal the reference
// allows in ctx, and whether the reference is silent about it.
func c03Decode(text string, ctx c03Ctx) (val string, kind parse.PrimaryType, bad string, silent bool) {
	if text == "" {
		return "", parse.Bareword, "empty-text", false
	}
	switch text[0] {
	case '\'':
		if len(text) < 2 || text[len(text)-1] != '\'' {
			return "", parse.SingleQuoted, "single-unterminated", false
		}
		in := text[1 : len(text)-1]
		var sb strings.Builder
		for i := 0; i < len(in); i++ {
			if in[i] == '\'' {
				if i+1 < len(in) && in[i+1] == '\'' {
					sb.WriteByte('\'')
					i++
					continue
				}
				return "", parse.SingleQuoted, "single-lone-quote-inside", false
			}
			sb.WriteByte(in[i])
		}
		return sb.String(), parse.SingleQuoted, "", false
	case '"':
		if len(text) < 2 || text[len(text)-1] != '"' {
			return "", parse.DoubleQuoted, "double-unterminated", false
		}
		in := text[1 : len(text)-1]
		var sb strings.Builder
		hex := func(s string) (int, bool) {
			n := 0
			for i := 0; i < len(s); i++ {
				c := s[i]
				switch {
				case c >= '0' && c <= '9':
					n = n*16 + int(c-'0')
				case c >= 'a' && c <= 'f':
					n = n*16 + int(c-'a') + 10
				case c >= 'A' && c <= 'F':
					n = n*16 + int(c-'A') + 10
				default:
					return 0, false
				}
			}
			return n, true
		}
		for i := 0; i < len(in); i++ {
			c := in[i]
			if c == '"' {
				return "", parse.DoubleQuoted, "double-bare-quote-inside", false
			}
			if c != '\\' {
				sb.WriteByte(c)
				continue
			}
			i++
			if i >= len(in) {
				// the closing quote was escaped
				return "", parse.DoubleQuoted, "double-unterminated", false
			}
			switch e := in[i]; e {
			case 'a':
				sb.WriteByte(7)
			case 'b':
				sb.WriteByte(8)
			case 't':
				sb.WriteByte(9)
			case 'n':
				sb.WriteByte(10)
			case 'v':
				sb.WriteByte(11)
			case 'f':
				sb.WriteByte(12)
			case 'r':
				sb.WriteByte(13)
			case 'e':
				sb.WriteByte(27)
			case '"':
				sb.WriteByte('"')
			case '\\':
				sb.WriteByte('\\')
			case 'x', 'u', 'U':
				n := map[byte]int{'x': 2, 'u': 4, 'U': 8}[e]
				if i+1+n > len(in) {
					return "", parse.DoubleQuoted, "double-short-hex", false
				}
				v, ok := hex(in[i+1 : i+1+n])
				if !ok {
					return "", parse.DoubleQuoted, "double-bad-hex", false
				}
				i += n
				if e == 'x' {
					sb.WriteByte(byte(v))
				} else {
					if v > unicode.MaxRune || (v >= 0xd800 && v <= 0xdfff) {
						return "", parse.DoubleQuoted, "double-bad-codepoint", false
					}
					sb.WriteString(string(rune(v)))
				}
			case '0', '1', '2', '3', '4', '5', '6', '7':
				if i+3 > len(in) {
					return "", parse.DoubleQuoted, "double-short-octal", false
				}
				v := 0
				for _, d := range []byte(in[i : i+3]) {
					if d < '0' || d > '7' {
						return "", parse.DoubleQuoted, "double-bad-octal", false
					}
					v = v*8 + int(d-'0')
				}
				if v > 255 {
					return "", parse.DoubleQuoted, "double-octal-overflow", false
				}
				i += 2
				sb.WriteByte(byte(v))
			case '^', 'c':
				i++
				if i >= len(in) {
					return "", parse.DoubleQuoted, "double-short-caret", false
				}
				switch x := in[i]; {
				case x == '?':
					sb.WriteByte(0x7f)
				case x >= 0x40 && x <= 0x5f:
					sb.WriteByte(x - 0x40)
				default:
					return "", parse.DoubleQuoted, "double-bad-caret", false
				}
			default:
				return "", parse.DoubleQuoted, "double-unsupported-escape", false
			}
		}
		return sb.String(), parse.DoubleQuoted, "", false
	}
	// bareword / unquoted variable name
	if !utf8.ValidString(text) {
		return "", parse.Bareword, "bare-invalid-utf8", false
	}
	for i, r := range text {
		switch {
		case r >= 'a' && r <= 'z', r >= 'A' && r <= 'Z', r >= '0' && r <= '9':
		case r >= 0x80 && unicode.IsPrint(r):
		case r == '-' || r == '_' || r == ':':
		case r == '~':
			// "introduces tilde expansion if appearing at the beginning of a
			// compound expression"; after $ it is a plain name character.
			if i == 0 && ctx != c03VarName {
				return "", parse.Bareword, "bare-leading-tilde", false
			}
		case ctx != c03VarName && strings.ContainsRune("!%+,./@\\", r):
		case ctx == c03Command && (r == '<' || r == '>' || r == '*'):
		case ctx == c03Command && r == '=':
			// "= terminates map keys and command option keys", otherwise a
			// bareword character: not a metacharacter in head position.
		case ctx == c03Command && r == '^':
			// the reference does not list ^ among the head characters
			silent = true
		default:
			// includes '=' in the general form, which has to work as a map key
			return "", parse.Bareword, "bare-char-not-allowed", false
		}
	}
	return text, parse.Bareword, "", silent
}

// ---------------------------------------------------------------------------
// Real evaluation.

type c03Evaler struct {
	ev    *eval.Evaler
	ch    chan any
	ports []*eval.Port
}

// one Evaler per enumeration worker
var c03Evalers sync.Map

func c03EvalerFor(l *vk.Local) *c03Evaler {
	if e, ok := c03Evalers.Load(l); ok {
		return e.(*c03Evaler)
	}
	ch := make(chan any, 256)
	out := &eval.Port{File: eval.DevNull, Chan: ch}
	e := &c03Evaler{eval.NewEvaler(), ch, []*eval.Port{eval.DummyInputPort, out, eval.DummyOutputPort}}
	c03Evalers.Store(l, e)
	return e
}

func (e *c03Evaler) run(code string, global *eval.Ns) (out []any, err error) {
	err = e.ev.Eval(parse.Source{Name: "c03", Code: code}, eval.EvalCfg{Ports: e.ports, Global: global})
	for {
		select {
		case v := <-e.ch:
			out = append(out, v)
		default:
			return out, err
		}
	}
}

const c03CmdMarker = "C03-COMMAND-WAS-CALLED"
const c03VarMarker = "C03-VARIABLE-VALUE"

var c03Fn = eval.NewGoFn("c03fn", func() string { return c03CmdMarker })

// ---------------------------------------------------------------------------
// Parse-level shape: every form of the chunk as a flat list of primaries
// (head first); every word must be a compound of exactly one primary without
// indices, no options, redirections or background marker.

func c03Shape(code string) (forms [][]*parse.Primary, npipes int, bad string) {
	tree, err := parse.Parse(parse.Source{Name: "c03", Code: code}, parse.Config{})
	if err != nil {
		return nil, 0, "parse-error"
	}
	one := func(cn *parse.Compound) *parse.Primary {
		if cn == nil || len(cn.Indexings) != 1 || len(cn.Indexings[0].Indices) != 0 {
			return nil
		}
		return cn.Indexings[0].Head
	}
	for _, pl := range tree.Root.Pipelines {
		if pl.Background {
			return nil, 0, "shape"
		}
		for _, f := range pl.Forms {
			if len(f.Opts) != 0 || len(f.Redirs) != 0 {
				return nil, 0, "shape"
			}
			var ws []*parse.Primary
			for _, cn := range append([]*parse.Compound{f.Head}, f.Args...) {
				p := one(cn)
				if p == nil {
					return nil, 0, "shape"
				}
				ws = append(ws, p)
			}
			forms = append(forms, ws)
		}
	}
	return forms, len(tree.Root.Pipelines), ""
}

// c03OnlyPut reports whether code is one foreground `put` form without
// redirections, captures or lambdas, so that evaluating it runs no other
// command and touches no file.
func c03OnlyPut(code string) bool {
	tree, err := parse.Parse(parse.Source{Name: "c03", Code: code}, parse.Config{})
	if err != nil || len(tree.Root.Pipelines) != 1 || tree.Root.Pipelines[0].Background || len(tree.Root.Pipelines[0].Forms) != 1 {
		return false
	}
	f := tree.Root.Pipelines[0].Forms[0]
	if h, ok := cmpd.StringLiteral(f.Head); !ok || h != "put" {
		return false
	}
	safe := true
	var walk func(n parse.Node)
	walk = func(n parse.Node) {
		switch n := n.(type) {
		case *parse.Redir:
			safe = false
		case *parse.Primary:
			if n.Type == parse.OutputCapture || n.Type == parse.ExceptionCapture || n.Type == parse.Lambda || n.Type == parse.BadPrimary {
				safe = false
			}
		}
		for _, ch := range parse.Children(n) {
			walk(ch)
		}
	}
	walk(f)
	return safe
}

func c03IsStringKind(t parse.PrimaryType) bool {
	return t == parse.Bareword || t == parse.SingleQuoted || t == parse.DoubleQuoted
}

// c03Expect checks that code has the given words (form by form; "\x00T"
// marks the positions of the target), and returns the target primaries.
func c03Expect(code string, npipes int, want [][]string) ([]*parse.Primary, string) {
	forms, np, bad := c03Shape(code)
	if bad != "" {
		return nil, bad
	}
	if np != npipes || len(forms) != len(want) {
		return nil, "shape"
	}
	var targets []*parse.Primary
	for i, ws := range want {
		if len(forms[i]) != len(ws) {
			return nil, "shape"
		}
		for j, w := range ws {
			p := forms[i][j]
			if w == "\x00T" {
				targets = append(targets, p)
				continue
			}
			if !c03IsStringKind(p.Type) || p.Value != w {
				return nil, "shape"
			}
		}
	}
	return targets, ""
}

// c03Cx is one syntactic context a quoted text is placed in.
type c03Cx struct {
	name, code string
	np         int
	want       [][]string
}

// c03InContexts parses the text in every context. The fast path parses all
// contexts at once, one per line (the last one ends at end of input); only if
// that is not as expected each context is parsed on its own (a context that
// ends at a newline gets a following `put y` line) to name the failing one.
// judge returns "" or (reason, detail) for a target primary.
func c03InContexts(cxs []c03Cx, judge func(p *parse.Primary) (string, string), report func(cx, reason, code, detail string)) bool {
	var codes []string
	var want [][]string
	np := 0
	for _, cx := range cxs {
		codes = append(codes, cx.code)
		want = append(want, cx.want...)
		np += cx.np
	}
	all := strings.Join(codes, "\n")
	if ts, bad := c03Expect(all, np, want); bad == "" {
		good := true
		for _, t := range ts {
			if r, _ := judge(t); r != "" {
				good = false
			}
		}
		if good {
			return true
		}
	}
	found := false
	for i, cx := range cxs {
		code, np, want := cx.code, cx.np, cx.want
		if i < len(cxs)-1 {
			code, np, want = code+"\nput y", np+1, append(append([][]string{}, want...), []string{"put", "y"})
		}
		ts, bad := c03Expect(code, np, want)
		if bad != "" {
			found = true
			report(cx.name, bad, code, "does not parse to the expected words")
			continue
		}
		for _, t := range ts {
			if r, d := judge(t); r != "" {
				found = true
				report(cx.name, r, code, d)
				break
			}
		}
	}
	if !found {
		report("combined", "shape", all, "each context parses as expected on its own but not one per line")
	}
	return false
}

var c03KindName = map[parse.PrimaryType]string{parse.Bareword: "bareword", parse.SingleQuoted: "single", parse.DoubleQuoted: "double"}

// c03Escapes lists the escape letters used in a double-quoted text.
func c03Escapes(q string) string {
	if q == "" || q[0] != '"' {
		return ""
	}
	seen := map[byte]bool{}
	for i := 1; i+1 < len(q); i++ {
		if q[i] == '\\' {
			seen[q[i+1]] = true
			i++
		}
	}
	var bs []byte
	for b := range seen {
		bs = append(bs, b)
	}
	sort.Slice(bs, func(i, j int) bool { return bs[i] < bs[j] })
	return string(bs)
}

type c03Checker struct {
	c *vk.Ctx
}

// check runs every clause of the property on one string and returns the class.
func (k *c03Checker) check(l *vk.Local, s string, doEval bool) string {
	c := k.c
	e := c03EvalerFor(l)
	viol := func(key, format string, a ...any) {
		c.Violate(key, fmt.Sprintf("s=%q: ", s)+fmt.Sprintf(format, a...), s)
	}

	// ---- general form, all three preferences
	type gen struct {
		q    string
		kind parse.PrimaryType
	}
	var gens []gen
	var class strings.Builder
	for _, pref := range []parse.PrimaryType{parse.Bareword, parse.SingleQuoted, parse.DoubleQuoted} {
		q, kind := parse.QuoteAs(s, pref)
		if pref == parse.Bareword {
			if q0 := parse.Quote(s); q0 != q {
				viol("general:quote-differs-from-quoteas", "Quote gives %q but QuoteAs(Bareword) gives %q", q0, q)
			}
		}
		class.WriteString(c03KindName[kind][:1])
		dup := false
		for _, g := range gens {
			if g.q == q {
				dup = true
				if g.kind != kind {
					viol("general:kind-inconsistent", "QuoteAs reports kinds %v and %v for the same text %q", g.kind, kind, q)
				}
			}
		}
		if !dup {
			gens = append(gens, gen{q, kind})
		}
	}
	for _, g := range gens {
		kn := c03KindName[g.kind]
		if kn == "" {
			viol("general:kind-not-string", "QuoteAs reports kind %v for %q", g.kind, g.q)
			continue
		}
		// reference reading
		val, dk, bad, _ := c03Decode(g.q, c03General)
		switch {
		case bad != "":
			viol("doc:general:"+bad, "quoted text %q is not a literal allowed by the reference as argument and map key (%s)", g.q, bad)
		case dk != g.kind:
			viol("doc:general:kind", "quoted text %q is a %v literal but QuoteAs reported %v", g.q, dk, g.kind)
		case val != s:
			viol("doc:general:value:"+kn, "quoted text %q denotes %q according to the reference", g.q, val)
		}
		// real parser, three argument contexts and the map key
		ok := c03InContexts([]c03Cx{
			{"arg-mid", "put x " + g.q + " y", 1, [][]string{{"put", "x", "\x00T", "y"}}},
			{"arg-nl", "put " + g.q, 1, [][]string{{"put", "\x00T"}}},
			{"arg", "put " + g.q, 1, [][]string{{"put", "\x00T"}}},
		}, func(p *parse.Primary) (string, string) {
			if p.Type != g.kind {
				return "type", fmt.Sprintf("the word is a %v primary, QuoteAs reported %v", p.Type, g.kind)
			}
			if p.Value != s {
				return "value", fmt.Sprintf("the word has value %q", p.Value)
			}
			return "", ""
		}, func(cx, reason, code, detail string) {
			viol("parse:"+cx+":"+reason+":"+kn, "code %q: %s", code, detail)
		})
		mapCode := "put [&" + g.q + "=v]"
		mapOK := true
		if ps, bad := c03Expect(mapCode, 1, [][]string{{"put", "\x00T"}}); bad != "" {
			mapOK = false
			viol("parse:mapkey:"+bad+":"+kn, "code %q does not parse to put + one word (%s)", mapCode, bad)
		} else if p := ps[0]; p.Type != parse.Map || len(p.MapPairs) != 1 || len(p.Elements) != 0 {
			mapOK = false
			viol("parse:mapkey:not-one-pair:"+kn, "code %q: the word is a %v with %d pairs and %d elements", mapCode, p.Type, len(p.MapPairs), len(p.Elements))
		} else {
			mp := p.MapPairs[0]
			kv, kok := cmpd.Primary(mp.Key)
			vv, vok := "", false
			if mp.Value != nil {
				vv, vok = cmpd.StringLiteral(mp.Value)
			}
			switch {
			case !kok || !vok || vv != "v":
				mapOK = false
				viol("parse:mapkey:pair-shape:"+kn, "code %q: key is one primary: %v, value is literal v: %v (%q)", mapCode, kok, vok, vv)
			case kv.Type != g.kind:
				mapOK = false
				viol("parse:mapkey:type:"+kn, "code %q: key is a %v primary, QuoteAs reported %v", mapCode, kv.Type, g.kind)
			case kv.Value != s:
				mapOK = false
				viol("parse:mapkey:value:"+kn, "code %q: key has value %q", mapCode, kv.Value)
			}
		}
		if !doEval {
			continue
		}
		// real evaluation; when the parse does not have the expected shape,
		// only if nothing but one put without redirections can run.
		if ok || c03OnlyPut("put "+g.q) {
			code := "put " + g.q
			out, err := e.run(code, nil)
			if err != nil {
				viol("eval:arg:error:"+kn, "evaluating %q fails: %v", code, err)
			} else if len(out) != 1 {
				viol("eval:arg:count:"+kn, "evaluating %q outputs %d values %q", code, len(out), fmt.Sprint(out))
			} else if v, isStr := out[0].(string); !isStr || v != s {
				viol("eval:arg:value:"+kn, "evaluating %q outputs %#v", code, out[0])
			}
		}
		if mapOK || c03OnlyPut(mapCode) {
			out, err := e.run(mapCode, nil)
			if err != nil {
				viol("eval:mapkey:error:"+kn, "evaluating %q fails: %v", mapCode, err)
			} else if len(out) != 1 {
				viol("eval:mapkey:count:"+kn, "evaluating %q outputs %d values", mapCode, len(out))
			} else if m, isMap := out[0].(hashmap.Map); !isMap || m.Len() != 1 {
				viol("eval:mapkey:not-one-entry:"+kn, "evaluating %q outputs %#v", mapCode, out[0])
			} else if v, found := m.Index(s); !found || v != "v" {
				it := m.Iterator()
				gk, _ := it.Elem()
				viol("eval:mapkey:value:"+kn, "evaluating %q outputs a map whose only key is %#v", mapCode, gk)
			}
		}
	}

	// ---- command-name form
	qc := parse.QuoteCommandName(s)
	class.WriteByte('/')
	{
		val, dk, bad, silent := c03Decode(qc, c03Command)
		kn := c03KindName[dk]
		class.WriteString(kn[:1])
		switch {
		case bad != "":
			viol("doc:command:"+bad, "command-name text %q is not a literal the reference allows in head position (%s)", qc, bad)
		case val != s:
			viol("doc:command:value:"+kn, "command-name text %q denotes %q according to the reference", qc, val)
		}
		if silent {
			l.Classes["not-judged:doc-silent-caret-in-head"]++
		}
		ok := c03InContexts([]c03Cx{
			{"cmd-nl", qc, 1, [][]string{{"\x00T"}}},
			{"cmd-arg", qc + " x", 1, [][]string{{"\x00T", "x"}}},
			{"cmd-pipe", "put x | " + qc + " y", 1, [][]string{{"put", "x"}, {"\x00T", "y"}}},
			{"cmd-semi", "put x;" + qc + " y", 2, [][]string{{"put", "x"}, {"\x00T", "y"}}},
			{"cmd-alone", qc, 1, [][]string{{"\x00T"}}},
		}, func(p *parse.Primary) (string, string) {
			if !c03IsStringKind(p.Type) || p.Type != dk {
				return "type", fmt.Sprintf("the head is a %v primary", p.Type)
			}
			if p.Value != s {
				return "value", fmt.Sprintf("the head has value %q", p.Value)
			}
			return "", ""
		}, func(cx, reason, code, detail string) {
			viol("parse:"+cx+":"+reason+":"+kn, "code %q: %s", code, detail)
		})
		if doEval && ok {
			// the command named s is a function variable s~ of the global
			// namespace. Names with ':' are qualified names, a leading '@' is
			// not looked up as a function, a '/' makes an external path.
			if strings.ContainsAny(s, ":/") || strings.HasPrefix(s, "@") || c03Specials[s] {
				k.c.Add("not_judged_command_eval_qualified_or_sigil_or_path_or_special", 1)
			} else {
				ns := eval.BuildNs().AddVar(s+eval.FnSuffix, vars.NewReadOnly(c03Fn)).Ns()
				out, err := e.run(qc, ns)
				if err != nil {
					viol("eval:cmd:error:"+kn, "with a function named %q defined, evaluating %q fails: %v", s, qc, err)
				} else if len(out) != 1 || out[0] != c03CmdMarker {
					viol("eval:cmd:not-called:"+kn, "with a function named %q defined, evaluating %q outputs %q", s, qc, fmt.Sprint(out))
				}
			}
		}
	}

	// ---- variable-name form
	qv := parse.QuoteVariableName(s)
	class.WriteByte('/')
	{
		val, dk, bad, _ := c03Decode(qv, c03VarName)
		kn := c03KindName[dk]
		class.WriteString(kn[:1])
		switch {
		case bad != "":
			viol("doc:variable:"+bad, "variable-name text %q is not a name the reference allows after $ (%s)", qv, bad)
		case val != s:
			viol("doc:variable:value:"+kn, "variable-name text %q denotes %q according to the reference", qv, val)
		}
		ok := c03InContexts([]c03Cx{
			{"var-mid", "put x $" + qv + " y", 1, [][]string{{"put", "x", "\x00T", "y"}}},
			{"var-nl", "put $" + qv, 1, [][]string{{"put", "\x00T"}}},
			{"var", "put $" + qv, 1, [][]string{{"put", "\x00T"}}},
		}, func(p *parse.Primary) (string, string) {
			if p.Type != parse.Variable {
				return "type", fmt.Sprintf("the word is a %v primary, not a variable use", p.Type)
			}
			if p.Value != s {
				return "value", fmt.Sprintf("the variable use has name %q", p.Value)
			}
			return "", ""
		}, func(cx, reason, code, detail string) {
			viol("parse:"+cx+":"+reason+":"+kn, "code %q: %s", code, detail)
		})
		if doEval && ok {
			// '@' in front is the explosion sigil and a non-final ':' makes a
			// qualified name: the name is then not looked up as it stands.
			// A leading ':' is reserved.
			if strings.HasPrefix(s, "@") || (strings.Contains(s, ":") && (s[0] == ':' || strings.Index(s, ":") != len(s)-1)) {
				k.c.Add("not_judged_variable_eval_sigil_or_qualified", 1)
			} else {
				ns := eval.BuildNs().AddVar(s, vars.NewReadOnly(c03VarMarker)).Ns()
				code := "put $" + qv
				out, err := e.run(code, ns)
				if err != nil {
					viol("eval:var:error:"+kn, "with a variable named %q defined, evaluating %q fails: %v", s, code, err)
				} else if len(out) != 1 || out[0] != c03VarMarker {
					viol("eval:var:value:"+kn, "with a variable named %q defined, evaluating %q outputs %q", s, code, fmt.Sprint(out))
				}
			}
		}
	}

	// ---- class: kinds chosen per preference / command / variable, escapes
	// used, and features of s
	class.WriteByte('/')
	class.WriteString(c03Escapes(gens[len(gens)-1].q))
	class.WriteByte('/')
	if !utf8.ValidString(s) {
		class.WriteByte('i')
	}
	if strings.HasPrefix(s, "~") {
		class.WriteByte('t')
	}
	if strings.HasPrefix(s, "@") {
		class.WriteByte('s')
	}
	if strings.ContainsAny(s, "=,") {
		class.WriteByte('e')
	}
	if strings.ContainsAny(s, "<*^") {
		class.WriteByte('c')
	}
	if strings.ContainsRune(s, '\'') {
		class.WriteByte('q')
	}
	return class.String()
}

// Special commands (language.md, "Special commands") are not looked up as
// functions; only two-letter ones are reachable in the sweeps.
var c03Specials = map[string]bool{"var": true, "set": true, "tmp": true, "with": true, "del": true, "and": true, "or": true,
	"coalesce": true, "if": true, "while": true, "for": true, "try": true, "fn": true, "pragma": true, "use": true}

var c03Ballast []byte

func TestVerifC03(t *testing.T) {
	vk.Run(t, "C03", "exploration", func(c *vk.Ctx) {
		if d := os.Getenv("VERIF_SCRATCH"); d != "" {
			wd := d + "/c03-cwd"
			os.MkdirAll(wd, 0o755)
			os.Chdir(wd)
		}
		// The live heap is tiny and the parser allocates a lot: without a
		// ballast the collector runs thousands of times per second.
		c03Ballast = make([]byte, 256<<20)
		defer func() { c03Ballast = nil }()
		os.Setenv("PATH", "/nonexistent-c03")
		os.Setenv("HOME", "/nonexistent-c03-home")
		const n = 4
		const core = 24 // the first 24 symbols
		n5 := vk.Pick(c, 0, 5)
		sweepEval := c.Thorough()
		c.Set("alphabet", c03Alphabet)
		c.Set("max_len", n)
		c.Set("core_alphabet_max_len", n5)
		rule := fmt.Sprintf("(1) every string of <=%d symbols over the %d-symbol alphabet %q, length-lexicographic", n, len(c03Alphabet), c03Alphabet)
		if n5 > 0 {
			rule += fmt.Sprintf(", and every string of <=%d symbols over its first %d symbols", n5, core)
		}
		rule += "; (2) every byte string of length <=2 and every byte between a..a; (3) every Unicode scalar value U+0000..U+10FFFF alone, between a..a, and after ~"
		if !sweepEval {
			rule += " (the latter two shapes: Quote* + reference decoder + real parser only, no Evaler)"
		}
		rule += ". On each string: Quote/QuoteAs x3 preferences as argument (3 contexts) and map key, QuoteCommandName in 5 head contexts, QuoteVariableName after $ in 3 contexts; reference decoder + real parser + real Evaler. class = (literal kind chosen per preference / command / variable, set of escape letters in the double-quoted text, features of s: invalid UTF-8, leading ~, leading @, has = or comma, has <*^, has single quote)"
		c.Rule(rule)
		c.Assume("evaluation is observed through Evaler.Eval of `put <text>`, `put [&<text>=v]`, `<text>` with a function s~ in the global namespace and `put $<text>` with a variable s in the global namespace",
			"command evaluation is not judged for names containing ':' or '/' or starting with '@'; variable evaluation is not judged for names starting with '@' or containing a non-final ':' (qualified names); these are judged at parse level only",
			"the reference is silent about ^ as a head bareword character: such texts are judged by the real parser only")
		k := &c03Checker{c: c}

		one := func(l *vk.Local, s string, doEval bool) {
			if p := vk.Try(func() { l.Case(k.check(l, s, doEval)) }); p != "" {
				l.Case("panic")
				c.Violate("panic:"+vk.PanicSite(p), fmt.Sprintf("s=%q: panic: %s", s, p), s)
			}
		}
		// (1)
		c.EnumSeqs(len(c03Alphabet), n, func(l *vk.Local, idx []int) {
			s := vk.Join(c03Alphabet, idx)
			one(l, s, true)
			if len(idx) == n && idx[0] == 1 && idx[1] == 12 && idx[n-1] == 3 {
				c.Sample(s)
			}
		})
		if n5 > 0 {
			c.EnumSeqs(core, n5, func(l *vk.Local, idx []int) {
				if len(idx) == n5 { // shorter ones are part of the enumeration above
					one(l, vk.Join(c03Alphabet, idx), true)
				}
			})
		}
		// (2)
		c.Parallel(256*256, func(l *vk.Local, i int) {
			if c.TimeUp() {
				c.Capped("time budget reached in the byte-pair sweep")
				return
			}
			one(l, string([]byte{byte(i >> 8), byte(i)}), true)
			if i < 256 {
				one(l, string([]byte{byte(i)}), true)
				one(l, "a"+string([]byte{byte(i)})+"a", true)
			}
		})
		// (3)
		c.Parallel(unicode.MaxRune+1, func(l *vk.Local, i int) {
			if i >= 0xd800 && i <= 0xdfff {
				return
			}
			if i%256 == 0 && c.TimeUp() || c.IsCapped() {
				c.Capped("time budget reached in the rune sweep")
				return
			}
			r := string(rune(i))
			one(l, r, true)
			one(l, "a"+r+"a", sweepEval)
			one(l, "~"+r, sweepEval)
		})
	})
}
