//go:build verif

// C43: completion inserts text that evaluates to the chosen candidate.
//
// Bounded-exhaustive: real directories with hostile names (built under
// $VERIF_SCRATCH, explored one after the other as the process cwd and $HOME) x
// every typed prefix of every name, in every typing style (bare, '...  "...,
// open and closed, directory part inside or outside the quotes, ./ ../D/ abs ~/
// sub-directory prefixes) x every cursor position in the typed word x a fixed
// list of code contexts (argument, redirection, command head, nested in
// captures / lists / braces / lambdas / pipelines).  For every case the real
// complete.Complete is run and every offered item is substituted and evaluated
// by the real Evaler.  Variable and command completion: an Evaler with hostile
// variable / function / namespace names, $E: and $e: names and hostile
// external commands in $PATH.
package c43

import (
	"fmt"
	"os"
	"path/filepath"
	"sort"
	"strings"
	"sync"
	"sync/atomic"
	"testing"
	"unicode"
	"unicode/utf8"

	"src.elv.sh/pkg/edit/complete"
	"src.elv.sh/pkg/eval"
	"src.elv.sh/pkg/eval/vals"
	"src.elv.sh/pkg/parse"
	"src.elv.sh/pkg/zzverif/vk"
)

// ---------------------------------------------------------------------------
// Directory entries.

const (
	c43File = iota
	c43Exe
	c43Dir
	c43LnkDir
	c43LnkFile
	c43Dangling
)

type c43Ent struct {
	name string
	kind int
}

var c43Core = []c43Ent{
	{"a b", c43File}, {"a'b", c43Exe}, {"a\"b", c43File}, {"$a", c43Exe}, {"*", c43File}, {"~x", c43Exe},
	{".h", c43File}, {"é", c43Exe}, {"a#b", c43File}, {"a=b", c43Exe}, {"d", c43Dir}, {"-x", c43File},
}

var c43Ext = []c43Ent{
	{"ab", c43Exe}, {"a\\b", c43File}, {"a\nb", c43File}, {"a\tb", c43Exe}, {"?", c43File}, {"a;b", c43File},
	{"a|b", c43Exe}, {"a(b", c43File}, {"a)b", c43File}, {"a[b", c43File}, {"a]b", c43File}, {"a{b", c43File},
	{"a}b", c43File}, {"a,b", c43Exe}, {"a<b", c43File}, {"a>b", c43File}, {"a&b", c43File}, {"'", c43Exe},
	{"\"", c43File}, {" x", c43File}, {"x ", c43File}, {"\xffz", c43File}, {"~", c43File}, {"a^b", c43File},
	{"a%b", c43File}, {"a@b", c43File}, {"a:b", c43File}, {"a!b", c43File}, {"a+b", c43Exe}, {"𝄞", c43File},
	{".k", c43Dir}, {"d e", c43Dir}, {"ld", c43LnkDir}, {"lf", c43LnkFile}, {"lx", c43Dangling},
	{"a\u200bb", c43File}, {"a\u00a0b", c43File}, {"#a", c43File}, {"-", c43File}, {"--", c43File},
	{"&a", c43File}, {"=", c43File}, {"1", c43File}, {">", c43File}, {"<", c43Exe}, {"\\", c43File},
	{"a$b", c43File}, {"a~b", c43File}, {"a*b", c43File}, {"a?b", c43Exe}, {"a\x7fb", c43File},
	{"a\x01b", c43File}, {"..a", c43File}, {".'", c43File}, {"e\u0301", c43File},
}

// every directory created inside a test directory has this content
var c43Sub = []c43Ent{{"i n", c43Exe}, {"in", c43File}, {".hid", c43File}}

func c43Build(dir string, ents []c43Ent) error {
	if err := os.MkdirAll(dir, 0o755); err != nil {
		return err
	}
	for _, e := range ents {
		p := filepath.Join(dir, e.name)
		if e.name[len(e.name)-1] == ' ' || e.name[0] == ' ' {
			p = dir + "/" + e.name
		}
		var err error
		switch e.kind {
		case c43File:
			err = os.WriteFile(p, nil, 0o644)
		case c43Exe:
			err = os.WriteFile(p, []byte("#!/bin/sh\n"), 0o755)
		case c43Dir:
			err = c43Build(p, c43Sub)
		case c43LnkDir:
			err = os.Symlink("d", p)
		case c43LnkFile:
			err = os.Symlink("a b", p)
		case c43Dangling:
			err = os.Symlink("nonexistent", p)
		}
		if err != nil {
			return err
		}
	}
	return nil
}

// ---------------------------------------------------------------------------
// Typing styles, written from website/ref/language.md (string syntaxes).

const (
	c43Bare = iota
	c43SQ
	c43DQ
	c43Tilde
)

// characters whose meaning inside a bareword is documented without
// reservation, in every expression context
func c43KnownBareRune(r rune) bool {
	switch {
	case 'a' <= r && r <= 'z', 'A' <= r && r <= 'Z', '0' <= r && r <= '9':
		return true
	case strings.ContainsRune("!%+-./:@\\_", r):
		return true
	case r >= 0x80 && r != utf8.RuneError && unicode.IsPrint(r):
		return true
	}
	return false
}

func c43KnownBare(s string) bool {
	if !utf8.ValidString(s) {
		return false
	}
	for _, r := range s {
		if !c43KnownBareRune(r) {
			return false
		}
	}
	return true
}

// can the text be typed as is (raw) at all: valid UTF-8, no control characters
func c43Typable(s string, allowNL bool) bool {
	if !utf8.ValidString(s) {
		return false
	}
	for _, r := range s {
		if r == '\n' || r == '\t' {
			if !allowNL {
				return false
			}
			continue
		}
		if r < 0x20 || r == 0x7f {
			return false
		}
	}
	return true
}

func c43SQText(s string, closed bool) string {
	t := "'" + strings.ReplaceAll(s, "'", "''")
	if closed {
		t += "'"
	}
	return t
}

func c43DQText(s string, closed bool) string {
	var sb strings.Builder
	sb.WriteByte('"')
	for i := 0; i < len(s); {
		r, w := utf8.DecodeRuneInString(s[i:])
		switch {
		case r == utf8.RuneError && w == 1:
			fmt.Fprintf(&sb, "\\x%02x", s[i])
		case r == '"':
			sb.WriteString("\\\"")
		case r == '\\':
			sb.WriteString("\\\\")
		case r == '\n':
			sb.WriteString("\\n")
		case r == '\t':
			sb.WriteString("\\t")
		case r < 0x20 || r == 0x7f:
			fmt.Fprintf(&sb, "\\x%02x", r)
		case r >= 0x80 && !unicode.IsPrint(r):
			for j := 0; j < w; j++ {
				fmt.Fprintf(&sb, "\\x%02x", s[i+j])
			}
		default:
			sb.WriteRune(r)
		}
		i += w
	}
	if closed {
		sb.WriteByte('"')
	}
	return sb.String()
}

// c43Unquote undoes the three string syntaxes for one complete word; ok=false
// when the word is not a single plain string literal this function understands.
func c43Unquote(w string) (string, bool) {
	if w == "" {
		return "", false
	}
	switch w[0] {
	case '\'':
		if len(w) < 2 || w[len(w)-1] != '\'' {
			return "", false
		}
		in := w[1 : len(w)-1]
		var sb strings.Builder
		for i := 0; i < len(in); i++ {
			if in[i] == '\'' {
				if i+1 >= len(in) || in[i+1] != '\'' {
					return "", false
				}
				i++
			}
			sb.WriteByte(in[i])
		}
		return sb.String(), true
	case '"':
		if len(w) < 2 || w[len(w)-1] != '"' {
			return "", false
		}
		in := w[1 : len(w)-1]
		var sb strings.Builder
		for i := 0; i < len(in); i++ {
			if in[i] == '"' {
				return "", false
			}
			if in[i] != '\\' {
				sb.WriteByte(in[i])
				continue
			}
			i++
			if i >= len(in) {
				return "", false
			}
			hex := func(n int) (rune, bool) {
				if i+n >= len(in) {
					return 0, false
				}
				var v rune
				for _, c := range in[i+1 : i+1+n] {
					v <<= 4
					switch {
					case '0' <= c && c <= '9':
						v |= c - '0'
					case 'a' <= c && c <= 'f':
						v |= c - 'a' + 10
					case 'A' <= c && c <= 'F':
						v |= c - 'A' + 10
					default:
						return 0, false
					}
				}
				i += n
				return v, true
			}
			switch in[i] {
			case 'n':
				sb.WriteByte('\n')
			case 't':
				sb.WriteByte('\t')
			case 'r':
				sb.WriteByte('\r')
			case 'a':
				sb.WriteByte(7)
			case 'b':
				sb.WriteByte(8)
			case 'f':
				sb.WriteByte(12)
			case 'v':
				sb.WriteByte(11)
			case 'e':
				sb.WriteByte(27)
			case '\\':
				sb.WriteByte('\\')
			case '"':
				sb.WriteByte('"')
			case 'x':
				v, ok := hex(2)
				if !ok {
					return "", false
				}
				sb.WriteByte(byte(v))
			case 'u':
				v, ok := hex(4)
				if !ok {
					return "", false
				}
				sb.WriteRune(v)
			case 'U':
				v, ok := hex(8)
				if !ok {
					return "", false
				}
				sb.WriteRune(v)
			default:
				return "", false
			}
		}
		return sb.String(), true
	}
	for _, r := range w {
		if !c43KnownBareRune(r) && r != '~' && r != '=' && r != ',' {
			return "", false
		}
	}
	if w[0] == '~' {
		return "", false
	}
	return w, true
}

// ---------------------------------------------------------------------------
// Typed words.

type c43Word struct {
	text      string
	leaf      int    // style of the last part
	single    bool   // one part only: the quoting style the user started is unambiguous
	swallow   bool   // ends in an unterminated quote: swallows the rest of the buffer
	known     bool   // value derivable from the documentation
	value     string // the value of the word (seed) when known
	baseStart int    // offset of the base name part in text
	lastStart int    // offset of the last part (primary) of the word in text
	shape     string
}

// a directory prefix as typed
type c43Dv struct {
	kind    string
	typed   string   // the raw directory part ("" "./" "../D001/" ...), or home-relative for tilde
	tilde   bool     // typed as ~/...
	value   string   // what the directory part evaluates to
	ents    []c43Ent // entries of the directory it denotes
	hostile bool     // cannot be typed bare
}

func c43Words(dv c43Dv, base string) []c43Word {
	var out []c43Word
	full := dv.typed + base
	val := dv.value + base
	if dv.tilde {
		// ~/ + base: tilde must be bare and first
		rest := dv.typed // "/" or "/sub/"
		if c43Typable(rest+base, false) {
			out = append(out, c43Word{text: "~" + rest + base, leaf: c43Bare, known: c43KnownBare(rest + base), value: val,
				baseStart: 1 + len(rest), lastStart: 1, shape: "~bare"})
		}
		if c43Typable(base, true) {
			out = append(out, c43Word{text: "~" + rest + c43SQText(base, false), leaf: c43SQ, swallow: true, known: true, value: val,
				baseStart: 1 + len(rest), lastStart: 1 + len(rest), shape: "~bare+sq-open"})
		}
		out = append(out, c43Word{text: "~" + rest + c43DQText(base, false), leaf: c43DQ, swallow: true, known: true, value: val,
			baseStart: 1 + len(rest), lastStart: 1 + len(rest), shape: "~bare+dq-open"})
		out = append(out, c43Word{text: "~" + rest + c43DQText(base, true), leaf: c43DQ, known: true, value: val,
			baseStart: 1 + len(rest), lastStart: 1 + len(rest), shape: "~bare+dq-closed"})
		return out
	}
	if c43Typable(full, false) && !dv.hostile {
		known := c43KnownBare(full) && !strings.HasPrefix(full, "~")
		sh := "bare"
		if !known {
			sh = "raw"
		}
		out = append(out, c43Word{text: full, leaf: c43Bare, single: true, known: known, value: val, baseStart: len(dv.typed), shape: sh})
	}
	if c43Typable(full, true) {
		out = append(out, c43Word{text: c43SQText(full, false), leaf: c43SQ, single: true, swallow: true, known: true, value: val,
			baseStart: 1 + len(strings.ReplaceAll(dv.typed, "'", "''")), shape: "sq-open"})
		out = append(out, c43Word{text: c43SQText(full, true), leaf: c43SQ, single: true, known: true, value: val,
			baseStart: 1 + len(strings.ReplaceAll(dv.typed, "'", "''")), shape: "sq-closed"})
	}
	dqpre := c43DQText(dv.typed, false)
	out = append(out, c43Word{text: c43DQText(full, false), leaf: c43DQ, single: true, swallow: true, known: true, value: val,
		baseStart: len(dqpre), shape: "dq-open"})
	out = append(out, c43Word{text: c43DQText(full, true), leaf: c43DQ, single: true, known: true, value: val,
		baseStart: len(dqpre), shape: "dq-closed"})
	if dv.typed != "" {
		if !dv.hostile && c43KnownBare(dv.typed) {
			if c43Typable(base, true) {
				out = append(out, c43Word{text: dv.typed + c43SQText(base, false), leaf: c43SQ, swallow: true, known: true, value: val,
					baseStart: len(dv.typed), lastStart: len(dv.typed), shape: "bare+sq-open"})
			}
			out = append(out, c43Word{text: dv.typed + c43DQText(base, false), leaf: c43DQ, swallow: true, known: true, value: val,
				baseStart: len(dv.typed), lastStart: len(dv.typed), shape: "bare+dq-open"})
			out = append(out, c43Word{text: dv.typed + c43DQText(base, true), leaf: c43DQ, known: true, value: val,
				baseStart: len(dv.typed), lastStart: len(dv.typed), shape: "bare+dq-closed"})
		}
		if dv.hostile && strings.HasSuffix(dv.typed, "/") && c43Typable(base, false) {
			// 'd e'/base : quoted directory name, bare rest
			d := strings.TrimSuffix(dv.typed, "/")
			q := c43SQText(d, true)
			out = append(out, c43Word{text: q + "/" + base, leaf: c43Bare, known: c43KnownBare(base), value: val,
				baseStart: len(q) + 1, lastStart: len(q), shape: "sq-closed+bare"})
			q = c43DQText(d, true)
			out = append(out, c43Word{text: q + "/" + c43SQText(base, false), leaf: c43SQ, swallow: true, known: true, value: val,
				baseStart: len(q) + 1, lastStart: len(q) + 1, shape: "dq-closed+bare+sq-open"})
		}
	}
	return out
}

// cursor positions inside a typed word
func c43Dots(w c43Word) []int {
	var out []int
	n := len(w.text)
	for p := 0; p <= n; p++ {
		if p < n && !utf8.RuneStart(w.text[p]) {
			continue
		}
		if n <= 12 || p <= 1 || p >= w.baseStart-2 || p == w.baseStart/2 {
			out = append(out, p)
		}
	}
	return out
}

func c43Prefixes(ents []c43Ent) []string {
	seen := map[string]bool{}
	var out []string
	add := func(s string) {
		if !seen[s] {
			seen[s] = true
			out = append(out, s)
		}
	}
	add("")
	for _, e := range ents {
		for i := 0; i < len(e.name); {
			_, w := utf8.DecodeRuneInString(e.name[i:])
			i += w
			add(e.name[:i])
		}
	}
	// prefixes that match nothing / only by the dot rule
	add(".")
	add("zz")
	return out
}

// ---------------------------------------------------------------------------
// Code contexts.

const (
	c43Put = iota
	c43Redir
	c43Cmd
)

type c43Wrap struct {
	kind          int
	pre, post     string
	closer        string // appended instead of post when an open quote swallowed post
	before, after []string
}

var c43Wraps = []c43Wrap{
	{c43Put, "put ", "", "", nil, nil},
	{c43Redir, "echo > ", "", "", nil, nil},
	{c43Cmd, "", "", "", nil, nil},
	{c43Put, "put (put ", ")", ")", nil, nil},
	// the remaining ones are skipped for the big directory in the quick tier
	{c43Put, "put x ", " y", "", []string{"x"}, []string{"y"}},
	{c43Put, "nop z; put ", "", "", nil, nil},
	{c43Put, "nop z | put ", " | put (all)", " | put (all)", nil, nil},
	{c43Put, "put [x ", "][1]", "][1]", nil, nil},
	{c43Put, "put {x,", "}", "}", []string{"x"}, nil},
	{c43Put, "{ put ", " }", " }", nil, nil},
	{c43Put, "put [&k=", "][k]", "][k]", nil, nil},
	{c43Put, "if $true { put ", " }", " }", nil, nil},
	{c43Put, "nop\nput ", "\n", "", nil, nil},
	{c43Put, "var c43v = ", "; put $c43v", "; put $c43v", nil, nil},
	{c43Put, "set c43v = ", "; put $c43v", "; put $c43v", nil, nil},
	{c43Put, "each {|c43p| put ", " } [x]", " } [x]", nil, nil},
	{c43Redir, "echo >", "", "", nil, nil},
	{c43Redir, "echo x 2>> ", " y", "", nil, nil},
	{c43Redir, "cat < ", "", "", nil, nil},
	{c43Cmd, "nop | ", " z", "", nil, nil},
	{c43Cmd, "put (", ")", ")", nil, nil},
	{c43Cmd, "{ ", " }", " }", nil, nil},
}

var c43WrapKind = []string{"arg", "redir", "cmd"}

// ---------------------------------------------------------------------------
// Workers, evaluation, violations.

type c43Viol struct {
	order    int64
	key, msg string
	replay   any
}

var (
	c43Mu    sync.Mutex
	c43Viols = map[string]c43Viol{}
)

func c43Report(order int64, key, msg string, replay any) {
	c43Mu.Lock()
	if old, ok := c43Viols[key]; !ok || order < old.order {
		c43Viols[key] = c43Viol{order, key, msg, replay}
	}
	c43Mu.Unlock()
}

type c43EvalRes struct {
	outs []any
	err  error
	pan  string
}

type c43Worker struct {
	ev    *eval.Evaler
	ch    chan any
	ports []*eval.Port
	cache map[string]c43EvalRes
	nj    map[string]int64
}

var c43Workers sync.Map // *vk.Local -> *c43Worker
var c43ExtRuns sync.Map // completed buffer -> result of really running the external command (shared: forks are slow)

func c43GetWorker(c *vk.Ctx, l *vk.Local, setup string) *c43Worker {
	if w, ok := c43Workers.Load(l); ok {
		return w.(*c43Worker)
	}
	ch := make(chan any, 8192)
	w := &c43Worker{ev: eval.NewEvaler(), ch: ch, cache: map[string]c43EvalRes{}, nj: map[string]int64{}}
	w.ports = []*eval.Port{eval.DummyInputPort, {File: eval.DevNull, Chan: ch}, eval.DummyOutputPort}
	if _, err, pan := w.eval(setup); err != nil || pan != "" {
		panic(fmt.Sprintf("c43 harness: evaler setup failed: %v %s", err, pan))
	}
	c.Watch(l)
	c43Workers.Store(l, w)
	return w
}

func c43FlushWorkers(c *vk.Ctx) {
	c43Workers.Range(func(k, v any) bool {
		for key, n := range v.(*c43Worker).nj {
			c.Add(key, n)
		}
		c43Workers.Delete(k)
		return true
	})
}

func (w *c43Worker) eval(code string) (out []any, err error, pan string) {
	pan = vk.Try(func() {
		err = w.ev.Eval(parse.Source{Name: "c43", Code: code}, eval.EvalCfg{Ports: w.ports})
	})
	for {
		select {
		case v := <-w.ch:
			out = append(out, v)
		default:
			return
		}
	}
}

func (w *c43Worker) evalCached(code string) c43EvalRes {
	if r, ok := w.cache[code]; ok {
		return r
	}
	o, e, p := w.eval(code)
	r := c43EvalRes{o, e, p}
	if len(w.cache) > 200000 {
		w.cache = map[string]c43EvalRes{}
	}
	w.cache[code] = r
	return r
}

// evalBytes evaluates code and captures the byte output too (external commands).
func (w *c43Worker) evalBytes(code string) (vs []any, bs string, err error, pan string) {
	port, collect, perr := eval.CapturePort()
	if perr != nil {
		return nil, "", perr, ""
	}
	pan = vk.Try(func() {
		err = w.ev.Eval(parse.Source{Name: "c43", Code: code}, eval.EvalCfg{Ports: []*eval.Port{eval.DummyInputPort, port, eval.DummyOutputPort}})
	})
	v, b := collect()
	return v, string(b), err, pan
}

func c43Strs(vs []any) ([]string, bool) {
	out := make([]string, len(vs))
	for i, v := range vs {
		s, ok := v.(string)
		if !ok {
			return nil, false
		}
		out[i] = s
	}
	return out, true
}

func c43EqStrs(a, b []string) bool {
	if len(a) != len(b) {
		return false
	}
	for i := range a {
		if a[i] != b[i] {
			return false
		}
	}
	return true
}

func c43InsKind(ins string) string {
	switch {
	case ins == "":
		return "e"
	case ins[0] == '\'':
		return "s"
	case ins[0] == '"':
		return "d"
	}
	return "b"
}

func c43Bucket(n int) string {
	switch {
	case n == 0:
		return "0"
	case n == 1:
		return "1"
	case n <= 3:
		return "2-3"
	case n <= 12:
		return "4-12"
	}
	return "13+"
}

func c43NameClass(e c43Ent) string {
	switch {
	case e.kind == c43Dir:
		return "dir"
	case e.kind >= c43LnkDir:
		return "symlink"
	case strings.HasPrefix(e.name, "."):
		return "hidden"
	case !utf8.ValidString(e.name):
		return "invalid-utf8-name"
	case !c43Typable(e.name, false):
		return "unprintable-name"
	case !c43KnownBare(e.name) || e.name[0] == '~':
		return "metachar-name"
	}
	return "plain"
}

func c43Printable(s string) bool {
	if !utf8.ValidString(s) {
		return false
	}
	for _, r := range s {
		if !unicode.IsPrint(r) {
			return false
		}
	}
	return true
}

// names that are barewords in every context according to language.md and that
// Quote therefore has to leave alone ("If s is a valid bareword, it is returned as is")
func c43SafeBare(s string) bool {
	if s == "" || s[0] == '~' {
		return false
	}
	for _, r := range s {
		ok := 'a' <= r && r <= 'z' || 'A' <= r && r <= 'Z' || '0' <= r && r <= '9' || r == '-' || r == '_' || r == '.' || r == '/' ||
			(r >= 0x80 && unicode.IsLetter(r))
		if !ok {
			return false
		}
	}
	return true
}

// ---------------------------------------------------------------------------
// Part F: file names.

type c43Case struct {
	buf   string
	dot   int
	wi    int // wrapper
	word  c43Word
	start int // offset of the word in buf
	dv    *c43Dv
	base  string
}

type c43DirSpec struct {
	idx   int
	name  string
	ents  []c43Ent
	wraps []int // wrapper indices
	big   bool
}

// c43Group is one typed word in one directory; its cases are the wrappers x
// cursor positions.
type c43Group struct {
	word c43Word
	dv   *c43Dv
	base string
}

func c43DirGroups(root string, d c43DirSpec) []c43Group {
	abs := root + "/" + d.name + "/"
	dvs := []c43Dv{
		{kind: "cwd", typed: "", value: "", ents: d.ents},
		{kind: "dot", typed: "./", value: "./", ents: d.ents},
		{kind: "updown", typed: "../" + d.name + "/", value: "../" + d.name + "/", ents: d.ents},
		{kind: "abs", typed: abs, value: abs, ents: d.ents},
		{kind: "tilde", typed: "/", tilde: true, value: abs, ents: d.ents},
	}
	for _, e := range d.ents {
		if e.kind == c43Dir || e.kind == c43LnkDir {
			host := !c43KnownBare(e.name)
			dvs = append(dvs, c43Dv{kind: "sub", typed: e.name + "/", value: e.name + "/", ents: c43Sub, hostile: host})
			if e.kind == c43Dir && !host {
				dvs = append(dvs, c43Dv{kind: "tilde-sub", typed: "/" + e.name + "/", tilde: true, value: abs + e.name + "/", ents: c43Sub})
			}
		}
	}
	var groups []c43Group
	for di := range dvs {
		dv := &dvs[di]
		if d.big && (dv.kind == "updown" || dv.kind == "abs") {
			// the big directory: fewer directory-prefix variants
			continue
		}
		for _, base := range c43Prefixes(dv.ents) {
			for _, w := range c43Words(*dv, base) {
				groups = append(groups, c43Group{w, dv, base})
			}
		}
	}
	return groups
}

// c43GroupCases calls f for every case of the group.
func c43GroupCases(g c43Group, wraps []int, f func(k int, cs c43Case)) int {
	k := 0
	dots := c43Dots(g.word)
	for _, wi := range wraps {
		wr := c43Wraps[wi]
		if wr.kind == c43Cmd && !strings.Contains(g.word.value, "/") {
			continue // a command head without slash is searched in $PATH: part C
		}
		for _, p := range dots {
			f(k, c43Case{buf: wr.pre + g.word.text + wr.post, dot: len(wr.pre) + p, wi: wi, word: g.word,
				start: len(wr.pre), dv: g.dv, base: g.base})
			k++
		}
	}
	return k
}

func c43ShownText(it complete.Result, i int) string {
	var sb strings.Builder
	for _, seg := range it.Items[i].ToShow {
		sb.WriteString(seg.Text)
	}
	return sb.String()
}

func c43RunFileCase(c *vk.Ctx, l *vk.Local, w *c43Worker, order int64, cs c43Case) {
	wr := c43Wraps[cs.wi]
	desc := func() string {
		return fmt.Sprintf("buffer %q dot %d (directory entries %s, typed word %q in %s style)", cs.buf, cs.dot, c43EntNames(cs.dv.ents), cs.word.text, cs.word.shape)
	}
	replay := map[string]any{"buffer": cs.buf, "dot": cs.dot}
	var res *complete.Result
	var err error
	if pan := vk.Try(func() {
		res, err = complete.Complete(complete.CodeBuffer{Content: cs.buf, Dot: cs.dot}, w.ev, complete.Config{})
	}); pan != "" {
		c43Report(order, "panic:"+vk.PanicSite(pan), desc()+": Complete panicked: "+pan, replay)
		l.Case("panic")
		return
	}
	pdot := cs.dot - cs.start
	abut := pdot == 0 && len(cs.word.text) > 0
	// The seed is the word up to the end of the part (primary) the cursor is in;
	// with the cursor in an earlier part of a compound word the documentation
	// does not say what the typed prefix is: only soundness is judged then.
	judgeSet := cs.word.known && (pdot > cs.word.lastStart || len(cs.word.text) == 0)
	// an unterminated quote extends to the end of the buffer: the rest of the
	// buffer is part of the typed string
	base := cs.base
	if cs.word.swallow {
		base += wr.post
	}
	dotKind := "in"
	if pdot == 0 {
		dotKind = "start"
	} else if pdot == len(cs.word.text) {
		dotKind = "end"
	}
	class := fmt.Sprintf("F/%s/%s/%s/%s", c43WrapKind[wr.kind], cs.dv.kind, cs.word.shape, dotKind)

	// which entries must / may be offered
	type acc struct {
		ent  int
		slash bool
	}
	accept := map[string]acc{}
	must := map[int]bool{}
	if judgeSet {
		for i, e := range cs.dv.ents {
			if !strings.HasPrefix(e.name, base) {
				continue
			}
			// completion.d.elv: hidden files iff the base name starts with "."
			if strings.HasPrefix(e.name, ".") != strings.HasPrefix(base, ".") {
				continue
			}
			v := cs.dv.value + e.name
			switch e.kind {
			case c43Dir:
				accept[v+"/"] = acc{i, true}
			case c43LnkDir: // the documentation does not say whether a symlink to a directory counts as a directory
				accept[v+"/"] = acc{i, true}
				accept[v] = acc{i, false}
			default:
				accept[v] = acc{i, false}
			}
			if wr.kind != c43Cmd || e.kind == c43Exe || e.kind == c43Dir {
				must[i] = true // in command position non-executable files and symlinks are optional
			}
		}
	}

	if err != nil || res == nil {
		// the property only speaks about positions where completion is offered
		w.nj["no_completion_offered"]++
		l.Case(class + "/none")
		return
	}
	if res.Name == "variable" || res.Name == "index" {
		// a raw typed word that is not a plain string (e.g. $a): not a file name completion
		w.nj["not_judged_raw_word_in_other_context"]++
		l.Case(class + "/" + res.Name)
		return
	}
	f, t := res.Replace.From, res.Replace.To
	if f < 0 || t < f || t > len(cs.buf) || (f < len(cs.buf) && !utf8.RuneStart(cs.buf[f])) || (t < len(cs.buf) && !utf8.RuneStart(cs.buf[t])) {
		c43Report(order, "range-outside-buffer", fmt.Sprintf("%s: replace range [%d,%d) is not a range of the buffer (length %d) on character boundaries", desc(), f, t, len(cs.buf)), replay)
		l.Case(class + "/badrange")
		return
	}
	swallowed := cs.word.swallow && t == len(cs.buf)
	covered := map[int]int{}
	insKinds := map[string]bool{}
	for i, it := range res.Items {
		ins := it.ToInsert
		shown := c43ShownText(*res, i)
		insKinds[c43InsKind(ins)] = true
		r := w.evalCached("put " + ins)
		if r.pan != "" {
			c43Report(order, "panic:"+vk.PanicSite(r.pan), fmt.Sprintf("%s: evaluating inserted text %q panicked: %s", desc(), ins, r.pan), replay)
			continue
		}
		vsAny := r.outs
		vs, allStr := c43Strs(vsAny)
		if r.err != nil || !allStr || len(vs) != 1 {
			c43Report(order, "insert-not-one-string-word:"+res.Name, fmt.Sprintf("%s: candidate %q inserts %q, which as a word evaluates to %d values %q, error %v; expected the single string %q",
				desc(), shown, ins, len(vsAny), vs, r.err, shown), replay)
			continue
		}
		v := vs[0]
		if v != shown {
			c43Report(order, "insert-value-differs-from-candidate:"+res.Name, fmt.Sprintf("%s: candidate %q inserts %q, which evaluates to %q", desc(), shown, ins, v), replay)
			continue
		}
		// in context: substitute and evaluate the whole buffer
		if wr.kind == c43Put && cs.word.known && !abut && res.Name == "argument" {
			nb := cs.buf[:f] + ins + cs.buf[t:]
			want := append([]string{}, wr.before...)
			want = append(want, shown)
			if swallowed {
				nb += wr.closer
			} else {
				want = append(want, wr.after...)
			}
			rr := w.evalCached(nb)
			o, e, pan := rr.outs, rr.err, rr.pan
			got, ok := c43Strs(o)
			if pan != "" || e != nil || !ok || !c43EqStrs(got, want) {
				k := "other"
				if f == t && f != cs.dot {
					k = "inserted-away-from-cursor"
				}
				c43Report(order, "completed-buffer-value-differs:"+k, fmt.Sprintf("%s: choosing candidate %q (insert %q over [%d,%d)) gives the buffer %q, which evaluates to %q, error %v %s; expected %q",
					desc(), shown, ins, f, t, nb, o, e, pan, want), replay)
			}
		}
		if !judgeSet {
			continue
		}
		a, ok := accept[v]
		if !ok {
			k := "other"
			name := strings.TrimSuffix(strings.TrimPrefix(v, cs.dv.value), "/")
			switch {
			case !strings.HasPrefix(v, cs.dv.value) || !c43HasEnt(cs.dv.ents, name):
				k = "not-a-directory-entry"
			case !strings.HasPrefix(name, base):
				k = "without-typed-prefix"
			case strings.HasPrefix(name, "."):
				k = "hidden"
			default:
				k = "form"
			}
			c43Report(order, "extra-candidate:"+k, fmt.Sprintf("%s: offers %q (insert %q), which is not an entry of the directory starting with the typed base name %q", desc(), v, ins, base), replay)
			continue
		}
		covered[a.ent]++
		if covered[a.ent] == 2 {
			c43Report(order, "duplicate-candidate", fmt.Sprintf("%s: the entry %q is offered more than once", desc(), cs.dv.ents[a.ent].name), replay)
		}
		e := cs.dv.ents[a.ent]
		// completion.d.elv: "Directories have a trailing / in the stem; non-directory files have a space as their code suffix"
		if e.kind != c43LnkDir {
			if e.kind == c43Dir && strings.HasSuffix(ins, " ") {
				c43Report(order, "code-suffix:space-after-directory", fmt.Sprintf("%s: directory %q inserted as %q", desc(), e.name, ins), replay)
			}
			if e.kind != c43Dir && !strings.HasSuffix(ins, " ") {
				c43Report(order, "code-suffix:no-space-after-file", fmt.Sprintf("%s: file %q inserted as %q", desc(), e.name, ins), replay)
			}
		}
		// style
		if cs.word.single {
			switch cs.word.leaf {
			case c43DQ:
				if ins[0] != '"' {
					c43Report(order, "quote-style-not-kept:dq->"+c43InsKind(ins), fmt.Sprintf("%s: typed in double quotes, candidate %q inserted as %q", desc(), v, ins), replay)
				}
			case c43SQ:
				if ins[0] != '\'' {
					if c43Printable(v) {
						c43Report(order, "quote-style-not-kept:sq->"+c43InsKind(ins), fmt.Sprintf("%s: typed in single quotes, candidate %q inserted as %q", desc(), v, ins), replay)
					} else {
						w.nj["not_judged_style_single_quote_with_unprintable_name"]++
					}
				}
			case c43Bare:
				if c43SafeBare(v) {
					if strings.TrimSuffix(ins, " ") != v {
						c43Report(order, "quote-style-not-kept:bare->"+c43InsKind(ins), fmt.Sprintf("%s: typed bare, candidate %q is a valid bareword but inserted as %q", desc(), v, ins), replay)
					}
				} else {
					w.nj["not_judged_style_bare_with_name_needing_quotes"]++
				}
			}
		}
	}
	if judgeSet {
		for i := range cs.dv.ents {
			if must[i] && covered[i] == 0 {
				e := cs.dv.ents[i]
				c43Report(order, "missing-candidate:"+c43NameClass(e), fmt.Sprintf("%s: the entry %q starts with the typed base name %q but is not offered (offered: %d items)", desc(), e.name, base, len(res.Items)), replay)
			}
		}
	} else if abut {
		w.nj["not_judged_cursor_at_start_of_following_word"]++
	} else if !cs.word.known {
		w.nj["not_judged_set_for_raw_bareword"]++
	} else {
		w.nj["not_judged_set_for_cursor_in_earlier_part_of_compound_word"]++
	}
	var ks []string
	for k := range insKinds {
		ks = append(ks, k)
	}
	sort.Strings(ks)
	l.Case(fmt.Sprintf("%s/%s/n%s/%s", class, res.Name, c43Bucket(len(res.Items)), strings.Join(ks, "")))
}

func c43HasEnt(ents []c43Ent, name string) bool {
	for _, e := range ents {
		if e.name == name {
			return true
		}
	}
	return false
}

func c43EntNames(ents []c43Ent) string {
	if len(ents) > 14 {
		return fmt.Sprintf("[%d entries]", len(ents))
	}
	var ns []string
	for _, e := range ents {
		n := e.name
		if e.kind == c43Dir {
			n += "/"
		}
		ns = append(ns, n)
	}
	return fmt.Sprintf("%q", ns)
}

// ---------------------------------------------------------------------------
// Part V: variable names.  Part C: command names.

var c43VarNames = []string{"ab", "a b", "a'b", "a\"b", "$a", "*", "~x", ".h", "é", "a#b", "a=b", "d", "-x", "a.b", "a\nb", "abc"}
var c43NsM = []string{"pq", "p q", "p'q", ".r", "é", "r-s"}
var c43NsSub = []string{"zy", "z z"}
var c43NsHostile = []string{"k", "k l"} // members of the namespace "n s:"
var c43EnvNames = []string{"C43_PLAIN", "c43.dot", "c43 sp", "c43-dash", "c43é"}
var c43ExtNames = []string{"xab", "x y", "x'y", "x\"y", "$x", "*x", "~x", ".x", "xé", "x#y", "x=y", "-x", "x,y", "x<y", "x.z", "x+y"}
var c43FnNames = []string{"fab", "f g", "f'g", "f\"g", "$f", "*f", "~f", ".f", "fé", "f#g", "f=g", "-f", "f,g", "f\ng", "f<g", "f>g", "f*g", "f^g"}
var c43NsFns = []string{"pq", "p q"} // functions in the namespace "m:"

func c43Q(s string) string { return c43SQText(s, true) }

func c43VCSetup() string {
	var sb strings.Builder
	sb.WriteString("var c43v = ''\n")
	for _, n := range c43VarNames {
		fmt.Fprintf(&sb, "var %s = [%s]\n", c43Q(n), c43Q("v:"+n))
	}
	sb.WriteString("var m: = (ns [")
	for _, n := range c43NsM {
		fmt.Fprintf(&sb, " &%s=[%s]", c43Q(n), c43Q("v:m:"+n))
	}
	for _, n := range c43NsFns {
		fmt.Fprintf(&sb, " &%s={|@a| put %s }", c43Q(n+"~"), c43Q("f:m:"+n))
	}
	sb.WriteString(" &sub:=(ns [")
	for _, n := range c43NsSub {
		fmt.Fprintf(&sb, " &%s=[%s]", c43Q(n), c43Q("v:m:sub:"+n))
	}
	sb.WriteString("])])\n")
	sb.WriteString("var 'n s:' = (ns [")
	for _, n := range c43NsHostile {
		fmt.Fprintf(&sb, " &%s=[%s]", c43Q(n), c43Q("v:n s:"+n))
	}
	sb.WriteString("])\n")
	for _, n := range c43FnNames {
		fmt.Fprintf(&sb, "fn %s {|@a| put %s }\n", c43Q(n), c43Q("f:"+n))
	}
	return sb.String()
}

// what a qualified variable name of the fixture must evaluate to ("" = only has to resolve)
func c43VarTags() map[string]string {
	m := map[string]string{}
	for _, n := range c43VarNames {
		m[n] = "[" + c43TagRepr("v:"+n) + "]"
	}
	for _, n := range c43NsM {
		m["m:"+n] = "[" + c43TagRepr("v:m:"+n) + "]"
	}
	for _, n := range c43NsSub {
		m["m:sub:"+n] = "[" + c43TagRepr("v:m:sub:"+n) + "]"
	}
	for _, n := range c43NsHostile {
		m["n s:"+n] = "[" + c43TagRepr("v:n s:"+n) + "]"
	}
	for _, n := range c43EnvNames {
		m["E:"+n] = c43TagRepr("v:E:" + n)
	}
	for _, n := range c43ExtNames {
		m["e:"+n+"~"] = ""
	}
	return m
}

func c43TagRepr(s string) string { return vals.ReprPlain(s) }

// variable name characters that may follow $ unquoted (language.md, "Variable use")
func c43VarBare(s string) bool {
	for _, r := range s {
		ok := 'a' <= r && r <= 'z' || 'A' <= r && r <= 'Z' || '0' <= r && r <= '9' || r == '-' || r == '_' || r == ':' || r == '~' ||
			(r >= 0x80 && r != utf8.RuneError && unicode.IsPrint(r))
		if !ok {
			return false
		}
	}
	return true
}

type c43VWrap struct {
	pre, post, closer string
	before, after     []string
	sigil             bool
}

var c43VWraps = []c43VWrap{
	{"put $", "", "", nil, nil, false},
	{"put $@", "", "", nil, nil, true},
	{"put x $", " y", "", []string{"x"}, []string{"y"}, false},
	{"put (put $", ")", ")", nil, nil, false},
	{"if $true { put $", " }", " }", nil, nil, false},
	{"put [z $", "][1]", "][1]", nil, nil, false},
}

type c43NameWord struct {
	text    string
	quoted  bool
	swallow bool
	prefix  string // the typed (partial) qualified name
	shape   string
}

func c43NameWords(p string) []c43NameWord {
	var out []c43NameWord
	if c43VarBare(p) {
		out = append(out, c43NameWord{p, false, false, p, "bare"})
	}
	if c43Typable(p, true) {
		out = append(out, c43NameWord{c43SQText(p, false), true, true, p, "sq-open"})
		out = append(out, c43NameWord{c43SQText(p, true), true, false, p, "sq-closed"})
	}
	out = append(out, c43NameWord{c43DQText(p, false), true, true, p, "dq-open"})
	out = append(out, c43NameWord{c43DQText(p, true), true, false, p, "dq-closed"})
	return out
}

func c43RunePrefixes(names []string) []string {
	seen := map[string]bool{}
	var out []string
	add := func(s string) {
		if !seen[s] {
			seen[s] = true
			out = append(out, s)
		}
	}
	add("")
	for _, n := range names {
		for i := 0; i < len(n); {
			_, w := utf8.DecodeRuneInString(n[i:])
			i += w
			add(n[:i])
		}
	}
	return out
}

func c43NsKind(ns string) string {
	switch {
	case ns == "":
		return "none"
	case ns == "E:" || ns == "e:":
		return ns
	case c43VarBare(ns):
		return "plain"
	}
	return "hostile"
}

func c43ReprAll(vs []any) []string {
	out := make([]string, len(vs))
	for i, v := range vs {
		out[i] = vals.ReprPlain(v)
	}
	return out
}

func c43RunVarCase(l *vk.Local, w *c43Worker, order int64, wi int, nw c43NameWord, pdot int, tags map[string]string) {
	wr := c43VWraps[wi]
	buf := wr.pre + nw.text + wr.post
	dot := len(wr.pre) + pdot
	replay := map[string]any{"buffer": buf, "dot": dot}
	desc := fmt.Sprintf("buffer %q dot %d (typed variable name %q in %s style)", buf, dot, nw.prefix, nw.shape)
	var res *complete.Result
	var err error
	if pan := vk.Try(func() {
		res, err = complete.Complete(complete.CodeBuffer{Content: buf, Dot: dot}, w.ev, complete.Config{})
	}); pan != "" {
		c43Report(order, "panic:"+vk.PanicSite(pan), desc+": Complete panicked: "+pan, replay)
		l.Case("panic")
		return
	}
	ns := ""
	if i := strings.LastIndex(nw.prefix, ":"); i >= 0 {
		ns = nw.prefix[:i+1]
	}
	dotKind := "in"
	if pdot == 0 {
		dotKind = "start"
	} else if pdot == len(nw.text) {
		dotKind = "end"
	}
	class := fmt.Sprintf("V/w%d/ns-%s/%s/%s", wi, c43NsKind(ns), nw.shape, dotKind)
	if err != nil || res == nil {
		w.nj["no_completion_offered"]++
		l.Case(class + "/none")
		return
	}
	if res.Name != "variable" {
		w.nj["not_judged_variable_buffer_completed_in_other_context"]++
		l.Case(class + "/" + res.Name)
		return
	}
	f, t := res.Replace.From, res.Replace.To
	if f < 0 || t < f || t > len(buf) || (f < len(buf) && !utf8.RuneStart(buf[f])) || (t < len(buf) && !utf8.RuneStart(buf[t])) {
		c43Report(order, "range-outside-buffer", fmt.Sprintf("%s: replace range [%d,%d) is not a range of the buffer (length %d) on character boundaries", desc, f, t, len(buf)), replay)
		l.Case(class + "/badrange")
		return
	}
	swallowed := nw.swallow && t == len(buf)
	insKinds := map[string]bool{}
	for i, it := range res.Items {
		ins := it.ToInsert
		shown := c43ShownText(*res, i)
		insKinds[c43InsKind(ins)] = true
		if ns == "" && (shown == "e:" || shown == "E:") {
			// the two special namespaces themselves are offered as prefixes to continue
			w.nj["not_judged_special_namespace_prefix_candidate"]++
			continue
		}
		// the menu shows the name of the variable inside the namespace, either
		// as it is or quoted as it would be written after "$"
		name, ok := c43Unquote(shown)
		if _, mine := tags[ns+shown]; mine && (shown[0] != '\'' && shown[0] != '"' || !ok) {
			name, ok = shown, true
		}
		if !ok {
			w.nj["not_judged_variable_candidate_text_not_understood"]++
			continue
		}
		detail := "other"
		switch {
		case ns != "" && nw.quoted:
			detail = "quoted-typed-name-with-namespace"
		case ns != "" && c43InsKind(ins) != "b":
			detail = "quoted-name-after-namespace"
		case nw.quoted:
			detail = "quoted-typed-name"
		case wr.sigil && c43InsKind(ins) != "b":
			detail = "quoted-name-after-sigil"
		case c43InsKind(ins) != "b":
			detail = "quoted-name"
		}
		nb := buf[:f] + ins + buf[t:]
		want := append([]string{}, wr.before...)
		if swallowed {
			nb += wr.closer
		}
		tag, mine := tags[ns+name]
		if !mine || tag == "" || wr.sigil {
			if wr.sigil && mine && tag != "" && strings.HasPrefix(tag, "[") {
				// $@x of a one-element list: the element
				want = append(want, tag[1:len(tag)-1])
			} else {
				// a builtin variable or an external command: the completed buffer has to compile
				ck, hit := w.cache["\x00check:"+nb]
				if !hit {
					var perr, cerr error
					ck.pan = vk.Try(func() { perr, _, cerr = w.ev.Check(parse.Source{Name: "c43", Code: nb}, nil) })
					ck.outs = []any{perr, cerr}
					w.cache["\x00check:"+nb] = ck
				}
				perr, cerr, pan, pan2 := ck.outs[0], ck.outs[1], ck.pan, ""
				if pan != "" || cerr != nil || perr != nil {
					c43Report(order, "variable-insert-does-not-resolve:"+detail, fmt.Sprintf("%s: choosing candidate %s (insert %q over [%d,%d)) gives the buffer %q, which does not compile: %v %v %s%s",
						desc, shown, ins, f, t, nb, perr, cerr, pan, pan2), replay)
				}
				continue
			}
		} else {
			want = append(want, tag)
		}
		if !swallowed {
			want = append(want, wr.after...)
		}
		r := w.evalCached(nb)
		got := c43ReprAll(r.outs)
		if r.pan != "" {
			c43Report(order, "panic:"+vk.PanicSite(r.pan), fmt.Sprintf("%s: evaluating %q panicked: %s", desc, nb, r.pan), replay)
		} else if r.err != nil {
			c43Report(order, "variable-insert-does-not-resolve:"+detail, fmt.Sprintf("%s: choosing candidate %s (insert %q over [%d,%d)) gives the buffer %q, which fails: %v; expected the value of $%s",
				desc, shown, ins, f, t, nb, r.err, c43Q(ns+name)), replay)
		} else if !c43EqStrs(got, want) {
			c43Report(order, "variable-insert-resolves-to-other-value:"+detail, fmt.Sprintf("%s: choosing candidate %s (insert %q over [%d,%d)) gives the buffer %q, which evaluates to %q; expected %q (the value of $%s)",
				desc, shown, ins, f, t, nb, got, want, c43Q(ns+name)), replay)
		}
	}
	var ks []string
	for k := range insKinds {
		ks = append(ks, k)
	}
	sort.Strings(ks)
	l.Case(fmt.Sprintf("%s/n%s/%s", class, c43Bucket(len(res.Items)), strings.Join(ks, "")))
}

// set / tmp / del arguments are variable names written as words
func c43RunLvalueCase(l *vk.Local, w *c43Worker, order int64, head string, word c43NameWord, pdot int) {
	buf := head + " " + word.text
	dot := len(head) + 1 + pdot
	replay := map[string]any{"buffer": buf, "dot": dot}
	desc := fmt.Sprintf("buffer %q dot %d (typed variable name %q in %s style)", buf, dot, word.prefix, word.shape)
	var res *complete.Result
	var err error
	if pan := vk.Try(func() {
		res, err = complete.Complete(complete.CodeBuffer{Content: buf, Dot: dot}, w.ev, complete.Config{})
	}); pan != "" {
		c43Report(order, "panic:"+vk.PanicSite(pan), desc+": Complete panicked: "+pan, replay)
		l.Case("panic")
		return
	}
	class := fmt.Sprintf("L/%s/%s", head, word.shape)
	if err != nil || res == nil {
		w.nj["no_completion_offered"]++
		l.Case(class + "/none")
		return
	}
	f, t := res.Replace.From, res.Replace.To
	if f < 0 || t < f || t > len(buf) {
		c43Report(order, "range-outside-buffer", fmt.Sprintf("%s: replace range [%d,%d) outside the buffer (length %d)", desc, f, t, len(buf)), replay)
		return
	}
	if pdot == 0 && len(word.text) > 0 {
		l.Case(class + "/abut")
		return
	}
	for i, it := range res.Items {
		ins := it.ToInsert
		shown := c43ShownText(*res, i)
		r := w.evalCached("put " + ins)
		vs, allStr := c43Strs(r.outs)
		if r.pan != "" || r.err != nil || !allStr || len(vs) != 1 {
			k := "lvalue"
			if strings.HasPrefix(ins, "~") {
				k = "lvalue-leading-tilde" // a bare word starting with ~ is a home directory, not a name
			}
			c43Report(order, "insert-not-one-string-word:"+k, fmt.Sprintf("%s: candidate %s inserts %q, which as a word evaluates to %q, error %v %s", desc, shown, ins, r.outs, r.err, r.pan), replay)
			continue
		}
		name := strings.TrimPrefix(vs[0], "@")
		r2 := w.evalCached("nop $" + c43Q(name))
		if r2.pan != "" || r2.err != nil {
			c43Report(order, "lvalue-insert-does-not-name-a-variable:"+head, fmt.Sprintf("%s: candidate %s inserts %q, a word with value %q, but $%s does not resolve: %v %s", desc, shown, ins, vs[0], c43Q(name), r2.err, r2.pan), replay)
		}
	}
	l.Case(fmt.Sprintf("%s/%s/n%s", class, res.Name, c43Bucket(len(res.Items))))
}

type c43CWrap struct {
	pre, post, closer string
}

var c43CWraps = []c43CWrap{
	{"", "", ""},
	{"nop | ", " z", ""},
	{"put (", ")", ")"},
	{"{ ", " }", " }"},
	{"nop; ", "", ""},
	{"nop\n", "\n", ""},
}

func c43RunCmdCase(l *vk.Local, w *c43Worker, order int64, wi int, word c43NameWord, pdot int, fns, exts map[string]string) {
	wr := c43CWraps[wi]
	buf := wr.pre + word.text + wr.post
	dot := len(wr.pre) + pdot
	replay := map[string]any{"buffer": buf, "dot": dot}
	desc := fmt.Sprintf("buffer %q dot %d (typed command name %q in %s style)", buf, dot, word.prefix, word.shape)
	var res *complete.Result
	var err error
	if pan := vk.Try(func() {
		res, err = complete.Complete(complete.CodeBuffer{Content: buf, Dot: dot}, w.ev, complete.Config{})
	}); pan != "" {
		c43Report(order, "panic:"+vk.PanicSite(pan), desc+": Complete panicked: "+pan, replay)
		l.Case("panic")
		return
	}
	dotKind := "in"
	if pdot == 0 {
		dotKind = "start"
	} else if pdot == len(word.text) {
		dotKind = "end"
	}
	class := fmt.Sprintf("C/w%d/%s/%s", wi, word.shape, dotKind)
	if err != nil || res == nil {
		w.nj["no_completion_offered"]++
		l.Case(class + "/none")
		return
	}
	if res.Name != "command" {
		w.nj["not_judged_command_buffer_completed_in_other_context"]++
		l.Case(class + "/" + res.Name)
		return
	}
	f, t := res.Replace.From, res.Replace.To
	if f < 0 || t < f || t > len(buf) || (f < len(buf) && !utf8.RuneStart(buf[f])) || (t < len(buf) && !utf8.RuneStart(buf[t])) {
		c43Report(order, "range-outside-buffer", fmt.Sprintf("%s: replace range [%d,%d) is not a range of the buffer (length %d) on character boundaries", desc, f, t, len(buf)), replay)
		l.Case(class + "/badrange")
		return
	}
	abut := pdot == 0 && len(word.text) > 0
	swallowed := word.swallow && t == len(buf)
	insKinds := map[string]bool{}
	nmine := 0
	for i, it := range res.Items {
		ins := it.ToInsert
		shown := c43ShownText(*res, i)
		insKinds[c43InsKind(ins)] = true
		r := w.evalCached("put " + ins)
		vs, allStr := c43Strs(r.outs)
		if r.pan != "" {
			c43Report(order, "panic:"+vk.PanicSite(r.pan), fmt.Sprintf("%s: evaluating inserted text %q panicked: %s", desc, ins, r.pan), replay)
			continue
		}
		if r.err != nil || !allStr || len(vs) != 1 {
			c43Report(order, "insert-not-one-string-word:command", fmt.Sprintf("%s: candidate %q inserts %q, which as a word evaluates to %d values %q, error %v; expected the single string %q",
				desc, shown, ins, len(r.outs), vs, r.err, shown), replay)
			continue
		}
		v := vs[0]
		if v != shown {
			c43Report(order, "insert-value-differs-from-candidate:command", fmt.Sprintf("%s: candidate %q inserts %q, which evaluates to %q", desc, shown, ins, v), replay)
			continue
		}
		if abut || strings.Contains(v, "/") {
			continue // a path: file name completion in command position is part F
		}
		if !word.quoted && !c43KnownBare(word.text) {
			continue // a raw word with metacharacters is not one word: only the inserted text itself is judged
		}
		nb := buf[:f] + ins + buf[t:]
		if swallowed {
			nb += wr.closer
		}
		if f == t && f != dot {
			if _, ok := fns[v]; ok {
				rr := w.evalCached(nb)
				got, sok := c43Strs(rr.outs)
				if rr.pan != "" || rr.err != nil || !sok || !c43EqStrs(got, []string{fns[v]}) {
					c43Report(order, "completed-buffer-value-differs:inserted-away-from-cursor", fmt.Sprintf("%s: choosing candidate %q (insert %q over [%d,%d)) gives the buffer %q, which evaluates to %q, error %v %s; expected the function to run and output %q",
						desc, shown, ins, f, t, nb, rr.outs, rr.err, rr.pan, fns[v]), replay)
				}
			}
			continue
		}
		if tag, ok := fns[v]; ok {
			nmine++
			rr := w.evalCached(nb)
			got, sok := c43Strs(rr.outs)
			if rr.pan != "" || rr.err != nil || !sok || !c43EqStrs(got, []string{tag}) {
				c43Report(order, "command-insert-does-not-run-candidate:function", fmt.Sprintf("%s: choosing candidate %q (insert %q over [%d,%d)) gives the buffer %q, which evaluates to %q, error %v %s; expected the function to run and output %q",
					desc, shown, ins, f, t, nb, rr.outs, rr.err, rr.pan, tag), replay)
			}
		} else if tag, ok := exts[v]; ok {
			nmine++
			var rr c43EvalRes
			if x, hit := c43ExtRuns.Load(nb); hit {
				rr = x.(c43EvalRes)
			} else {
				vs, bs, e, pan := w.evalBytes(nb)
				if len(vs) == 1 && bs == "" {
					// inside an output capture the bytes written become a value
					if sv, ok := vs[0].(string); ok {
						bs = sv + "\n"
					}
				}
				rr = c43EvalRes{[]any{bs}, e, pan}
				c43ExtRuns.Store(nb, rr)
			}
			if rr.pan != "" || rr.err != nil || rr.outs[0].(string) != tag+"\n" {
				c43Report(order, "command-insert-does-not-run-candidate:external", fmt.Sprintf("%s: choosing candidate %q (insert %q over [%d,%d)) gives the buffer %q, which writes %q, error %v %s; expected the external command to run and write %q",
					desc, shown, ins, f, t, nb, rr.outs[0], rr.err, rr.pan, tag+"\n"), replay)
			}
		} else if eval.IsBuiltinSpecial[v] || w.ev.Builtin().HasKeyString(v+eval.FnSuffix) || strings.HasSuffix(v, ":") {
			// builtin commands are not run (side effects); the value is the name of an existing command
		} else {
			c43Report(order, "command-candidate-unknown", fmt.Sprintf("%s: candidate %q (insert %q) is neither a special form, a builtin, a function, a namespace nor an external command of the fixture", desc, shown, ins), replay)
		}
	}
	var ks []string
	for k := range insKinds {
		ks = append(ks, k)
	}
	sort.Strings(ks)
	l.Case(fmt.Sprintf("%s/n%s/mine%s/%s", class, c43Bucket(len(res.Items)), c43Bucket(nmine), strings.Join(ks, "")))
}

func c43NameDots(text string) []int {
	var out []int
	for p := 0; p <= len(text); p++ {
		if p == len(text) || utf8.RuneStart(text[p]) {
			out = append(out, p)
		}
	}
	return out
}

// ---------------------------------------------------------------------------
// Part H: interpreter states reached by REPL histories (definitions and
// deletions in separate Eval calls on one Evaler).

type c43HCmd struct {
	code string
	// effect on the model of live names (language.md: var declares / shadows,
	// del removes an existing variable and is an error otherwise)
	def, val string
	del      string
}

var c43HCmds = []c43HCmd{
	{code: "var zz-a = v:a1", def: "zz-a", val: "v:a1"},
	{code: "var zz-b = v:b", def: "zz-b", val: "v:b"},
	{code: "fn zz-f { put f:zz-f }", def: "zz-f~", val: "f:zz-f"},
	{code: "del zz-a", del: "zz-a"},
	{code: "del zz-f~", del: "zz-f~"},
	{code: "var zz-a = v:a2", def: "zz-a", val: "v:a2"},
}

type c43HBuf struct {
	kind string // variable, command, set, tmp, del
	pre  string
	seed string
}

var c43HBufs = []c43HBuf{
	{"variable", "put $", ""}, {"variable", "put $", "zz-"}, {"variable", "put $", "zz-a"}, {"variable", "put $", "zz-f"}, {"variable", "put x $", "zz-"},
	{"command", "", ""}, {"command", "", "zz-"}, {"command", "nop | ", "zz-f"}, {"command", "put (", "zz-"},
	{"set", "set ", ""}, {"set", "set ", "zz-"}, {"tmp", "tmp ", "zz-a"}, {"del", "del ", ""}, {"del", "del ", "zz-"}, {"del", "del ", "zz-f"},
}

func c43HCodes() []string {
	var out []string
	for _, h := range c43HCmds {
		out = append(out, h.code)
	}
	return out
}

func c43RunHistory(c *vk.Ctx, l *vk.Local, order int64, idx []int) {
	ch := make(chan any, 1024)
	w := &c43Worker{ev: eval.NewEvaler(), ch: ch, cache: map[string]c43EvalRes{}, nj: map[string]int64{}}
	w.ports = []*eval.Port{eval.DummyInputPort, {File: eval.DevNull, Chan: ch}, eval.DummyOutputPort}
	live := map[string]string{}
	ever := map[string]bool{}
	var hist []string
	shape := ""
	for _, i := range idx {
		hc := c43HCmds[i]
		hist = append(hist, hc.code)
		_, err, pan := w.eval(hc.code)
		if pan != "" {
			c43Report(order, "panic:"+vk.PanicSite(pan), fmt.Sprintf("history %q: %s", hist, pan), hist)
			return
		}
		if hc.def != "" {
			live[hc.def] = hc.val
			ever[hc.def] = true
			shape += "D"
			if err != nil {
				c43Report(order, "history:definition-fails", fmt.Sprintf("history %q: the last command failed: %v", hist, err), hist)
				return
			}
		} else {
			_, was := live[hc.del]
			delete(live, hc.del)
			if was {
				shape += "x"
			} else {
				shape += "e"
			}
			if was != (err == nil) {
				c43Report(order, "history:del-outcome", fmt.Sprintf("history %q: the last command returned %v, but the variable %s", hist, err, map[bool]string{true: "existed", false: "did not exist"}[was]), hist)
				return
			}
		}
	}
	for bi, hb := range c43HBufs {
		buf := hb.pre + hb.seed
		if hb.pre == "put (" {
			buf += ")"
		}
		dot := len(hb.pre) + len(hb.seed)
		replay := map[string]any{"history": hist, "buffer": buf, "dot": dot}
		desc := fmt.Sprintf("after the commands %q (each evaluated on its own, as the REPL does): buffer %q dot %d", hist, buf, dot)
		var res *complete.Result
		var err error
		if pan := vk.Try(func() {
			res, err = complete.Complete(complete.CodeBuffer{Content: buf, Dot: dot}, w.ev, complete.Config{})
		}); pan != "" {
			c43Report(order, "panic:"+vk.PanicSite(pan), desc+": Complete panicked: "+pan, replay)
			continue
		}
		class := fmt.Sprintf("H/%s/%d/%s", shape, bi, hb.kind)
		if err != nil || res == nil {
			c43Report(order, "history:no-completion:"+hb.kind, fmt.Sprintf("%s: Complete returned %v", desc, err), replay)
			l.Case(class + "/none")
			continue
		}
		f, t := res.Replace.From, res.Replace.To
		if f < 0 || t < f || t > len(buf) {
			c43Report(order, "range-outside-buffer", fmt.Sprintf("%s: replace range [%d,%d)", desc, f, t), replay)
			continue
		}
		// the live names this position must offer
		want := map[string]bool{}
		for n := range live {
			switch hb.kind {
			case "command":
				if strings.HasSuffix(n, "~") && strings.HasPrefix(strings.TrimSuffix(n, "~"), hb.seed) {
					want[strings.TrimSuffix(n, "~")] = true
				}
			default:
				if strings.HasPrefix(n, hb.seed) {
					want[n] = true
				}
			}
		}
		got := map[string]int{}
		for i, it := range res.Items {
			shown := c43ShownText(*res, i)
			if !strings.HasPrefix(shown, "zz-") {
				continue // builtins etc. are covered by parts V and C
			}
			got[shown]++
			ins := it.ToInsert
			nb := buf[:f] + ins + buf[t:]
			if !want[shown] {
				k := "unknown-name-offered"
				if ever[shown] || ever[shown+"~"] {
					k = "deleted-name-offered"
				}
				extra := ""
				switch hb.kind {
				case "variable", "command":
					r := w.evalCached(nb)
					extra = fmt.Sprintf("; the completed buffer %q gives %q, error %v", nb, c43ReprAll(r.outs), r.err)
				}
				c43Report(order, "history:"+k+":"+hb.kind, fmt.Sprintf("%s: offers %q (insert %q), which is not a live name%s", desc, shown, ins, extra), replay)
				continue
			}
			switch hb.kind {
			case "variable":
				r := w.evalCached(nb)
				outs, _ := c43Strs(r.outs)
				ok := r.pan == "" && r.err == nil
				if ok && !strings.HasSuffix(shown, "~") {
					wantOut := []string{live[shown]}
					if strings.HasPrefix(hb.pre, "put x") {
						wantOut = []string{"x", live[shown]}
					}
					ok = c43EqStrs(outs, wantOut)
				}
				if !ok {
					c43Report(order, "history:insert-does-not-give-live-value:variable", fmt.Sprintf("%s: choosing %q gives %q, which evaluates to %q, error %v %s; expected the current value %q",
						desc, shown, nb, c43ReprAll(r.outs), r.err, r.pan, live[shown]), replay)
				}
			case "command":
				r := w.evalCached(nb)
				outs, _ := c43Strs(r.outs)
				if r.pan != "" || r.err != nil || !c43EqStrs(outs, []string{live[shown+"~"]}) {
					c43Report(order, "history:insert-does-not-run-live-function", fmt.Sprintf("%s: choosing %q gives %q, which evaluates to %q, error %v %s; expected %q",
						desc, shown, nb, c43ReprAll(r.outs), r.err, r.pan, live[shown+"~"]), replay)
				}
			default:
				r := w.evalCached("put " + ins)
				vs, _ := c43Strs(r.outs)
				if r.pan != "" || r.err != nil || len(vs) != 1 || vs[0] != shown {
					c43Report(order, "history:insert-value-differs:lvalue", fmt.Sprintf("%s: candidate %q inserts %q, which evaluates to %q, error %v", desc, shown, ins, c43ReprAll(r.outs), r.err), replay)
				}
			}
		}
		for n := range want {
			if got[n] == 0 {
				c43Report(order, "history:live-name-not-offered:"+hb.kind, fmt.Sprintf("%s: the live name %q starts with the seed %q but is not offered", desc, n, hb.seed), replay)
			} else if got[n] > 1 {
				c43Report(order, "history:duplicate-candidate:"+hb.kind, fmt.Sprintf("%s: %q is offered %d times", desc, n, got[n]), replay)
			}
		}
		l.Case(fmt.Sprintf("%s/n%d", class, len(got)))
	}
}

const c43FileSetup = "var c43v = ''"

func c43Subsets(n, k int) [][]int {
	var out [][]int
	var rec func(start int, cur []int)
	rec = func(start int, cur []int) {
		if len(cur) == k {
			out = append(out, append([]int{}, cur...))
			return
		}
		for i := start; i < n; i++ {
			rec(i+1, append(cur, i))
		}
	}
	rec(0, nil)
	return out
}

func TestVerifC43(t *testing.T) {
	vk.Run(t, "C43", "exploration", func(c *vk.Ctx) {
		maxSub := vk.Pick(c, 2, 3)
		c.Rule(fmt.Sprintf("part F: every directory whose entries are a subset of <=%d of the 12 core names %s, the full core set, and one big directory with %d further hostile names (control characters, invalid UTF-8, every metacharacter, hidden and hostile-named directories, symlinks), each built for real and made cwd and $HOME in turn; for every directory x directory prefix (none ./ ../D/ absolute ~/ sub/ ~/sub/) x every rune prefix of every entry name (plus two non-matching ones) x every typing style (bare, '.. open/closed, \".. open/closed, directory part outside the quotes, quoted directory + bare rest) x every cursor position in the word (long directory prefixes: only start, next to the base name, middle) x %d code contexts (argument, redirection, command head; nested in captures, lists, braces, lambdas, pipelines, var/set); part V: every rune prefix of every qualified variable name of a fixture (16 global, 2 namespaces + nested + hostile-named namespace, 5 $E: and 16 $e: names) x bare/'../\".. open/closed x every cursor position x 6 contexts, and the same words as arguments of set/tmp/del; part C: every rune prefix of every function (18 + namespace), external (16 in $PATH, also with e:) and a few builtin command names x raw/'../\".. x every cursor position x 6 head contexts. class = (part, context, directory prefix kind / namespace kind, typing style, cursor at start/inside/end, completion kind offered, number of candidates bucket, quoting kinds among the inserted texts)",
			maxSub, c43EntNames(c43Core[:12]), len(c43Ext), len(c43Wraps), vk.Pick(c, 3, 4), c43HCodes()))
		c.Assume("the value of a word is observed by evaluating `put <word>` (and the completed buffer as a whole) with the real Evaler; the candidate is identified by the text shown in the menu (CompletionItem.ToShow)",
			"expected file candidates follow pkg/edit/completion.d.elv (edit:complete-filename): entries of the directory part, hidden ones iff the base name starts with a dot, filtered by prefix, directories with trailing / and no space, other files with a space as code suffix; in command position non-executable files and symlinks are optional",
			"not judged (counted in the evidence): positions where no completion is offered; the candidate set when the typed bareword contains characters whose bareword status depends on the context, when the cursor is in an earlier part of a compound word or at the start of a following word; trailing slash of symlinks to directories; quote style when a single-quoted word is completed with an unprintable name or a bare one with a name needing quotes; which variables are offered; builtin commands are not run",
			"file system = tmpfs under $VERIF_SCRATCH; environment cleared for parts V/C ($PATH = fixture directory)")
		scratch := os.Getenv("VERIF_SCRATCH")
		if scratch == "" {
			t.Fatal("VERIF_SCRATCH not set")
		}
		root := scratch + "/c43"
		os.RemoveAll(root)
		defer os.RemoveAll(root)
		oldwd, _ := os.Getwd()
		defer os.Chdir(oldwd)
		oldHome, oldPath := os.Getenv("HOME"), os.Getenv("PATH")
		defer func() { os.Setenv("HOME", oldHome); os.Setenv("PATH", oldPath) }()
		os.Setenv("LS_COLORS", "")
		empty := root + "/emptybin"
		os.MkdirAll(empty, 0o755)
		os.Setenv("PATH", empty)

		// directories
		var dirs []c43DirSpec
		allWraps := make([]int, len(c43Wraps))
		for i := range allWraps {
			allWraps[i] = i
		}
		baseWraps := []int{0, 1, 2, 3}
		for k := 0; k <= maxSub; k++ {
			for _, sub := range c43Subsets(len(c43Core), k) {
				var ents []c43Ent
				for _, i := range sub {
					ents = append(ents, c43Core[i])
				}
				wr := allWraps
				if k >= 2 && k == maxSub {
					wr = baseWraps // the largest subsets: the four basic contexts only
				}
				dirs = append(dirs, c43DirSpec{ents: ents, wraps: wr})
			}
		}
		dirs = append(dirs, c43DirSpec{ents: c43Core, wraps: allWraps})
		bigWraps := allWraps
		if !c.Thorough() {
			bigWraps = baseWraps
		}
		dirs = append(dirs, c43DirSpec{ents: append(append([]c43Ent{}, c43Core...), c43Ext...), wraps: bigWraps, big: true})
		for i := range dirs {
			dirs[i].idx = i
			dirs[i].name = fmt.Sprintf("D%03d", i)
			if err := c43Build(root+"/"+dirs[i].name, dirs[i].ents); err != nil {
				t.Fatalf("building %s: %v", dirs[i].name, err)
			}
		}
		var total int64
		parts := os.Getenv("VERIF_C43_PARTS") // debugging aid: restrict to some of the parts F, V, C, H
		if parts == "" {
			parts = "FVCH"
		} else {
			c.Capped("VERIF_C43_PARTS=" + parts)
		}
		for _, d := range dirs {
			if !strings.Contains(parts, "F") {
				break
			}
			if c.TimeUp() {
				c.Capped("time budget reached before all directories were explored")
				break
			}
			here := root + "/" + d.name
			if err := os.Chdir(here); err != nil {
				t.Fatal(err)
			}
			os.Setenv("HOME", here)
			groups := c43DirGroups(root, d)
			base := int64(d.idx) << 40
			var cnt atomic.Int64
			c.Parallel(len(groups), func(l *vk.Local, i int) {
				w := c43GetWorker(c, l, c43FileSetup)
				n := c43GroupCases(groups[i], d.wraps, func(k int, cs c43Case) {
					l.Begin(cs.buf)
					c43RunFileCase(c, l, w, base+int64(i)<<16+int64(k), cs)
					l.End()
				})
				cnt.Add(int64(n))
			})
			c43FlushWorkers(c)
			total += cnt.Load()
			if d.idx == 20 || d.idx == len(dirs)-1 {
				for i := 0; i < len(groups); i += len(groups)/4 + 1 {
					c43GroupCases(groups[i], d.wraps[:1], func(k int, cs c43Case) {
						if k == 1 {
							c.Sample(map[string]any{"dir": c43EntNames(d.ents), "buffer": cs.buf, "dot": cs.dot})
						}
					})
				}
			}
		}
		os.Chdir(oldwd)
		c.Set("file_cases", total)
		c.Set("directories", len(dirs))

		// ---- parts V and C: one fixture, hostile externals in $PATH, controlled environment
		saved := os.Environ()
		defer func() {
			os.Clearenv()
			for _, kv := range saved {
				if i := strings.IndexByte(kv[1:], '='); i >= 0 {
					os.Setenv(kv[:i+1], kv[i+2:])
				}
			}
		}()
		bin := root + "/bin"
		os.MkdirAll(bin, 0o755)
		exts := map[string]string{}
		for _, n := range c43ExtNames {
			if err := os.WriteFile(bin+"/"+n, []byte("#!/bin/sh\necho \"x:${0##*/}\"\n"), 0o755); err != nil {
				t.Fatal(err)
			}
			exts[n] = "x:" + n
			exts["e:"+n] = "x:" + n
		}
		os.Clearenv()
		os.Setenv("PATH", bin)
		os.Setenv("HOME", root)
		for _, n := range c43EnvNames {
			os.Setenv(n, "v:E:"+n)
		}
		os.Chdir(root + "/D000")
		setup := c43VCSetup()
		tags := c43VarTags()
		fns := map[string]string{}
		for _, n := range c43FnNames {
			fns[n] = "f:" + n
		}
		for _, n := range c43NsFns {
			fns["m:"+n] = "f:m:" + n
		}
		var qnames []string
		for q := range tags {
			qnames = append(qnames, q)
		}
		sort.Strings(qnames)
		var vwords []c43NameWord
		for _, p := range c43RunePrefixes(qnames) {
			vwords = append(vwords, c43NameWords(p)...)
		}
		var vcnt, lcnt, ccnt atomic.Int64
		if !strings.Contains(parts, "V") {
			vwords = nil
		}
		c.Parallel(len(vwords), func(l *vk.Local, i int) {
			w := c43GetWorker(c, l, setup)
			k := int64(0)
			for wi := range c43VWraps {
				if c43VWraps[wi].sigil && vwords[i].quoted {
					continue // $@'...' is not a syntax of the language
				}
				for _, pd := range c43NameDots(vwords[i].text) {
					l.Begin(vwords[i].text)
					c43RunVarCase(l, w, 1<<60+int64(i)<<16+k, wi, vwords[i], pd, tags)
					l.End()
					k++
				}
			}
			vcnt.Add(k)
			for _, head := range []string{"set", "tmp", "del"} {
				for _, pd := range c43NameDots(vwords[i].text) {
					c43RunLvalueCase(l, w, 1<<60+1<<59+int64(i)<<16+k, head, vwords[i], pd)
					k++
					lcnt.Add(1)
				}
			}
		})
		var cnames []string
		for q := range fns {
			cnames = append(cnames, q)
		}
		for q := range exts {
			cnames = append(cnames, q)
		}
		cnames = append(cnames, "put", "if", "nop", "m:sub:")
		sort.Strings(cnames)
		var cwords []c43NameWord
		for _, p := range c43RunePrefixes(cnames) {
			if c43Typable(p, false) {
				cwords = append(cwords, c43NameWord{p, false, false, p, "raw"})
			}
			for _, nw := range c43NameWords(p) {
				if nw.quoted {
					cwords = append(cwords, nw)
				}
			}
		}
		if !strings.Contains(parts, "C") {
			cwords = nil
		}
		c.Parallel(len(cwords), func(l *vk.Local, i int) {
			w := c43GetWorker(c, l, setup)
			k := int64(0)
			for wi := range c43CWraps {
				for _, pd := range c43NameDots(cwords[i].text) {
					l.Begin(cwords[i].text)
					c43RunCmdCase(l, w, 1<<61+int64(i)<<16+k, wi, cwords[i], pd, fns, exts)
					l.End()
					k++
				}
			}
			ccnt.Add(k)
		})
		c43FlushWorkers(c)
		// ---- part H: histories
		if strings.Contains(parts, "H") {
			hlen := vk.Pick(c, 3, 4)
			var hseqs [][]int
			var rec func(cur []int)
			rec = func(cur []int) {
				hseqs = append(hseqs, append([]int{}, cur...))
				if len(cur) < hlen {
					for i := range c43HCmds {
						rec(append(cur, i))
					}
				}
			}
			rec(nil)
			sort.SliceStable(hseqs, func(i, j int) bool { return len(hseqs[i]) < len(hseqs[j]) })
			c.Parallel(len(hseqs), func(l *vk.Local, i int) {
				c43RunHistory(c, l, 1<<61+1<<60+int64(i), hseqs[i])
			})
			c.Set("histories", len(hseqs))
			c.Set("history_cases", len(hseqs)*len(c43HBufs))
		}
		os.Chdir(oldwd)
		c.Set("variable_cases", vcnt.Load())
		c.Set("lvalue_cases", lcnt.Load())
		c.Set("command_cases", ccnt.Load())

		// report, smallest case first
		var vs []c43Viol
		for _, v := range c43Viols {
			vs = append(vs, v)
		}
		sort.Slice(vs, func(i, j int) bool { return vs[i].order < vs[j].order })
		for _, v := range vs {
			c.Violate(v.key, v.msg, v.replay)
		}
	})
}
