//go:build verif

// Package c09 checks property C09 (eq is an equivalence; compare is a
// consistent order; compare &total is a total preorder grouping by type) on
// every ordered pair and every ordered triple of a pool of elvish values.
//
// The real code is exercised on pairs: vals.Equal, vals.Cmp and vals.CmpTotal
// are called directly, and the builtins compare, compare &total, eq, not-eq,
// ==, !=, <, <=, >, >= are run through eval.Evaler on the same pairs. The
// results form relation matrices; the laws over triples (transitivity) are
// then checked on every triple of the matrices.
//
// The expected results come from an oracle written from the documentation
// (builtin_fn_pred.d.elv: eq, compare; builtin_fn_num.d.elv: < <= ==;
// language.md: Number). It works on descriptors of the pool values, not on
// the values: numbers are compared by their mathematical value with math/big
// rationals, never through float64 conversion.
package c09

import (
	"fmt"
	"math"
	"math/big"
	"sort"
	"strconv"
	"strings"
	"sync"
	"testing"

	"src.elv.sh/pkg/eval"
	"src.elv.sh/pkg/eval/vals"
	"src.elv.sh/pkg/eval/vars"
	"src.elv.sh/pkg/parse"
	"src.elv.sh/pkg/zzverif/vk"
)

// ---------------------------------------------------------------------------
// Descriptors of pool values.

type c09Kind int

const (
	c09Nil c09Kind = iota
	c09Bool
	c09Str
	c09Number
	c09List
	c09Map
	c09Fn        // closure
	c09BuiltinFn // builtin function (also kind-of fn; a different internal type)
	c09Exc
	c09NKinds
)

var c09KindNames = []string{"nil", "bool", "string", "number", "list", "map", "closure", "builtin-fn", "exception"}

// c09Num describes a number: exact (integer or rational, value r) or inexact
// (IEEE 754 double f; r is its exact value when f is finite).
type c09Num struct {
	exact bool
	r     *big.Rat
	f     float64
}

func (n *c09Num) nan() bool { return !n.exact && math.IsNaN(n.f) }
func (n *c09Num) inf() int {
	if n.exact {
		return 0
	}
	if math.IsInf(n.f, 1) {
		return 1
	}
	if math.IsInf(n.f, -1) {
		return -1
	}
	return 0
}

type c09Val struct {
	src      string // elvish expression constructing the value (also its name)
	kind     c09Kind
	b        bool
	s        string
	n        *c09Num // number; or numeric interpretation of a string (nil: not a number)
	elems    []int   // list elements, as pool indices
	keys     []int   // map keys, as pool indices
	vals     []int   // map values, as pool indices
	fieldMap bool    // a pseudo-map (Go struct)
	ident    int     // identity of closures / builtins / exceptions
	shared   bool    // value has (or contains) identity: both instances are the same object
	hasNaN   bool
	sub      string // sub-kind for class keys
	x, y     any    // two separately constructed instances of the real value
}

// c09FM is a pseudo-map (field map) with the single key "a".
type c09FM struct{ A string }

// Pseudo-maps with keys a / b / a,b / b,c holding arbitrary values.
type c09FMA struct{ A any }
type c09FMB struct{ B any }
type c09FMAB struct{ A, B any }
type c09FMBC struct{ B, C any }

type c09Pool struct {
	vs     []*c09Val
	byName map[string]int
}

func (p *c09Pool) add(v *c09Val) int {
	if i, ok := p.byName[v.src]; ok {
		return i
	}
	if p.byName == nil {
		p.byName = map[string]int{}
	}
	p.byName[v.src] = len(p.vs)
	p.vs = append(p.vs, v)
	return len(p.vs) - 1
}

func c09Quote(s string) string {
	var sb strings.Builder
	sb.WriteByte('"')
	for i := 0; i < len(s); i++ {
		c := s[i]
		if c == '"' || c == '\\' || c < 0x20 || c >= 0x7f {
			fmt.Fprintf(&sb, "\\x%02x", c)
		} else {
			sb.WriteByte(c)
		}
	}
	sb.WriteByte('"')
	return sb.String()
}

func (p *c09Pool) str(s string, n *c09Num) int {
	return p.add(&c09Val{src: c09Quote(s), kind: c09Str, s: s, n: n, sub: "str"})
}

func (p *c09Pool) exact(r *big.Rat) int {
	sub := "rat"
	if r.IsInt() {
		sub = "bigint"
		if r.Num().IsInt64() {
			sub = "int"
		}
	}
	return p.add(&c09Val{src: "(num " + r.RatString() + ")", kind: c09Number, n: &c09Num{exact: true, r: r}, sub: sub})
}

func c09FloatText(f float64) string {
	switch {
	case math.IsNaN(f):
		return "NaN"
	case math.IsInf(f, 1):
		return "+Inf"
	case math.IsInf(f, -1):
		return "-Inf"
	}
	s := strconv.FormatFloat(f, 'g', -1, 64)
	if !strings.ContainsAny(s, ".e") {
		s += ".0"
	}
	return s
}

func c09FloatNum(f float64) *c09Num {
	n := &c09Num{f: f}
	if !math.IsNaN(f) && !math.IsInf(f, 0) {
		n.r = new(big.Rat)
		n.r.SetFloat64(f) // exact
	}
	return n
}

func (p *c09Pool) float(f float64) int {
	n := c09FloatNum(f)
	sub := "float"
	if n.nan() {
		sub = "nan"
	} else if n.inf() != 0 {
		sub = "inf"
	}
	return p.add(&c09Val{src: "(num " + c09FloatText(f) + ")", kind: c09Number, n: n, hasNaN: n.nan(), sub: sub})
}

func (p *c09Pool) list(elems ...int) int {
	v := &c09Val{kind: c09List, elems: elems, sub: "list"}
	parts := make([]string, len(elems))
	for i, e := range elems {
		parts[i] = p.vs[e].src
		v.shared = v.shared || p.vs[e].shared
		v.hasNaN = v.hasNaN || p.vs[e].hasNaN
	}
	v.src = "[" + strings.Join(parts, " ") + "]"
	return p.add(v)
}

// mp builds a map from key, value, key, value, ...
func (p *c09Pool) mp(kv ...int) int {
	v := &c09Val{kind: c09Map, sub: "map"}
	if len(kv) == 0 {
		v.src = "[&]"
		return p.add(v)
	}
	var parts []string
	for i := 0; i < len(kv); i += 2 {
		v.keys = append(v.keys, kv[i])
		v.vals = append(v.vals, kv[i+1])
		parts = append(parts, "&"+p.vs[kv[i]].src+"="+p.vs[kv[i+1]].src)
		v.shared = v.shared || p.vs[kv[i]].shared || p.vs[kv[i+1]].shared
		v.hasNaN = v.hasNaN || p.vs[kv[i]].hasNaN || p.vs[kv[i+1]].hasNaN
	}
	v.src = "[" + strings.Join(parts, " ") + "]"
	return p.add(v)
}

func c09Int(s string) *big.Rat {
	z, ok := new(big.Rat).SetString(s)
	if !ok {
		panic("c09: bad rational " + s)
	}
	return z
}

func c09Pow2(k int) *big.Int { return new(big.Int).Lsh(big.NewInt(1), uint(k)) }

func c09RatOf(z *big.Int, add int64) *big.Rat {
	return new(big.Rat).SetInt(new(big.Int).Add(z, big.NewInt(add)))
}

// c09Build builds the pool. The leaves follow DESIGN.md: booleans, strings,
// numbers in all four representations at and around 2^53 and 2^63, +-0.0,
// +-Inf, NaN, $nil, closures; then lists and maps over the leaves.
func c09Build(thorough bool) (*c09Pool, map[string]int) {
	p := &c09Pool{}
	named := map[string]int{}
	named["nil"] = p.add(&c09Val{src: "$nil", kind: c09Nil, sub: "nil"})
	tr := p.add(&c09Val{src: "$true", kind: c09Bool, b: true, sub: "bool"})
	fa := p.add(&c09Val{src: "$false", kind: c09Bool, b: false, sub: "bool"})

	one := &c09Num{exact: true, r: big.NewRat(1, 1)}
	sEmpty := p.str("", nil)
	sa := p.str("a", nil)
	sb := p.str("b", nil)
	p.str("ab", nil)
	sA := p.str("A", nil)
	p.str("\xff", nil)
	p.str("\xc3\xa9", nil)
	var leaves []int
	for i := range p.vs {
		leaves = append(leaves, i)
	}

	// exact numbers
	var nums, nearP []int
	ex := func(r *big.Rat) int { i := p.exact(r); nums = append(nums, i); return i }
	e0 := ex(big.NewRat(0, 1))
	e1 := ex(big.NewRat(1, 1))
	ex(big.NewRat(-1, 1))
	e2 := ex(big.NewRat(2, 1))
	ex(big.NewRat(9, 1))
	ex(big.NewRat(10, 1))
	p53 := c09Pow2(53)
	ex(c09RatOf(p53, -1))
	eP := ex(c09RatOf(p53, 0))
	eP1 := ex(c09RatOf(p53, 1))
	eP2 := ex(c09RatOf(p53, 2))
	ex(new(big.Rat).Neg(c09RatOf(p53, 0)))
	ex(new(big.Rat).Neg(c09RatOf(p53, 1)))
	p63 := c09Pow2(63)
	ex(c09RatOf(p63, -1)) // largest int
	e63 := ex(c09RatOf(p63, 0))
	ex(c09RatOf(p63, 1))
	ex(new(big.Rat).Neg(c09RatOf(p63, 0))) // smallest int
	ex(new(big.Rat).Neg(c09RatOf(p63, 1)))
	ex(c09RatOf(c09Pow2(64), 0))
	ex(c09RatOf(c09Pow2(1024), 0)) // just above the largest float64
	ex(c09Int("1" + strings.Repeat("0", 400)))
	eHalf := ex(big.NewRat(1, 2))
	ex(big.NewRat(-1, 2))
	ex(big.NewRat(1, 3))
	ex(big.NewRat(1, 10))
	ex(big.NewRat(3, 2))
	ePHalf := ex(new(big.Rat).SetFrac(new(big.Int).Add(c09Pow2(54), big.NewInt(1)), big.NewInt(2))) // 2^53 + 1/2
	ex(new(big.Rat).SetFloat64(0.1))                                                                // the exact value of the double 0.1
	ex(c09Int("1/1" + strings.Repeat("0", 400)))                                                    // below the smallest positive float64

	// inexact numbers
	fl := func(f float64) int { i := p.float(f); nums = append(nums, i); return i }
	f0 := fl(0)
	fm0 := fl(math.Copysign(0, -1))
	f1 := fl(1)
	fl(-1)
	fl(2)
	fHalf := fl(0.5)
	fl(-0.5)
	fl(0.1)
	fl(1.0 / 3.0)
	fl(1.5)
	fP := fl(math.Ldexp(1, 53))
	fP2 := fl(math.Ldexp(1, 53) + 2)
	fl(-math.Ldexp(1, 53))
	f63 := fl(math.Ldexp(1, 63))
	fl(-math.Ldexp(1, 63))
	fl(math.Ldexp(1, 64))
	fl(math.MaxFloat64)
	fl(math.SmallestNonzeroFloat64)
	fInf := fl(math.Inf(1))
	fl(math.Inf(-1))
	fNaN := fl(math.NaN())
	leaves = append(leaves, nums...)
	// strings that can be converted to numbers (compared as strings by compare,
	// as numbers by the numeric commands)
	leaves = append(leaves,
		p.str("1", one),
		p.str("9", &c09Num{exact: true, r: big.NewRat(9, 1)}),
		p.str("10", &c09Num{exact: true, r: big.NewRat(10, 1)}),
		p.str("1.0", c09FloatNum(1)),
		p.str("9007199254740993", &c09Num{exact: true, r: c09RatOf(c09Pow2(53), 1)}))
	nearP = []int{eP, eP1, eP2, ePHalf, fP, fP2, e63, f63, e1, f1, eHalf, fHalf, e0, f0, fm0, fNaN, fInf}

	// identity values
	fn1 := p.add(&c09Val{src: "$c09f1", kind: c09Fn, ident: 1, shared: true, sub: "closure"})
	fn2 := p.add(&c09Val{src: "$c09f2", kind: c09Fn, ident: 2, shared: true, sub: "closure"})
	bfn := p.add(&c09Val{src: "$nop~", kind: c09BuiltinFn, ident: 3, shared: true, sub: "builtin-fn"})
	p.add(&c09Val{src: "$put~", kind: c09BuiltinFn, ident: 4, shared: true, sub: "builtin-fn"})
	ok := p.add(&c09Val{src: "$ok", kind: c09Exc, ident: 5, shared: true, sub: "exception"})
	leaves = append(leaves, fn1, fn2, bfn, ok)

	// maps and pseudo-maps
	m0 := p.mp()
	mab := p.mp(sa, sb)
	p.mp(sa, p.str("c", nil))
	p.mp(sb, sa)
	p.mp(sa, sb, p.str("c", nil), p.str("d", nil))
	p.mp(sa, e1)
	p.mp(sa, f1)
	p.mp(sa, fNaN)
	p.mp(e1, sa)
	p.mp(sa, m0)
	p.mp(sa, fn1)
	p.mp(sa, f0)
	p.mp(sa, fm0)
	p.mp(sa, eP1)
	p.mp(sa, fP)
	// maps of the same size with different key sets, and $nil as a stored
	// value (a missing key must not be mistaken for a stored $nil)
	vnil := named["nil"]
	s1 := p.byName[c09Quote("1")]
	sc := p.str("c", nil)
	s2 := p.str("2", &c09Num{exact: true, r: big.NewRat(2, 1)})
	nilMaps := []int{
		p.mp(sa, vnil),
		p.mp(sb, vnil),
		p.mp(sa, vnil, sb, s1),
		p.mp(sb, s1, sc, s2),
		p.mp(sa, vnil, sb, vnil),
		p.mp(sa, s1),
		p.mp(sa, s1, sb, s1),
		p.add(&c09Val{src: "$c09fmanil", kind: c09Map, fieldMap: true, keys: []int{sa}, vals: []int{vnil}, sub: "pseudo-map"}),
		p.add(&c09Val{src: "$c09fmbnil", kind: c09Map, fieldMap: true, keys: []int{sb}, vals: []int{vnil}, sub: "pseudo-map"}),
		p.add(&c09Val{src: "$c09fmab", kind: c09Map, fieldMap: true, keys: []int{sa, sb}, vals: []int{vnil, s1}, sub: "pseudo-map"}),
		p.add(&c09Val{src: "$c09fmbc", kind: c09Map, fieldMap: true, keys: []int{sb, sc}, vals: []int{s1, s2}, sub: "pseudo-map"}),
	}
	fmB := p.add(&c09Val{src: "$c09fmb", kind: c09Map, fieldMap: true, keys: []int{sa}, vals: []int{sb}, sub: "pseudo-map"})
	p.add(&c09Val{src: "$c09fmc", kind: c09Map, fieldMap: true, keys: []int{sa}, vals: []int{p.str("c", nil)}, sub: "pseudo-map"})

	// lists
	l0 := p.list()
	la := p.list(sa)
	p.list(sb)
	p.list(sa, sb)
	p.list(sa, sa)
	p.list(sA)
	p.list(sEmpty)
	p.list(l0)
	p.list(l0, l0)
	laa := p.list(la)
	p.list(la, sb)
	p.list(laa)
	p.list(fNaN, sa)
	p.list(fNaN, sb)
	p.list(e1, sa)
	p.list(f1, sb)
	p.list(f1, sa)
	p.list(e1, e1)
	p.list(e1, e2)
	p.list(eP1, sa)
	p.list(fP, sb)
	p.list(eP, sa)
	p.list(sa, e1)
	p.list(sa, tr)
	p.list(tr, fa)
	p.list(m0)
	p.list(mab)
	p.list(fmB)
	p.list(mab, sa)
	p.list(m0, sb)
	p.list(fn1, sa)
	p.list(fn2, sb)
	for _, x := range leaves {
		p.list(x)
	}
	for _, x := range nilMaps {
		p.list(x)
		p.mp(sa, x)
	}
	if thorough {
		// every two-element list over the numbers around the precision limits,
		// singleton lists of those lists, and a map for every leaf
		for _, x := range nearP {
			for _, y := range nearP {
				p.list(x, y)
			}
		}
		for _, x := range nearP {
			p.list(p.list(x))
		}
		for _, x := range leaves {
			p.mp(sa, x)
		}
		for _, x := range nums {
			p.list(sa, x)
		}
	}
	named["f1"], named["f2"] = fn1, fn2
	return p, named
}

// ---------------------------------------------------------------------------
// Construction of the real values and sanity check against the descriptors.

type c09Evaler struct {
	ev   *eval.Evaler
	ch   chan any
	a, b any
}

func c09NewEvaler(extra eval.Nser) *c09Evaler {
	w := &c09Evaler{ev: eval.NewEvaler(), ch: make(chan any, 64)}
	b := eval.BuildNs().AddVar("c09a", vars.FromPtr(&w.a)).AddVar("c09b", vars.FromPtr(&w.b))
	w.ev.ExtendGlobal(b.Ns())
	if extra != nil {
		w.ev.ExtendGlobal(extra)
	}
	return w
}

func (w *c09Evaler) eval(code string) (out []any, err string) {
	port := &eval.Port{File: eval.DevNull, Chan: w.ch}
	var e error
	p := vk.Try(func() {
		e = w.ev.Eval(parse.Source{Name: "[c09]", Code: code}, eval.EvalCfg{Ports: []*eval.Port{eval.DummyInputPort, port, eval.DummyOutputPort}})
	})
	for n := len(w.ch); n > 0; n-- {
		out = append(out, <-w.ch)
	}
	if p != "" {
		return out, p
	}
	if e != nil {
		return out, "exception: " + e.Error()
	}
	return out, ""
}

func (p *c09Pool) construct() {
	w := c09NewEvaler(eval.BuildNs().
		AddVar("c09fmb", vars.NewReadOnly(c09FM{A: "b"})).
		AddVar("c09fmc", vars.NewReadOnly(c09FM{A: "c"})).
		AddVar("c09fmanil", vars.NewReadOnly(c09FMA{})).
		AddVar("c09fmbnil", vars.NewReadOnly(c09FMB{})).
		AddVar("c09fmab", vars.NewReadOnly(c09FMAB{A: nil, B: "1"})).
		AddVar("c09fmbc", vars.NewReadOnly(c09FMBC{B: "1", C: "2"})).Ns())
	if _, err := w.eval("var c09f1 = { }\nvar c09f2 = { }"); err != "" {
		panic("c09 setup: " + err)
	}
	one := func(src string) any {
		out, err := w.eval("put " + src)
		if err != "" || len(out) != 1 {
			panic(fmt.Sprintf("c09: constructing %s: %d values, %s", src, len(out), err))
		}
		return out[0]
	}
	for i, v := range p.vs {
		v.x = one(v.src)
		if v.shared {
			v.y = v.x
		} else {
			v.y = one(v.src)
		}
		for _, r := range []any{v.x, v.y} {
			if why := p.sanity(v, r); why != "" {
				panic(fmt.Sprintf("c09: pool value %d %s is not what its descriptor says: %s (got %T %v)", i, v.src, why, r, r))
			}
		}
	}
}

// sanity checks that the real value has the Go representation the descriptor
// assumes (canonical number representation in particular). A mismatch is a
// harness error, not a violation of C09.
func (p *c09Pool) sanity(v *c09Val, r any) string {
	switch v.kind {
	case c09Nil:
		if r != nil {
			return "not nil"
		}
	case c09Bool:
		if b, ok := r.(bool); !ok || b != v.b {
			return "wrong bool"
		}
	case c09Str:
		if s, ok := r.(string); !ok || s != v.s {
			return "wrong string"
		}
	case c09Number:
		n := v.n
		if !n.exact {
			f, ok := r.(float64)
			if !ok || math.Float64bits(f) != math.Float64bits(n.f) && !(math.IsNaN(f) && math.IsNaN(n.f)) {
				return "wrong float64"
			}
			return ""
		}
		switch r := r.(type) {
		case int:
			if !n.r.IsInt() || !n.r.Num().IsInt64() || n.r.Num().Int64() != int64(r) {
				return "wrong int"
			}
		case *big.Int:
			if !n.r.IsInt() || n.r.Num().IsInt64() || n.r.Num().Cmp(r) != 0 {
				return "wrong or non-canonical big.Int"
			}
		case *big.Rat:
			if n.r.IsInt() || n.r.Cmp(r) != 0 {
				return "wrong or non-canonical big.Rat"
			}
		default:
			return "not an exact number"
		}
	case c09List:
		l, ok := r.(vals.List)
		if !ok || l.Len() != len(v.elems) {
			return "wrong list"
		}
	case c09Map:
		if v.fieldMap {
			if !vals.IsFieldMap(r) {
				return "not a field map"
			}
		} else if m, ok := r.(vals.Map); !ok || m.Len() != len(v.keys) {
			return "wrong map"
		}
		if vals.Kind(r) != "map" {
			return "kind is not map"
		}
	case c09Fn:
		if _, ok := r.(*eval.Closure); !ok {
			return "not a closure"
		}
	case c09BuiltinFn:
		if _, ok := r.(*eval.Closure); ok || vals.Kind(r) != "fn" {
			return "not a builtin fn"
		}
	case c09Exc:
		if vals.Kind(r) != "exception" {
			return "not an exception"
		}
	}
	return ""
}

// ---------------------------------------------------------------------------
// The oracle. Results: eq: 0 false, 1 true, c09NJ not judged. cmp / total:
// -1, 0, 1, c09Unc uncomparable, c09NJ not judged.

const (
	c09Unc int8 = 2
	c09NJ  int8 = 3
	c09Unk int8 = -9
)

type c09Oracle struct {
	p       *c09Pool
	eqM     [][]int8
	cmpM    [][]int8
	totM    [][]int8
	kindOrd [c09NKinds][c09NKinds]int8 // observed order of the types under compare &total
}

func c09Matrix(n int, fill int8) [][]int8 {
	m := make([][]int8, n)
	for i := range m {
		m[i] = make([]int8, n)
		for j := range m[i] {
			m[i][j] = fill
		}
	}
	return m
}

func c09NewOracle(p *c09Pool) *c09Oracle {
	n := len(p.vs)
	return &c09Oracle{p: p, eqM: c09Matrix(n, c09Unk), cmpM: c09Matrix(n, c09Unk), totM: c09Matrix(n, c09Unk)}
}

func c09Sign(x int) int8 {
	switch {
	case x < 0:
		return -1
	case x > 0:
		return 1
	}
	return 0
}

// c09NumCmp is the order of numbers by mathematical value, NaN equal to NaN
// and below every other number.
func c09NumCmp(a, b *c09Num) int8 {
	switch {
	case a.nan() && b.nan():
		return 0
	case a.nan():
		return -1
	case b.nan():
		return 1
	}
	ia, ib := a.inf(), b.inf()
	if ia != 0 || ib != 0 {
		return c09Sign(ia - ib)
	}
	return c09Sign(a.r.Cmp(b.r))
}

func c09StrCmp(a, b string) int8 {
	for i := 0; i < len(a) && i < len(b); i++ {
		if a[i] != b[i] {
			return c09Sign(int(a[i]) - int(b[i]))
		}
	}
	return c09Sign(len(a) - len(b))
}

func c09And3(acc, x int8) int8 {
	if acc == 0 || x == 0 {
		return 0
	}
	if acc == c09NJ || x == c09NJ {
		return c09NJ
	}
	return 1
}

// eq: "Two values are equal when they have the same type and value. For
// complex data structures like lists and maps, comparison is done
// recursively." Not judged: an exact and an inexact number with the same
// mathematical value, 0.0 and -0.0, a pseudo-map and a map with equal content.
func (o *c09Oracle) eq(i, j int) int8 {
	if r := o.eqM[i][j]; r != c09Unk {
		return r
	}
	r := o.eq1(o.p.vs[i], o.p.vs[j])
	o.eqM[i][j] = r
	return r
}

func c09B(b bool) int8 {
	if b {
		return 1
	}
	return 0
}

func (o *c09Oracle) eq1(a, b *c09Val) int8 {
	if a.kind != b.kind {
		return 0
	}
	switch a.kind {
	case c09Nil:
		return 1
	case c09Bool:
		return c09B(a.b == b.b)
	case c09Str:
		return c09B(a.s == b.s)
	case c09Number:
		x, y := a.n, b.n
		if x.nan() || y.nan() {
			return 0
		}
		if c09NumCmp(x, y) != 0 {
			return 0
		}
		if x.exact != y.exact {
			return c09NJ
		}
		if !x.exact && math.Signbit(x.f) != math.Signbit(y.f) {
			return c09NJ // 0.0 and -0.0
		}
		return 1
	case c09List:
		if len(a.elems) != len(b.elems) {
			return 0
		}
		acc := int8(1)
		for k := range a.elems {
			acc = c09And3(acc, o.eq(a.elems[k], b.elems[k]))
		}
		return acc
	case c09Map:
		if len(a.keys) != len(b.keys) {
			return 0
		}
		acc := int8(1)
		for k, key := range a.keys {
			found := false
			for k2, key2 := range b.keys {
				if o.eq(key, key2) == 1 {
					acc = c09And3(acc, o.eq(a.vals[k], b.vals[k2]))
					found = true
					break
				}
			}
			if !found {
				return 0
			}
		}
		if acc == 1 && a.fieldMap != b.fieldMap {
			return c09NJ
		}
		return acc
	default:
		return c09B(a.ident == b.ident)
	}
}

// cmp follows the algorithm documented for compare.
func (o *c09Oracle) cmp(i, j int) int8 {
	if r := o.cmpM[i][j]; r != c09Unk {
		return r
	}
	r := o.cmp1(o.p.vs[i], o.p.vs[j], i, j)
	o.cmpM[i][j] = r
	return r
}

func (o *c09Oracle) cmp1(a, b *c09Val, i, j int) int8 {
	if a.kind == b.kind {
		switch a.kind {
		case c09Bool:
			return c09Sign(int(c09B(a.b)) - int(c09B(b.b)))
		case c09Number:
			return c09NumCmp(a.n, b.n)
		case c09Str:
			return c09StrCmp(a.s, b.s)
		case c09List:
			for k := 0; k < len(a.elems) && k < len(b.elems); k++ {
				if c := o.cmp(a.elems[k], b.elems[k]); c != 0 {
					return c
				}
			}
			return c09Sign(len(a.elems) - len(b.elems))
		}
	}
	switch o.eq(i, j) {
	case 1:
		return 0
	case c09NJ:
		return c09NJ
	}
	return c09Unc
}

// total: compare &total. The order of the types is unspecified; the observed
// one (learnRanks) is used, after checking that it is a strict total order.
func (o *c09Oracle) total(i, j int) int8 {
	if r := o.totM[i][j]; r != c09Unk {
		return r
	}
	a, b := o.p.vs[i], o.p.vs[j]
	var r int8
	switch {
	case c09FnPair(a.kind, b.kind):
		r = c09NJ // is a builtin function of the same type as a closure? not documented
	case a.kind != b.kind:
		r = o.kindOrd[a.kind][b.kind]
	case a.kind == c09Bool, a.kind == c09Number, a.kind == c09Str:
		r = o.cmp(i, j)
	case a.kind == c09List:
		r = c09Sign(len(a.elems) - len(b.elems))
		for k := 0; k < len(a.elems) && k < len(b.elems); k++ {
			if c := o.total(a.elems[k], b.elems[k]); c != 0 {
				r = c
				break
			}
		}
	default:
		r = 0
	}
	o.totM[i][j] = r
	return r
}

// ---------------------------------------------------------------------------
// Observation of the real code.

func c09Ord(o vals.Ordering) int8 {
	switch o {
	case vals.CmpLess:
		return -1
	case vals.CmpEqual:
		return 0
	case vals.CmpMore:
		return 1
	case vals.CmpUncomparable:
		return c09Unc
	}
	return 99
}

func c09OrdName(o int8) string {
	switch o {
	case -1:
		return "less(-1)"
	case 0:
		return "equal(0)"
	case 1:
		return "more(1)"
	case c09Unc:
		return "uncomparable"
	case c09NJ:
		return "not-judged"
	case c09Err:
		return "exception"
	}
	return fmt.Sprintf("?%d", o)
}

const c09Err int8 = 50

var c09Builtins = []string{"compare", "compare &total", "eq", "not-eq", "==", "!=", "<", "<=", ">", ">="}

func c09ProbeCode() string {
	var sb strings.Builder
	sb.WriteString("fn c09probe {|a b|\n")
	for _, b := range c09Builtins {
		fmt.Fprintf(&sb, " try { put [(%s $a $b)] } catch e { put err }\n", b)
	}
	sb.WriteString("}\n")
	return sb.String()
}

// probe runs all builtins on (a, b); result per builtin: c09Err, or the output
// (-1/0/1 for compare, 0/1 for predicates).
func (w *c09Evaler) probe(a, b any) ([]int8, string) {
	w.a, w.b = a, b
	out, err := w.eval("c09probe $c09a $c09b")
	if err != "" {
		return nil, err
	}
	if len(out) != len(c09Builtins) {
		return nil, fmt.Sprintf("%d outputs", len(out))
	}
	res := make([]int8, len(out))
	for k, v := range out {
		switch v := v.(type) {
		case string:
			if v != "err" {
				return nil, "unexpected output " + v
			}
			res[k] = c09Err
		case vals.List:
			if v.Len() != 1 {
				return nil, fmt.Sprintf("%s output %d values", c09Builtins[k], v.Len())
			}
			e, _ := v.Index(0)
			switch e := e.(type) {
			case bool:
				res[k] = c09B(e)
			case int:
				if e < -1 || e > 1 {
					return nil, fmt.Sprintf("%s output %d", c09Builtins[k], e)
				}
				res[k] = int8(e)
			default:
				return nil, fmt.Sprintf("%s output a %T", c09Builtins[k], e)
			}
		default:
			return nil, fmt.Sprintf("unexpected output %T", v)
		}
	}
	return res, ""
}

type c09Obs struct {
	eq, cmp, tot [][]int8
}

// ---------------------------------------------------------------------------

type c09H struct {
	c *vk.Ctx
	p *c09Pool
	o *c09Oracle
	m c09Obs

	mu      sync.Mutex
	pending map[string]*c09Viol
}

// c09Viol is a violation found by a parallel phase. Only the one with the
// smallest case number per key is kept and reported when the phase ends, so
// that the reported counterexample does not depend on scheduling.
type c09Viol struct {
	order  int64
	key    string
	msg    func() string
	replay []string
}

// order ranks a counterexample: shortest total source text first, then by
// position in the enumeration.
func (h *c09H) order(idx ...int) int64 {
	var size, pos int64
	for _, i := range idx {
		size += int64(len(h.p.vs[i].src))
		pos = pos*int64(len(h.p.vs)) + int64(i)
	}
	return size<<40 | pos
}

func (h *c09H) violate(order int64, key string, replay []string, msg func() string) {
	h.mu.Lock()
	if h.pending == nil {
		h.pending = map[string]*c09Viol{}
	}
	if v := h.pending[key]; v == nil || order < v.order {
		h.pending[key] = &c09Viol{order, key, msg, replay}
	}
	h.mu.Unlock()
}

func (h *c09H) flush() {
	var vs []*c09Viol
	for _, v := range h.pending {
		vs = append(vs, v)
	}
	sort.Slice(vs, func(a, b int) bool {
		if vs[a].order != vs[b].order {
			return vs[a].order < vs[b].order
		}
		return vs[a].key < vs[b].key
	})
	for _, v := range vs {
		h.c.Violate(v.key, v.msg(), v.replay)
	}
	h.pending = nil
}

// name is the source text of a pool value, abbreviated when very long.
func (h *c09H) name(i int) string {
	s := h.p.vs[i].src
	if len(s) > 70 {
		s = fmt.Sprintf("%s...(%d characters)...%s", s[:24], len(s), s[len(s)-12:])
	}
	return s
}

func c09Bool2(o int8) string {
	switch o {
	case 0:
		return "$false"
	case 1:
		return "$true"
	case c09Err:
		return "an exception"
	}
	return fmt.Sprintf("?%d", o)
}

func c09Mixed(a, b *c09Num) bool { return a != nil && b != nil && a.exact != b.exact }

// c09ViaFloat is the hypothesis "the two numbers were compared after
// converting the exact one to float64" (nearest double; an integer outside the
// int64 range becomes an infinity, as documented for inexact-num). It is used
// only to select the violation key of a deviation, never for a verdict.
func c09ViaFloat(a, b *c09Num) int8 {
	conv := func(n *c09Num) float64 {
		if !n.exact {
			return n.f
		}
		if n.r.IsInt() && !n.r.Num().IsInt64() {
			return math.Inf(n.r.Sign())
		}
		f, _ := n.r.Float64()
		return f
	}
	x, y := conv(a), conv(b)
	switch {
	case x < y:
		return -1
	case x > y:
		return 1
	}
	return 0
}

// blame locates the element pair at which an observed list/number comparison
// departs from the oracle and reports whether that pair is an exact and an
// inexact number (neither NaN) whose observed order is the one obtained by
// converting the exact number to float64 (the one root cause the harness can
// recognise). It only selects the violation key, never the verdict.
func (h *c09H) blame(i, j int, obs [][]int8, orc func(i, j int) int8) bool {
	a, b := h.p.vs[i], h.p.vs[j]
	if a.kind == c09Number && b.kind == c09Number {
		return c09Mixed(a.n, b.n) && !a.n.nan() && !b.n.nan() && obs[i][j] != orc(i, j) && obs[i][j] == c09ViaFloat(a.n, b.n)
	}
	if a.kind == c09List && b.kind == c09List {
		for k := 0; k < len(a.elems) && k < len(b.elems); k++ {
			x, y := a.elems[k], b.elems[k]
			if e := orc(x, y); e != c09NJ && obs[x][y] != e {
				return h.blame(x, y, obs, orc)
			}
			if obs[x][y] != 0 {
				break
			}
		}
	}
	return false
}

// suffix returns ":mixed-exact-inexact" when every pair of the case whose
// observed order departs from the oracle does so at an exact/inexact number pair.
func (h *c09H) suffix(obs [][]int8, orc func(i, j int) int8, pairs ...[2]int) string {
	dev, mixed := 0, 0
	for _, pr := range pairs {
		if e := orc(pr[0], pr[1]); e != c09NJ && obs[pr[0]][pr[1]] != e {
			dev++
			if h.blame(pr[0], pr[1], obs, orc) {
				mixed++
			}
		}
	}
	if dev > 0 && dev == mixed {
		return ":mixed-exact-inexact"
	}
	return ""
}

// c09FnPair: a closure and a builtin function. Both are of kind fn; whether
// they have the same type for compare &total is not documented.
func c09FnPair(a, b c09Kind) bool {
	return a == c09Fn && b == c09BuiltinFn || a == c09BuiltinFn && b == c09Fn
}

// learnRanks observes the (unspecified) order of the types on one
// representative per type and checks that it is a strict total order.
func (h *c09H) learnRanks() {
	// representative of every kind: the first pool value of that kind
	rep := make([]int, c09NKinds)
	for k := range rep {
		rep[k] = -1
	}
	for i, v := range h.p.vs {
		if rep[v.kind] < 0 {
			rep[v.kind] = i
		}
	}
	ko := &h.o.kindOrd
	for k := c09Kind(0); k < c09NKinds; k++ {
		for k2 := c09Kind(0); k2 < c09NKinds; k2++ {
			if k != k2 {
				ko[k][k2] = c09Ord(vals.CmpTotal(h.p.vs[rep[k]].x, h.p.vs[rep[k2]].x))
			}
		}
	}
	bad := ""
	for k := c09Kind(0); k < c09NKinds && bad == ""; k++ {
		for k2 := c09Kind(0); k2 < c09NKinds && bad == ""; k2++ {
			if k == k2 {
				continue
			}
			x := ko[k][k2]
			if x != -1 && x != 1 && !(x == 0 && c09FnPair(k, k2)) {
				bad = fmt.Sprintf("%s vs %s is %s", c09KindNames[k], c09KindNames[k2], c09OrdName(x))
			} else if ko[k2][k] != -x {
				bad = fmt.Sprintf("%s vs %s is %s but %s vs %s is %s", c09KindNames[k], c09KindNames[k2], c09OrdName(x), c09KindNames[k2], c09KindNames[k], c09OrdName(ko[k2][k]))
			}
			for k3 := c09Kind(0); k3 < c09NKinds && bad == ""; k3++ {
				if k3 != k && k3 != k2 && x == -1 && ko[k2][k3] == -1 && ko[k][k3] != -1 {
					bad = fmt.Sprintf("%s < %s < %s but %s vs %s is %s", c09KindNames[k], c09KindNames[k2], c09KindNames[k3], c09KindNames[k], c09KindNames[k3], c09OrdName(ko[k][k3]))
				}
			}
		}
	}
	if bad != "" {
		h.c.Violate("total-type-order", "compare &total does not order the types strictly and totally (on the first pool value of each type): "+bad, nil)
	}
	order := make([]c09Kind, c09NKinds)
	for k := range order {
		order[k] = c09Kind(k)
	}
	sort.SliceStable(order, func(x, y int) bool { return ko[order[x]][order[y]] == -1 })
	names := make([]string, len(order))
	for i, k := range order {
		names[i] = c09KindNames[k]
	}
	h.c.Set("observed_type_order", strings.Join(names, " < "))
}

func (h *c09H) pairPhase() {
	n := len(h.p.vs)
	h.m = c09Obs{eq: c09Matrix(n, c09Unk), cmp: c09Matrix(n, c09Unk), tot: c09Matrix(n, c09Unk)}
	// precompute the oracle single-threaded (memoised recursion)
	for i := 0; i < n; i++ {
		for j := 0; j < n; j++ {
			h.o.eq(i, j)
			h.o.cmp(i, j)
			h.o.total(i, j)
		}
	}
	c := h.c
	// 1. the relations computed by the real vals.Equal, vals.Cmp, vals.CmpTotal
	c.Parallel(n, func(l *vk.Local, i int) {
		for j := 0; j < n; j++ {
			h.observe(i, j)
		}
	})
	h.flush()
	// 2. the documented value of every pair, and the builtins on every pair
	var mu sync.Mutex
	workers := make(map[*vk.Local]*c09Evaler)
	getW := func(l *vk.Local) *c09Evaler {
		mu.Lock()
		defer mu.Unlock()
		w := workers[l]
		if w == nil {
			w = c09NewEvaler(nil)
			if _, err := w.eval(c09ProbeCode()); err != "" {
				panic("c09 probe setup: " + err)
			}
			workers[l] = w
		}
		return w
	}
	var njEq, njCmp, njTot, cmpEqNotEq int64
	c.Parallel(n, func(l *vk.Local, i int) {
		w := getW(l)
		var nj [4]int64
		for j := 0; j < n; j++ {
			h.pair(l, w, i, j, &nj)
		}
		mu.Lock()
		njEq += nj[0]
		njCmp += nj[1]
		njTot += nj[2]
		cmpEqNotEq += nj[3]
		mu.Unlock()
	})
	h.flush()
	c.Set("pairs", int64(n)*int64(n))
	c.Set("not_judged_eq_pairs", njEq)
	c.Set("not_judged_compare_pairs", njCmp)
	c.Set("not_judged_compare_total_pairs", njTot)
	c.Set("pairs_compare_0_but_not_eq", cmpEqNotEq)
}

// observe fills the observed relation matrices for the pair (i, j), using the
// first instance of a and the second instance of b, and checks that the first
// instance of b gives the same results.
func (h *c09H) observe(i, j int) {
	a, b := h.p.vs[i], h.p.vs[j]
	order := h.order(i, j)
	replay := []string{a.src, b.src}
	var eq, eq2 bool
	var cm, cm2, to, to2 vals.Ordering
	if p := vk.Try(func() {
		eq, eq2 = vals.Equal(a.x, b.y), vals.Equal(a.x, b.x)
		cm, cm2 = vals.Cmp(a.x, b.y), vals.Cmp(a.x, b.x)
		to, to2 = vals.CmpTotal(a.x, b.y), vals.CmpTotal(a.x, b.x)
	}); p != "" {
		h.violate(order, "panic:"+vk.PanicSite(p), replay, func() string {
			return fmt.Sprintf("a = %s, b = %s: Equal/Cmp/CmpTotal panicked: %s", h.name(i), h.name(j), p)
		})
		h.m.eq[i][j], h.m.cmp[i][j], h.m.tot[i][j] = 0, c09Unc, c09Unc
		return
	}
	h.m.eq[i][j], h.m.cmp[i][j], h.m.tot[i][j] = c09B(eq), c09Ord(cm), c09Ord(to)
	if eq != eq2 || cm != cm2 || to != to2 {
		h.violate(order, "instance-dependent", replay, func() string {
			return fmt.Sprintf("a = %s, b = %s: results differ between two separately constructed instances of b: Equal %v/%v Cmp %v/%v CmpTotal %v/%v", h.name(i), h.name(j), eq, eq2, cm, cm2, to, to2)
		})
	}
}

func (h *c09H) pair(l *vk.Local, w *c09Evaler, i, j int, nj *[4]int64) {
	a, b := h.p.vs[i], h.p.vs[j]
	order := h.order(i, j)
	replay := []string{a.src, b.src}
	viol := func(key, format string, args ...any) {
		h.violate(order, key, replay, func() string {
			return fmt.Sprintf("a = %s, b = %s: ", h.name(i), h.name(j)) + fmt.Sprintf(format, args...)
		})
	}
	oe, oc, ot := h.m.eq[i][j], h.m.cmp[i][j], h.m.tot[i][j]
	// pointwise oracle
	if e := h.o.eq(i, j); e == c09NJ {
		nj[0]++
	} else if e != oe {
		viol("eq-value", "vals.Equal(a, b) = %v, documented: %v", oe == 1, e == 1)
	}
	if e := h.o.cmp(i, j); e == c09NJ {
		nj[1]++
	} else if e != oc {
		viol("cmp-value"+h.suffix(h.m.cmp, h.o.cmp, [2]int{i, j}), "vals.Cmp(a, b) = %s, documented order: %s", c09OrdName(oc), c09OrdName(e))
	}
	if ot == c09Unc {
		viol("total-uncomparable", "vals.CmpTotal(a, b) is uncomparable")
	} else if e := h.o.total(i, j); e == c09NJ {
		nj[2]++
	} else if e != ot {
		key := "total-value"
		if a.kind != b.kind {
			key = "total-groups-by-type"
		}
		viol(key+h.suffix(h.m.tot, h.o.total, [2]int{i, j}), "vals.CmpTotal(a, b) = %s, documented (with the observed order of types): %s", c09OrdName(ot), c09OrdName(e))
	}
	if oc == 0 && oe != 1 {
		nj[3]++
	}

	// the builtins on the same pair
	res, err := w.probe(a.x, b.y)
	if err != "" {
		viol("builtin-probe:"+vk.PanicSite(err), "running the builtins failed: %s", err)
		l.Case("probe-failed")
		return
	}
	show := func(k int, o int8) string {
		if k < 2 {
			return c09OrdName(o)
		}
		return c09Bool2(o)
	}
	agree := func(k int, want int8, what string) {
		if res[k] != want {
			viol("builtin-agree:"+c09Builtins[k], "`%s $a $b` gives %s but %s gives %s", c09Builtins[k], show(k, res[k]), what, show(k, want))
		}
	}
	wantCmp := oc
	if oc == c09Unc {
		wantCmp = c09Err
	}
	agree(0, wantCmp, "vals.Cmp")
	agree(1, ot, "vals.CmpTotal")
	agree(2, oe, "vals.Equal")
	agree(3, 1-oe, "the negation of vals.Equal")
	// numeric comparison commands: "numerically" increasing / equal; strings
	// that can be converted to numbers are accepted
	numClass := "nonnum"
	if a.n != nil && b.n != nil {
		numClass = "num"
		ord := c09NumCmp(a.n, b.n)
		nan := a.n.nan() || b.n.nan()
		want := map[string]bool{"==": ord == 0, "!=": ord != 0, "<": ord < 0, "<=": ord <= 0, ">": ord > 0, ">=": ord >= 0}
		if nan {
			numClass = "num-nan"
			want = map[string]bool{"!=": true}
		}
		for k := 4; k < len(c09Builtins); k++ {
			name := c09Builtins[k]
			if res[k] != c09B(want[name]) {
				// the six commands share one implementation of mixed comparison
				key := "builtin-value:" + name
				via := c09ViaFloat(a.n, b.n)
				viaWant := map[string]bool{"==": via == 0, "!=": via != 0, "<": via < 0, "<=": via <= 0, ">": via > 0, ">=": via >= 0}
				if c09Mixed(a.n, b.n) && !nan && res[k] == c09B(viaWant[name]) {
					key = "builtin-value:numeric-comparison:mixed-exact-inexact"
				}
				viol(key, "`%s $a $b` gives %s, documented (numerical comparison of the mathematical values): %s", name, c09Bool2(res[k]), c09Bool2(c09B(want[name])))
			}
		}
		// compare is documented as consistent with < and <= for typed numbers (NaN excepted)
		if a.kind == c09Number && b.kind == c09Number && !nan && res[0] != c09Err && res[6] != c09Err && res[7] != c09Err {
			if (res[6] == 1) != (res[0] == -1) || (res[7] == 1) != (res[0] <= 0) {
				viol("compare-inconsistent-with-lt-le", "compare gives %s but < gives %s and <= gives %s", c09OrdName(res[0]), c09Bool2(res[6]), c09Bool2(res[7]))
			}
		}
	} else {
		for k := 4; k < len(c09Builtins); k++ {
			if res[k] != c09Err {
				viol("builtin-no-error:"+c09Builtins[k], "`%s $a $b` outputs %s although an argument is not a number", c09Builtins[k], c09Bool2(res[k]))
			}
		}
	}
	l.Case(fmt.Sprintf("pair %s/%s eq=%d cmp=%s total=%s %s", a.sub, b.sub, oe, c09OrdName(oc), c09OrdName(ot), numClass))
}

// lawPhase checks the laws that relate entries of the matrices: reflexivity,
// symmetry, antisymmetry, 0 for eq values, agreement of total with compare.
func (h *c09H) lawPhase() {
	c := h.c
	n := len(h.p.vs)
	m := h.m
	flip := func(o int8) int8 {
		if o == -1 || o == 1 {
			return -o
		}
		return o
	}
	for i := 0; i < n; i++ {
		a := h.p.vs[i]
		self := []string{a.src, a.src}
		var same bool
		vk.Try(func() { same = vals.Equal(a.x, a.x) })
		if want := !a.hasNaN; (m.eq[i][i] == 1) != want || same != want {
			c.Violate("eq-reflexive", fmt.Sprintf("a = %s: eq a a is %v for the identical value and %v for an equal copy, documented: %v", h.name(i), same, m.eq[i][i] == 1, want), self)
		}
		c.Case("reflexive " + a.sub + fmt.Sprint(a.hasNaN))
		for j := 0; j < n; j++ {
			b := h.p.vs[j]
			tag := fmt.Sprintf("a = %s, b = %s", h.name(i), h.name(j))
			replay := []string{a.src, b.src}
			if m.eq[i][j] != m.eq[j][i] {
				c.Violate("eq-symmetric", fmt.Sprintf("%s: eq a b = %v but eq b a = %v", tag, m.eq[i][j] == 1, m.eq[j][i] == 1), replay)
			}
			if m.eq[i][j] == 1 && (m.cmp[i][j] != 0 || m.tot[i][j] != 0) {
				c.Violate("cmp-zero-for-eq", fmt.Sprintf("%s: eq a b is true but compare gives %s and compare &total gives %s", tag, c09OrdName(m.cmp[i][j]), c09OrdName(m.tot[i][j])), replay)
			}
			if m.cmp[j][i] != flip(m.cmp[i][j]) {
				c.Violate("cmp-antisymmetric", fmt.Sprintf("%s: compare a b = %s but compare b a = %s", tag, c09OrdName(m.cmp[i][j]), c09OrdName(m.cmp[j][i])), replay)
			}
			if m.tot[j][i] != flip(m.tot[i][j]) {
				c.Violate("total-antisymmetric", fmt.Sprintf("%s: compare &total a b = %s but compare &total b a = %s", tag, c09OrdName(m.tot[i][j]), c09OrdName(m.tot[j][i])), replay)
			}
			if m.cmp[i][j] != c09Unc && m.tot[i][j] != m.cmp[i][j] {
				c.Violate("total-agrees-with-cmp", fmt.Sprintf("%s: compare gives %s but compare &total gives %s", tag, c09OrdName(m.cmp[i][j]), c09OrdName(m.tot[i][j])), replay)
			}
			if a.kind != b.kind && !c09FnPair(a.kind, b.kind) && m.tot[i][j] == 0 {
				c.Violate("total-groups-by-type", fmt.Sprintf("%s: values of different types compare equal under compare &total", tag), replay)
			}
		}
	}
}

// c09Le: a <= b under an order matrix entry.
func c09Le(o int8) bool { return o == -1 || o == 0 }

// triplePhase checks transitivity of eq, compare and compare &total on every
// ordered triple.
func (h *c09H) triplePhase() {
	c := h.c
	n := len(h.p.vs)
	m := h.m
	subs := map[string]int{}
	var subNames []string
	sub := make([]int, n)
	for i, v := range h.p.vs {
		if _, ok := subs[v.sub]; !ok {
			subs[v.sub] = len(subNames)
			subNames = append(subNames, v.sub)
		}
		sub[i] = subs[v.sub]
	}
	ns := len(subNames)
	code := func(o int8) int {
		switch o {
		case -1:
			return 0
		case 0:
			return 1
		case 1:
			return 2
		}
		return 3
	}
	chain := func(law string, obs [][]int8, orc func(i, j int) int8, i, j, k int) {
		ab, bc, ac := obs[i][j], obs[j][k], obs[i][k]
		if !c09Le(ab) || !c09Le(bc) {
			return
		}
		want := int8(0)
		if ab == -1 || bc == -1 {
			want = -1
		}
		if ac != want {
			h.violate(h.order(i, j, k), law+h.suffix(obs, orc, [2]int{i, j}, [2]int{j, k}, [2]int{i, k}),
				[]string{h.p.vs[i].src, h.p.vs[j].src, h.p.vs[k].src}, func() string {
					return fmt.Sprintf("a = %s, b = %s, c = %s: a vs b is %s, b vs c is %s, but a vs c is %s (transitivity requires %s)",
						h.name(i), h.name(j), h.name(k), c09OrdName(ab), c09OrdName(bc), c09OrdName(ac), c09OrdName(want))
				})
		}
	}
	c.Parallel(n, func(l *vk.Local, i int) {
		counts := map[int]int64{}
		for j := 0; j < n; j++ {
			eij := m.eq[i][j] == 1
			for k := 0; k < n; k++ {
				if eij && m.eq[j][k] == 1 && m.eq[i][k] != 1 {
					h.violate(h.order(i, j, k), "eq-transitive", []string{h.p.vs[i].src, h.p.vs[j].src, h.p.vs[k].src}, func() string {
						return fmt.Sprintf("a = %s, b = %s, c = %s: eq a b and eq b c but not eq a c", h.name(i), h.name(j), h.name(k))
					})
				}
				chain("cmp-transitive", m.cmp, h.o.cmp, i, j, k)
				chain("total-transitive", m.tot, h.o.total, i, j, k)
				key := ((sub[i]*ns+sub[j])*ns+sub[k])*64 + code(m.cmp[i][j])*16 + code(m.cmp[j][k])*4 + code(m.cmp[i][k])
				counts[key]++
			}
		}
		names := []string{"<", "=", ">", "?"}
		for key, cnt := range counts {
			o := key % 64
			s := key / 64
			l.Evals += cnt
			l.Classes[fmt.Sprintf("triple %s,%s,%s cmp %s%s%s", subNames[s/(ns*ns)], subNames[s/ns%ns], subNames[s%ns], names[o/16], names[o/4%4], names[o%4])] += cnt
		}
	})
	h.flush()
	c.Set("triples", int64(n)*int64(n)*int64(n))
}

func TestVerifC09(t *testing.T) {
	vk.Run(t, "C09", "exploration", func(c *vk.Ctx) {
		p, _ := c09Build(c.Thorough())
		p.construct()
		n := len(p.vs)
		kinds := map[string]int{}
		for _, v := range p.vs {
			kinds[v.sub]++
		}
		c.Rule(fmt.Sprintf("a pool of %d values (%v): $nil, booleans, strings (some numeric), 28 exact and 21 inexact numbers at and around 0, 1, 2^53, 2^63, 2^64, the float64 range limits, +-0.0, +-Inf, NaN, two closures, two builtin functions, $ok, maps and pseudo-maps (including maps of equal size with different key sets and $nil as a stored value), lists and nested lists over them; every ordered pair (real vals.Equal, vals.Cmp, vals.CmpTotal and the builtins compare, compare &total, eq, not-eq, == != < <= > >= through Evaler.Eval, each on two separately constructed instances) and every ordered triple (laws on the observed relations); class = (sub-kinds of the values, observed eq/compare/compare &total results)", n, kinds))
		c.Assume("the pool values are constructed by the real evaluator from source text and checked against their descriptors (Go representation, canonical number form) before use",
			"not judged (documentation silent): eq of an exact and an inexact number with the same value, eq of 0.0 and -0.0, eq of a pseudo-map and a map with the same content, and whether closures and builtin functions count as one type for compare &total",
			"the order of types under compare &total is unspecified: the observed order is used after checking that it is a strict total order",
			"math/big is the trusted base of the number oracle")
		h := &c09H{c: c, p: p, o: c09NewOracle(p)}
		h.learnRanks()
		h.pairPhase()
		h.lawPhase()
		h.triplePhase()
		c.Set("pool_size", n)
		for i := 0; i < n; i += n/8 + 1 {
			c.Sample(p.vs[i].src)
		}
	})
}
