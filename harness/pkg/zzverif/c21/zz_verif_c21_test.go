//go:build verif

// Package c21 holds the harness of property C21: tmp, with and defer restore
// and clean up on every exit path.
//
// Every function body (a tree of statements) up to a size bound over a fixed
// statement alphabet is printed as elvish source, run by a real Evaler, and its
// recorded event log, final variable values and exception are compared with a
// small reference interpreter written from the reference manual (tmp, with,
// for, try, fn) and the builtin documentation (defer, fail, break, continue,
// return).
package c21

import (
	"errors"
	"fmt"
	"sort"
	"strings"
	"testing"

	"src.elv.sh/pkg/eval"
	"src.elv.sh/pkg/eval/vals"
	"src.elv.sh/pkg/parse"
	"src.elv.sh/pkg/zzverif/vk"
)

// ---------------------------------------------------------------------------
// Statement alphabet.

type c21Kind struct {
	name     string
	compound bool
	exit     bool
}

// Order matters for unranking: non-exit leaves, then compounds, then exits.
var c21Kinds = []c21Kind{
	{name: "tmpV"},                   // tmp v = tN
	{name: "tmpA0"},                  // tmp a[0] = tN
	{name: "tmpZ"},                   // tmp z = tN          (z: Go variable whose Set can fail)
	{name: "tmpVZ"},                  // tmp v z = tN uN
	{name: "setV"},                   // set v = cN
	{name: "setZ"},                   // set z = cN
	{name: "deferOK"},                // defer { rec dN }
	{name: "deferFail"},              // defer { rec dN; fail dN }
	{name: "zon"},                    // zfail on   (from now on every Set of z fails)
	{name: "zoff"},                   // zfail off
	{name: "withV", compound: true},  // with v = tN { B }
	{name: "withZ", compound: true},  // with z = tN { B }
	{name: "withVZ", compound: true}, // with [v = tN] [z = uN] { B }
	{name: "withA", compound: true},  // with [a[0] = tN] [a[1] = uN] { B }
	{name: "for", compound: true},    // for i [1 2] { B }
	{name: "try", compound: true},    // try { B } catch e { rec-exc ... }
	{name: "call", compound: true},   // { B }
	{name: "fail", exit: true},
	{name: "break", exit: true},
	{name: "continue", exit: true},
	{name: "return", exit: true},
}

const (
	c21TmpV = iota
	c21TmpA0
	c21TmpZ
	c21TmpVZ
	c21SetV
	c21SetZ
	c21DeferOK
	c21DeferFail
	c21Zon
	c21Zoff
	c21WithV
	c21WithZ
	c21WithVZ
	c21WithA
	c21For
	c21Try
	c21Call
	c21Fail
	c21Break
	c21Continue
	c21Return
)

type c21Node struct {
	kind int
	id   int
	kids []*c21Node
}

// ---------------------------------------------------------------------------
// Counting and unranking of all bodies: sequences of statements with a given
// total number of statement nodes and compound nesting depth <= d, in which an
// unconditional exit (fail, break, continue, return) is only the last statement
// of its sequence (anything after it is dead code).

type c21Space struct {
	maxSize, maxDepth        int
	leaves, compounds, exits []int     // statement kinds in use
	seq                      [][]int64 // seq[s][d]
	nodeAll, nodeNE          [][]int64 // nodes of size s, depth<=d: all / non-exit
}

// c21NewSpace builds the space over the given statement kinds (nil = all).
func c21NewSpace(maxSize, maxDepth int, kinds []int) *c21Space {
	sp := &c21Space{maxSize: maxSize, maxDepth: maxDepth}
	if kinds == nil {
		for k := range c21Kinds {
			kinds = append(kinds, k)
		}
	}
	for _, k := range kinds {
		switch {
		case c21Kinds[k].compound:
			sp.compounds = append(sp.compounds, k)
		case c21Kinds[k].exit:
			sp.exits = append(sp.exits, k)
		default:
			sp.leaves = append(sp.leaves, k)
		}
	}
	c21NLeafNonExit, c21NCompound, c21NExit := len(sp.leaves), len(sp.compounds), len(sp.exits)
	mk := func() [][]int64 {
		m := make([][]int64, maxSize+1)
		for i := range m {
			m[i] = make([]int64, maxDepth+1)
		}
		return m
	}
	sp.seq, sp.nodeAll, sp.nodeNE = mk(), mk(), mk()
	for d := 0; d <= maxDepth; d++ {
		sp.seq[0][d] = 1
	}
	for s := 1; s <= maxSize; s++ {
		for d := 0; d <= maxDepth; d++ {
			var ne int64
			if s == 1 {
				ne = int64(c21NLeafNonExit)
			}
			if d > 0 {
				ne += int64(c21NCompound) * sp.seq[s-1][d-1]
			}
			sp.nodeNE[s][d] = ne
			sp.nodeAll[s][d] = ne
			if s == 1 {
				sp.nodeAll[s][d] += int64(c21NExit)
			}
		}
		for d := 0; d <= maxDepth; d++ {
			n := sp.nodeAll[s][d]
			for k := 1; k < s; k++ {
				n += sp.nodeNE[k][d] * sp.seq[s-k][d]
			}
			sp.seq[s][d] = n
		}
	}
	return sp
}

// total is the number of bodies of size minSize..maxSize.
func (sp *c21Space) total(minSize int) int64 {
	var n int64
	for s := minSize; s <= sp.maxSize; s++ {
		n += sp.seq[s][sp.maxDepth]
	}
	return n
}

func (sp *c21Space) names() []string {
	var l []string
	for _, ks := range [][]int{sp.leaves, sp.compounds, sp.exits} {
		for _, k := range ks {
			l = append(l, c21Kinds[k].name)
		}
	}
	return l
}

// unrank returns the r-th body of size >= minSize (sizes ascending).
func (sp *c21Space) unrank(minSize int, r int64) []*c21Node {
	for s := minSize; s <= sp.maxSize; s++ {
		if r < sp.seq[s][sp.maxDepth] {
			return sp.unrankSeq(s, sp.maxDepth, r)
		}
		r -= sp.seq[s][sp.maxDepth]
	}
	panic("c21: rank out of range")
}

func (sp *c21Space) unrankSeq(s, d int, r int64) []*c21Node {
	if s == 0 {
		return nil
	}
	if r < sp.nodeAll[s][d] {
		return []*c21Node{sp.unrankNode(s, d, r)}
	}
	r -= sp.nodeAll[s][d]
	for k := 1; k < s; k++ {
		rest := sp.seq[s-k][d]
		block := sp.nodeNE[k][d] * rest
		if r < block {
			first := sp.unrankNode(k, d, r/rest)
			return append([]*c21Node{first}, sp.unrankSeq(s-k, d, r%rest)...)
		}
		r -= block
	}
	panic("c21: unrankSeq out of range")
}

// unrankNode: index order is non-exit leaves (size 1 only), compounds, exits.
func (sp *c21Space) unrankNode(s, d int, r int64) *c21Node {
	c21NLeafNonExit, c21NCompound, c21NExit := len(sp.leaves), len(sp.compounds), len(sp.exits)
	if s == 1 {
		if r < int64(c21NLeafNonExit) {
			return &c21Node{kind: sp.leaves[r]}
		}
		r -= int64(c21NLeafNonExit)
	}
	if d > 0 {
		bodies := sp.seq[s-1][d-1]
		if r < int64(c21NCompound)*bodies {
			return &c21Node{kind: sp.compounds[r/bodies], kids: sp.unrankSeq(s-1, d-1, r%bodies)}
		}
		r -= int64(c21NCompound) * bodies
	}
	if s == 1 && r < int64(c21NExit) {
		return &c21Node{kind: sp.exits[r]}
	}
	panic("c21: unrankNode out of range")
}

func c21Number(body []*c21Node, next *int) {
	for _, n := range body {
		n.id = *next
		*next++
		c21Number(n.kids, next)
	}
}

// ---------------------------------------------------------------------------
// Printing as elvish source.

const c21Snap = " $v $a $z"

func c21PrintSeq(sb *strings.Builder, body []*c21Node) {
	for i, n := range body {
		if i > 0 {
			sb.WriteString("; ")
		}
		c21PrintNode(sb, n)
	}
}

func c21PrintNode(sb *strings.Builder, n *c21Node) {
	id := n.id
	block := func() {
		sb.WriteString("{ ")
		c21PrintSeq(sb, n.kids)
		sb.WriteString(" }")
	}
	switch n.kind {
	case c21TmpV:
		fmt.Fprintf(sb, "tmp v = t%d", id)
	case c21TmpA0:
		fmt.Fprintf(sb, "tmp a[0] = t%d", id)
	case c21TmpZ:
		fmt.Fprintf(sb, "tmp z = t%d", id)
	case c21TmpVZ:
		fmt.Fprintf(sb, "tmp v z = t%d u%d", id, id)
	case c21SetV:
		fmt.Fprintf(sb, "set v = c%d", id)
	case c21SetZ:
		fmt.Fprintf(sb, "set z = c%d", id)
	case c21DeferOK:
		fmt.Fprintf(sb, "defer { rec d%d }", id)
	case c21DeferFail:
		fmt.Fprintf(sb, "defer { rec d%d; fail d%d }", id, id)
	case c21Zon:
		sb.WriteString("zfail on")
	case c21Zoff:
		sb.WriteString("zfail off")
	case c21WithV:
		fmt.Fprintf(sb, "with v = t%d ", id)
		block()
	case c21WithZ:
		fmt.Fprintf(sb, "with z = t%d ", id)
		block()
	case c21WithVZ:
		fmt.Fprintf(sb, "with [v = t%d] [z = u%d] ", id, id)
		block()
	case c21WithA:
		fmt.Fprintf(sb, "with [a[0] = t%d] [a[1] = u%d] ", id, id)
		block()
	case c21For:
		fmt.Fprintf(sb, "for i [1 2] { rec i%d"+c21Snap, id)
		if len(n.kids) > 0 {
			sb.WriteString("; ")
			c21PrintSeq(sb, n.kids)
		}
		sb.WriteString(" }")
	case c21Try:
		sb.WriteString("try ")
		block()
		fmt.Fprintf(sb, " catch e { rec-exc c%d $e"+c21Snap+" }", id)
	case c21Call:
		block()
	case c21Fail:
		fmt.Fprintf(sb, "fail x%d", id)
	case c21Break:
		sb.WriteString("break")
	case c21Continue:
		sb.WriteString("continue")
	case c21Return:
		sb.WriteString("return")
	}
	if c21Kinds[n.kind].compound {
		fmt.Fprintf(sb, "; rec s%d"+c21Snap, id)
	}
}

func c21Source(body []*c21Node) string {
	var sb strings.Builder
	sb.WriteString("var v = v0; var a = [a0 a1]; fn f { ")
	c21PrintSeq(&sb, body)
	sb.WriteString(" }; try { f } finally { rec fin" + c21Snap + " }")
	return sb.String()
}

// ---------------------------------------------------------------------------
// Reference interpreter (from the documentation; shares no code with elvish).
//
//   - tmp: "saves the values of all variables before assigning them new values,
//     and will restore them to the saved values when the current function has
//     finished"; every { } block is a lambda, i.e. a function.
//   - with: "performs assignments, runs the lambda, and restores the variables
//     to their original values"; property: on every exit path, in reverse order.
//   - defer: "Schedules a function to be called when execution reaches the end
//     of the current closure ... any exception it throws gets propagated";
//     property: each exactly once, reverse registration order, and an exception
//     from a restore / deferred callback is reported only if the body succeeded.
//   - break/continue/return "raise the special ... exception"; for captures
//     break and continue, fn captures return, try/catch catches any exception.

type c21Exc struct {
	flow     string   // "break", "continue", "return" or "" for an error
	ids      []string // acceptable descriptors of the reported error
	allowNil bool     // documentation does not decide whether it is reported at all
}

type c21Event struct {
	label string
	snap  string
	exc   *c21Exc // for catch events
}

type c21Model struct {
	v     string
	a     [2]string
	z     string
	zfail bool
	log   []c21Event
	// coverage facts
	restoreFailed, deferFailed, cleanupLost, cleanupReported, setFailed bool
	okDeferRan                                                          bool
	nRestores, nDefers                                                  int
}

type c21Cleanup func() *c21Exc

func (m *c21Model) snap() string {
	return m.v + "|[" + m.a[0] + " " + m.a[1] + "]|" + m.z
}

func (m *c21Model) rec(label string) { m.log = append(m.log, c21Event{label: label, snap: m.snap()}) }

func c21Err(id string) *c21Exc { return &c21Exc{ids: []string{id}} }

// assign performs one (temporary) assignment and registers its restore.
func (m *c21Model) assign(lv, val string, reg func(c21Cleanup)) *c21Exc {
	switch lv {
	case "v":
		old := m.v
		m.v = val
		reg(func() *c21Exc { m.nRestores++; m.v = old; return nil })
	case "a0", "a1":
		// Assigning an element assigns the variable a new list; the variable
		// is what is saved and restored.
		old := m.a
		if lv == "a0" {
			m.a[0] = val
		} else {
			m.a[1] = val
		}
		reg(func() *c21Exc { m.nRestores++; m.a = old; return nil })
	case "z":
		if m.zfail {
			m.setFailed = true
			return c21Err("set-z")
		}
		old := m.z
		m.z = val
		reg(func() *c21Exc {
			m.nRestores++
			if m.zfail {
				m.restoreFailed = true
				return c21Err("restore-z")
			}
			m.z = old
			return nil
		})
	}
	return nil
}

// finish runs cleanups in reverse order and combines the outcome.
func (m *c21Model) finish(body *c21Exc, cleanups []c21Cleanup) *c21Exc {
	var fails []string
	for i := len(cleanups) - 1; i >= 0; i-- {
		if e := cleanups[i](); e != nil {
			fails = append(fails, e.ids...)
		}
	}
	if body != nil {
		if len(fails) > 0 {
			m.cleanupLost = true
		}
		return body
	}
	if len(fails) > 0 {
		m.cleanupReported = true
		return &c21Exc{ids: fails}
	}
	return nil
}

// runFn runs a block as a function call.
func (m *c21Model) runFn(body []*c21Node) *c21Exc {
	var cleanups []c21Cleanup
	exc := m.runSeq(body, &cleanups)
	return m.finish(exc, cleanups)
}

func (m *c21Model) runSeq(body []*c21Node, cleanups *[]c21Cleanup) *c21Exc {
	for _, n := range body {
		if e := m.runNode(n, cleanups); e != nil {
			return e
		}
		if c21Kinds[n.kind].compound {
			m.rec(fmt.Sprintf("s%d", n.id))
		}
	}
	return nil
}

func (m *c21Model) runNode(n *c21Node, cleanups *[]c21Cleanup) *c21Exc {
	id := n.id
	reg := func(c c21Cleanup) { *cleanups = append(*cleanups, c) }
	t, u := fmt.Sprintf("t%d", id), fmt.Sprintf("u%d", id)
	with := func(assigns ...string) *c21Exc {
		var restores []c21Cleanup
		var exc *c21Exc
		for i := 0; i < len(assigns) && exc == nil; i += 2 {
			exc = m.assign(assigns[i], assigns[i+1], func(c c21Cleanup) { restores = append(restores, c) })
		}
		if exc == nil {
			exc = m.runFn(n.kids)
		}
		return m.finish(exc, restores)
	}
	switch n.kind {
	case c21TmpV:
		return m.assign("v", t, reg)
	case c21TmpA0:
		return m.assign("a0", t, reg)
	case c21TmpZ:
		return m.assign("z", t, reg)
	case c21TmpVZ:
		if e := m.assign("v", t, reg); e != nil {
			return e
		}
		return m.assign("z", u, reg)
	case c21SetV:
		m.v = fmt.Sprintf("c%d", id)
	case c21SetZ:
		if m.zfail {
			m.setFailed = true
			return c21Err("set-z")
		}
		m.z = fmt.Sprintf("c%d", id)
	case c21DeferOK:
		reg(func() *c21Exc {
			m.nDefers++
			m.okDeferRan = true
			m.log = append(m.log, c21Event{label: fmt.Sprintf("d%d", id)})
			return nil
		})
	case c21DeferFail:
		reg(func() *c21Exc {
			m.nDefers++
			m.deferFailed = true
			m.log = append(m.log, c21Event{label: fmt.Sprintf("d%d", id)})
			return c21Err(fmt.Sprintf("fail:d%d", id))
		})
	case c21Zon:
		m.zfail = true
	case c21Zoff:
		m.zfail = false
	case c21WithV:
		return with("v", t)
	case c21WithZ:
		return with("z", t)
	case c21WithVZ:
		return with("v", t, "z", u)
	case c21WithA:
		return with("a0", t, "a1", u)
	case c21For:
		for it := 0; it < 2; it++ {
			// the snapshot is the first statement of the body function
			var cleanups []c21Cleanup
			m.rec(fmt.Sprintf("i%d", id))
			e := m.finish(m.runSeq(n.kids, &cleanups), cleanups)
			if e == nil || e.flow == "continue" {
				continue
			}
			if e.flow == "break" {
				break
			}
			return e
		}
	case c21Try:
		if e := m.runFn(n.kids); e != nil {
			m.log = append(m.log, c21Event{label: fmt.Sprintf("c%d", id), snap: m.snap(), exc: e})
		}
	case c21Call:
		return m.runFn(n.kids)
	case c21Fail:
		return c21Err(fmt.Sprintf("fail:x%d", id))
	case c21Break:
		return &c21Exc{flow: "break", ids: []string{"break"}}
	case c21Continue:
		return &c21Exc{flow: "continue", ids: []string{"continue"}}
	case c21Return:
		return &c21Exc{flow: "return", ids: []string{"return"}}
	}
	return nil
}

// c21Reference runs the whole program: fn f { body }; f; final snapshot.
func c21Reference(body []*c21Node) (*c21Model, *c21Exc) {
	m := &c21Model{v: "v0", a: [2]string{"a0", "a1"}, z: "z0"}
	var cleanups []c21Cleanup
	exc := m.runSeq(body, &cleanups)
	returned := exc != nil && exc.flow == "return"
	if returned {
		// fn "captures" return. Whether that makes the body "succeeded" for the
		// purpose of reporting a cleanup exception is not documented.
		exc = nil
	}
	exc = m.finish(exc, cleanups)
	if returned && exc != nil {
		exc.allowNil = true
	}
	m.rec("fin")
	return m, exc
}

// ---------------------------------------------------------------------------
// The real thing.

var c21ErrZ = errors.New("c21: z cannot be set now")

type c21Worker struct {
	ev    *eval.Evaler
	ch    chan any
	ports []*eval.Port
	z     any
	zfail bool
	log   []c21Obs
	bad   string
}

type c21Obs struct {
	label, snap, exc string
	isCatch          bool
}

type c21Var struct{ w *c21Worker }

func (v c21Var) Get() any { return v.w.z }
func (v c21Var) Set(x any) error {
	if v.w.zfail {
		return c21ErrZ
	}
	v.w.z = x
	return nil
}

func c21Describe(err error) string {
	if err == nil {
		return ""
	}
	var reason error = err
	if exc, ok := err.(eval.Exception); ok {
		reason = exc.Reason()
	} else {
		return "non-exception:" + err.Error()
	}
	switch r := reason.(type) {
	case nil:
		return "exception-with-nil-reason"
	case eval.FailError:
		return "fail:" + vals.ToString(r.Content)
	case eval.Flow:
		return r.Error()
	}
	if reason == c21ErrZ {
		return "set-z"
	}
	if errors.Is(reason, c21ErrZ) && strings.HasPrefix(reason.Error(), "restore variable:") {
		return "restore-z"
	}
	return "other:" + reason.Error()
}

func c21SnapOf(args []any) string {
	parts := make([]string, len(args))
	for i, a := range args {
		if s, ok := a.(string); ok {
			parts[i] = s
		} else {
			parts[i] = vals.ReprPlain(a)
		}
	}
	return strings.Join(parts, "|")
}

func (w *c21Worker) install() {
	ns := eval.BuildNs().
		AddVar("z", c21Var{w}).
		AddGoFns(map[string]any{
			"rec": func(label string, args ...any) {
				w.log = append(w.log, c21Obs{label: label, snap: c21SnapOf(args)})
			},
			"rec-exc": func(label string, e any, args ...any) {
				err, ok := e.(error)
				if !ok {
					w.bad = fmt.Sprintf("catch variable holds %T", e)
				}
				w.log = append(w.log, c21Obs{label: label, snap: c21SnapOf(args), exc: c21Describe(err), isCatch: true})
			},
			"zfail": func(s string) { w.zfail = s == "on" },
		}).Ns()
	w.ev.ExtendBuiltin(ns)
}

func c21NewWorker() *c21Worker {
	w := &c21Worker{ch: make(chan any, 64)}
	w.ports = []*eval.Port{eval.DummyInputPort, {File: eval.DevNull, Chan: w.ch}, eval.DummyOutputPort}
	w.ev = eval.NewEvaler()
	w.install()
	return w
}

// run evaluates the program in a fresh, empty global namespace.
func (w *c21Worker) run(src string) (log []c21Obs, exc string, nout int, panicked string) {
	w.z, w.zfail, w.log, w.bad = "z0", false, nil, ""
	var err error
	panicked = vk.Try(func() {
		err = w.ev.Eval(parse.Source{Name: "[c21]", Code: src}, eval.EvalCfg{Ports: w.ports, Global: new(eval.Ns)})
	})
	for n := len(w.ch); n > 0; n-- {
		<-w.ch
		nout++
	}
	return w.log, c21Describe(err), nout, panicked
}

// ---------------------------------------------------------------------------
// Comparison.

func c21In(s string, set []string) bool {
	for _, x := range set {
		if x == s {
			return true
		}
	}
	return false
}

func c21FmtObs(log []c21Obs) string {
	var sb strings.Builder
	for i, o := range log {
		if i > 0 {
			sb.WriteString(", ")
		}
		sb.WriteString(o.label)
		if o.snap != "" {
			sb.WriteString("(" + o.snap + ")")
		}
		if o.isCatch {
			sb.WriteString("!" + o.exc)
		}
	}
	return "[" + sb.String() + "]"
}

func c21FmtExp(log []c21Event) string {
	var sb strings.Builder
	for i, o := range log {
		if i > 0 {
			sb.WriteString(", ")
		}
		sb.WriteString(o.label)
		if o.snap != "" {
			sb.WriteString("(" + o.snap + ")")
		}
		if o.exc != nil {
			sb.WriteString("!" + strings.Join(o.exc.ids, "/"))
		}
	}
	return "[" + sb.String() + "]"
}

func c21FmtExc(e *c21Exc) string {
	if e == nil {
		return "no exception"
	}
	s := "one of {" + strings.Join(e.ids, ", ") + "}"
	if e.allowNil {
		s += " or no exception"
	}
	return s
}

// c21Compare returns "" or (violation key, description).
func c21Compare(m *c21Model, expExc *c21Exc, log []c21Obs, exc string) (string, string) {
	// 1. Every deferred callback exactly once, in the expected order: compare
	// the subsequence of defer events first (most specific diagnosis).
	var gotD, wantD []string
	for _, o := range log {
		if o.label[0] == 'd' {
			gotD = append(gotD, o.label)
		}
	}
	for _, o := range m.log {
		if o.label[0] == 'd' {
			wantD = append(wantD, o.label)
		}
	}
	if strings.Join(gotD, " ") != strings.Join(wantD, " ") {
		g, wnt := append([]string(nil), gotD...), append([]string(nil), wantD...)
		sort.Strings(g)
		sort.Strings(wnt)
		if strings.Join(g, " ") == strings.Join(wnt, " ") {
			return "defer-order", fmt.Sprintf("deferred callbacks ran in order %v, expected %v", gotD, wantD)
		}
		return "defer-not-exactly-once", fmt.Sprintf("deferred callbacks that ran: %v, expected %v", gotD, wantD)
	}
	// 2. Whole log.
	for i := 0; i < len(log) || i < len(m.log); i++ {
		if i >= len(log) {
			return "control-flow", fmt.Sprintf("event %d: log ends, expected %s", i, m.log[i].label)
		}
		if i >= len(m.log) {
			return "control-flow", fmt.Sprintf("event %d: extra event %s", i, log[i].label)
		}
		g, e := log[i], m.log[i]
		if g.label != e.label {
			return "control-flow", fmt.Sprintf("event %d is %s, expected %s", i, g.label, e.label)
		}
		if g.snap != e.snap {
			key := "restore-state"
			if g.label == "fin" {
				key = "restore-state-final"
			}
			return key, fmt.Sprintf("event %d (%s): variables v|a|z are %s, expected %s", i, g.label, g.snap, e.snap)
		}
		if e.exc != nil && !c21In(g.exc, e.exc.ids) {
			return c21ExcKey("caught", g.exc, e.exc), fmt.Sprintf("event %d (%s): caught exception is %s, expected %s", i, g.label, g.exc, c21FmtExc(e.exc))
		}
	}
	// 3. Exception of the call.
	switch {
	case expExc == nil && exc != "":
		return c21ExcKey("final", exc, expExc), fmt.Sprintf("exception %s, expected none", exc)
	case expExc != nil && exc == "" && !expExc.allowNil:
		return c21ExcKey("final", exc, expExc), fmt.Sprintf("no exception, expected %s", c21FmtExc(expExc))
	case expExc != nil && exc != "" && !c21In(exc, expExc.ids):
		return c21ExcKey("final", exc, expExc), fmt.Sprintf("exception %s, expected %s", exc, c21FmtExc(expExc))
	}
	return "", ""
}

func c21ExcType(id string) string {
	switch {
	case id == "":
		return "none"
	case strings.HasPrefix(id, "fail:d"):
		return "defer-failure"
	case strings.HasPrefix(id, "fail:x"):
		return "body-failure"
	case strings.HasPrefix(id, "other:"):
		return "other"
	}
	return id
}

// c21ExcKey classifies a wrong exception by what went wrong, not by the
// exceptions involved.
func c21ExcKey(where, got string, want *c21Exc) string {
	isCleanup := func(id string) bool {
		t := c21ExcType(id)
		return t == "defer-failure" || t == "restore-z"
	}
	switch {
	case want == nil:
		if isCleanup(got) {
			// e.g. a cleanup exception of a block left by break/continue/return,
			// or of an inner block whose exception was caught
			return "exception:spurious-cleanup-exception"
		}
		return "exception:spurious-" + c21ExcType(got)
	case got == "":
		if isCleanup(want.ids[0]) {
			return "exception:cleanup-exception-not-reported"
		}
		return "exception:body-exception-lost"
	case isCleanup(got) && !isCleanup(want.ids[0]):
		return "exception:body-exception-replaced-by-cleanup-exception"
	case got == "exception-with-nil-reason":
		return "exception:nil-reason"
	}
	return "exception:wrong-exception"
}

// c21Class describes which behaviours a case exercised.
func c21Class(body []*c21Node, m *c21Model, exc *c21Exc) string {
	var kinds uint32
	depth := 0
	var walk func(b []*c21Node, d int)
	walk = func(b []*c21Node, d int) {
		for _, n := range b {
			kinds |= 1 << uint(n.kind)
			if c21Kinds[n.kind].compound {
				if d+1 > depth {
					depth = d + 1
				}
				walk(n.kids, d+1)
			}
		}
	}
	walk(body, 0)
	var fl []string
	for _, p := range []struct {
		b bool
		s string
	}{{m.restoreFailed, "restore-failed"}, {m.deferFailed, "defer-failed"}, {m.cleanupLost, "cleanup-exc-dropped"},
		{m.cleanupReported, "cleanup-exc-reported"}, {m.setFailed, "set-failed"}} {
		if p.b {
			fl = append(fl, p.s)
		}
	}
	e := "ok"
	if exc != nil {
		e = c21ExcType(exc.ids[0])
		if exc.allowNil {
			e += "?"
		}
	}
	return fmt.Sprintf("%x/d%d/%s/%s", kinds, depth, e, strings.Join(fl, ","))
}

// c21ProbeNilReason reports whether this Evaler turns the successful return of a
// deferred callback into an exception object without a reason (visible to
// catch). Used only to give all symptoms of that one defect a single key.
func c21ProbeNilReason() bool {
	w := c21NewWorker()
	log, _, _, _ := w.run("fn f { try { defer { rec d1 } } catch e { rec-exc c1 $e } }; f")
	for _, o := range log {
		if o.isCatch && o.exc == "exception-with-nil-reason" {
			return true
		}
	}
	return false
}

const c21KeyNilReason = "successful-defer-yields-exception-with-nil-reason"

// Statement kinds of the largest size in the thorough tier.
var c21Reduced = []int{c21TmpV, c21TmpA0, c21TmpZ, c21SetV, c21DeferOK, c21DeferFail, c21Zon,
	c21WithV, c21WithVZ, c21For, c21Try, c21Call, c21Fail, c21Break, c21Continue, c21Return}

func TestVerifC21(t *testing.T) {
	vk.Run(t, "C21", "exploration", func(c *vk.Ctx) {
		depth := 3
		full := c21NewSpace(4, depth, nil)
		type part struct {
			sp      *c21Space
			minSize int
		}
		parts := []part{{full, 0}}
		rule := fmt.Sprintf("every body of `fn f { ... }` that is a tree of <=%d statements (compound nesting <=%d) over the %d-statement alphabet %v", full.maxSize, depth, len(c21Kinds), full.names())
		if c.Thorough() {
			red := c21NewSpace(5, depth, c21Reduced)
			parts = append(parts, part{red, 5})
			rule += fmt.Sprintf(", and every tree of exactly 5 statements over the %d-statement sub-alphabet %v", len(c21Reduced), red.names())
		}
		c.Rule(rule + "; sizes ascending; an unconditional exit only as the last statement of its block; snapshots of $v $a $z are inserted after every compound statement, at the start of every loop iteration, in every catch block and after the call; class = (set of statement kinds, depth, exception kind of the call, which of restore-failed/defer-failed/cleanup-exception-dropped/-reported/set-failed occurred)")
		c.Assume("the reference interpreter (tmp/with/defer/for/try/fn semantics from language.md and the builtin docs) is the trusted base",
			"break, continue and return are exceptions of the block they leave (builtin docs: 'raises the special ... exception'), so a failing cleanup of that block is not reported",
			"relative order of tmp restores and deferred callbacks of one function is not observed (deferred callbacks only record a label)",
			"when several cleanups (restores, deferred callbacks) fail and the body succeeded, any of their exceptions is accepted",
			"when the body of fn f exits by return and a cleanup of f fails, both reporting and not reporting it are accepted",
			"an assignment to an element saves and restores the variable holding the container; no program assigns the container in between other than by nested tmp/with",
			"the final snapshot is taken in `try { f } finally { ... }`; try/finally and the harness builtins (rec, rec-exc, zfail, $z) are trusted")
		c.Set("depth_bound", depth)
		nilReason := c21ProbeNilReason()
		c.Set("probe_successful_defer_yields_nil_reason_exception", nilReason)
		workers := make(chan *c21Worker, 64)
		for pi, pt := range parts {
			sp, minSize := pt.sp, pt.minSize
			total := sp.total(minSize)
			c.Set(fmt.Sprintf("programs_part%d", pi), total)
			c.Parallel(int(total), func(l *vk.Local, i int) {
				if c.TimeUp() {
					c.Capped("time budget reached before all programs were run")
					return
				}
				var w *c21Worker
				select {
				case w = <-workers:
				default:
					w = c21NewWorker()
				}
				defer func() { workers <- w }()
				body := sp.unrank(minSize, int64(i))
				next := 1
				c21Number(body, &next)
				src := c21Source(body)
				m, expExc := c21Reference(body)
				log, exc, nout, panicked := w.run(src)
				if panicked != "" {
					l.Case("panic")
					c.Violate("panic:"+vk.PanicSite(panicked), fmt.Sprintf("%s: %s", src, panicked), src)
					return
				}
				if w.bad != "" || nout != 0 {
					c.Violate("harness-observation", fmt.Sprintf("%s: %s, %d values on the output channel", src, w.bad, nout), src)
				}
				if key, msg := c21Compare(m, expExc, log, exc); key != "" {
					if nilReason && m.okDeferRan {
						// Any program in which a deferred callback returned
						// normally is affected by that defect.
						msg = "[" + key + "] " + msg
						key = c21KeyNilReason
					}
					c.Violate(key, fmt.Sprintf("%s\n   %s\n   observed log %s exception %q\n   expected log %s exception %s", src, msg, c21FmtObs(log), exc, c21FmtExp(m.log), c21FmtExc(expExc)), src)
				}
				if expExc != nil && expExc.allowNil {
					c.Add("not_judged_return_then_cleanup_failure_reported_or_not", 1)
				}
				if expExc != nil && len(expExc.ids) > 1 {
					c.Add("several_cleanup_failures_any_accepted", 1)
				}
				l.Case(c21Class(body, m, expExc))
				if i%(int(total)/4+1) == int(total)/8 {
					c.Sample(src)
				}
			})
		}
	})
}
