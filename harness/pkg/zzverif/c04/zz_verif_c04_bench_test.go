//go:build verif

package c04

import "testing"

func BenchmarkC04Eval(b *testing.B) {
	w := c04NewWorker()
	for i := 0; i < b.N; i++ {
		out, err, p := w.run("put [&(num 0)=a &b=[c d]]")
		if len(out) != 1 || err != nil || p != "" {
			b.Fatal(out, err, p)
		}
	}
}

func BenchmarkC04EvalPar(b *testing.B) {
	b.RunParallel(func(pb *testing.PB) {
		w := c04NewWorker()
		for pb.Next() {
			out, err, p := w.run("put [&(num 0)=a &b=[c d]]")
			if len(out) != 1 || err != nil || p != "" {
				b.Fatal(out, err, p)
			}
		}
	})
}

func BenchmarkC04EvalNoNum(b *testing.B) {
	w := c04NewWorker()
	for i := 0; i < b.N; i++ {
		out, err, p := w.run("put [&$nil=a &b=[c d]]")
		if len(out) != 1 || err != nil || p != "" {
			b.Fatal(out, err, p)
		}
	}
}

func BenchmarkC04EvalNoNumPar(b *testing.B) {
	b.RunParallel(func(pb *testing.PB) {
		w := c04NewWorker()
		for pb.Next() {
			out, err, p := w.run("put [&$nil=a &b=[c d]]")
			if len(out) != 1 || err != nil || p != "" {
				b.Fatal(out, err, p)
			}
		}
	})
}
