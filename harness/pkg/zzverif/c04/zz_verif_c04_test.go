//go:build verif

// Package c04 holds the harness of property C04 (repr output evaluates back
// to an equal value; the printed order of map entries depends only on the
// map's contents). Values are described by specs (atoms, lists, maps), built
// with the real persistent data structures in every insertion order, printed
// by the real vals.ReprPlain / vals.Repr(v, 0), evaluated by a real Evaler and
// compared with the spec by a structural oracle written here.
package c04

import (
	"fmt"
	"math"
	"math/big"
	"runtime/debug"
	"sort"
	"strings"
	"sync/atomic"
	"testing"

	"src.elv.sh/pkg/eval"
	"src.elv.sh/pkg/eval/vals"
	"src.elv.sh/pkg/parse"
	"src.elv.sh/pkg/persistent/hashmap"
	"src.elv.sh/pkg/persistent/vector"
	"src.elv.sh/pkg/zzverif/vk"
)

// ---------------------------------------------------------------------------
// Atoms.

type c04Atom struct {
	name string // Elvish expression denoting the atom (messages only)
	v    any
	cat  string // class letter
	eqc  int    // atoms with the same eqc are eq (cannot both be keys of one map)
}

func c04BigInt(s string) *big.Int {
	z, ok := new(big.Int).SetString(s, 10)
	if !ok {
		panic(s)
	}
	return z
}

func c04BigRat(s string) *big.Rat {
	z, ok := new(big.Rat).SetString(s)
	if !ok {
		panic(s)
	}
	return z
}

var c04Atoms = []*c04Atom{
	{"$nil", nil, "n", 0},
	{"$true", true, "b", 1},
	{"$false", false, "b", 2},
	{"''", "", "s", 3},
	{"a", "a", "s", 4},
	{"'a b'", "a b", "s", 5},
	{`"\t"`, "\t", "s", 6},
	{`"\xff"`, "\xff", "s", 7},
	{"'0'", "0", "s", 8},
	{"'&=]'", "&=]", "s", 9},
	{"(num 0)", 0, "i", 10},
	{"(num -1)", -1, "i", 11},
	{"(num 9223372036854775807)", math.MaxInt64, "i", 12},
	{"(num -9223372036854775808)", math.MinInt64, "i", 13},
	{"(num 9223372036854775808)", c04BigInt("9223372036854775808"), "I", 14},
	{"(num 1/2)", c04BigRat("1/2"), "r", 15},
	{"(num -18446744073709551616/3)", c04BigRat("-18446744073709551616/3"), "r", 16},
	{"(num 0.0)", 0.0, "z", 17},
	{"(num -0.0)", math.Copysign(0, -1), "z", 17},
	{"(num 1.5)", 1.5, "f", 19},
	{"(num 1e21)", 1e21, "f", 20},
	{"(num 1e-7)", 1e-7, "f", 21},
	{"(num NaN)", math.NaN(), "N", 22},
	{"(num +Inf)", math.Inf(1), "F", 23},
	{"(num -Inf)", math.Inf(-1), "F", 24},
}

func c04AtomsNamed(names ...string) []*c04Spec {
	var out []*c04Spec
	for _, n := range names {
		found := false
		for _, a := range c04Atoms {
			if a.name == n {
				out = append(out, c04A(a))
				found = true
			}
		}
		if !found {
			panic("no atom " + n)
		}
	}
	return out
}

// ---------------------------------------------------------------------------
// Value specs.

type c04Spec struct {
	kind   byte // 'a' atom, 'l' list, 'm' map
	atom   *c04Atom
	a, b   []*c04Spec // list elements; or map keys (a) and values (b)
	maxMap int        // largest number of entries of any map inside
	nan    bool       // contains NaN
	sig    string     // shallow signature used in class keys
}

func c04A(at *c04Atom) *c04Spec {
	return &c04Spec{kind: 'a', atom: at, nan: at.cat == "N", sig: at.cat}
}

func c04L(elems []*c04Spec) *c04Spec {
	s := &c04Spec{kind: 'l', a: append([]*c04Spec{}, elems...)}
	for _, e := range elems {
		s.nan = s.nan || e.nan
		if e.maxMap > s.maxMap {
			s.maxMap = e.maxMap
		}
	}
	s.sig = fmt.Sprintf("L%d", len(elems))
	return s
}

func c04M(keys, values []*c04Spec) *c04Spec {
	s := &c04Spec{kind: 'm', a: append([]*c04Spec{}, keys...), b: append([]*c04Spec{}, values...), maxMap: len(keys)}
	for _, e := range append(append([]*c04Spec{}, keys...), values...) {
		s.nan = s.nan || e.nan
		if e.maxMap > s.maxMap {
			s.maxMap = e.maxMap
		}
	}
	s.sig = fmt.Sprintf("M%d", len(keys))
	return s
}

// c04Class is the behaviour class of a case: the kind of the value and the
// shallow signatures (atom category or container kind+size) of its children.
func c04Class(s *c04Spec) string {
	var sb strings.Builder
	switch s.kind {
	case 'a':
		return "atom:" + s.atom.cat
	case 'l':
		sb.WriteString("L(")
		for _, e := range s.a {
			sb.WriteString(e.sig)
			sb.WriteByte(' ')
		}
	case 'm':
		sb.WriteString("M(")
		for i := range s.a {
			sb.WriteString(s.a[i].sig)
			sb.WriteByte('=')
			sb.WriteString(s.b[i].sig)
			sb.WriteByte(' ')
		}
	}
	sb.WriteByte(')')
	return sb.String()
}

// c04SameSpec reports whether two specs denote eq values (0.0 and -0.0 are eq).
func c04SameSpec(x, y *c04Spec) bool { return c04Same(x, y, false) }

// c04Same: with modExact, an exact and an inexact zero also count as the same.
func c04Same(x, y *c04Spec, modExact bool) bool {
	if x.kind != y.kind || len(x.a) != len(y.a) {
		return false
	}
	switch x.kind {
	case 'a':
		if modExact && (x.atom.cat == "z" || x.atom.name == "(num 0)") && (y.atom.cat == "z" || y.atom.name == "(num 0)") {
			return true
		}
		if modExact && x.atom == y.atom {
			return true
		}
		return x.atom.eqc == y.atom.eqc && x.atom.cat != "N"
	case 'l':
		for i := range x.a {
			if !c04Same(x.a[i], y.a[i], modExact) {
				return false
			}
		}
		return true
	default:
		for i := range x.a {
			found := false
			for j := range y.a {
				if c04Same(x.a[i], y.a[j], modExact) && c04Same(x.b[i], y.b[j], modExact) {
					found = true
				}
			}
			if !found {
				return false
			}
		}
		return true
	}
}

// c04Size is the number of nodes of a spec.
func c04Size(s *c04Spec) int {
	n := 1
	for _, e := range s.a {
		n += c04Size(e)
	}
	for _, e := range s.b {
		n += c04Size(e)
	}
	return n
}

// c04Order returns the insertion order of a map with n entries induced by perm.
func c04Order(perm []int, n int) []int {
	out := make([]int, 0, n)
	for _, p := range perm {
		if p < n {
			out = append(out, p)
		}
	}
	for i := len(perm); i < n; i++ {
		out = append(out, i)
	}
	return out
}

// c04Build builds the value with the real data structures; the entries of every
// map are inserted in the relative order given by perm.
func c04Build(s *c04Spec, perm []int) any {
	switch s.kind {
	case 'a':
		return s.atom.v
	case 'l':
		elems := make([]any, len(s.a))
		for i, e := range s.a {
			elems[i] = c04Build(e, perm)
		}
		return vals.MakeList(elems...)
	default:
		m := vals.EmptyMap
		for _, i := range c04Order(perm, len(s.a)) {
			m = m.Assoc(c04Build(s.a[i], perm), c04Build(s.b[i], perm))
		}
		return m
	}
}

// c04Describe writes the spec as an Elvish expression with map entries in the
// insertion order induced by perm (independent of Repr; for messages).
func c04Describe(s *c04Spec, perm []int) string {
	switch s.kind {
	case 'a':
		return s.atom.name
	case 'l':
		parts := make([]string, len(s.a))
		for i, e := range s.a {
			parts[i] = c04Describe(e, perm)
		}
		return "[" + strings.Join(parts, " ") + "]"
	default:
		if len(s.a) == 0 {
			return "[&]"
		}
		var parts []string
		for _, i := range c04Order(perm, len(s.a)) {
			parts = append(parts, "&"+c04Describe(s.a[i], perm)+"="+c04Describe(s.b[i], perm))
		}
		return "[" + strings.Join(parts, " ") + "]"
	}
}

// ---------------------------------------------------------------------------
// Oracle: structural comparison of an evaluated value with the spec.

type c04Stats struct {
	zeroSignChanged int64
}

func c04IsNum(w any) bool {
	switch w.(type) {
	case int, *big.Int, *big.Rat, float64:
		return true
	}
	return false
}

// c04Match returns "" if w is the value denoted by s (same types at every
// node, numbers of the same exact/inexact type and Go representation and the
// same value, NaN for NaN), else the kind of the first difference.
func c04Match(s *c04Spec, w any, st *c04Stats) string {
	switch s.kind {
	case 'a':
		switch a := s.atom.v.(type) {
		case nil:
			if w != nil {
				return "type"
			}
		case bool:
			b, ok := w.(bool)
			if !ok {
				return "type"
			}
			if a != b {
				return "bool-value"
			}
		case string:
			b, ok := w.(string)
			if !ok {
				return "type"
			}
			if a != b {
				return "string-value"
			}
		case float64:
			b, ok := w.(float64)
			if !ok {
				if c04IsNum(w) {
					return "number-exactness"
				}
				return "type"
			}
			if math.IsNaN(a) {
				if !math.IsNaN(b) {
					return "nan"
				}
				return ""
			}
			if a != b {
				return "number-value"
			}
			if math.Signbit(a) != math.Signbit(b) {
				st.zeroSignChanged++ // eq holds; the statement does not speak about the sign of zero
			}
		default: // exact numbers
			if _, ok := w.(float64); ok {
				return "number-exactness"
			}
			if !c04IsNum(w) {
				return "type"
			}
			switch a := a.(type) {
			case int:
				b, ok := w.(int)
				if !ok {
					return "number-type"
				}
				if a != b {
					return "number-value"
				}
			case *big.Int:
				b, ok := w.(*big.Int)
				if !ok {
					return "number-type"
				}
				if a.Cmp(b) != 0 {
					return "number-value"
				}
			case *big.Rat:
				b, ok := w.(*big.Rat)
				if !ok {
					return "number-type"
				}
				if a.Cmp(b) != 0 {
					return "number-value"
				}
			}
		}
		return ""
	case 'l':
		l, ok := w.(vector.Vector)
		if !ok {
			return "type"
		}
		if l.Len() != len(s.a) {
			return "list-length"
		}
		i := 0
		for it := l.Iterator(); it.HasElem(); it.Next() {
			if d := c04Match(s.a[i], it.Elem(), st); d != "" {
				return d
			}
			i++
		}
		return ""
	default:
		m, ok := w.(hashmap.Map)
		if !ok {
			return "type"
		}
		if m.Len() != len(s.a) {
			return "map-size"
		}
		// every spec entry must be matched by a distinct entry of m
		type kv struct{ k, v any }
		var entries []kv
		for it := m.Iterator(); it.HasElem(); it.Next() {
			k, v := it.Elem()
			entries = append(entries, kv{k, v})
		}
		if len(entries) != len(s.a) {
			return "map-size"
		}
		used := make([]bool, len(entries))
		var scratch c04Stats
		for i := range s.a {
			found := -1
			for j, e := range entries {
				if !used[j] && c04Match(s.a[i], e.k, &scratch) == "" {
					found = j
					break
				}
			}
			if found < 0 {
				return "map-key"
			}
			used[found] = true
			if d := c04Match(s.b[i], entries[found].v, st); d != "" {
				return d
			}
		}
		return ""
	}
}

// ---------------------------------------------------------------------------
// Workers: one Evaler with a channel capture port per worker.

type c04Viol struct {
	unit, idx int
	key, msg  string
	replay    any
}

type c04Worker struct {
	ev       *eval.Evaler
	ch       chan any
	ports    []*eval.Port
	viols    map[string]c04Viol
	st       c04Stats
	tieKind  map[*c04Spec]string
	unit     int
	idx      int
	evals    int64
	multi    int64
	rtValues int64
	rtEvals  int64
}

func c04NewWorker() *c04Worker {
	ch := make(chan any, 64)
	out := &eval.Port{File: eval.DevNull, Chan: ch}
	return &c04Worker{ev: eval.NewEvaler(), ch: ch,
		ports: []*eval.Port{eval.DummyInputPort, out, eval.DummyOutputPort},
		viols: map[string]c04Viol{}, tieKind: map[*c04Spec]string{}}
}

func (w *c04Worker) violate(key, msg string, replay any) {
	if old, ok := w.viols[key]; ok && (old.unit < w.unit || (old.unit == w.unit && old.idx <= w.idx)) {
		return
	}
	w.viols[key] = c04Viol{w.unit, w.idx, key, msg, replay}
}

// run evaluates code and returns the values written to the value output.
func (w *c04Worker) run(code string) (out []any, err error, panicked string) {
	panicked = vk.Try(func() {
		err = w.ev.Eval(parse.Source{Name: "c04", Code: code}, eval.EvalCfg{Ports: w.ports})
	})
	for {
		select {
		case v := <-w.ch:
			out = append(out, v)
		default:
			return
		}
	}
}

var c04PermCache = map[int][][]int{}

// c04Perms returns all permutations of 0..n-1, identity first.
func c04Perms(n int) [][]int {
	if n < 2 {
		return [][]int{{0}}
	}
	var out [][]int
	cur := make([]int, 0, n)
	used := make([]bool, n)
	var rec func()
	rec = func() {
		if len(cur) == n {
			out = append(out, append([]int{}, cur...))
			return
		}
		for i := 0; i < n; i++ {
			if !used[i] {
				used[i] = true
				cur = append(cur, i)
				rec()
				cur = cur[:len(cur)-1]
				used[i] = false
			}
		}
	}
	rec()
	return out
}

func init() {
	for n := 0; n <= 4; n++ {
		c04PermCache[n] = c04Perms(n)
	}
}

// c04TieKind finds out which kind of keys makes the printed order of s depend
// on the insertion order: the first pair of keys of a map inside s (innermost
// first) whose two-entry map prints differently in the two insertion orders.
func (w *c04Worker) c04TieKind(s *c04Spec) string {
	if s.kind == 'a' || s.maxMap < 2 {
		return ""
	}
	if k, ok := w.tieKind[s]; ok {
		return k
	}
	res := ""
	for _, e := range append(append([]*c04Spec{}, s.a...), s.b...) {
		if res = w.c04TieKind(e); res != "" {
			break
		}
	}
	if res == "" && s.kind == 'm' {
	pairs:
		for i := 0; i < len(s.a); i++ {
			for j := i + 1; j < len(s.a); j++ {
				// keys themselves are built in identity order; only the outer order varies
				k0, k1 := c04Build(s.a[i], []int{0}), c04Build(s.a[j], []int{0})
				m01 := vals.EmptyMap.Assoc(k0, nil).Assoc(k1, nil)
				m10 := vals.EmptyMap.Assoc(k1, nil).Assoc(k0, nil)
				if vals.ReprPlain(m01) != vals.ReprPlain(m10) {
					ki, kj := c04KeyKind(s.a[i]), c04KeyKind(s.a[j])
					if ki > kj {
						ki, kj = kj, ki
					}
					if ki == kj {
						res = ki + "-keys"
					} else {
						res = ki + "+" + kj + "-keys"
					}
					if ki != "number" && c04Same(s.a[i], s.a[j], true) {
						// the two keys differ only in a zero inside being exact / inexact
						res += "-differing-in-exactness"
					}
					break pairs
				}
			}
		}
	}
	if len(w.tieKind) < 100000 {
		w.tieKind[s] = res
	}
	return res
}

func c04KeyKind(s *c04Spec) string {
	switch s.kind {
	case 'l':
		return "list"
	case 'm':
		return "map"
	}
	switch s.atom.cat {
	case "n":
		return "nil"
	case "b":
		return "bool"
	case "s":
		return "string"
	}
	return "number"
}

// c04Check checks one value: all insertion orders print the same text in both
// modes, and every printed text evaluates back to the value.
func (w *c04Worker) c04Check(l *vk.Local, s *c04Spec, rt bool) {
	w.evals++
	perms := c04PermCache[0]
	if s.maxMap >= 2 {
		perms = c04PermCache[s.maxMap]
		w.multi++
	}
	outcome := "ok"
	var plain0, pretty0 string
	var v0 any
	type text struct {
		mode, text string
		perm       []int
	}
	var texts []text
	for pi, perm := range perms {
		var v any
		var plain, pretty string
		if p := vk.Try(func() {
			v = c04Build(s, perm)
			plain = vals.ReprPlain(v)
			pretty = vals.Repr(v, 0)
		}); p != "" {
			w.violate("panic:repr:"+vk.PanicSite(p), fmt.Sprintf("building / printing %s panicked: %s", c04Describe(s, perm), p), c04Describe(s, perm))
			outcome = "panic"
			continue
		}
		if pi == 0 {
			plain0, pretty0, v0 = plain, pretty, v
			texts = append(texts, text{"plain", plain, perm}, text{"pretty", pretty, perm})
			continue
		}
		if plain != plain0 || pretty != pretty0 {
			kind := w.c04TieKind(s)
			if kind == "" {
				kind = "other"
			}
			outcome = "order:" + kind
			a, b := plain0, plain
			mode := "repr"
			if plain == plain0 {
				a, b, mode = pretty0, pretty, "pprint"
			}
			w.violate("insertion-order:"+kind, fmt.Sprintf("the same map built by inserting entries in two orders prints differently: %s of %s is %q but of %s it is %q",
				mode, c04Describe(s, perms[0]), a, c04Describe(s, perm), b),
				map[string]any{"order1": c04Describe(s, perms[0]), "order2": c04Describe(s, perm), "text1": a, "text2": b})
			if plain != plain0 {
				texts = append(texts, text{"plain", plain, perm})
			}
			if pretty != pretty0 {
				texts = append(texts, text{"pretty", pretty, perm})
			}
		}
	}
	_ = v0
	if !rt {
		l.Case("order/" + c04Class(s) + "/" + outcome)
		return
	}
	w.rtValues++
	plainFail := ""
	seen := map[string]bool{}
	for _, t := range texts {
		if seen[t.text] {
			continue
		}
		seen[t.text] = true
		fail, detail := w.c04RoundTrip(s, t.text, t.perm)
		if fail == "" {
			continue
		}
		outcome = "fail:" + fail
		key := fail
		if t.mode == "plain" {
			plainFail = fail
		} else if fail == plainFail {
			continue // same failure as in single-line form: one root cause
		} else {
			key = "pretty:" + fail
		}
		form := "single-line repr (vals.ReprPlain)"
		if t.mode == "pretty" {
			form = "pretty-printed repr (vals.Repr(v, 0))"
		}
		w.violate(key, fmt.Sprintf("%s of %s is %q; evaluating `put <that text>`: %s", form, c04Describe(s, t.perm), t.text, detail),
			map[string]any{"value": c04Describe(s, t.perm), "mode": t.mode, "text": t.text})
	}
	l.Case("roundtrip/" + c04Class(s) + "/" + outcome)
}

// c04RoundTrip evaluates "put "+text and compares the result with s.
func (w *c04Worker) c04RoundTrip(s *c04Spec, text string, perm []int) (fail, detail string) {
	w.rtEvals++
	out, err, p := w.run("put " + text)
	if p != "" {
		return "panic:eval:" + vk.PanicSite(p), "panicked: " + p
	}
	if err != nil {
		kind := "exception"
		if parse.UnpackErrors(err) != nil {
			kind = "parse-error"
		} else if eval.UnpackCompilationErrors(err) != nil {
			kind = "compile-error"
		}
		return "eval:" + kind, fmt.Sprintf("fails with %v", err)
	}
	if len(out) != 1 {
		return "eval:value-count", fmt.Sprintf("outputs %d values %v instead of one", len(out), c04ReprAll(out))
	}
	if d := c04Match(s, out[0], &w.st); d != "" {
		return "roundtrip:" + d, fmt.Sprintf("yields %s, which differs from the original (%s)", c04Show(out[0]), d)
	}
	if !s.nan {
		// the statement's "eq": the real equality of the real values
		v := c04Build(s, perm)
		var e1, e2 bool
		if p := vk.Try(func() { e1, e2 = vals.Equal(v, out[0]), vals.Equal(out[0], v) }); p != "" {
			return "panic:equal:" + vk.PanicSite(p), "vals.Equal panicked: " + p
		}
		if !e1 || !e2 {
			return "roundtrip:not-eq", fmt.Sprintf("yields %s, structurally the same value, but eq says original==result: %v, result==original: %v", c04Show(out[0]), e1, e2)
		}
	}
	return "", ""
}

func c04Show(v any) string {
	return fmt.Sprintf("%s (Go type %T)", vals.ReprPlain(v), v)
}

func c04ReprAll(vs []any) []string {
	var out []string
	for _, v := range vs {
		out = append(out, vals.ReprPlain(v))
	}
	return out
}

// ---------------------------------------------------------------------------
// Enumeration of containers over element sets.

// c04Layer: all lists of <= wList elements of E and all maps of <= wMap entries
// with pairwise non-eq keys from K (as a set) and values from V.
type c04Layer struct {
	name        string
	E, K, V     []*c04Spec
	wList, wMap int
	rt          bool // also evaluate the printed texts (else only the order of entries is checked)
}

type c04Unit struct {
	kind byte  // 'e' the two empty containers, 'l' lists with a given first element, 'm' maps with a given key set
	idx  []int // first element / key indices
}

func (ly *c04Layer) units() []c04Unit {
	us := []c04Unit{{kind: 'e'}}
	if ly.wList >= 1 {
		for i := range ly.E {
			us = append(us, c04Unit{'l', []int{i}})
		}
	}
	for n := 1; n <= ly.wMap; n++ {
		comb := make([]int, n)
		var rec func(pos, from int)
		rec = func(pos, from int) {
			if pos == n {
				for i := 0; i < n; i++ {
					for j := i + 1; j < n; j++ {
						if c04SameSpec(ly.K[comb[i]], ly.K[comb[j]]) {
							return
						}
					}
				}
				us = append(us, c04Unit{'m', append([]int{}, comb...)})
				return
			}
			for i := from; i < len(ly.K); i++ {
				comb[pos] = i
				rec(pos+1, i+1)
			}
		}
		rec(0, 0)
	}
	return us
}

// c04Odometer calls f for every index tuple of length n over [0,base).
func c04Odometer(n, base int, f func(idx []int)) {
	idx := make([]int, n)
	if n > 0 && base == 0 {
		return
	}
	for {
		f(idx)
		i := n - 1
		for i >= 0 {
			idx[i]++
			if idx[i] < base {
				break
			}
			idx[i] = 0
			i--
		}
		if i < 0 {
			return
		}
	}
}

// each calls f for every value of the unit, simplest first.
func (ly *c04Layer) each(u c04Unit, f func(s *c04Spec)) {
	switch u.kind {
	case 'e':
		f(c04L(nil))
		f(c04M(nil, nil))
	case 'l':
		for n := 1; n <= ly.wList; n++ {
			elems := make([]*c04Spec, n)
			elems[0] = ly.E[u.idx[0]]
			c04Odometer(n-1, len(ly.E), func(idx []int) {
				for i, x := range idx {
					elems[i+1] = ly.E[x]
				}
				f(c04L(elems))
			})
		}
	case 'm':
		n := len(u.idx)
		keys := make([]*c04Spec, n)
		for i, k := range u.idx {
			keys[i] = ly.K[k]
		}
		values := make([]*c04Spec, n)
		c04Odometer(n, len(ly.V), func(idx []int) {
			for i, x := range idx {
				values[i] = ly.V[x]
			}
			f(c04M(keys, values))
		})
	}
}

// all materialises the layer (used to build element sets of deeper layers).
func (ly *c04Layer) all() []*c04Spec {
	var out []*c04Spec
	for _, u := range ly.units() {
		ly.each(u, func(s *c04Spec) { out = append(out, s) })
	}
	return out
}

func c04Concat(xs ...[]*c04Spec) []*c04Spec {
	var out []*c04Spec
	for _, x := range xs {
		out = append(out, x...)
	}
	return out
}

// ---------------------------------------------------------------------------

type c04Run struct {
	c       *vk.Ctx
	workers []*c04Worker
	counts  map[string]int64
	multi   int64
}

// parallel runs n units on the workers and then reports the violations found,
// smallest (unit, index) per key, in a deterministic order.
func (r *c04Run) parallel(name string, n int, f func(w *c04Worker, l *vk.Local, unit int)) {
	free := make(chan *c04Worker, len(r.workers))
	for _, w := range r.workers {
		w.evals, w.multi = 0, 0
		free <- w
	}
	var capped atomic.Bool
	r.c.Parallel(n, func(l *vk.Local, i int) {
		if r.c.TimeUp() {
			capped.Store(true)
			return
		}
		w := <-free
		w.unit, w.idx = i, 0
		f(w, l, i)
		free <- w
	})
	if capped.Load() {
		r.c.Capped("time budget reached in layer " + name)
	}
	best := map[string]c04Viol{}
	var evals int64
	for _, w := range r.workers {
		evals += w.evals
		r.multi += w.multi
		for k, v := range w.viols {
			if old, ok := best[k]; !ok || v.unit < old.unit || (v.unit == old.unit && v.idx < old.idx) {
				best[k] = v
			}
		}
		w.viols = map[string]c04Viol{}
	}
	r.counts[name] += evals
	var keys []string
	for k := range best {
		keys = append(keys, k)
	}
	sort.Slice(keys, func(i, j int) bool {
		a, b := best[keys[i]], best[keys[j]]
		if a.unit != b.unit {
			return a.unit < b.unit
		}
		if a.idx != b.idx {
			return a.idx < b.idx
		}
		return a.key < b.key
	})
	for _, k := range keys {
		r.c.Violate(k, best[k].msg, best[k].replay)
	}
}

func (r *c04Run) layer(ly *c04Layer) {
	us := ly.units()
	r.parallel(ly.name, len(us), func(w *c04Worker, l *vk.Local, i int) {
		ly.each(us[i], func(s *c04Spec) {
			w.c04Check(l, s, ly.rt)
			w.idx++
		})
	})
}

// wrappers: every x of xs inside one more level of list / map (as element, key,
// value, key and value), next to a plain string.
func (r *c04Run) wrappers(name string, xs []*c04Spec) {
	a := c04AtomsNamed("a")[0]
	r.parallel(name, len(xs), func(w *c04Worker, l *vk.Local, i int) {
		x := xs[i]
		for _, s := range []*c04Spec{
			c04L([]*c04Spec{x}),
			c04L([]*c04Spec{a, x}),
			c04M([]*c04Spec{x}, []*c04Spec{a}),
			c04M([]*c04Spec{a}, []*c04Spec{x}),
			c04M([]*c04Spec{x}, []*c04Spec{x}),
			c04M([]*c04Spec{a, x}, []*c04Spec{x, a}),
		} {
			w.c04Check(l, s, true)
			w.idx++
		}
	})
}

func c04Names(xs []*c04Spec) string {
	var parts []string
	for _, x := range xs {
		parts = append(parts, c04Describe(x, []int{0}))
	}
	return strings.Join(parts, " ")
}

func TestVerifC04(t *testing.T) {
	vk.Run(t, "C04", "exploration", func(c *vk.Ctx) {
		debug.SetGCPercent(400)
		r := &c04Run{c: c, counts: map[string]int64{}}
		for i := 0; i < vk.Workers(); i++ {
			r.workers = append(r.workers, c04NewWorker())
		}
		var full []*c04Spec
		for _, a := range c04Atoms {
			full = append(full, c04A(a))
		}
		tq := c04AtomsNamed("a", "$nil")
		t2 := c04AtomsNamed("a", "(num 0)")
		t3 := c04AtomsNamed("a", "(num 0)", "(num 0.0)")
		t4 := c04AtomsNamed("a", "(num 0)", "(num 0.0)", "(num NaN)")
		// elems(t, w): t plus every list / map of width <= w over t (depth <= 1)
		elems := func(t []*c04Spec, w int) []*c04Spec {
			cs := (&c04Layer{E: t, K: t, V: t, wList: w, wMap: w}).all()
			sort.SliceStable(cs, func(i, j int) bool { return c04Size(cs[i]) < c04Size(cs[j]) })
			return c04Concat(t, cs)
		}
		eq2, eq1 := elems(tq, 2), elems(tq, 1)
		e2, e2n := elems(t2, 2), elems(t2, 1)
		e3, e4 := elems(t3, 2), elems(t4, 2)
		th := c.Thorough()
		wB := vk.Pick(c, 3, 4)

		c.Rule(fmt.Sprintf("values are specs over %d atoms FULL = {%s}; T2 = {%s}, TQ = {%s}, T3 = {%s}, T4 = {%s}; E(T,w) = T + every list/map of width <=w over T (depth <=1); |E(T2,2)|=%d |E(T2,1)|=%d |E(T3,2)|=%d |E(T4,2)|=%d. "+
			"ROUND-TRIP layers (every value built in every insertion order, printed by ReprPlain and Repr(v,0), every distinct text evaluated as `put <text>` by a real Evaler and compared): "+
			"A every atom; RB1 every list of <=%d atoms, every 1-entry map over FULL x FULL; RB2 every map of <=2 entries, key sets of pairwise non-eq atoms of FULL, values from %s; "+
			"RC every list and map of width <=2 over E(TQ,2) (depth 2, %d elements); RCn the same over %s; RD every value x of RCn's quick set (depth 2 over E(T2,1)) wrapped as [x] [a x] [&x=a] [&a=x] [&x=x] [&a=x &x=a] (depth 3)%s. "+
			"ORDER-only layers (every value built in every insertion order - the same permutation applied to every map inside, all k! for the largest map size k - and both printed texts compared across orders; the order can only depend on keys, so values are from T2): "+
			"OB maps of <=%d entries with key sets from FULL; OC maps of <=2 entries with key sets from E(T4,2) and of <=3 entries with key sets from E(T3,2)%s. "+
			"class = (layer kind, container kind, per child: atom category or container kind+size, outcome)",
			len(full), c04Names(full), c04Names(t2), c04Names(tq), c04Names(t3), c04Names(t4), len(e2), len(e2n), len(e3), len(e4),
			vk.Pick(c, 2, 3), vk.Pick(c, "T2", "FULL (3-entry maps: values from T2)"),
			len(eq2), vk.Pick(c, "E(T2,1)", "E(T2,2), plus lists of <=2 and 1-entry maps over E(T3,2)"),
			vk.Pick(c, "", "; thorough also wraps every value of RC"),
			wB, vk.Pick(c, "", "; maps of <=2 entries whose keys are depth-2 values (all lists/maps of width <=2 over E(T2,1))")))
		c.Assume("the oracle compares the evaluated value with the spec structurally (same Go type at every node, exact numbers by math/big comparison, floats by ==, NaN for NaN, map entries matched pairwise) and additionally demands vals.Equal in both directions for NaN-free values",
			"maps never get two keys that are eq (0.0 and -0.0 are never keys of the same map) and at most one NaN key; the sign of a float zero after the round trip is counted (zero_sign_changed), not judged",
			"values outside the atom set and the depth/width bounds are not covered; quoting of arbitrary strings is covered by C03, number formatting by C05; every `(num ...)` in a printed text costs an output capture with an OS pipe in the real Evaler, which bounds the number of number-carrying round trips",
			"the order of types in CmpTotal is documented as fixed only within one session: order independence is judged within this one process")

		// round-trip layers, simplest first
		r.parallel("A", len(full), func(w *c04Worker, l *vk.Local, i int) { w.c04Check(l, full[i], true) })
		r.layer(&c04Layer{name: "RB1", E: full, K: full, V: full, wList: vk.Pick(c, 2, 3), wMap: 1, rt: true})
		r.layer(&c04Layer{name: "RB2", K: full, V: vk.Pick(c, t2, full), wMap: 2, rt: true})
		// order-only layers
		r.layer(&c04Layer{name: "OB", K: full, V: t2, wMap: wB})
		r.layer(&c04Layer{name: "OC", K: e4, V: t2, wMap: 2})
		r.layer(&c04Layer{name: "OC3", K: e3, V: t2, wMap: 3})
		// deeper round-trip layers
		r.layer(&c04Layer{name: "RC", E: eq2, K: eq2, V: eq2, wList: 2, wMap: 2, rt: true})
		xn := &c04Layer{name: "RCn", E: e2n, K: e2n, V: e2n, wList: 2, wMap: 2, rt: true}
		r.layer(xn)
		r.wrappers("RD", xn.all())
		_ = eq1
		if th {
			r.layer(&c04Layer{name: "RB3", K: full, V: t2, wMap: 3, rt: true})
			r.layer(&c04Layer{name: "RCn2", E: e2, K: e2, V: e2, wList: 2, wMap: 2, rt: true})
			r.layer(&c04Layer{name: "RC3", E: e3, K: e3, V: e3, wList: 2, wMap: 1, rt: true})
			r.wrappers("RDq", (&c04Layer{E: eq2, K: eq2, V: eq2, wList: 2, wMap: 2}).all())
			r.layer(&c04Layer{name: "OD", K: xn.all(), V: t2, wMap: 2})
		}

		for k, n := range r.counts {
			c.Set("values_layer_"+k, n)
		}
		c.Set("values_with_a_map_of_2_or_more_entries", r.multi)
		var zs, rv, re int64
		for _, w := range r.workers {
			zs += w.st.zeroSignChanged
			rv += w.rtValues
			re += w.rtEvals
		}
		c.Set("zero_sign_changed", zs)
		c.Set("round_trip_values", rv)
		c.Set("round_trip_evaluations", re)
		xs := xn.all()
		for _, s := range []*c04Spec{xs[len(xs)/3], xs[len(xs)-1], e3[len(e3)-1]} {
			v := c04Build(s, []int{0})
			c.Sample(map[string]string{"value": c04Describe(s, []int{0}), "repr": vals.ReprPlain(v), "pprint": vals.Repr(v, 0)})
		}
	})
}
