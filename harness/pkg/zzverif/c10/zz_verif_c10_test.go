//go:build verif

// Package c10 checks property C10 (the order builtin outputs a stable sorted
// permutation of its input) by bounded-exhaustive enumeration: every sequence
// up to a length bound over small alphabets of elvish values, crossed with the
// option combinations of order, is sorted by the real builtin (Evaler.Call on
// the builtin function value, channel-based capture port) and compared with
// the unique stable sorted permutation computed from the results of the real
// compare builtin (position formula, no sorting algorithm involved).
package c10

import (
	"fmt"
	"math"
	"math/big"
	"math/bits"
	"sort"
	"strings"
	"sync"
	"testing"
	"time"

	"src.elv.sh/pkg/eval"
	"src.elv.sh/pkg/eval/vals"
	"src.elv.sh/pkg/parse"
	"src.elv.sh/pkg/zzverif/vk"
)

// ---------------------------------------------------------------------------
// Universe of values. Every symbol is observably distinct (different repr), so
// symbol identity of an output value is exactly what elvish code can observe.

type c10Node struct {
	kind string   // "num", "str", "list", "map"
	r    *big.Rat // num: exact mathematical value; nil = NaN
	s    string   // str, or map identity
	kids []int    // list: symbol ids of the elements
}

func c10Rat(s string) *big.Rat {
	r, ok := new(big.Rat).SetString(s)
	if !ok {
		panic("c10Rat " + s)
	}
	return r
}

// 2^64: an exact integer beyond the machine int range (elvish holds it as *big.Int).
var c10TwoTo64 = new(big.Int).Lsh(big.NewInt(1), 64)

type c10Sym struct {
	val  any
	repr string
	node c10Node
}

const (
	c10I1 = iota // (num 1)
	c10I2        // (num 2)
	c10F2        // (num 2.0)
	c10NaN
	c10Sa
	c10Sb
	c10L2a  // [(num 2) a]
	c10L2b  // [(num 2) b]
	c10LF2a // [(num 2.0) a]
	c10L1b  // [(num 1) b]
	c10La   // [a]
	c10L0   // []
	c10Ma   // [&k=a]
	c10Mb   // [&k=b]
	c10F1   // (num 1.0)
	// machine ints that are far apart (differences beyond the int64 range), a
	// big int, and floats that are far from every exact number of the pool
	c10I0    // (num 0)
	c10IMax  // (num 9223372036854775807)
	c10IMin  // (num -9223372036854775808)
	c10I5e18 // (num 5000000000000000000)
	c10IN5e18
	c10B64  // (num 18446744073709551616)
	c10F05  // (num 0.5)
	c10F25  // (num 2.5)
	c10NSym
)

var c10Syms = [c10NSym]c10Sym{
	c10I1:   {1, "(num 1)", c10Node{kind: "num", r: c10Rat("1")}},
	c10I2:   {2, "(num 2)", c10Node{kind: "num", r: c10Rat("2")}},
	c10F2:   {2.0, "(num 2.0)", c10Node{kind: "num", r: c10Rat("2")}},
	c10NaN:  {math.NaN(), "(num NaN)", c10Node{kind: "num", r: nil}},
	c10Sa:   {"a", "a", c10Node{kind: "str", s: "a"}},
	c10Sb:   {"b", "b", c10Node{kind: "str", s: "b"}},
	c10L2a:  {vals.MakeList(2, "a"), "[(num 2) a]", c10Node{kind: "list", kids: []int{c10I2, c10Sa}}},
	c10L2b:  {vals.MakeList(2, "b"), "[(num 2) b]", c10Node{kind: "list", kids: []int{c10I2, c10Sb}}},
	c10LF2a: {vals.MakeList(2.0, "a"), "[(num 2.0) a]", c10Node{kind: "list", kids: []int{c10F2, c10Sa}}},
	c10L1b:  {vals.MakeList(1, "b"), "[(num 1) b]", c10Node{kind: "list", kids: []int{c10I1, c10Sb}}},
	c10La:   {vals.MakeList("a"), "[a]", c10Node{kind: "list", kids: []int{c10Sa}}},
	c10L0:   {vals.EmptyList, "[]", c10Node{kind: "list"}},
	c10Ma:   {vals.MakeMap("k", "a"), "[&k=a]", c10Node{kind: "map", s: "a"}},
	c10Mb:   {vals.MakeMap("k", "b"), "[&k=b]", c10Node{kind: "map", s: "b"}},
	c10F1:   {1.0, "(num 1.0)", c10Node{kind: "num", r: c10Rat("1")}},

	c10I0:     {0, "(num 0)", c10Node{kind: "num", r: c10Rat("0")}},
	c10IMax:   {math.MaxInt64, "(num 9223372036854775807)", c10Node{kind: "num", r: c10Rat("9223372036854775807")}},
	c10IMin:   {math.MinInt64, "(num -9223372036854775808)", c10Node{kind: "num", r: c10Rat("-9223372036854775808")}},
	c10I5e18:  {5000000000000000000, "(num 5000000000000000000)", c10Node{kind: "num", r: c10Rat("5000000000000000000")}},
	c10IN5e18: {-5000000000000000000, "(num -5000000000000000000)", c10Node{kind: "num", r: c10Rat("-5000000000000000000")}},
	c10B64:    {c10TwoTo64, "(num 18446744073709551616)", c10Node{kind: "num", r: c10Rat("18446744073709551616")}},
	c10F05:    {0.5, "(num 0.5)", c10Node{kind: "num", r: c10Rat("1/2")}},
	c10F25:    {2.5, "(num 2.5)", c10Node{kind: "num", r: c10Rat("5/2")}},
}

// Sub-alphabets (symbol ids).
var (
	c10AMixed = []int{c10I1, c10I2, c10F2, c10NaN, c10Sa, c10Sb, c10L2a, c10L2b}
	c10ATotal = []int{c10I1, c10I2, c10F2, c10NaN, c10Sa, c10Sb, c10L2a, c10L2b, c10Ma, c10Mb}
	c10ANum   = []int{c10I1, c10I2, c10F2, c10F1, c10NaN}
	// exact numbers whose differences overflow int64, one big int, and floats far
	// from every exact number of the pool (so that mixed comparisons are
	// unambiguous; exact/inexact pairs near 2^53 are C09's subject)
	c10AWide = []int{c10I0, c10I1, c10I2, c10IMax, c10IMin, c10I5e18, c10IN5e18, c10B64, c10F05, c10F25}
	c10AList = []int{c10L2a, c10L2b, c10LF2a, c10L1b, c10La, c10L0}
)

// c10SymOf maps a value output by order back to its symbol (-1: not one of ours).
func c10SymOf(v any) int {
	switch v := v.(type) {
	case int:
		switch v {
		case 1:
			return c10I1
		case 2:
			return c10I2
		case 0:
			return c10I0
		case math.MaxInt64:
			return c10IMax
		case math.MinInt64:
			return c10IMin
		case 5000000000000000000:
			return c10I5e18
		case -5000000000000000000:
			return c10IN5e18
		}
		return -1
	case *big.Int:
		if v.Cmp(c10TwoTo64) == 0 {
			return c10B64
		}
		return -1
	case float64:
		switch {
		case math.IsNaN(v):
			return c10NaN
		case v == 2:
			return c10F2
		case v == 1:
			return c10F1
		case v == 0.5:
			return c10F05
		case v == 2.5:
			return c10F25
		}
		return -1
	case string:
		switch v {
		case "a":
			return c10Sa
		case "b":
			return c10Sb
		}
		return -1
	}
	for i := c10L2a; i <= c10Mb; i++ {
		if v == c10Syms[i].val {
			return i
		}
	}
	return -1
}

// Comparison results: -1, 0, 1, or c10Unc (compare throws).
const c10Unc = 2

// c10DocCmp is the comparison documented for the compare builtin, written from
// builtin_fn_pred.d.elv on the symbol descriptions (not on the Go values).
// With total=true, typeRank gives the (observed) order of the types.
func c10DocCmp(a, b int, total bool, typeRank map[string]int) int {
	x, y := c10Syms[a].node, c10Syms[b].node
	if x.kind != y.kind {
		if !total {
			return c10Unc
		}
		if typeRank[x.kind] < typeRank[y.kind] {
			return -1
		}
		return 1
	}
	switch x.kind {
	case "num":
		// exact mathematical values; NaN is smaller than every number and equal to itself
		xn, yn := x.r == nil, y.r == nil
		switch {
		case xn && yn:
			return 0
		case xn:
			return -1
		case yn:
			return 1
		}
		return x.r.Cmp(y.r)
	case "str":
		return strings.Compare(x.s, y.s)
	case "list":
		for i := 0; i < len(x.kids) && i < len(y.kids); i++ {
			if o := c10DocCmp(x.kids[i], y.kids[i], total, typeRank); o != 0 {
				return o
			}
		}
		switch {
		case len(x.kids) < len(y.kids):
			return -1
		case len(x.kids) > len(y.kids):
			return 1
		}
		return 0
	default: // map: unordered type
		if x.s == y.s {
			return 0
		}
		if total {
			return 0
		}
		return c10Unc
	}
}

// The demanded order of every pair of symbols: the documented comparison
// (c10DocCmp), filled at start-up and cross-checked there against the outputs
// of the real compare builtin.
var (
	c10CmpM [c10NSym][c10NSym]int8
	c10TotM [c10NSym][c10NSym]int8
)

// Key models: symbol -> key symbol, -1 = the callback throws.
var c10KeyFirst [c10NSym]int

func init() {
	for i := range c10KeyFirst {
		c10KeyFirst[i] = -1
	}
	c10KeyFirst[c10L2a] = c10I2
	c10KeyFirst[c10L2b] = c10I2
	c10KeyFirst[c10LF2a] = c10F2
	c10KeyFirst[c10L1b] = c10I1
	c10KeyFirst[c10La] = c10Sa
	// c10L0: $x[0] is out of range -> exception
}

// ---------------------------------------------------------------------------
// Worker: one Evaler, the real builtins, callbacks.

type c10Fault struct{ what string }

func (f *c10Fault) Error() string { return "c10 injected fault: " + f.what }

// Callback behaviour at the failAt-th call.
const (
	c10FaultNone = iota
	c10FaultThrow
	c10FaultNoOutput
	c10FaultTwoOutputs
	c10FaultNonBool // less-than only
)

type c10CbState struct {
	keyCalls, ltCalls int
	keyFailAt         int
	keyFault          int
	ltFailAt          int
	ltFault           int
	ltFirstOnly       bool // compare first list elements only (big enumeration)
	sentinel          *c10Fault
}

type c10Worker struct {
	ev             *eval.Evaler
	order, compare eval.Callable
	ch             chan any
	ports          []*eval.Port
	outs           []any
	st             *c10CbState
	cb             map[string]eval.Callable
}

const c10ChanCap = 4096

var c10Pool = make(chan *c10Worker, 64)

const c10Setup = `
var c10-lt-default = {|a b| == -1 (compare $a $b) }
var c10-lt-total = {|a b| == -1 (compare &total=$true $a $b) }
var c10-lt-fail = {|a b| fail bad }
var c10-lt-first = {|a b| < $a[0] $b[0] }
var c10-key-id = {|x| put $x }
var c10-key-first = {|x| put $x[0] }
var c10-key-fail = {|x| fail bad }
`

func c10NewWorker() *c10Worker {
	w := &c10Worker{ev: eval.NewEvaler(), ch: make(chan any, c10ChanCap), cb: map[string]eval.Callable{}}
	w.st = &c10CbState{sentinel: &c10Fault{"callback"}}
	w.order = w.ev.Builtin().IndexString("order~").Get().(eval.Callable)
	w.compare = w.ev.Builtin().IndexString("compare~").Get().(eval.Callable)
	w.ports = []*eval.Port{eval.DummyInputPort, {File: eval.DevNull, Chan: w.ch}, eval.DummyOutputPort}
	if err := w.ev.Eval(parse.Source{Name: "[c10-setup]", Code: c10Setup}, eval.EvalCfg{}); err != nil {
		panic(fmt.Sprintf("c10 setup: %v", err))
	}
	for _, n := range []string{"lt-default", "lt-total", "lt-fail", "lt-first", "key-id", "key-first", "key-fail"} {
		w.cb[n] = w.ev.Global().IndexString("c10-" + n).Get().(eval.Callable)
	}
	st := w.st
	// Go callbacks with fault injection. key-go has the semantics of key-first
	// (table driven), lt-go those of the default comparator.
	w.cb["key-go"] = eval.NewGoFn("c10-key-go", func(fm *eval.Frame, v any) error {
		st.keyCalls++
		out := fm.ValueOutput()
		if st.keyCalls == st.keyFailAt {
			switch st.keyFault {
			case c10FaultThrow:
				return st.sentinel
			case c10FaultNoOutput:
				return nil
			case c10FaultTwoOutputs:
				out.Put(v)
				return out.Put(v)
			}
		}
		if id, ok := c10BigID[v]; ok {
			return out.Put(1 + id/c10BigMax)
		}
		s := c10SymOf(v)
		if s < 0 || c10KeyFirst[s] < 0 {
			return &c10Fault{"no first element"}
		}
		return out.Put(c10Syms[c10KeyFirst[s]].val)
	})
	w.cb["lt-go"] = eval.NewGoFn("c10-lt-go", func(fm *eval.Frame, a, b any) error {
		st.ltCalls++
		out := fm.ValueOutput()
		if st.ltCalls == st.ltFailAt {
			switch st.ltFault {
			case c10FaultThrow:
				return st.sentinel
			case c10FaultNoOutput:
				return nil
			case c10FaultTwoOutputs:
				out.Put(true)
				return out.Put(false)
			case c10FaultNonBool:
				return out.Put("x")
			}
		}
		if st.ltFirstOnly {
			bigKey := func(v any) int {
				if k, ok := v.(int); ok { // already a key (&key given as well)
					return k
				}
				return 1 + c10BigID[v]/c10BigMax
			}
			return out.Put(bigKey(a) < bigKey(b))
		}
		o := vals.Cmp(a, b)
		if o == vals.CmpUncomparable {
			return eval.ErrUncomparable
		}
		return out.Put(o == vals.CmpLess)
	})
	return w
}

func c10Get() *c10Worker {
	select {
	case w := <-c10Pool:
		return w
	default:
		return c10NewWorker()
	}
}

func c10Put(w *c10Worker) {
	select {
	case c10Pool <- w:
	default:
	}
}

type c10Res struct {
	outs  []any
	err   error
	panic string
}

func (w *c10Worker) drain() []any {
	w.outs = w.outs[:0]
	for {
		select {
		case v := <-w.ch:
			w.outs = append(w.outs, v)
			continue
		default:
		}
		return w.outs
	}
}

// call runs the real order builtin. If viaChan, the inputs are supplied on the
// value channel of the input port, otherwise as a list argument.
func (w *c10Worker) call(input []any, viaChan bool, opts map[string]any) c10Res {
	var r c10Res
	w.st.keyCalls, w.st.ltCalls = 0, 0
	ports := w.ports
	var args []any
	if viaChan {
		in := make(chan any, len(input))
		for _, v := range input {
			in <- v
		}
		close(in)
		ports = []*eval.Port{{File: eval.DevNull, Chan: in}, w.ports[1], w.ports[2]}
	} else {
		args = []any{vals.MakeListSlice(input)}
	}
	r.panic = vk.Try(func() {
		r.err = w.ev.Call(w.order, eval.CallCfg{Args: args, Opts: opts}, eval.EvalCfg{Ports: ports})
	})
	r.outs = w.drain()
	return r
}

// realCompare runs the real compare builtin.
func (w *c10Worker) realCompare(a, b any, total bool) int {
	opts := map[string]any{}
	if total {
		opts["total"] = true
	}
	err := w.ev.Call(w.compare, eval.CallCfg{Args: []any{a, b}, Opts: opts}, eval.EvalCfg{Ports: w.ports})
	outs := w.drain()
	if err != nil {
		return c10Unc
	}
	if len(outs) != 1 {
		panic(fmt.Sprintf("compare output %d values", len(outs)))
	}
	return outs[0].(int)
}

func c10Reason(err error) error {
	for {
		exc, ok := err.(eval.Exception)
		if !ok {
			return err
		}
		err = exc.Reason()
	}
}

// ---------------------------------------------------------------------------
// Configurations.

type c10Cfg struct {
	name    string // class / message name
	optsKey string // option names only, used in violation keys
	reverse bool
	total   bool
	key     string // "", "key-id", "key-first", "key-go", "key-fail"
	lt      string // "", "lt-default", "lt-total", "lt-fail", "lt-go"
}

func c10MkCfg(reverse, total bool, key, lt string) *c10Cfg {
	var on, ok []string
	if reverse {
		on = append(on, "&reverse")
		ok = append(ok, "reverse")
	}
	if total {
		on = append(on, "&total")
		ok = append(ok, "total")
	}
	if key != "" {
		on = append(on, "&key=$c10-"+key)
		ok = append(ok, "key")
	}
	if lt != "" {
		on = append(on, "&less-than=$c10-"+lt)
		ok = append(ok, "less-than")
	}
	cfg := &c10Cfg{name: strings.Join(on, " "), optsKey: strings.Join(ok, "+"), reverse: reverse, total: total, key: key, lt: lt}
	if cfg.name == "" {
		cfg.name, cfg.optsKey = "(no options)", "default"
	}
	return cfg
}

func (w *c10Worker) opts(cfg *c10Cfg) map[string]any {
	m := map[string]any{}
	if cfg.reverse {
		m["reverse"] = true
	}
	if cfg.total {
		m["total"] = true
	}
	if cfg.key != "" {
		m["key"] = w.cb[cfg.key]
	}
	if cfg.lt != "" {
		m["less-than"] = w.cb[cfg.lt]
	}
	return m
}

func c10Render(cfg *c10Cfg, ids []int, viaChan bool) string {
	var sb strings.Builder
	for i, id := range ids {
		if i > 0 {
			sb.WriteByte(' ')
		}
		sb.WriteString(c10Syms[id].repr)
	}
	o := ""
	if cfg.name != "(no options)" {
		o = " " + cfg.name
	}
	if viaChan {
		return "put " + sb.String() + " | order" + o
	}
	return "order" + o + " [" + sb.String() + "]"
}

func c10RenderIDs(ids []int) string {
	var sb strings.Builder
	sb.WriteByte('[')
	for i, id := range ids {
		if i > 0 {
			sb.WriteByte(' ')
		}
		if id < 0 {
			sb.WriteString("<foreign value>")
		} else {
			sb.WriteString(c10Syms[id].repr)
		}
	}
	sb.WriteByte(']')
	return sb.String()
}

// c10Model is what the documentation demands for one call.
type c10Model struct {
	throw string // "" or the cause of the demanded exception
	want  []int  // demanded output (symbol ids) when throw == ""
	keys  []int  // key symbol per input position
	m     *[c10NSym][c10NSym]int8
}

func c10Expect(cfg *c10Cfg, ids []int) c10Model {
	var mo c10Model
	if cfg.total && cfg.lt != "" {
		mo.throw = "total-and-less-than"
		return mo
	}
	mo.keys = make([]int, len(ids))
	for i, id := range ids {
		switch cfg.key {
		case "", "key-id":
			mo.keys[i] = id
		case "key-first", "key-go":
			mo.keys[i] = c10KeyFirst[id]
		case "key-fail":
			mo.keys[i] = -1
		}
		if mo.keys[i] < 0 {
			mo.throw = "key-callback"
			return mo
		}
	}
	mo.m = &c10CmpM
	if cfg.total || cfg.lt == "lt-total" {
		mo.m = &c10TotM
	}
	n := len(ids)
	if cfg.lt == "lt-fail" {
		if n >= 2 {
			mo.throw = "less-than-callback"
			return mo
		}
	} else {
		for i := 0; i < n; i++ {
			for j := i + 1; j < n; j++ {
				if mo.m[mo.keys[i]][mo.keys[j]] == c10Unc {
					mo.throw = "uncomparable"
					return mo
				}
			}
		}
	}
	// The unique stable sorted permutation: the position of element i is the
	// number of elements that must come before it.
	mo.want = make([]int, n)
	for i := 0; i < n; i++ {
		pos := 0
		for j := 0; j < n; j++ {
			if j == i {
				continue
			}
			o := int8(0)
			if cfg.lt != "lt-fail" {
				o = mo.m[mo.keys[j]][mo.keys[i]]
			}
			if cfg.reverse {
				o = -o
			}
			if o < 0 || (o == 0 && j < i) {
				pos++
			}
		}
		mo.want[pos] = ids[i]
	}
	return mo
}

func c10KeyOf(cfg *c10Cfg, id int) int {
	switch cfg.key {
	case "key-first", "key-go":
		return c10KeyFirst[id]
	}
	return id
}

// judge compares one result with the model and reports; returns the outcome tag.
func c10Judge(c *vk.Ctx, cfg *c10Cfg, ids []int, viaChan bool, mo c10Model, r c10Res, extra string) string {
	desc := c10Render(cfg, ids, viaChan) + extra
	if r.panic != "" {
		c.Violate("panic:"+vk.PanicSite(r.panic), fmt.Sprintf("%s panicked: %s", desc, r.panic), desc)
		return "panic"
	}
	got := make([]int, len(r.outs))
	for i, v := range r.outs {
		got[i] = c10SymOf(v)
	}
	if mo.throw != "" {
		if r.err == nil {
			c.Violate("no-throw:"+mo.throw, fmt.Sprintf("%s: must throw (%s) but succeeded and output %s", desc, mo.throw, c10RenderIDs(got)), desc)
			return "throw:" + mo.throw
		}
		if len(got) != 0 {
			c.Violate("output-before-throw:"+mo.throw, fmt.Sprintf("%s: threw %q but had already output %s", desc, r.err, c10RenderIDs(got)), desc)
		}
		return "throw:" + mo.throw
	}
	if r.err != nil {
		c.Violate("unexpected-throw:"+cfg.optsKey, fmt.Sprintf("%s: threw %q (and output %s), want %s", desc, r.err, c10RenderIDs(got), c10RenderIDs(mo.want)), desc)
		return "ok"
	}
	same := len(got) == len(mo.want)
	for i := 0; same && i < len(got); i++ {
		same = got[i] == mo.want[i]
	}
	if same {
		return "ok"
	}
	// classify
	a, b := append([]int{}, got...), append([]int{}, ids...)
	sort.Ints(a)
	sort.Ints(b)
	perm := len(a) == len(b)
	for i := 0; perm && i < len(a); i++ {
		perm = a[i] == b[i]
	}
	kind := "unstable"
	if !perm {
		kind = "not-permutation"
	} else if cfg.lt != "lt-fail" {
		for i := 0; i+1 < len(got); i++ {
			o := mo.m[c10KeyOf(cfg, got[i+1])][c10KeyOf(cfg, got[i])]
			if cfg.reverse {
				o = -o
			}
			if o < 0 {
				kind = "not-sorted"
			}
		}
	}
	c.Violate(kind+":"+cfg.optsKey, fmt.Sprintf("%s: output %s, want %s", desc, c10RenderIDs(got), c10RenderIDs(mo.want)), desc)
	return "ok"
}

// shape describes how much sorting work the case needed (for class keys).
func c10Shape(ids []int, mo c10Model) string {
	if mo.throw != "" {
		return ""
	}
	moved, ties := 0, 0
	for i := range ids {
		if ids[i] != mo.want[i] {
			moved++
		}
	}
	for i := 0; i < len(ids); i++ {
		for j := i + 1; j < len(ids); j++ {
			if mo.m[mo.keys[i]][mo.keys[j]] == 0 && ids[i] != ids[j] {
				ties++
			}
		}
	}
	if ties > 3 {
		ties = 3
	}
	return fmt.Sprintf("/moved%d/distinguishable-ties%d", moved, ties)
}

func c10Map(alpha []int, idx []int, buf []int) []int {
	buf = buf[:0]
	for _, i := range idx {
		buf = append(buf, alpha[i])
	}
	return buf
}

func c10Vals(ids []int) []any {
	vs := make([]any, len(ids))
	for i, id := range ids {
		vs[i] = c10Syms[id].val
	}
	return vs
}

// c10Small enumerates every sequence of <= maxLen symbols of alpha and runs
// every configuration on it.
func c10Small(c *vk.Ctx, group string, alpha []int, maxLen int, cfgs []*c10Cfg, viaChan bool) {
	c.EnumSeqs(len(alpha), maxLen, func(l *vk.Local, idx []int) {
		w := c10Get()
		defer c10Put(w)
		ids := c10Map(alpha, idx, make([]int, 0, 8))
		input := c10Vals(ids)
		for _, cfg := range cfgs {
			mo := c10Expect(cfg, ids)
			r := w.call(input, viaChan, w.opts(cfg))
			out := c10Judge(c, cfg, ids, viaChan, mo, r, "")
			l.Case(fmt.Sprintf("%s|%s|n%d|%s%s", group, cfg.name, len(ids), out, c10Shape(ids, mo)))
		}
	})
}

// c10Faults: for every sequence, and every k up to the number of callback calls
// of the undisturbed run, the k-th call of the callback misbehaves.
func c10Faults(c *vk.Ctx, group string, alpha []int, maxLen int, cfgs []*c10Cfg) {
	var notJudged int64
	var mu sync.Mutex
	c.EnumSeqs(len(alpha), maxLen, func(l *vk.Local, idx []int) {
		w := c10Get()
		defer c10Put(w)
		ids := c10Map(alpha, idx, make([]int, 0, 8))
		input := c10Vals(ids)
		var nj int64
		for _, cfg := range cfgs {
			st := w.st
			st.keyFailAt, st.ltFailAt = 0, 0
			opts := w.opts(cfg)
			mo := c10Expect(cfg, ids)
			r := w.call(input, false, opts)
			out := c10Judge(c, cfg, ids, false, mo, r, " (Go callbacks, undisturbed)")
			l.Case(fmt.Sprintf("%s|%s|n%d|undisturbed|%s", group, cfg.name, len(ids), out))
			keyCalls, ltCalls := st.keyCalls, st.ltCalls
			if cfg.key == "key-go" {
				// the key callback must be called once per element (up to the first failure)
				wantCalls := len(ids)
				for i, id := range ids {
					if c10KeyFirst[id] < 0 {
						wantCalls = i + 1
						break
					}
				}
				if r.panic == "" && keyCalls != wantCalls && !(cfg.total && cfg.lt != "") {
					c.Violate("key-call-count", fmt.Sprintf("%s: &key callback called %d times, want %d (once for each element)", c10Render(cfg, ids, false), keyCalls, wantCalls), c10Render(cfg, ids, false))
				}
			}
			type site struct {
				isKey bool
				calls int
			}
			var sites []site
			if cfg.key == "key-go" {
				sites = append(sites, site{true, keyCalls})
			}
			if cfg.lt == "lt-go" {
				sites = append(sites, site{false, ltCalls})
			}
			for _, s := range sites {
				faults := []int{c10FaultThrow, c10FaultNoOutput, c10FaultTwoOutputs}
				if !s.isKey {
					faults = append(faults, c10FaultNonBool)
				}
				for _, f := range faults {
					for k := 1; k <= s.calls; k++ {
						st.keyFailAt, st.ltFailAt = 0, 0
						what := "less-than"
						if s.isKey {
							st.keyFailAt, st.keyFault = k, f
							what = "key"
						} else {
							st.ltFailAt, st.ltFault = k, f
						}
						fname := [...]string{"", "throws", "outputs nothing", "outputs two values", "outputs a string"}[f]
						extra := fmt.Sprintf(" (Go callbacks; call #%d of the &%s callback %s)", k, what, fname)
						r := w.call(input, false, opts)
						desc := c10Render(cfg, ids, false) + extra
						tag := ""
						switch {
						case r.panic != "":
							c.Violate("panic:"+vk.PanicSite(r.panic), fmt.Sprintf("%s panicked: %s", desc, r.panic), desc)
							tag = "panic"
						case f == c10FaultThrow:
							fm := c10Model{throw: what + "-callback"}
							tag = c10Judge(c, cfg, ids, false, fm, r, extra)
							if r.err != nil && c10Reason(r.err) != error(st.sentinel) {
								c.Violate("wrong-exception:"+what+"-callback", fmt.Sprintf("%s: threw %q instead of rethrowing the callback's exception", desc, r.err), desc)
							}
						default:
							// The documentation says what the callback must output but not
							// what happens otherwise: only atomicity and permutation are judged.
							nj++
							if r.err != nil {
								tag = "bad-output-throws"
								if len(r.outs) != 0 {
									c.Violate("output-before-throw:bad-"+what+"-output", fmt.Sprintf("%s: threw %q but had already output %d values", desc, r.err, len(r.outs)), desc)
								}
							} else {
								tag = "bad-output-accepted"
								got := make([]int, len(r.outs))
								for i, v := range r.outs {
									got[i] = c10SymOf(v)
								}
								a, b := append([]int{}, got...), append([]int{}, ids...)
								sort.Ints(a)
								sort.Ints(b)
								if fmt.Sprint(a) != fmt.Sprint(b) {
									c.Violate("not-permutation:bad-"+what+"-output", fmt.Sprintf("%s: output %s is not a permutation of the input", desc, c10RenderIDs(got)), desc)
								}
							}
						}
						kb := k
						if kb > 6 {
							kb = 6
						}
						l.Case(fmt.Sprintf("%s|%s|n%d|%s#%d %s|%s", group, cfg.name, len(ids), what, kb, fname, tag))
					}
				}
			}
			st.keyFailAt, st.ltFailAt = 0, 0
		}
		mu.Lock()
		notJudged += nj
		mu.Unlock()
	})
	c.Add("not_judged_whether_bad_callback_output_throws", notJudged)
}

// ---------------------------------------------------------------------------
// Long sequences with binary keys and unique, observable identity tags: the
// element at position p with key k is the list [(num 1+k) t6 .. t0] where the
// t_i spell p in binary as (num 2) / (num 2.0). All tags compare equal, so two
// elements compare equal iff their keys are equal, yet all are distinguishable.

const c10BigMax = 128

var (
	c10BigElem [2][c10BigMax]any
	c10BigID   = map[any]int{} // read-only after init
)

func init() {
	for k := 0; k < 2; k++ {
		for p := 0; p < c10BigMax; p++ {
			vs := []any{1 + k}
			for b := 6; b >= 0; b-- {
				if p>>b&1 == 1 {
					vs = append(vs, 2.0)
				} else {
					vs = append(vs, 2)
				}
			}
			c10BigElem[k][p] = vals.MakeListSlice(vs)
			c10BigID[c10BigElem[k][p]] = k*c10BigMax + p
		}
	}
}

func c10BitString(n int, mask uint64) string {
	b := make([]byte, n)
	for i := 0; i < n; i++ {
		b[i] = '1' + byte(mask>>i&1)
	}
	return string(b)
}

var c10PopClass [65]string

func init() {
	for i := range c10PopClass {
		c10PopClass[i] = fmt.Sprintf("ones%d", i)
	}
}

// c10BigCase sorts the sequence (bit i of mask = key of position i).
func (w *c10Worker) bigCase(c *vk.Ctx, cfg *c10Cfg, opts map[string]any, n int, mask uint64, input []any, want, got []int) string {
	for i := 0; i < n; i++ {
		input[i] = c10BigElem[mask>>i&1][i]
	}
	w.st.ltFirstOnly = true
	r := w.call(input[:n], false, opts)
	w.st.ltFirstOnly = false
	desc := func() string {
		return fmt.Sprintf("order %s on %d elements [(num k_i) tag_i] with keys k = %s (distinct tags that compare equal)", cfg.name, n, c10BitString(n, mask))
	}
	if r.panic != "" {
		c.Violate("panic:"+vk.PanicSite(r.panic), desc()+" panicked: "+r.panic, desc())
		return "panic"
	}
	if r.err != nil {
		c.Violate("unexpected-throw:"+cfg.optsKey, fmt.Sprintf("%s: threw %q", desc(), r.err), desc())
		return "throw"
	}
	// demanded: keys ascending (descending with &reverse), positions ascending within a key
	want = want[:0]
	first := uint64(0)
	if cfg.reverse {
		first = 1
	}
	for pass := uint64(0); pass < 2; pass++ {
		k := first ^ pass
		for i := 0; i < n; i++ {
			if mask>>i&1 == k {
				want = append(want, int(k)*c10BigMax+i)
			}
		}
	}
	got = got[:0]
	for _, v := range r.outs {
		id, ok := c10BigID[v]
		if !ok {
			id = -1
		}
		got = append(got, id)
	}
	same := len(got) == len(want)
	for i := 0; same && i < len(got); i++ {
		same = got[i] == want[i]
	}
	if same {
		return "ok"
	}
	a, b := append([]int{}, got...), append([]int{}, want...)
	sort.Ints(a)
	sort.Ints(b)
	kind := "unstable"
	if fmt.Sprint(a) != fmt.Sprint(b) {
		kind = "not-permutation"
	} else {
		for i := 0; i+1 < len(got); i++ {
			ka, kb := got[i]/c10BigMax, got[i+1]/c10BigMax
			if (!cfg.reverse && kb < ka) || (cfg.reverse && kb > ka) {
				kind = "not-sorted"
			}
		}
	}
	show := func(ids []int) string {
		var sb strings.Builder
		for i, id := range ids {
			if i > 0 {
				sb.WriteByte(' ')
			}
			if id < 0 {
				sb.WriteString("?")
			} else {
				fmt.Fprintf(&sb, "%d@%d", 1+id/c10BigMax, id%c10BigMax)
			}
		}
		return sb.String()
	}
	c.Violate(kind+":"+cfg.optsKey, fmt.Sprintf("%s: output (key@input position) %s, want %s", desc(), show(got), show(want)), desc())
	return "wrong"
}

// c10BigMasks runs cfgs on every mask in masks(n) for each n.
func c10Big(c *vk.Ctx, group string, ns []int, maxOnes int, cfgs []*c10Cfg) {
	for _, n := range ns {
		n := n
		const shardBits = 10
		nsh := 1 << shardBits
		c.Parallel(nsh, func(l *vk.Local, sh int) {
			if c.TimeUp() {
				c.Capped("time budget reached in " + group)
				return
			}
			w := c10Get()
			defer c10Put(w)
			c.Watch(l)
			optss := make([]map[string]any, len(cfgs))
			for i, cfg := range cfgs {
				optss[i] = w.opts(cfg)
			}
			input := make([]any, n)
			want, got := make([]int, 0, n), make([]int, 0, n)
			lowBits := n - shardBits
			for lo := uint64(0); lo < 1<<lowBits; lo++ {
				mask := uint64(sh)<<lowBits | lo
				ones := bits.OnesCount64(mask)
				if maxOnes >= 0 && ones > maxOnes && n-ones > maxOnes {
					continue
				}
				for i, cfg := range cfgs {
					l.Begin(mask)
					out := w.bigCase(c, cfg, optss[i], n, mask, input, want, got)
					l.End()
					l.Case(group + "|" + cfg.name + "|" + c10PopClass[ones] + "|" + out)
				}
			}
		})
	}
}

// c10Runs: every key sequence of length n that consists of at most maxRuns runs.
func c10Runs(c *vk.Ctx, group string, ns []int, maxRuns int, cfgs []*c10Cfg) {
	type cs struct {
		n    int
		mask uint64
		runs int
	}
	var cases []cs
	for _, n := range ns {
		// choose r-1 cut points 0 < c1 < .. < n, and the key of the first run
		var rec func(start, runs int, cur uint64, bit uint64)
		rec = func(start, runs int, cur uint64, bit uint64) {
			// the current run extends from start to end (exclusive), for every end
			for end := start + 1; end <= n; end++ {
				m := cur
				if bit == 1 {
					m |= (uint64(1)<<uint(end-start) - 1) << uint(start)
				}
				if end == n {
					cases = append(cases, cs{n, m, runs})
				} else if runs < maxRuns {
					rec(end, runs+1, m, bit^1)
				}
			}
		}
		rec(0, 1, 0, 0)
		rec(0, 1, 0, 1)
	}
	c.Parallel(len(cases), func(l *vk.Local, i int) {
		if c.TimeUp() {
			c.Capped("time budget reached in " + group)
			return
		}
		w := c10Get()
		defer c10Put(w)
		k := cases[i]
		input := make([]any, k.n)
		for _, cfg := range cfgs {
			out := w.bigCase(c, cfg, w.opts(cfg), k.n, k.mask, input, nil, nil)
			l.Case(fmt.Sprintf("%s|%s|n%d|runs%d|%s", group, cfg.name, k.n/8*8, k.runs, out))
		}
	})
}

// c10BigFaults: on a few long sequences, the k-th less-than call throws, for every k.
func c10BigFaults(c *vk.Ctx, ns []int, cfgs []*c10Cfg) {
	type cs struct {
		n    int
		mask uint64
		cfg  *c10Cfg
	}
	var cases []cs
	for _, n := range ns {
		alt := uint64(0)
		for i := 0; i < n; i += 2 {
			alt |= 1 << uint(i)
		}
		full := uint64(1)<<uint(n) - 1
		half := uint64(1)<<uint(n/2) - 1
		for _, m := range []uint64{0, alt, alt ^ full, half, half ^ full} {
			for _, cfg := range cfgs {
				cases = append(cases, cs{n, m, cfg})
			}
		}
	}
	c.Parallel(len(cases), func(l *vk.Local, i int) {
		w := c10Get()
		defer c10Put(w)
		k := cases[i]
		st := w.st
		st.keyFailAt, st.ltFailAt = 0, 0
		opts := w.opts(k.cfg)
		input := make([]any, k.n)
		out := w.bigCase(c, k.cfg, opts, k.n, k.mask, input, nil, nil)
		l.Case(fmt.Sprintf("bigfault|%s|n%d|undisturbed|%s", k.cfg.name, k.n, out))
		keyCalls, ltCalls := st.keyCalls, st.ltCalls
		if k.cfg.key == "key-go" && keyCalls != k.n {
			c.Violate("key-call-count", fmt.Sprintf("order %s on %d elements: &key callback called %d times", k.cfg.name, k.n, keyCalls), k.n)
		}
		for _, isKey := range []bool{true, false} {
			calls := ltCalls
			what := "less-than"
			if isKey {
				calls, what = keyCalls, "key"
			}
			if (isKey && k.cfg.key != "key-go") || (!isKey && k.cfg.lt != "lt-go") {
				continue
			}
			for f := 1; f <= calls; f++ {
				st.keyFailAt, st.ltFailAt = 0, 0
				if isKey {
					st.keyFailAt, st.keyFault = f, c10FaultThrow
				} else {
					st.ltFailAt, st.ltFault = f, c10FaultThrow
				}
				for j := 0; j < k.n; j++ {
					input[j] = c10BigElem[k.mask>>uint(j)&1][j]
				}
				st.ltFirstOnly = true
				r := w.call(input, false, opts)
				st.ltFirstOnly = false
				desc := fmt.Sprintf("order %s on %d elements with keys %s; call #%d of the &%s callback throws", k.cfg.name, k.n, c10BitString(k.n, k.mask), f, what)
				switch {
				case r.panic != "":
					c.Violate("panic:"+vk.PanicSite(r.panic), desc+" panicked: "+r.panic, desc)
				case r.err == nil:
					c.Violate("no-throw:"+what+"-callback", fmt.Sprintf("%s: must throw but succeeded with %d outputs", desc, len(r.outs)), desc)
				default:
					if len(r.outs) != 0 {
						c.Violate("output-before-throw:"+what+"-callback", fmt.Sprintf("%s: threw %q but had already output %d values", desc, r.err, len(r.outs)), desc)
					}
					if c10Reason(r.err) != error(st.sentinel) {
						c.Violate("wrong-exception:"+what+"-callback", fmt.Sprintf("%s: threw %q instead of rethrowing the callback's exception", desc, r.err), desc)
					}
				}
				fb := f
				if fb > 40 {
					fb = 40 + fb/20
				}
				l.Case(fmt.Sprintf("bigfault|%s|n%d|%s#%d throws", k.cfg.name, k.n, what, fb))
			}
		}
		st.keyFailAt, st.ltFailAt = 0, 0
	})
}

// c10Matrices fills the comparison matrices from the real compare builtin and
// checks them against the documented comparison.
func c10Matrices(c *vk.Ctx) {
	w := c10Get()
	defer c10Put(w)
	var realCmp, realTot [c10NSym][c10NSym]int8
	for i := 0; i < c10NSym; i++ {
		for j := 0; j < c10NSym; j++ {
			realCmp[i][j] = int8(w.realCompare(c10Syms[i].val, c10Syms[j].val, false))
			realTot[i][j] = int8(w.realCompare(c10Syms[i].val, c10Syms[j].val, true))
		}
	}
	// observed order of the types under &total (unspecified but consistent)
	reps := map[string]int{"num": c10I1, "str": c10Sa, "list": c10L0, "map": c10Ma}
	rank := map[string]int{}
	for k, i := range reps {
		for _, j := range reps {
			if realTot[j][i] < 0 {
				rank[k]++
			}
		}
	}
	for i := 0; i < c10NSym; i++ {
		for j := 0; j < c10NSym; j++ {
			c10CmpM[i][j] = int8(c10DocCmp(i, j, false, nil))
			c10TotM[i][j] = int8(c10DocCmp(i, j, true, rank))
			if realCmp[i][j] != c10CmpM[i][j] {
				c.Violate("compare-disagrees-with-doc", fmt.Sprintf("compare %s %s gives %d, documented %d (2 = exception)", c10Syms[i].repr, c10Syms[j].repr, realCmp[i][j], c10CmpM[i][j]), nil)
			}
			if realTot[i][j] != c10TotM[i][j] {
				c.Violate("compare-total-disagrees-with-doc", fmt.Sprintf("compare &total %s %s gives %d, documented %d given the observed type order %v", c10Syms[i].repr, c10Syms[j].repr, realTot[i][j], c10TotM[i][j], rank), nil)
			}
			c.Case(fmt.Sprintf("compare-matrix|%d|%d", c10CmpM[i][j], c10TotM[i][j]))
		}
	}
	// the tagged elements of the long sequences: equal iff same key
	for _, total := range []bool{false, true} {
		for k1 := 0; k1 < 2; k1++ {
			for k2 := 0; k2 < 2; k2++ {
				for p := 0; p < c10BigMax; p += 5 {
					for q := 0; q < c10BigMax; q += 3 {
						want := 0
						if k1 < k2 {
							want = -1
						} else if k1 > k2 {
							want = 1
						}
						if got := w.realCompare(c10BigElem[k1][p], c10BigElem[k2][q], total); got != want {
							c.Violate("compare-disagrees-with-doc", fmt.Sprintf("compare of tagged elements key %d tag %d / key %d tag %d gives %d, want %d", k1+1, p, k2+1, q, got, want), nil)
						}
					}
				}
			}
		}
	}
}

func TestVerifC10(t *testing.T) {
	vk.Run(t, "C10", "exploration", func(c *vk.Ctx) {
		th := c.Thorough()
		c.Rule("(1) every sequence of values up to a length bound over five small alphabets (mixed kinds, mixed kinds + maps, numbers, far-apart machine ints with a big int and floats, lists), length-lexicographic, each run under every listed option combination of order, with inputs as a list argument and (smaller bound) on the input channel; (2) for every such sequence (smaller bound) and every k, the k-th call of a Go &key / &less-than callback throws or outputs the wrong number/kind of values; (3) every binary key sequence of length 21..23 (quick: 21) and every key sequence of <=4 runs for lengths up to 64, on elements with unique observable tags that compare equal. class = (group, options, length, outcome, number of displaced elements, number of distinguishable ties) resp. (options, number of second-key elements / runs)")
		c.Assume("the demanded order of every pair is the documented comparison of the compare builtin (numbers by exact mathematical value, NaN smallest; strings by bytes; lists lexicographically; other pairs uncomparable / by the observed type order under &total), cross-checked at start-up against the outputs of the real compare builtin on the alphabet; compare's laws on other values are C09's subject",
			"ties under &reverse are demanded to keep input order (stable descending sort), as the property statement says",
			"output values are identified by observable identity: all alphabet symbols and all tags have different representations")

		phases := map[string]float64{}
		last := time.Now()
		phase := func(name string) {
			phases[name] = math.Round(time.Since(last).Seconds()*10) / 10
			last = time.Now()
		}
		defer func() { c.Set("phase_wall_s", phases) }()
		c10Matrices(c)
		phase("compare-matrices")

		plain := []*c10Cfg{c10MkCfg(false, false, "", ""), c10MkCfg(true, false, "", ""), c10MkCfg(false, true, "", ""), c10MkCfg(true, true, "", "")}
		// callbacks written in elvish
		cbMixed := []*c10Cfg{
			c10MkCfg(false, false, "", "lt-default"), c10MkCfg(true, false, "", "lt-default"),
			c10MkCfg(false, false, "", "lt-total"), c10MkCfg(true, false, "", "lt-total"),
			c10MkCfg(false, false, "key-id", ""), c10MkCfg(true, false, "key-id", ""),
			c10MkCfg(false, true, "key-id", ""), c10MkCfg(false, false, "key-id", "lt-default"),
			c10MkCfg(true, false, "key-id", "lt-total"),
			c10MkCfg(false, true, "", "lt-default"), c10MkCfg(true, true, "key-id", "lt-total"),
			c10MkCfg(false, false, "", "lt-fail"), c10MkCfg(false, false, "key-fail", ""),
		}
		cbList := []*c10Cfg{
			c10MkCfg(false, false, "key-first", ""), c10MkCfg(true, false, "key-first", ""),
			c10MkCfg(false, true, "key-first", ""), c10MkCfg(true, true, "key-first", ""),
			c10MkCfg(false, false, "key-first", "lt-default"), c10MkCfg(true, false, "key-first", "lt-default"),
			c10MkCfg(false, false, "key-first", "lt-total"),
			c10MkCfg(false, false, "key-first", "lt-fail"),
		}
		goCfgs := []*c10Cfg{
			c10MkCfg(false, false, "", "lt-go"), c10MkCfg(true, false, "", "lt-go"),
		}
		goListCfgs := []*c10Cfg{
			c10MkCfg(false, false, "key-go", ""), c10MkCfg(true, false, "key-go", "lt-go"), c10MkCfg(false, true, "key-go", ""),
		}

		nPlain := vk.Pick(c, 5, 6)
		c10Small(c, "mixed+maps", c10ATotal, nPlain, plain, false)
		phase("mixed+maps")
		c10Small(c, "numbers", c10ANum, vk.Pick(c, 7, 8), plain, false)
		phase("numbers")
		c10Small(c, "lists", c10AList, vk.Pick(c, 6, 7), plain, false)
		phase("lists")
		c10Small(c, "wide-numbers", c10AWide, vk.Pick(c, 4, 5), plain, false)
		c10Small(c, "wide-numbers/input-channel", c10AWide, vk.Pick(c, 3, 4), plain, true)
		c10Small(c, "wide-numbers/elvish-callbacks", c10AWide, vk.Pick(c, 3, 4), cbMixed, false)
		phase("wide-numbers")
		c10Small(c, "mixed+maps/input-channel", c10ATotal, vk.Pick(c, 4, 5), plain, true)
		phase("mixed+maps/input-channel")
		c10Small(c, "mixed/elvish-callbacks", c10AMixed, vk.Pick(c, 4, 5), cbMixed, false)
		phase("mixed/elvish-callbacks")
		c10Small(c, "lists/elvish-callbacks", c10AList, vk.Pick(c, 4, 5), cbList, false)
		phase("lists/elvish-callbacks")
		c10Faults(c, "mixed/faults", c10AMixed, vk.Pick(c, 4, 5), goCfgs)
		phase("mixed/faults")
		c10Faults(c, "lists/faults", c10AList, vk.Pick(c, 4, 5), goListCfgs)
		phase("lists/faults")

		// long sequences
		bigPlain := []*c10Cfg{c10MkCfg(false, false, "", ""), c10MkCfg(true, false, "", "")}
		bigKey := []*c10Cfg{c10MkCfg(false, false, "key-first", ""), c10MkCfg(true, false, "key-go", "")}
		bigLt := []*c10Cfg{c10MkCfg(false, false, "", "lt-first"), c10MkCfg(true, false, "key-go", "lt-go"), c10MkCfg(false, true, "", "")}
		if th {
			c10Big(c, "binary", []int{21}, -1, bigPlain)
			c10Big(c, "binary", []int{22}, 9, bigPlain)
			c10Big(c, "binary", []int{23}, 8, bigPlain)
			phase("binary")
			c10Big(c, "binary/key", []int{21}, 5, bigKey)
			phase("binary/key")
			c10Big(c, "binary/less-than", []int{21, 22}, 3, bigLt)
			phase("binary/less-than")
			ns := []int{}
			for n := 24; n <= 64; n++ {
				ns = append(ns, n)
			}
			c10Runs(c, "runs", ns, 4, bigPlain)
			phase("runs")
			c10Runs(c, "runs/key", []int{25, 40, 41, 64}, 3, bigKey)
			phase("runs/key")
		} else {
			c10Big(c, "binary", []int{21}, 6, bigPlain)
			phase("binary")
			c10Big(c, "binary/key", []int{21}, 3, bigKey)
			phase("binary/key")
			c10Big(c, "binary/less-than", []int{21}, 2, bigLt)
			phase("binary/less-than")
			c10Runs(c, "runs", []int{24, 25, 40, 41, 60, 61, 64}, 3, bigPlain)
			c10Runs(c, "runs", []int{25, 41}, 4, bigPlain)
			phase("runs")
			c10Runs(c, "runs/key", []int{25, 41}, 3, bigKey)
			phase("runs/key")
		}
		c10BigFaults(c, vk.Pick(c, []int{21, 25}, []int{21, 23, 25, 41, 45}),
			[]*c10Cfg{c10MkCfg(false, false, "", "lt-go"), c10MkCfg(true, false, "key-go", "lt-go"), c10MkCfg(false, false, "key-go", "")})
		phase("bigfaults")

		c.Sample(c10Render(plain[1], []int{c10F2, c10I2, c10I1, c10NaN}, false))
		c.Sample(c10Render(cbList[1], []int{c10L2b, c10L2a, c10L1b}, false))
		c.Sample(c10Render(plain[2], []int{c10Mb, c10Sa, c10Ma, c10I1}, true))
		c.Sample("order on 21 tagged elements with keys " + c10BitString(21, 0x15a5a5))
		c.Set("alphabets", map[string]string{"mixed": c10RenderIDs(c10AMixed), "mixed+maps": c10RenderIDs(c10ATotal), "numbers": c10RenderIDs(c10ANum), "wide-numbers": c10RenderIDs(c10AWide), "lists": c10RenderIDs(c10AList)})
	})
}
