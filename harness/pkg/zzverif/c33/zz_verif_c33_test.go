//go:build verif

// Package c33 holds the harness of property C33 (styled text stays normalised
// and keeps its content). It lives in a virtual package because it needs
// pkg/ui, pkg/ui/styledown and pkg/eval together.
package c33

import (
	"fmt"
	"sort"
	"strconv"
	"strings"
	"sync"
	"testing"
	"unicode/utf8"

	"src.elv.sh/pkg/eval"
	"src.elv.sh/pkg/parse"
	"src.elv.sh/pkg/ui"
	"src.elv.sh/pkg/ui/styledown"
	"src.elv.sh/pkg/wcwidth"
	"src.elv.sh/pkg/zzverif/vk"
)

// ---------------------------------------------------------------------------
// The model: a styled text is a sequence of cells (one byte + its style). Every
// operation is specified on cells; the normal form of a cell sequence is unique
// (maximal runs of equal style, nil when there is no cell), so "normal form" +
// "cells as specified" determines the result completely.

type c33Cell struct {
	B  byte
	St ui.Style
}

var c33SegTexts = []string{"a", "b", "好", "\n", "a\nb"}
var c33Styles = []ui.Style{{}, {Fg: ui.Red}, {Bold: true}, {Fg: ui.Red, Bold: true}}
var c33StyleWords = [][]string{nil, {"red"}, {"bold"}, {"red", "bold"}}
var c33StyleLabel = []string{"", "red", "bold", "red+bold"}

// c33Spec is a text given as segment ids; id = textIndex*4 + styleIndex.
type c33Spec []int

func c33SegOf(id int) (string, ui.Style) { return c33SegTexts[id/4], c33Styles[id%4] }

// c33AllSpecs lists every normal-form text of <= maxSegs segments, by number of
// segments and then lexicographically.
func c33AllSpecs(maxSegs int) []c33Spec {
	nseg := len(c33SegTexts) * len(c33Styles)
	out := []c33Spec{{}}
	level := []c33Spec{{}}
	for n := 1; n <= maxSegs; n++ {
		var next []c33Spec
		for _, p := range level {
			for id := 0; id < nseg; id++ {
				if len(p) > 0 && p[len(p)-1]%4 == id%4 {
					continue // same style as the neighbour: not normal
				}
				q := append(append(c33Spec{}, p...), id)
				next = append(next, q)
			}
		}
		out = append(out, next...)
		level = next
	}
	return out
}

func (s c33Spec) build() ui.Text {
	if len(s) == 0 {
		return nil
	}
	t := make(ui.Text, len(s))
	for i, id := range s {
		txt, st := c33SegOf(id)
		t[i] = &ui.Segment{Style: st, Text: txt}
	}
	return t
}

func (s c33Spec) cells() []c33Cell {
	var out []c33Cell
	for _, id := range s {
		txt, st := c33SegOf(id)
		for i := 0; i < len(txt); i++ {
			out = append(out, c33Cell{txt[i], st})
		}
	}
	return out
}

// unchanged reports whether t still is the text built from s.
func (s c33Spec) unchanged(t ui.Text) bool {
	if len(t) != len(s) || (len(s) == 0 && t != nil) {
		return false
	}
	for i, id := range s {
		txt, st := c33SegOf(id)
		if t[i] == nil || t[i].Text != txt || t[i].Style != st {
			return false
		}
	}
	return true
}

func c33Cells(t ui.Text) []c33Cell {
	var out []c33Cell
	for _, seg := range t {
		if seg == nil {
			continue
		}
		for i := 0; i < len(seg.Text); i++ {
			out = append(out, c33Cell{seg.Text[i], seg.Style})
		}
	}
	return out
}

func c33CellsEq(a, b []c33Cell) bool {
	if len(a) != len(b) {
		return false
	}
	for i := range a {
		if a[i] != b[i] {
			return false
		}
	}
	return true
}

func c33Plain(cs []c33Cell) string {
	b := make([]byte, len(cs))
	for i, c := range cs {
		b[i] = c.B
	}
	return string(b)
}

// c33Group is the normal form of a cell sequence.
func c33Group(cs []c33Cell) ui.Text {
	var t ui.Text
	for i := 0; i < len(cs); {
		j := i
		for j < len(cs) && cs[j].St == cs[i].St {
			j++
		}
		t = append(t, &ui.Segment{Style: cs[i].St, Text: c33Plain(cs[i:j])})
		i = j
	}
	return t
}

// c33Normal returns "" if t is in the documented normal form, else which
// clause is broken.
func c33Normal(t ui.Text) string {
	if t != nil && len(t) == 0 {
		return "nonnil-empty"
	}
	for _, s := range t {
		if s == nil {
			return "nil-segment"
		}
		if s.Text == "" {
			return "empty-segment"
		}
	}
	for i := 1; i < len(t); i++ {
		if t[i].Style == t[i-1].Style {
			return "adjacent-same-style"
		}
	}
	return ""
}

func c33StyleDesc(st ui.Style) string {
	var p []string
	if st.Fg != nil {
		p = append(p, "fg="+st.Fg.String())
	}
	if st.Bg != nil {
		p = append(p, "bg="+st.Bg.String())
	}
	for _, f := range []struct {
		on bool
		n  string
	}{{st.Bold, "bold"}, {st.Dim, "dim"}, {st.Italic, "italic"}, {st.Underlined, "underlined"}, {st.Blink, "blink"}, {st.Inverse, "inverse"}} {
		if f.on {
			p = append(p, f.n)
		}
	}
	if len(p) == 0 {
		return "plain"
	}
	return strings.Join(p, "+")
}

func c33Desc(t ui.Text) string {
	if t == nil {
		return "nil"
	}
	var sb strings.Builder
	sb.WriteString("Text{")
	for i, s := range t {
		if i > 0 {
			sb.WriteString(", ")
		}
		if s == nil {
			sb.WriteString("<nil segment>")
			continue
		}
		fmt.Fprintf(&sb, "%s:%q", c33StyleDesc(s.Style), s.Text)
	}
	sb.WriteString("}")
	return sb.String()
}

func c33DescList(ts []ui.Text) string {
	var p []string
	for _, t := range ts {
		p = append(p, c33Desc(t))
	}
	return "[" + strings.Join(p, " | ") + "]"
}

// ---------------------------------------------------------------------------
// Violation collector: keeps, per key, the violation with the smallest ordinal
// (ordinal = size of the case first, then enumeration index) so that the
// reported counterexample is minimal and the same on every run although cases
// are evaluated in parallel.

type c33Viol struct {
	ord int64
	msg string
}

type c33Coll struct {
	mu sync.Mutex
	m  map[string]c33Viol
}

func (k *c33Coll) report(key string, ord int64, msg func() string) {
	k.mu.Lock()
	if v, ok := k.m[key]; !ok || ord < v.ord {
		k.m[key] = c33Viol{ord, msg()}
	}
	k.mu.Unlock()
}

func (k *c33Coll) flush(c *vk.Ctx) {
	k.mu.Lock()
	defer k.mu.Unlock()
	var keys []string
	for key := range k.m {
		keys = append(keys, key)
	}
	sort.Strings(keys)
	for _, key := range keys {
		c.Violate(key, k.m[key].msg, k.m[key].msg)
	}
	k.m = map[string]c33Viol{}
}

func c33Ord(size, idx int) int64 { return int64(size)<<40 | int64(idx) }

// judge checks one produced text against the cells the operation specifies.
// It returns "" or the kind of the (first) broken clause, for class keys.
func (k *c33Coll) judge(op string, ord int64, got ui.Text, want []c33Cell, in func() string) string {
	res := ""
	if kind := c33Normal(got); kind != "" {
		res = kind
		k.report(op+":"+kind, ord, func() string {
			return fmt.Sprintf("%s = %s is not in normal form (%s); expected %s", in(), c33Desc(got), kind, c33Desc(c33Group(want)))
		})
	}
	if !c33CellsEq(c33Cells(got), want) {
		if res == "" {
			res = "content"
		}
		k.report(op+":content", ord, func() string {
			return fmt.Sprintf("%s = %s has the wrong content/styles; expected %s", in(), c33Desc(got), c33Desc(c33Group(want)))
		})
	}
	return res
}

// try runs f; a panic is a violation of its own.
func (k *c33Coll) try(op string, ord int64, in func() string, f func()) bool {
	if p := vk.Try(f); p != "" {
		k.report(op+":panic:"+vk.PanicSite(p), ord, func() string { return fmt.Sprintf("%s panicked: %s", in(), p) })
		return false
	}
	return true
}

func (k *c33Coll) mutated(op string, ord int64, s c33Spec, t ui.Text, in func() string) {
	if !s.unchanged(t) {
		k.report(op+":mutates-input", ord, func() string {
			return fmt.Sprintf("%s modified its input: now %s, was %s", in(), c33Desc(t), c33Desc(s.build()))
		})
	}
}

// ---------------------------------------------------------------------------
// Stylings with an independent model of what they do to a style (from the
// documentation of the `styled` builtin and of ui.ParseStyling).

type c33Styling struct {
	label string
	goVal ui.Styling
	name  string   // text form for ui.ParseStyling ("" = Go only)
	words []string // transformer arguments for the `styled` builtin (nil = not used there)
	model func(ui.Style) ui.Style
}

var c33Stylings = []c33Styling{
	{"green", ui.FgGreen, "green", []string{"green"}, func(s ui.Style) ui.Style { s.Fg = ui.Green; return s }},
	{"fg-red", ui.FgRed, "fg-red", []string{"fg-red"}, func(s ui.Style) ui.Style { s.Fg = ui.Red; return s }},
	{"fg-default", ui.FgDefault, "fg-default", []string{"fg-default"}, func(s ui.Style) ui.Style { s.Fg = nil; return s }},
	{"bold", ui.Bold, "bold", []string{"bold"}, func(s ui.Style) ui.Style { s.Bold = true; return s }},
	{"no-bold", ui.NoBold, "no-bold", []string{"no-bold"}, func(s ui.Style) ui.Style { s.Bold = false; return s }},
	{"toggle-bold", ui.ToggleBold, "toggle-bold", []string{"toggle-bold"}, func(s ui.Style) ui.Style { s.Bold = !s.Bold; return s }},
	{"bg-blue", ui.BgBlue, "bg-blue", []string{"bg-blue"}, func(s ui.Style) ui.Style { s.Bg = ui.Blue; return s }},
	{"inverse", ui.Inverse, "inverse", []string{"inverse"}, func(s ui.Style) ui.Style { s.Inverse = true; return s }},
	{"Reset", ui.Reset, "", nil, func(s ui.Style) ui.Style { return ui.Style{} }},
	{"red bold", ui.Stylings(ui.FgRed, ui.Bold), "red bold", []string{"red", "bold"}, func(s ui.Style) ui.Style { s.Fg = ui.Red; s.Bold = true; return s }},
	{"no-bold default", ui.Stylings(ui.NoBold, ui.FgDefault), "no-bold default", []string{"no-bold", "default"}, func(s ui.Style) ui.Style { s.Bold = false; s.Fg = nil; return s }},
}

func c33Restyle(cs []c33Cell, m func(ui.Style) ui.Style) []c33Cell {
	out := make([]c33Cell, len(cs))
	for i, c := range cs {
		out[i] = c33Cell{c.B, m(c.St)}
	}
	return out
}

// ---------------------------------------------------------------------------

func c33Strings(alpha []string, n int) []string {
	out := []string{""}
	level := []string{""}
	for i := 0; i < n; i++ {
		var next []string
		for _, p := range level {
			for _, a := range alpha {
				next = append(next, p+a)
			}
		}
		out = append(out, next...)
		level = next
	}
	return out
}

func c33PlainCells(s string, st ui.Style) []c33Cell {
	out := make([]c33Cell, len(s))
	for i := 0; i < len(s); i++ {
		out[i] = c33Cell{s[i], st}
	}
	return out
}

// op 1: construction with T and TextFromSegment.
func c33OpConstruct(c *vk.Ctx, k *c33Coll) {
	strs := c33Strings([]string{"a", "b", "好", "\n"}, 2)
	type arg struct {
		label string
		ts    []ui.Styling
		model []func(ui.Style) ui.Style
	}
	args := []arg{{label: "no styling"}}
	for _, s := range c33Stylings {
		args = append(args, arg{s.label, []ui.Styling{s.goVal}, []func(ui.Style) ui.Style{s.model}})
		if s.name != "" {
			p := ui.ParseStyling(s.name)
			if p == nil {
				k.report("ParseStyling:rejects-documented-name", 0, func() string {
					return fmt.Sprintf("ui.ParseStyling(%q) = nil", s.name)
				})
				continue
			}
			args = append(args, arg{"parsed(" + s.name + ")", []ui.Styling{p}, []func(ui.Style) ui.Style{s.model}})
		}
	}
	for _, s1 := range c33Stylings {
		for _, s2 := range c33Stylings {
			args = append(args, arg{s1.label + "," + s2.label, []ui.Styling{s1.goVal, s2.goVal}, []func(ui.Style) ui.Style{s1.model, s2.model}})
		}
	}
	c.Parallel(len(strs)*len(args), func(l *vk.Local, i int) {
		s, a := strs[i/len(args)], args[i%len(args)]
		st := ui.Style{}
		for _, m := range a.model {
			st = m(st)
		}
		in := func() string { return fmt.Sprintf("ui.T(%q, %s)", s, a.label) }
		ord := c33Ord(len(s)+len(a.ts), i)
		var got ui.Text
		if !k.try("T", ord, in, func() { got = ui.T(s, a.ts...) }) {
			l.Case("T/panic")
			return
		}
		r := k.judge("T", ord, got, c33PlainCells(s, st), in)
		l.Case(fmt.Sprintf("T/len=%d/%s/%s", utf8.RuneCountInString(s), c33StyleDesc(st), r))
	})
	// TextFromSegment
	for _, txt := range append([]string{""}, c33SegTexts...) {
		for si, st := range c33Styles {
			seg := &ui.Segment{Style: st, Text: txt}
			in := func() string { return fmt.Sprintf("ui.TextFromSegment(%s:%q)", c33StyleDesc(st), txt) }
			var got ui.Text
			ord := c33Ord(len(txt), si)
			if k.try("TextFromSegment", ord, in, func() { got = ui.TextFromSegment(seg) }) {
				r := k.judge("TextFromSegment", ord, got, c33PlainCells(txt, st), in)
				c.Case(fmt.Sprintf("TextFromSegment/empty=%v/%s", txt == "", r))
			}
		}
	}
	k.flush(c)
}

// op 2: Concat of tuples of texts.
func c33OpConcat(c *vk.Ctx, k *c33Coll, lists ...[]c33Spec) {
	n := 1
	for _, l := range lists {
		n *= len(l)
	}
	c.Parallel(n, func(l *vk.Local, i int) {
		specs := make([]c33Spec, len(lists))
		texts := make([]ui.Text, len(lists))
		var want []c33Cell
		size, nseg := 0, 0
		j := i
		for d := len(lists) - 1; d >= 0; d-- {
			specs[d] = lists[d][j%len(lists[d])]
			j /= len(lists[d])
		}
		merges := 0
		for d := range specs {
			texts[d] = specs[d].build()
			cs := specs[d].cells()
			if len(want) > 0 && len(cs) > 0 && want[len(want)-1].St == cs[0].St {
				merges++
			}
			want = append(want, cs...)
			size += len(cs)
			nseg += len(specs[d])
		}
		in := func() string { return "ui.Concat(" + strings.Trim(c33DescList(texts), "[]") + ")" }
		ord := c33Ord(nseg, i)
		var got ui.Text
		if !k.try("Concat", ord, in, func() { got = ui.Concat(texts...) }) {
			l.Case("Concat/panic")
			return
		}
		r := k.judge("Concat", ord, got, want, in)
		for d := range specs {
			k.mutated("Concat", ord, specs[d], texts[d], in)
		}
		l.Case("Concat/" + strconv.Itoa(len(lists)) + "/segs=" + strconv.Itoa(nseg) + "->" + strconv.Itoa(len(got)) + "/merges=" + strconv.Itoa(merges) + "/" + r)
	})
	k.flush(c)
}

// op 3: the Concat/RConcat methods behind the compounding syntax
// (Text+string, Text+number, Text+Segment, Text+Text, string+Text, number+Text,
// Segment+string, Segment+Segment, Segment+Text, Segment+number, string+Segment,
// number+Segment).
func c33OpCompound(c *vk.Ctx, k *c33Coll, texts []c33Spec) {
	type operand struct {
		label string
		val   func() any
		cells []c33Cell
		kind  string
	}
	var scalars, segs []operand
	for _, s := range []string{"", "a", "好", "\n"} {
		s := s
		scalars = append(scalars, operand{fmt.Sprintf("%q", s), func() any { return s }, c33PlainCells(s, ui.Style{}), "string"})
	}
	scalars = append(scalars,
		operand{"(int 7)", func() any { return 7 }, c33PlainCells("7", ui.Style{}), "number"},
		operand{"(float64 1.5)", func() any { return 1.5 }, c33PlainCells("1.5", ui.Style{}), "number"})
	for _, txt := range append([]string{""}, c33SegTexts...) {
		for _, st := range c33Styles {
			txt, st := txt, st
			segs = append(segs, operand{fmt.Sprintf("Segment(%s:%q)", c33StyleDesc(st), txt),
				func() any { return &ui.Segment{Style: st, Text: txt} }, c33PlainCells(txt, st), "segment"})
		}
	}
	var txts []operand
	for _, sp := range texts {
		sp := sp
		txts = append(txts, operand{c33Desc(sp.build()), func() any { return sp.build() }, sp.cells(), "text"})
	}
	type combo struct {
		op       string
		lhs, rhs []operand
		call     func(lhs, rhs any) (any, error)
	}
	textConcat := func(lhs, rhs any) (any, error) { return lhs.(ui.Text).Concat(rhs) }
	textRConcat := func(lhs, rhs any) (any, error) { return rhs.(ui.Text).RConcat(lhs) }
	segConcat := func(lhs, rhs any) (any, error) { return lhs.(*ui.Segment).Concat(rhs) }
	segRConcat := func(lhs, rhs any) (any, error) { return rhs.(*ui.Segment).RConcat(lhs) }
	combos := []combo{
		{"Text.Concat", txts, scalars, textConcat},
		{"Text.Concat", txts, segs, textConcat},
		{"Text.Concat", txts, txts, textConcat},
		{"Text.RConcat", scalars, txts, textRConcat},
		{"Segment.Concat", segs, scalars, segConcat},
		{"Segment.Concat", segs, segs, segConcat},
		{"Segment.Concat", segs, txts, segConcat},
		{"Segment.RConcat", scalars, segs, segRConcat},
	}
	for _, cb := range combos {
		cb := cb
		c.Parallel(len(cb.lhs)*len(cb.rhs), func(l *vk.Local, i int) {
			a, b := cb.lhs[i/len(cb.rhs)], cb.rhs[i%len(cb.rhs)]
			want := append(append([]c33Cell{}, a.cells...), b.cells...)
			in := func() string { return fmt.Sprintf("%s: %s + %s", cb.op, a.label, b.label) }
			ord := c33Ord(len(want), i)
			var got any
			var err error
			if !k.try(cb.op, ord, in, func() { got, err = cb.call(a.val(), b.val()) }) {
				l.Case(cb.op + "/panic")
				return
			}
			t, ok := got.(ui.Text)
			if err != nil || !ok {
				k.report(cb.op+":not-a-text", ord, func() string { return fmt.Sprintf("%s returned (%v, %v), expected a styled text", in(), got, err) })
				l.Case(cb.op + "/not-a-text")
				return
			}
			r := k.judge(cb.op, ord, t, want, in)
			l.Case(fmt.Sprintf("%s/%s+%s/empty=%v,%v/->%d/%s", cb.op, a.kind, b.kind, len(a.cells) == 0, len(b.cells) == 0, len(t), r))
		})
	}
	k.flush(c)
}

func c33IndexTuples(maxIdx, k int) [][]int {
	var out [][]int
	var rec func(cur []int, from int)
	rec = func(cur []int, from int) {
		if len(cur) == k {
			out = append(out, append([]int{}, cur...))
			return
		}
		for i := from; i <= maxIdx; i++ {
			rec(append(cur, i), i)
		}
	}
	rec(nil, 0)
	return out
}

// op 4: Partition at every non-decreasing tuple of <= maxK byte indices in [0,len].
func c33OpPartition(c *vk.Ctx, k *c33Coll, texts []c33Spec, maxK int) {
	tuples := map[int][][]int{} // by byte length
	c.Parallel(len(texts), func(l *vk.Local, i int) {
		sp := texts[i]
		cells := sp.cells()
		plain := c33Plain(cells)
		k.mu.Lock()
		tl, ok := tuples[len(cells)]
		if !ok {
			for n := 0; n <= maxK; n++ {
				tl = append(tl, c33IndexTuples(len(cells), n)...)
			}
			tuples[len(cells)] = tl
		}
		k.mu.Unlock()
		for j, idx := range tl {
			t := sp.build()
			in := func() string { return fmt.Sprintf("%s.Partition(%v)", c33Desc(t), idx) }
			ord := c33Ord(len(sp)*4+len(idx), i*100000+j)
			var parts []ui.Text
			if !k.try("Partition", ord, in, func() { parts = t.Partition(idx...) }) {
				l.Case("Partition/panic")
				continue
			}
			k.mutated("Partition", ord, sp, t, in)
			boundary := true
			for _, x := range idx {
				if x < len(plain) && !utf8.RuneStart(plain[x]) {
					boundary = false
				}
			}
			bad := ""
			if len(parts) != len(idx)+1 {
				bad = "count"
				k.report("Partition:count", ord, func() string {
					return fmt.Sprintf("%s returned %d parts %s, expected %d", in(), len(parts), c33DescList(parts), len(idx)+1)
				})
			} else {
				prev := 0
				for pi := range parts {
					end := len(cells)
					if pi < len(idx) {
						end = idx[pi]
					}
					in2 := func() string { return fmt.Sprintf("part %d of %s = %s", pi, in(), c33DescList(parts)) }
					if r := k.judge("Partition", ord, parts[pi], cells[prev:end], in2); r != "" {
						bad = r
					}
					prev = end
				}
			}
			// the parts concatenate back to the original
			var back ui.Text
			if k.try("Partition", ord, in, func() { back = ui.Concat(parts...) }) {
				if c33Normal(back) != "" || !c33CellsEq(c33Cells(back), cells) {
					bad = "concat-back"
					k.report("Partition:concat-back", ord, func() string {
						return fmt.Sprintf("%s = %s concatenates back to %s", in(), c33DescList(parts), c33Desc(back))
					})
				}
			}
			nonempty, dup := 0, false
			for pi, p := range parts {
				if len(p) > 0 {
					nonempty++
				}
				if pi > 0 && pi < len(idx) && idx[pi] == idx[pi-1] {
					dup = true
				}
			}
			l.Case(fmt.Sprintf("Partition/k=%d/segs=%d/nonempty=%d/dup=%v/runeboundary=%v/%s", len(idx), len(sp), nonempty, dup, boundary, bad))
		}
	})
	k.flush(c)
}

// op 5: SplitByRune.
func c33OpSplit(c *vk.Ctx, k *c33Coll, texts []c33Spec) {
	runes := []rune{'\n', 'a', '好', 'x'}
	c.Parallel(len(texts), func(l *vk.Local, i int) {
		sp := texts[i]
		cells := sp.cells()
		plain := c33Plain(cells)
		for ri, r := range runes {
			t := sp.build()
			in := func() string { return fmt.Sprintf("%s.SplitByRune(%q)", c33Desc(t), r) }
			ord := c33Ord(len(sp), i*10+ri)
			var parts []ui.Text
			if !k.try("SplitByRune", ord, in, func() { parts = t.SplitByRune(r) }) {
				l.Case("SplitByRune/panic")
				continue
			}
			k.mutated("SplitByRune", ord, sp, t, in)
			if len(sp) == 0 {
				// The documentation does not say whether splitting the empty text
				// gives no piece or one empty piece.
				for _, p := range parts {
					k.judge("SplitByRune", ord, p, nil, in)
				}
				l.Case("SplitByRune/empty-text-not-judged")
				c.Add("not_judged_split_of_empty_text", 1)
				continue
			}
			// specification: the pieces of strings.Split on the plain content, each
			// keeping the styles of its characters.
			sep := string(r)
			var want [][]c33Cell
			start := 0
			for {
				j := strings.Index(plain[start:], sep)
				if j < 0 {
					want = append(want, cells[start:])
					break
				}
				want = append(want, cells[start:start+j])
				start += j + len(sep)
			}
			bad := ""
			if len(parts) != len(want) {
				bad = "count"
				k.report("SplitByRune:count", ord, func() string {
					return fmt.Sprintf("%s returned %d pieces %s, expected %d", in(), len(parts), c33DescList(parts), len(want))
				})
			} else {
				var plains []string
				for pi := range parts {
					in2 := func() string { return fmt.Sprintf("piece %d of %s = %s", pi, in(), c33DescList(parts)) }
					if rr := k.judge("SplitByRune", ord, parts[pi], want[pi], in2); rr != "" {
						bad = rr
					}
					plains = append(plains, c33Plain(c33Cells(parts[pi])))
				}
				if strings.Join(plains, sep) != plain {
					bad = "join-back"
					k.report("SplitByRune:join-back", ord, func() string {
						return fmt.Sprintf("%s = %s joins back to %q, not %q", in(), c33DescList(parts), strings.Join(plains, sep), plain)
					})
				}
			}
			empties := 0
			for _, p := range want {
				if len(p) == 0 {
					empties++
				}
			}
			l.Case(fmt.Sprintf("SplitByRune/%q/segs=%d/pieces=%d/empty=%d/%s", r, len(sp), len(want), empties, bad))
		}
	})
	k.flush(c)
}

// op 6: TrimWcwidth: "the largest prefix of t that does not exceed the given
// visual width".
func c33OpTrim(c *vk.Ctx, k *c33Coll, texts []c33Spec) {
	c.Parallel(len(texts), func(l *vk.Local, i int) {
		sp := texts[i]
		cells := sp.cells()
		plain := c33Plain(cells)
		for w := 0; w <= 7; w++ {
			t := sp.build()
			in := func() string { return fmt.Sprintf("%s.TrimWcwidth(%d)", c33Desc(t), w) }
			ord := c33Ord(len(sp), i*10+w)
			var got ui.Text
			if !k.try("TrimWcwidth", ord, in, func() { got = t.TrimWcwidth(w) }) {
				l.Case("TrimWcwidth/panic")
				continue
			}
			k.mutated("TrimWcwidth", ord, sp, t, in)
			// largest prefix (in whole characters) whose width is <= w
			cut, width, zeroTail := 0, 0, false
			for pos, r := range plain {
				width += wcwidth.OfRune(r)
				if width > w {
					break
				}
				cut = pos + utf8.RuneLen(r)
				zeroTail = wcwidth.OfRune(r) == 0
			}
			want := cells[:cut]
			bad := ""
			if kind := c33Normal(got); kind != "" {
				bad = kind
				k.report("TrimWcwidth:"+kind, ord, func() string {
					return fmt.Sprintf("%s = %s is not in normal form (%s); expected %s", in(), c33Desc(got), kind, c33Desc(c33Group(want)))
				})
			}
			gc := c33Cells(got)
			if !c33CellsEq(gc, want) {
				key := "TrimWcwidth:content"
				if len(gc) < len(want) && c33CellsEq(gc, want[:len(gc)]) && wcwidth.Of(c33Plain(gc)) == wcwidth.Of(c33Plain(want)) {
					// a prefix, but not the largest one: zero-width characters that still fit were dropped
					key = "TrimWcwidth:not-largest-prefix"
				}
				if bad == "" {
					bad = key
				}
				k.report(key, ord, func() string {
					return fmt.Sprintf("%s = %s, but the largest prefix of width <= %d is %s", in(), c33Desc(got), w, c33Desc(c33Group(want)))
				})
			}
			l.Case(fmt.Sprintf("TrimWcwidth/w=%d/total=%d/segs=%d/cutsegs=%d/midseg=%v/zerotail=%v/%s", w, wcwidth.Of(plain), len(sp), len(c33Group(want)), cut < len(cells) && cut > 0 && cells[cut-1].St == cells[cut].St, zeroTail, bad))
		}
	})
	k.flush(c)
}

// op 7: StyleText with one styling (every text) and two stylings (smaller texts).
func c33OpStyle(c *vk.Ctx, k *c33Coll, texts []c33Spec, texts2 []c33Spec) {
	c.Parallel(len(texts), func(l *vk.Local, i int) {
		sp := texts[i]
		cells := sp.cells()
		for si, s := range c33Stylings {
			for variant := 0; variant < 2; variant++ {
				sty, lab := s.goVal, s.label
				if variant == 1 {
					if s.name == "" {
						continue
					}
					sty, lab = ui.ParseStyling(s.name), "ParseStyling("+strconv.Quote(s.name)+")"
					if sty == nil {
						continue
					}
				}
				t := sp.build()
				in := func() string { return fmt.Sprintf("ui.StyleText(%s, %s)", c33Desc(t), lab) }
				ord := c33Ord(len(sp), i*100+si*2+variant)
				var got ui.Text
				if !k.try("StyleText", ord, in, func() { got = ui.StyleText(t, sty) }) {
					l.Case("StyleText/panic")
					continue
				}
				k.mutated("StyleText", ord, sp, t, in)
				want := c33Restyle(cells, s.model)
				r := k.judge("StyleText", ord, got, want, in)
				l.Case(fmt.Sprintf("StyleText/%s/segs=%d->%d/%s", s.label, len(sp), len(c33Group(want)), r))
			}
		}
	})
	n := len(c33Stylings)
	c.Parallel(len(texts2), func(l *vk.Local, i int) {
		sp := texts2[i]
		cells := sp.cells()
		for a := 0; a < n; a++ {
			for b := 0; b < n; b++ {
				s1, s2 := c33Stylings[a], c33Stylings[b]
				t := sp.build()
				in := func() string { return fmt.Sprintf("ui.StyleText(%s, %s, %s)", c33Desc(t), s1.label, s2.label) }
				ord := c33Ord(len(sp)+1, i*1000+a*n+b)
				var got ui.Text
				if !k.try("StyleText", ord, in, func() { got = ui.StyleText(t, s1.goVal, s2.goVal) }) {
					l.Case("StyleText/panic")
					continue
				}
				k.mutated("StyleText", ord, sp, t, in)
				want := c33Restyle(c33Restyle(cells, s1.model), s2.model)
				r := k.judge("StyleText", ord, got, want, in)
				l.Case(fmt.Sprintf("StyleText2/%s/%s/segs=%d->%d/%s", s1.label, s2.label, len(sp), len(c33Group(want)), r))
			}
		}
	})
	k.flush(c)
}

// op 8: Clone and slicing through Index.
func c33OpCloneSlice(c *vk.Ctx, k *c33Coll, texts []c33Spec) {
	c.Parallel(len(texts), func(l *vk.Local, i int) {
		sp := texts[i]
		t := sp.build()
		in := func() string { return c33Desc(t) + ".Clone()" }
		ord := c33Ord(len(sp), i)
		var got ui.Text
		if k.try("Clone", ord, in, func() { got = t.Clone() }) {
			r := k.judge("Clone", ord, got, sp.cells(), in)
			for j := range got {
				if j < len(t) && got[j] == t[j] {
					r = "aliases"
					k.report("Clone:aliases-input", ord, func() string { return in() + " shares a segment with its input (not a deep copy)" })
				}
			}
			k.mutated("Clone", ord, sp, t, in)
			l.Case(fmt.Sprintf("Clone/segs=%d/%s", len(sp), r))
		}
		for lo := 0; lo <= len(sp); lo++ {
			for hi := lo; hi <= len(sp); hi++ {
				t := sp.build()
				key := fmt.Sprintf("%d..%d", lo, hi)
				in := func() string { return fmt.Sprintf("%s.Index(%q)", c33Desc(t), key) }
				ord := c33Ord(len(sp), i*100+lo*10+hi)
				var v any
				var err error
				if !k.try("Index-slice", ord, in, func() { v, err = t.Index(key) }) {
					l.Case("Index-slice/panic")
					continue
				}
				st, ok := v.(ui.Text)
				if err != nil || !ok {
					k.report("Index-slice:not-a-text", ord, func() string { return fmt.Sprintf("%s returned (%v, %v), expected a styled text", in(), v, err) })
					l.Case("Index-slice/not-a-text")
					continue
				}
				r := k.judge("Index-slice", ord, st, sp[lo:hi].cells(), in)
				l.Case(fmt.Sprintf("Index-slice/segs=%d/n=%d/%s", len(sp), hi-lo, r))
			}
		}
	})
	k.flush(c)
}

// ---------------------------------------------------------------------------
// op 9: the styled / styled-segment builtins and the compounding syntax, through
// the real evaluator.

func c33ElvishExpr(sp c33Spec) string {
	if len(sp) == 0 {
		return "(styled '')"
	}
	var sb strings.Builder
	for _, id := range sp {
		txt, _ := c33SegOf(id)
		if id%4 == 0 {
			sb.WriteString(parse.Quote(txt))
			if len(sp) == 1 {
				return "(styled " + parse.Quote(txt) + ")"
			}
		} else {
			sb.WriteString("(styled " + parse.Quote(txt) + " " + strings.Join(c33StyleWords[id%4], " ") + ")")
		}
	}
	return sb.String()
}

var c33Evalers = sync.Pool{New: func() any { return eval.NewEvaler() }}

func c33Eval(code string) ([]any, error) {
	ev := c33Evalers.Get().(*eval.Evaler)
	defer c33Evalers.Put(ev)
	port, collect, err := eval.ValueCapturePort()
	if err != nil {
		return nil, err
	}
	err = ev.Eval(parse.Source{Name: "c33", Code: code}, eval.EvalCfg{Ports: []*eval.Port{nil, port, nil}, Global: eval.BuildNs().Ns()})
	return collect(), err
}

type c33Expect struct {
	op    string
	label string
	cells []c33Cell
}

func c33OpBuiltin(c *vk.Ctx, k *c33Coll, texts []c33Spec) {
	type fnT struct {
		code  string
		model func(ui.Style) ui.Style
	}
	fns := []fnT{
		{"{|s| styled-segment $s &fg-color=green }", func(s ui.Style) ui.Style { s.Fg = ui.Green; return s }},
		{"{|s| styled-segment $s &bold=$false &fg-color=default }", func(s ui.Style) ui.Style { s.Bold = false; s.Fg = nil; return s }},
		{"{|s| styled-segment $s &inverse=$s[bold] }", func(s ui.Style) ui.Style { s.Inverse = s.Bold; return s }},
	}
	c.Parallel(len(texts), func(l *vk.Local, i int) {
		sp := texts[i]
		cells := sp.cells()
		expr := c33ElvishExpr(sp)
		var code strings.Builder
		var exp []c33Expect
		fmt.Fprintf(&code, "var t = %s\nput $t\n", expr)
		op0 := "compound-syntax"
		if len(sp) < 2 {
			op0 = "styled-builtin"
		}
		exp = append(exp, c33Expect{op0, "put " + expr, cells})
		for _, s := range c33Stylings {
			if s.words == nil {
				continue
			}
			fmt.Fprintf(&code, "put (styled $t %s)\n", strings.Join(s.words, " "))
			exp = append(exp, c33Expect{"styled-builtin", fmt.Sprintf("styled %s %s", expr, strings.Join(s.words, " ")), c33Restyle(cells, s.model)})
		}
		for _, f := range fns {
			fmt.Fprintf(&code, "put (styled $t %s)\n", f.code)
			exp = append(exp, c33Expect{"styled-builtin-fn", fmt.Sprintf("styled %s %s", expr, f.code), c33Restyle(cells, f.model)})
		}
		if len(sp) == 1 {
			// the same single segment given as a styled segment, with and without text
			txt, st := c33SegOf(sp[0])
			for _, tx := range []string{txt, ""} {
				segExpr := fmt.Sprintf("(styled-segment %s &bold=%s &fg-color=%s)", parse.Quote(tx), map[bool]string{true: "$true", false: "$false"}[st.Bold], map[bool]string{true: "red", false: "default"}[st.Fg != nil])
				fmt.Fprintf(&code, "put (styled %s)\nput (styled %s green)\nput (styled %s toggle-bold)\n", segExpr, segExpr, segExpr)
				base := c33PlainCells(tx, st)
				exp = append(exp,
					c33Expect{"styled-builtin", "styled " + segExpr, base},
					c33Expect{"styled-builtin", "styled " + segExpr + " green", c33Restyle(base, c33Stylings[0].model)},
					c33Expect{"styled-builtin", "styled " + segExpr + " toggle-bold", c33Restyle(base, c33Stylings[5].model)})
			}
		}
		ord0 := c33Ord(len(sp), i*100)
		var vs []any
		var err error
		in0 := func() string { return "elvish code " + strconv.Quote(code.String()) }
		if !k.try("styled-builtin", ord0, in0, func() { vs, err = c33Eval(code.String()) }) {
			l.Case("builtin/panic")
			return
		}
		if err != nil || len(vs) != len(exp) {
			k.report("styled-builtin:eval-error", ord0, func() string {
				return fmt.Sprintf("%s: error %v, %d values (expected %d)", in0(), err, len(vs), len(exp))
			})
			l.Case("builtin/eval-error")
			return
		}
		for j, e := range exp {
			in := func() string { return "elvish: " + e.label }
			t, ok := vs[j].(ui.Text)
			if !ok {
				k.report(e.op+":not-a-text", ord0+int64(j), func() string { return fmt.Sprintf("%s gave %T, expected a styled text", in(), vs[j]) })
				l.Case("builtin/not-a-text")
				continue
			}
			r := k.judge(e.op, ord0+int64(j), t, e.cells, in)
			l.Case(fmt.Sprintf("%s/#%d/segs=%d->%d/%s", e.op, j, len(sp), len(c33Group(e.cells)), r))
		}
	})
	k.flush(c)
}

// ---------------------------------------------------------------------------
// op 10: styledown. (a) Render of enumerated markup gives a normal text with the
// specified cells, and Render(Derender(text)) == text (upstream's fuzz
// property); (b) for every text of the universe, Derender then Render gives the
// same text (newline characters cannot carry a style in the notation, so for
// texts with styled newlines equality is demanded modulo the style of the
// newline characters).

const c33DefsFull = "R fg-red\nX fg-red bold"

var c33StyleChars = []rune{' ', 'R', '*', 'X'} // by style index

func c33OpStyledownRender(c *vk.Ctx, k *c33Coll, maxChars int) {
	type sym struct {
		ch    string
		style int
	}
	var syms []sym
	for _, ch := range []string{"a", "b", "好"} {
		for st := 0; st < 4; st++ {
			syms = append(syms, sym{ch, st})
		}
	}
	// all lines of <= maxChars symbols
	type line struct {
		content, style string
		cells          []c33Cell
	}
	lines := []line{{}}
	level := []line{{}}
	for n := 0; n < maxChars; n++ {
		var next []line
		for _, p := range level {
			for _, s := range syms {
				q := line{p.content + s.ch, p.style + strings.Repeat(string(c33StyleChars[s.style]), wcwidth.Of(s.ch)),
					append(append([]c33Cell{}, p.cells...), c33PlainCells(s.ch, c33Styles[s.style])...)}
				next = append(next, q)
			}
		}
		lines = append(lines, next...)
		level = next
	}
	nl := len(lines)
	// one-line and two-line documents, with and without no-eol
	total := (nl + nl*nl) * 2
	c.Parallel(total, func(l *vk.Local, i int) {
		noEOL := i%2 == 1
		j := i / 2
		var doc []line
		if j < nl {
			doc = []line{lines[j]}
		} else {
			j -= nl
			doc = []line{lines[j/nl], lines[j%nl]}
		}
		var src strings.Builder
		var want []c33Cell
		nsym := 0
		for li, ln := range doc {
			src.WriteString(ln.content + "\n" + ln.style + "\n")
			if li > 0 {
				want = append(want, c33Cell{'\n', ui.Style{}})
			}
			want = append(want, ln.cells...)
			nsym += len(ln.style)
		}
		src.WriteString("\n" + c33DefsFull + "\n")
		if noEOL {
			src.WriteString("no-eol\n")
		} else {
			want = append(want, c33Cell{'\n', ui.Style{}})
		}
		s := src.String()
		in := func() string { return fmt.Sprintf("styledown.Render(%q)", s) }
		ord := c33Ord(nsym+len(doc), i)
		var got ui.Text
		var err error
		if !k.try("styledown-render", ord, in, func() { got, err = styledown.Render(s) }) {
			l.Case("sd-render/panic")
			return
		}
		if err != nil {
			k.report("styledown-render:error", ord, func() string { return fmt.Sprintf("%s failed: %v", in(), err) })
			l.Case("sd-render/error")
			return
		}
		r := k.judge("styledown-render", ord, got, want, in)
		// upstream's fuzz property on this text
		r2 := c33RoundTrip(k, ord, got, c33DefsFull, true)
		l.Case(fmt.Sprintf("sd-render/lines=%d/noeol=%v/segs=%d/%s/%s", len(doc), noEOL, len(got), r, r2))
	})
	k.flush(c)
}

// c33RoundTrip checks Render(Derender(t, defs)) against t. exact=false demands
// equality only modulo the style of newline characters.
func c33RoundTrip(k *c33Coll, ord int64, t ui.Text, defs string, exact bool) string {
	in := func() string { return fmt.Sprintf("styledown.Derender(%s, %q)", c33Desc(t), defs) }
	var src string
	var err error
	if !k.try("styledown-roundtrip", ord, in, func() { src, err = styledown.Derender(t, defs) }) {
		return "panic"
	}
	if err != nil {
		k.report("styledown-roundtrip:derender-error", ord, func() string { return fmt.Sprintf("%s failed although every style has a character: %v", in(), err) })
		return "derender-error"
	}
	in2 := func() string { return fmt.Sprintf("styledown.Render(%q) (markup from %s)", src, in()) }
	var back ui.Text
	if !k.try("styledown-roundtrip", ord, in2, func() { back, err = styledown.Render(src) }) {
		return "panic"
	}
	if err != nil {
		k.report("styledown-roundtrip:render-error", ord, func() string { return fmt.Sprintf("%s failed: %v", in2(), err) })
		return "render-error"
	}
	want := c33Cells(t)
	op := "styledown-roundtrip"
	if !exact {
		op = "styledown-roundtrip-modulo-newline-style"
		want = append([]c33Cell{}, want...)
		for i := range want {
			if want[i].B == '\n' {
				want[i].St = ui.Style{}
			}
		}
	}
	return k.judge(op, ord, back, want, in2)
}

func c33OpStyledownTexts(c *vk.Ctx, k *c33Coll, texts []c33Spec) {
	type cfg struct {
		defs    string
		covered [4]bool // by style index
	}
	cfgs := []cfg{
		{c33DefsFull, [4]bool{true, true, true, true}},
		{"R fg-red", [4]bool{true, true, true, false}},
		{"", [4]bool{true, false, true, false}},
	}
	c.Parallel(len(texts), func(l *vk.Local, i int) {
		sp := texts[i]
		for ci, cf := range cfgs {
			t := sp.build()
			ord := c33Ord(len(sp), i*10+ci)
			uncoveredChar, uncoveredNL, styledNL := false, false, false
			for _, id := range sp {
				txt, _ := c33SegOf(id)
				for _, r := range txt {
					if r == '\n' {
						if id%4 != 0 {
							styledNL = true
						}
						if !cf.covered[id%4] {
							uncoveredNL = true
						}
					} else if !cf.covered[id%4] {
						uncoveredChar = true
					}
				}
			}
			cls := fmt.Sprintf("sd-text/defs=%d/segs=%d/styledNL=%v/", ci, len(sp), styledNL)
			if uncoveredChar {
				// documented: Derender returns an error
				in := func() string { return fmt.Sprintf("styledown.Derender(%s, %q)", c33Desc(t), cf.defs) }
				var err error
				var src string
				if k.try("styledown-derender", ord, in, func() { src, err = styledown.Derender(t, cf.defs) }) && err == nil {
					k.report("styledown-derender:missing-error", ord, func() string {
						return fmt.Sprintf("%s = %q without error although a style has no character defined", in(), src)
					})
					cls += "missing-error"
				} else {
					cls += "error-as-documented"
				}
				l.Case(cls)
				continue
			}
			if uncoveredNL {
				// only a newline carries an uncovered style; the documentation does not say
				// whether that is an error
				c.Add("not_judged_uncovered_style_on_newline_only", 1)
				l.Case(cls + "not-judged")
				continue
			}
			if styledNL {
				c.Add("judged_modulo_newline_style", 1)
			}
			r := c33RoundTrip(k, ord, t, cf.defs, !styledNL)
			k.mutated("styledown-roundtrip", ord, sp, t, func() string { return "styledown.Derender(" + c33Desc(t) + ")" })
			l.Case(cls + r)
		}
	})
	k.flush(c)
}

// ---------------------------------------------------------------------------
// op 11: TextBuilder as a stateful object (state/history search). Every builder
// state reached by a prefix of k alternating-style writes followed by every
// sequence of <= n operations over {write red, write bold, write in the style of
// the pending segment, write a two-segment text, Text() snapshot, Reset} is
// compared with a reference model (a normalised list of (style, text) pairs).
// After EVERY operation every snapshot taken so far must still have the value
// it had when it was taken (a returned Text must not change behind the
// caller's back while the builder keeps being used).

type c33Pair struct {
	St  ui.Style
	Txt string
}

func c33Pairs(t ui.Text) []c33Pair {
	out := make([]c33Pair, 0, len(t))
	for _, s := range t {
		if s == nil {
			out = append(out, c33Pair{Txt: "<nil segment>"})
			continue
		}
		out = append(out, c33Pair{s.Style, s.Text})
	}
	return out
}

func c33PairsEq(a, b []c33Pair) bool {
	if len(a) != len(b) {
		return false
	}
	for i := range a {
		if a[i] != b[i] {
			return false
		}
	}
	return true
}

func c33PairsDesc(ps []c33Pair) string {
	if len(ps) == 0 {
		return "(empty)"
	}
	var p []string
	for _, x := range ps {
		p = append(p, fmt.Sprintf("%s:%q", c33StyleDesc(x.St), x.Txt))
	}
	return "{" + strings.Join(p, ", ") + "}"
}

// c33ModelWrite appends a normal-form text to the model, merging equal styles.
func c33ModelWrite(m []c33Pair, w []c33Pair) []c33Pair {
	for _, x := range w {
		if x.Txt == "" {
			continue
		}
		if n := len(m); n > 0 && m[n-1].St == x.St {
			m[n-1].Txt += x.Txt
		} else {
			m = append(m, x)
		}
	}
	return m
}

var c33TBOps = []string{"A", "B", "S", "M", "T", "R"} // write red, write bold, write same-as-pending, write 2 segments, Text(), Reset

func c33OpBuilder(c *vk.Ctx, k *c33Coll, maxPrefix, maxOps int) {
	red, bold := ui.Style{Fg: ui.Red}, ui.Style{Bold: true}
	// all operation sequences of length <= maxOps, length-lexicographic
	seqs := [][]int{{}}
	level := [][]int{{}}
	for n := 0; n < maxOps; n++ {
		var next [][]int
		for _, p := range level {
			for o := range c33TBOps {
				next = append(next, append(append([]int{}, p...), o))
			}
		}
		seqs = append(seqs, next...)
		level = next
	}
	var states, transitions int64
	var cmu sync.Mutex
	c.Parallel((maxPrefix+1)*len(seqs), func(l *vk.Local, i int) {
		pre, seq := i/len(seqs), seqs[i%len(seqs)]
		ord := c33Ord(pre+len(seq), i)
		var tb ui.TextBuilder
		var model []c33Pair
		var hist []string
		type snap struct {
			at     int
			text   ui.Text
			frozen []c33Pair
		}
		var snaps []snap
		in := func() string { return "TextBuilder: " + strings.Join(hist, "; ") }
		step := 0
		bad := ""
		fail := func(key string, msg func() string) {
			if bad == "" {
				bad = key
			}
			k.report("textbuilder:"+key, ord, msg)
		}
		write := func(w []c33Pair) {
			t := make(ui.Text, len(w))
			for j, x := range w {
				t[j] = &ui.Segment{Style: x.St, Text: x.Txt}
			}
			hist = append(hist, "WriteText("+c33Desc(t)+")")
			tb.WriteText(t)
			model = c33ModelWrite(model, w)
			if !c33PairsEq(c33Pairs(t), w) {
				fail("mutates-input", func() string { return fmt.Sprintf("%s: the written text is now %s", in(), c33Desc(t)) })
			}
		}
		after := func() {
			// every earlier snapshot still has the value it had when it was taken
			for _, s := range snaps {
				if now := c33Pairs(s.text); !c33PairsEq(now, s.frozen) {
					fail("earlier-snapshot-changed", func() string {
						return fmt.Sprintf("%s: the Text returned by step %d was %s and has silently become %s", in(), s.at, c33PairsDesc(s.frozen), c33PairsDesc(now))
					})
				}
			}
			if e := tb.Empty(); e != (len(model) == 0) {
				fail("empty-flag", func() string { return fmt.Sprintf("%s: Empty() = %v but the content is %s", in(), e, c33PairsDesc(model)) })
			}
			step++
		}
		run := func(op int) {
			switch c33TBOps[op] {
			case "A":
				write([]c33Pair{{red, fmt.Sprintf("a%d ", step)}})
			case "B":
				write([]c33Pair{{bold, fmt.Sprintf("b%d ", step)}})
			case "S":
				st := ui.Style{}
				if len(model) > 0 {
					st = model[len(model)-1].St
				}
				write([]c33Pair{{st, fmt.Sprintf("more%d ", step)}})
			case "M":
				write([]c33Pair{{red, fmt.Sprintf("p%d ", step)}, {bold, fmt.Sprintf("q%d ", step)}})
			case "T":
				hist = append(hist, fmt.Sprintf("step %d: Text()", step))
				t := tb.Text()
				if kind := c33Normal(t); kind != "" {
					fail(kind, func() string { return fmt.Sprintf("%s = %s is not in normal form (%s)", in(), c33Desc(t), kind) })
				}
				if got := c33Pairs(t); !c33PairsEq(got, model) {
					fail("snapshot-differs-from-model", func() string {
						return fmt.Sprintf("%s = %s, but what was written is %s", in(), c33Desc(t), c33PairsDesc(model))
					})
				}
				snaps = append(snaps, snap{step, t, c33Pairs(t)})
			case "R":
				hist = append(hist, "Reset()")
				tb.Reset()
				model = nil
			}
		}
		if !k.try("textbuilder", ord, in, func() {
			for j := 0; j < pre; j++ {
				run(j % 2) // alternating red / bold writes: j committed segments + 1 pending
				after()
			}
			for _, op := range seq {
				run(op)
				after()
			}
			// final observation of the state
			run(4)
			after()
		}) {
			l.Case("textbuilder/panic")
			return
		}
		nsnap, nreset, sameAfterSnap := 0, 0, false
		for j, op := range seq {
			switch c33TBOps[op] {
			case "T":
				nsnap++
				if j+1 < len(seq) && c33TBOps[seq[j+1]] == "S" {
					sameAfterSnap = true
				}
			case "R":
				nreset++
			}
		}
		cmu.Lock()
		states += int64(len(seq)) + 1
		transitions += int64(pre+len(seq)) + 1
		cmu.Unlock()
		l.Case(fmt.Sprintf("textbuilder/prefix=%d/ops=%d/snaps=%d/resets=%d/same-after-snap=%v/final=%d/%s", pre, len(seq), nsnap, nreset, sameAfterSnap, len(model), bad))
	})
	c.Set("textbuilder_states_checked", states)
	c.Set("textbuilder_transitions", transitions)
	k.flush(c)
}

// ---------------------------------------------------------------------------

func TestVerifC33(t *testing.T) {
	vk.Run(t, "C33", "exploration", func(c *vk.Ctx) {
		k := &c33Coll{m: map[string]c33Viol{}}
		t1 := c33AllSpecs(1)
		t2 := c33AllSpecs(2)
		t3 := c33AllSpecs(3)
		big := vk.Pick(c, t2, t3)
		partK := vk.Pick(c, 2, 4)
		c.Rule(fmt.Sprintf("universe U_n = every normal-form styled text of <= n segments over segment texts %q x styles {plain, red, bold, red+bold} (|U_1|=%d, |U_2|=%d, |U_3|=%d). "+
			"Enumerated: T(s, stylings) for every string of <=2 characters and every list of <=2 stylings out of %d; Concat over %s; the Concat/RConcat methods of Text and Segment over U_2 x strings/numbers/segments(incl. empty)/U_2; "+
			"Partition of every text of U_3 at every non-decreasing tuple of <=%d byte indices; SplitByRune of U_3 by 4 runes; TrimWcwidth of U_3 for widths 0..7; StyleText of U_3 with every styling and of U_2 with every pair; Clone and every Index slice of U_3; "+
			"the styled/styled-segment builtins and compounding syntax through the evaluator for %s x %d transformers; styledown Render of every markup of <=2 lines of <=%d styled characters, and Derender/Render round trip of U_3 under 3 style-definition sets. "+
			"TextBuilder histories: a prefix of k in 0..13 alternating-style writes followed by every sequence of <=%d operations over {write red, write bold, write in the pending style, write a 2-segment text, Text(), Reset}, all snapshots re-checked after every operation against their value when taken and a reference model. "+
			"class = operation + shape of arguments and result (segment counts, merges, empty parts, cut position, styling, oracle branch)",
			c33SegTexts, len(t1), len(t2), len(t3), len(c33Stylings),
			vk.Pick(c, "U_2^2, U_3xU_1, U_1xU_3, U_1^3", "U_3^2, U_2xU_1xU_2, U_1^4"), partK, vk.Pick(c, "U_2", "U_3"), len(c33Stylings)+2, vk.Pick(c, 2, 3), vk.Pick(c, 4, 6)))
		c.Assume("input texts are in normal form (the documented precondition: only functions of package ui manipulate them)",
			"wcwidth.OfRune is trusted for character widths (covered by C34)",
			"Partition indices are byte indices, non-decreasing and within [0,len]; other index tuples are not enumerated",
			"styledown cannot represent the style of a newline character: for texts with styled newlines the round trip is demanded modulo the style of newline characters",
			"other producers of styled text (MarkLines, StyleRegions, ParseSGREscapedText) are not covered")

		c33OpConstruct(c, k)
		if c.Thorough() {
			c33OpConcat(c, k, t3, t3)
			c33OpConcat(c, k, t2, t1, t2)
			c33OpConcat(c, k, t1, t1, t1, t1)
		} else {
			c33OpConcat(c, k, t2, t2)
			c33OpConcat(c, k, t3, t1)
			c33OpConcat(c, k, t1, t3)
			c33OpConcat(c, k, t1, t1, t1)
		}
		c33OpCompound(c, k, t2)
		c33OpPartition(c, k, t3, partK)
		c33OpSplit(c, k, t3)
		c33OpTrim(c, k, t3)
		c33OpStyle(c, k, t3, t2)
		c33OpCloneSlice(c, k, t3)
		c33OpBuiltin(c, k, big)
		c33OpStyledownRender(c, k, vk.Pick(c, 2, 3))
		c33OpStyledownTexts(c, k, t3)
		c33OpBuilder(c, k, 13, vk.Pick(c, 4, 6))

		c.Set("universe_sizes", []int{len(t1), len(t2), len(t3)})
		c.Sample(c33Desc(t3[len(t3)/2].build()))
		c.Sample(c33Desc(t3[len(t3)-1].build()))
		c.Sample(c33ElvishExpr(t3[len(t3)/3]))
	})
}
