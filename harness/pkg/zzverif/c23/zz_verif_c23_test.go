//go:build verif

// C23: wildcard expansion yields exactly the matching paths.
//
// Bounded-exhaustive: every directory tree up to an entry bound (built for
// real under $VERIF_SCRATCH) x every wildcard pattern up to a token bound,
// expanded by the real glob.Pattern.Glob / glob.Glob and by the real Evaler
// (wildcard expressions with modifiers), compared with a reference matcher
// written from website/ref/language.md ("Wildcard expansion").
package c23

import (
	"errors"
	"fmt"
	"os"
	"path/filepath"
	"runtime/debug"
	"sort"
	"strings"
	"sync"
	"sync/atomic"
	"testing"
	"unicode"
	"unicode/utf8"

	"src.elv.sh/pkg/eval"
	"src.elv.sh/pkg/eval/vals"
	"src.elv.sh/pkg/glob"
	"src.elv.sh/pkg/parse"
	"src.elv.sh/pkg/zzverif/vk"
)

// ---------------------------------------------------------------------------
// Pattern tokens.

const (
	c23KLit = iota
	c23KSlash
	c23KQ
	c23KStar
	c23KSS
)

type c23Tok struct {
	text   string          // source text (elvish syntax; for unmodified tokens also glob.Parse syntax)
	kind   int             // c23K*
	lit    string          // literal text
	hidden bool            // match-hidden
	match  func(rune) bool // nil: any character
	mods   bool            // carries elvish modifiers
	shape  string          // abstract kind used in class keys
}

func c23IsA(r rune) bool  { return r == 'a' }
func c23IsB(r rune) bool  { return r == 'b' }
func c23IsAB(r rune) bool { return 'a' <= r && r <= 'b' }

// the main token alphabet (12 tokens)
var c23Alpha = []c23Tok{
	{text: "a", kind: c23KLit, lit: "a", shape: "L"},
	{text: "b", kind: c23KLit, lit: "b", shape: "L"},
	{text: ".", kind: c23KLit, lit: ".", shape: "D"},
	{text: "/", kind: c23KSlash, shape: "/"},
	{text: "?", kind: c23KQ, shape: "?"},
	{text: "*", kind: c23KStar, shape: "*"},
	{text: "**", kind: c23KSS, shape: "**"},
	{text: "*[match-hidden]", kind: c23KStar, hidden: true, mods: true, shape: "*h"},
	{text: "?[set:a]", kind: c23KQ, match: c23IsA, mods: true, shape: "?m"},
	{text: "*[range:a-b]", kind: c23KStar, match: c23IsAB, mods: true, shape: "*r"},
	{text: "**[match-hidden]", kind: c23KSS, hidden: true, mods: true, shape: "**h"},
	{text: "*[set:b]", kind: c23KStar, match: c23IsB, mods: true, shape: "*m"},
}

func (t c23Tok) wild() bool { return t.kind >= c23KQ }

type c23Pat struct {
	idx      int
	toks     []c23Tok
	segs     []glob.Segment // built directly (literals merged like the parsers do)
	text     string
	globText bool // text can be handed to glob.Parse
	elv      bool // expressible as an elvish wildcard expression (and has a wildcard)
	wilds    []int
	shape    string
	extra    bool // from the matcher-variety family
}

func c23Segs(toks []c23Tok) []glob.Segment {
	var segs []glob.Segment
	for _, t := range toks {
		switch t.kind {
		case c23KLit:
			if n := len(segs); n > 0 && glob.IsLiteral(segs[n-1]) {
				segs[n-1] = glob.Literal{Data: segs[n-1].(glob.Literal).Data + t.lit}
			} else {
				segs = append(segs, glob.Literal{Data: t.lit})
			}
		case c23KSlash:
			segs = append(segs, glob.Slash{})
		default:
			w := glob.Wild{MatchHidden: t.hidden}
			switch t.kind {
			case c23KQ:
				w.Type = glob.Question
			case c23KStar:
				w.Type = glob.Star
			case c23KSS:
				w.Type = glob.StarStar
			}
			if t.match != nil {
				w.Matchers = []func(rune) bool{t.match}
			}
			segs = append(segs, w)
		}
	}
	return segs
}

// c23Valid says whether a token sequence is in the judged pattern space;
// reason is a not-judged counter name otherwise ("" = silently redundant).
func c23Valid(toks []c23Tok) (bool, string) {
	if len(toks) == 0 {
		return false, ""
	}
	if toks[0].kind == c23KSlash {
		return false, "" // absolute patterns are covered by the absolute-prefix variant
	}
	elem := ""
	pure := true
	flush := func() bool {
		bad := pure && (elem == "." || elem == "..")
		elem, pure = "", true
		return bad
	}
	for i, t := range toks {
		switch t.kind {
		case c23KSlash:
			if toks[i-1].kind == c23KSlash {
				return false, "" // "//" is the same pattern as "/"
			}
			if flush() {
				return false, "not_judged_dot_or_dotdot_element"
			}
		case c23KLit:
			elem += t.lit
		default:
			pure = false
		}
	}
	if flush() {
		return false, "not_judged_dot_or_dotdot_element"
	}
	return true, ""
}

func c23MakePat(toks []c23Tok) *c23Pat {
	p := &c23Pat{toks: append([]c23Tok{}, toks...)}
	p.segs = c23Segs(p.toks)
	p.globText, p.elv = true, true
	var sh, tx strings.Builder
	for i, t := range p.toks {
		tx.WriteString(t.text)
		if i > 0 {
			sh.WriteByte(' ')
		}
		sh.WriteString(t.shape)
		if t.mods {
			p.globText = false
		}
		if t.wild() {
			p.wilds = append(p.wilds, i)
		}
		// a bare * or ** directly followed by another star cannot be written down
		if i > 0 && strings.HasPrefix(t.text, "*") && (p.toks[i-1].text == "*" || p.toks[i-1].text == "**") {
			p.globText, p.elv = false, false
		}
	}
	if len(p.wilds) == 0 {
		p.elv = false
	}
	p.text, p.shape = tx.String(), sh.String()
	return p
}

// the tokens one by one (the concatenated text is ambiguous for adjacent stars)
func (p *c23Pat) tokText() string {
	var parts []string
	for _, t := range p.toks {
		parts = append(parts, t.text)
	}
	return "<" + strings.Join(parts, " ") + ">"
}

// text of the pattern with [mod] attached to the wildcard token at index at (-1: none)
func (p *c23Pat) elvText(at int, mod string) string {
	if at < 0 {
		return p.text
	}
	var sb strings.Builder
	for i, t := range p.toks {
		sb.WriteString(t.text)
		if i == at {
			sb.WriteString("[" + mod + "]")
		}
	}
	return sb.String()
}

// matcher-variety family: W[chain] in a few contexts
type c23Chain struct {
	text   string
	hidden bool
	match  func(rune) bool
}

func c23Or(fs ...func(rune) bool) func(rune) bool {
	return func(r rune) bool {
		for _, f := range fs {
			if f(r) {
				return true
			}
		}
		return false
	}
}
func c23Set(s string) func(rune) bool { return func(r rune) bool { return strings.ContainsRune(s, r) } }
func c23Range(lo, hi rune, incl bool) func(rune) bool {
	return func(r rune) bool { return lo <= r && (r < hi || (incl && r == hi)) }
}

var c23Chains = []c23Chain{
	{"[set:ab]", false, c23Set("ab")},
	{"[set:.]", false, c23Set(".")},
	{"[set:a.]", false, c23Set("a.")},
	{"['set:é*']", false, c23Set("é*")},
	{"[range:a-a]", false, c23Range('a', 'a', true)},
	{"[range:a~b]", false, c23Range('a', 'b', false)},
	{"[range:a~c]", false, c23Range('a', 'c', false)},
	{"[range:.-a]", false, c23Range('.', 'a', true)},
	{"[range:a-é]", false, c23Range('a', 'é', true)},
	{"[letter]", false, unicode.IsLetter},
	{"[lower]", false, unicode.IsLower},
	{"[upper]", false, unicode.IsUpper},
	{"[digit]", false, unicode.IsDigit},
	{"[punct]", false, unicode.IsPunct},
	{"[space]", false, unicode.IsSpace},
	{"[set:a][set:.]", false, c23Or(c23Set("a"), c23Set("."))},
	{"[set:b][range:a-a]", false, c23Or(c23Set("b"), c23Range('a', 'a', true))},
	{"[digit][upper]", false, c23Or(unicode.IsDigit, unicode.IsUpper)},
	{"[match-hidden][set:.]", true, c23Set(".")},
	{"[set:.][match-hidden]", true, c23Set(".")},
	{"[match-hidden][punct]", true, unicode.IsPunct},
	{"[letter][match-hidden]", true, unicode.IsLetter},
}

func c23ExtraPats() []*c23Pat {
	var out []*c23Pat
	lit := func(s string) c23Tok { return c23Tok{text: s, kind: c23KLit, lit: s, shape: "L"} }
	slash, star := c23Alpha[3], c23Alpha[5]
	for _, w := range []struct {
		text string
		kind int
	}{{"?", c23KQ}, {"*", c23KStar}, {"**", c23KSS}} {
		for _, ch := range c23Chains {
			t := c23Tok{text: w.text + ch.text, kind: w.kind, hidden: ch.hidden, match: ch.match, mods: true, shape: w.text + "x"}
			for _, ctx := range [][]c23Tok{{t}, {lit("a"), t}, {t, lit("a")}, {t, lit("b")}, {t, slash, star}, {star, slash, t}, {t, t}} {
				p := c23MakePat(ctx)
				p.extra = true
				out = append(out, p)
			}
		}
	}
	return out
}

// ---------------------------------------------------------------------------
// Trees.

const (
	c23File = iota
	c23Dir
	c23Link // symbolic link to a directory outside the tree containing files "a" and ".b"
)

type c23Node struct {
	name string
	kind int
	kids []c23Node
}

var c23Names = []string{"a", "b", "ab", "aa", ".a", ".b", "a.b"}
var c23TargetKids = []string{"a", ".b"}

func c23Depth(ns []c23Node) int {
	d := 0
	for _, x := range ns {
		if k := 1 + c23Depth(x.kids); k > d {
			d = k
		}
	}
	return d
}

func c23Count(ns []c23Node) int {
	n := 0
	for _, x := range ns {
		n += 1 + c23Count(x.kids)
	}
	return n
}

// every directory content with names taken in increasing order from
// c23Names[from:], with at most budget entries in total, depth <= maxDepth.
func c23GenDir(from, budget, depth, maxDepth int) [][]c23Node {
	out := [][]c23Node{nil}
	if budget == 0 {
		return out
	}
	for i := from; i < len(c23Names); i++ {
		for kind := c23File; kind <= c23Link; kind++ {
			var subs [][]c23Node
			if kind == c23Dir && depth < maxDepth {
				subs = c23GenDir(0, budget-1, depth+1, maxDepth)
			} else {
				subs = [][]c23Node{nil}
			}
			for _, sub := range subs {
				for _, rest := range c23GenDir(i+1, budget-1-c23Count(sub), depth, maxDepth) {
					nodes := append([]c23Node{{c23Names[i], kind, sub}}, rest...)
					out = append(out, nodes)
				}
			}
		}
	}
	return out
}

func c23Desc(ns []c23Node) string {
	var parts []string
	for _, n := range ns {
		switch n.kind {
		case c23File:
			parts = append(parts, fmt.Sprintf("%q", n.name))
		case c23Dir:
			parts = append(parts, fmt.Sprintf("%q/{%s}", n.name, c23Desc(n.kids)))
		case c23Link:
			parts = append(parts, fmt.Sprintf("%q@", n.name))
		}
	}
	return strings.Join(parts, " ")
}

// A candidate is an existing relative path of the tree.
type c23Cand struct {
	comps    []string
	text     string
	trailing bool // written with a final "/" (exists iff it names a directory)
	symAt    int  // index of a non-final symlink component that is traversed, or -1
	kind     int  // what the path names: c23File, c23Dir, or c23Link (a symlink itself)
	hidden   bool // some component starts with "."
}

type c23Tree struct {
	nodes []c23Node
	size  int
	depth int
	rich  bool
	desc  string
	cands []c23Cand
}

func c23NewTree(nodes []c23Node, rich bool) *c23Tree {
	t := &c23Tree{nodes: nodes, size: c23Count(nodes), depth: c23Depth(nodes), rich: rich, desc: "{" + c23Desc(nodes) + "}"}
	add := func(comps []string, trailing bool, symAt, kind int) {
		cd := c23Cand{comps: append([]string{}, comps...), trailing: trailing, symAt: symAt, kind: kind}
		cd.text = strings.Join(comps, "/")
		if trailing {
			cd.text += "/"
		}
		for _, s := range comps {
			if strings.HasPrefix(s, ".") {
				cd.hidden = true
			}
		}
		t.cands = append(t.cands, cd)
	}
	var walk func(prefix []string, ns []c23Node)
	walk = func(prefix []string, ns []c23Node) {
		for _, n := range ns {
			comps := append(append([]string{}, prefix...), n.name)
			switch n.kind {
			case c23File:
				add(comps, false, -1, c23File)
			case c23Dir:
				add(comps, false, -1, c23Dir)
				add(comps, true, -1, c23Dir)
				walk(comps, n.kids)
			case c23Link:
				add(comps, false, -1, c23Link)
				add(comps, true, len(comps)-1, c23Dir)
				for _, k := range c23TargetKids {
					add(append(append([]string{}, comps...), k), false, len(comps)-1, c23File)
				}
			}
		}
	}
	walk(nil, nodes)
	return t
}

func c23Build(dir, target string, ns []c23Node) error {
	for _, n := range ns {
		p := filepath.Join(dir, n.name)
		switch n.kind {
		case c23File:
			if err := os.WriteFile(p, nil, 0o644); err != nil {
				return err
			}
		case c23Dir:
			if err := os.Mkdir(p, 0o755); err != nil {
				return err
			}
			if err := c23Build(p, target, n.kids); err != nil {
				return err
			}
		case c23Link:
			if err := os.Symlink(target, p); err != nil {
				return err
			}
		}
	}
	return nil
}

func c23F(name string) c23Node               { return c23Node{name, c23File, nil} }
func c23D(name string, k ...c23Node) c23Node { return c23Node{name, c23Dir, k} }
func c23L(name string) c23Node               { return c23Node{name, c23Link, nil} }

// fixed larger trees: deeper nesting, more siblings, names with unicode,
// spaces, glob metacharacters, digits and upper case
var c23Rich = [][]c23Node{
	{c23F("a"), c23F(".a"), c23F("aa"), c23D("b", c23F("a"), c23F(".b"), c23D("ab", c23F("a"), c23F("aa"))), c23L("ab")},
	{c23D(".b", c23F("a"), c23F(".a"), c23D("b", c23F(".a"))), c23F("a.b"), c23D("a"), c23D("b", c23D("b", c23D("b", c23F("b"), c23L("a"))))},
	{c23F("é"), c23F("a b"), c23F("*"), c23F("?a"), c23F(".é"), c23F("A"), c23F("1"), c23F("a1"), c23D("aé", c23F("éa"), c23F("*"))},
}

// ---------------------------------------------------------------------------
// Reference matcher (language.md, "Wildcard expansion").
//
// ? matches one character except /, * any number of characters except /, **
// any number of characters including /. No wildcard matches a "." at the
// beginning of a filename (path component) unless it has match-hidden.
// Character matchers restrict the characters a wildcard may match.
//
// Result per (pattern, candidate): 2 = matches under every reading of the
// reference (required), 1 = matches only under a reading the reference leaves
// open (not judged), 0 = no match.
//
// Open points (flags):
//   - dot: a wildcard without match-hidden stands in the pattern directly at the
//     start of a component that begins with "." but matches none of its characters
//     (e.g. *.a against .a): the "." is matched by a literal, yet traditional
//     shells and the implementation refuse this.
//   - sym: a symbolic link to a directory is traversed by a pattern element that is
//     not a pure literal (the reference only says links count as regular files).
//   - mslash: a ** restricted by a character matcher crosses a "/".

const (
	c23FDot = 1 << iota
	c23FSym
	c23FMSlash
)

func c23Match(toks []c23Tok, cd *c23Cand) int8 {
	endSlash := toks[len(toks)-1].kind == c23KSlash
	if endSlash != cd.trailing {
		return 0
	}
	best := int8(0)
	record := func(fl int) {
		if fl == 0 {
			best = 2
		} else if best == 0 {
			best = 1
		}
	}
	n := len(cd.comps)
	var rec func(ti, ci, off int, pure bool, fl int)
	rec = func(ti, ci, off int, pure bool, fl int) {
		if best == 2 {
			return
		}
		comp := cd.comps[ci]
		if ti == len(toks) {
			if ci == n-1 && off == len(comp) && !cd.trailing {
				record(fl)
			}
			return
		}
		t := toks[ti]
		switch t.kind {
		case c23KLit:
			if strings.HasPrefix(comp[off:], t.lit) {
				rec(ti+1, ci, off+len(t.lit), pure, fl)
			}
		case c23KSlash:
			if off != len(comp) {
				return
			}
			if cd.symAt == ci && !pure {
				fl |= c23FSym
			}
			if ci+1 < n {
				rec(ti+1, ci+1, 0, true, fl)
			} else if cd.trailing && ti == len(toks)-1 {
				record(fl)
			}
		case c23KQ:
			if off >= len(comp) {
				return
			}
			r, sz := utf8.DecodeRuneInString(comp[off:])
			if t.match != nil && !t.match(r) {
				return
			}
			if off == 0 && r == '.' && !t.hidden {
				return
			}
			rec(ti+1, ci, off+sz, false, fl)
		default: // * and **
			for {
				comp = cd.comps[ci]
				// stop here
				sfl := fl
				if off == 0 && comp[0] == '.' && !t.hidden {
					sfl |= c23FDot
				}
				rec(ti+1, ci, off, false, sfl)
				if best == 2 {
					return
				}
				// or take one more character
				if off < len(comp) {
					r, sz := utf8.DecodeRuneInString(comp[off:])
					if t.match != nil && !t.match(r) {
						return
					}
					if off == 0 && r == '.' && !t.hidden {
						return
					}
					off += sz
					continue
				}
				if t.kind != c23KSS || ci+1 >= n {
					return
				}
				if cd.symAt == ci {
					fl |= c23FSym
				}
				if t.match != nil {
					fl |= c23FMSlash
				}
				ci, off = ci+1, 0
			}
		}
	}
	rec(0, 0, 0, true, 0)
	return best
}

// ---------------------------------------------------------------------------
// Diagnosis of a mismatch (used only to choose the violation key, never to
// decide conformance): does the candidate match under a deliberately altered
// rule that models one known root cause?
//
//   - c23DiagFirstSegOnly: the leading-dot rule looks only at the first segment
//     of a path element: when that is a match-hidden wildcard which matches
//     nothing of the component, a later wildcard without match-hidden may
//     consume the leading ".".
//   - c23DiagLeftmost: a * (or ** within one component) is given the leftmost
//     position at which the run of literals and ?s that follows it fits (and,
//     if that run ends the element, fits up to the end of the name); no other
//     position is tried. "Fits" is meant as the implementation means it, i.e.
//     with the first-segment-only leading-dot rule above.
const (
	c23DiagFirstSegOnly = iota
	c23DiagLeftmost
)

func c23Diag(toks []c23Tok, cd *c23Cand, mode int) bool {
	if (toks[len(toks)-1].kind == c23KSlash) != cd.trailing {
		return false
	}
	n := len(cd.comps)
	found := false
	// does the run of fixed-length tokens from ti fit comp at pos?
	fits := func(ti int, comp string, pos int, lead int) bool {
		for ; ti < len(toks); ti++ {
			t := toks[ti]
			if t.kind == c23KLit {
				if !strings.HasPrefix(comp[pos:], t.lit) {
					return false
				}
				pos += len(t.lit)
			} else if t.kind == c23KQ {
				if pos >= len(comp) {
					return false
				}
				r, sz := utf8.DecodeRuneInString(comp[pos:])
				if (t.match != nil && !t.match(r)) || (pos == 0 && r == '.' && !t.hidden && lead != 1) {
					return false
				}
				pos += sz
			} else {
				break
			}
		}
		if ti == len(toks) || toks[ti].kind == c23KSlash {
			return pos == len(comp)
		}
		return true
	}
	// lead: 0 = no token has acted at the start of this component yet, 1 = the
	// first one was a match-hidden wildcard that matched nothing of it, 2 = other
	var rec func(ti, ci, off, lead int)
	dotOK := func(t c23Tok, lead int) bool {
		return t.hidden || lead == 1
	}
	rec = func(ti, ci, off, lead int) {
		if found {
			return
		}
		comp := cd.comps[ci]
		if ti == len(toks) {
			if ci == n-1 && off == len(comp) && !cd.trailing {
				found = true
			}
			return
		}
		t := toks[ti]
		switch t.kind {
		case c23KLit:
			if strings.HasPrefix(comp[off:], t.lit) {
				rec(ti+1, ci, off+len(t.lit), 2)
			}
		case c23KSlash:
			if off != len(comp) {
				return
			}
			if ci+1 < n {
				rec(ti+1, ci+1, 0, 0)
			} else if cd.trailing && ti == len(toks)-1 {
				found = true
			}
		case c23KQ:
			if off >= len(comp) {
				return
			}
			r, sz := utf8.DecodeRuneInString(comp[off:])
			if t.match != nil && !t.match(r) {
				return
			}
			if off == 0 && r == '.' && !dotOK(t, lead) {
				return
			}
			rec(ti+1, ci, off+sz, 2)
		default:
			committed := false
			for {
				comp = cd.comps[ci]
				stop := true
				nl := lead
				if off == 0 && lead == 0 {
					nl = 2
					if t.hidden {
						nl = 1
					}
				}
				if off == 0 && lead == 0 && !t.hidden && comp[0] == '.' {
					// first segment of the element is a wildcard without
					// match-hidden: the first-segment rule refuses the name
					stop = false
				} else if mode == c23DiagLeftmost {
					if committed || !fits(ti+1, comp, off, nl) {
						stop = false
					} else {
						committed = true
					}
				}
				if stop {
					rec(ti+1, ci, off, nl)
					if found {
						return
					}
				}
				if off < len(comp) {
					r, sz := utf8.DecodeRuneInString(comp[off:])
					if t.match != nil && !t.match(r) {
						return
					}
					if off == 0 && r == '.' && !dotOK(t, lead) {
						return
					}
					off += sz
					continue
				}
				if t.kind != c23KSS || ci+1 >= n {
					return
				}
				ci, off, lead, committed = ci+1, 0, 0, false
			}
		}
	}
	rec(0, 0, 0, 0)
	return found
}

// global modifiers
const (
	c23MNone = iota
	c23MNomatchOK
	c23MButA
	c23MTypeDir
	c23MTypeRegular
)

var c23ModText = []string{"", "nomatch-ok", "but:a", "type:dir", "type:regular"}

// c23ApplyMod filters the per-candidate status by a global modifier:
// but:xxx "excludes the filename from the final result" (judged when the whole
// result path is xxx; left open when only its last component is xxx);
// type:dir keeps directories, type:regular keeps regular files, and
// "symbolic links are considered to be regular files".
func c23ApplyMod(dst, st []int8, cands []c23Cand, mod int) []int8 {
	dst = append(dst[:0], st...)
	for i := range cands {
		cd := &cands[i]
		switch mod {
		case c23MButA:
			if cd.text == "a" {
				dst[i] = 0
			} else if cd.comps[len(cd.comps)-1] == "a" && dst[i] == 2 {
				dst[i] = 1
			}
		case c23MTypeDir:
			if cd.kind != c23Dir {
				dst[i] = 0
			}
		case c23MTypeRegular:
			if cd.kind == c23Dir {
				dst[i] = 0
			}
		}
	}
	return dst
}

// c23Qual names the class of a missing / extra path for the violation key.
// modOnly: the same pattern without the global modifier conformed, so the
// modifier handling is what is off.
func c23Qual(toks []c23Tok, cd *c23Cand, mod int, extra, modOnly bool) string {
	hasM, hasSS := false, false
	for _, t := range toks {
		if t.match != nil && t.kind != c23KQ {
			hasM = true // a * or ** restricted by a character matcher
		}
		if t.kind == c23KSS {
			hasSS = true
		}
	}
	typeMod := mod == c23MTypeDir || mod == c23MTypeRegular
	switch {
	case modOnly && typeMod && cd.kind == c23Link:
		return "type-of-symlink"
	case modOnly && typeMod:
		return "type"
	case modOnly && mod == c23MButA:
		return "but"
	case extra && cd.hidden:
		// narrow key for the one known way: the element starts with a match-hidden
		// wildcard and a later wildcard without match-hidden consumed the dot
		if c23Match(toks, cd) == 0 && c23Diag(toks, cd, c23DiagFirstSegOnly) {
			return "hidden:dot-consumed-by-later-wildcard-after-a-match-hidden-one"
		}
		return "hidden"
	case hasM:
		// narrow key for the one known way: the match needs a fit of a literal
		// chunk that is not the leftmost one
		if !extra && c23Match(toks, cd) == 2 && !c23Diag(toks, cd, c23DiagLeftmost) {
			return "restricted-star:needs-backtracking"
		}
		return "restricted-star"
	case cd.hidden:
		return "hidden"
	case cd.symAt >= 0:
		return "through-symlink"
	case hasSS:
		return "starstar"
	case cd.trailing:
		return "trailing-slash"
	}
	return "plain"
}

type c23Outcome struct {
	got     []string
	noMatch bool   // elvish: "wildcard has no match" exception
	err     string // any other error / panic
	elv     bool
}

// c23Judge compares one expansion with the reference; key "" = conforms.
func c23Judge(tr *c23Tree, toks []c23Tok, st []int8, mod int, modOnly bool, prefix string, o *c23Outcome) (key, msg string) {
	if o.err != "" {
		if strings.HasPrefix(o.err, "panic") {
			return "panic:" + vk.PanicSite(o.err), o.err
		}
		return "unexpected-error", o.err
	}
	seen := make([]bool, len(tr.cands))
	for i, g := range o.got {
		for _, h := range o.got[:i] {
			if g == h {
				return "duplicate-path", fmt.Sprintf("path %q produced more than once", g)
			}
		}
		if !strings.HasPrefix(g, prefix) {
			return "extra-match:not-an-existing-path", fmt.Sprintf("result %q does not start with the pattern's literal directory prefix", g)
		}
		rel := g[len(prefix):]
		found := -1
		for j := range tr.cands {
			if tr.cands[j].text == rel {
				found = j
				break
			}
		}
		if found < 0 {
			return "extra-match:not-an-existing-path", fmt.Sprintf("result %q is not a path of the tree (or names it in another way than the pattern does)", g)
		}
		seen[found] = true
		if st[found] == 0 {
			return "extra-match:" + c23Qual(toks, &tr.cands[found], mod, true, modOnly), fmt.Sprintf("result contains %q, which the pattern does not match", g)
		}
	}
	anyReq := false
	for j := range tr.cands {
		if st[j] == 2 {
			anyReq = true
			if !seen[j] {
				how := "result lacks"
				if o.noMatch {
					how = "'wildcard has no match' was raised although the pattern matches"
				}
				return "missing-match:" + c23Qual(toks, &tr.cands[j], mod, false, modOnly), fmt.Sprintf("%s %q", how, prefix+tr.cands[j].text)
			}
		}
	}
	if o.elv {
		if o.noMatch && mod == c23MNomatchOK {
			return "exception-despite-nomatch-ok", "'wildcard has no match' raised although nomatch-ok was given"
		}
		if !o.noMatch && len(o.got) == 0 && mod != c23MNomatchOK && !anyReq {
			return "no-exception-on-empty-expansion", "expansion is empty but no exception was raised"
		}
	}
	return "", ""
}

func c23Expect(tr *c23Tree, st []int8) string {
	var req, opt []string
	for j := range tr.cands {
		switch st[j] {
		case 2:
			req = append(req, tr.cands[j].text)
		case 1:
			opt = append(opt, tr.cands[j].text)
		}
	}
	s := fmt.Sprintf("expected exactly %q", req)
	if len(opt) > 0 {
		s += fmt.Sprintf(" (not judged: %q)", opt)
	}
	return s
}

// ---------------------------------------------------------------------------
// Workers: real expansion.

type c23Viol struct {
	order    int64
	key, msg string
	replay   map[string]any
}

type c23Worker struct {
	l     *vk.Local
	ev    *eval.Evaler
	ch    chan any
	ports []*eval.Port
	st    []int8
	st2   []int8
	viols map[string]c23Viol
	nopt  int64
}

func c23NewWorker() *c23Worker {
	ch := make(chan any, 4096)
	out := &eval.Port{File: eval.DevNull, Chan: ch}
	return &c23Worker{l: vk.NewLocal(), ev: eval.NewEvaler(), ch: ch,
		ports: []*eval.Port{eval.DummyInputPort, out, eval.DummyOutputPort}, viols: map[string]c23Viol{}}
}

var c23Reported sync.Map // keys already reported: no need to collect them again

func (w *c23Worker) report(order int64, key, msg string, replay map[string]any) {
	if _, done := c23Reported.Load(key); done {
		return
	}
	if old, ok := w.viols[key]; ok && old.order <= order {
		return
	}
	w.viols[key] = c23Viol{order, key, msg, replay}
}

func (w *c23Worker) eval(code string) (out []any, err error, pan string) {
	pan = vk.Try(func() {
		err = w.ev.Eval(parse.Source{Name: "c23", Code: code}, eval.EvalCfg{Ports: w.ports})
	})
	for {
		select {
		case v := <-w.ch:
			out = append(out, v)
		default:
			return
		}
	}
}

func c23IsNoMatch(err error) bool {
	var exc eval.Exception
	if errors.As(err, &exc) {
		return errors.Is(exc.Reason(), eval.ErrWildcardNoMatch)
	}
	return false
}

func (w *c23Worker) runGlob(p glob.Pattern) c23Outcome {
	var o c23Outcome
	if pan := vk.Try(func() {
		p.Glob(func(pi glob.PathInfo) bool { o.got = append(o.got, pi.Path); return true })
	}); pan != "" {
		o.err = pan
	}
	return o
}

func (w *c23Worker) runElv(code string) c23Outcome {
	o := c23Outcome{elv: true}
	vs, err, pan := w.eval(code)
	switch {
	case pan != "":
		o.err = pan
	case err != nil && c23IsNoMatch(err):
		o.noMatch = true
	case err != nil:
		o.err = "error: " + err.Error()
	}
	for _, v := range vs {
		s, ok := v.(string)
		if !ok {
			o.err = fmt.Sprintf("error: non-string output %v", vals.ReprPlain(v))
			break
		}
		o.got = append(o.got, s)
	}
	return o
}

func c23Outcls(st []int8, o *c23Outcome) string {
	req, opt := 0, 0
	for _, s := range st {
		if s == 2 {
			req++
		} else if s == 1 {
			opt++
		}
	}
	c := "none"
	if req > 1 {
		c = "many"
	} else if req == 1 {
		c = "one"
	}
	if opt > 0 {
		c += "+open"
	}
	if o.noMatch {
		c += "!"
	}
	return c
}

type c23Plan struct{ api, text, elv, mods, abs bool }

// one (tree, pattern): every way of expanding it that the plan asks for
func (w *c23Worker) doPattern(tr *c23Tree, root string, p *c23Pat, plan c23Plan, order int64) {
	st := w.st[:0]
	for i := range tr.cands {
		s := c23Match(p.toks, &tr.cands[i])
		if s == 1 {
			w.nopt++
		}
		st = append(st, s)
	}
	w.st = st
	check := func(via, shown string, toks []c23Tok, st []int8, mod int, prefix string, o c23Outcome, sub int64) bool {
		w.l.Case(via + "|" + p.shape + "|" + c23ModText[mod] + "|" + c23Outcls(st, &o))
		if key, msg := c23Judge(tr, toks, st, mod, mod != c23MNone, prefix, &o); key != "" {
			res := fmt.Sprintf("%q", o.got)
			if o.noMatch {
				res = "exception 'wildcard has no match'"
			}
			full := fmt.Sprintf("tree %s, %s %s: %s; got %s, %s", tr.desc, via, shown, msg, res, c23Expect(tr, st))
			w.report(order*64+sub, key, full, map[string]any{"tree": tr.desc, "via": via, "pattern": shown})
			return false
		}
		return true
	}
	if plan.api {
		check("glob.Pattern.Glob", "segments "+p.tokText(), p.toks, st, c23MNone, "", w.runGlob(glob.Pattern{Segments: p.segs}), 0)
		if p.globText && plan.text {
			var o c23Outcome
			if pan := vk.Try(func() {
				glob.Glob(p.text, func(pi glob.PathInfo) bool { o.got = append(o.got, pi.Path); return true })
			}); pan != "" {
				o.err = pan
			}
			check("glob.Glob", fmt.Sprintf("%q", p.text), p.toks, st, c23MNone, "", o, 1)
		}
		if plan.abs {
			segs := append(append([]glob.Segment{}, glob.Parse(root+"/").Segments...), p.segs...)
			check("glob.Pattern.Glob", fmt.Sprintf("segments of %q + %s", root+"/", p.tokText()), p.toks, st, c23MNone, root+"/", w.runGlob(glob.Pattern{Segments: segs}), 2)
		}
	}
	if plan.elv && p.elv {
		baseOK := check("elvish", "put "+p.text, p.toks, st, c23MNone, "", w.runElv("put "+p.text), 3)
		if plan.abs {
			check("elvish", "put "+root+"/"+p.text, p.toks, st, c23MNone, root+"/", w.runElv("put "+root+"/"+p.text), 4)
		}
		// global modifiers are judged where the pattern itself conforms (otherwise
		// the violation just reported would be reported again under other keys)
		if plan.mods && baseOK {
			wilds := p.wilds
			if len(p.toks) > 3 {
				wilds = wilds[:1]
			}
			for wi, at := range wilds {
				for mod := c23MNomatchOK; mod <= c23MTypeRegular; mod++ {
					w.st2 = c23ApplyMod(w.st2, st, tr.cands, mod)
					code := "put " + p.elvText(at, c23ModText[mod])
					check("elvish", code, p.toks, w.st2, mod, "", w.runElv(code), int64(5+wi*4+mod))
				}
			}
		}
	}
}

// ---------------------------------------------------------------------------
// Re-evaluation of the same compiled wildcard with a sequence of modifiers.

var c23SeqMods = []string{"nomatch-ok", "match-hidden", "set:a", "but:a", "type:dir"}

// c23WithMod: tokens and global modifier of the pattern whose wildcard at
// index at carries modifier m alone.
func c23WithMod(toks []c23Tok, at int, m string) ([]c23Tok, int) {
	out := append([]c23Tok{}, toks...)
	switch m {
	case "match-hidden":
		out[at].hidden = true
	case "set:a":
		out[at].match = c23IsA
	case "nomatch-ok":
		return out, c23MNomatchOK
	case "but:a":
		return out, c23MButA
	case "type:dir":
		return out, c23MTypeDir
	}
	return out, c23MNone
}

func c23SameOutcome(a, b *c23Outcome) bool {
	if a.noMatch != b.noMatch || a.err != b.err || len(a.got) != len(b.got) {
		return false
	}
	x, y := append([]string{}, a.got...), append([]string{}, b.got...)
	sort.Strings(x)
	sort.Strings(y)
	for i := range x {
		if x[i] != y[i] {
			return false
		}
	}
	return true
}

// value put by `try { put [P] } catch e { put $e }`
func c23ListOutcome(v any) c23Outcome {
	o := c23Outcome{elv: true}
	if exc, ok := v.(eval.Exception); ok {
		if errors.Is(exc.Reason(), eval.ErrWildcardNoMatch) {
			o.noMatch = true
		} else {
			o.err = "error: " + exc.Reason().Error()
		}
		return o
	}
	err := vals.Iterate(v, func(e any) bool {
		s, ok := e.(string)
		if !ok {
			o.err = "error: non-string element"
			return false
		}
		o.got = append(o.got, s)
		return true
	})
	if err != nil {
		o.err = "error: " + err.Error()
	}
	return o
}

func (w *c23Worker) doSeqs(tr *c23Tree, p *c23Pat, seqs [][]int, order int64) {
	at := p.wilds[0]
	slot := p.elvText(at, "$m")
	for si, seq := range seqs {
		var names []string
		for _, m := range seq {
			names = append(names, c23SeqMods[m])
		}
		code := fmt.Sprintf("for m [%s] { try { put [%s] } catch e { put $e } }", strings.Join(names, " "), slot)
		vs, err, pan := w.eval(code)
		cls := "seq|" + p.shape + "|" + strings.Join(names, ",")
		if pan != "" || err != nil || len(vs) != len(seq) {
			w.l.Case(cls + "|error")
			w.report(order*64, "unexpected-error", fmt.Sprintf("tree %s, elvish %s: panic %q error %v, %d values", tr.desc, code, pan, err, len(vs)),
				map[string]any{"tree": tr.desc, "code": code})
			continue
		}
		bad := false
		for k, m := range names {
			toks, mod := c23WithMod(p.toks, at, m)
			st := w.st[:0]
			for i := range tr.cands {
				st = append(st, c23Match(toks, &tr.cands[i]))
			}
			w.st = st
			w.st2 = c23ApplyMod(w.st2, st, tr.cands, mod)
			o := c23ListOutcome(vs[k])
			key, msg := c23Judge(tr, toks, w.st2, mod, false, "", &o)
			if key == "" {
				continue
			}
			bad = true
			// what does a fresh compilation of the pattern with this one modifier
			// give? if something else, the earlier iterations leaked into this
			// one; if the same, the pattern itself is off, which is the main
			// pass's business
			single := p.elvText(at, m)
			fvs, ferr, fpan := w.eval(fmt.Sprintf("try { put [%s] } catch e { put $e }", single))
			if fpan == "" && ferr == nil && len(fvs) == 1 {
				fo := c23ListOutcome(fvs[0])
				if !c23SameOutcome(&o, &fo) {
					show := func(o *c23Outcome) string {
						if o.noMatch {
							return "exception 'wildcard has no match'"
						}
						if o.err != "" {
							return o.err
						}
						return fmt.Sprintf("%q", o.got)
					}
					w.report(order*64+int64(si%60), "modifier-leaks-across-evaluations",
						fmt.Sprintf("tree %s, elvish %s: iteration %d (modifier %s) gives %s: %s; %s; a fresh evaluation of put [%s] gives %s",
							tr.desc, code, k+1, m, show(&o), msg, c23Expect(tr, w.st2), single, show(&fo)),
						map[string]any{"tree": tr.desc, "code": code, "iteration": k + 1})
				}
			}
			break
		}
		if bad {
			w.l.Case(cls + "|nonconforming")
		} else {
			w.l.Case(cls + "|ok")
		}
	}
}

// ---------------------------------------------------------------------------

func TestVerifC23(t *testing.T) {
	vk.Run(t, "C23", "exploration", func(c *vk.Ctx) {
		// millions of tiny parses: the live heap is a few MB, so the default GC
		// pacing would collect continuously
		debug.SetGCPercent(1000)
		scratch := os.Getenv("VERIF_SCRATCH")
		if scratch == "" {
			scratch = "/dev/shm"
		}
		base := filepath.Join(scratch, "c23")
		os.RemoveAll(base)
		if err := os.MkdirAll(base, 0o755); err != nil {
			panic(err)
		}
		base, _ = filepath.EvalSymlinks(base)
		oldwd, _ := os.Getwd()
		defer func() {
			os.Chdir(oldwd)
			os.RemoveAll(base)
		}()
		target := filepath.Join(base, "T")
		os.Mkdir(target, 0o755)
		for _, k := range c23TargetKids {
			os.WriteFile(filepath.Join(target, k), nil, 0o644)
		}
		root := filepath.Join(base, "t")

		maxEntries := vk.Pick(c, 2, 3)
		maxLen := 4
		elvLenSmall := vk.Pick(c, 3, 4) // elvish, no global modifier, trees of <= 2 entries and the fixed trees
		modLenSmall := 3                // elvish with global modifiers, same trees
		elvLenLarge, modLenLarge := 3, 2
		seqLen := vk.Pick(c, 2, 3)     // base pattern length in the re-evaluation pass
		seqEntries := vk.Pick(c, 1, 2) // ... on trees of at most this many entries and the fixed trees

		// trees
		var trees []*c23Tree
		for _, ns := range c23GenDir(0, maxEntries, 1, 3) {
			trees = append(trees, c23NewTree(ns, false))
		}
		sort.SliceStable(trees, func(i, j int) bool { return trees[i].size < trees[j].size })
		// fixed trees right after the <=1-entry trees so that they are explored in the quick budget too
		var ordered []*c23Tree
		placed := false
		for _, tr := range trees {
			if tr.size >= 2 && !placed {
				for _, ns := range c23Rich {
					ordered = append(ordered, c23NewTree(ns, true))
				}
				placed = true
			}
			ordered = append(ordered, tr)
		}
		trees = ordered

		// patterns
		var pats []*c23Pat
		notJudged := map[string]int64{}
		buf := make([]c23Tok, 0, maxLen)
		var gen func(n int)
		gen = func(n int) {
			if len(buf) == n {
				ok, why := c23Valid(buf)
				if ok {
					pats = append(pats, c23MakePat(buf))
				} else if why != "" {
					notJudged[why]++
				}
				return
			}
			for _, t := range c23Alpha {
				buf = append(buf, t)
				gen(n)
				buf = buf[:len(buf)-1]
			}
		}
		for n := 1; n <= maxLen; n++ {
			gen(n)
		}
		nMain := len(pats)
		pats = append(pats, c23ExtraPats()...)
		for i, p := range pats {
			p.idx = i
		}
		// re-evaluation pass: base patterns over the unmodified tokens
		var seqPats []*c23Pat
		for _, p := range pats[:nMain] {
			if p.globText && p.elv && len(p.toks) <= seqLen {
				seqPats = append(seqPats, p)
			}
		}
		var seqs [][]int
		for n := 2; n <= 3; n++ {
			idx := make([]int, n)
			for {
				seqs = append(seqs, append([]int{}, idx...))
				i := n - 1
				for i >= 0 {
					idx[i]++
					if idx[i] < len(c23SeqMods) {
						break
					}
					idx[i] = 0
					i--
				}
				if i < 0 {
					break
				}
			}
		}

		c.Rule(fmt.Sprintf("trees: every directory tree with <=%d entries (depth <=3) over the names %q, each entry a file, a directory or a symlink to a directory holding %q, plus %d fixed larger trees (depth 4, unicode/space/metacharacter/digit/upper-case names); "+
			"patterns: every sequence of 1..%d tokens over %d tokens {a b . / ? * ** *[match-hidden] ?[set:a] *[range:a-b] **[match-hidden] *[set:b]} not starting with / and without // (%d patterns) plus %d matcher-variety patterns (?,*,** x %d set/range/class/match-hidden chains x 7 contexts); "+
			"on 3-entry trees other than the chains x/y/z only the patterns of <=3 tokens are run; each (tree, pattern) is expanded in the tree as cwd by glob.Pattern.Glob on directly built segments, by glob.Glob on the text when it has no modifiers (trees of <=2 entries and fixed trees), with an absolute directory prefix (<=2 tokens, same trees), and as an elvish `put <pattern>` (trees of <=2 entries and fixed trees: <=%d tokens, and <=%d tokens with each of nomatch-ok, but:a, type:dir, type:regular on each wildcard; 3-entry trees: <=%d / <=%d tokens); "+
			"re-evaluation (trees of <=1 entry and fixed trees: unmodified patterns of <=%d tokens; trees of <=%d entries: <=2 tokens): `for m [seq] { try { put [P[$m]] } catch e { put $e } }` with $m on the first wildcard, for every sequence of 2..3 modifiers over %q (%d sequences), each iteration judged as the pattern with that modifier alone; "+
			"class = (expansion route, token-kind sequence, global modifier, size class of the expected set / no-match)",
			maxEntries, c23Names, c23TargetKids, len(c23Rich), maxLen, len(c23Alpha), nMain, len(pats)-nMain, len(c23Chains),
			elvLenSmall, modLenSmall, elvLenLarge, modLenLarge, seqLen, seqEntries, c23SeqMods, len(seqs)))
		c.Assume("reference matcher written from website/ref/language.md 'Wildcard expansion'; result order is not judged (sets are compared, duplicates are violations)",
			"not judged (counted in not_judged_*): a pattern element that is exactly . or ..; a component starting with . whose start coincides with a wildcard without match-hidden that matches none of its characters (e.g. *.a vs .a); traversing a symlink to a directory by a non-literal pattern element; ** with a character matcher crossing /; but:a for a path that merely ends in /a",
			"a pattern ending in / is taken to match directories only, written with the final /; wildcards are taken never to produce the entries . and ..",
			"the character classes are taken from Go's unicode.Is* functions as the reference says; file system = tmpfs under $VERIF_SCRATCH, the process cwd is switched per tree (trees are explored one after the other, patterns in parallel)")
		c.Set("trees", len(trees))
		c.Set("patterns", len(pats))
		c.Set("reevaluation_base_patterns", len(seqPats))
		c.Set("reevaluation_sequences", len(seqs))
		for k, v := range notJudged {
			c.Set(k+"_patterns", v)
		}

		nw := vk.Workers()
		workers := make([]*c23Worker, nw)
		for i := range workers {
			workers[i] = c23NewWorker()
			c.Watch(workers[i].l)
		}
		njobs := len(pats) + len(seqPats)
		var treesDone int64
		for ti, tr := range trees {
			if c.TimeUp() {
				c.Capped(fmt.Sprintf("time budget reached after %d of %d trees", ti, len(trees)))
				break
			}
			os.Chdir(base)
			os.RemoveAll(root)
			if err := os.Mkdir(root, 0o755); err != nil {
				panic(err)
			}
			if err := c23Build(root, target, tr.nodes); err != nil {
				panic(err)
			}
			if err := os.Chdir(root); err != nil {
				panic(err)
			}
			small := tr.size <= 2 || tr.rich
			var next int64 = -1
			var wg sync.WaitGroup
			for _, w := range workers {
				wg.Add(1)
				go func(w *c23Worker) {
					defer wg.Done()
					for {
						j := int(atomic.AddInt64(&next, 1))
						if j >= njobs {
							return
						}
						if j >= len(pats) {
							p := seqPats[j-len(pats)]
							if tr.size <= 1 || tr.rich || (tr.size <= seqEntries && len(p.toks) <= 2) {
								w.l.Begin(tr.desc + " reevaluation " + p.text)
								w.doSeqs(tr, p, seqs, int64(j))
								w.l.End()
							}
							continue
						}
						p := pats[j]
						n := len(p.toks)
						var plan c23Plan
						if p.extra {
							if !small {
								continue
							}
							plan = c23Plan{api: true, text: true, elv: true}
						} else if small {
							plan = c23Plan{api: true, text: true, elv: n <= elvLenSmall, mods: n <= modLenSmall, abs: n <= 2}
						} else {
							// 3-entry trees: 4-token patterns only on the chains x/y/z
							if n > 3 && tr.depth < 3 {
								continue
							}
							plan = c23Plan{api: true, elv: n <= elvLenLarge, mods: n <= modLenLarge, abs: false}
						}
						w.l.Begin(tr.desc + " " + p.text)
						w.doPattern(tr, root, p, plan, int64(j))
						w.l.End()
					}
				}(w)
			}
			wg.Wait()
			// report this tree's violations in a deterministic order
			var vs []c23Viol
			for _, w := range workers {
				for _, v := range w.viols {
					vs = append(vs, v)
				}
				w.viols = map[string]c23Viol{}
			}
			sort.Slice(vs, func(i, j int) bool {
				if vs[i].order != vs[j].order {
					return vs[i].order < vs[j].order
				}
				return vs[i].key < vs[j].key
			})
			for _, v := range vs {
				if _, done := c23Reported.LoadOrStore(v.key, true); !done {
					c.Violate(v.key, v.msg, v.replay)
				}
			}
			if ti%97 == 5 {
				c.Sample(map[string]any{"tree": tr.desc, "patterns": []string{pats[len(pats)/3].text, pats[nMain-1-ti%50].text}})
			}
			treesDone++
		}
		var nopt int64
		for _, w := range workers {
			c.Merge(w.l)
			nopt += w.nopt
		}
		c.Set("trees_explored", treesDone)
		c.Set("not_judged_open_candidate_matches", nopt)
	})
}
