//go:build verif

// Package c05 holds the harness of property C05 (typed numbers survive
// to-string/num and every documented number literal parses). It drives the real
// vals.ParseNum / vals.ToString / vals.ScanToGo and the real builtins `num` and
// `to-string` of an Evaler.
package c05

import (
	"fmt"
	"math"
	"math/big"
	"strconv"
	"strings"
	"sync/atomic"
	"testing"

	"src.elv.sh/pkg/eval"
	"src.elv.sh/pkg/eval/vals"
	"src.elv.sh/pkg/zzverif/vk"
)

// ---------------------------------------------------------------------------
// Independent grammar of the documented number syntaxes (website/ref/language.md,
// section "Number"), written from the text of the reference:
//
//   integer  := decimal | 0x hex | 0o oct | 0b bin | legacy octal (leading zero)
//   rational := integer "/" integer
//   float    := D "." D | D exp | D "." D exp ; exp := ("e"|"E") ["+"|"-"] D
//   special  := "+Inf" | "-Inf" | "NaN"
//   all case-insensitive; single underscores between two digits are ignored;
//   a leading "-" negates (negative numbers are used throughout the reference).
//
// Everything else is either "could be a number" (not judged) or clearly not a
// number (must be rejected).
// ---------------------------------------------------------------------------

type c05Lit struct {
	verdict  byte   // 'D' documented, 'M' maybe a number (not judged), 'X' clearly not a number
	kind     string // which documented syntax
	feat     string // features: n(egative) u(nderscore) c(apital letter)
	isFloat  bool
	exact    *big.Rat // value of integer / rational syntaxes
	f        float64  // value of float syntaxes (correctly rounded)
	overflow bool     // float syntax whose correctly rounded value is an infinity
}

func c05Lower(b byte) byte {
	if 'A' <= b && b <= 'Z' {
		return b + 'a' - 'A'
	}
	return b
}

func c05DigitVal(b byte) int {
	b = c05Lower(b)
	switch {
	case '0' <= b && b <= '9':
		return int(b - '0')
	case 'a' <= b && b <= 'z':
		return int(b-'a') + 10
	}
	return 99
}

// c05Group recognises d(_d)* with every digit below base and returns the digit values.
func c05Group(s string, base int) ([]int, bool) {
	if s == "" {
		return nil, false
	}
	prevDigit := false
	for i := 0; i < len(s); i++ {
		if s[i] == '_' {
			if !prevDigit || i == len(s)-1 {
				return nil, false
			}
			prevDigit = false
			continue
		}
		if c05DigitVal(s[i]) >= base {
			return nil, false
		}
		prevDigit = true
	}
	ds := make([]int, 0, len(s))
	for i := 0; i < len(s); i++ {
		if s[i] != '_' {
			ds = append(ds, c05DigitVal(s[i]))
		}
	}
	return ds, true
}

func c05DigitsToInt(ds []int, base int) *big.Int {
	v := new(big.Int)
	b := big.NewInt(int64(base))
	for _, d := range ds {
		v.Mul(v, b)
		v.Add(v, big.NewInt(int64(d)))
	}
	return v
}

// c05UInt recognises an unsigned documented integer.
func c05UInt(s string) (*big.Int, string, bool) {
	if s == "" {
		return nil, "", false
	}
	base, body, kind := 10, s, "dec"
	if s[0] == '0' && len(s) > 1 {
		switch c05Lower(s[1]) {
		case 'x':
			base, body, kind = 16, s[2:], "hex"
		case 'o':
			base, body, kind = 8, s[2:], "oct"
		case 'b':
			base, body, kind = 2, s[2:], "bin"
		default:
			base, kind = 8, "legacy-octal"
		}
	}
	ds, ok := c05Group(body, base)
	if !ok {
		return nil, "", false
	}
	return c05DigitsToInt(ds, base), kind, true
}

var c05Ten = big.NewInt(10)

// c05UFloat recognises an unsigned documented floating-point literal and
// computes its correctly rounded value with exact rational arithmetic.
func c05UFloat(s string) (f float64, kind string, overflow, ok bool) {
	mant, exp, hasExp := s, "", false
	if i := strings.IndexAny(s, "eE"); i >= 0 {
		mant, exp, hasExp = s[:i], s[i+1:], true
	}
	ip, fp, hasPoint := mant, "", false
	if j := strings.IndexByte(mant, '.'); j >= 0 {
		ip, fp, hasPoint = mant[:j], mant[j+1:], true
	}
	if !hasExp && !hasPoint {
		return 0, "", false, false
	}
	ipd, ok1 := c05Group(ip, 10)
	if !ok1 || (len(ipd) > 1 && ipd[0] == 0) {
		return 0, "", false, false // missing integer part or leading zeros: not documented
	}
	var fpd []int
	if hasPoint {
		var ok2 bool
		if fpd, ok2 = c05Group(fp, 10); !ok2 {
			return 0, "", false, false
		}
	}
	e := 0
	if hasExp {
		neg := false
		if exp != "" && (exp[0] == '+' || exp[0] == '-') {
			neg = exp[0] == '-'
			exp = exp[1:]
		}
		epd, ok3 := c05Group(exp, 10)
		if !ok3 {
			return 0, "", false, false
		}
		for _, d := range epd {
			if e < 100000000 {
				e = e*10 + d
			}
		}
		if neg {
			e = -e
		}
	}
	switch {
	case hasPoint && hasExp:
		kind = "float-point-sci"
	case hasPoint:
		kind = "float-point"
	default:
		kind = "float-sci"
	}
	all := append(append([]int{}, ipd...), fpd...)
	for len(all) > 0 && all[0] == 0 {
		all = all[1:]
	}
	if len(all) == 0 {
		return 0, kind, false, true
	}
	scale := e - len(fpd)
	// decimal position of the leading digit: value is in [10^(top-1), 10^top)
	top := len(all) + scale
	if top > 400 {
		return math.Inf(1), kind, true, true
	}
	if top < -400 {
		return 0, kind, false, true
	}
	m := c05DigitsToInt(all, 10)
	r := new(big.Rat)
	if scale >= 0 {
		m.Mul(m, new(big.Int).Exp(c05Ten, big.NewInt(int64(scale)), nil))
		r.SetInt(m)
	} else {
		r.SetFrac(m, new(big.Int).Exp(c05Ten, big.NewInt(int64(-scale)), nil))
	}
	f, _ = r.Float64() // nearest float64, ties to even; infinity when too large
	return f, kind, math.IsInf(f, 0), true
}

// c05LiberalReal: generous recogniser of anything that might be meant as a
// (non-rational) number, used only to decide what is NOT judged. lt is lower
// case, has no underscores and no sign.
func c05LiberalReal(lt []byte) bool {
	if w := string(lt); w == "inf" || w == "infinity" || w == "nan" {
		return true
	}
	isDec := func(b byte) bool { return '0' <= b && b <= '9' }
	isHex := func(b byte) bool { return isDec(b) || ('a' <= b && b <= 'f') }
	skip := func(i int, p func(byte) bool) int {
		for i < len(lt) && p(lt[i]) {
			i++
		}
		return i
	}
	if len(lt) >= 2 && lt[0] == '0' && (lt[1] == 'x' || lt[1] == 'o' || lt[1] == 'b') {
		if lt[1] != 'x' {
			return skip(2, isDec) == len(lt)
		}
		i := skip(2, isHex)
		if i < len(lt) && lt[i] == '.' {
			i = skip(i+1, isHex)
		}
		if i < len(lt) && lt[i] == 'p' {
			i++
			if i < len(lt) && (lt[i] == '+' || lt[i] == '-') {
				i++
			}
			i = skip(i, isDec)
		}
		return i == len(lt)
	}
	i := skip(0, isDec)
	nd := i
	if i < len(lt) && lt[i] == '.' {
		j := skip(i+1, isDec)
		nd += j - i - 1
		i = j
	}
	if nd == 0 {
		return false
	}
	if i < len(lt) && lt[i] == 'e' {
		i++
		if i < len(lt) && (lt[i] == '+' || lt[i] == '-') {
			i++
		}
		i = skip(i, isDec)
	}
	return i == len(lt)
}

// c05CouldBeNumber: after dropping every underscore and one leading sign, the
// string is a liberal real, or two liberal reals (the second optionally signed)
// joined by one slash.
func c05CouldBeNumber(s string) bool {
	var buf [48]byte
	t := buf[:0]
	for i := 0; i < len(s); i++ {
		if s[i] != '_' {
			t = append(t, c05Lower(s[i]))
		}
	}
	stripSign := func(t []byte) []byte {
		if len(t) > 0 && (t[0] == '+' || t[0] == '-') {
			return t[1:]
		}
		return t
	}
	t = stripSign(t)
	slash := -1
	for i, b := range t {
		if b == '/' {
			if slash >= 0 {
				return false
			}
			slash = i
		}
	}
	if slash >= 0 {
		return c05LiberalReal(t[:slash]) && c05LiberalReal(stripSign(t[slash+1:]))
	}
	return c05LiberalReal(t)
}

// c05Classify is the oracle's reading of a string.
func c05Classify(s string) c05Lit {
	lit := c05classifyDoc(s)
	if lit.verdict == 'D' {
		var feat []byte
		if s[0] == '-' {
			feat = append(feat, 'n')
		}
		if strings.Contains(s, "_") {
			feat = append(feat, 'u')
		}
		for i := 0; i < len(s); i++ {
			if 'A' <= s[i] && s[i] <= 'Z' {
				feat = append(feat, 'c')
				break
			}
		}
		lit.feat = string(feat)
		return lit
	}
	if c05CouldBeNumber(s) {
		return c05Lit{verdict: 'M'}
	}
	return c05Lit{verdict: 'X'}
}

func c05classifyDoc(s string) c05Lit {
	switch {
	case strings.EqualFold(s, "+inf"):
		return c05Lit{verdict: 'D', kind: "inf", isFloat: true, f: math.Inf(1)}
	case strings.EqualFold(s, "-inf"):
		return c05Lit{verdict: 'D', kind: "inf", isFloat: true, f: math.Inf(-1)}
	case strings.EqualFold(s, "nan"):
		return c05Lit{verdict: 'D', kind: "nan", isFloat: true, f: math.NaN()}
	}
	neg := false
	u := s
	if u != "" && u[0] == '-' {
		neg, u = true, u[1:]
	}
	if i := strings.IndexByte(u, '/'); i >= 0 {
		a, ka, ok1 := c05UInt(u[:i])
		b, kb, ok2 := c05UInt(u[i+1:])
		if !ok1 || !ok2 || b.Sign() == 0 {
			return c05Lit{}
		}
		r := new(big.Rat).SetFrac(a, b)
		if neg {
			r.Neg(r)
		}
		return c05Lit{verdict: 'D', kind: "rat:" + ka + "/" + kb, exact: r}
	}
	if v, kind, ok := c05UInt(u); ok {
		if neg {
			v.Neg(v)
		}
		return c05Lit{verdict: 'D', kind: kind, exact: new(big.Rat).SetInt(v)}
	}
	if f, kind, ovf, ok := c05UFloat(u); ok {
		if neg {
			f = math.Copysign(f, -1)
		}
		return c05Lit{verdict: 'D', kind: kind, isFloat: true, f: f, overflow: ovf}
	}
	return c05Lit{}
}

// ---------------------------------------------------------------------------
// value helpers
// ---------------------------------------------------------------------------

const c05MaxInt = int64(^uint(0) >> 1)

// c05Canon is the canonical typed number of an exact value: machine int when it
// fits, else big integer, else (non-integer) big rational.
func c05Canon(r *big.Rat) vals.Num {
	if r.IsInt() {
		n := r.Num()
		if n.IsInt64() && n.Int64() <= c05MaxInt && n.Int64() >= -c05MaxInt-1 {
			return int(n.Int64())
		}
		return new(big.Int).Set(n)
	}
	return r
}

func c05Same(a, b any) bool {
	switch a := a.(type) {
	case int:
		b, ok := b.(int)
		return ok && a == b
	case *big.Int:
		b, ok := b.(*big.Int)
		return ok && a.Cmp(b) == 0
	case *big.Rat:
		b, ok := b.(*big.Rat)
		return ok && a.Cmp(b) == 0
	case float64:
		b, ok := b.(float64)
		return ok && (math.Float64bits(a) == math.Float64bits(b) || (math.IsNaN(a) && math.IsNaN(b)))
	case nil:
		return b == nil
	}
	return false
}

func c05TypeName(v any) string {
	switch v.(type) {
	case nil:
		return "rejected"
	case int:
		return "int"
	case *big.Int:
		return "bigint"
	case *big.Rat:
		return "bigrat"
	case float64:
		return "float64"
	case string:
		return "string"
	}
	return fmt.Sprintf("%T", v)
}

func c05Show(v any) string {
	switch v := v.(type) {
	case nil:
		return "<rejected>"
	case float64:
		return fmt.Sprintf("float64(%v bits=%#016x)", v, math.Float64bits(v))
	case *big.Int:
		s := v.String()
		if len(s) > 60 {
			s = s[:30] + "..." + s[len(s)-20:]
		}
		return "bigint(" + s + ")"
	case *big.Rat:
		s := v.String()
		if len(s) > 80 {
			s = s[:40] + "..." + s[len(s)-30:]
		}
		return "bigrat(" + s + ")"
	}
	return fmt.Sprintf("%T(%v)", v, v)
}

func c05Short(s string) string {
	if len(s) > 120 {
		return s[:60] + "..." + s[len(s)-40:] + fmt.Sprintf(" (len %d)", len(s))
	}
	return s
}

// c05NonCanonical reports a typed number that is not in its unique representation.
func c05NonCanonical(v vals.Num) string {
	switch v := v.(type) {
	case *big.Int:
		if v.IsInt64() && v.Int64() <= c05MaxInt && v.Int64() >= -c05MaxInt-1 {
			return "big integer that fits a machine int"
		}
	case *big.Rat:
		if v.IsInt() {
			return "big rational with denominator 1"
		}
	case int, float64:
	default:
		return fmt.Sprintf("not a number type: %T", v)
	}
	return ""
}

// ---------------------------------------------------------------------------
// the real builtins
// ---------------------------------------------------------------------------

type c05Builtins struct {
	ev            *eval.Evaler
	num, toString eval.Callable
	ch            chan any
	ports         []*eval.Port
}

var c05Pool = make(chan *c05Builtins, 64)

func c05GetBuiltins() *c05Builtins {
	select {
	case b := <-c05Pool:
		return b
	default:
	}
	ev := eval.NewEvaler()
	b := &c05Builtins{ev: ev, ch: make(chan any, 64)}
	b.num = ev.Builtin().IndexString("num~").Get().(eval.Callable)
	b.toString = ev.Builtin().IndexString("to-string~").Get().(eval.Callable)
	b.ports = []*eval.Port{eval.DummyInputPort, {File: eval.DevNull, Chan: b.ch}, eval.DummyOutputPort}
	return b
}

func c05PutBuiltins(b *c05Builtins) {
	select {
	case c05Pool <- b:
	default:
	}
}

// call runs builtin f on one argument; returns the single value output (nil if
// an exception was raised), and a description of anything abnormal.
func (b *c05Builtins) call(f eval.Callable, arg any) (out any, exc error, abnormal string) {
	var err error
	if p := vk.Try(func() {
		err = b.ev.Call(f, eval.CallCfg{Args: []any{arg}}, eval.EvalCfg{Ports: b.ports})
	}); p != "" {
		abnormal = p
	}
	var outs []any
	for {
		select {
		case v := <-b.ch:
			outs = append(outs, v)
			continue
		default:
		}
		break
	}
	if abnormal != "" {
		return nil, nil, abnormal
	}
	if err != nil {
		if len(outs) != 0 {
			return nil, err, fmt.Sprintf("raised %v but also output %d values", err, len(outs))
		}
		return nil, err, ""
	}
	if len(outs) != 1 {
		return nil, nil, fmt.Sprintf("output %d values, want 1", len(outs))
	}
	return outs[0], nil, ""
}

// ---------------------------------------------------------------------------
// the checks
// ---------------------------------------------------------------------------

type c05Counters struct {
	docAccepted, maybeAccepted, maybeRejected atomic.Int64
	leadingZeroAsFloat                                        atomic.Int64
	builtinCalls                                              atomic.Int64
	roundTrips                                                atomic.Int64
}

var c05XRejected = map[string]string{"x": "x/X/rejected", "a1": "a1/X/rejected", "a2": "a2/X/rejected", "si": "si/X/rejected", "sr": "sr/X/rejected", "sf": "sf/X/rejected"}

type c05Checker struct {
	c   *vk.Ctx
	cnt c05Counters
}

func (k *c05Checker) parse(s string) (vals.Num, bool) {
	var got vals.Num
	if p := vk.Try(func() { got = vals.ParseNum(s) }); p != "" {
		k.c.Violate("parsenum-panic:"+vk.PanicSite(p), fmt.Sprintf("vals.ParseNum(%q) panicked: %s", c05Short(s), p), s)
		return nil, false
	}
	return got, true
}

// roundTrip checks ParseNum(ToString(x)) == x with the same exactness; with
// builtins also through `to-string` and `num`. Returns a class fragment.
func (k *c05Checker) roundTrip(x vals.Num, b *c05Builtins) string {
	k.cnt.roundTrips.Add(1)
	tn := c05TypeName(x)
	var s string
	if p := vk.Try(func() { s = vals.ToString(x) }); p != "" {
		k.c.Violate("tostring-panic:"+vk.PanicSite(p), fmt.Sprintf("vals.ToString(%s) panicked: %s", c05Show(x), p), c05Show(x))
		return tn + "/panic"
	}
	y, ok := k.parse(s)
	if !ok {
		return tn + "/panic"
	}
	switch {
	case y == nil:
		k.c.Violate("roundtrip-rejected:"+tn, fmt.Sprintf("typed number %s has string form %q, which num rejects (ParseNum returns nil)", c05Show(x), c05Short(s)), s)
	case c05TypeName(y) != tn:
		k.c.Violate("roundtrip-type:"+tn+"->"+c05TypeName(y), fmt.Sprintf("typed number %s has string form %q, which reads back as %s: exactness/type changed", c05Show(x), c05Short(s), c05Show(y)), s)
	case !c05Same(x, y):
		k.c.Violate("roundtrip-value:"+tn, fmt.Sprintf("typed number %s has string form %q, which reads back as a different number %s", c05Show(x), c05Short(s), c05Show(y)), s)
	default:
		if f, isF := x.(float64); !(isF && math.IsNaN(f)) && !vals.Equal(x, y) {
			k.c.Violate("roundtrip-not-eq:"+tn, fmt.Sprintf("typed number %s: num (to-string x) = %s is not eq to x", c05Show(x), c05Show(y)), s)
		}
	}
	if b != nil {
		k.cnt.builtinCalls.Add(2)
		so, exc, ab := b.call(b.toString, x)
		if ab != "" || exc != nil {
			k.c.Violate("to-string-builtin-abnormal", fmt.Sprintf("to-string %s: %s %v", c05Show(x), ab, exc), c05Show(x))
		} else if so != any(s) {
			k.c.Violate("to-string-builtin-differs", fmt.Sprintf("to-string %s output %#v but vals.ToString gives %q", c05Show(x), so, s), c05Show(x))
		}
		yo, exc, ab := b.call(b.num, s)
		if ab != "" {
			k.c.Violate("num-builtin-abnormal", fmt.Sprintf("num %q: %s", c05Short(s), ab), s)
		} else if !c05Same(y, yo) {
			k.c.Violate("num-builtin-differs-from-parsenum", fmt.Sprintf("num %q gives %s (exception %v) but vals.ParseNum gives %s", c05Short(s), c05Show(yo), exc, c05Show(y)), s)
		}
	}
	// shape of the string form
	shape := "plain"
	if _, isF := x.(float64); isF {
		switch {
		case strings.ContainsAny(s, "eE"):
			shape = "sci"
		case strings.HasSuffix(s, ".0"):
			shape = "dot0"
		case strings.Contains(s, "."):
			shape = "frac"
		default:
			shape = "special"
		}
	}
	if strings.HasPrefix(s, "-") {
		shape += "-"
	}
	n := len(s)
	if n > 40 {
		n = 40 + n/50
	}
	return tn + "/" + shape + "/" + strconv.Itoa(n)
}

// literal judges one string. forceBuiltin also sends it through the real
// builtin `num`; strings that are documented or accepted always go through it.
func (k *c05Checker) literal(l *vk.Local, s string, family string, forceBuiltin bool) (lit c05Lit, got vals.Num) {
	got, ok := k.parse(s)
	if !ok {
		l.Case(family + "/panic")
		return
	}
	lit = c05Classify(s)
	// the conversion used by every builtin taking a number, and the builtin itself
	var b *c05Builtins
	if forceBuiltin || lit.verdict == 'D' || got != nil {
		var viaScan vals.Num
		var scanErr error
		if p := vk.Try(func() { scanErr = vals.ScanToGo(s, &viaScan) }); p != "" {
			k.c.Violate("scantogo-panic:"+vk.PanicSite(p), fmt.Sprintf("vals.ScanToGo(%q, *Num) panicked: %s", c05Short(s), p), s)
		} else if (scanErr != nil) != (got == nil) || (scanErr == nil && !c05Same(got, viaScan)) {
			k.c.Violate("scantogo-differs-from-parsenum", fmt.Sprintf("ScanToGo(%q, *Num) = %s, err %v; ParseNum = %s", c05Short(s), c05Show(viaScan), scanErr, c05Show(got)), s)
		}
		b = c05GetBuiltins()
		defer c05PutBuiltins(b)
		k.cnt.builtinCalls.Add(1)
		out, exc, ab := b.call(b.num, s)
		if ab != "" {
			k.c.Violate("num-builtin-abnormal", fmt.Sprintf("num %q: %s", c05Short(s), ab), s)
		} else if !c05Same(got, out) {
			k.c.Violate("num-builtin-differs-from-parsenum", fmt.Sprintf("num %q gives %s (exception %v) but vals.ParseNum gives %s", c05Short(s), c05Show(out), exc, c05Show(got)), s)
		}
	}
	if lit.verdict == 'X' && got == nil {
		// the bulk of the space: no shared counter here (the class count is the record)
		l.Case(c05XRejected[family])
		return
	}
	class := family + "/" + string(lit.verdict) + "/" + lit.kind + "/" + lit.feat + "/" + c05TypeName(got)
	switch lit.verdict {
	case 'D':
		var want vals.Num
		if lit.isFloat {
			want = lit.f
		} else {
			want = c05Canon(lit.exact)
		}
		kind := lit.kind
		if strings.Contains(lit.feat, "u") {
			kind += "+underscore"
		}
		switch {
		case got == nil && lit.overflow:
			k.c.Violate("doc-float-overflow-rejected", fmt.Sprintf("num %q raises an exception (ParseNum returns nil); the literal is in the documented floating-point syntax and its correctly rounded IEEE 754 value is %v", c05Short(s), lit.f), s)
		case got == nil:
			k.c.Violate("doc-literal-rejected:"+kind, fmt.Sprintf("num %q raises an exception (ParseNum returns nil); documented %s literal with value %s", c05Short(s), lit.kind, c05Show(want)), s)
		case c05TypeName(got) != c05TypeName(want):
			k.c.Violate("doc-literal-wrong-type:"+kind+"->"+c05TypeName(got), fmt.Sprintf("num %q = %s; documented %s literal, want %s", c05Short(s), c05Show(got), lit.kind, c05Show(want)), s)
		case !c05Same(got, want):
			k.c.Violate("doc-literal-wrong-value:"+kind, fmt.Sprintf("num %q = %s; documented %s literal, want %s", c05Short(s), c05Show(got), lit.kind, c05Show(want)), s)
		default:
			k.cnt.docAccepted.Add(1)
		}
		if lit.overflow {
			class += "/overflow"
		}
	case 'M':
		if got != nil {
			k.cnt.maybeAccepted.Add(1)
			if _, isF := got.(float64); isF && len(s) > 1 && !strings.ContainsAny(s, ".eEpPxXnN") {
				// e.g. "09": an integer-looking string with a leading zero that
				// is not valid octal becomes an inexact number; undocumented, not judged
				k.cnt.leadingZeroAsFloat.Add(1)
				class += "/intlike-as-float"
			}
		} else {
			k.cnt.maybeRejected.Add(1)
		}
	case 'X':
		if got != nil {
			k.c.Violate("nonnumber-accepted:"+c05TypeName(got), fmt.Sprintf("num %q = %s, but the string is not a number in any syntax; want an exception", c05Short(s), c05Show(got)), s)
		}
	}
	if got != nil {
		if why := c05NonCanonical(got); why != "" {
			k.c.Violate("noncanonical-result", fmt.Sprintf("num %q = %s: %s", c05Short(s), c05Show(got), why), s)
		}
		// every number num can produce is a typed number: it must round-trip too
		class += "|" + k.roundTrip(got, b)
	}
	l.Case(class)
	return lit, got
}

// ---------------------------------------------------------------------------
// enumerated spaces
// ---------------------------------------------------------------------------

var c05Alpha1 = []string{"0", "1", "7", "9", "a", "f", "x", "o", "b", "e", "E", ".", "_", "/", "+", "-", "I", "n", "N"}
var c05Alpha2 = []string{"0", "1", "2", "8", "A", "F", "X", "O", "B", "E", ".", "_", "/", "-", "i", "n", "f", "a", "N"}

// strings outside the alphabets with a fixed expected reading
var c05Extra = []string{" 1", "1 ", "1\n", "\t1", "1\x00", "١", "１", "1,000", "1'000", "∞", "--1", "1e1e1", "1..2", "1/2/3", "½", "0x", "0b", "0o",
	"1 000", "+", "-", ".", "e", "E1", "_", "/", "1/", "/1", "0x/1", "nan/1", "1/nan", "inf/inf", "NaN", "nan", "NAN", "+Inf", "-Inf", "+INF", "-inf", "+inf",
	"Inf", "inf", "Infinity", "-Infinity", "+nan", "-nan", "0x1p-2", "0X1P+2", "1p2", "1_000_000", "1.234_56e3", "1_2_3", "0xA", "0o12", "0b1010", "010", "1/2", "0x10/100",
	"10.0", "1e1", "1.0e1", "9223372036854775807", "9223372036854775808", "-9223372036854775808", "-9223372036854775809", "1e308", "1e309", "-1e309",
	"1.7976931348623157e308", "1.7976931348623158e308", "1.7976931348623159e308", "179769313486231580793728971405303415079934132710037826936173778980444968292764750946649017977587207096330286416692887910946555547851940402630657488671505820681908902000708383676273854845817711531764475730270069855571366959622842914819860834936475292719074168444365510704342711559699508093042880177904174497791.0",
	"4.9e-324", "2.4703282292062327e-324", "2.4703282292062328e-324", "2.47e-324", "1e-400", "-1e-400", "2.2250738585072011e-308", "2.2250738585072014e-308",
	"9007199254740993.0", "9007199254740992.5", "9007199254740993e0", "0.1", "0.30000000000000004", "-0", "-0.0", "-0e0", "-0/1", "0/1", "4/2", "-6/3", "1/0", "0/0"}

func c05IntFamily(kMax, pMax int) []*big.Int {
	var out []*big.Int
	seen := map[string]bool{}
	add := func(v *big.Int) {
		for _, s := range []int{1, -1} {
			w := new(big.Int).Set(v)
			if s < 0 {
				w.Neg(w)
			}
			if !seen[w.String()] {
				seen[w.String()] = true
				out = append(out, w)
			}
		}
	}
	for i := 0; i <= 1100; i++ {
		add(big.NewInt(int64(i)))
	}
	for k := 0; k <= kMax; k++ {
		for d := -1; d <= 1; d++ {
			v := new(big.Int).Lsh(big.NewInt(1), uint(k))
			add(v.Add(v, big.NewInt(int64(d))))
		}
	}
	for k := 0; k <= pMax; k++ {
		for d := -1; d <= 1; d++ {
			v := new(big.Int).Exp(c05Ten, big.NewInt(int64(k)), nil)
			add(v.Add(v, big.NewInt(int64(d))))
		}
	}
	return out
}

func c05Mantissas(thorough bool) []uint64 {
	ms := []uint64{0, 1, 2, 1 << 51, 1<<52 - 1, 0x5555555555555, 0xAAAAAAAAAAAAA, 1 << 26}
	seen := map[uint64]bool{}
	var out []uint64
	add := func(m uint64) {
		m &= 1<<52 - 1
		if !seen[m] {
			seen[m] = true
			out = append(out, m)
		}
	}
	for _, m := range ms {
		add(m)
	}
	for k := 0; k < 52; k++ {
		add(1 << uint(k))
		add(1<<52 - 1<<uint(k))
		add(1<<uint(k) - 1)
	}
	if thorough {
		for k := uint64(0); k < 500; k++ {
			add(k)
			add(1<<52 - 1 - k)
		}
		for j := uint64(0); j < 1024; j++ {
			add(j << 42)
			add(j<<42 | 1)
		}
	}
	return out
}

// c05WriteInt writes a non-negative integer in one of the documented syntaxes.
func c05WriteInt(v *big.Int, format int, us int) string {
	var prefix, digits string
	switch format {
	case 0:
		digits = v.Text(10)
	case 1:
		prefix, digits = "0x", v.Text(16)
	case 2:
		prefix, digits = "0X", strings.ToUpper(v.Text(16))
	case 3:
		prefix, digits = "0o", v.Text(8)
	case 4:
		prefix, digits = "0O", v.Text(8)
	case 5:
		prefix, digits = "0b", v.Text(2)
	case 6:
		prefix, digits = "0B", v.Text(2)
	case 7: // legacy octal: a leading zero digit
		digits = "0" + v.Text(8)
	}
	return prefix + c05Underscore(digits, us)
}

// c05Underscore: 0 none, 1 groups of three from the right, 2 between all digits.
func c05Underscore(digits string, us int) string {
	if us == 0 || len(digits) < 2 {
		return digits
	}
	var sb strings.Builder
	for i := 0; i < len(digits); i++ {
		if i > 0 && (us == 2 || (len(digits)-i)%3 == 0) {
			sb.WriteByte('_')
		}
		sb.WriteByte(digits[i])
	}
	return sb.String()
}

var c05FloatMantissas = []string{"1", "9", "15", "1.5", "0.1", "0.5", "123.456", "9007199254740993", "9007199254740992.5", "9007199254740991.5",
	"1.7976931348623157", "1.7976931348623158", "1.79769313486231580793728971405303", "1.79769313486231580793728971405304", "1.7976931348623159",
	"4.9", "2.4703282292062327", "2.4703282292062328", "2.2250738585072011", "2.2250738585072014", "0.000001", "5", "4.35", "0.3", "8.41", "100000000000000.0", "1000000000000000.0", "0.00001", "0.0001"}

func TestVerifC05(t *testing.T) {
	vk.Run(t, "C05", "exploration", func(c *vk.Ctx) {
		nLit := vk.Pick(c, 6, 7)
		nLit2 := vk.Pick(c, 5, 6)
		kMax := vk.Pick(c, 70, 300)
		pMax := vk.Pick(c, 25, 100)
		dMax := vk.Pick(c, 999, 9999)
		eLo, eHi := vk.Pick(c, -25, -330), vk.Pick(c, 25, 310)
		c.Rule(fmt.Sprintf("(1) literals: every string of <=%d symbols over the alphabet %q and of <=%d symbols over %q plus %d fixed strings, each read by an independent grammar of the documented number syntaxes (documented => value, type and canonical form demanded; not a number in any syntax => exception demanded; in between => not judged); (2) structured literals: every integer +-(2^k+d), k<=%d, +-(10^k+d), k<=%d, d in -1..1, and 0..1100 written in 8 documented integer syntaxes x 3 underscore placements x sign, rationals over them, and %d float mantissas x exponents -330..310 x 4 exponent spellings x sign x underscores; (3) typed numbers: floats sign x exponent 0..2047 x a mantissa set, d*10^e for d<=%d, e in %d..%d, the integer family as floats, all 64 single-bit patterns; the integer family; rationals p/q over it; plus every number produced in (1) and (2): ParseNum(ToString(x)) must be the same number with the same type (floats bit-identical, NaN stays NaN). class = (family, oracle verdict, syntax kind, features, result type, string-form shape and length)", nLit, c05Alpha1, nLit2, c05Alpha2, len(c05Extra), kMax, pMax, len(c05FloatMantissas), dMax, eLo, eHi))
		c.Assume("the oracle for float literals is exact rational arithmetic (math/big) rounded with big.Rat.Float64; math/big arithmetic is trusted",
			"num / to-string are exercised both as vals.ParseNum / vals.ToString / vals.ScanToGo(*Num) and as the real builtins called on an Evaler (for all documented or accepted strings, all strings of <=3 symbols and the base typed-number families)",
			"strings that are neither in a documented syntax nor clearly not a number (e.g. +1, 1., .5, 09, 1__0, 0x1p-2, Inf, 1/0) are not judged, only counted",
			"a documented float literal too large for float64 is expected to give the IEEE 754 correctly rounded value (infinity); its rejection is reported under its own key doc-float-overflow-rejected",
			"machine int is 64 bit")
		k := &c05Checker{c: c}

		// harness self-check: the grammar must read the examples of the reference as documented
		for s, want := range map[string]string{"10": "10", "0xA": "10", "0o12": "10", "0b1010": "10", "010": "8", "1/2": "1/2", "0x10/100": "4/25",
			"1_000_000": "1000000", "1_2_3": "123", "-0X1f": "-31"} {
			lit := c05Classify(s)
			if lit.verdict != 'D' || lit.isFloat || lit.exact.RatString() != want {
				panic(fmt.Sprintf("oracle self-check: %q read as %+v, want exact %s", s, lit, want))
			}
		}
		for s, want := range map[string]float64{"10.0": 10, "1e1": 10, "1.0e1": 10, "1.234_56e3": 1234.56, "1.23456e3": 1234.56, "+Inf": math.Inf(1), "-inf": math.Inf(-1), "1E-2": 0.01} {
			lit := c05Classify(s)
			if lit.verdict != 'D' || !lit.isFloat || lit.f != want {
				panic(fmt.Sprintf("oracle self-check: %q read as %+v, want float %v", s, lit, want))
			}
		}
		for _, s := range []string{"", "x", "1x", "--1", " 1", "1/2/3", "e1", ".", "abc", "0b1e1", "1,0"} {
			if lit := c05Classify(s); lit.verdict != 'X' {
				panic(fmt.Sprintf("oracle self-check: %q read as %c, want X", s, lit.verdict))
			}
		}
		for _, s := range []string{"+1", "1.", ".5", "09", "1__0", "0x1p-2", "Inf", "1/0", "0x_1", "_1", "1_", "01.5", "1e", "0x"} {
			if lit := c05Classify(s); lit.verdict != 'M' {
				panic(fmt.Sprintf("oracle self-check: %q read as %c, want M", s, lit.verdict))
			}
		}

		for _, s := range []string{"-0X1f", "0b1_0/0o7", "1.234_56e3", "-0e0", "010", "9223372036854775808", "1e309", "09"} {
			c.Sample(fmt.Sprintf("num %q: oracle verdict %c, result %s", s, c05Classify(s).verdict, c05Show(vals.ParseNum(s))))
		}

		// (1) literal strings
		l0 := vk.NewLocal()
		for _, s := range c05Extra {
			k.literal(l0, s, "x", true)
		}
		c.Merge(l0)
		for ai, alpha := range [][]string{c05Alpha1, c05Alpha2} {
			fam := "a" + strconv.Itoa(ai+1)
			n := nLit
			if ai == 1 {
				n = nLit2
			}
			c.EnumSeqs(len(alpha), n, func(l *vk.Local, idx []int) {
				s := vk.Join(alpha, idx)
				k.literal(l, s, fam, len(idx) <= 3)
			})
		}

		// (2) structured literals
		ints := c05IntFamily(kMax, pMax)
		var pos []*big.Int
		for _, v := range ints {
			if v.Sign() >= 0 {
				pos = append(pos, v)
			}
		}
		c.Parallel(len(pos), func(l *vk.Local, i int) {
			v := pos[i]
			for format := 0; format < 8; format++ {
				for us := 0; us < 3; us++ {
					for _, sign := range []string{"", "-"} {
						s := sign + c05WriteInt(v, format, us)
						lit, _ := k.literal(l, s, "si", false)
						want := new(big.Rat).SetInt(v)
						if sign == "-" {
							want.Neg(want)
						}
						if lit.verdict != 'D' || lit.isFloat || lit.exact.Cmp(want) != 0 {
							panic(fmt.Sprintf("oracle self-check: constructed integer literal %q (value %s) read as %+v", s, want.RatString(), lit))
						}
					}
				}
			}
		})
		// rationals: numerators from the family, a fixed denominator set, several syntaxes
		dens := []*big.Int{big.NewInt(1), big.NewInt(2), big.NewInt(3), big.NewInt(7), big.NewInt(10), big.NewInt(100), big.NewInt(1 << 20),
			new(big.Int).Lsh(big.NewInt(1), 63), new(big.Int).Add(new(big.Int).Lsh(big.NewInt(1), 64), big.NewInt(1)), new(big.Int).Exp(c05Ten, big.NewInt(20), nil)}
		c.Parallel(len(pos), func(l *vk.Local, i int) {
			v := pos[i]
			for di, d := range dens {
				for _, fm := range [][2]int{{0, 0}, {1, 0}, {0, 2}, {7, 3}, {5, 1}} {
					us := (i + di) % 3
					for _, sign := range []string{"", "-"} {
						s := sign + c05WriteInt(v, fm[0], us) + "/" + c05WriteInt(d, fm[1], us)
						lit, _ := k.literal(l, s, "sr", false)
						want := new(big.Rat).SetFrac(v, d)
						if sign == "-" {
							want.Neg(want)
						}
						if lit.verdict != 'D' || lit.isFloat || lit.exact.Cmp(want) != 0 {
							panic(fmt.Sprintf("oracle self-check: constructed rational literal %q (value %s) read as %+v", s, want.RatString(), lit))
						}
					}
				}
			}
		})
		// floats: mantissa x exponent x spelling
		nExp := 310 - (-330) + 1
		c.Parallel(len(c05FloatMantissas)*nExp, func(l *vk.Local, i int) {
			m := c05FloatMantissas[i/nExp]
			e := -330 + i%nExp
			mu := m
			if j := strings.IndexByte(m, '.'); j >= 0 {
				mu = c05Underscore(m[:j], 1) + "." + c05Underscore(m[j+1:], 2)
			} else {
				mu = c05Underscore(m, 1)
			}
			ae := e
			es := "+"
			if e < 0 {
				ae, es = -e, "-"
			}
			spell := []string{m + "e" + strconv.Itoa(e), m + "E" + es + strconv.Itoa(ae), mu + "e" + es + "0" + c05Underscore(strconv.Itoa(ae), 2)}
			if e == 0 && strings.Contains(m, ".") {
				spell = append(spell, m, mu)
			}
			for _, sp := range spell {
				for _, sign := range []string{"", "-"} {
					s := sign + sp
					lit, _ := k.literal(l, s, "sf", false)
					if lit.verdict != 'D' || !lit.isFloat {
						panic(fmt.Sprintf("oracle self-check: constructed float literal %q read as %+v", s, lit))
					}
				}
			}
		})

		// (3) typed numbers
		ms := c05Mantissas(c.Thorough())
		base := 8 // the first 8 mantissas (the plan's set) also go through the real builtins
		c.Parallel(2048, func(l *vk.Local, e int) {
			b := c05GetBuiltins()
			defer c05PutBuiltins(b)
			for mi, m := range ms {
				for sign := uint64(0); sign < 2; sign++ {
					x := math.Float64frombits(sign<<63 | uint64(e)<<52 | m)
					var bb *c05Builtins
					if mi < base {
						bb = b
					}
					l.Case("tf/" + k.roundTrip(x, bb))
				}
			}
		})
		c.Parallel(dMax, func(l *vk.Local, i int) {
			b := c05GetBuiltins()
			defer c05PutBuiltins(b)
			d := i + 1
			for e := eLo; e <= eHi; e++ {
				x, err := strconv.ParseFloat(strconv.Itoa(d)+"e"+strconv.Itoa(e), 64)
				if err != nil {
					continue
				}
				var bb *c05Builtins
				if d <= 999 && e >= -25 && e <= 25 {
					bb = b
				}
				l.Case("td/" + k.roundTrip(x, bb))
				l.Case("td/" + k.roundTrip(-x, nil))
			}
		})
		l0 = vk.NewLocal()
		b0 := c05GetBuiltins()
		for i := 0; i < 64; i++ {
			l0.Case("tb/" + k.roundTrip(math.Float64frombits(1<<uint(i)), b0))
		}
		c.Merge(l0)
		c.Parallel(len(ints), func(l *vk.Local, i int) {
			b := c05GetBuiltins()
			defer c05PutBuiltins(b)
			v := ints[i]
			x := c05Canon(new(big.Rat).SetInt(v))
			l.Case("ti/" + k.roundTrip(x, b))
			f, _ := new(big.Float).SetInt(v).Float64()
			l.Case("tif/" + k.roundTrip(f, b))
			for _, d := range dens {
				r := new(big.Rat).SetFrac(v, d)
				l.Case("tr/" + k.roundTrip(c05Canon(r), b))
				if v.Sign() != 0 {
					l.Case("tr/" + k.roundTrip(c05Canon(new(big.Rat).Inv(r)), nil))
				}
				rf, _ := r.Float64()
				l.Case("trf/" + k.roundTrip(rf, nil))
			}
		})
		c.Sample(fmt.Sprintf("float bits 0x8000000000000000 -> %q", vals.ToString(math.Copysign(0, -1))))
		c.Sample(fmt.Sprintf("float 1e15 -> %q; float 123456789012345 -> %q", vals.ToString(1e15), vals.ToString(123456789012345.0)))

		c.Set("literal_max_len", []int{nLit, nLit2})
		c.Set("documented_literals_accepted_with_right_value", k.cnt.docAccepted.Load())
		c.Set("not_judged_accepted", k.cnt.maybeAccepted.Load())
		c.Set("not_judged_rejected", k.cnt.maybeRejected.Load())
		c.Set("not_judged_intlike_string_read_as_float", k.cnt.leadingZeroAsFloat.Load())
		c.Set("clearly_not_numbers_rejected", "counted by the classes <family>/X/rejected (see largest_classes)")
		c.Set("round_trips_checked", k.cnt.roundTrips.Load())
		c.Set("real_builtin_calls", k.cnt.builtinCalls.Load())
		c.Set("float_mantissa_patterns", len(ms))
		c.Set("integer_family_size", len(ints))
	})
}
