//go:build verif

// Package c12 checks property C12: inexact arithmetic follows IEEE 754 after
// the documented conversion of exact arguments.
//
// The oracle does not use the machine's floating-point unit nor
// big.Rat.Float64: every IEEE operation is evaluated on bit patterns with
// exact integer arithmetic (math/big integers) and one round-to-nearest-even
// routine written for this check. The native Go operation is computed next to
// it only as a self-check of the oracle (a disagreement is a harness error, not
// a violation).
package c12

import (
	"fmt"
	"math"
	"math/big"
	"strconv"
	"strings"
	"sync/atomic"
	"testing"

	"src.elv.sh/pkg/eval"
	"src.elv.sh/pkg/eval/errs"
	mathmod "src.elv.sh/pkg/mods/math"
	"src.elv.sh/pkg/zzverif/vk"
)

// ---------------------------------------------------------------------------
// IEEE 754 binary64 on bit patterns, with exact integer arithmetic
// ---------------------------------------------------------------------------

const (
	c12Sign   = uint64(1) << 63
	c12InfB   = uint64(0x7ff) << 52
	c12NaNB   = uint64(0x7ff8000000000001)
	c12Hidden = uint64(1) << 52
)

func c12IsNaN(b uint64) bool  { return b&^c12Sign > c12InfB }
func c12IsInf(b uint64) bool  { return b&^c12Sign == c12InfB }
func c12IsZero(b uint64) bool { return b&^c12Sign == 0 }

// c12Decomp splits a finite pattern: |x| = m * 2^e exactly.
func c12Decomp(b uint64) (neg bool, m uint64, e int) {
	neg = b>>63 == 1
	ex := int(b >> 52 & 0x7ff)
	fr := b & (c12Hidden - 1)
	if ex == 0 {
		return neg, fr, -1074
	}
	return neg, fr | c12Hidden, ex - 1075
}

// c12RoundQ returns the binary64 nearest (ties to even) to
// (-1)^neg * num/den * 2^e2, for num >= 0, den > 0; overflow gives an
// infinity, underflow a zero, both of the sign given.
func c12RoundQ(neg bool, num, den *big.Int, e2 int) uint64 {
	var bits uint64
	if num.Sign() != 0 {
		if e2 > 0 {
			num = new(big.Int).Lsh(num, uint(e2))
		} else if e2 < 0 {
			den = new(big.Int).Lsh(den, uint(-e2))
		}
		// E with 2^E <= num/den < 2^(E+1)
		E := num.BitLen() - den.BitLen()
		var c int
		if E >= 0 {
			c = num.Cmp(new(big.Int).Lsh(den, uint(E)))
		} else {
			c = new(big.Int).Lsh(num, uint(-E)).Cmp(den)
		}
		if c < 0 {
			E--
		}
		u := E - 52 // exponent of the unit in the last place
		if u < -1074 {
			u = -1074
		}
		n, d := num, den
		if u > 0 {
			d = new(big.Int).Lsh(den, uint(u))
		} else if u < 0 {
			n = new(big.Int).Lsh(num, uint(-u))
		}
		q, r := new(big.Int).QuoRem(n, d, new(big.Int))
		r.Lsh(r, 1)
		half := r.Cmp(d)
		qq := q.Uint64()
		if half > 0 || (half == 0 && qq&1 == 1) {
			qq++
		}
		if qq == c12Hidden<<1 {
			qq = c12Hidden
			u++
		}
		if qq < c12Hidden {
			bits = qq // subnormal or zero (u == -1074)
		} else if be := u + 1075; be >= 2047 {
			bits = c12InfB
		} else {
			bits = uint64(be)<<52 | (qq - c12Hidden)
		}
	}
	if neg {
		bits |= c12Sign
	}
	return bits
}

var c12One = big.NewInt(1)

func c12Add(a, b uint64) uint64 {
	switch {
	case c12IsNaN(a) || c12IsNaN(b):
		return c12NaNB
	case c12IsInf(a):
		if c12IsInf(b) && a != b {
			return c12NaNB
		}
		return a
	case c12IsInf(b):
		return b
	case c12IsZero(a) && c12IsZero(b):
		if a == b {
			return a
		}
		return 0
	}
	na, ma, ea := c12Decomp(a)
	nb, mb, eb := c12Decomp(b)
	e := ea
	if eb < e {
		e = eb
	}
	A := new(big.Int).Lsh(new(big.Int).SetUint64(ma), uint(ea-e))
	B := new(big.Int).Lsh(new(big.Int).SetUint64(mb), uint(eb-e))
	if na {
		A.Neg(A)
	}
	if nb {
		B.Neg(B)
	}
	A.Add(A, B)
	if A.Sign() == 0 {
		return 0 // exact cancellation gives +0 in round-to-nearest
	}
	neg := A.Sign() < 0
	return c12RoundQ(neg, A.Abs(A), c12One, e)
}

func c12Neg(a uint64) uint64 {
	if c12IsNaN(a) {
		return c12NaNB
	}
	return a ^ c12Sign
}

func c12Sub(a, b uint64) uint64 { return c12Add(a, c12Neg(b)) }

func c12Mul(a, b uint64) uint64 {
	if c12IsNaN(a) || c12IsNaN(b) {
		return c12NaNB
	}
	s := (a ^ b) & c12Sign
	switch {
	case c12IsInf(a) && c12IsZero(b), c12IsZero(a) && c12IsInf(b):
		return c12NaNB
	case c12IsInf(a) || c12IsInf(b):
		return s | c12InfB
	case c12IsZero(a) || c12IsZero(b):
		return s
	}
	_, ma, ea := c12Decomp(a)
	_, mb, eb := c12Decomp(b)
	p := new(big.Int).SetUint64(ma)
	p.Mul(p, new(big.Int).SetUint64(mb))
	return c12RoundQ(s != 0, p, c12One, ea+eb)
}

func c12Div(a, b uint64) uint64 {
	if c12IsNaN(a) || c12IsNaN(b) {
		return c12NaNB
	}
	s := (a ^ b) & c12Sign
	switch {
	case c12IsInf(a) && c12IsInf(b), c12IsZero(a) && c12IsZero(b):
		return c12NaNB
	case c12IsInf(a), c12IsZero(b):
		return s | c12InfB
	case c12IsInf(b), c12IsZero(a):
		return s
	}
	_, ma, ea := c12Decomp(a)
	_, mb, eb := c12Decomp(b)
	return c12RoundQ(s != 0, new(big.Int).SetUint64(ma), new(big.Int).SetUint64(mb), ea-eb)
}

// c12Integral applies one of the rounding-to-integer functions.
func c12Integral(fn string, a uint64) uint64 {
	if c12IsNaN(a) {
		return c12NaNB
	}
	if fn == "abs" {
		return a &^ c12Sign
	}
	if c12IsInf(a) || c12IsZero(a) {
		return a // documented: the special values are themselves
	}
	neg, m, e := c12Decomp(a)
	if e >= 0 {
		return a
	}
	s := uint(-e)
	var q, frac uint64
	half := -1 // frac compared with 1/2
	if s > 63 {
		q, frac = 0, m // m < 2^53 <= 2^(s-1)
	} else {
		q, frac = m>>s, m&(uint64(1)<<s-1)
		h := uint64(1) << (s - 1)
		switch {
		case frac > h:
			half = 1
		case frac == h:
			half = 0
		}
	}
	switch fn {
	case "trunc":
	case "floor":
		if neg && frac != 0 {
			q++
		}
	case "ceil":
		if !neg && frac != 0 {
			q++
		}
	case "round":
		if half >= 0 {
			q++
		}
	case "round-to-even":
		if half > 0 || (half == 0 && q&1 == 1) {
			q++
		}
	default:
		panic("bad fn " + fn)
	}
	return c12RoundQ(neg, new(big.Int).SetUint64(q), c12One, 0)
}

func c12SameBits(a, b uint64) bool {
	return a == b || (c12IsNaN(a) && c12IsNaN(b))
}

// c12SelfCheck compares the bit-level oracle with the machine; a difference is
// a defect of the harness (or of the machine), never of elvish.
func c12SelfCheck(what string, soft uint64, native float64, args ...uint64) {
	if !c12SameBits(soft, math.Float64bits(native)) {
		panic(fmt.Sprintf("oracle self-check failed: %s %x: oracle %x, machine %x", what, args, soft, math.Float64bits(native)))
	}
}

func c12F(b uint64) float64 { return math.Float64frombits(b) }

func c12AddC(a, b uint64) uint64 {
	r := c12Add(a, b)
	c12SelfCheck("add", r, c12F(a)+c12F(b), a, b)
	return r
}
func c12SubC(a, b uint64) uint64 {
	r := c12Sub(a, b)
	c12SelfCheck("sub", r, c12F(a)-c12F(b), a, b)
	return r
}
func c12MulC(a, b uint64) uint64 {
	r := c12Mul(a, b)
	c12SelfCheck("mul", r, c12F(a)*c12F(b), a, b)
	return r
}
func c12DivC(a, b uint64) uint64 {
	r := c12Div(a, b)
	c12SelfCheck("div", r, c12F(a)/c12F(b), a, b)
	return r
}

var c12Native = map[string]func(float64) float64{
	"floor": math.Floor, "ceil": math.Ceil, "round": math.Round,
	"round-to-even": math.RoundToEven, "trunc": math.Trunc, "abs": math.Abs,
}

func c12IntegralC(fn string, a uint64) uint64 {
	r := c12Integral(fn, a)
	c12SelfCheck(fn, r, c12Native[fn](c12F(a)), a)
	return r
}

// ---------------------------------------------------------------------------
// values
// ---------------------------------------------------------------------------

// c12Val is one operand: v is int, *big.Int (outside the int range), *big.Rat
// (not an integer) or float64; str is a documented literal for it.
type c12Val struct {
	name string
	v    any
	str  string
	kind byte     // z exact zero, i int, b big int, r rational, o float zero, f finite float, I infinity, n NaN
	conv uint64   // the documented conversion to floating point (bit pattern)
	rat  *big.Rat // exact value (nil for infinities and NaN)
}

var (
	c12MinI64 = new(big.Int).Lsh(big.NewInt(-1), 63)
	c12MaxI64 = new(big.Int).Sub(new(big.Int).Lsh(big.NewInt(1), 63), big.NewInt(1))
)

func c12MkExact(name string, r *big.Rat) c12Val {
	v := c12Val{name: name, rat: r}
	if r.IsInt() {
		n := r.Num()
		if n.Cmp(c12MinI64) >= 0 && n.Cmp(c12MaxI64) <= 0 {
			// machine integer (64-bit int assumed, checked in the test)
			v.v = int(n.Int64())
			v.kind = 'i'
			if n.Sign() == 0 {
				v.kind = 'z'
			}
			v.conv = c12RoundQ(n.Sign() < 0, new(big.Int).Abs(n), c12One, 0)
			if n.Sign() == 0 {
				v.conv = 0
			}
		} else {
			// documented: integers outside the signed 64-bit range become an infinity
			v.v = new(big.Int).Set(n)
			v.kind = 'b'
			v.conv = c12InfB
			if n.Sign() < 0 {
				v.conv |= c12Sign
			}
		}
		v.str = n.String()
		return v
	}
	v.v = new(big.Rat).Set(r)
	v.kind = 'r'
	v.conv = c12RoundQ(r.Sign() < 0, new(big.Int).Abs(r.Num()), r.Denom(), 0)
	v.str = r.Num().String() + "/" + r.Denom().String()
	return v
}

func c12MkFloat(name string, f float64) c12Val {
	b := math.Float64bits(f)
	v := c12Val{name: name, v: f, conv: b}
	switch {
	case c12IsNaN(b):
		v.kind, v.str = 'n', "NaN"
	case c12IsInf(b):
		v.kind, v.str = 'I', "+Inf"
		if b&c12Sign != 0 {
			v.str = "-Inf"
		}
	default:
		v.kind = 'f'
		if c12IsZero(b) {
			v.kind = 'o'
		}
		neg, m, e := c12Decomp(b)
		r := new(big.Rat).SetInt(new(big.Int).SetUint64(m))
		if e >= 0 {
			r.Mul(r, new(big.Rat).SetInt(new(big.Int).Lsh(c12One, uint(e))))
		} else {
			r.Quo(r, new(big.Rat).SetInt(new(big.Int).Lsh(c12One, uint(-e))))
		}
		if neg {
			r.Neg(r)
		}
		v.rat = r
		v.str = strconv.FormatFloat(f, 'g', -1, 64)
		if !strings.ContainsAny(v.str, ".e") {
			v.str += ".0"
		}
	}
	return v
}

func c12Pow(base int64, k int) *big.Int {
	return new(big.Int).Exp(big.NewInt(base), big.NewInt(int64(k)), nil)
}

func c12R(n, d *big.Int) *big.Rat { return new(big.Rat).SetFrac(n, d) }

func c12I(n *big.Int) *big.Rat { return new(big.Rat).SetInt(n) }

func c12Plus(n *big.Int, d int64) *big.Int { return new(big.Int).Add(n, big.NewInt(d)) }

// c12Pool builds the operand pool; extended adds the thorough-only values.
func c12Pool(extended bool) []c12Val {
	var p []c12Val
	fl := func(name string, f float64) {
		p = append(p, c12MkFloat(name, f))
	}
	flpm := func(name string, f float64) {
		fl(name, f)
		fl("-"+name, -f)
	}
	ex := func(name string, r *big.Rat) { p = append(p, c12MkExact(name, r)) }
	expm := func(name string, r *big.Rat) {
		ex(name, r)
		ex("-"+name, new(big.Rat).Neg(r))
	}
	minSub := math.Float64frombits(1)
	// floats of the plan
	flpm("0.0", 0)
	flpm("1.0", 1)
	flpm("1.5", 1.5)
	flpm("2^53.0", 1<<53)
	flpm("maxfloat", math.MaxFloat64)
	flpm("minsub", minSub)
	flpm("Inf", math.Inf(1))
	fl("NaN", math.NaN())
	fl("0.1", 0.1)
	fl("1e308", 1e308)
	// rounding ties and edges, underflow ties, overflow edges
	flpm("0.5", 0.5)
	flpm("2.5", 2.5)
	fl("0.49999999999999994", 0.49999999999999994)
	fl("2^52+0.5", 4503599627370496.5)
	fl("2^53-1.0", 9007199254740991)
	fl("2^-1022", math.Float64frombits(1<<52))
	fl("2^-537", math.Ldexp(1, -537)) // its square is half of minsub: a tie
	fl("3*2^-538", math.Ldexp(3, -538))
	fl("2^1023", math.Ldexp(1, 1023))
	fl("2^63.0", math.Ldexp(1, 63))
	fl("-2^63.0", -math.Ldexp(1, 63))
	fl("3.0", 3)
	// exact numbers: machine integers
	ex("0", new(big.Rat))
	expm("1", big.NewRat(1, 1))
	ex("2", big.NewRat(2, 1))
	ex("3", big.NewRat(3, 1))
	ex("-7", big.NewRat(-7, 1))
	ex("2^53+1", c12I(c12Plus(c12Pow(2, 53), 1))) // tie, to even 2^53
	ex("2^53+3", c12I(c12Plus(c12Pow(2, 53), 3))) // tie, to even 2^53+4
	ex("maxint", c12I(c12MaxI64))
	ex("minint", c12I(c12MinI64))
	// big integers
	ex("2^63", c12I(c12Pow(2, 63)))
	ex("-2^63-1", c12I(c12Plus(c12MinI64, -1)))
	ex("-2^64", c12I(new(big.Int).Neg(c12Pow(2, 64))))
	ex("3*2^1023", c12I(new(big.Int).Mul(big.NewInt(3), c12Pow(2, 1023))))
	expm("10^400", c12I(c12Pow(10, 400)))
	// rationals
	expm("1/2", big.NewRat(1, 2))
	expm("1/3", big.NewRat(1, 3))
	ex("3/2", big.NewRat(3, 2))
	ex("5/2", big.NewRat(5, 2))
	ex("-7/2", big.NewRat(-7, 2))
	ex("1/10", big.NewRat(1, 10))
	ex("(2^54+1)/2", c12R(c12Plus(c12Pow(2, 54), 1), big.NewInt(2))) // 2^53+1/2
	ex("(2^65+1)/2", c12R(c12Plus(c12Pow(2, 65), 1), big.NewInt(2))) // beyond int64, not an integer
	expm("1/10^400", c12R(big.NewInt(1), c12Pow(10, 400)))           // underflows to zero
	expm("10^400/3", c12R(c12Pow(10, 400), big.NewInt(3)))           // overflows
	ex("1/2^1075", c12R(big.NewInt(1), c12Pow(2, 1075)))             // half of minsub: tie to 0
	ex("3/2^1075", c12R(big.NewInt(3), c12Pow(2, 1075)))             // 1.5 minsub: tie to 2 minsub
	thr := new(big.Int).Sub(c12Pow(2, 1024), c12Pow(2, 970))         // overflow threshold
	thr2 := new(big.Int).Lsh(thr, 1)
	ex("ovf-thr+1/2", c12R(c12Plus(thr2, 1), big.NewInt(2)))  // rounds to +Inf
	ex("ovf-thr-1/2", c12R(c12Plus(thr2, -1), big.NewInt(2))) // rounds to maxfloat
	if extended {
		flpm("2.0", 2)
		fl("-0.1", -0.1)
		fl("-1e308", -1e308)
		fl("1e-308", 1e-308) // subnormal
		fl("-2^-1022", -math.Float64frombits(1<<52))
		fl("maxsub", math.Float64frombits(1<<52-1))
		fl("1+ulp", math.Float64frombits(math.Float64bits(1)+1))
		fl("1-ulp/2", math.Float64frombits(math.Float64bits(1)-1))
		fl("2^52+1.5", 4503599627370497.5)
		fl("-0.49999999999999994", -0.49999999999999994)
		fl("2^-1023*3", math.Ldexp(3, -1075+52))
		fl("-2^1023", -math.Ldexp(1, 1023))
		fl("2^64.0", math.Ldexp(1, 64))
		fl("1e16", 1e16)
		fl("0.3", 0.3)
		fl("-3.0", -3)
		ex("10", big.NewRat(10, 1))
		ex("-2", big.NewRat(-2, 1))
		ex("2^62", c12I(c12Pow(2, 62)))
		ex("-(2^53+1)", c12I(new(big.Int).Neg(c12Plus(c12Pow(2, 53), 1))))
		ex("2^63-513", c12I(c12Plus(c12Pow(2, 63), -513))) // tie at the top of the int range
		ex("2^64", c12I(c12Pow(2, 64)))
		ex("2^1024-2^970", c12I(thr))
		ex("2^63/3", c12R(c12Pow(2, 63), big.NewInt(3)))
		ex("-3/2", big.NewRat(-3, 2))
		ex("-5/2", big.NewRat(-5, 2))
		ex("3/10", big.NewRat(3, 10))
		ex("(2^1025-1)/2", c12R(c12Plus(c12Pow(2, 1025), -1), big.NewInt(2)))
		ex("-ovf-thr-1/2", c12R(new(big.Int).Neg(c12Plus(thr2, 1)), big.NewInt(2)))
		ex("5/2^1076", c12R(big.NewInt(5), c12Pow(2, 1076))) // 1.25 minsub
		ex("-1/2^1075", c12R(big.NewInt(-1), c12Pow(2, 1075)))
		ex("(2^53+1)/2^1127", c12R(c12Plus(c12Pow(2, 53), 1), c12Pow(2, 1127))) // tie among subnormal/normal boundary
	}
	return p
}

// c12WidePool is the second operand pool: rationals whose numerator or
// denominator lies between 2^53 and 2^63 (fits a machine word but is not a
// double, so converting the two parts separately rounds twice), with a few
// floats to meet them in + - * /.
func c12WidePool() []c12Val {
	var p []c12Val
	for _, f := range []float64{0, 1, 0.5, -1, 1e300, math.Copysign(0, -1)} {
		p = append(p, c12MkFloat(strconv.FormatFloat(f, 'g', -1, 64)+"f", f))
	}
	p53, p62, p63 := c12Pow(2, 53), c12Pow(2, 62), c12Pow(2, 63)
	type nb struct {
		name string
		v    *big.Int
	}
	wide := []nb{
		{"2^53+1", c12Plus(p53, 1)}, {"2^53+3", c12Plus(p53, 3)}, {"2^53+5", c12Plus(p53, 5)}, {"2^53+7", c12Plus(p53, 7)},
		{"-(2^53+9)", new(big.Int).Neg(c12Plus(p53, 9))}, {"2^62+1", c12Plus(p62, 1)}, {"2^63-1", c12Plus(p63, -1)},
	}
	dens := []nb{{"3", big.NewInt(3)}, {"7", big.NewInt(7)}, {"10", big.NewInt(10)}, {"2^53+1", c12Plus(p53, 1)}, {"2^62+3", c12Plus(p62, 3)}}
	seen := map[string]bool{}
	add := func(name string, n, d *big.Int) {
		r := new(big.Rat).SetFrac(n, d)
		if r.IsInt() || seen[r.String()] {
			return
		}
		seen[r.String()] = true
		p = append(p, c12MkExact(name, r))
	}
	for _, n := range wide {
		for _, d := range dens {
			add("("+n.name+")/"+"("+d.name+")", n.v, d.v)
		}
	}
	// the wide part in the denominator
	for _, n := range []int64{1, 7, -3, 10} {
		for _, d := range wide {
			add(fmt.Sprintf("%d/(%s)", n, d.name), big.NewInt(n), d.v)
		}
	}
	return p
}

func c12Show(v any) string {
	switch v := v.(type) {
	case nil:
		return "nothing"
	case float64:
		b := math.Float64bits(v)
		return fmt.Sprintf("float64(%v bits=%#x)", v, b)
	case int:
		return fmt.Sprintf("int(%d)", v)
	case *big.Int:
		return "bigint(" + c12Short(v.String()) + ")"
	case *big.Rat:
		return "rat(" + c12Short(v.String()) + ")"
	case string:
		return fmt.Sprintf("string(%q)", c12Short(v))
	}
	return fmt.Sprintf("%T(%v)", v, v)
}

func c12Short(s string) string {
	if len(s) > 48 {
		return fmt.Sprintf("%s...%s[%d chars]", s[:16], s[len(s)-8:], len(s))
	}
	return s
}

// ---------------------------------------------------------------------------
// calling the real commands
// ---------------------------------------------------------------------------

var c12Arith = []string{"+", "-", "*", "/"}
var c12Unary = []string{"inexact-num", "exact-num", "math:floor", "math:ceil", "math:round", "math:round-to-even", "math:trunc", "math:abs"}

type c12Env struct {
	ev    *eval.Evaler
	fns   map[string]eval.Callable
	ch    chan any
	ports []*eval.Port
}

var c12EnvPool = make(chan *c12Env, 64)

func c12GetEnv() *c12Env {
	select {
	case e := <-c12EnvPool:
		return e
	default:
	}
	ev := eval.NewEvaler()
	ev.ExtendGlobal(eval.BuildNs().AddNs("math", mathmod.Ns))
	e := &c12Env{ev: ev, fns: map[string]eval.Callable{}, ch: make(chan any, 256)}
	mathNs := ev.Global().IndexString("math:").Get().(*eval.Ns)
	for _, name := range append(append([]string{}, c12Arith...), c12Unary...) {
		if rest, ok := strings.CutPrefix(name, "math:"); ok {
			e.fns[name] = mathNs.IndexString(rest + "~").Get().(eval.Callable)
		} else {
			e.fns[name] = ev.Builtin().IndexString(name + "~").Get().(eval.Callable)
		}
	}
	e.ports = []*eval.Port{eval.DummyInputPort, {File: eval.DevNull, Chan: e.ch}, eval.DummyOutputPort}
	return e
}

func c12PutEnv(e *c12Env) {
	select {
	case c12EnvPool <- e:
	default:
	}
}

// c12Res is what a call did.
type c12Res struct {
	out      any    // the single value output
	exc      error  // reason of the exception raised
	abnormal string // panic / wrong number of outputs
	panicked bool
}

func (e *c12Env) call(name string, args []any) (r c12Res) {
	var err error
	if p := vk.Try(func() {
		err = e.ev.Call(e.fns[name], eval.CallCfg{Args: args}, eval.EvalCfg{Ports: e.ports})
	}); p != "" {
		r.abnormal, r.panicked = p, true
	}
	var outs []any
	for {
		select {
		case v := <-e.ch:
			outs = append(outs, v)
			continue
		default:
		}
		break
	}
	if r.panicked {
		return r
	}
	if err != nil {
		r.exc = err
		if x, ok := err.(eval.Exception); ok {
			r.exc = x.Reason()
		}
		if len(outs) != 0 {
			r.abnormal = fmt.Sprintf("raised %v but also output %d values", err, len(outs))
		}
		return r
	}
	if len(outs) != 1 {
		r.abnormal = fmt.Sprintf("output %d values, want exactly 1", len(outs))
		return r
	}
	r.out = outs[0]
	return r
}

// ---------------------------------------------------------------------------
// the expectation, from the documentation
// ---------------------------------------------------------------------------

// c12Want is the documented outcome of one call.
type c12Want struct {
	kind byte     // 'f' float with bits, 'e' exact with value rat, 'x' exception, 's' not in scope (all arguments exact)
	bits uint64   // kind f
	rat  *big.Rat // kind e
	rule string   // which documented rule decided
}

var c12Zero = new(big.Rat)

// c12Expect evaluates `op args...` as documented in builtin_fn_num.d.elv.
func c12Expect(op string, args []*c12Val) c12Want {
	hasFloat := false
	hasInf := false
	for _, a := range args {
		switch a.kind {
		case 'o', 'f', 'n':
			hasFloat = true
		case 'I':
			hasFloat, hasInf = true, true
		}
	}
	switch op {
	case "+":
		// "Outputs the sum of all arguments, or 0 when there are no arguments."
		if len(args) == 0 {
			return c12Want{kind: 'e', rat: c12Zero, rule: "no-args"}
		}
		if !hasFloat {
			return c12Want{kind: 's'}
		}
		acc := uint64(0)
		for _, a := range args {
			acc = c12AddC(acc, a.conv)
		}
		return c12Want{kind: 'f', bits: acc, rule: "fold"}
	case "*":
		// "... or 1 when there are no arguments."
		if len(args) == 0 {
			return c12Want{kind: 'e', rat: big.NewRat(1, 1), rule: "no-args"}
		}
		if !hasFloat {
			return c12Want{kind: 's'}
		}
		// "when any argument is exact 0 and no other argument is a
		// floating-point infinity, the result is exact 0."
		if !hasInf {
			for _, a := range args {
				if a.kind == 'z' {
					return c12Want{kind: 'e', rat: c12Zero, rule: "exact-zero"}
				}
			}
		}
		acc := math.Float64bits(1)
		for _, a := range args {
			acc = c12MulC(acc, a.conv)
		}
		return c12Want{kind: 'f', bits: acc, rule: "fold"}
	case "-":
		if len(args) == 0 {
			return c12Want{kind: 'x', rule: "no-args"}
		}
		if !hasFloat {
			return c12Want{kind: 's'}
		}
		if len(args) == 1 {
			// "outputs the negation of $x-num"
			return c12Want{kind: 'f', bits: c12Neg(args[0].conv), rule: "negate"}
		}
		acc := args[0].conv
		for _, a := range args[1:] {
			acc = c12SubC(acc, a.conv)
		}
		return c12Want{kind: 'f', bits: acc, rule: "fold"}
	case "/":
		if len(args) == 0 {
			panic("/ without arguments is cd /")
		}
		if !hasFloat {
			return c12Want{kind: 's'}
		}
		// "Dividing by exact 0 raises an exception."
		for _, a := range args[1:] {
			if a.kind == 'z' {
				return c12Want{kind: 'x', rule: "exact-zero-divisor"}
			}
		}
		// "when $x-num is exact 0 and no $y-num is exact 0, the result is exact 0."
		if args[0].kind == 'z' {
			return c12Want{kind: 'e', rat: c12Zero, rule: "exact-zero"}
		}
		if len(args) == 1 {
			// "outputs the reciprocal of $x-num"
			return c12Want{kind: 'f', bits: c12DivC(math.Float64bits(1), args[0].conv), rule: "invert"}
		}
		acc := args[0].conv
		for _, a := range args[1:] {
			acc = c12DivC(acc, a.conv)
		}
		return c12Want{kind: 'f', bits: acc, rule: "fold"}
	}
	a := args[0]
	isFloat := a.rat == nil || a.kind == 'o' || a.kind == 'f'
	switch op {
	case "inexact-num":
		return c12Want{kind: 'f', bits: a.conv, rule: "convert"}
	case "exact-num":
		if a.rat == nil {
			// "If the argument is infinity or NaN, an exception is thrown."
			return c12Want{kind: 'x', rule: "not-finite"}
		}
		if isFloat {
			return c12Want{kind: 'e', rat: a.rat, rule: "binary-value"}
		}
		return c12Want{kind: 'e', rat: a.rat, rule: "as-is"}
	}
	fn := strings.TrimPrefix(op, "math:")
	if isFloat {
		return c12Want{kind: 'f', bits: c12IntegralC(fn, a.conv), rule: "ieee"}
	}
	// exact argument: exactness-preserving, the mathematical result
	return c12Want{kind: 'e', rat: c12ExactIntegral(fn, a.rat), rule: "exact"}
}

func c12ExactIntegral(fn string, r *big.Rat) *big.Rat {
	if fn == "abs" {
		return new(big.Rat).Abs(r)
	}
	if r.IsInt() {
		return r
	}
	// q = trunc(r), with r = q + frac, |frac| < 1 and frac has the sign of r
	q := new(big.Int).Quo(r.Num(), r.Denom())
	frac := new(big.Rat).Sub(r, new(big.Rat).SetInt(q))
	half := new(big.Rat).Abs(frac).Cmp(big.NewRat(1, 2))
	away := int64(r.Sign())
	switch fn {
	case "trunc":
	case "floor":
		if r.Sign() < 0 {
			q.Add(q, big.NewInt(away))
		}
	case "ceil":
		if r.Sign() > 0 {
			q.Add(q, big.NewInt(away))
		}
	case "round":
		if half >= 0 {
			q.Add(q, big.NewInt(away))
		}
	case "round-to-even":
		if half > 0 || (half == 0 && q.Bit(0) == 1) {
			q.Add(q, big.NewInt(away))
		}
	default:
		panic("bad fn " + fn)
	}
	return new(big.Rat).SetInt(q)
}

func c12BitsClass(b uint64) string {
	s := "+"
	if b&c12Sign != 0 {
		s = "-"
	}
	switch {
	case c12IsNaN(b):
		return "nan"
	case c12IsInf(b):
		return s + "inf"
	case c12IsZero(b):
		return s + "0"
	case b&c12InfB == 0:
		return s + "sub"
	}
	return s + "fin"
}

// c12Judge compares a result with the expectation; returns "" or (key, message).
func c12Judge(op string, nargs int, w c12Want, r c12Res) (key, msg string) {
	ar := "n"
	if nargs == 1 {
		ar = "1"
	}
	pre := op + "/" + ar + ":"
	if r.panicked {
		return "panic:" + op + ":" + vk.PanicSite(r.abnormal), r.abnormal
	}
	if r.abnormal != "" {
		return pre + "outputs", r.abnormal
	}
	switch w.kind {
	case 'x':
		if r.exc == nil {
			return pre + "missing-exception:" + w.rule, fmt.Sprintf("output %s, want an exception (%s)", c12Show(r.out), w.rule)
		}
		if w.rule == "exact-zero-divisor" {
			if _, ok := r.exc.(errs.BadValue); !ok {
				return pre + "wrong-exception:" + w.rule, fmt.Sprintf("raised %T %v, want the documented \"bad value: divisor must be number other than exact 0\"", r.exc, r.exc)
			}
		}
		return "", ""
	case 'f':
		if r.exc != nil {
			return pre + "unexpected-exception", fmt.Sprintf("raised %v, want float64 with bits %#x (%v)", r.exc, w.bits, c12F(w.bits))
		}
		f, ok := r.out.(float64)
		if !ok {
			return pre + "exact-instead-of-float", fmt.Sprintf("output %s, want the inexact number %v (bits %#x)", c12Show(r.out), c12F(w.bits), w.bits)
		}
		g := math.Float64bits(f)
		if c12SameBits(g, w.bits) {
			return "", ""
		}
		kind := "value"
		switch {
		case c12IsZero(g) && c12IsZero(w.bits):
			kind = "sign-of-zero"
		case c12IsNaN(g) != c12IsNaN(w.bits):
			kind = "nan"
		case c12IsInf(g) != c12IsInf(w.bits):
			kind = "infinity"
		case (g^w.bits)&c12Sign != 0:
			kind = "sign"
		}
		return pre + "float-" + kind, fmt.Sprintf("output %s, want %v (bits %#x) by rule %s", c12Show(r.out), c12F(w.bits), w.bits, w.rule)
	case 'e':
		if r.exc != nil {
			return pre + "unexpected-exception", fmt.Sprintf("raised %v, want exact %s", r.exc, c12Short(w.rat.RatString()))
		}
		var got *big.Rat
		switch v := r.out.(type) {
		case int:
			got = big.NewRat(int64(v), 1)
		case *big.Int:
			got = new(big.Rat).SetInt(v)
		case *big.Rat:
			got = v
		default:
			return pre + "inexact-instead-of-exact:" + w.rule, fmt.Sprintf("output %s, want exact %s (rule %s)", c12Show(r.out), c12Short(w.rat.RatString()), w.rule)
		}
		if got.Cmp(w.rat) != 0 {
			return pre + "exact-value:" + w.rule, fmt.Sprintf("output %s, want exact %s (rule %s)", c12Show(r.out), c12Short(w.rat.RatString()), w.rule)
		}
		return "", ""
	}
	panic("unreachable")
}

func c12WantClass(w c12Want) string {
	switch w.kind {
	case 'f':
		return w.rule + ">" + c12BitsClass(w.bits)
	case 'e':
		return w.rule + ">exact"
	}
	return w.rule + ">exception"
}

// ---------------------------------------------------------------------------
// the check
// ---------------------------------------------------------------------------

type c12Runner struct {
	c       *vk.Ctx
	skipped atomic.Int64
	calls   atomic.Int64
	strs    atomic.Int64
}

// one runs `op` on the operands (strMask bit i: pass operand i as its string form).
func (k *c12Runner) one(l *vk.Local, e *c12Env, op string, vs []*c12Val, strMask int) {
	w := c12Expect(op, vs)
	if w.kind == 's' {
		k.skipped.Add(1)
		return
	}
	args := make([]any, len(vs))
	var cls [12]byte
	cb := cls[:0]
	for i, v := range vs {
		if strMask>>i&1 == 1 {
			args[i] = v.str
			cb = append(cb, 's')
		} else {
			args[i] = v.v
		}
		cb = append(cb, v.kind)
	}
	r := e.call(op, args)
	k.calls.Add(1)
	if strMask != 0 {
		k.strs.Add(1)
	}
	if key, msg := c12Judge(op, len(vs), w, r); key != "" {
		var names, shown []string
		for i, v := range vs {
			names = append(names, v.name)
			shown = append(shown, c12Show(args[i]))
		}
		k.c.Violate(key, fmt.Sprintf("`%s %s` (arguments %s): %s", op, strings.Join(names, " "), strings.Join(shown, ", "), msg),
			map[string]any{"command": op, "args": names, "as_string_mask": strMask})
	}
	l.Case(op + " " + string(cb) + " " + c12WantClass(w))
}

func TestVerifC12(t *testing.T) {
	vk.Run(t, "C12", "exploration", func(c *vk.Ctx) {
		if strconv.IntSize != 64 {
			panic("64-bit int assumed")
		}
		base := c12Pool(false)
		ext := c12Pool(true)
		var nf, ne int
		for _, v := range base {
			if v.rat == nil || v.kind == 'o' || v.kind == 'f' {
				nf++
			} else {
				ne++
			}
		}
		maxAr := vk.Pick(c, 3, 4)
		var baseNames, extNames []string
		for _, v := range base {
			baseNames = append(baseNames, v.name)
		}
		for _, v := range ext[len(base):] {
			extNames = append(extNames, v.name)
		}
		c.Rule(fmt.Sprintf("every argument list of 0..3 operands over the %d-value pool (base pool of %d floats and %d exact numbers: %v; further values: %v) for each of + - * / (lists without a float are out of scope and skipped; / without arguments is cd), "+
			"thorough also every list of 4 operands over the %d-value base pool; every list of 1..2 operands with every choice of passing operands as documented number strings; "+
			"every list of 1..3 operands over a second pool of 6 floats (0.0 1.0 0.5 -1.0 1e300 -0.0) and the reduced non-integer rationals n/d, n in {2^53+1,+3,+5,+7,-(2^53+9),2^62+1,2^63-1}, d in {3,7,10,2^53+1,2^62+3}, and {1,7,-3,10}/n (parts between 2^53 and 2^63); "+
			"each pool value through inexact-num exact-num math:floor ceil round round-to-even trunc abs (typed and as string); "+
			"class = (command, kind of each operand: z exact 0/i int/b bigint/r rational/o float zero/f finite float/I infinity/n NaN, s = passed as string, documented rule that decides, class of the expected result)",
			len(ext), nf, ne, baseNames, extNames, len(base)))
		c.Assume("the oracle evaluates IEEE 754 binary64 +,-,*,/, the roundings and the exact->float conversion on bit patterns with math/big integer arithmetic (trusted base) and its own round-to-nearest-even; the machine's float operations are only cross-checked against it (a disagreement aborts as harness error)",
			"documented conversion: machine integers and rationals go to the nearest double (ties to even), integers outside the signed 64-bit range to an infinity of their sign (inexact-num documentation)",
			"`- x` alone is judged as negation (property statement; the documentation's remark that it equals `- 0 x` differs only for x = 0.0)",
			"operands are passed to the commands as typed values or documented literals through Evaler.Call; parsing of literals itself is C05's subject",
			"all-exact argument lists belong to C11 and are not judged here; 64-bit int")
		k := &c12Runner{c: c}

		// self-check of the bit-level oracle on all pairs of pool floats
		for _, a := range append(append([]c12Val{}, ext...), c12WidePool()...) {
			for _, b := range ext {
				c12AddC(a.conv, b.conv)
				c12SubC(a.conv, b.conv)
				c12MulC(a.conv, b.conv)
				c12DivC(a.conv, b.conv)
			}
			for fn := range c12Native {
				c12IntegralC(fn, a.conv)
			}
			// the oracle's conversion agrees with the correctly rounded decimal parser on the literal
			if a.kind == 'i' || a.kind == 'z' || a.kind == 'r' {
				if f, err := strconv.ParseFloat(a.rat.FloatString(1200), 64); err == nil || math.IsInf(f, 0) {
					if f == 0 && a.rat.Sign() < 0 {
						f = math.Copysign(0, -1)
					}
					c12SelfCheck("convert "+a.name, a.conv, f)
				}
			}
		}

		// 1. unary commands on every value, typed and as string
		for _, v := range ext {
			v := v
			e := c12GetEnv()
			l := vk.NewLocal()
			for _, op := range c12Unary {
				k.one(l, e, op, []*c12Val{&v}, 0)
				k.one(l, e, op, []*c12Val{&v}, 1)
			}
			c.Merge(l)
			c12PutEnv(e)
		}

		// 2. arithmetic on every argument list
		enum := func(pool []c12Val, minLen, maxLen int) {
			c.EnumSeqs(len(pool), maxLen, func(l *vk.Local, idx []int) {
				if len(idx) < minLen {
					return
				}
				e := c12GetEnv()
				defer c12PutEnv(e)
				var buf [8]*c12Val
				vs := buf[:len(idx)]
				for i, j := range idx {
					vs[i] = &pool[j]
				}
				for _, op := range c12Arith {
					if len(vs) == 0 && op == "/" {
						continue
					}
					k.one(l, e, op, vs, 0)
				}
				if len(idx) == 3 && idx[0] == 4 && idx[1] == 33 && idx[2]%9 == 0 {
					c.Sample(fmt.Sprintf("%s %s %s", vs[0].name, vs[1].name, vs[2].name))
				}
			})
		}
		// shorter lists first, so that the first counterexample of a key is a shortest one
		enum(ext, 0, 2)
		enum(ext, 3, 3)
		if c.Thorough() {
			enum(base, 4, 4)
		}

		// 2b. the wide-rational pool: every value through the unary commands, every list of <=3 with the floats
		wide := c12WidePool()
		for i := range wide {
			e := c12GetEnv()
			l := vk.NewLocal()
			for _, op := range c12Unary {
				k.one(l, e, op, []*c12Val{&wide[i]}, 0)
				k.one(l, e, op, []*c12Val{&wide[i]}, 1)
			}
			c.Merge(l)
			c12PutEnv(e)
		}
		enum(wide, 1, 2)
		enum(wide, 3, 3)
		c.Set("wide_rational_pool", len(wide))

		pool := ext
		n := len(pool)
		c.Parallel(n+n*n, func(l *vk.Local, i int) {
			e := c12GetEnv()
			defer c12PutEnv(e)
			var vs []*c12Val
			if i < n {
				vs = []*c12Val{&pool[i]}
			} else {
				vs = []*c12Val{&pool[(i-n)/n], &pool[(i-n)%n]}
			}
			for mask := 1; mask < 1<<len(vs); mask++ {
				for _, op := range c12Arith {
					k.one(l, e, op, vs, mask)
				}
			}
		})
		c.Set("bounds", map[string]any{"max_arity_full_pool": 3, "max_arity_base_pool": maxAr, "base_pool": len(base), "full_pool": len(ext), "base_pool_floats": nf, "base_pool_exact": ne})
		c.Set("calls_judged", k.calls.Load())
		c.Set("calls_with_string_operands", k.strs.Load())
		c.Set("skipped_all_exact_out_of_scope", k.skipped.Load())
	})
}
