//go:build verif

// Package c08 checks property C08: values that eq reports equal hash
// identically, and a map treats them as one key (has-key, indexing, assoc,
// dissoc agree; no map holds two eq keys), however many entries the map has.
//
// Layers (all exhaustive within the stated bounds, smallest first):
//
//	pairs    every ordered pair of a pool of differently constructed values:
//	         Equal symmetric, Equal => same Hash.
//	nbhd     every eq pair (a,b) x every set of <=k neighbour keys chosen so
//	         that their hashes agree with Hash(a) / Hash(b) on exactly the low
//	         5r bits (r = 0..6) or completely, x every insertion order of the
//	         set plus a: the real persistent map must treat b as the key a.
//	bulk     every eq pair inside maps grown to 2000 other entries (three key
//	         families) and shrunk again, a inserted first and a inserted last.
//	builtins every eq pair x every <=1-neighbour map through the real
//	         builtins eq, has-key, indexing, assoc, dissoc, count, keys.
//
// The oracle is the documented meaning of a map (builtin docs of assoc,
// dissoc, has-key; language.md "Map"): a map is a set of key-value pairs in
// which a key occurs once, where "the same key" is what eq reports. It is
// written as an association list and never looks at hashes.
package c08

import (
	"fmt"
	"math"
	"math/big"
	"os"
	"sort"
	"strconv"
	"strings"
	"sync"
	"testing"
	"time"

	"src.elv.sh/pkg/cli"
	"src.elv.sh/pkg/edit"
	"src.elv.sh/pkg/eval"
	"src.elv.sh/pkg/eval/vals"
	"src.elv.sh/pkg/eval/vars"
	"src.elv.sh/pkg/mods/str"
	"src.elv.sh/pkg/parse"
	"src.elv.sh/pkg/persistent/hashmap"
	"src.elv.sh/pkg/ui"
	"src.elv.sh/pkg/zzverif/vk"
)

// ---------------------------------------------------------------------------
// Pool.

type c08Val struct {
	name  string // how the value was constructed
	v     any
	canon string // documented "type and value" (independent of Equal/Hash)
	kind  string
}

// Field maps (pseudo-maps) used by the pool.
type c08FMa struct{ A string }
type c08FMa2 struct{ A string } // same fields, other internal type
type c08FMz struct {
	FooBar string
	Z      float64
}
type c08FMn struct {
	L any
	M any
}

var c08Keep []any // keeps *os.File values alive (their finalizers close the fd)

func c08Kind(v any) string {
	switch v := v.(type) {
	case nil:
		return "nil"
	case bool:
		return "bool"
	case string:
		return "string"
	case int:
		return "int"
	case *big.Int:
		return "bigint"
	case *big.Rat:
		return "rat"
	case float64:
		return "float"
	case vals.List:
		return "list"
	case vals.Map:
		return "map"
	case ui.Key:
		return "key"
	case ui.Text:
		return "styled"
	case *ui.Segment:
		return "styled-segment"
	case vals.File:
		return "file"
	case *eval.Closure:
		return "closure"
	case *eval.Ns:
		return "ns"
	case eval.Exception:
		return "exception"
	default:
		if vals.IsFieldMap(v) {
			return "field-map"
		}
		t := fmt.Sprintf("%T", v)
		if i := strings.LastIndexByte(t, '.'); i >= 0 {
			t = t[i+1:]
		}
		return t
	}
}

// c08Canon describes the type and value of v the way the documentation of eq
// does ("same type and value"; lists and maps recursively; a pseudo-map only
// equals a pseudo-map of the same internal type; functions, namespaces and
// exceptions by identity). It is only used for coverage facts and class keys.
func c08Canon(v any) string {
	switch v := v.(type) {
	case nil:
		return "nil"
	case bool:
		return fmt.Sprint("bool:", v)
	case string:
		return "str:" + strconv.Quote(v)
	case int:
		return "exact:" + strconv.Itoa(v)
	case *big.Int:
		return "exact:" + v.String()
	case *big.Rat:
		return "exact:" + v.RatString()
	case float64:
		if v == 0 && math.Signbit(v) {
			return "float:-0"
		}
		if v == 0 {
			return "float:+0"
		}
		if v != v {
			return "float:NaN"
		}
		return "float:" + strconv.FormatFloat(v, 'g', -1, 64)
	case vals.List:
		var sb strings.Builder
		sb.WriteString("[")
		for it := v.Iterator(); it.HasElem(); it.Next() {
			sb.WriteString(c08Canon(it.Elem()))
			sb.WriteString(" ")
		}
		sb.WriteString("]")
		return sb.String()
	case vals.Map:
		var es []string
		for it := v.Iterator(); it.HasElem(); it.Next() {
			k, x := it.Elem()
			es = append(es, c08Canon(k)+"="+c08Canon(x))
		}
		sort.Strings(es)
		return "map{" + strings.Join(es, " ") + "}"
	case ui.Key:
		return fmt.Sprintf("key:%d/%d", v.Rune, v.Mod)
	case vals.File:
		return fmt.Sprintf("file:%d", v.Fd())
	case ui.Text:
		var sb strings.Builder
		sb.WriteString("styled{")
		for _, s := range v {
			fmt.Fprintf(&sb, "%q/%v ", s.Text, s.Style)
		}
		sb.WriteString("}")
		return sb.String()
	case *ui.Segment:
		return fmt.Sprintf("segment{%q/%v}", v.Text, v.Style)
	default:
		if keys := vals.GetFieldMapKeys(v); keys != nil {
			var es []string
			for _, k := range keys {
				x, _ := vals.Index(v, k)
				es = append(es, k+"="+c08Canon(x))
			}
			return fmt.Sprintf("pseudo-map %T{%s}", v, strings.Join(es, " "))
		}
		if c08Kind(v) == "externalCmd" || c08Kind(v) == "complexItem" {
			return fmt.Sprintf("%T:%s", v, vals.ReprPlain(v))
		}
		return fmt.Sprintf("identity:%T:%p", v, v)
	}
}

type c08Evaler struct {
	ev         *eval.Evaler
	ch         chan any
	a, b, m, n any
}

func c08NewEvaler(withEdit bool) *c08Evaler {
	w := &c08Evaler{ev: eval.NewEvaler(), ch: make(chan any, 4096)}
	nb := eval.BuildNs().
		AddVar("c08a", vars.FromPtr(&w.a)).AddVar("c08b", vars.FromPtr(&w.b)).
		AddVar("c08m", vars.FromPtr(&w.m)).AddVar("c08n", vars.FromPtr(&w.n)).
		AddVar("c08fma", vars.NewReadOnly(c08FMa{A: "b"})).
		AddVar("c08fma2", vars.NewReadOnly(c08FMa2{A: "b"})).
		AddVar("c08fmz", vars.NewReadOnly(c08FMz{FooBar: "x", Z: 0})).
		AddVar("c08fmnz", vars.NewReadOnly(c08FMz{FooBar: "x", Z: math.Copysign(0, -1)}))
	w.ev.ExtendGlobal(nb.Ns())
	w.ev.ExtendGlobal(eval.BuildNs().AddNs("str", str.Ns))
	if withEdit {
		null, err := os.OpenFile(os.DevNull, os.O_RDWR, 0)
		if err != nil {
			panic(err)
		}
		c08Keep = append(c08Keep, null)
		ed := edit.NewEditor(cli.NewTTY(null, null), w.ev, nil)
		w.ev.ExtendBuiltin(eval.BuildNs().AddNs("edit", ed))
	}
	return w
}

func (w *c08Evaler) eval(code string) (out []any, err string) {
	port := &eval.Port{File: eval.DevNull, Chan: w.ch}
	var e error
	p := vk.Try(func() {
		e = w.ev.Eval(parse.Source{Name: "[c08]", Code: code}, eval.EvalCfg{Ports: []*eval.Port{eval.DummyInputPort, port, eval.DummyOutputPort}})
	})
	for n := len(w.ch); n > 0; n-- {
		out = append(out, <-w.ch)
	}
	if p != "" {
		return out, p
	}
	if e != nil {
		return out, "exception: " + e.Error()
	}
	return out, ""
}

// Elvish expressions; each is evaluated as `put <expr>` by a real Evaler.
var c08Exprs = []string{
	"$nil", "$true", "$false", "(not $false)", "(eq a b)",
	"''", "a", "'a b'", "\"\\t\"", "\"\\xff\"", "'0'", "'&=]'", "b", "k", "v", "x", "y",
	"(str:join '' [a ' ' b])", "(to-string (num 0))", "a[0]",
	// exact integers
	"(num 0)", "(+ 1 -1)", "(num 0x0)", "(* 0 7)", "(num 0/5)", "(exact-num 0.0)", "(exact-num -0.0)",
	"(- (num 9223372036854775808) (num 9223372036854775808))", "(count [])",
	"(num 1)", "(count [a])", "(num 2)", "(num 3)", "(+ 1 2)",
	"(num -1)", "(- 0 1)", "(num -2/2)",
	"(num 9223372036854775807)", "(- (num 9223372036854775808) 1)",
	"(num -9223372036854775808)", "(+ (num -9223372036854775809) 1)",
	"(num 9223372036854775808)", "(+ 9223372036854775807 1)", "(* 4294967296 2147483648)", "(exact-num 9223372036854775808.0)",
	"(- (num 1606938044258990275541962092341162602522202993782792835301376) (num 1606938044258990275541962092341162602512979621745938059525568))",
	"(num -9223372036854775809)", "(- -9223372036854775808 1)",
	"(num 18446744073709551616)", "(* 4294967296 4294967296)", "(+ 18446744073709551615 1)",
	// exact rationals
	"(num 1/2)", "(/ 1 2)", "(num 2/4)", "(- 3/2 1)", "(exact-num 0.5)",
	"(num -1/2)", "(/ -1 2)",
	"(num 18446744073709551616/3)", "(/ 18446744073709551616 3)",
	// floats
	"(num 0.0)", "(* 0.0 1)", "(- 1.5 1.5)", "(num 0e0)", "(inexact-num 0)",
	"(num -0.0)", "(* -1 0.0)", "(/ -1 (num +Inf))", "(- (num 0.0))", "(inexact-num (num -0.0))",
	"(num 1.5)", "(/ 3.0 2)", "(inexact-num 3/2)", "(num 1.0)", "(inexact-num 1)",
	"(num 1e21)", "(* 1e20 10.0)", "(num 1e-7)", "(num 9223372036854775808.0)", "(inexact-num 9223372036854775808)",
	"(num NaN)", "(- (num Inf) (num Inf))", "(num +Inf)", "(/ 1.0 0.0)", "(num -Inf)", "(/ -1.0 0.0)",
	// lists
	"[]", "[a][1..]", "[a]", "(conj [] a)", "[a b]", "(conj [a] b)", "[x a b][1..]", "(assoc [a x] 1 b)", "[b a]",
	"[(num 0)]", "[(num 0.0)]", "[(num -0.0)]", "[(* -1 0.0)]", "[(num NaN)]", "[0]",
	"[(range 40)]", "[(range 50)][..40]", "(conj [(range 39)] (num 39))",
	"[[a] [&k=v]]", "[(conj [] a) (assoc [&] k v)]", "[[(num 0.0)]]", "[[(num -0.0)]]",
	// maps
	"[&]", "(dissoc [&k=v] k)", "[&k=v]", "(assoc [&] k v)", "(make-map [[k v]])", "[&k=x]", "[&x=v]",
	"[&a=(num 1) &b=(num 2) &c=(num 3)]", "[&a=(num 1) &c=(num 3) &b=(num 2)]", "[&b=(num 2) &a=(num 1) &c=(num 3)]",
	"[&b=(num 2) &c=(num 3) &a=(num 1)]", "[&c=(num 3) &a=(num 1) &b=(num 2)]", "[&c=(num 3) &b=(num 2) &a=(num 1)]",
	"(dissoc [&a=(num 1) &x=y &b=(num 2) &c=(num 3)] x)", "(assoc [&a=(num 1) &b=(num 2) &c=x] c (num 3))",
	"[&a=(num 1) &b=(num 2)]",
	// keys whose hashes collide ($false, 0 and 0.0 all hash to 0): every insertion order
	"[&$false=x &(num 0)=y &(num 0.0)=z]", "[&$false=x &(num 0.0)=z &(num 0)=y]", "[&(num 0)=y &$false=x &(num 0.0)=z]",
	"[&(num 0)=y &(num 0.0)=z &$false=x]", "[&(num 0.0)=z &$false=x &(num 0)=y]", "[&(num 0.0)=z &(num 0)=y &$false=x]",
	"[&$false=x &(num 0)=y &(num -0.0)=z]", "[&(num -0.0)=z &(num 0)=y &$false=x]",
	"[&k=(num 0.0)]", "[&k=(num -0.0)]", "[&(num 0.0)=v]", "[&(num -0.0)=v]", "[&(num 0)=v]", "[&0=v]",
	"[&k=[&a=[b]]]", "(assoc [&] k (assoc [&] a (conj [] b)))",
	"[&[a]=[&k=v] &[&k=v]=[a]]", "[&[&k=v]=[a] &[a]=[&k=v]]",
	"[&a=b]", "[&foo-bar=x &z=(num 0.0)]", "[&z=(num -0.0) &foo-bar=x]", "[&z=(num 0.0) &foo-bar=x]",
	// pseudo-maps
	"$c08fma", "$c08fma2", "$c08fmz", "$c08fmnz", "[$c08fma]", "[[&a=b]]", "[&k=$c08fmz]", "[&k=[&foo-bar=x &z=(num -0.0)]]",
	"?(fail x)[reason]", "?(fail x)[reason]",
	// functions, namespaces, exceptions: identity
	"$c08f1", "$c08f1", "$c08f2", "{ }", "$put~", "$put~", "$nop~", "(external ls)", "(external ls)", "(external cat)",
	"$str:", "$str:", "$c08ns1", "$c08ns1", "$c08ns2", "$ok", "$ok", "$c08e1", "$c08e1", "$c08e2", "?(fail x)",
	// editor values
	"(edit:key a)", "(edit:key Ctrl-a)", "(edit:key Ctrl-A)", "(edit:key \"\\x01\")", "(edit:key Tab)", "(edit:key Ctrl-I)", "(edit:key \"\\t\")",
	"(edit:key Alt-x)", "(edit:key Enter)", "(edit:key Ctrl-J)",
	"(edit:complex-candidate a)", "(edit:complex-candidate a)", "(edit:complex-candidate a &display=a)", "(edit:complex-candidate a &display=(styled a))",
	"(edit:complex-candidate a &code-suffix=b &display=(styled x red))", "(edit:complex-candidate a &code-suffix=b &display=(styled x red))",
	"(edit:complex-candidate a &code-suffix=b &display=(styled x blue))", "(edit:complex-candidate a &code-suffix=c)",
	"(styled a red)", "(styled a red)", "(styled a)", "(styled-segment a &fg-color=red)", "(styled-segment a &fg-color=red)",
}

func c08BuildPool() []*c08Val {
	var pool []*c08Val
	add := func(name string, v any) {
		pool = append(pool, &c08Val{name: name, v: v, canon: c08Canon(v), kind: c08Kind(v)})
	}
	w := c08NewEvaler(true)
	if _, err := w.eval("var c08f1 = { }\nvar c08f2 = { }\nvar c08ns1 = (ns [&])\nvar c08ns2 = (ns [&])\nvar c08e1 = ?(fail x)\nvar c08e2 = ?(fail x)"); err != "" {
		panic("c08 setup: " + err)
	}
	for _, src := range c08Exprs {
		out, err := w.eval("put " + src)
		if err != "" || len(out) != 1 {
			panic(fmt.Sprintf("c08: constructing %s: %d values, %s", src, len(out), err))
		}
		add(src, out[0])
	}
	// Values built directly in Go, by routes other than the evaluator's.
	add("go:false", false)
	add("go:string(bytes a b)", string([]byte{'a', ' ', 'b'}))
	add("go:ParseNum(0)", vals.ParseNum("0"))
	add("go:NormalizeBigInt(big 0)", vals.NormalizeBigInt(new(big.Int)))
	add("go:Int64ToNum(MaxInt64)", vals.Int64ToNum(math.MaxInt64))
	add("go:Uint64ToNum(2^63)", vals.Uint64ToNum(1<<63))
	add("go:ParseNum(2^63)", vals.ParseNum("9223372036854775808"))
	add("go:Lsh(1,63)", new(big.Int).Lsh(big.NewInt(1), 63))
	{
		// 2^63 computed in place inside a big.Int with spare capacity
		x := new(big.Int).Lsh(big.NewInt(1), 200)
		y := new(big.Int).Sub(x, new(big.Int).Lsh(big.NewInt(1), 63))
		x.Sub(x, y)
		add("go:2^200-(2^200-2^63) in place", x)
		z := new(big.Int).Lsh(big.NewInt(1), 200)
		z.Rsh(z, 136)
		add("go:2^200>>136 in place", z)
		n := new(big.Int).Neg(new(big.Int).Lsh(big.NewInt(1), 64))
		n.Add(n, big.NewInt(0))
		add("go:-(2^64)", n)
		add("go:ParseNum(-2^64)", vals.ParseNum("-18446744073709551616"))
	}
	add("go:NewRat(2,4)", big.NewRat(2, 4))
	add("go:ParseNum(1/2)", vals.ParseNum("1/2"))
	add("go:NormalizeBigRat(4/8)", vals.NormalizeBigRat(new(big.Rat).SetFrac(big.NewInt(4), big.NewInt(8))))
	add("go:Rat.Quo(2^64,3)", new(big.Rat).Quo(new(big.Rat).SetInt(new(big.Int).Lsh(big.NewInt(1), 64)), big.NewRat(3, 1)))
	add("go:ParseNum(0.0)", vals.ParseNum("0.0"))
	add("go:ParseNum(-0.0)", vals.ParseNum("-0.0"))
	add("go:Copysign(0,-1)", math.Copysign(0, -1))
	add("go:ParseNum(-0)", vals.ParseNum("-0"))
	add("go:ParseNum(1.5)", vals.ParseNum("1.5"))
	add("go:NaN", math.NaN())
	add("go:MakeList(a,b)", vals.MakeList("a", "b"))
	add("go:MakeList()", vals.MakeList())
	add("go:MakeList(-0.0)", vals.MakeList(math.Copysign(0, -1)))
	add("go:MakeMap(k,v)", vals.MakeMap("k", "v"))
	add("go:MakeMap(c,3,b,2,a,1)", vals.MakeMap("c", 3, "b", 2, "a", 1))
	add("go:MakeMap(0.0,v)", vals.MakeMap(0.0, "v"))
	add("go:MakeMap(k,-0.0)", vals.MakeMap("k", math.Copysign(0, -1)))
	add("go:FMa{b}", c08FMa{A: "b"})
	add("go:FMa{c}", c08FMa{A: "c"})
	add("go:FMz{x,+0}", c08FMz{FooBar: "x", Z: 0})
	add("go:FMz{x,-0}", c08FMz{FooBar: "x", Z: math.Copysign(0, -1)})
	add("go:FMn{[a],[&k=v]}", c08FMn{L: vals.MakeList("a"), M: vals.MakeMap("k", "v")})
	add("go:FMn{[a],FMa{b}}", c08FMn{L: vals.MakeList("a"), M: c08FMa{A: "b"}})
	add("go:MakeMap(l,[a],m,[&k=v])", vals.MakeMap("l", vals.MakeList("a"), "m", vals.MakeMap("k", "v")))
	add("go:MakeMap(m,[&a=b],l,[a])", vals.MakeMap("m", vals.MakeMap("a", "b"), "l", vals.MakeList("a")))
	add("go:ui.K(a)", ui.K('a'))
	add("go:ui.K(A,Ctrl)", ui.K('A', ui.Ctrl))
	add("go:ui.Key{A,Ctrl}", ui.Key{Rune: 'A', Mod: ui.Ctrl})
	add("go:ui.K(Tab)", ui.K(ui.Tab))
	add("go:ui.K(x,Alt)", ui.K('x', ui.Alt))
	add("go:ui.K(a,Ctrl)", ui.K('a', ui.Ctrl))
	{
		f, err := os.Open(os.DevNull)
		if err != nil {
			panic(err)
		}
		g := os.NewFile(f.Fd(), "same-fd")
		h, err := os.Open(os.DevNull)
		if err != nil {
			panic(err)
		}
		c08Keep = append(c08Keep, f, g, h)
		add("go:file f", f)
		add("go:NewFile(f.Fd())", g)
		add("go:file h", h)
	}
	return pool
}

// ---------------------------------------------------------------------------
// Violations are collected and reported smallest first, so that the verdict
// and the reported counterexample do not depend on worker scheduling.

type c08Viol struct {
	rank int
	msg  string
}

type c08Collector struct {
	mu sync.Mutex
	m  map[string]c08Viol
}

func (vc *c08Collector) add(key string, rank int, msg string) {
	vc.mu.Lock()
	defer vc.mu.Unlock()
	if vc.m == nil {
		vc.m = map[string]c08Viol{}
	}
	old, ok := vc.m[key]
	if !ok || rank < old.rank || rank == old.rank && msg < old.msg {
		vc.m[key] = c08Viol{rank, msg}
	}
}

func (vc *c08Collector) flush(c *vk.Ctx) {
	vc.mu.Lock()
	defer vc.mu.Unlock()
	keys := make([]string, 0, len(vc.m))
	for k := range vc.m {
		keys = append(keys, k)
	}
	sort.Strings(keys)
	for _, k := range keys {
		c.Violate(k, vc.m[k].msg, vc.m[k].msg)
	}
	vc.m = nil
}

// c08Key builds the violation key. When the two eq values hash differently
// the root cause is the hash of the blamed component, whatever operation shows
// it, so there is one key per layer and blamed component; with identical
// hashes the map operation that went wrong is part of the key.
func c08Key(layer, what, blame string) string {
	if blame == "same-hash" {
		return layer + "-" + what + ":same-hash"
	}
	return layer + "-treats-eq-keys-as-different:" + blame
}

func c08AddrHashed(kind string) bool {
	switch kind {
	case "closure", "ns", "exception", "goFn", "file":
		return true
	}
	return false
}

func c08Eq(a, b any) bool { return vals.Equal(a, b) || vals.Equal(b, a) }

// c08Blame names the innermost pair of components of a and b that eq reports
// equal while their hashes differ; "same-hash" if a and b hash identically.
func c08Blame(a, b any) string {
	if vals.Hash(a) == vals.Hash(b) {
		return "same-hash"
	}
	type kv struct{ k, v any }
	entries := func(x any) []kv {
		var es []kv
		switch x := x.(type) {
		case vals.Map:
			for it := x.Iterator(); it.HasElem(); it.Next() {
				k, v := it.Elem()
				es = append(es, kv{k, v})
			}
		default:
			for _, k := range vals.GetFieldMapKeys(x) {
				v, _ := vals.Index(x, k)
				es = append(es, kv{k, v})
			}
		}
		return es
	}
	la, aok := a.(vals.List)
	lb, bok := b.(vals.List)
	if aok && bok && la.Len() == lb.Len() {
		ia, ib := la.Iterator(), lb.Iterator()
		for ia.HasElem() && ib.HasElem() {
			x, y := ia.Elem(), ib.Elem()
			if c08Eq(x, y) && vals.Hash(x) != vals.Hash(y) {
				return c08Blame(x, y)
			}
			ia.Next()
			ib.Next()
		}
	}
	ka, kb := c08Kind(a), c08Kind(b)
	if (ka == "map" || ka == "field-map") && (kb == "map" || kb == "field-map") {
		ea, eb := entries(a), entries(b)
		for _, x := range ea {
			for _, y := range eb {
				if !c08Eq(x.k, y.k) {
					continue
				}
				if vals.Hash(x.k) != vals.Hash(y.k) {
					return c08Blame(x.k, y.k)
				}
				if c08Eq(x.v, y.v) && vals.Hash(x.v) != vals.Hash(y.v) {
					return c08Blame(x.v, y.v)
				}
			}
		}
	}
	fa, aok := a.(float64)
	fb, bok := b.(float64)
	if aok && bok && fa == 0 && fb == 0 {
		return "float-zero-sign"
	}
	if ka > kb {
		ka, kb = kb, ka
	}
	if ka == kb {
		return ka
	}
	return ka + "-vs-" + kb
}

// ---------------------------------------------------------------------------
// Neighbour keys with prescribed hashes.

type c08Nb struct {
	name string
	v    any
	h    uint32
	tag  string // kind of neighbour, for class keys: i<r>, f<r>, s<r>, p<r>
}

const c08StrAlpha = "abcdefghijklmnopqrstuvwxyzABCDEFGHIJKLMNOPQRSTUVWXYZ0123456789-_"

// c08StrTable maps the low 15 bits of the hash of every string of <= 3
// characters over c08StrAlpha to up to 6 such strings (shortest first) whose
// hashes differ in bits 15..19.
var c08StrTable map[uint32][]string

func c08BuildStrTable() {
	c08StrTable = map[uint32][]string{}
	var rec func(prefix string, n int)
	addS := func(s string) {
		h := vals.Hash(s)
		lo := h & 0x7fff
		for _, t := range c08StrTable[lo] {
			if (vals.Hash(t)>>15)&31 == (h>>15)&31 {
				return
			}
		}
		if len(c08StrTable[lo]) < 6 {
			c08StrTable[lo] = append(c08StrTable[lo], s)
		}
	}
	for n := 0; n <= 3; n++ {
		rec = func(prefix string, k int) {
			if k == 0 {
				addS(prefix)
				return
			}
			for i := 0; i < len(c08StrAlpha); i++ {
				rec(prefix+c08StrAlpha[i:i+1], k-1)
			}
		}
		rec("", n)
	}
}

// c08Share returns the number of low 5-bit chunks on which g and h agree
// (0..6), or 7 if g == h.
func c08Share(g, h uint32) int {
	if g == h {
		return 7
	}
	r := 0
	for r < 7 && (g>>(5*uint(r)))&31 == (h>>(5*uint(r)))&31 {
		r++
	}
	return r
}

// c08Neighbours builds the candidate neighbour keys for the pair (a,b): for
// each of Hash(a), Hash(b) and each r = 0..6 an int key whose hash agrees on
// exactly the low r chunks, an int and a float key with the identical hash,
// string keys agreeing on exactly 1..3 chunks, and up to 4 pool values whose
// hashes share at least one chunk. Keys eq to a or b are left out.
func c08Neighbours(a, b *c08Val, pool []*c08Val) []c08Nb {
	var out []c08Nb
	seen := map[string]bool{}
	add := func(nb c08Nb) {
		if c08Eq(nb.v, a.v) || c08Eq(nb.v, b.v) || seen[nb.name] {
			return
		}
		if vals.Hash(nb.v) != nb.h {
			panic(fmt.Sprintf("c08: neighbour %s has hash %#x, wanted %#x", nb.name, vals.Hash(nb.v), nb.h))
		}
		for _, o := range out {
			if c08Eq(o.v, nb.v) {
				return
			}
		}
		seen[nb.name] = true
		out = append(out, nb)
	}
	targets := []uint32{vals.Hash(a.v)}
	if h := vals.Hash(b.v); h != targets[0] {
		targets = append(targets, h)
	}
	for ti, t := range targets {
		for r := 0; r <= 6; r++ {
			h := t ^ (1 << (5 * uint(r))) // flips the lowest bit of chunk r
			add(c08Nb{fmt.Sprintf("(num %d)", h), int(h), h, fmt.Sprintf("i%d", r)})
		}
		add(c08Nb{fmt.Sprintf("(num %d)", t), int(t), t, "i7"})
		add(c08Nb{fmt.Sprintf("(num float64frombits(%#x))", t), math.Float64frombits(uint64(t)), t, "f7"})
		add(c08Nb{fmt.Sprintf("(num float64frombits(1<<32|%#x))", t-33), math.Float64frombits(1<<32 | uint64(t-33)), t, "g7"})
		for r := 1; r <= 3; r++ {
			// a string agreeing on exactly the low r chunks
			var found string
			ok := false
			if r < 3 {
				want := (t & (1<<(5*uint(r)) - 1)) | ((t>>(5*uint(r)))&31^1)<<(5*uint(r))
				for hi := uint32(0); hi < 1<<(15-5*uint(r)-5) && !ok; hi++ {
					lo := want | hi<<(5*uint(r)+5)
					if ss := c08StrTable[lo&0x7fff]; len(ss) > 0 {
						found, ok = ss[0], true
					}
				}
			} else {
				for _, s := range c08StrTable[t&0x7fff] {
					if (vals.Hash(s)>>15)&31 != (t>>15)&31 {
						found, ok = s, true
						break
					}
				}
			}
			if ok {
				h := vals.Hash(found)
				if c08Share(h, t) != r {
					panic("c08: string neighbour share mismatch")
				}
				add(c08Nb{strconv.Quote(found), found, h, fmt.Sprintf("s%d", r)})
			}
		}
		n := 0
		for _, p := range pool {
			if n >= 4 || c08AddrHashed(a.kind) || c08AddrHashed(b.kind) {
				break
			}
			if p.v == nil || c08AddrHashed(p.kind) {
				continue
			}
			h := vals.Hash(p.v)
			if c08Share(h, t) >= 1 && vals.Equal(p.v, p.v) {
				before := len(out)
				add(c08Nb{p.name, p.v, h, fmt.Sprintf("p%d", c08Share(h, t))})
				if len(out) > before {
					n++
				}
			}
		}
		_ = ti
	}
	return out
}

// ---------------------------------------------------------------------------
// The map oracle: checks that the real map m holds exactly the entries of the
// association list want (keys pairwise not eq), looking keys up both by the
// stored key and, for the key a, by its eq twin b.

type c08Entry struct {
	k, v any
}

func c08Repr(v any) string {
	s := vals.ReprPlain(v)
	if f, ok := v.(float64); ok && f == 0 && math.Signbit(f) {
		s = "(num -0.0)"
	}
	if len(s) > 80 {
		s = s[:80] + "..."
	}
	return s
}

// c08CheckMap returns "" or (what, detail).
func c08CheckMap(m hashmap.Map, want []c08Entry, twins [2]any) (string, string) {
	if m.Len() != len(want) {
		return "len", fmt.Sprintf("has Len %d, want %d", m.Len(), len(want))
	}
	n := 0
	var ks []any
	for it := m.Iterator(); it.HasElem(); it.Next() {
		k, _ := it.Elem()
		if len(want) <= 40 {
			// all pairs of keys
			for _, o := range ks {
				if c08Eq(o, k) {
					return "two-eq-keys", fmt.Sprintf("holds two eq keys %s and %s", c08Repr(o), c08Repr(k))
				}
			}
			ks = append(ks, k)
		} else if c08Eq(k, twins[0]) || c08Eq(k, twins[1]) {
			// big maps: the other keys are pairwise non-eq by construction
			// (distinct ints / strings); only keys eq to the twins can repeat
			if len(ks) > 0 {
				return "two-eq-keys", fmt.Sprintf("holds two eq keys %s and %s", c08Repr(ks[0]), c08Repr(k))
			}
			ks = append(ks, k)
		}
		n++
	}
	if n != len(want) {
		return "iter-count", fmt.Sprintf("iterates %d entries, want %d", n, len(want))
	}
	for _, e := range want {
		look := []any{e.k}
		if c08Eq(e.k, twins[0]) || c08Eq(e.k, twins[1]) {
			look = []any{twins[0], twins[1]}
		}
		for _, k := range look {
			v, ok := m.Index(k)
			if !ok {
				return "index-misses", fmt.Sprintf("has no value for key %s", c08Repr(k))
			}
			if v != e.v {
				return "index-value", fmt.Sprintf("has value %v for key %s, want %v", v, c08Repr(k), e.v)
			}
			if !vals.HasKey(m, k) {
				return "haskey-misses", fmt.Sprintf("has-key is false for key %s", c08Repr(k))
			}
		}
	}
	return "", ""
}

func c08MapDesc(seq []c08Entry) string {
	var sb strings.Builder
	sb.WriteString("[&")
	for i, e := range seq {
		if i > 0 {
			sb.WriteString(" &")
		}
		fmt.Fprintf(&sb, "%s=%v", c08Repr(e.k), e.v)
	}
	sb.WriteString("]")
	return sb.String()
}

// c08Probe runs the b-operations on the map m1 built from seq (which contains
// the key a with value "va") and checks them against the association list.
// Returns a violation (what, message) or "".
func c08Probe(m1 hashmap.Map, seq []c08Entry, a, b any) (string, string) {
	tw := [2]any{a, b}
	desc := func() string { return "map " + c08MapDesc(seq) + " (entries inserted in this order)" }
	if w, d := c08CheckMap(m1, seq, tw); w != "" {
		return "lookup-" + w, fmt.Sprintf("%s, looked up with the eq key %s: %s", desc(), c08Repr(b), d)
	}
	// assoc with b must replace the entry of a
	m2 := m1.Assoc(b, "z")
	want2 := make([]c08Entry, len(seq))
	copy(want2, seq)
	for i := range want2 {
		if c08Eq(want2[i].k, a) {
			want2[i].v = "z"
		}
	}
	if w, d := c08CheckMap(m2, want2, tw); w != "" {
		return "assoc-" + w, fmt.Sprintf("assoc %s %s z: result %s (a map with a key eq to %s must keep its %d entries and map the key to z)", desc(), c08Repr(b), d, c08Repr(b), len(seq))
	}
	// dissoc with b must remove the entry of a
	m3 := m1.Dissoc(b)
	var want3 []c08Entry
	for _, e := range seq {
		if !c08Eq(e.k, a) {
			want3 = append(want3, e)
		}
	}
	if w, d := c08CheckMap(m3, want3, [2]any{c08None, c08None}); w != "" {
		return "dissoc-" + w, fmt.Sprintf("dissoc %s %s: result %s", desc(), c08Repr(b), d)
	}
	if _, ok := m3.Index(a); ok {
		return "dissoc-key-remains", fmt.Sprintf("dissoc %s %s: result still has key %s", desc(), c08Repr(b), c08Repr(a))
	}
	if vals.HasKey(m3, b) {
		return "dissoc-key-remains", fmt.Sprintf("dissoc %s %s: result still has key %s", desc(), c08Repr(b), c08Repr(b))
	}
	// the original is unchanged (persistence)
	if w, d := c08CheckMap(m1, seq, tw); w != "" {
		return "persistence-" + w, fmt.Sprintf("%s after assoc/dissoc of %s on it: %s", desc(), c08Repr(b), d)
	}
	return "", ""
}

type c08NoneT struct{ _ int }

var c08None = &c08NoneT{} // a key that is eq to nothing in the pool

// ---------------------------------------------------------------------------

type c08Pair struct {
	a, b  *c08Val
	ia    int
	ib    int
	rel   string // same-instance / same-value / different-value (by c08Canon)
	blame string
	rep   bool // representative of its (described value of a, described value of b) class
	size  int  // complexity of the pair, for reporting the simplest counterexample
}

func c08Perms(n int) [][]int {
	var out [][]int
	p := make([]int, n)
	used := make([]bool, n)
	var rec func(i int)
	rec = func(i int) {
		if i == n {
			out = append(out, append([]int(nil), p...))
			return
		}
		for j := 0; j < n; j++ {
			if !used[j] {
				used[j] = true
				p[i] = j
				rec(i + 1)
				used[j] = false
			}
		}
	}
	rec(0)
	return out
}

func TestVerifC08(t *testing.T) {
	vk.Run(t, "C08", "exploration", func(c *vk.Ctx) {
		maxNbRep := vk.Pick(c, 3, 4) // neighbourhood size for representative pairs
		maxNbAll := vk.Pick(c, 2, 3) // ... and for all other eq pairs
		maxNb := maxNbRep
		bulkN := vk.Pick(c, 2000, 2000)
		bulkPairsAll := c.Thorough()
		t0 := time.Now()
		c08BuildStrTable()
		pool := c08BuildPool()
		vc := &c08Collector{}

		c.Rule(fmt.Sprintf("pool of %d differently constructed values (%d elvish expressions evaluated by a real Evaler with the edit: module, the rest built in Go); "+
			"layer pairs: every ordered pair of the pool; layer nbhd: every ordered pair (a,b) that eq reports equal x every subset of <=%d (<=%d for one representative pair per pair of described values) of the pair's neighbour keys "+
			"(ints whose hash agrees with Hash(a)/Hash(b) on exactly the low 5r bits for r=0..6, an int and two floats with the identical hash, strings agreeing on exactly 5r bits for r=1..3, <=4 pool values sharing >=5 bits) "+
			"x every insertion order of the subset plus a, smallest subset first; layer bulk: eq pairs (quick: the representative pairs) x 3 families of other keys x every map size 0..%d grown and shrunk one key at a time, a inserted first and a inserted last; "+
			"layer builtins: every eq pair x every <=1-neighbour map x both insertion orders through the builtins; class = layer/kind(s)/eq relation/hash relation/neighbour kinds and position of a",
			len(pool), len(c08Exprs), maxNbAll, maxNbRep, bulkN))
		c.Assume("the premise 'eq reports equal' is vals.Equal as implemented (its own laws are property C09); the documented type-and-value description of each value is used only for coverage facts",
			"identity values (closures, namespaces, exceptions, builtin functions, files) are covered by the instances of this process only",
			"maps beyond the enumerated neighbourhoods and the three bulk families (up to 2000 other entries) are not covered")

		// ---- layer pairs ----------------------------------------------------
		n := len(pool)
		hashes := make([]uint32, n)
		for i, p := range pool {
			hashes[i] = vals.Hash(p.v)
			if h2 := vals.Hash(p.v); h2 != hashes[i] {
				vc.add("hash-unstable:"+p.kind, 0, fmt.Sprintf("Hash(%s) returned %#x then %#x", p.name, hashes[i], h2))
			}
		}
		var mu sync.Mutex
		var pairs []c08Pair
		diffCanonEq := map[string]bool{}
		var sameCanonNotEq, selfNotEq int64
		var sameCanonNotEqList []string
		c.Parallel(n, func(l *vk.Local, i int) {
			a := pool[i]
			var mine []c08Pair
			for j := 0; j < n; j++ {
				b := pool[j]
				var eab, eba bool
				if p := vk.Try(func() { eab = vals.Equal(a.v, b.v); eba = vals.Equal(b.v, a.v) }); p != "" {
					vc.add("panic:equal:"+vk.PanicSite(p), i+j, fmt.Sprintf("Equal(%s, %s) panicked: %s", a.name, b.name, p))
					l.Case("pairs/panic")
					continue
				}
				rel := "different-value"
				if i == j {
					rel = "same-instance"
				} else if a.canon == b.canon {
					rel = "same-value"
				}
				if eab != eba {
					ka, kb := a.kind, b.kind
					if ka > kb {
						ka, kb = kb, ka
					}
					bl := c08Blame(a.v, b.v)
					if bl == "same-hash" {
						bl = ka + "-vs-" + kb
					}
					vc.add("eq-asymmetric:"+bl, (len(a.canon)+len(b.canon))*100+min(99, len(a.name)+len(b.name)), fmt.Sprintf("eq %s %s is %v but eq %s %s is %v", a.name, b.name, eab, b.name, a.name, eba))
				}
				sameHash := hashes[i] == hashes[j]
				if eab || eba {
					bl := c08Blame(a.v, b.v)
					if !sameHash {
						vc.add("hash-differs:"+bl, (len(a.canon)+len(b.canon))*100+min(99, len(a.name)+len(b.name)), fmt.Sprintf("eq %s %s is true but Hash is %#x for the first and %#x for the second", a.name, b.name, hashes[i], hashes[j]))
					}
					mine = append(mine, c08Pair{a: a, b: b, ia: i, ib: j, rel: rel, blame: bl, size: (len(a.canon)+len(b.canon))*100 + min(99, len(a.name)+len(b.name))})
					if rel == "different-value" {
						mu.Lock()
						x, y := a.canon, b.canon
						if x > y {
							x, y = y, x
						}
						if len(x)+len(y) < 150 {
							diffCanonEq[x+"  ~  "+y] = true
						}
						mu.Unlock()
					}
				} else {
					if rel == "same-value" {
						mu.Lock()
						sameCanonNotEq++
						if len(sameCanonNotEqList) < 12 {
							sameCanonNotEqList = append(sameCanonNotEqList, a.name+"  /  "+b.name)
						}
						mu.Unlock()
					}
					if rel == "same-instance" {
						mu.Lock()
						selfNotEq++
						mu.Unlock()
					}
				}
				l.Case(fmt.Sprintf("pairs/%s/%s/%s/eq=%v/samehash=%v", a.kind, b.kind, rel, eab, sameHash))
			}
			mu.Lock()
			pairs = append(pairs, mine...)
			mu.Unlock()
		})
		sort.Slice(pairs, func(x, y int) bool {
			if pairs[x].ia != pairs[y].ia {
				return pairs[x].ia < pairs[y].ia
			}
			return pairs[x].ib < pairs[y].ib
		})
		{
			first := map[string]int{}
			for i, p := range pairs {
				k := p.a.canon + "\x00" + p.b.canon
				if j, ok := first[k]; !ok || (pairs[j].ia == pairs[j].ib && p.ia != p.ib) {
					first[k] = i
				}
			}
			for _, i := range first {
				pairs[i].rep = true
			}
			c.Set("representative_eq_pairs", len(first))
		}
		vc.flush(c)
		fmt.Printf("INFO c08 layer pairs done: %d eq ordered pairs, %v\n", len(pairs), time.Since(t0))
		var dce []string
		for k := range diffCanonEq {
			dce = append(dce, k)
		}
		sort.Strings(dce)
		c.Set("pool_size", n)
		c.Set("eq_ordered_pairs", len(pairs))
		c.Set("eq_pairs_of_differently_described_values", dce)
		c.Set("not_judged_same_described_value_not_eq_ordered_pairs", sameCanonNotEq)
		c.Set("values_not_eq_to_themselves", selfNotEq)
		sort.Strings(sameCanonNotEqList)
		c.Set("not_judged_same_described_value_not_eq_examples", sameCanonNotEqList)
		nonIdent := 0
		for _, p := range pairs {
			if p.ia != p.ib {
				nonIdent++
			}
		}
		c.Set("eq_ordered_pairs_of_distinct_instances", nonIdent)

		// ---- layer nbhd -----------------------------------------------------
		perms := make([][][]int, maxNb+2)
		for k := 0; k <= maxNb+1; k++ {
			perms[k] = c08Perms(k)
		}
		var nbhdCases int64
		c.Parallel(len(pairs), func(l *vk.Local, pi int) {
			p := pairs[pi]
			nbs := c08Neighbours(p.a, p.b, pool)
			a, b := p.a.v, p.b.v
			maxNb := maxNbAll
			if p.rep {
				maxNb = maxNbRep
			}
			prefix := "nbhd/" + p.a.kind + "/" + p.rel + "/" + p.blame + "/"
			var cnt int64
			sub := make([]int, 0, maxNb)
			var rec func(from int)
			run := func() {
				k := len(sub)
				items := make([]c08Entry, k+1)
				items[0] = c08Entry{a, "va"}
				tags := make([]string, k)
				for i, s := range sub {
					items[i+1] = c08Entry{nbs[s].v, "n" + strconv.Itoa(i)}
					tags[i] = nbs[s].tag
				}
				tagStr := strings.Join(tags, ",")
				seq := make([]c08Entry, k+1)
				for _, perm := range perms[k+1] {
					posA := 0
					for i, x := range perm {
						seq[i] = items[x]
						if x == 0 {
							posA = i
						}
					}
					var what, msg string
					if pn := vk.Try(func() {
						m := vals.EmptyMap
						for _, e := range seq {
							m = m.Assoc(e.k, e.v)
						}
						what, msg = c08Probe(m, seq, a, b)
					}); pn != "" {
						vc.add("panic:map:"+vk.PanicSite(pn), p.size*10+k, fmt.Sprintf("map %s probed with %s panicked: %s", c08MapDesc(seq), p.b.name, pn))
					} else if what != "" {
						vc.add(c08Key("map", what, p.blame), p.size*10+k, fmt.Sprintf("a=%s b=%s (eq; Hash %#x / %#x): %s", p.a.name, p.b.name, vals.Hash(a), vals.Hash(b), msg))
					}
					l.Case(prefix + tagStr + "/" + strconv.Itoa(posA))
					cnt++
				}
			}
			rec = func(from int) {
				run()
				if len(sub) == maxNb {
					return
				}
				for i := from; i < len(nbs); i++ {
					sub = append(sub, i)
					rec(i + 1)
					sub = sub[:len(sub)-1]
				}
			}
			rec(0)
			mu.Lock()
			nbhdCases += cnt
			mu.Unlock()
		})
		vc.flush(c)
		fmt.Printf("INFO c08 layer nbhd done: %d cases, %v\n", nbhdCases, time.Since(t0))
		c.Set("nbhd_cases", nbhdCases)

		// ---- layer bulk -----------------------------------------------------
		// Families of other keys: dense ints 1000..; ints that all share the low
		// chunk of Hash(a); strings "k<i>". Keys eq to a or b are skipped.
		var bulkPairs []c08Pair
		for _, p := range pairs {
			if bulkPairsAll || p.rep {
				bulkPairs = append(bulkPairs, p)
			}
		}
		fullAt := map[int]bool{}
		for i := 0; i <= 40; i++ {
			fullAt[i] = true
		}
		for i := 32; i <= bulkN; i *= 2 {
			fullAt[i-1], fullAt[i], fullAt[i+1] = true, true, true
		}
		fullAt[bulkN] = true
		var bulkCases int64
		c.Parallel(len(bulkPairs)*3, func(l *vk.Local, idx int) {
			p := bulkPairs[idx/3]
			fam := idx % 3
			a, b := p.a.v, p.b.v
			ha := vals.Hash(a)
			keyOf := func(i int) any {
				switch fam {
				case 0:
					return 1000 + i
				case 1:
					return int(ha&31) | (i+1)<<5
				default:
					return "k" + strconv.Itoa(i)
				}
			}
			famName := []string{"dense-ints", "ints-sharing-low-chunk", "strings"}[fam]
			var keys []any
			for i := 0; len(keys) < bulkN; i++ {
				k := keyOf(i)
				if !c08Eq(k, a) && !c08Eq(k, b) {
					keys = append(keys, k)
				}
			}
			var cnt int64
			// quick O(1) probe used at every size; the full association-list
			// check runs at the sizes in fullAt.
			probe := func(m hashmap.Map, size int, others []any, phase string) {
				cnt++
				var what, msg string
				if fullAt[size] {
					seq := make([]c08Entry, 0, size+1)
					seq = append(seq, c08Entry{a, "va"})
					for _, k := range others {
						seq = append(seq, c08Entry{k, "o"})
					}
					what, msg = c08Probe(m, seq, a, b)
					if len(msg) > 300 {
						msg = msg[:120] + " ... " + msg[len(msg)-170:]
					}
				} else {
					switch {
					case m.Len() != size+1:
						what, msg = "lookup-len", fmt.Sprintf("Len %d, want %d", m.Len(), size+1)
					case !vals.HasKey(m, b):
						what, msg = "lookup-haskey-misses", "has-key with the eq key is false"
					default:
						if v, _ := m.Index(b); v != "va" {
							what, msg = "lookup-index-misses", fmt.Sprintf("index with the eq key gives %v", v)
						} else if m2 := m.Assoc(b, "z"); m2.Len() != size+1 {
							what, msg = "assoc-len", fmt.Sprintf("assoc with the eq key gives Len %d, want %d", m2.Len(), size+1)
						} else if v, _ := m2.Index(a); v != "z" {
							what, msg = "assoc-index-value", fmt.Sprintf("after assoc with the eq key the key maps to %v, want z", v)
						} else if m3 := m.Dissoc(b); m3.Len() != size {
							what, msg = "dissoc-len", fmt.Sprintf("dissoc with the eq key gives Len %d, want %d", m3.Len(), size)
						} else if _, ok := m3.Index(a); ok {
							what, msg = "dissoc-key-remains", "after dissoc with the eq key the key is still present"
						}
					}
				}
				if what != "" {
					vc.add(c08Key("map", what, p.blame), 1000000+p.size*10000+size, fmt.Sprintf("a=%s b=%s (eq; Hash %#x / %#x), %s, map of a plus %d keys of family %s: %s", p.a.name, p.b.name, vals.Hash(a), vals.Hash(b), phase, size, famName, msg))
				}
				l.Case(fmt.Sprintf("bulk/%s/%s/%s/%s/log2size=%d", p.a.kind, p.blame, famName, phase, c08Log2(size)))
			}
			// a first, then grow
			if pn := vk.Try(func() {
				m := vals.EmptyMap.Assoc(a, "va")
				grown := vals.EmptyMap
				for i := 0; i <= bulkN; i++ {
					probe(m, i, keys[:i], "a-inserted-first")
					probe(grown.Assoc(a, "va"), i, keys[:i], "a-inserted-last")
					if i < bulkN {
						m = m.Assoc(keys[i], "o")
						grown = grown.Assoc(keys[i], "o")
					}
				}
				// shrink again, oldest key first
				for i := 0; i < bulkN; i++ {
					m = m.Dissoc(keys[i])
					probe(m, bulkN-i-1, keys[i+1:], "shrinking")
				}
			}); pn != "" {
				vc.add("panic:map:"+vk.PanicSite(pn), 1000000+p.size*10000, fmt.Sprintf("a=%s b=%s, growing/shrinking a map with keys of family %s panicked: %s", p.a.name, p.b.name, famName, pn))
			}
			mu.Lock()
			bulkCases += cnt
			mu.Unlock()
		})
		vc.flush(c)
		fmt.Printf("INFO c08 layer bulk done: %d cases, %v\n", bulkCases, time.Since(t0))
		c.Set("bulk_pairs", len(bulkPairs))
		c.Set("bulk_cases", bulkCases)

		// ---- layer builtins -------------------------------------------------
		workers := map[*vk.Local]*c08Evaler{}
		getW := func(l *vk.Local) *c08Evaler {
			mu.Lock()
			defer mu.Unlock()
			w := workers[l]
			if w == nil {
				w = c08NewEvaler(false)
				workers[l] = w
			}
			return w
		}
		const code = "put (eq $c08a $c08b) (has-key $c08m $c08b) (count $c08m)\n" +
			"put (count (assoc $c08m $c08b z)) (assoc $c08m $c08b z)[$c08a] (count [(keys (assoc $c08m $c08b z))])\n" +
			"put (count (dissoc $c08m $c08b)) (has-key (dissoc $c08m $c08b) $c08a)\n" +
			"put (eq (assoc $c08m $c08b va) $c08m) (eq (assoc $c08n $c08b va) $c08m)\n" +
			"put $c08m[$c08b]"
		var builtinCases int64
		c.Parallel(len(pairs), func(l *vk.Local, pi int) {
			p := pairs[pi]
			w := getW(l)
			nbs := c08Neighbours(p.a, p.b, pool)
			var cnt int64
			for s := -1; s < len(nbs); s++ {
				for order := 0; order < 2; order++ {
					if s < 0 && order == 1 {
						continue
					}
					m, nmap := vals.EmptyMap, vals.EmptyMap
					var seq []c08Entry
					tag := "-"
					if s >= 0 {
						tag = nbs[s].tag
						if order == 0 {
							seq = []c08Entry{{nbs[s].v, "n0"}, {p.a.v, "va"}}
						} else {
							seq = []c08Entry{{p.a.v, "va"}, {nbs[s].v, "n0"}}
						}
						nmap = nmap.Assoc(nbs[s].v, "n0")
					} else {
						seq = []c08Entry{{p.a.v, "va"}}
					}
					if pn := vk.Try(func() {
						for _, e := range seq {
							m = m.Assoc(e.k, e.v)
						}
					}); pn != "" {
						vc.add("panic:map:"+vk.PanicSite(pn), p.size*10+len(seq), fmt.Sprintf("building map %s panicked: %s", c08MapDesc(seq), pn))
						continue
					}
					w.a, w.b, w.m, w.n = p.a.v, p.b.v, m, nmap
					out, err := w.eval(code)
					size := len(seq)
					want := []any{true, true, size, size, "z", size, size - 1, false, true, true, "va"}
					names := []string{"eq $a $b", "has-key $m $b", "count $m", "count (assoc $m $b z)", "(assoc $m $b z)[$a]", "count [(keys (assoc $m $b z))]",
						"count (dissoc $m $b)", "has-key (dissoc $m $b) $a", "eq (assoc $m $b va) $m", "eq (assoc $n $b va) $m", "$m[$b]"}
					desc := fmt.Sprintf("a=%s b=%s (eq; Hash %#x / %#x), m=%s, n=m without a", p.a.name, p.b.name, vals.Hash(p.a.v), vals.Hash(p.b.v), c08MapDesc(seq))
					for i := range want {
						if i >= len(out) {
							vc.add(c08Key("builtin", c08Slug(names[i]), p.blame), p.size*10+size, fmt.Sprintf("%s: `%s` gave no value (%s)", desc, names[i], err))
							break
						}
						if out[i] != want[i] {
							vc.add(c08Key("builtin", c08Slug(names[i]), p.blame), p.size*10+size, fmt.Sprintf("%s: `%s` is %v, want %v", desc, names[i], out[i], want[i]))
							break
						}
					}
					if err != "" && len(out) >= len(want) {
						vc.add(c08Key("builtin", "error", p.blame), p.size*10+size, fmt.Sprintf("%s: %s", desc, err))
					}
					l.Case(fmt.Sprintf("builtins/%s/%s/%s/%s/%d", p.a.kind, p.rel, p.blame, tag, order))
					cnt++
				}
			}
			mu.Lock()
			builtinCases += cnt
			mu.Unlock()
		})
		vc.flush(c)
		fmt.Printf("INFO c08 layer builtins done: %d cases, %v\n", builtinCases, time.Since(t0))
		c.Set("builtin_cases", builtinCases)
		for i, p := range pairs {
			if p.ia != p.ib && i%37 == 0 {
				c.Sample(p.a.name + "  eq  " + p.b.name)
			}
		}
	})
}

func c08Log2(n int) int {
	r := 0
	for n > 1 {
		n >>= 1
		r++
	}
	return r
}

func c08Slug(s string) string {
	var sb strings.Builder
	for _, r := range s {
		switch {
		case r >= 'a' && r <= 'z', r >= '0' && r <= '9':
			sb.WriteRune(r)
		case r == ' ', r == '-':
			if sb.Len() > 0 && !strings.HasSuffix(sb.String(), "-") {
				sb.WriteByte('-')
			}
		}
	}
	return strings.Trim(sb.String(), "-")
}
