//go:build verif

package lsp

import (
	"bufio"
	"bytes"
	"context"
	"encoding/json"
	"fmt"
	"io"
	"sort"
	"strconv"
	"strings"
	"sync"

	lsp "pkg.nimblebun.works/go-lsp"

	"github.com/sourcegraph/jsonrpc2"
	"src.elv.sh/pkg/parse"
	"src.elv.sh/pkg/zzverif/vk"
	"src.elv.sh/pkg/zzverif/vsched"
)

// Part C of C44: the server publishes diagnostics from a goroutine started by
// every didOpen/didChange. Here the handlers are called directly (as the
// jsonrpc2 connection does, one after the other) on a real server whose
// goroutine starts are controlled, with accesses to the document table modelled
// as non-atomic; every interleaving of the publishing goroutines with the next
// handler call is explored. Each published set must be exactly the converted
// parse errors of one version of the document, one publication per version.

// c44sStream is the client side of the connection: what the server writes is
// captured; reads block until the stream is closed (the client sends nothing).
type c44sStream struct {
	mu     sync.Mutex
	out    bytes.Buffer
	closed chan struct{}
	once   sync.Once
}

func (s *c44sStream) Read(p []byte) (int, error) { <-s.closed; return 0, io.EOF }
func (s *c44sStream) Write(p []byte) (int, error) {
	s.mu.Lock()
	defer s.mu.Unlock()
	return s.out.Write(p)
}
func (s *c44sStream) Close() error { s.once.Do(func() { close(s.closed) }); return nil }

// c44sPublications decodes the publishDiagnostics notifications written to the stream.
func c44sPublications(raw []byte) []string {
	var out []string
	rd := bufio.NewReader(bytes.NewReader(raw))
	for {
		n := -1
		for {
			line, err := rd.ReadString('\n')
			if err != nil {
				return out
			}
			line = strings.TrimSpace(line)
			if line == "" {
				break
			}
			if strings.HasPrefix(strings.ToLower(line), "content-length:") {
				n, _ = strconv.Atoi(strings.TrimSpace(line[len("content-length:"):]))
			}
		}
		if n < 0 {
			return out
		}
		body := make([]byte, n)
		if _, err := io.ReadFull(rd, body); err != nil {
			return out
		}
		var msg struct {
			Method string `json:"method"`
			Params struct {
				Diagnostics []struct {
					Range   lsp.Range `json:"range"`
					Message string    `json:"message"`
				} `json:"diagnostics"`
			} `json:"params"`
		}
		if json.Unmarshal(body, &msg) != nil || msg.Method != "textDocument/publishDiagnostics" {
			continue
		}
		var parts []string
		for _, d := range msg.Params.Diagnostics {
			parts = append(parts, fmt.Sprintf("%d:%d-%d:%d %s", d.Range.Start.Line, d.Range.Start.Character, d.Range.End.Line, d.Range.End.Character, d.Message))
		}
		out = append(out, "{"+strings.Join(parts, "; ")+"}")
	}
}

// c44sExpected is the oracle: the parse errors of code converted with the independent position oracle of part A.
func c44sExpected(code string) string {
	_, err := parse.Parse(parse.Source{Name: "x", Code: code}, parse.Config{})
	var parts []string
	for _, e := range parse.UnpackErrors(err) {
		r := e.Range()
		sl, sc := c44OraclePos(code, r.From)
		el, ec := c44OraclePos(code, r.To)
		parts = append(parts, fmt.Sprintf("%d:%d-%d:%d %s", sl, sc, el, ec, e.Message))
	}
	return "{" + strings.Join(parts, "; ") + "}"
}

// c44OraclePos: line = number of LF/CR/CRLF line ends before off; character = UTF-16 units since the line start.
func c44OraclePos(s string, off int) (int, int) {
	line, char := 0, 0
	for i := 0; i < off && i < len(s); {
		switch {
		case s[i] == '\r' && i+1 < len(s) && s[i+1] == '\n':
			if i+1 >= off { // inside the pair: position of the CR
				return line, char
			}
			line++
			char = 0
			i += 2
		case s[i] == '\r' || s[i] == '\n':
			line++
			char = 0
			i++
		default:
			r, size := rune(s[i]), 1
			if s[i] >= 0x80 {
				rr, sz := decodeRune(s[i:])
				r, size = rr, sz
			}
			if r > 0xFFFF {
				char += 2
			} else {
				char++
			}
			i += size
		}
	}
	return line, char
}

func decodeRune(s string) (rune, int) {
	for i, r := range s {
		_ = i
		n := len(string(r))
		if r == 0xFFFD && (len(s) < 3 || s[:3] != "\xef\xbf\xbd") {
			return r, 1
		}
		return r, n
	}
	return 0xFFFD, 1
}

type c44sScenario struct {
	name  string
	texts []string // didOpen(texts[0]) then didChange(texts[1:]) on one URI
}

func c44sBody(sc c44sScenario) func() {
	return func() {
		s := newServer()
		stream := &c44sStream{closed: make(chan struct{})}
		conn := jsonrpc2.NewConn(context.Background(), jsonrpc2.NewBufferedStream(stream, jsonrpc2.VSCodeObjectCodec{}), handler(s))
		ctx := context.WithValue(context.Background(), connKey{}, conn)
		const uri = lsp.DocumentURI("file:///d")
		for i, text := range sc.texts {
			if i == 0 {
				s.didOpen(ctx, lsp.DidOpenTextDocumentParams{TextDocument: lsp.TextDocumentItem{URI: uri, Text: text}})
			} else {
				s.didChange(ctx, lsp.DidChangeTextDocumentParams{
					TextDocument:   lsp.VersionedTextDocumentIdentifier{TextDocumentIdentifier: lsp.TextDocumentIdentifier{URI: uri}},
					ContentChanges: []lsp.TextDocumentContentChangeEvent{{Text: text}}})
			}
			vsched.Point("between-messages")
		}
		// the publishing goroutines finish on their own; then read what was published
		vsched.Sleep(1 << 30)
		stream.mu.Lock()
		raw := append([]byte{}, stream.out.Bytes()...)
		stream.mu.Unlock()
		pubs := c44sPublications(raw)
		sort.Strings(pubs)
		vsched.Logf("published %s", strings.Join(pubs, " | "))
		conn.Close()
	}
}

func c44sSchedPart(c *vk.Ctx) {
	scs := []c44sScenario{
		{"long-then-short", []string{"echo $! $! $!\necho $!", "echo"}},
		{"short-then-long", []string{"a", "a )\n𝄞 ( $!"}},
		{"three-versions", []string{"$!", "echo ( a", "nop"}},
		{"crlf-then-shorter", []string{"a\r\n$!\r\n)", "$!"}},
	}
	bound := vk.Pick(c, 3, 4)
	var total int64
	for _, sc := range scs {
		sc := sc
		var want []string
		for _, t := range sc.texts {
			want = append(want, c44sExpected(t))
		}
		sort.Strings(want)
		wantS := "published " + strings.Join(want, " | ")
		x := &vsched.Explorer{Bound: bound, MaxPoints: 2000, Body: c44sBody(sc), Stop: c.TimeUp}
		x.Check = func(r *vsched.Result) {
			got := ""
			for _, l := range r.Log {
				if strings.HasPrefix(l, "published ") {
					got = l
				}
			}
			c.Case("sched:" + sc.name + ":" + fmt.Sprint(len(r.Races) > 0) + ":" + fmt.Sprint(got == wantS))
			report := func(key, msg string) {
				if same, _ := vsched.Replay(r.Choices, 2000, c44sBody(sc), 3); !same {
					fmt.Printf("HARNESS-ERROR property=C44 schedule %v of %s does not replay deterministically\n", r.Choices, sc.name)
					return
				}
				c.Violate(key, fmt.Sprintf("scenario %s (didOpen/didChange texts %q) schedule %v: %s", sc.name, sc.texts, r.Choices, msg),
					map[string]any{"scenario": sc.name, "choices": r.Choices, "log": r.Log})
			}
			switch {
			case len(r.Races) > 0:
				report("data-race:server.documents", fmt.Sprintf("unsynchronised concurrent access to the document table: %v", r.Races))
			case r.Panics > 0 || r.Deadlock:
				report("server-crash-or-deadlock", fmt.Sprint(r.Log, r.Blocked))
			case got != wantS:
				report("diagnostics-of-another-version", fmt.Sprintf("published sets %q, but the versions' converted parse errors are %q", strings.TrimPrefix(got, "published "), strings.TrimPrefix(wantS, "published ")))
			}
		}
		x.Explore(nil)
		if x.Diverged != "" {
			fmt.Printf("HARNESS-ERROR property=C44 %s\n", x.Diverged)
		}
		if x.Capped {
			c.Capped("time budget reached in the publishing-goroutine part")
		}
		total += x.Executions
	}
	c.Set("c_publishing_goroutine_schedules", total)
	c.Set("c_preemption_bound", bound)
}
