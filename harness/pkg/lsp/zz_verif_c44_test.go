//go:build verif

package lsp

// C44: the language server answers every request and maps positions exactly.
//
// Part A (in-package, position algebra): every document of <= n symbols over
// {a, é, 𝄞, LF, CR, CRLF}; every byte offset at a character boundary and every
// position of a (line, character) grid reaching past the last line, past the end
// of each line and inside surrogate pairs, run through the real
// lspPositionFromIdx / lspPositionToIdx and compared with an independent
// line-table + unicode/utf16 oracle.
//
// Part B (server subprogram over a real JSON-RPC connection): the real
// lsp.Program is run by prog.Run in a child process of this test binary on
// stdin/stdout (so that a crash of the server is observed as a dropped
// connection instead of killing the harness).
//   B1: every document of <= m tokens over a 12-token alphabet is opened; the
//       published diagnostics are compared with the parse errors of the text
//       converted by the oracle; hover and completion are requested at every
//       position of the document's grid.
//   B2: every request sequence of <= k operations over {didOpen d, didChange d,
//       hover p, completion p, hover/completion on a never-opened URI}.

import (
	"bytes"
	"context"
	"encoding/json"
	"fmt"
	"os"
	"os/exec"
	"path/filepath"
	"sort"
	"strings"
	"sync"
	"testing"
	"time"
	"unicode/utf16"
	"unicode/utf8"

	"github.com/sourcegraph/jsonrpc2"
	lsp "pkg.nimblebun.works/go-lsp"
	"src.elv.sh/pkg/parse"
	"src.elv.sh/pkg/prog"
	"src.elv.sh/pkg/zzverif/vk"
)

// ---------------------------------------------------------------------------
// Independent oracle: line table (LF, CR and CRLF each end a line, CRLF is one
// line break) and UTF-16 code unit counting with unicode/utf16.

type c44Line struct{ start, end int } // content is s[start:end], terminator excluded

func c44Lines(s string) []c44Line {
	var ls []c44Line
	start := 0
	for i := 0; i < len(s); {
		switch {
		case s[i] == '\r' && i+1 < len(s) && s[i+1] == '\n':
			ls = append(ls, c44Line{start, i})
			i += 2
			start = i
		case s[i] == '\r' || s[i] == '\n':
			ls = append(ls, c44Line{start, i})
			i++
			start = i
		default:
			i++
		}
	}
	return append(ls, c44Line{start, len(s)})
}

func c44Units(s string) int { return len(utf16.Encode([]rune(s))) }

// c44PosOfOffset returns the position of a byte offset; ok is false when the
// offset is not at a character boundary (inside a UTF-8 sequence or between the
// CR and the LF of a CRLF pair), where the statement demands nothing.
func c44PosOfOffset(s string, lines []c44Line, off int) (lsp.Position, bool) {
	if off < len(s) && !utf8.RuneStart(s[off]) {
		return lsp.Position{}, false
	}
	return c44PosOfBoundary(s, lines, off)
}

// c44PosUp is the conversion used for the byte ranges of parse errors (the
// parser reports the culprit as [pos, pos+1) in bytes, which ends inside a
// multi-byte culprit): an offset inside a UTF-8 sequence denotes the end of that
// character, so that the range covers the whole character and never ends
// between the halves of a surrogate pair. inside is true for such an offset; ok
// is false only between the CR and the LF of a CRLF pair.
func c44PosUp(s string, lines []c44Line, off int) (pos lsp.Position, inside, ok bool) {
	for off < len(s) && !utf8.RuneStart(s[off]) {
		off++
		inside = true
	}
	pos, ok = c44PosOfBoundary(s, lines, off)
	return pos, inside, ok
}

func c44PosOfBoundary(s string, lines []c44Line, off int) (lsp.Position, bool) {
	for k, ln := range lines {
		if off >= ln.start && off <= ln.end {
			return lsp.Position{Line: k, Character: c44Units(s[ln.start:off])}, true
		}
	}
	return lsp.Position{}, false
}

// c44KindOfPosition classifies a position: "exact" (and its offset),
// "inside-surrogate", "past-eol" or "past-last-line".
func c44KindOfPosition(s string, lines []c44Line, pos lsp.Position) (int, string) {
	if pos.Line >= len(lines) {
		return -1, "past-last-line"
	}
	ln := lines[pos.Line]
	units := 0
	for i := ln.start; ; {
		if units == pos.Character {
			return i, "exact"
		}
		if units > pos.Character {
			return -1, "inside-surrogate"
		}
		if i >= ln.end {
			return -1, "past-eol"
		}
		r, w := utf8.DecodeRuneInString(s[i:ln.end])
		units += len(utf16.Encode([]rune{r}))
		i += w
	}
}

func c44MaxUnits(s string, lines []c44Line) int {
	m := 0
	for _, ln := range lines {
		if u := c44Units(s[ln.start:ln.end]); u > m {
			m = u
		}
	}
	return m
}

// c44Canonical rejects symbol sequences in which a lone "\r" symbol is directly
// followed by a lone "\n" symbol: the same string is produced with the "\r\n"
// symbol, so every string is enumerated exactly once.
func c44Canonical(alpha []string, idx []int) bool {
	for i := 0; i+1 < len(idx); i++ {
		if alpha[idx[i]] == "\r" && alpha[idx[i+1]] == "\n" {
			return false
		}
	}
	return true
}

// ---------------------------------------------------------------------------
// Part A.

var c44Syms = []string{"a", "é", "𝄞", "\n", "\r", "\r\n"}

func c44Features(s string) string {
	var f []string
	if strings.Contains(s, "é") {
		f = append(f, "bmp")
	}
	if strings.Contains(s, "𝄞") {
		f = append(f, "astral")
	}
	t := strings.ReplaceAll(s, "\r\n", "")
	if strings.Contains(s, "\r\n") {
		f = append(f, "crlf")
	}
	if strings.Contains(t, "\r") {
		f = append(f, "cr")
	}
	if strings.Contains(t, "\n") {
		f = append(f, "lf")
	}
	return strings.Join(f, "+")
}

func c44CheckPositions(c *vk.Ctx, s string, counts map[string]int64) string {
	lines := c44Lines(s)
	// every offset at a character boundary
	for i := 0; i <= len(s); i++ {
		want, ok := c44PosOfOffset(s, lines, i)
		if !ok {
			up, inside, okUp := c44PosUp(s, lines, i)
			if !inside || !okUp {
				counts["offsets_inside_crlf_not_judged"]++
				continue
			}
			counts["offsets_inside_character_judged"]++
			var got lsp.Position
			if p := vk.Try(func() { got = lspPositionFromIdx(s, i) }); p != "" {
				c.Violate("position-conversion-panic:"+vk.PanicSite(p), fmt.Sprintf("document %q offset %d: %s", s, i, p), s)
				return "panic"
			}
			if got != up {
				c.Violate("offset-inside-character-to-position", fmt.Sprintf("document %q: lspPositionFromIdx(%d) [inside a UTF-8 sequence] = (line %d, char %d), want the end of that character (line %d, char %d)",
					s, i, got.Line, got.Character, up.Line, up.Character), s)
			}
			continue
		}
		counts["offsets_judged"]++
		var got lsp.Position
		var back int
		if p := vk.Try(func() { got = lspPositionFromIdx(s, i); back = lspPositionToIdx(s, want) }); p != "" {
			c.Violate("position-conversion-panic:"+vk.PanicSite(p), fmt.Sprintf("document %q offset %d: %s", s, i, p), s)
			return "panic"
		}
		if got != want {
			key := "offset-to-position-character"
			if got.Line != want.Line {
				key = "offset-to-position-line"
			}
			c.Violate(key, fmt.Sprintf("document %q: lspPositionFromIdx(%d) = (line %d, char %d), want (line %d, char %d) [UTF-16 units, CR/LF/CRLF each one line break]",
				s, i, got.Line, got.Character, want.Line, want.Character), s)
			continue
		}
		if back != i {
			key := "roundtrip"
			if i >= 2 && s[i-2:i] == "\r\n" {
				key = "roundtrip-line-start-after-crlf"
			}
			c.Violate(key, fmt.Sprintf("document %q: offset %d -> position (line %d, char %d) -> lspPositionToIdx = %d, want %d (offset at a character boundary must round-trip)",
				s, i, want.Line, want.Character, back, i), s)
		}
	}
	// every position of the grid, in lexicographic order
	maxU := c44MaxUnits(s, lines)
	prev := -1
	var prevPos lsp.Position
	for ln := 0; ln <= len(lines)+1; ln++ {
		for ch := 0; ch <= maxU+2; ch++ {
			pos := lsp.Position{Line: ln, Character: ch}
			_, kind := c44KindOfPosition(s, lines, pos)
			counts["positions_"+kind]++
			var idx int
			if p := vk.Try(func() { idx = lspPositionToIdx(s, pos) }); p != "" {
				c.Violate("position-conversion-panic:"+vk.PanicSite(p), fmt.Sprintf("document %q position (%d,%d): %s", s, ln, ch, p), s)
				return "panic"
			}
			switch {
			case idx < 0 || idx > len(s):
				c.Violate("position-to-offset-out-of-range", fmt.Sprintf("document %q (len %d): lspPositionToIdx(line %d, char %d) [%s] = %d", s, len(s), ln, ch, kind, idx), s)
			case idx < len(s) && !utf8.RuneStart(s[idx]):
				c.Violate("position-to-offset-mid-rune", fmt.Sprintf("document %q: lspPositionToIdx(line %d, char %d) [%s] = %d, inside a UTF-8 sequence", s, ln, ch, kind, idx), s)
			case idx < prev:
				c.Violate("position-to-offset-not-monotone", fmt.Sprintf("document %q: lspPositionToIdx(line %d, char %d) = %d but the smaller position (line %d, char %d) maps to %d",
					s, ln, ch, idx, prevPos.Line, prevPos.Character, prev), s)
			}
			prev, prevPos = idx, pos
		}
	}
	return fmt.Sprintf("A/%s/lines=%d/maxu16=%d", c44Features(s), len(lines), maxU)
}

// ---------------------------------------------------------------------------
// Part B: JSON-RPC client talking to the server subprogram in a child process.

// TestVerifC44ServerChild is the server side: when started by the harness it
// runs the real LSP subprogram on stdin/stdout exactly like `elvish -lsp`.
func TestVerifC44ServerChild(t *testing.T) {
	if os.Getenv("C44_SERVER_CHILD") != "1" {
		t.Skip("helper process of TestVerifC44")
	}
	os.Exit(prog.Run([3]*os.File{os.Stdin, os.Stdout, os.Stderr}, []string{"elvish", "-lsp"}, &Program{}))
}

type c44Buf struct {
	mu sync.Mutex
	b  bytes.Buffer
}

func (b *c44Buf) Write(p []byte) (int, error) {
	b.mu.Lock()
	defer b.mu.Unlock()
	if b.b.Len() < 1<<16 {
		b.b.Write(p)
	}
	return len(p), nil
}
func (b *c44Buf) String() string { b.mu.Lock(); defer b.mu.Unlock(); return b.b.String() }

type c44Pipe struct {
	r interface{ Read([]byte) (int, error) }
	w interface {
		Write([]byte) (int, error)
		Close() error
	}
}

func (p c44Pipe) Read(b []byte) (int, error)  { return p.r.Read(b) }
func (p c44Pipe) Write(b []byte) (int, error) { return p.w.Write(b) }
func (p c44Pipe) Close() error                { return p.w.Close() }

type c44Diag struct {
	Range    lsp.Range `json:"range"`
	Severity int       `json:"severity"`
	Message  string    `json:"message"`
}

type c44Publish struct {
	URI         string    `json:"uri"`
	Diagnostics []c44Diag `json:"diagnostics"`
}

type c44Client struct {
	cmd    *exec.Cmd
	conn   *jsonrpc2.Conn
	diags  chan c44Publish
	stderr *c44Buf
	nuri   int
	name   string
	refs   map[string]string
}

var c44Bg = context.Background()

func c44Start(name string) (*c44Client, error) {
	dir := filepath.Join(os.Getenv("VERIF_SCRATCH"), "c44-"+name)
	if os.Getenv("VERIF_SCRATCH") == "" {
		return nil, fmt.Errorf("VERIF_SCRATCH is not set")
	}
	if err := os.MkdirAll(dir, 0o755); err != nil {
		return nil, err
	}
	exe, err := os.Executable()
	if err != nil {
		return nil, err
	}
	cmd := exec.Command(exe, "-test.run", "^TestVerifC44ServerChild$")
	cmd.Dir = dir
	// empty PATH and an empty working directory: completion candidates do not
	// depend on the machine
	// (GOMAXPROCS only keeps 16 mostly idle server processes from oversubscribing the machine)
	cmd.Env = []string{"C44_SERVER_CHILD=1", "PATH=", "HOME=" + dir, "GOMAXPROCS=2"}
	stdin, err := cmd.StdinPipe()
	if err != nil {
		return nil, err
	}
	stdout, err := cmd.StdoutPipe()
	if err != nil {
		return nil, err
	}
	cl := &c44Client{cmd: cmd, diags: make(chan c44Publish, 64), stderr: &c44Buf{}, name: name, refs: map[string]string{}}
	cmd.Stderr = cl.stderr
	if err := cmd.Start(); err != nil {
		return nil, err
	}
	cl.conn = jsonrpc2.NewConn(c44Bg,
		jsonrpc2.NewBufferedStream(c44Pipe{stdout, stdin}, jsonrpc2.VSCodeObjectCodec{}),
		jsonrpc2.HandlerWithError(func(_ context.Context, _ *jsonrpc2.Conn, req *jsonrpc2.Request) (any, error) {
			if req.Method == "textDocument/publishDiagnostics" && req.Params != nil {
				var p c44Publish
				if err := json.Unmarshal(*req.Params, &p); err != nil {
					p.URI = "undecodable: " + err.Error() + ": " + string(*req.Params)
				}
				cl.diags <- p
			}
			return nil, nil
		}))
	if err := cl.conn.Call(c44Bg, "initialize", lsp.InitializeParams{}, &json.RawMessage{}); err != nil {
		cl.stop()
		return nil, fmt.Errorf("initialize: %v; stderr: %s", err, cl.stderr.String())
	}
	if err := cl.conn.Notify(c44Bg, "initialized", struct{}{}); err != nil {
		cl.stop()
		return nil, fmt.Errorf("initialized: %v", err)
	}
	return cl, nil
}

// stop closes the connection (the server subprogram exits when its input is
// closed) and returns what the child wrote to stderr.
func (cl *c44Client) stop() string {
	cl.conn.Close()
	cl.cmd.Process.Kill()
	cl.cmd.Wait()
	return cl.stderr.String()
}

// c44Dead describes a dropped connection: the exit status and the crash site of the child.
func (cl *c44Client) dead() (site, detail string) {
	cl.conn.Close()
	err := cl.cmd.Wait()
	st := cl.stderr.String()
	site = "unknown"
	for _, line := range strings.Split(st, "\n") {
		line = strings.TrimSpace(line)
		if strings.HasPrefix(line, "/") && strings.Contains(line, ".go:") && !strings.Contains(line, "/runtime/") && !strings.Contains(line, "/testing/") {
			site = filepath.Base(strings.SplitN(line, ":", 2)[0])
			break
		}
	}
	first := st
	if i := strings.Index(first, "\n"); i >= 0 {
		first = first[:i]
	}
	return site, fmt.Sprintf("server process ended (%v): %s", err, first)
}

func (cl *c44Client) uri(part string) string {
	cl.nuri++
	return fmt.Sprintf("file:///c44/%s/%s/%d", part, cl.name, cl.nuri)
}

// call sends a request; dead is true when the connection dropped instead of a reply.
func (cl *c44Client) call(method string, params any) (res string, rpcErr *jsonrpc2.Error, dead bool) {
	var raw json.RawMessage
	err := cl.conn.Call(c44Bg, method, params, &raw)
	if err == nil {
		return string(raw), nil, false
	}
	if e, ok := err.(*jsonrpc2.Error); ok {
		return "", e, false
	}
	return err.Error(), nil, true
}

func (cl *c44Client) sendText(method, uri, text string) bool {
	var params any
	if method == "textDocument/didOpen" {
		params = lsp.DidOpenTextDocumentParams{TextDocument: lsp.TextDocumentItem{URI: lsp.DocumentURI(uri), LanguageID: "elvish", Version: 1, Text: text}}
	} else {
		params = lsp.DidChangeTextDocumentParams{
			TextDocument:   lsp.VersionedTextDocumentIdentifier{TextDocumentIdentifier: lsp.TextDocumentIdentifier{URI: lsp.DocumentURI(uri)}, Version: 2},
			ContentChanges: []lsp.TextDocumentContentChangeEvent{{Text: text}}}
	}
	return cl.conn.Notify(c44Bg, method, params) == nil
}

func (cl *c44Client) waitDiag() (c44Publish, bool) {
	select {
	case d := <-cl.diags:
		return d, true
	case <-cl.conn.DisconnectNotify():
		select {
		case d := <-cl.diags:
			return d, true
		default:
		}
		return c44Publish{}, false
	}
}

func c44PosParams(uri string, pos lsp.Position) lsp.TextDocumentPositionParams {
	return lsp.TextDocumentPositionParams{TextDocument: lsp.TextDocumentIdentifier{URI: lsp.DocumentURI(uri)}, Position: pos}
}

func (cl *c44Client) request(kind, uri string, pos lsp.Position) (string, *jsonrpc2.Error, bool) {
	if kind == "hover" {
		return cl.call("textDocument/hover", c44PosParams(uri, pos))
	}
	return cl.call("textDocument/completion", lsp.CompletionParams{TextDocumentPositionParams: c44PosParams(uri, pos)})
}

// c44CheckDiags compares a publication with the parse errors of text converted
// by the oracle (as a multiset; endpoints that are not at a character boundary
// are not judged). It returns a violation key and message, or "".
func c44CheckDiags(uri, text string, got c44Publish, notJudged *int64) (string, string) {
	if got.URI != uri {
		return "diagnostics-wrong-uri", fmt.Sprintf("document %q: diagnostics published for %q, want %q", text, got.URI, uri)
	}
	_, err := parse.Parse(parse.Source{Name: uri, Code: text}, parse.Config{})
	errs := parse.UnpackErrors(err)
	if len(errs) != len(got.Diagnostics) {
		return "diagnostics-count", fmt.Sprintf("document %q: %d diagnostics published %+v, the text has %d parse errors %v", text, len(got.Diagnostics), got.Diagnostics, len(errs), errs)
	}
	lines := c44Lines(text)
	for _, d := range got.Diagnostics {
		for _, p := range []lsp.Position{d.Range.Start, d.Range.End} {
			if _, kind := c44KindOfPosition(text, lines, p); kind == "inside-surrogate" {
				return "diagnostics-position-inside-surrogate", fmt.Sprintf("document %q: diagnostic %+v has an endpoint (line %d, char %d) between the two halves of a surrogate pair", text, d, p.Line, p.Character)
			}
		}
	}
	used := make([]bool, len(errs))
	for _, e := range errs {
		r := e.Range()
		from, inF, okF := c44PosUp(text, lines, r.From)
		to, inT, okT := c44PosUp(text, lines, r.To)
		if !okF {
			*notJudged++
		}
		if !okT {
			*notJudged++
		}
		found := false
		for j, d := range got.Diagnostics {
			if used[j] || d.Message != e.Message || (okF && d.Range.Start != from) || (okT && d.Range.End != to) {
				continue
			}
			used[j], found = true, true
			break
		}
		if !found {
			key := "diagnostics-range"
			if inF || inT {
				key = "diagnostics-range-multibyte-culprit"
			}
			return key, fmt.Sprintf("document %q: parse error %q at bytes [%d,%d) = positions (%d,%d)-(%d,%d) has no matching diagnostic among %+v",
				text, e.Message, r.From, r.To, from.Line, from.Character, to.Line, to.Character, got.Diagnostics)
		}
	}
	return "", ""
}

func c44ReplyKind(kind, res string, e *jsonrpc2.Error) string {
	switch {
	case e != nil:
		return "error"
	case res == "null":
		return "null"
	case kind == "hover":
		return "markdown"
	case res == "[]":
		return "none"
	case strings.Contains(res, `"kind":3`):
		return "commands"
	case strings.Contains(res, `"kind":6`):
		return "variables"
	default:
		return "items"
	}
}

// c44Workers hands one server subprocess to each vk worker.
type c44Workers struct {
	c       *vk.Ctx
	mu      sync.Mutex
	m       map[*vk.Local]*c44Client
	n       int
	crashes int
}

// giveUp stops the server exploration (recorded as not exhaustive) when the
// time budget is used up or the server has already crashed many times (every
// crash is reported; restarting the server thousands of times adds nothing).
func (w *c44Workers) giveUp() bool {
	w.mu.Lock()
	n := w.crashes
	w.mu.Unlock()
	if n >= 20 {
		w.c.Capped("server exploration stopped after 20 server crashes")
		return true
	}
	if w.c.TimeUp() {
		w.c.Capped("time budget reached during the server exploration")
		return true
	}
	return false
}

func (w *c44Workers) get(l *vk.Local) *c44Client {
	w.mu.Lock()
	defer w.mu.Unlock()
	if cl := w.m[l]; cl != nil {
		return cl
	}
	if _, seen := w.m[l]; !seen {
		w.c.Watch(l)
	}
	w.n++
	cl, err := c44Start(fmt.Sprintf("w%d", w.n))
	if err != nil {
		panic(fmt.Sprintf("cannot start the server subprocess: %v", err))
	}
	w.m[l] = cl
	return cl
}

// crashed reports a dropped connection as a violation and forgets the client
// so that the next case starts a new server.
func (w *c44Workers) crashed(l *vk.Local, cl *c44Client, what string) {
	site, detail := cl.dead()
	w.c.Violate("server-crash:"+site, fmt.Sprintf("%s: no reply, %s", what, detail), what)
	w.mu.Lock()
	w.m[l] = nil
	w.crashes++
	w.mu.Unlock()
}

func (w *c44Workers) stopAll() {
	w.mu.Lock()
	defer w.mu.Unlock()
	for l, cl := range w.m {
		if cl != nil {
			cl.stop()
			w.m[l] = nil
		}
	}
}

// ---- B1: every small document, every grid position.

var c44Toks = []string{"echo", "paths", "$", "!", "[", ")", " ", "𝄞", "é", "\n", "\r", "\r\n"}

func c44DocSweep(c *vk.Ctx, w *c44Workers, maxToks int) {
	var docs []string
	var rec func(idx []int)
	rec = func(idx []int) {
		if c44Canonical(c44Toks, idx) {
			docs = append(docs, vk.Join(c44Toks, idx))
		}
		if len(idx) == maxToks {
			return
		}
		for i := range c44Toks {
			rec(append(idx[:len(idx):len(idx)], i))
		}
	}
	rec(nil)
	sort.SliceStable(docs, func(i, j int) bool { return len(docs[i]) < len(docs[j]) })
	c.Set("b1_documents", len(docs))
	var notJudged, requests int64
	var mu sync.Mutex
	c.Parallel(len(docs), func(l *vk.Local, i int) {
		if w.giveUp() {
			return
		}
		text := docs[i]
		cl := w.get(l)
		l.Begin(fmt.Sprintf("B1 document %q", text))
		defer l.End()
		uri := cl.uri("b1")
		var nj, nreq int64
		defer func() { mu.Lock(); notJudged += nj; requests += nreq; mu.Unlock() }()
		if !cl.sendText("textDocument/didOpen", uri, text) {
			w.crashed(l, cl, fmt.Sprintf("didOpen %q", text))
			l.Case("B1/crash")
			return
		}
		pub, ok := cl.waitDiag()
		if !ok {
			w.crashed(l, cl, fmt.Sprintf("didOpen %q (waiting for publishDiagnostics)", text))
			l.Case("B1/crash")
			return
		}
		if k, m := c44CheckDiags(uri, text, pub, &nj); k != "" {
			c.Violate(k, "didOpen: "+m, text)
		}
		lines := c44Lines(text)
		kinds := map[string]bool{}
		// grid: every line and one line past the last; on each line every
		// character offset up to two past its end
		for ln := 0; ln <= len(lines); ln++ {
			lineU := 0
			if ln < len(lines) {
				lineU = c44Units(text[lines[ln].start:lines[ln].end])
			}
			for ch := 0; ch <= lineU+2; ch++ {
				pos := lsp.Position{Line: ln, Character: ch}
				for _, kind := range []string{"hover", "completion"} {
					nreq++
					res, e, dead := cl.request(kind, uri, pos)
					what := fmt.Sprintf("document %q, %s at (line %d, char %d)", text, kind, ln, ch)
					if dead {
						w.crashed(l, cl, what)
						l.Case("B1/crash")
						return
					}
					if e != nil {
						c.Violate("error-reply-on-open-document", fmt.Sprintf("%s: error reply %v", what, e), text)
					}
					kinds[kind[:1]+":"+c44ReplyKind(kind, res, e)] = true
				}
			}
		}
		var ks []string
		for k := range kinds {
			ks = append(ks, k)
		}
		sort.Strings(ks)
		msg := ""
		if len(pub.Diagnostics) > 0 {
			msg = pub.Diagnostics[0].Message
		}
		l.Case(fmt.Sprintf("B1/%s/diags=%d:%s/%s", c44Features(text), len(pub.Diagnostics), msg, strings.Join(ks, ",")))
		if i%997 == 5 {
			c.Sample(map[string]any{"document": text, "diagnostics": pub.Diagnostics, "replies": ks})
		}
	})
	c.Add("b1_requests", requests)
	c.Add("diagnostic_endpoints_inside_crlf_not_judged", notJudged)
}

// ---- B1d: diagnostics of every small document over an alphabet with culprits
// the parser rejects ON multi-byte characters (not printable per unicode.IsPrint:
// U+00A0 2 bytes, U+3000 3 bytes, U+E0001 and U+10FFFF 4 bytes = 2 UTF-16 units),
// also after CRLF and after a valid astral character on the same line.

var c44DiagToks = []string{"$", "echo", " ", "[", ")", "x", "𝄞", "\u00a0", "\u3000", "\U000E0001", "\U0010FFFF", "\n", "\r", "\r\n"}

func c44DiagSweep(c *vk.Ctx, w *c44Workers, maxToks int) {
	n := len(c44DiagToks)
	total := 0
	offsets := []int{0}
	pow := 1
	for k := 0; k <= maxToks; k++ {
		total += pow
		offsets = append(offsets, total)
		pow *= n
	}
	var notJudged, docs int64
	var mu sync.Mutex
	c.Parallel(total, func(l *vk.Local, i int) {
		if w.giveUp() {
			return
		}
		k := 0
		for offsets[k+1] <= i {
			k++
		}
		r := i - offsets[k]
		idx := make([]int, k)
		for j := k - 1; j >= 0; j-- {
			idx[j] = r % n
			r /= n
		}
		if !c44Canonical(c44DiagToks, idx) {
			return
		}
		text := vk.Join(c44DiagToks, idx)
		cl := w.get(l)
		l.Begin(fmt.Sprintf("B1d document %q", text))
		defer l.End()
		uri := cl.uri("b1d")
		var nj int64
		defer func() { mu.Lock(); notJudged += nj; docs++; mu.Unlock() }()
		if !cl.sendText("textDocument/didOpen", uri, text) {
			w.crashed(l, cl, fmt.Sprintf("didOpen %q", text))
			l.Case("B1d/crash")
			return
		}
		pub, ok := cl.waitDiag()
		if !ok {
			w.crashed(l, cl, fmt.Sprintf("didOpen %q (waiting for publishDiagnostics)", text))
			l.Case("B1d/crash")
			return
		}
		if key, m := c44CheckDiags(uri, text, pub, &nj); key != "" {
			c.Violate(key, "didOpen: "+m, text)
		}
		// class: per diagnostic (message, UTF-8 width of the culprit's first character, whether the range is empty)
		_, err := parse.Parse(parse.Source{Name: uri, Code: text}, parse.Config{})
		var cls []string
		for _, e := range parse.UnpackErrors(err) {
			r := e.Range()
			_, wd := utf8.DecodeRuneInString(text[r.From:])
			cls = append(cls, fmt.Sprintf("%s/w%d/len%d", e.Message, wd, r.To-r.From))
		}
		l.Case(fmt.Sprintf("B1d/%s/%s", c44Features(text), strings.Join(cls, ";")))
		if i%9973 == 7000 {
			c.Sample(map[string]any{"document": text, "diagnostics": pub.Diagnostics})
		}
	})
	c.Set("b1d_documents", docs)
	c.Add("diagnostic_endpoints_inside_crlf_not_judged", notJudged)
}

// ---- B2: request sequences.

var c44SeqDocs = []string{"echo", "\r\n$!", "put 𝄞\r\n[", ""}
var c44SeqPos = []lsp.Position{{Line: 0, Character: 0}, {Line: 0, Character: 5}, {Line: 1, Character: 0}, {Line: 1, Character: 1}, {Line: 2, Character: 0}, {Line: 7, Character: 9}}

type c44Op struct {
	kind string // open, change, hover, completion, hover-unknown, completion-unknown
	doc  int
	pos  lsp.Position
}

func (o c44Op) String() string {
	switch o.kind {
	case "open", "change":
		return fmt.Sprintf("%s(%q)", o.kind, c44SeqDocs[o.doc])
	case "hover", "completion":
		return fmt.Sprintf("%s(%d,%d)", o.kind, o.pos.Line, o.pos.Character)
	}
	return o.kind
}

func c44Ops() []c44Op {
	var ops []c44Op
	for d := range c44SeqDocs {
		ops = append(ops, c44Op{kind: "open", doc: d})
	}
	for d := range c44SeqDocs {
		ops = append(ops, c44Op{kind: "change", doc: d})
	}
	for _, k := range []string{"hover", "completion"} {
		for _, p := range c44SeqPos {
			ops = append(ops, c44Op{kind: k, pos: p})
		}
	}
	return append(ops, c44Op{kind: "hover-unknown"}, c44Op{kind: "completion-unknown"})
}

// reference reply for (text, request, position): the reply in the history [didOpen text, request].
func (cl *c44Client) reference(text, kind string, pos lsp.Position) (string, bool) {
	key := fmt.Sprintf("%q/%s/%d/%d", text, kind, pos.Line, pos.Character)
	if r, ok := cl.refs[key]; ok {
		return r, true
	}
	uri := cl.uri("ref")
	if !cl.sendText("textDocument/didOpen", uri, text) {
		return "", false
	}
	if _, ok := cl.waitDiag(); !ok {
		return "", false
	}
	res, e, dead := cl.request(kind, uri, pos)
	if dead {
		return "", false
	}
	if e != nil {
		res = "error: " + e.Error()
	}
	cl.refs[key] = res
	return res, true
}

func c44SeqSweep(c *vk.Ctx, w *c44Workers, maxLen int) {
	ops := c44Ops()
	n := len(ops)
	// histories in length-lexicographic order: offsets[k] = number of histories shorter than k
	total := 0
	offsets := []int{0}
	pow := 1
	for k := 0; k <= maxLen; k++ {
		total += pow
		offsets = append(offsets, total)
		pow *= n
	}
	c.Set("b2_operations", n)
	c.Set("b2_histories", total)
	var notJudged int64
	var mu sync.Mutex
	c.Parallel(total, func(l *vk.Local, i int) {
		if w.giveUp() {
			return
		}
		k := 0
		for offsets[k+1] <= i {
			k++
		}
		r := i - offsets[k]
		hist := make([]c44Op, k)
		for j := k - 1; j >= 0; j-- {
			hist[j] = ops[r%n]
			r /= n
		}
		desc := fmt.Sprint(hist)
		cl := w.get(l)
		l.Begin("B2 history " + desc)
		defer l.End()
		uri := cl.uri("b2")
		var nj int64
		defer func() { mu.Lock(); notJudged += nj; mu.Unlock() }()
		has, cur := false, ""
		var class []string
		for step, op := range hist {
			what := fmt.Sprintf("history %s, step %d", desc, step+1)
			switch op.kind {
			case "open", "change":
				text := c44SeqDocs[op.doc]
				method := "textDocument/didOpen"
				if op.kind == "change" {
					method = "textDocument/didChange"
				}
				if !cl.sendText(method, uri, text) {
					w.crashed(l, cl, what)
					l.Case("B2/crash")
					return
				}
				pub, ok := cl.waitDiag()
				if !ok {
					w.crashed(l, cl, what+" (waiting for publishDiagnostics)")
					l.Case("B2/crash")
					return
				}
				if key, m := c44CheckDiags(uri, text, pub, &nj); key != "" {
					c.Violate(key, what+": "+m, desc)
				}
				has, cur = true, text
				class = append(class, fmt.Sprintf("%s%d:%d", op.kind[:1], op.doc, len(pub.Diagnostics)))
			case "hover", "completion":
				res, e, dead := cl.request(op.kind, uri, op.pos)
				if dead {
					w.crashed(l, cl, what)
					l.Case("B2/crash")
					return
				}
				if has {
					if e != nil {
						c.Violate("error-reply-on-open-document", fmt.Sprintf("%s: error reply %v although the document is %q", what, e, cur), desc)
					} else {
						ref, ok := cl.reference(cur, op.kind, op.pos)
						if !ok {
							w.crashed(l, cl, what+" (reference history)")
							l.Case("B2/crash")
							return
						}
						if ref != res {
							c.Violate("reply-depends-on-history", fmt.Sprintf("%s: the document is %q but the reply differs from the reply to the same request right after didOpen of that text: got %.200s, want %.200s", what, cur, res, ref), desc)
						}
					}
				}
				_, pk := c44KindOfPosition(cur, c44Lines(cur), op.pos)
				if !has {
					pk = "no-document"
				}
				class = append(class, op.kind[:1]+":"+pk+":"+c44ReplyKind(op.kind, res, e))
			default:
				res, e, dead := cl.request(strings.TrimSuffix(op.kind, "-unknown"), "file:///c44/never-opened", lsp.Position{})
				if dead {
					w.crashed(l, cl, what)
					l.Case("B2/crash")
					return
				}
				class = append(class, op.kind[:1]+"u:"+c44ReplyKind(op.kind, res, e))
			}
		}
		l.Case("B2/" + strings.Join(class, " "))
		if i%4999 == 4000 {
			c.Sample(map[string]any{"history": desc, "observed": class})
		}
	})
	c.Add("diagnostic_endpoints_inside_crlf_not_judged", notJudged)
}

func TestVerifC44(t *testing.T) {
	vk.Run(t, "C44", "exploration", func(c *vk.Ctx) {
		nA := vk.Pick(c, 7, 9)
		nB1 := vk.Pick(c, 3, 4)
		nB2 := vk.Pick(c, 3, 4)
		nD := vk.Pick(c, 3, 4)
		c.Rule(fmt.Sprintf("A: every document of <=%d symbols over %q (each string once), every byte offset and every position (line <= lines+1, char <= longest line+2); class = (character/line-ending kinds present, number of lines, longest line in UTF-16 units). "+
			"B1: every document of <=%d tokens over %q opened on the server subprogram, hover and completion at every position (line <= lines+1, char <= that line's length+2); class = (kinds present, number and first message of diagnostics, set of reply kinds). "+
			"B1d: every document of <=%d tokens over %q opened, diagnostics compared; class = (kinds present, per parse error: message, UTF-8 width of the culprit, range length). "+
			"B2: every sequence of <=%d operations over didOpen/didChange of %q, hover/completion at %v and hover/completion on a never-opened URI; class = per-step (operation, position kind, reply kind)",
			nA, c44Syms, nB1, c44Toks, nD, c44DiagToks, nB2, c44SeqDocs, c44SeqPos))
		c.Assume(
			"oracle: LSP positions count UTF-16 code units (unicode/utf16) and LF, CR, CRLF each end one line; a byte offset inside a UTF-8 sequence (the parser ends the range of an error one BYTE after its start) denotes the end of that character; offsets between CR and LF are not judged",
			"positions past the end of a line, past the last line or inside a surrogate pair: only 'in [0,len], at a rune boundary, monotone' is demanded (the mapping itself is not specified)",
			"the parser (parse.Parse) is trusted for the byte ranges and messages of the parse errors",
			"B: one long-lived server subprocess per worker (prog.Run with lsp.Program on stdin/stdout, PATH empty, empty working directory); every document/history uses a fresh URI; the client waits for each publishDiagnostics before the next message, so the interleaving of the server's publishing goroutines is not explored",
			"a request without reply is observed through the 300 s per-case watchdog; a server crash is observed as a dropped connection",
		)
		counts := map[string]int64{}
		var mu sync.Mutex
		tA := time.Now()
		c.EnumSeqs(len(c44Syms), nA, func(l *vk.Local, idx []int) {
			if !c44Canonical(c44Syms, idx) {
				return
			}
			s := vk.Join(c44Syms, idx)
			local := map[string]int64{}
			l.Case(c44CheckPositions(c, s, local))
			mu.Lock()
			for k, v := range local {
				counts[k] += v
			}
			mu.Unlock()
			if len(idx) == 4 && idx[0] == 2 && idx[1] == 5 && idx[2] == 1 && idx[3]%3 == 0 {
				c.Sample(s)
			}
		})
		for k, v := range counts {
			c.Set("a_"+k, v)
		}
		t0 := time.Now()
		fmt.Printf("INFO property=C44 part A took %.1fs\n", time.Since(tA).Seconds())
		w := &c44Workers{c: c, m: map[*vk.Local]*c44Client{}}
		defer w.stopAll()
		c44DocSweep(c, w, nB1)
		w.stopAll()
		fmt.Printf("INFO property=C44 part B1 took %.1fs\n", time.Since(t0).Seconds())
		t0 = time.Now()
		c44DiagSweep(c, w, nD)
		w.stopAll()
		fmt.Printf("INFO property=C44 part B1d took %.1fs\n", time.Since(t0).Seconds())
		t0 = time.Now()
		c44SeqSweep(c, w, nB2)
		fmt.Printf("INFO property=C44 part B2 took %.1fs\n", time.Since(t0).Seconds())
		c44sSchedPart(c)
	})
}
