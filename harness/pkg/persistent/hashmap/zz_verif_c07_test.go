//go:build verif

package hashmap

// C07: persistent hash maps are immutable dictionaries, including under hash
// collisions. Explicit-state breadth-first search to a fixpoint over *real*
// hashMap values built with a table-driven hash function. The canonical state
// key is a structural dump of the trie (count, nil slot, every node with its
// bitmap / children / entries in order). Every reached version is retained and
// re-dumped at the end.

import (
	"bytes"
	"encoding/json"
	"fmt"
	"runtime/debug"
	"sort"
	"strconv"
	"strings"
	"sync"
	"testing"

	"src.elv.sh/pkg/zzverif/vk"
)

type c07Key int

// c07NK is the size of the key universe (slot c07NilID is the nil key).
const (
	c07NK    = 72
	c07NilID = c07NK - 1
)

// c07Hashes is the controllable hash function: a table indexed by key id.
var c07Hashes [c07NK]uint32
var c07Names [c07NK]string

func c07Hash(k any) uint32 { return c07Hashes[k.(c07Key)] }

func c07Equal(a, b any) bool {
	x, ok1 := a.(c07Key)
	y, ok2 := b.(c07Key)
	return ok1 && ok2 && x == y
}

func c07ToKey(id int) any {
	if id == c07NilID {
		return nil
	}
	return c07Key(id)
}

// c07KeyID maps a key handed out by the implementation back to its id (-1 = foreign).
func c07KeyID(k any) int {
	if k == nil {
		return c07NilID
	}
	if x, ok := k.(c07Key); ok && x >= 0 && int(x) < c07NilID {
		return int(x)
	}
	return -1
}

// c07H builds a hash from its seven 5-bit chunks, lowest (trie level 0) first;
// the last chunk has only 2 bits.
func c07H(ch ...uint32) uint32 {
	var h uint32
	for i, c := range ch {
		h |= c << (5 * uint(i))
	}
	return h
}

// Key ids of the named keys.
const (
	c07A0 = iota // a0,a1,a2: identical 32-bit hash B
	c07A1
	c07A2
	c07P1 // shares only the low 5 bits with B
	c07P2 // shares the low 10 bits
	c07P5 // shares the low 25 bits
	c07P6 // shares the low 30 bits (differs in the top 2 bits only)
	c07Q6 // shares the low 30 bits, third value of the top 2 bits
	c07C6 // identical hash to p6 (second collision group at the deepest level)
	c07D0 // differs from B in the lowest chunk only
	c07P3 // shares the low 15 bits
	c07P4 // shares the low 20 bits
	c07G0 // ghost (never inserted): hash B
	c07G1 // ghost: shares the low 30 bits, fourth value of the top 2 bits
	c07G2 // ghost: unrelated hash
	c07A3 // a3, a4: two more keys with hash B, so that a collision node grows beyond the
	c07A4 // capacity it was allocated with (sibling versions derived from one 3-entry node)
	c07NNamed
)

// filler family r (r in c07FillLevels) occupies ids c07FillBase(r)+0..16
var c07FillLevels = []int{0, 1, 5}

func c07Fill(ri, j int) int { return c07NNamed + ri*17 + j }

var c07B = [7]uint32{1, 2, 3, 4, 5, 6, 1}

func init() {
	b := c07H(c07B[:]...)
	set := func(id int, name string, h uint32) { c07Hashes[id] = h; c07Names[id] = name }
	set(c07A0, "a0", b)
	set(c07A1, "a1", b)
	set(c07A2, "a2", b)
	set(c07P1, "p1", c07H(1, 9, 0, 0, 0, 0, 0))
	set(c07P2, "p2", c07H(1, 2, 9, 7, 7, 7, 2))
	set(c07P5, "p5", c07H(1, 2, 3, 4, 5, 9, 1))
	set(c07P6, "p6", c07H(1, 2, 3, 4, 5, 6, 2))
	set(c07Q6, "q6", c07H(1, 2, 3, 4, 5, 6, 3))
	set(c07C6, "c6", c07H(1, 2, 3, 4, 5, 6, 2))
	set(c07D0, "d0", c07H(2, 2, 3, 4, 5, 6, 1))
	set(c07P3, "p3", c07H(1, 2, 3, 9, 1, 1, 0))
	set(c07P4, "p4", c07H(1, 2, 3, 4, 9, 30, 3))
	set(c07G0, "g0", b)
	set(c07A3, "a3", b)
	set(c07A4, "a4", b)
	set(c07G1, "g1", c07H(1, 2, 3, 4, 5, 6, 0))
	set(c07G2, "g2", c07H(31, 30, 29, 28, 27, 26, 3))
	for ri, r := range c07FillLevels {
		for j := 0; j < 17; j++ {
			var ch [7]uint32
			for l := 0; l < 7; l++ {
				switch {
				case l < r:
					ch[l] = c07B[l]
				case l == r:
					ch[l] = uint32(10 + j) // distinct from every chunk used by the named keys
				default:
					ch[l] = uint32(j % 4)
				}
			}
			set(c07Fill(ri, j), fmt.Sprintf("f%d.%d", r, j), c07H(ch[:]...))
		}
	}
	c07Names[c07NilID] = "nil"
	if c07Fill(len(c07FillLevels)-1, 16) >= c07NilID {
		panic("c07: universe too small")
	}
}

// c07Op is one operation: Assoc(key,val) for val in {1,2}, Dissoc(key) for val 0.
type c07Op struct {
	key int
	val uint8
}

func (o c07Op) String() string {
	if o.val == 0 {
		return "Dissoc(" + c07Names[o.key] + ")"
	}
	return fmt.Sprintf("Assoc(%s,%d)", c07Names[o.key], o.val)
}

func c07OpsString(ops []c07Op) string {
	var sb strings.Builder
	for i, o := range ops {
		if i > 0 {
			sb.WriteByte(' ')
		}
		sb.WriteString(o.String())
	}
	return sb.String()
}

func c07Apply(m Map, o c07Op) Map {
	if o.val == 0 {
		return m.Dissoc(c07ToKey(o.key))
	}
	return m.Assoc(c07ToKey(o.key), int(o.val))
}

// ---- structural dump (canonical state key) ----

type c07Dumper struct {
	buf    []byte
	shapes map[uint64]string
	shape  [8]uint8 // per trie level: 1 bitmap, 2 array, 4 collision, 8 single-entry bitmap, 16 collision with 1 entry, 32 collision >=3
}

func (d *c07Dumper) val(v any) {
	if i, ok := v.(int); ok && i >= 0 && i < 250 {
		d.buf = append(d.buf, byte(i))
		return
	}
	d.buf = append(d.buf, 255)
	d.buf = append(d.buf, fmt.Sprintf("%#v", v)...)
	d.buf = append(d.buf, 255)
}

func (d *c07Dumper) key(k any) {
	if id := c07KeyID(k); id >= 0 && id != c07NilID {
		d.buf = append(d.buf, byte(id))
		return
	}
	d.buf = append(d.buf, 255)
	d.buf = append(d.buf, fmt.Sprintf("%#v", k)...)
	d.buf = append(d.buf, 255)
}

func (d *c07Dumper) node(n node, level int) {
	lv := level
	if lv > 7 {
		lv = 7
	}
	switch n := n.(type) {
	case nil:
		d.buf = append(d.buf, 'Z')
	case *bitmapNode:
		if n == nil {
			d.buf = append(d.buf, 'z')
			return
		}
		if n == emptyBitmapNode {
			// pointer identity matters: the implementation compares against it
			d.buf = append(d.buf, 'E')
			if n.bitmap != 0 || len(n.entries) != 0 {
				d.buf = append(d.buf, '!')
			} else {
				return
			}
		}
		d.shape[lv] |= 1
		if len(n.entries) == 1 {
			d.shape[lv] |= 8
		}
		d.buf = append(d.buf, 'B', byte(n.bitmap), byte(n.bitmap>>8), byte(n.bitmap>>16), byte(n.bitmap>>24), byte(len(n.entries)))
		for _, e := range n.entries {
			if e.key == nil {
				d.buf = append(d.buf, 'N')
				if c, ok := e.value.(node); ok {
					d.node(c, level+1)
				} else {
					d.buf = append(d.buf, '?')
					d.val(e.value)
				}
			} else {
				d.buf = append(d.buf, 'L')
				d.key(e.key)
				d.val(e.value)
			}
		}
	case *arrayNode:
		d.shape[lv] |= 2
		d.buf = append(d.buf, 'A', byte(n.nChildren))
		for _, c := range n.children {
			if c == nil {
				d.buf = append(d.buf, 0)
			} else {
				d.buf = append(d.buf, 1)
				d.node(c, level+1)
			}
		}
	case *collisionNode:
		d.shape[lv] |= 4
		if len(n.entries) == 1 {
			d.shape[lv] |= 16
		} else if len(n.entries) >= 3 {
			d.shape[lv] |= 32
		}
		d.buf = append(d.buf, 'C', byte(n.hash), byte(n.hash>>8), byte(n.hash>>16), byte(n.hash>>24), byte(len(n.entries)))
		for _, e := range n.entries {
			d.key(e.key)
			d.val(e.value)
		}
	default:
		d.buf = append(d.buf, '?')
		d.buf = append(d.buf, fmt.Sprintf("%T", n)...)
	}
}

var c07DumperPool = sync.Pool{New: func() any { return &c07Dumper{buf: make([]byte, 0, 2048)} }}

// dump returns the canonical key of m and a packed shape signature.
func (d *c07Dumper) dump(m Map) (string, uint64) {
	d.buf = d.buf[:0]
	d.shape = [8]uint8{}
	hm, ok := m.(*hashMap)
	if !ok || hm == nil {
		return fmt.Sprintf("?%T", m), 0
	}
	d.buf = append(d.buf, byte(hm.count), byte(hm.count>>8), byte(hm.count>>16))
	var sh uint64
	if hm.nilV == nil {
		d.buf = append(d.buf, 0)
	} else {
		d.buf = append(d.buf, 1)
		d.val(*hm.nilV)
		sh = 1
	}
	d.node(hm.root, 0)
	for i := 0; i < 8; i++ {
		sh = sh<<6 | uint64(d.shape[i])
	}
	return string(d.buf), sh
}

func (d *c07Dumper) shapeString(sh uint64) string {
	if s, ok := d.shapes[sh]; ok {
		return s
	}
	if d.shapes == nil {
		d.shapes = map[uint64]string{}
	}
	s := c07ShapeString(sh)
	d.shapes[sh] = s
	return s
}

func c07ShapeString(sh uint64) string {
	var sb strings.Builder
	for i := 0; i < 8; i++ {
		b := uint8(sh >> (6 * uint(7-i)) & 63)
		if b == 0 {
			continue
		}
		fmt.Fprintf(&sb, "%d", i)
		for bit, ch := range "BACsc3" {
			if b&(1<<uint(bit)) != 0 {
				sb.WriteRune(ch)
			}
		}
	}
	if sh>>48&1 != 0 {
		sb.WriteString("+nil")
	}
	return sb.String()
}

// c07Pretty renders a dump-independent readable picture of a map (for messages).
func c07Pretty(m Map) string {
	hm, ok := m.(*hashMap)
	if !ok || hm == nil {
		return fmt.Sprintf("%T", m)
	}
	var sb strings.Builder
	fmt.Fprintf(&sb, "count=%d", hm.count)
	if hm.nilV != nil {
		fmt.Fprintf(&sb, " nil=%v", *hm.nilV)
	}
	sb.WriteString(" root=")
	var walk func(n node)
	name := func(k any) string {
		if id := c07KeyID(k); id >= 0 {
			return c07Names[id]
		}
		return fmt.Sprintf("%#v", k)
	}
	walk = func(n node) {
		switch n := n.(type) {
		case *bitmapNode:
			if n == emptyBitmapNode {
				sb.WriteString("E")
				return
			}
			fmt.Fprintf(&sb, "B%x[", n.bitmap)
			for i, e := range n.entries {
				if i > 0 {
					sb.WriteByte(' ')
				}
				if e.key == nil {
					if c, ok := e.value.(node); ok {
						walk(c)
					} else {
						fmt.Fprintf(&sb, "?%v", e.value)
					}
				} else {
					fmt.Fprintf(&sb, "%s=%v", name(e.key), e.value)
				}
			}
			sb.WriteByte(']')
		case *arrayNode:
			fmt.Fprintf(&sb, "A%d[", n.nChildren)
			for i, c := range n.children {
				if c != nil {
					fmt.Fprintf(&sb, "%d:", i)
					walk(c)
					sb.WriteByte(' ')
				}
			}
			sb.WriteByte(']')
		case *collisionNode:
			fmt.Fprintf(&sb, "C%x[", n.hash)
			for i, e := range n.entries {
				if i > 0 {
					sb.WriteByte(' ')
				}
				fmt.Fprintf(&sb, "%s=%v", name(e.key), e.value)
			}
			sb.WriteByte(']')
		default:
			fmt.Fprintf(&sb, "%T", n)
		}
	}
	walk(hm.root)
	s := sb.String()
	if len(s) > 300 {
		s = s[:300] + "..."
	}
	return s
}

// ---- reference model ----

// c07Model is the reference dictionary in direct-address form: slot id holds the
// value of key id, 0 = absent. (The replay phase keeps an independent Go map.)
type c07Model [c07NK]uint8

func (m *c07Model) apply(o c07Op) { m[o.key] = o.val }

func (m *c07Model) size() int {
	n := 0
	for _, v := range m {
		if v != 0 {
			n++
		}
	}
	return n
}

func (m *c07Model) String() string {
	var sb strings.Builder
	sb.WriteByte('{')
	first := true
	for id, v := range m {
		if v != 0 {
			if !first {
				sb.WriteByte(' ')
			}
			first = false
			fmt.Fprintf(&sb, "%s=%d", c07Names[id], v)
		}
	}
	sb.WriteByte('}')
	return sb.String()
}

// ---- search ----

type c07State struct {
	key    string
	m      Map
	model  c07Model
	shape  uint64
	parent int32 // -1: base state
	op     int16 // index into the scenario's ops; for a base state the base index
}

type c07Base struct {
	name  string
	build []c07Op
}

type c07Scenario struct {
	name  string
	bases []c07Base
	ops   []c07Op
	// guard, if not nil, tells whether an operation is enabled in a state with the given contents
	guard func(m *c07Model, o c07Op) bool
	note  string
}

type c07Succ struct {
	key    string
	m      Map
	model  c07Model
	shape  uint64
	parent int32
	op     int16
	ok     bool
}

const c07Shards = 64

func c07ShardOf(s string) uint8 {
	h := uint32(2166136261)
	for i := 0; i < len(s); i++ {
		h = (h ^ uint32(s[i])) * 16777619
	}
	return uint8((h ^ h>>16) % c07Shards)
}

type c07Search struct {
	c       *vk.Ctx
	sc      *c07Scenario
	states  []c07State
	visited [c07Shards]map[string]int32
	trans   int64
	aborted bool
}

// trace returns the operations leading from a fresh empty map to state id.
func (s *c07Search) trace(id int32) (base int, path []c07Op) {
	for s.states[id].parent >= 0 {
		path = append(path, s.sc.ops[s.states[id].op])
		id = s.states[id].parent
	}
	for i, j := 0, len(path)-1; i < j; i, j = i+1, j-1 {
		path[i], path[j] = path[j], path[i]
	}
	return int(s.states[id].op), path
}

func (s *c07Search) traceString(id int32, extra ...c07Op) string {
	b, path := s.trace(id)
	path = append(path, extra...)
	return fmt.Sprintf("scenario %s, base %s = New(eq,hash) after [%s]; then [%s]", s.sc.name, s.sc.bases[b].name, c07OpsString(s.sc.bases[b].build), c07OpsString(path))
}

// c07Observe checks every observation of the Map API on one version against
// the reference model. It returns a violation key and message, or "".
func c07Observe(m Map, model *c07Model, notJudgedJSON *int64) (string, string) {
	want := model.size()
	if got := m.Len(); got != want {
		return "len-wrong", fmt.Sprintf("Len() = %d, reference has %d entries %v", got, want, model)
	}
	// the reference as a Go map, used for lookups and iteration
	ref := make(map[any]any, want)
	for id, v := range model {
		if v != 0 {
			ref[c07ToKey(id)] = int(v)
		}
	}
	for id := 0; id < c07NK; id++ {
		if c07Names[id] == "" {
			continue
		}
		k := c07ToKey(id)
		got, ok := m.Index(k)
		wantV, wantOK := ref[k]
		if ok != wantOK {
			if wantOK {
				return "index-missing-key", fmt.Sprintf("Index(%s) reports absent, reference has %v", c07Names[id], wantV)
			}
			return "index-finds-absent-key", fmt.Sprintf("Index(%s) = %v, true; the reference does not contain the key", c07Names[id], got)
		}
		if ok && got != wantV {
			return "index-wrong-value", fmt.Sprintf("Index(%s) = %v, reference has %v", c07Names[id], got, wantV)
		}
		if !ok && got != nil {
			return "index-absent-value-not-nil", fmt.Sprintf("Index(%s) = %v, false; the documented value for an absent key is nil", c07Names[id], got)
		}
		if HasKey(m, k) != wantOK {
			return "haskey-wrong", fmt.Sprintf("HasKey(%s) = %v", c07Names[id], !wantOK)
		}
	}
	// iteration: each entry exactly once
	var seen [c07NK]bool
	n := 0
	it := m.Iterator()
	for ; it.HasElem(); it.Next() {
		if n > want+c07NK {
			return "iterator-does-not-end", fmt.Sprintf("iterator still has elements after %d steps over a map of %d entries", n, want)
		}
		n++
		k, v := it.Elem()
		id := c07KeyID(k)
		if id < 0 {
			return "iterator-foreign-key", fmt.Sprintf("iterator yields key %#v that was never inserted", k)
		}
		if seen[id] {
			return "iterator-duplicate", fmt.Sprintf("iterator yields key %s twice; reference %v", c07Names[id], model)
		}
		seen[id] = true
		wantV, ok := ref[k]
		if !ok {
			return "iterator-absent-key", fmt.Sprintf("iterator yields %s=%v; the reference %v does not contain the key", c07Names[id], v, model)
		}
		if v != wantV {
			return "iterator-wrong-value", fmt.Sprintf("iterator yields %s=%v, reference has %v", c07Names[id], v, wantV)
		}
	}
	if n != want {
		return "iterator-misses-entry", fmt.Sprintf("iterator yields %d entries, reference has %d: %v", n, want, model)
	}
	if it.HasElem() {
		return "iterator-revives", "HasElem() true again after it returned false"
	}
	// JSON: an object with one member per entry, keys encoded like json.Marshal encodes builtin map keys
	data, err := m.MarshalJSON()
	if model[c07NilID] != 0 {
		// encoding/json has no encoding for a nil map key; the outcome is not specified
		*notJudgedJSON++
		return "", ""
	}
	if err != nil {
		return "json-error", fmt.Sprintf("MarshalJSON failed: %v", err)
	}
	dec := json.NewDecoder(bytes.NewReader(data))
	tok, err := dec.Token()
	if err != nil || tok != json.Delim('{') {
		return "json-malformed", fmt.Sprintf("MarshalJSON = %s", data)
	}
	members := 0
	var seenJ [c07NK]bool
	for dec.More() {
		kt, err := dec.Token()
		ks, isStr := kt.(string)
		if err != nil || !isStr {
			return "json-malformed", fmt.Sprintf("MarshalJSON = %s", data)
		}
		var v int
		if err := dec.Decode(&v); err != nil {
			return "json-malformed", fmt.Sprintf("MarshalJSON = %s", data)
		}
		id, aerr := strconv.Atoi(ks)
		if aerr != nil || id < 0 || id >= c07NilID || strconv.Itoa(id) != ks || seenJ[id] || model[id] == 0 || int(model[id]) != v {
			return "json-wrong-member", fmt.Sprintf("MarshalJSON = %s has member %q:%d; reference %v (keys are encoded as their decimal ids)", data, ks, v, model)
		}
		seenJ[id] = true
		members++
	}
	if tok, err := dec.Token(); err != nil || tok != json.Delim('}') || members != want {
		return "json-wrong-members", fmt.Sprintf("MarshalJSON = %s has %d members, reference has %d: %v", data, members, want, model)
	}
	return "", ""
}

func c07Kind(parent *c07Model, o c07Op) string {
	old := parent[o.key]
	p := ""
	if o.key == c07NilID {
		p = "nil-"
	}
	switch {
	case o.val == 0 && old == 0:
		return p + "dissoc-miss"
	case o.val == 0:
		return p + "dissoc-hit"
	case old == 0:
		return p + "assoc-new"
	case old == o.val:
		return p + "assoc-same"
	}
	return p + "assoc-repl"
}

// run explores the scenario to its fixpoint.
func (s *c07Search) run(maxStates int) {
	c := s.c
	for i := range s.visited {
		s.visited[i] = map[string]int32{}
	}
	var d c07Dumper
	for bi, b := range s.sc.bases {
		var m Map = New(c07Equal, c07Hash)
		var model c07Model
		if p := vk.Try(func() {
			for _, o := range b.build {
				m = c07Apply(m, o)
				model.apply(o)
			}
		}); p != "" {
			c.Violate("panic:"+vk.PanicSite(p), fmt.Sprintf("building base %s [%s] panicked: %s", b.name, c07OpsString(b.build), p), c07OpsString(b.build))
			s.aborted = true
			return
		}
		key, sh := d.dump(m)
		shd := c07ShardOf(key)
		if _, dup := s.visited[shd][key]; dup {
			continue
		}
		s.visited[shd][key] = int32(len(s.states))
		s.states = append(s.states, c07State{key: key, m: m, model: model, shape: sh, parent: -1, op: int16(bi)})
	}
	nops := len(s.sc.ops)
	const chunk = 8192
	succ := make([]c07Succ, chunk*nops)
	shards := make([]uint8, chunk*nops)
	var notJudged int64
	var njMu sync.Mutex
	depth := 0
	stopNext := false
	for lo, levelEnd := 0, len(s.states); lo < len(s.states); {
		if lo == levelEnd {
			if stopNext {
				// the shortest counterexamples have been reported; deeper levels would only repeat them
				c.Capped(fmt.Sprintf("scenario %s stopped after depth %d because a violation was found", s.sc.name, depth))
				s.aborted = true
				break
			}
			stopNext = c.Violations() > 0 // one more level, so that the states just created are observed too
			depth++
			levelEnd = len(s.states)
		}
		hi := lo + chunk
		if hi > levelEnd {
			hi = levelEnd
		}
		if c.TimeUp() || len(s.states) > maxStates {
			c.Capped(fmt.Sprintf("scenario %s stopped at %d states (depth %d) before the fixpoint", s.sc.name, len(s.states), depth))
			s.aborted = true
			break
		}
		// phase 1: check and expand the states lo..hi in parallel
		n := hi - lo
		c.Parallel(n, func(l *vk.Local, i int) {
			d := c07DumperPool.Get().(*c07Dumper)
			defer c07DumperPool.Put(d)
			var nj int64
			var ntrans int64
			id := int32(lo + i)
			st := &s.states[id]
			var vkey, vmsg string
			if p := vk.Try(func() { vkey, vmsg = c07Observe(st.m, &st.model, &nj) }); p != "" {
				vkey, vmsg = "panic:"+vk.PanicSite(p), "observing the map panicked: "+p
			}
			if vkey != "" {
				c.Violate(vkey, fmt.Sprintf("%s; map: %s; reached by: %s", vmsg, c07Pretty(st.m), s.traceString(id)), s.traceString(id))
			}
			var cls []byte
			for j, o := range s.sc.ops {
				su := &succ[i*nops+j]
				*su = c07Succ{parent: id, op: int16(j)}
				if s.sc.guard != nil && !s.sc.guard(&st.model, o) {
					continue
				}
				var m2 Map
				if p := vk.Try(func() { m2 = c07Apply(st.m, o) }); p != "" {
					c.Violate("panic:"+vk.PanicSite(p), fmt.Sprintf("%v panicked: %s; map before: %s; reached by: %s", o, p, c07Pretty(st.m), s.traceString(id)), s.traceString(id, o))
					l.Case("panic")
					continue
				}
				su.m = m2
				su.key, su.shape = d.dump(m2)
				su.model = st.model
				su.model.apply(o)
				su.ok = true
				ntrans++
				shards[i*nops+j] = c07ShardOf(su.key)
				if m2 == nil {
					c.Violate("nil-result", fmt.Sprintf("%v returned a nil Map; reached by: %s", o, s.traceString(id)), s.traceString(id, o))
					su.ok = false
				} else if got, want := m2.Len(), su.model.size(); got != want {
					c.Violate("len-wrong", fmt.Sprintf("after %v Len() = %d, reference has %d entries %v; map before: %s; map after: %s; reached by: %s", o, got, want, &su.model, c07Pretty(st.m), c07Pretty(m2), s.traceString(id)), s.traceString(id, o))
				}
				cls = append(cls[:0], c07Kind(&st.model, o)...)
				cls = append(cls, ' ')
				cls = append(cls, d.shapeString(st.shape)...)
				if su.shape != st.shape {
					cls = append(cls, '>')
					cls = append(cls, d.shapeString(su.shape)...)
				}
				l.Case(string(cls))
			}
			// the version just used as the source of nops operations must be unchanged
			if again, _ := d.dump(st.m); again != st.key {
				culprit := s.locateMutation(id)
				c.Violate("old-version-changed", fmt.Sprintf("a map changed after operations were applied to it%s; map now: %s; reached by: %s", culprit, c07Pretty(st.m), s.traceString(id)), s.traceString(id))
			}
			njMu.Lock()
			notJudged += nj
			s.trans += ntrans
			njMu.Unlock()
		})
		// phase 2: deduplicate per shard, in successor order (deterministic)
		total := n * nops
		var newIdx [c07Shards][]int32
		c.Parallel(c07Shards, func(_ *vk.Local, sh int) {
			vis := s.visited[sh]
			for x := 0; x < total; x++ {
				if shards[x] != uint8(sh) || !succ[x].ok {
					continue
				}
				su := &succ[x]
				if old, dup := vis[su.key]; dup {
					var om *c07Model
					if old >= 0 {
						om = &s.states[old].model
					} else {
						om = &succ[-old-1].model
					}
					if *om != su.model {
						c.Violate("same-structure-different-content", fmt.Sprintf("two histories with different reference contents %v and %v lead to structurally identical maps %s; second history: %s", om, &su.model, c07Pretty(su.m), s.traceString(su.parent, s.sc.ops[su.op])), s.traceString(su.parent, s.sc.ops[su.op]))
					}
					continue
				}
				vis[su.key] = int32(-x - 1)
				newIdx[sh] = append(newIdx[sh], int32(x))
			}
		})
		// phase 3: number the new states in successor order
		var all []int32
		for sh := range newIdx {
			all = append(all, newIdx[sh]...)
		}
		sort.Slice(all, func(i, j int) bool { return all[i] < all[j] })
		for _, x := range all {
			su := &succ[x]
			s.visited[shards[x]][su.key] = int32(len(s.states))
			s.states = append(s.states, c07State{key: su.key, m: su.m, model: su.model, shape: su.shape, parent: su.parent, op: su.op})
		}
		lo = hi
	}
	c.Add("json_not_judged_nil_key", notJudged)
	c.Set("depth_"+s.sc.name, depth)
}

// locateMutation replays the trace to state id on fresh objects and applies the
// operations one by one to name the operation that changes its receiver.
func (s *c07Search) locateMutation(id int32) string {
	b, path := s.trace(id)
	out := ""
	vk.Try(func() {
		var m Map = New(c07Equal, c07Hash)
		for _, o := range s.sc.bases[b].build {
			m = c07Apply(m, o)
		}
		for _, o := range path {
			m = c07Apply(m, o)
		}
		var d c07Dumper
		before, _ := d.dump(m)
		pretty := c07Pretty(m)
		for _, o := range s.sc.ops {
			c07Apply(m, o)
			if after, _ := d.dump(m); after != before {
				out = fmt.Sprintf(": %v changed its receiver from %s", o, pretty)
				return
			}
		}
	})
	return out
}

// replayAll re-executes the shortest trace of every state on fresh objects, next
// to an independent Go map, and compares structure and contents.
func (s *c07Search) replayAll() int64 {
	c := s.c
	var count int64
	var mu sync.Mutex
	c.Parallel(len(s.states), func(_ *vk.Local, i int) {
		id := int32(i)
		b, path := s.trace(id)
		all := append(append([]c07Op{}, s.sc.bases[b].build...), path...)
		ref := map[any]any{}
		var m Map = New(c07Equal, c07Hash)
		if p := vk.Try(func() {
			for _, o := range all {
				m = c07Apply(m, o)
				if o.val == 0 {
					delete(ref, c07ToKey(o.key))
				} else {
					ref[c07ToKey(o.key)] = int(o.val)
				}
			}
		}); p != "" {
			c.Violate("panic:"+vk.PanicSite(p), fmt.Sprintf("replaying [%s] on a fresh map panicked: %s", c07OpsString(all), p), c07OpsString(all))
			return
		}
		d := c07DumperPool.Get().(*c07Dumper)
		defer c07DumperPool.Put(d)
		key, _ := d.dump(m)
		st := &s.states[id]
		if key != st.key {
			c.Violate("replay-differs", fmt.Sprintf("replaying [%s] on a fresh map gives %s, the search had %s", c07OpsString(all), c07Pretty(m), c07Pretty(st.m)), c07OpsString(all))
		}
		okRef := len(ref) == st.model.size()
		if p := vk.Try(func() {
			okRef = okRef && m.Len() == len(ref)
			for k, v := range ref {
				if int(st.model[c07KeyID(k)]) != v.(int) {
					okRef = false
				}
				if got, ok := m.Index(k); !ok || got != v {
					okRef = false
				}
			}
		}); p != "" {
			c.Violate("panic:"+vk.PanicSite(p), fmt.Sprintf("after replaying [%s] on a fresh map a lookup panicked: %s; map %s", c07OpsString(all), p, c07Pretty(m)), c07OpsString(all))
			return
		}
		if !okRef {
			c.Violate("replay-content-differs", fmt.Sprintf("replaying [%s]: Go map reference %v, search model %v, map %s", c07OpsString(all), ref, &st.model, c07Pretty(m)), c07OpsString(all))
		}
		mu.Lock()
		count++
		mu.Unlock()
	})
	return count
}

// recheckAll re-dumps every retained version: none may differ from its first dump.
func (s *c07Search) recheckAll() int64 {
	c := s.c
	c.Parallel(len(s.states), func(_ *vk.Local, i int) {
		d := c07DumperPool.Get().(*c07Dumper)
		defer c07DumperPool.Put(d)
		st := &s.states[i]
		if again, _ := d.dump(st.m); again != st.key {
			c.Violate("old-version-changed", fmt.Sprintf("a retained version differs from its dump taken when it was created; map now: %s; created by: %s", c07Pretty(st.m), s.traceString(int32(i))), s.traceString(int32(i)))
		}
	})
	return int64(len(s.states))
}

func c07KV(keys []int, vals ...uint8) []c07Op {
	var ops []c07Op
	for _, k := range keys {
		for _, v := range vals {
			ops = append(ops, c07Op{k, v})
		}
	}
	return ops
}

func c07Scenarios(c *vk.Ctx) []c07Scenario {
	thorough := c.Thorough()
	var scs []c07Scenario
	empty := []c07Base{{name: "empty"}}
	if thorough {
		// E: from the empty map, every named key with both values
		keys := []int{c07A0, c07A1, c07A2, c07P1, c07P2, c07P5, c07P6, c07Q6, c07C6, c07D0, c07NilID}
		scs = append(scs, c07Scenario{name: "E", bases: empty, ops: c07KV(keys, 1, 2, 0)})
	} else {
		// E1: shared hash prefixes of every length; E2: collision groups at the deepest level
		scs = append(scs, c07Scenario{name: "E1", bases: empty, ops: c07KV([]int{c07A0, c07A1, c07P1, c07P2, c07P5, c07P6, c07D0, c07NilID}, 1, 2, 0)})
		// E4: one collision group of five keys: collision nodes of 2..5 entries, every order of
		// insertion and removal, and - because BFS derives several successors from the same
		// version - sibling versions grown from one shared collision node.
		scs = append(scs, c07Scenario{name: "E4", bases: empty, ops: c07KV([]int{c07A0, c07A1, c07A2, c07A3, c07A4, c07D0}, 1, 2, 0)})
		scs = append(scs, c07Scenario{name: "E2", bases: empty, ops: c07KV([]int{c07A0, c07A1, c07A2, c07P6, c07C6, c07Q6, c07NilID}, 1, 2, 0)})
	}
	// E3: the remaining prefix lengths
	scs = append(scs, c07Scenario{name: "E3", bases: empty, ops: c07KV([]int{c07A0, c07A1, c07P2, c07P3, c07P4, c07P5, c07NilID}, 1, 2, 0)})
	load := func(ri, n int) []c07Op {
		var ops []c07Op
		for j := 0; j < n; j++ {
			ops = append(ops, c07Op{c07Fill(ri, j), 1})
		}
		return ops
	}
	shrunk := func(ri, left int) []c07Op {
		ops := load(ri, 17)
		for j := 1; j <= 17-left; j++ {
			ops = append(ops, c07Op{c07Fill(ri, j), 0})
		}
		return ops
	}
	named := map[int][]int{
		0: {c07A0, c07A1, c07P1, c07D0},
		1: {c07A0, c07A1, c07P1, c07P2, c07D0},
		5: {c07A0, c07A1, c07P5, c07P6, c07P2},
	}
	fillOps := func(ri int, ks []int) []c07Op {
		ops := c07KV(ks, 1, 0)
		ops = append(ops, c07Op{c07A0, 2}, c07Op{c07Fill(ri, 0), 2})
		if thorough {
			ops = append(ops, c07Op{c07A1, 2})
		}
		return append(ops, c07KV([]int{c07Fill(ri, 0), c07Fill(ri, 16), c07NilID}, 1, 0)...)
	}
	// G1: the node below the root on the path of B grows from nothing to an array node and
	// is drained to nothing again, any number of times: the 17 level-1 fillers are added in
	// index order and removed in reverse order (stack discipline), interleaved freely with
	// operations on a0, a1 (collision pair below that node), p1 (another child of it), d0 (a
	// sibling in the root) and the nil key.
	lo, hi := c07Fill(1, 0), c07Fill(1, 16)
	var all []int
	for id := lo; id <= hi; id++ {
		all = append(all, id)
	}
	g1 := c07KV(all, 1, 0)
	g1 = append(g1, c07Op{lo, 2})
	g1 = append(g1, c07KV([]int{c07A0, c07A1, c07P1, c07D0, c07NilID}, 1, 0)...)
	scs = append(scs, c07Scenario{name: "G1", bases: empty, ops: g1,
		note: "Assoc(f1.j) enabled only while f1.(j-1) is present, Dissoc(f1.j) only while f1.(j+1) is absent",
		guard: func(m *c07Model, o c07Op) bool {
			if o.key < lo || o.key > hi {
				return true
			}
			if o.val == 0 {
				return o.key == hi || m[o.key+1] == 0
			}
			return o.key == lo || m[o.key-1] != 0
		}})
	// F<r>: the node at trie level r on the path of B is loaded with filler keys
	for ri, r := range c07FillLevels {
		bases := []c07Base{{"L15", load(ri, 15)}, {"S9", shrunk(ri, 9)}}
		ks := named[r]
		if thorough {
			bases = append(bases, c07Base{"L16", load(ri, 16)}, c07Base{"L17", load(ri, 17)}, c07Base{"S8", shrunk(ri, 8)})
			ks = append(append([]int{}, ks...), c07C6)
		}
		scs = append(scs, c07Scenario{name: fmt.Sprintf("F%d", r), bases: bases, ops: fillOps(ri, ks)})
	}
	if thorough {
		// F01: the root is an array node (17 level-0 fillers) and its child on the path of B is loaded too
		bases := []c07Base{
			{"L17/L15", append(load(0, 17), load(1, 15)...)},
			{"L17/S9", append(load(0, 17), shrunk(1, 9)...)},
			{"S9/L15", append(shrunk(0, 9), load(1, 15)...)},
			{"S9/S9", append(shrunk(0, 9), shrunk(1, 9)...)},
		}
		ops := fillOps(1, named[1])
		ops = append(ops, c07KV([]int{c07Fill(0, 0)}, 1, 0)...)
		scs = append(scs, c07Scenario{name: "F01", bases: bases, ops: ops})
	}
	return scs
}

func TestVerifC07(t *testing.T) {
	vk.Run(t, "C07", "model_checking", func(c *vk.Ctx) {
		scs := c07Scenarios(c)
		var desc []string
		for _, sc := range scs {
			var bn []string
			for _, b := range sc.bases {
				bn = append(bn, b.name)
			}
			d := fmt.Sprintf("%s: bases {%s}, operations {%s}", sc.name, strings.Join(bn, ","), c07OpsString(sc.ops))
			if sc.note != "" {
				d += " (" + sc.note + ")"
			}
			desc = append(desc, d)
		}
		c.Rule("breadth-first search to the fixpoint (no depth bound) over real hashmap values, one search per scenario; a state is the structural dump of the map (count, nil slot, every trie node with bitmap/children/entries in order); every operation of the scenario is applied to every state; scenarios: " + strings.Join(desc, " | ") +
			"; keys have table-driven hashes: a0,a1,a2 identical hash B; p1/p2/p3/p4/p5/p6 share the low 5/10/15/20/25/30 bits with B; q6 and p6 differ from B only in the top 2 bits; c6 collides fully with p6; d0 differs in the lowest chunk; f<r>.<j> are 17 fillers with distinct chunks at trie level r under B's prefix (L<n> = n fillers loaded, S<n> = 17 loaded then removed down to n); class of a transition = operation kind x node kinds per trie level before>after")
		c.Assume("the state key is the full structure reachable from the map value, so structurally equal maps have equal futures (eq/hash functions are pure tables)",
			"values are the ints 1 and 2; keys are ints with a controllable hash or the nil key; the vals.Equal/vals.Hash instantiation is covered by C08",
			"MarshalJSON of a map containing the nil key is not judged (encoding/json has no such case)")
		// every version is retained, so keep the garbage of discarded duplicates small
		defer debug.SetGCPercent(debug.SetGCPercent(30))
		maxStates := vk.Pick(c, 400_000, 3_000_000)
		var states, trans, replayed, rechecked int64
		for i := range scs {
			if c.Violations() > 0 {
				c.Capped("scenarios after " + scs[i-1].name + " skipped because a violation was found")
				break
			}
			s := &c07Search{c: c, sc: &scs[i]}
			s.run(maxStates)
			states += int64(len(s.states))
			trans += s.trans
			c.Set("states_"+s.sc.name, len(s.states))
			if !s.aborted || len(s.states) > 0 {
				replayed += s.replayAll()
				rechecked += s.recheckAll()
			}
			if len(s.states) > 3 {
				c.Sample(s.traceString(int32(len(s.states) - 1)))
			}
		}
		c.Set("states", states)
		c.Set("transitions", trans)
		c.Set("traces_validated_against_impl", replayed)
		c.Set("versions_rechecked_at_end", rechecked)
	})
}
