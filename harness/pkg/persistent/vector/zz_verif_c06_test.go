//go:build verif

package vector

// C06: lists are immutable sequences that behave like arrays at every length.
//
// The reference model of a vector is a plain []int32 ("array copy"); every
// implementation step is compared with the same step on the array:
//   - conj appends, pop removes the last element (no value when empty),
//   - assoc i replaces element i for 0<=i<n, appends for i==n, no value otherwise,
//   - sub i j is the array slice for 0<=i<=j<=n, no value otherwise,
//   - index i is element i for 0<=i<n, nothing otherwise,
//   - iteration and JSON yield the elements in order,
//   - no step changes the receiver or any earlier version.

import (
	"crypto/sha1"
	"fmt"
	"slices"
	"sort"
	"strconv"
	"strings"
	"sync"
	"sync/atomic"
	"testing"
	"time"

	"src.elv.sh/pkg/zzverif/vk"
)

// C06ValsPart is set by the external test file (package vector_test), which
// may import pkg/eval/vals; it runs the part of the check that goes through
// vals.Index / vals.Assoc.
var C06ValsPart func(c *vk.Ctx)

// ---------------------------------------------------------------- reporting

type c06Viol struct{ key, msg string }

// c06Rep collects the violations of one task; tasks are reported in a fixed
// order afterwards so that the printed counterexample does not depend on
// goroutine scheduling.
type c06Rep struct {
	vs   []c06Viol
	seen map[string]bool
}

func (r *c06Rep) add(key, msg string) {
	if r.seen == nil {
		r.seen = map[string]bool{}
	}
	if r.seen[key] {
		return
	}
	r.seen[key] = true
	r.vs = append(r.vs, c06Viol{key, msg})
}

func (r *c06Rep) flush(c *vk.Ctx) {
	for _, v := range r.vs {
		c.Violate(v.key, v.msg, v.msg)
	}
}

// ---------------------------------------------------------------- operations

const (
	c06Conj = iota
	c06Pop
	c06Assoc
	c06Sub
)

type c06Op struct {
	k    int8
	i, j int32
	x    int32
}

func (o c06Op) name() string {
	switch o.k {
	case c06Conj:
		return "Conj"
	case c06Pop:
		return "Pop"
	case c06Assoc:
		return "Assoc"
	}
	return "SubVector"
}

func (o c06Op) String() string {
	switch o.k {
	case c06Conj:
		return fmt.Sprintf("Conj(%d)", o.x)
	case c06Pop:
		return "Pop()"
	case c06Assoc:
		return fmt.Sprintf("Assoc(%d,%d)", o.i, o.x)
	}
	return fmt.Sprintf("SubVector(%d,%d)", o.i, o.j)
}

// c06Model is the operation on the plain array. ok=false: "rejected, no value".
// The result is a fresh exact-size array, or is built in *buf when buf != nil
// (then it is only valid until buf is used again).
func c06Model(buf *[]int32, m []int32, o c06Op) ([]int32, bool) {
	n := int32(len(m))
	mk := func(src []int32, extra int) []int32 {
		k := len(src) + extra
		if buf == nil {
			r := make([]int32, k)
			copy(r, src)
			return r
		}
		if cap(*buf) < k {
			*buf = make([]int32, k, k+k/4+64)
		}
		r := (*buf)[:k]
		copy(r, src)
		return r
	}
	switch o.k {
	case c06Conj:
		r := mk(m, 1)
		r[n] = o.x
		return r, true
	case c06Pop:
		if n == 0 {
			return nil, false
		}
		return mk(m[:n-1], 0), true
	case c06Assoc:
		if o.i < 0 || o.i > n {
			return nil, false
		}
		if o.i == n {
			return c06Model(buf, m, c06Op{k: c06Conj, x: o.x})
		}
		r := mk(m, 0)
		r[o.i] = o.x
		return r, true
	}
	if o.i < 0 || o.j > n || o.i > o.j {
		return nil, false
	}
	return mk(m[o.i:o.j], 0), true
}

// c06Scratch: reusable buffers of one task (model results that are not retained, structure dumps).
type c06Scratch struct {
	a, b []int32
	dump []byte
}

var c06ScratchPool = sync.Pool{New: func() any { return &c06Scratch{} }}

func c06Apply(v Vector, o c06Op) Vector {
	switch o.k {
	case c06Conj:
		return v.Conj(int(o.x))
	case c06Pop:
		return v.Pop()
	case c06Assoc:
		return v.Assoc(int(o.i), int(o.x))
	}
	return v.SubVector(int(o.i), int(o.j))
}

// ---------------------------------------------------------------- observation

func c06Kind(v Vector) string {
	switch v.(type) {
	case *vector:
		return "vec"
	case *subVector:
		return "sub"
	}
	return fmt.Sprintf("%T", v)
}

// c06Show renders a value through Len/Index only (never panics).
func c06Show(v Vector) (s string) {
	if v == nil {
		return "<no value>"
	}
	if p := vk.Try(func() {
		n := v.Len()
		var sb strings.Builder
		fmt.Fprintf(&sb, "%s len %d [", c06Kind(v), n)
		for i := 0; i < n && i < 12; i++ {
			e, _ := v.Index(i)
			fmt.Fprintf(&sb, "%v ", e)
		}
		if n > 12 {
			sb.WriteString("...")
		}
		sb.WriteString("]")
		s = sb.String()
	}); p != "" {
		return c06Kind(v) + " (unprintable: " + p + ")"
	}
	return s
}

func c06ShowModel(m []int32) string {
	var sb strings.Builder
	fmt.Fprintf(&sb, "len %d [", len(m))
	for i := 0; i < len(m) && i < 12; i++ {
		fmt.Fprintf(&sb, "%d ", m[i])
	}
	if len(m) > 12 {
		sb.WriteString("...")
	}
	sb.WriteString("]")
	return sb.String()
}

// c06Same compares a value with its array model through the whole read API.
func c06Same(v Vector, m []int32, js bool) (kind, msg string) {
	n := len(m)
	if v == nil {
		return "no-value", "no value"
	}
	if got := v.Len(); got != n {
		return "wrong-length", fmt.Sprintf("Len() = %d, want %d", got, n)
	}
	for _, i := range [...]int{-1, -n - 1, n, n + 1, n + 32} {
		if i >= 0 && i < n {
			continue
		}
		if e, ok := v.Index(i); ok || e != nil {
			return "index-out-of-range-accepted", fmt.Sprintf("Index(%d) = (%v, %v) on length %d, want (nil, false)", i, e, ok, n)
		}
	}
	for i := 0; i < n; i++ {
		e, ok := v.Index(i)
		if !ok {
			return "index-in-range-rejected", fmt.Sprintf("Index(%d) not found on length %d", i, n)
		}
		if x, isInt := e.(int); !isInt || x != int(m[i]) {
			return "wrong-element", fmt.Sprintf("Index(%d) = %v, want %d", i, e, m[i])
		}
	}
	k := 0
	for it := v.Iterator(); it.HasElem(); it.Next() {
		if k >= n {
			return "iterator-too-long", fmt.Sprintf("iterator yields more than %d elements", n)
		}
		e := it.Elem()
		if x, isInt := e.(int); !isInt || x != int(m[k]) {
			return "iterator-wrong-element", fmt.Sprintf("iterator element %d = %v, want %d", k, e, m[k])
		}
		k++
	}
	if k != n {
		return "iterator-too-short", fmt.Sprintf("iterator yields %d elements, want %d", k, n)
	}
	if js {
		b, err := v.MarshalJSON()
		want := make([]byte, 0, 2+6*n)
		want = append(want, '[')
		for i, x := range m {
			if i > 0 {
				want = append(want, ',')
			}
			want = strconv.AppendInt(want, int64(x), 10)
		}
		want = append(want, ']')
		if err != nil || string(b) != string(want) {
			g := string(b)
			if len(g) > 80 {
				g = g[:80] + "..."
			}
			return "json", fmt.Sprintf("MarshalJSON = %s, %v (differs from the array's JSON)", g, err)
		}
	}
	return "", ""
}

// c06SameT is c06Same with panics turned into a failure kind.
func c06SameT(v Vector, m []int32, js bool) (kind, msg string) {
	if p := vk.Try(func() { kind, msg = c06Same(v, m, js) }); p != "" {
		return "panic:" + vk.PanicSite(p), p
	}
	return
}

var c06TailBucket = func() (b [40]string) {
	for i := range b {
		switch {
		case i == 0:
			b[i] = "t0"
		case i == 1:
			b[i] = "t1"
		case i < 32:
			b[i] = "t2-31"
		case i == 32:
			b[i] = "t32"
		default:
			b[i] = "t>32"
		}
	}
	return
}()

var c06H = [...]string{"h0", "h1", "h2", "h3", "h4", "h5"}

// c06Class: behaviour class of a value (representation kind, tree height, tail
// fill, root presence, window position for slices).
func c06Class(v Vector) string {
	switch v := v.(type) {
	case *vector:
		s := "V" + c06H[min(int(v.height), 5)] + c06TailBucket[min(len(v.tail), 39)]
		if v.root == nil {
			s += "-"
		}
		return s
	case *subVector:
		s := "S(" + c06Class(v.v) + ")"
		ts := v.v.treeSize()
		switch {
		case v.begin == v.end:
			s += "empty"
		case v.end <= ts:
			s += "tree"
		case v.begin >= ts:
			s += "tail"
		default:
			s += "both"
		}
		if v.begin == 0 {
			s += "^"
		}
		if v.end == v.v.count {
			s += "$"
		}
		return s
	case nil:
		return "none"
	}
	return "?"
}

func c06PosClass(i, n int32) string {
	s := ""
	switch {
	case i < 0:
		return "<0"
	case i > n:
		return ">n"
	case i == n:
		s = "n"
	case i == 0:
		s = "0"
	case i == n-1:
		s = "n-1"
	default:
		s = "in"
	}
	switch i & 31 {
	case 0:
		s += "|"
	case 31:
		s += "/"
	}
	return s
}

func (o c06Op) class(n int32) string {
	switch o.k {
	case c06Assoc:
		return "Assoc@" + c06PosClass(o.i, n)
	case c06Sub:
		if o.i > o.j {
			return "Sub@i>j"
		}
		return "Sub@" + c06PosClass(o.i, n) + ".." + c06PosClass(o.j, n)
	}
	return o.name()
}

var c06Steps atomic.Int64

// c06Step executes one operation on the implementation and on the array model,
// compares the outcome through the whole read API, and re-validates the
// receiver. ok reports whether a correct result value exists to continue from.
// The expected array is freshly allocated when buf == nil, otherwise built in *buf.
func c06Step(r *c06Rep, l *vk.Local, buf *[]int32, where string, v Vector, m []int32, o c06Op, js bool) (got Vector, wm []int32, ok bool) {
	pre := c06Kind(v) + "." + o.name()
	n := int32(len(m))
	wm, wok := c06Model(buf, m, o)
	desc := func() string {
		return fmt.Sprintf("%s; receiver %s; %s", where, c06Show(v), o)
	}
	cls := c06Class(v) + " " + o.class(n) + " -> "
	c06Steps.Add(1)
	if p := vk.Try(func() { got = c06Apply(v, o) }); p != "" {
		r.add(pre+":panic:"+vk.PanicSite(p), fmt.Sprintf("%s panicked: %s", desc(), p))
		l.Case(cls + "panic")
		return nil, nil, false
	}
	switch {
	case !wok && got != nil:
		r.add(pre+":out-of-range-accepted", fmt.Sprintf("%s returned %s; the request is out of range for length %d, want no value", desc(), c06Show(got), n))
		cls += "accepted-out-of-range"
	case !wok:
		cls += "rejected"
	case got == nil:
		r.add(pre+":in-range-rejected", fmt.Sprintf("%s returned no value, want %s", desc(), c06ShowModel(wm)))
		cls += "rejected-in-range"
	default:
		if k, msg := c06SameT(got, wm, js); k != "" {
			r.add(pre+":result-"+k, fmt.Sprintf("%s returned %s, want %s: %s", desc(), c06Show(got), c06ShowModel(wm), msg))
			cls += "wrong"
		} else {
			ok = true
			cls += c06Class(got)
		}
	}
	if k, msg := c06SameT(v, m, false); k != "" {
		r.add(pre+":receiver-changed", fmt.Sprintf("%s changed its receiver (%s), which must stay %s: %s", desc(), k, c06ShowModel(m), msg))
	}
	l.Case(cls)
	return got, wm, ok
}

// ---------------------------------------------------------------- positions

var c06Boundaries = []int{32, 64, 1024, 1056, 32768, 32800}

// c06Positions: all of -1..n+1 for n<=full, otherwise the positions next to the
// ends, the middle, and every chunk / height boundary (shifted by off, the
// offset of a slice inside its underlying vector).
func c06Positions(n, full, off int) []int {
	var ps []int
	if n <= full {
		for i := -1; i <= n+1; i++ {
			ps = append(ps, i)
		}
		return ps
	}
	set := map[int]bool{}
	add := func(i int) {
		if i >= -1 && i <= n+1 {
			set[i] = true
		}
	}
	for _, i := range []int{-1, 0, 1, n / 2, n - 1, n, n + 1} {
		add(i)
	}
	last := ((n + off - 1) >> 5) << 5 // start of the tail of a vector of length n+off
	for _, b := range append([]int{last}, c06Boundaries...) {
		for d := -1; d <= 1; d++ {
			add(b - off + d)
		}
	}
	for i := range set {
		ps = append(ps, i)
	}
	sort.Ints(ps)
	return ps
}

// ---------------------------------------------------------------- sweeps

// c06Chain holds the versions v_0..v_N obtained by conj from Empty (element i = i).
type c06Chain struct {
	v []Vector
	m [][]int32
}

func c06BuildChain(r *c06Rep, l *vk.Local, upto, keepTo, keepFrom int) *c06Chain {
	ch := &c06Chain{v: make([]Vector, upto+1), m: make([][]int32, upto+1)}
	var v Vector = Empty
	m := []int32{}
	for n := 0; ; n++ {
		if n <= keepTo || n >= keepFrom {
			ch.v[n], ch.m[n] = v, m
		}
		if n == upto {
			break
		}
		// Full validation of each conj for the lengths that are swept, a cheap one
		// on the long run-up to the height-3 boundary.
		if n <= keepTo || n >= keepFrom-1 {
			g, gm, ok := c06Step(r, l, nil, "conj chain from Empty", v, m, c06Op{k: c06Conj, x: int32(n)}, false)
			if !ok {
				return nil
			}
			v, m = g, gm
		} else {
			v = v.Conj(n)
			m = append(m, int32(n)) // stored arrays are exact-size copies, so this never writes into one
		}
	}
	return ch
}

// c06Ways builds length n in three ways: (0) conj from empty, (1) pop from n+1,
// (2) conj to n+33, pop down to max(0,n-33), conj up again with new values.
func c06Ways(r *c06Rep, l *vk.Local, ch *c06Chain, n int, way int) (Vector, []int32, bool) {
	switch way {
	case 0:
		return ch.v[n], ch.m[n], true
	case 1:
		return c06Step(r, l, nil, fmt.Sprintf("conj-built vector of length %d", n+1), ch.v[n+1], ch.m[n+1], c06Op{k: c06Pop}, false)
	}
	v, m := ch.v[n+33], ch.m[n+33]
	where := fmt.Sprintf("vector built by conj to %d, pop to %d, conj to %d", n+33, max(0, n-33), n)
	ok := true
	for len(m) > max(0, n-33) && ok {
		v, m, ok = c06Step(r, l, nil, where, v, m, c06Op{k: c06Pop}, false)
	}
	for len(m) < n && ok {
		v, m, ok = c06Step(r, l, nil, where, v, m, c06Op{k: c06Conj, x: int32(20000 + len(m))}, false)
	}
	return v, m, ok
}

func c06LengthSweep(r *c06Rep, l *vk.Local, ch *c06Chain, n int, full int) {
	sc := c06ScratchPool.Get().(*c06Scratch)
	defer c06ScratchPool.Put(sc)
	for way := 0; way < 3; way++ {
		v, m, ok := c06Ways(r, l, ch, n, way)
		if !ok {
			continue
		}
		where := fmt.Sprintf("length %d built way %d", n, way)
		if k, msg := c06SameT(v, m, true); k != "" {
			r.add("vec.state:"+k, where+": "+c06Show(v)+": "+msg)
			continue
		}
		for _, i := range c06Positions(n, full, 0) {
			c06Step(r, l, &sc.a, where, v, m, c06Op{k: c06Assoc, i: int32(i), x: int32(-7 - i)}, false)
		}
		c06Step(r, l, &sc.a, where, v, m, c06Op{k: c06Conj, x: -3}, false)
		c06Step(r, l, &sc.a, where, v, m, c06Op{k: c06Pop}, false)
	}
}

// c06SubSweep: every slice (i,j) of the base, and on every slice every
// operation again, including every slice of the slice.
func c06SubSweep(r *c06Rep, l *vk.Local, base Vector, bm []int32, i int, full int) {
	n := len(bm)
	sc := c06ScratchPool.Get().(*c06Scratch)
	defer c06ScratchPool.Put(sc)
	where := fmt.Sprintf("conj-built vector of length %d", n)
	for _, j := range c06Positions(n, full, 0) {
		s, sm, ok := c06Step(r, l, nil, where, base, bm, c06Op{k: c06Sub, i: int32(i), j: int32(j)}, n <= full)
		if !ok {
			continue
		}
		m := len(sm)
		w2 := fmt.Sprintf("%s sliced (%d,%d)", where, i, j)
		ps := c06Positions(m, full, i)
		for _, a := range ps {
			c06Step(r, l, &sc.a, w2, s, sm, c06Op{k: c06Assoc, i: int32(a), x: int32(-7 - a)}, false)
		}
		c06Step(r, l, &sc.a, w2, s, sm, c06Op{k: c06Conj, x: -3}, false)
		c06Step(r, l, &sc.a, w2, s, sm, c06Op{k: c06Pop}, false)
		for _, a := range ps {
			for _, b := range ps {
				ss, ssm, ok := c06Step(r, l, &sc.a, w2, s, sm, c06Op{k: c06Sub, i: int32(a), j: int32(b)}, false)
				if !ok || a != b-1 && a != 0 && b != m {
					continue
				}
				// a few further steps on the slice of the slice
				w3 := fmt.Sprintf("%s sliced (%d,%d)", w2, a, b)
				k := int32(len(ssm))
				c06Step(r, l, &sc.b, w3, ss, ssm, c06Op{k: c06Sub, i: 0, j: k + 1}, false)
				c06Step(r, l, &sc.b, w3, ss, ssm, c06Op{k: c06Sub, i: -1, j: k}, false)
				c06Step(r, l, &sc.b, w3, ss, ssm, c06Op{k: c06Conj, x: -4}, false)
				c06Step(r, l, &sc.b, w3, ss, ssm, c06Op{k: c06Assoc, i: k - 1, x: -5}, false)
			}
		}
		// the underlying vector must not have been touched by any of this
		if k, msg := c06SameT(base, bm, false); k != "" {
			r.add("earlier-version-changed", fmt.Sprintf("%s: operations on its slice (%d,%d) changed the vector itself: %s", where, i, j, msg))
		}
	}
}

// ---------------------------------------------------------------- BFS

// c06Key is the canonical key of a state: a hash of the complete private
// structure (kind, window, count, height, tail, every tree node).
func c06Key(buf *[]byte, v Vector) [20]byte {
	b := (*buf)[:0]
	defer func() { *buf = b }()
	switch v := v.(type) {
	case *vector:
		b = append(b, 'V')
		b = c06DumpVec(b, v)
	case *subVector:
		b = append(b, 'S')
		b = c06PutInt(b, v.begin)
		b = c06PutInt(b, v.end)
		b = c06DumpVec(b, v.v)
	default:
		b = append(b, fmt.Sprintf("%T", v)...)
	}
	return sha1.Sum(b)
}

func c06PutInt(b []byte, x int) []byte {
	return append(b, byte(x), byte(x>>8), byte(x>>16), byte(x>>24))
}

func c06PutElem(b []byte, e any) []byte {
	switch e := e.(type) {
	case nil:
		return append(b, 'n')
	case int:
		return c06PutInt(append(b, 'i'), e)
	case node:
		return append(b, 'N')
	}
	return append(b, '?')
}

func c06DumpVec(b []byte, v *vector) []byte {
	b = c06PutInt(b, v.count)
	b = c06PutInt(b, int(v.height))
	b = c06PutInt(b, len(v.tail))
	for _, e := range v.tail {
		b = c06PutElem(b, e)
	}
	return c06DumpNode(b, v.height, v.root)
}

func c06DumpNode(b []byte, h uint, n node) []byte {
	if n == nil {
		return append(b, '-')
	}
	b = append(b, '(')
	for _, e := range n {
		if h == 0 {
			b = c06PutElem(b, e)
		} else if ch, ok := e.(node); ok {
			b = c06DumpNode(b, h-1, ch)
		} else if e == nil {
			b = append(b, '-')
		} else {
			b = append(b, '?')
		}
	}
	return append(b, ')')
}

type c06Ver struct {
	v      Vector
	m      []int32
	parent int32 // index of the state it was derived from; -1 for roots
	op     c06Op
	depth  int8
}

type c06Succ struct {
	v   Vector
	m   []int32
	key [20]byte
	op  c06Op
}

func c06Trace(vers []c06Ver, idx int32) string {
	var ops []string
	for vers[idx].parent >= 0 {
		ops = append(ops, vers[idx].op.String())
		idx = vers[idx].parent
	}
	var sb strings.Builder
	fmt.Fprintf(&sb, "conj-built vector of length %d", len(vers[idx].m))
	for i := len(ops) - 1; i >= 0; i-- {
		sb.WriteString("." + ops[i])
	}
	return sb.String()
}

// c06BfsOps is the operation alphabet in a state whose array is m.
func c06BfsOps(m []int32) (branch []c06Op, probes []c06Op) {
	n := int32(len(m))
	tog := func(i int32) int32 {
		if i < 0 || i >= n {
			return -1
		}
		return ^m[i]
	}
	branch = []c06Op{
		{k: c06Conj, x: n},
		{k: c06Conj, x: ^n},
		{k: c06Pop},
		{k: c06Assoc, i: 0, x: tog(0)},
		{k: c06Assoc, i: n / 2, x: tog(n / 2)},
		{k: c06Assoc, i: n - 1, x: tog(n - 1)},
		{k: c06Sub, i: 0, j: n - 1},
		{k: c06Sub, i: 1, j: n},
	}
	probes = []c06Op{
		{k: c06Sub, i: 0, j: n + 1},
		{k: c06Sub, i: -1, j: n},
		{k: c06Sub, i: n, j: n + 32},
		{k: c06Assoc, i: n + 1, x: -2},
		{k: c06Assoc, i: -1, x: -2},
	}
	if n >= 1 {
		probes = append(probes, c06Op{k: c06Sub, i: 1, j: 0}, c06Op{k: c06Sub, i: n, j: n}, c06Op{k: c06Sub, i: 0, j: 0})
	}
	return
}

func c06BFS(c *vk.Ctx, tag string, ch *c06Chain, roots []int, depth int) {
	vers := make([]c06Ver, 0, 1<<21)
	visited := map[[20]byte]int32{}
	var frontier []int32
	for _, n := range roots {
		var kb []byte
		k := c06Key(&kb, ch.v[n])
		if _, dup := visited[k]; dup {
			continue
		}
		visited[k] = int32(len(vers))
		frontier = append(frontier, int32(len(vers)))
		vers = append(vers, c06Ver{v: ch.v[n], m: ch.m[n], parent: -1})
	}
	states, transitions, rejected, dupVersions := int64(len(vers)), int64(0), int64(0), int64(0)
	var perLevel []int64
	perLevel = append(perLevel, states)

	revalidate := func(level int) {
		reps := make([]c06Rep, vk.Workers()*8)
		chunk := (len(vers) + len(reps) - 1) / len(reps)
		c.Parallel(len(reps), func(l *vk.Local, t int) {
			for i := t * chunk; i < (t+1)*chunk && i < len(vers); i++ {
				if k, msg := c06SameT(vers[i].v, vers[i].m, false); k != "" {
					tr := ""
					if vers[i].parent < 0 {
						tr = c06Trace(vers, int32(i))
					} else {
						tr = c06Trace(vers, vers[i].parent) + "." + vers[i].op.String()
					}
					reps[t].add("earlier-version-changed", fmt.Sprintf("the version obtained as %s was validated as %s when it was created, but after BFS level %d it reads %s: %s", tr, c06ShowModel(vers[i].m), level, c06Show(vers[i].v), msg))
					return
				}
			}
		})
		for i := range reps {
			reps[i].flush(c)
		}
	}

	for level := 1; level <= depth && len(frontier) > 0; level++ {
		succs := make([][]c06Succ, len(frontier))
		reps := make([]c06Rep, len(frontier))
		rej := make([]int64, len(frontier))
		c.Parallel(len(frontier), func(l *vk.Local, t int) {
			idx := frontier[t]
			st := vers[idx]
			sc := c06ScratchPool.Get().(*c06Scratch)
			defer c06ScratchPool.Put(sc)
			where := c06Trace(vers, idx)
			branch, probes := c06BfsOps(st.m)
			for _, o := range branch {
				got, gm, ok := c06Step(&reps[t], l, &sc.a, where, st.v, st.m, o, false)
				if !ok {
					rej[t]++
					continue
				}
				var key [20]byte
				if p := vk.Try(func() { key = c06Key(&sc.dump, got) }); p != "" {
					reps[t].add("structure-dump-panic", where+"."+o.String()+": "+p)
					continue
				}
				if rep, seen := visited[key]; !seen {
					// first sight of this structure: JSON too (short values only: the
					// implementation's JSON costs one allocation per element), and keep the array
					if len(gm) <= 100 {
						if k, msg := c06SameT(got, gm, true); k != "" {
							reps[t].add(c06Kind(st.v)+"."+o.name()+":result-"+k, fmt.Sprintf("%s.%s: %s", where, o, msg))
							continue
						}
					}
					gm = append(make([]int32, 0, len(gm)), gm...)
				} else {
					// equal structure => equal contents; the version shares the array of the representative
					if !slices.Equal(vers[rep].m, gm) {
						reps[t].add("equal-structure-different-contents", fmt.Sprintf("%s.%s has the same private structure as %s but the arrays differ", where, o, c06Trace(vers, rep)))
					}
					gm = vers[rep].m
				}
				succs[t] = append(succs[t], c06Succ{got, gm, key, o})
			}
			for _, o := range probes {
				c06Step(&reps[t], l, &sc.a, where, st.v, st.m, o, false)
				rej[t]++
			}
			// every ancestor version must still read as recorded
			for a := st.parent; a >= 0; a = vers[a].parent {
				if k, msg := c06SameT(vers[a].v, vers[a].m, false); k != "" {
					reps[t].add("earlier-version-changed", fmt.Sprintf("after the operations on %s, its ancestor %s no longer reads %s: %s", where, c06Trace(vers, a), c06ShowModel(vers[a].m), msg))
				}
			}
		})
		var next []int32
		for t := range frontier {
			reps[t].flush(c)
			rejected += rej[t]
			for _, s := range succs[t] {
				transitions++
				id := int32(len(vers))
				if rep, seen := visited[s.key]; seen {
					// (found in the same level: compare here)
					if !slices.Equal(vers[rep].m, s.m) {
						c.Violate("equal-structure-different-contents", fmt.Sprintf("%s.%s has the same private structure as %s but the arrays differ", c06Trace(vers, frontier[t]), s.op, c06Trace(vers, rep)), nil)
					}
					dupVersions++
					vers = append(vers, c06Ver{v: s.v, m: vers[rep].m, parent: frontier[t], op: s.op, depth: int8(level)})
					continue
				}
				visited[s.key] = id
				vers = append(vers, c06Ver{v: s.v, m: s.m, parent: frontier[t], op: s.op, depth: int8(level)})
				states++
				next = append(next, id)
			}
		}
		perLevel = append(perLevel, int64(len(next)))
		if len(next) > 0 && (level == 3 || level == depth) {
			c.Sample(c06Trace(vers, next[len(next)/2]))
		}
		frontier = next
		revalidate(level)
	}
	c.Add("states", states)
	c.Add("transitions", transitions)
	c.Add("traces_validated_against_impl", transitions)
	c.Add("bfs_rejected_requests_checked", rejected)
	c.Add("bfs_versions_retained_and_revalidated", int64(len(vers)))
	c.Add("bfs_duplicate_versions", dupVersions)
	c.Set("bfs_"+tag+"_new_states_per_level", perLevel)
	c.Set("bfs_"+tag+"_depth", depth)
	c.Set("bfs_"+tag+"_roots", len(roots))
}

// ---------------------------------------------------------------- the check

func TestVerifC06(t *testing.T) {
	vk.Run(t, "C06", "model_checking", func(c *vk.Ctx) {
		maxLen := vk.Pick(c, 1100, 1300)
		subFull := vk.Pick(c, 48, 72)
		depth := vk.Pick(c, 6, 7)
		thorough := c.Thorough()
		c.Rule(fmt.Sprintf("(1) length sweep: every length 0..%d%s built three ways (conj; pop from n+1; conj/pop/conj), Assoc at every index -1..n+1, Conj, Pop, each result and the receiver compared with the array through Len, Index(every i), iterator (+JSON of the base); (2) slice sweep: every (i,j) in -1..n+1 for n<=%d and boundary positions for n in {63..67,1023..1026,1055..1058%s}, and on every slice every Assoc/Conj/Pop and every slice of the slice; (3) breadth-first search to depth %d from the conj-built vectors of lengths 0..70 and to depth %d from those of lengths 1050..1062 over {conj a, conj b, pop, assoc first/mid/last, sub(0,n-1), sub(1,n)} plus rejected-request probes, states de-duplicated on a hash of the private structure; (4) vals.Index/vals.Assoc on lists. class = (representation and tree shape of the receiver, operation and position class, shape of the result or rejection)",
			maxLen, map[bool]string{true: " and 32797..32803", false: ""}[thorough], subFull, map[bool]string{true: ",32799..32802", false: ""}[thorough], depth, depth-1))
		c.Assume("elements are ints; the reference model is a plain []int32 copy",
			"BFS de-duplication assumes that two values with identical private structure have identical futures (every transition is nevertheless executed on a real value and validated)",
			"concurrent use of one vector from several goroutines is exercised only incidentally (parallel workers share versions)")

		phaseStart := time.Now()
		phases := map[string]float64{}
		phase := func(name string) {
			phases[name] = float64(time.Since(phaseStart).Milliseconds()) / 1000
			phaseStart = time.Now()
			c.Set("phase_seconds", phases)
		}
		keepTo := maxLen + 34
		upto, keepFrom := keepTo, keepTo+1
		if thorough {
			upto, keepFrom = 32803+34, 32700
		}
		var chRep c06Rep
		l0 := vk.NewLocal()
		ch := c06BuildChain(&chRep, l0, upto, keepTo, keepFrom)
		c.Merge(l0)
		chRep.flush(c)
		if ch == nil {
			return
		}

		// (1) length sweep, big lengths first for load balance
		var lens []int
		for n := 0; n <= maxLen; n++ {
			lens = append(lens, n)
		}
		if thorough {
			for n := 32797; n <= 32803; n++ {
				lens = append(lens, n)
			}
		}
		reps := make([]c06Rep, len(lens))
		c.Parallel(len(lens), func(l *vk.Local, t int) {
			t = len(lens) - 1 - t
			c06LengthSweep(&reps[t], l, ch, lens[t], 1400)
		})
		for i := range reps {
			reps[i].flush(c)
		}
		c.Set("length_sweep_lengths", len(lens))
		phase("1-length-sweep")

		// (2) slice sweep
		type task struct{ n, i int }
		var subLens []int
		for n := 0; n <= subFull; n++ {
			subLens = append(subLens, n)
		}
		subLens = append(subLens, 63, 64, 65, 66, 67, 1023, 1024, 1025, 1026, 1055, 1056, 1057, 1058)
		if thorough {
			subLens = append(subLens, 32799, 32800, 32801, 32802)
		}
		var tasks []task
		for k := len(subLens) - 1; k >= 0; k-- {
			n := subLens[k]
			if n <= subFull && k >= subFull+1 {
				continue
			}
			for _, i := range c06Positions(n, subFull, 0) {
				tasks = append(tasks, task{n, i})
			}
		}
		reps = make([]c06Rep, len(tasks))
		c.Parallel(len(tasks), func(l *vk.Local, t int) {
			c06SubSweep(&reps[t], l, ch.v[tasks[t].n], ch.m[tasks[t].n], tasks[t].i, subFull)
		})
		for t := len(tasks) - 1; t >= 0; t-- { // ascending n
			reps[t].flush(c)
		}
		c.Set("slice_sweep_lengths", len(subLens))
		c.Set("sweep_steps_validated", c06Steps.Load())

		// the chain versions must have survived all of the above
		var rr c06Rep
		for n := range ch.v {
			if ch.v[n] == nil {
				continue
			}
			if k, msg := c06SameT(ch.v[n], ch.m[n], false); k != "" {
				rr.add("earlier-version-changed", fmt.Sprintf("conj-built vector of length %d no longer reads as its array after the sweeps: %s", n, msg))
				break
			}
		}
		rr.flush(c)
		phase("2-slice-sweep")

		// (3) BFS
		var roots []int
		for n := 0; n <= 70; n++ {
			roots = append(roots, n)
		}
		c06BFS(c, "short", ch, roots, depth)
		roots = nil
		for n := 1050; n <= 1062; n++ {
			roots = append(roots, n)
		}
		c06BFS(c, "long", ch, roots, depth-1)
		c.Set("steps_validated_total", c06Steps.Load())
		phase("3-bfs")

		// (4) through vals
		if C06ValsPart != nil {
			C06ValsPart(c)
		} else {
			c.Set("vals_part", "not linked")
		}
		phase("4-vals")
	})
}
